import Rox.Base
import Rox.Stream
import Rox.Tok
import Rox.Doc
import Rox.Api
import Rox.Build
import Rox.Parse
