/-
  Rox.Lemmas.GrammarTables — the table facts of `Rox.Lemmas.TablesGrammar` hold of the tables
  extracted from the current build, grammar soundness for these tables, and a concrete accepted
  document (the hypothesis of `accepted_is_wellformed` is satisfiable).
-/
import Rox.Generated
import Rox.Props.C01
import Rox.Lemmas.GrammarSound

namespace Rox.Lemmas
open Rox Rox.Spec.Grammar

/-- every byte is one of the 256 values (as `Rox.Props.C03.all_bytes`, restated here so that
`Rox.Props.C08` can import this file) -/
theorem all_bytes_g (P : UInt8 → Prop) (h : ∀ i : Fin 256, P (UInt8.ofNat i.val)) : ∀ b : UInt8, P b := by
  intro b
  have := h ⟨b.toNat, by have := b.toNat_lt; omega⟩
  simpa using this

/-- On ASCII the byte classes of the tokenizer's fast paths are contained in the character classes
(re-checked whenever `Generated.lean` changes). -/
theorem generated_tables_grammar : TablesGrammar Rox.Generated.tables := by
  refine ⟨?_, ?_, ?_⟩
  · apply all_bytes_g; decide +kernel
  · apply all_bytes_g; decide +kernel
  · apply all_bytes_g; decide +kernel

/-- **Grammar soundness for the tables of the build**: whatever `parse` accepts with
`allow_dtd = false` is a well-formed XML 1.0 document (`Rox.Spec.Grammar.WellFormed`). -/
theorem accepted_is_wellformed_generated (txt : Bytes) (hv : ValidUtf8 txt) (opt : Opt)
    (hdtd : opt.allowDtd = false) (d : Doc) (h : parse Rox.Generated.tables txt opt = .ok d) :
    WellFormed Rox.Generated.tables txt :=
  accepted_is_wellformed _ Rox.Props.C01.generated_tables_ok generated_tables_grammar txt hv opt hdtd d h

/-- `<a b='1'>x<!--c--><?p v?></a>` -/
def exampleDoc : Bytes :=
  [60, 97, 32, 98, 61, 39, 49, 39, 62, 120, 60, 33, 45, 45, 99, 45, 45, 62, 60, 63, 112, 32, 118, 63, 62,
   60, 47, 97, 62]

/-- the hypotheses of grammar soundness are satisfiable: the example is valid UTF-8 and accepted
under the default options -/
theorem exampleDoc_accepted :
    ValidUtf8 exampleDoc ∧ ∃ d, parse Rox.Generated.tables exampleDoc {} = .ok d := by
  refine ⟨by unfold ValidUtf8; decide +kernel, ?_⟩
  have h : (parse Rox.Generated.tables exampleDoc {}).isOk = true := by decide +kernel
  cases hp : parse Rox.Generated.tables exampleDoc {} with
  | ok d => exact ⟨d, rfl⟩
  | err e => rw [hp] at h; cases h
  | panic s => rw [hp] at h; cases h
  | fuel => rw [hp] at h; cases h

/-- non-vacuity: the example document is well-formed in the sense of the grammar -/
theorem exampleDoc_wellformed : WellFormed Rox.Generated.tables exampleDoc := by
  obtain ⟨hv, d, hd⟩ := exampleDoc_accepted
  exact accepted_is_wellformed_generated exampleDoc hv {} rfl d hd

end Rox.Lemmas
