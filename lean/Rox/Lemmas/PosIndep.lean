/-
  Rox.Lemmas.PosIndep — C19: the `positions` feature only adds ranges. Parsing without it gives
  exactly the result of parsing with it, with every stored range erased: same Ok/Err outcome, same
  error value, same nodes, links, strings, attributes and namespaces.
-/
import Rox.Parse
import Rox.Lemmas.Size

namespace Rox.Lemmas
open Rox

/-- What a build without `positions` stores instead of the ranges. -/
def eraseNode (n : NodeData) : NodeData := { n with range := (0, 0) }
def eraseAttr (a : AttrData) : AttrData := { a with range := (0, 0), qnameLen := 0, eqLen := 0 }
def eraseDoc (d : Doc) : Doc :=
  { d with nodes := d.nodes.map eraseNode, attrs := d.attrs.map eraseAttr }

def Res.mapOk {α β} (f : α → β) : Res α → Res β
  | .ok a => .ok (f a)
  | .err e => .err e
  | .panic s => .panic s
  | .fuel => .fuel

namespace PosIndep
set_option linter.unusedSimpArgs false

@[simp] theorem mapOk_ok {α β} (f : α → β) (a : α) : Res.mapOk f (.ok a) = .ok (f a) := rfl
@[simp] theorem mapOk_err {α β} (f : α → β) (e : Err) : Res.mapOk f (.err e : Res α) = .err e := rfl
@[simp] theorem mapOk_panic {α β} (f : α → β) (s : String) :
    Res.mapOk f (.panic s : Res α) = .panic s := rfl
@[simp] theorem mapOk_fuel {α β} (f : α → β) : Res.mapOk f (.fuel : Res α) = .fuel := rfl

theorem mapOk_id {α} (m : Res α) : Res.mapOk id m = m := by cases m <;> rfl
theorem mapOk_id' {α} (m : Res α) : Res.mapOk (fun a => a) m = m := by cases m <;> rfl

/-- The bind rule of the simulation. -/
theorem bind_sim {α α' β β'} {m0 : Res α} {m1 : Res α'} {f : α' → α} {g : β' → β}
    {k0 : α → Res β} {k1 : α' → Res β'}
    (h : m0 = Res.mapOk f m1) (hk : ∀ a, k0 (f a) = Res.mapOk g (k1 a)) :
    (m0 >>= k0) = Res.mapOk g (m1 >>= k1) := by
  subst h; cases m1 <;> simp [hk]

/-- Same computation on both sides (nothing erased). -/
theorem bind_same {α β β'} {m : Res α} {g : β' → β} {k0 : α → Res β} {k1 : α → Res β'}
    (hk : ∀ a, k0 a = Res.mapOk g (k1 a)) :
    (m >>= k0) = Res.mapOk g (m >>= k1) := by
  cases m <;> simp [hk]

theorem mapOk_errPos {α β} (txt : Bytes) (f : α → β) (mk : TextPos → Err) (p : Nat) :
    Res.mapOk f (errPos txt mk p : Res α) = errPos txt mk p := by
  unfold errPos errFrom; cases genTextPosFrom txt p <;> rfl

theorem mapOk_errFrom {α β} (txt : Bytes) (f : α → β) (mk : TextPos → Err) (p : Nat) :
    Res.mapOk f (errFrom txt mk p : Res α) = errFrom txt mk p := by
  unfold errFrom; cases genTextPosFrom txt p <;> rfl

theorem mapOk_errAt {α β} (txt : Bytes) (f : α → β) (mk : TextPos → Err) (p : Nat) :
    Res.mapOk f (errAt txt mk p : Res α) = errAt txt mk p := by
  unfold errAt; cases genTextPos txt p <;> rfl

/-- The context of the run without `positions`, as a function of the context of the run with. -/
def eC (c : Ctx) : Ctx := { c with positions := false, doc := eraseDoc c.doc }

@[simp] theorem eC_positions (c : Ctx) : (eC c).positions = false := rfl
@[simp] theorem eC_doc (c : Ctx) : (eC c).doc = eraseDoc c.doc := rfl
@[simp] theorem eC_nodesLimit (c : Ctx) : (eC c).nodesLimit = c.nodesLimit := rfl
@[simp] theorem eC_nsStartIdx (c : Ctx) : (eC c).nsStartIdx = c.nsStartIdx := rfl
@[simp] theorem eC_xmlDeclared (c : Ctx) : (eC c).xmlDeclared = c.xmlDeclared := rfl
@[simp] theorem eC_curAttrs (c : Ctx) : (eC c).curAttrs = c.curAttrs := rfl
@[simp] theorem eC_awaiting (c : Ctx) : (eC c).awaiting = c.awaiting := rfl
@[simp] theorem eC_parentPrefixes (c : Ctx) : (eC c).parentPrefixes = c.parentPrefixes := rfl
@[simp] theorem eC_entityFloor (c : Ctx) : (eC c).entityFloor = c.entityFloor := rfl
@[simp] theorem eC_entities (c : Ctx) : (eC c).entities = c.entities := rfl
@[simp] theorem eC_afterText (c : Ctx) : (eC c).afterText = c.afterText := rfl
@[simp] theorem eC_parentId (c : Ctx) : (eC c).parentId = c.parentId := rfl
@[simp] theorem eC_tagName (c : Ctx) : (eC c).tagName = c.tagName := rfl
@[simp] theorem eC_ld (c : Ctx) : (eC c).ld = c.ld := rfl
@[simp] theorem eC_trace (c : Ctx) : (eC c).trace = c.trace := rfl
@[simp] theorem eC_maxDepth (c : Ctx) : (eC c).maxDepth = c.maxDepth := rfl

@[simp] theorem eraseDoc_nodes (d : Doc) : (eraseDoc d).nodes = d.nodes.map eraseNode := rfl
@[simp] theorem eraseDoc_attrs (d : Doc) : (eraseDoc d).attrs = d.attrs.map eraseAttr := rfl
@[simp] theorem eraseDoc_ns (d : Doc) : (eraseDoc d).ns = d.ns := rfl

@[simp] theorem eraseNode_parent (n : NodeData) : (eraseNode n).parent = n.parent := rfl
@[simp] theorem eraseNode_prevSibling (n : NodeData) : (eraseNode n).prevSibling = n.prevSibling := rfl
@[simp] theorem eraseNode_nextSubtree (n : NodeData) : (eraseNode n).nextSubtree = n.nextSubtree := rfl
@[simp] theorem eraseNode_lastChild (n : NodeData) : (eraseNode n).lastChild = n.lastChild := rfl
@[simp] theorem eraseNode_kind (n : NodeData) : (eraseNode n).kind = n.kind := rfl
@[simp] theorem eraseNode_range (n : NodeData) : (eraseNode n).range = (0, 0) := rfl
@[simp] theorem eraseNode_idem (n : NodeData) : eraseNode (eraseNode n) = eraseNode n := rfl

@[simp] theorem eraseAttr_nsIdx (a : AttrData) : (eraseAttr a).nsIdx = a.nsIdx := rfl
@[simp] theorem eraseAttr_localName (a : AttrData) : (eraseAttr a).localName = a.localName := rfl
@[simp] theorem eraseAttr_value (a : AttrData) : (eraseAttr a).value = a.value := rfl

/-! ### Node access -/

theorem nodeAt_eC (c : Ctx) (i : Nat) :
    (eC c).nodeAt i = Res.mapOk eraseNode (c.nodeAt i) := by
  unfold Ctx.nodeAt
  simp only [eC_doc, eraseDoc_nodes, Array.getElem?_map]
  cases c.doc.nodes[i]? <;> rfl

theorem setNode_eC (c : Ctx) (i : Nat) (n : NodeData) :
    (eC c).setNode i (eraseNode n) = eC (c.setNode i n) := by
  simp only [Ctx.setNode, eC, eraseDoc, Array.map_setIfInBounds]

theorem setNextSubtree_erase (new : Nat) (l : List Nat) (nodes : Array NodeData) :
    Ctx.setNextSubtree (nodes.map eraseNode) new l =
      Res.mapOk (·.map eraseNode) (Ctx.setNextSubtree nodes new l) := by
  induction l generalizing nodes with
  | nil => rfl
  | cons id r ih =>
    simp only [Ctx.setNextSubtree, Array.getElem?_map]
    cases h : nodes[id]? with
    | none => rfl
    | some n =>
      simp only [Option.map_some]
      rw [← ih]
      simp only [Array.map_setIfInBounds]
      rfl

/-- Lift of `eC` to results that carry a second component. -/
def eC2 {α} (p : Ctx × α) : Ctx × α := (eC p.1, p.2)

theorem set_erase (arr : Array NodeData) (i : Nat) (m m' : NodeData) (h : m = eraseNode m') :
    (arr.map eraseNode).setIfInBounds i m = (arr.setIfInBounds i m').map eraseNode := by
  rw [Array.map_setIfInBounds, h]

theorem appendNode_eC (c : Ctx) (kind : Kind) (range : Range) :
    (eC c).appendNode kind range = Res.mapOk eC2 (c.appendNode kind range) := by
  unfold Ctx.appendNode
  simp only [eC_doc, eraseDoc_nodes, Array.size_map, eC_nodesLimit, eC_positions, eC_parentId,
    eC_awaiting, Bool.false_eq_true, ↓reduceIte]
  split
  · rfl
  · apply bind_same
    intro newId
    have hp : (c.doc.nodes.map eraseNode).push
          { parent := some c.parentId, prevSibling := none, nextSubtree := none, lastChild := none,
            kind := kind, range := (0, 0) } =
        (c.doc.nodes.push
          { parent := some c.parentId, prevSibling := none, nextSubtree := none, lastChild := none,
            kind := kind, range := if c.positions = true then range else (0, 0) }).map eraseNode := by
      rw [Array.map_push]; rfl
    rw [hp]
    generalize c.doc.nodes.push _ = nodes
    simp only [Array.getElem?_map]
    cases nodes[c.parentId]? with
    | none => rfl
    | some p =>
      cases nodes[newId]? with
      | none => rfl
      | some n =>
        simp only [Option.map_some]
        rw [set_erase (m' := { n with prevSibling := p.lastChild })]
        rotate_left
        · rfl
        generalize nodes.setIfInBounds newId _ = nodes2
        simp only [Array.getElem?_map]
        cases nodes2[c.parentId]? with
        | none => rfl
        | some p2 =>
          simp only [Option.map_some]
          rw [set_erase (m' := { p2 with lastChild := some newId })]
          rotate_left
          · rfl
          rw [setNextSubtree_erase]
          generalize Ctx.setNextSubtree _ _ _ = r
          cases r <;> rfl
theorem log_eC (c : Ctx) (e : Ev) : (eC c).log e = eC (c.log e) := rfl

theorem appendText_eC (c : Ctx) (text : Str) (range : Range) :
    (eC c).appendText text range = Res.mapOk eC (c.appendText text range) := by
  unfold Ctx.appendText
  dsimp only
  rw [log_eC]
  generalize c.log _ = c'
  by_cases h : c'.afterText.isEmpty = true
  · simp only [eC_afterText, h, ↓reduceIte]
    refine bind_sim (appendNode_eC _ _ _) ?_
    intro a; rfl
  · simp only [eC_afterText, h, ↓reduceIte]
    rfl

theorem mergeText_eC (c : Ctx) : (eC c).mergeText = Res.mapOk eC c.mergeText := by
  unfold Ctx.mergeText
  by_cases h : (c.doc.nodes.size == 0) = true
  · simp only [eC_doc, eraseDoc_nodes, Array.size_map, h, ↓reduceIte]; rfl
  · simp only [eC_doc, eraseDoc_nodes, Array.size_map, Array.getElem?_map, eC_afterText, h, ↓reduceIte]
    cases c.doc.nodes[c.doc.nodes.size - 1]? with
    | none => rfl
    | some n =>
      simp only [Option.map_some, eraseNode_kind]
      cases hk : n.kind <;> simp only [Bool.false_eq_true, ↓reduceIte, mapOk_panic, mapOk_ok]
      rw [← setNode_eC]; rfl

theorem resetAfterText_eC (c : Ctx) : (eC c).resetAfterText = Res.mapOk eC c.resetAfterText := by
  unfold Ctx.resetAfterText
  by_cases h : c.afterText.isEmpty = true
  · simp only [eC_afterText, h, ↓reduceIte]; rfl
  · by_cases h2 : c.afterText.length > 1
    · simp only [eC_afterText, h, h2, ↓reduceIte]
      refine bind_sim (mergeText_eC c) ?_
      intro a; rfl
    · simp only [eC_afterText, h, h2, ↓reduceIte]
      rfl
/-! ### Namespace and attribute resolution -/

theorem find_ns (d0 d1 : Doc) (h : d0.ns = d1.ns) (p : Option Bytes) (l : List Nat) :
    getNsIdxByPrefix.find d0 p l = getNsIdxByPrefix.find d1 p l := by
  induction l with
  | nil => rfl
  | cons i r ih => simp only [getNsIdxByPrefix.find, h, ih]

theorem getNsIdxByPrefix_ns (txt : Bytes) (d0 d1 : Doc) (h : d0.ns = d1.ns) (nss : Range)
    (pp : Nat) (pfx : Bytes) :
    getNsIdxByPrefix txt d0 nss pp pfx = getNsIdxByPrefix txt d1 nss pp pfx := by
  unfold getNsIdxByPrefix
  simp only [h, find_ns d0 d1 h]

theorem getNsIdxByPrefix_erase (txt : Bytes) (d : Doc) (nss : Range) (pp : Nat) (pfx : Bytes) :
    getNsIdxByPrefix txt (eraseDoc d) nss pp pfx = getNsIdxByPrefix txt d nss pp pfx :=
  getNsIdxByPrefix_ns txt (eraseDoc d) d rfl nss pp pfx

theorem resolveNamespaces_eC (c : Ctx) :
    resolveNamespaces (eC c) = Res.mapOk eC2 (resolveNamespaces c) := by
  unfold resolveNamespaces
  refine bind_sim (nodeAt_eC c c.parentId) ?_
  intro p
  simp only [eraseNode_kind]
  cases p.kind with
  | element a b c' parentNs =>
    dsimp only
    by_cases h : (c.nsStartIdx == c.doc.ns.treeOrder.size) = true
    · simp only [eC_nsStartIdx, eC_doc, eraseDoc_ns, h, ↓reduceIte]; rfl
    · simp only [eC_nsStartIdx, eC_doc, eraseDoc_ns, h, ↓reduceIte, Bool.false_eq_true]
      refine bind_same ?_
      intro ns; rfl
  | _ => rfl

theorem attrNsIdx_erase (txt : Bytes) (d : Doc) (nss : Range) (a : TempAttr) :
    attrNsIdx txt (eraseDoc d) nss a = attrNsIdx txt d nss a := by
  unfold attrNsIdx
  simp only [getNsIdxByPrefix_erase]

theorem expandedName_erase (d : Doc) (nsIdx : Option Nat) (loc : Span) :
    Api.expandedName (eraseDoc d) nsIdx loc = Api.expandedName d nsIdx loc := rfl

theorem attrExpanded_erase (d : Doc) (k : Nat) :
    Api.attrExpanded (eraseDoc d) k = Api.attrExpanded d k := by
  unfold Api.attrExpanded Api.attrAt
  simp only [eraseDoc_attrs, Array.getElem?_map]
  cases d.attrs[k]? with
  | none => rfl
  | some a => rfl
theorem resolveAttrsLoop_erase (txt : Bytes) (pos : Bool) (nss : Range) (startIdx : Nat)
    (l : List TempAttr) (d : Doc) :
    resolveAttrsLoop txt false nss startIdx l (eraseDoc d) =
      Res.mapOk eraseDoc (resolveAttrsLoop txt pos nss startIdx l d) := by
  induction l generalizing d with
  | nil => rfl
  | cons a r ih =>
    unfold resolveAttrsLoop
    simp only [attrNsIdx_erase, expandedName_erase, attrExpanded_erase, eraseDoc_attrs,
      Array.size_map]
    refine bind_same ?_
    intro nsIdx
    refine bind_same ?_
    intro en
    refine bind_same ?_
    intro dup
    cases dup with
    | true => simp only [↓reduceIte, mapOk_errPos]
    | false =>
      simp only [Bool.false_eq_true, ↓reduceIte]
      rw [← ih]
      congr 1
      cases pos <;> simp only [eraseDoc, Array.map_push, Bool.false_eq_true, ↓reduceIte] <;> rfl
theorem resolveAttributes_eC (txt : Bytes) (c : Ctx) (nss : Range) :
    resolveAttributes txt (eC c) nss = Res.mapOk eC2 (resolveAttributes txt c nss) := by
  unfold resolveAttributes
  by_cases h : c.curAttrs.isEmpty = true
  · simp only [eC_curAttrs, h, ↓reduceIte]; rfl
  · by_cases h2 : c.doc.attrs.size + c.curAttrs.length ≥ 4294967295
    · simp only [eC_curAttrs, eC_doc, eraseDoc_attrs, Array.size_map, h, h2, ↓reduceIte]; rfl
    · simp only [eC_curAttrs, eC_doc, eraseDoc_attrs, Array.size_map, h, h2, ↓reduceIte,
        eC_positions]
      refine bind_sim (resolveAttrsLoop_erase txt c.positions nss _ _ _) ?_
      intro d
      simp only [eraseDoc_attrs, Array.size_map]
      rfl
theorem processElement_eC (txt : Bytes) (c : Ctx) (e : EndKind) (tokRange : Range) :
    processElement txt (eC c) e tokRange = Res.mapOk eC (processElement txt c e tokRange) := by
  unfold processElement
  by_cases h : c.tagName.name.isEmpty = true
  · simp only [eC_tagName, h, ↓reduceIte]
    cases e <;> simp only [mapOk_errPos, mapOk_panic]
  · simp only [eC_tagName, h, ↓reduceIte, Bool.false_eq_true]
    refine bind_sim (resolveNamespaces_eC c) ?_
    intro ⟨c1, nss⟩
    dsimp only [eC2]
    refine bind_sim (m0 := resolveAttributes txt _ nss)
      (resolveAttributes_eC txt { c1 with nsStartIdx := c1.doc.ns.treeOrder.size, xmlDeclared := false } nss) ?_
    intro ⟨c2, attrs⟩
    cases e with
    | empty =>
      dsimp only [eC2]
      simp only [eC_doc, eC_tagName, getNsIdxByPrefix_erase]
      refine bind_same ?_
      intro tagNs
      refine bind_sim (appendNode_eC _ _ _) ?_
      intro ⟨c3, newId⟩
      rfl
    | «open» =>
      dsimp only [eC2]
      simp only [eC_doc, eC_tagName, getNsIdxByPrefix_erase]
      refine bind_same ?_
      intro tagNs
      refine bind_sim (appendNode_eC _ _ _) ?_
      intro ⟨c3, newId⟩
      rfl
    | close pfx loc =>
      dsimp only [eC2]
      by_cases hle : c2.parentPrefixes.length ≤ c2.entityFloor
      · simp only [eC_parentPrefixes, eC_entityFloor, hle, ↓reduceIte, mapOk_errPos]
      · simp only [eC_parentPrefixes, eC_entityFloor, eC_parentId, eC_positions, hle, ↓reduceIte,
          Bool.false_eq_true]
        refine bind_sim (nodeAt_eC c2 c2.parentId) ?_
        intro p
        cases c2.parentPrefixes with
        | nil => rfl
        | cons parentPrefix restPrefixes =>
          dsimp only
          have hset : ∀ q : NodeData, eraseNode q = eraseNode p →
              (eC c2).setNode c2.parentId (eraseNode p) = eC (c2.setNode c2.parentId q) := by
            intro q hq; rw [← hq, setNode_eC]
          cases hpos : c2.positions
          · simp only [Bool.false_eq_true, ↓reduceIte, eraseNode_kind, eraseNode_parent]
            rw [hset p rfl]
            cases p.kind with
            | element a tn b c' =>
              dsimp only
              by_cases hc : (pfx.bytes != parentPrefix || loc.bytes != tn.bytes) = true
              · simp only [hc, ↓reduceIte, mapOk_errPos]
              · simp only [hc, ↓reduceIte, Bool.false_eq_true]
                cases p.parent with
                | some id => rfl
                | none => simp only [mapOk_errPos]
            | _ =>
              dsimp only
              cases p.parent with
              | some id => rfl
              | none => simp only [mapOk_errPos]
          · simp only [↓reduceIte, eraseNode_kind, eraseNode_parent]
            rw [hset { p with range := (p.range.1, tokRange.2) } rfl]
            cases p.kind with
            | element a tn b c' =>
              dsimp only
              by_cases hc : (pfx.bytes != parentPrefix || loc.bytes != tn.bytes) = true
              · simp only [hc, ↓reduceIte, mapOk_errPos]
              · simp only [hc, ↓reduceIte, Bool.false_eq_true]
                cases p.parent with
                | some id => rfl
                | none => simp only [mapOk_errPos]
            | _ =>
              dsimp only
              cases p.parent with
              | some id => rfl
              | none => simp only [mapOk_errPos]
/-! ### Attributes and text -/

theorem normalizeAttribute_eC (T : Tables) (txt : Bytes) (c : Ctx) (value : Span) :
    normalizeAttribute T txt (eC c) value = Res.mapOk eC2 (normalizeAttribute T txt c value) := by
  unfold normalizeAttribute
  split
  · simp only [eC_entities, eC_ld, eC_trace]
    refine bind_same ?_
    intro ⟨buf, ld, tr⟩
    refine bind_same ?_
    intro out
    rfl
  · rfl

theorem processAttribute_eC (T : Tables) (txt : Bytes) (c : Ctx) (range : Range)
    (qnameLen eqLen : Nat) (pfx loc value : Span) :
    processAttribute T txt (eC c) range qnameLen eqLen pfx loc value =
      Res.mapOk eC (processAttribute T txt c range qnameLen eqLen pfx loc value) := by
  unfold processAttribute
  refine bind_sim (normalizeAttribute_eC T txt c value) ?_
  intro ⟨c1, v⟩
  dsimp only [eC2]
  rw [log_eC]
  generalize c1.log _ = c2
  simp only [eC_doc, eraseDoc_ns, eC_nsStartIdx, eC_curAttrs, eC_xmlDeclared]
  repeat' split
  all_goals first
    | simp only [mapOk_errPos]
    | rfl
    | (refine bind_same ?_
       intro ex
       repeat' split
       all_goals first
         | simp only [mapOk_errPos]
         | rfl
         | (refine bind_same ?_
            intro ns
            rfl))
theorem processCdata_eC (c : Ctx) (text : Span) (range : Range) :
    processCdata (eC c) text range = Res.mapOk eC (processCdata c text range) := by
  unfold processCdata
  split <;> exact appendText_eC _ _ _

theorem flushBuffer_eC (c : Ctx) (buf : TextBuffer) (range : Range) :
    flushBuffer (eC c) buf range = Res.mapOk eC (flushBuffer c buf range) := by
  unfold flushBuffer
  split
  · refine bind_same ?_
    intro out
    exact appendText_eC _ _ _
  · rfl

/-- A builder step commutes with erasing. -/
def StepOk (step : Token → Ctx → Res Ctx) : Prop :=
  ∀ t c, step t (eC c) = Res.mapOk eC (step t c)

theorem feed_eC (step : Token → Ctx → Res Ctx) (hs : StepOk step) (toks : List Token) (c : Ctx) :
    feed step toks (eC c) = Res.mapOk eC (feed step toks c) := by
  induction toks generalizing c with
  | nil => rfl
  | cons t ts ih =>
    simp only [feed, hs t c]
    cases step t c with
    | ok c' => simp only [mapOk_ok, ih]
    | _ => rfl

theorem runTokens_eC {α} (step : Token → Ctx → Res Ctx) (hs : StepOk step) (toks : List Token)
    (stop : Res α) (c : Ctx) :
    runTokens step toks stop (eC c) = Res.mapOk eC (runTokens step toks stop c) := by
  unfold runTokens
  rw [feed_eC step hs]
  cases feed step toks c with
  | ok c' => cases stop <;> rfl
  | _ => rfl
/-- Lift of `eC` to results that carry a first component. -/
def eC1 {α} (p : α × Ctx) : α × Ctx := (p.1, eC p.2)

theorem processTextLoop_eC (T : Tables) (txt : Bytes) (lower : Token → Ctx → Res Ctx)
    (hl : StepOk lower) (range : Range) (fuel : Nat) (s : Stream) (buf : TextBuffer) (c : Ctx) :
    processTextLoop T txt lower range fuel s buf (eC c) =
      Res.mapOk eC1 (processTextLoop T txt lower range fuel s buf c) := by
  induction fuel generalizing s buf c with
  | zero => rfl
  | succ fuel ih =>
    unfold processTextLoop
    split
    · rfl
    · simp only [eC_entities]
      refine bind_same ?_
      intro ⟨s1, chunk⟩
      cases chunk with
      | byte b => exact ih _ _ _
      | char ch =>
        dsimp only
        by_cases hd : c.ld.depth > 0
        · simp only [eC_ld, hd, ↓reduceIte]; exact ih _ _ _
        · simp only [eC_ld, hd, ↓reduceIte]; exact ih _ _ _
      | text fragment =>
        dsimp only
        refine bind_sim (flushBuffer_eC c buf range) ?_
        intro c1
        simp only [eC_ld]
        cases c1.ld.incRefs with
        | none => simp only [mapOk_errAt]
        | some ld1 =>
          dsimp only [Ctx.log]
          cases ld1.incDepth with
          | none => simp only [mapOk_errAt]
          | some ld2 =>
            dsimp only
            refine bind_sim (f := eC) ?_ ?_
            · refine Eq.trans ?_ (runTokens_eC lower hl _ _ _)
              rfl
            · intro c2
              by_cases hne : (c2.parentPrefixes.length != c2.entityFloor) = true
              · simp only [eC_parentPrefixes, eC_entityFloor, hne, ↓reduceIte]; rfl
              · simp only [eC_parentPrefixes, eC_entityFloor, hne, ↓reduceIte]
                refine Eq.trans ?_ (ih _ _ _)
                rfl
theorem processText_eC (T : Tables) (txt : Bytes) (lower : Token → Ctx → Res Ctx)
    (hl : StepOk lower) (c : Ctx) (text : Span) (range : Range) :
    processText T txt lower (eC c) text range =
      Res.mapOk eC (processText T txt lower c text range) := by
  unfold processText
  split
  · exact appendText_eC _ _ _
  · dsimp only
    refine bind_sim (processTextLoop_eC T txt lower hl range _ _ _ c) ?_
    intro ⟨buf, c1⟩
    exact flushBuffer_eC _ _ _

theorem tokenStep_ok (T : Tables) (txt : Bytes) (lower : Token → Ctx → Res Ctx)
    (hl : StepOk lower) : StepOk (tokenStep T txt lower) := by
  intro t c
  unfold tokenStep
  dsimp only
  rw [log_eC]
  generalize c.log _ = c'
  cases t with
  | pi target value range =>
    dsimp only
    refine bind_sim (resetAfterText_eC c') ?_
    intro c1
    refine bind_sim (appendNode_eC _ _ _) ?_
    intro ⟨c2, i⟩
    rfl
  | comment text range =>
    dsimp only
    refine bind_sim (resetAfterText_eC c') ?_
    intro c1
    refine bind_sim (appendNode_eC _ _ _) ?_
    intro ⟨c2, i⟩
    rfl
  | entityDecl name value => rfl
  | elementStart pfx loc start =>
    dsimp only
    refine bind_sim (resetAfterText_eC c') ?_
    intro c1
    split
    · simp only [mapOk_errPos]
    · rfl
  | «attribute» range qnameLen eqLen pfx loc value => exact processAttribute_eC _ _ _ _ _ _ _ _ _
  | elementEnd e range =>
    dsimp only
    refine bind_sim (resetAfterText_eC c') ?_
    intro c1
    exact processElement_eC _ _ _ _
  | text text range => exact processText_eC T txt lower hl _ _ _
  | cdata text range => exact processCdata_eC _ _ _

theorem token_ok (T : Tables) (txt : Bytes) (d : Nat) : StepOk (token T txt d) := by
  induction d with
  | zero => intro t c; rfl
  | succ d ih => exact tokenStep_ok T txt _ ih
/-! ### The read API sees no ranges -/

theorem getNodeUnwrap_erase (d : Doc) (i : Nat) :
    Api.getNodeUnwrap (eraseDoc d) i = Res.mapOk eraseNode (Api.getNodeUnwrap d i) := by
  unfold Api.getNodeUnwrap
  simp only [eraseDoc_nodes, Array.getElem?_map]
  cases d.nodes[i]? <;> rfl

theorem follow_erase (d : Doc) (l : Option Nat) : Api.follow (eraseDoc d) l = Api.follow d l := by
  unfold Api.follow
  simp only [eraseDoc_nodes, Array.size_map]

/-- Reading a node and continuing with something that does not look at the range. -/
theorem getNode_bind_erase {β} (d : Doc) (i : Nat) (k0 k1 : NodeData → Res β)
    (hk : ∀ n, k0 (eraseNode n) = k1 n) :
    (Api.getNodeUnwrap (eraseDoc d) i >>= k0) = (Api.getNodeUnwrap d i >>= k1) := by
  rw [getNodeUnwrap_erase]
  cases Api.getNodeUnwrap d i <;> simp [hk]

theorem lastChild_erase (d : Doc) (i : Nat) : Api.lastChild (eraseDoc d) i = Api.lastChild d i := by
  unfold Api.lastChild
  exact getNode_bind_erase d i _ _ (fun n => follow_erase d _)

theorem prevSibling_erase (d : Doc) (i : Nat) :
    Api.prevSibling (eraseDoc d) i = Api.prevSibling d i := by
  unfold Api.prevSibling
  exact getNode_bind_erase d i _ _ (fun n => follow_erase d _)

theorem firstChild_erase (d : Doc) (i : Nat) :
    Api.firstChild (eraseDoc d) i = Api.firstChild d i := by
  unfold Api.firstChild
  refine getNode_bind_erase d i _ _ (fun n => ?_)
  simp only [eraseNode_lastChild, eraseDoc_nodes, Array.size_map]

theorem nextSibling_erase (d : Doc) (i : Nat) :
    Api.nextSibling (eraseDoc d) i = Api.nextSibling d i := by
  unfold Api.nextSibling
  refine getNode_bind_erase d i _ _ (fun n => ?_)
  simp only [eraseNode_nextSubtree]
  cases n.nextSubtree with
  | none => rfl
  | some j => exact getNode_bind_erase d j _ _ (fun m => rfl)

theorem kindOf_erase (d : Doc) (i : Nat) : Api.kindOf (eraseDoc d) i = Api.kindOf d i := by
  unfold Api.kindOf
  exact getNode_bind_erase d i _ _ (fun n => rfl)

theorem isElement_erase (d : Doc) (i : Nat) : Api.isElement (eraseDoc d) i = Api.isElement d i := by
  unfold Api.isElement
  rw [kindOf_erase]

theorem children_erase (d : Doc) (i : Nat) : Api.children (eraseDoc d) i = Api.children d i := by
  unfold Api.children
  simp only [firstChild_erase, lastChild_erase]

theorem childrenNext_erase (d : Doc) (it : Api.ChildrenIt) :
    it.next (eraseDoc d) = it.next d := by
  unfold Api.ChildrenIt.next
  simp only [nextSibling_erase]

theorem childrenList_erase (d : Doc) (fuel : Nat) (it : Api.ChildrenIt) :
    Api.childrenList (eraseDoc d) fuel it = Api.childrenList d fuel it := by
  induction fuel generalizing it with
  | zero => rfl
  | succ fuel ih =>
    unfold Api.childrenList
    simp only [childrenNext_erase, ih]

theorem findElement_erase (d : Doc) (l : List Nat) :
    Api.findElement (eraseDoc d) l = Api.findElement d l := by
  induction l with
  | nil => rfl
  | cons j r ih =>
    unfold Api.findElement
    simp only [isElement_erase, ih]

theorem rootHasElement_erase (d : Doc) : rootHasElement (eraseDoc d) = rootHasElement d := by
  unfold rootHasElement Api.fuelN
  simp only [children_erase, childrenList_erase, findElement_erase, eraseDoc_nodes, Array.size_map]

/-! ### `parse` -/

theorem finish_eC (c : Ctx) : finish (eC c) = Res.mapOk eC (finish c) := by
  unfold finish
  simp only [eC_doc, rootHasElement_erase]
  refine bind_same ?_
  intro has
  simp only [eC_parentPrefixes]
  cases has with
  | false => rfl
  | true =>
    by_cases h : c.parentPrefixes.length > 1
    · simp only [Bool.not_true, Bool.false_eq_true, ↓reduceIte, h]; rfl
    · simp only [Bool.not_true, Bool.false_eq_true, ↓reduceIte, h]; rfl

theorem initCtx_erase (txt : Bytes) (opt : Opt) :
    initCtx txt { opt with positions := false } =
      Res.mapOk eC (initCtx txt { opt with positions := true }) := by
  unfold initCtx
  refine bind_same ?_
  intro ns
  simp [eC, eraseDoc, eraseNode, rootNode]

theorem parseCtx_erase (T : Tables) (txt : Bytes) (d : Nat) (opt : Opt) :
    parseCtx T txt d { opt with positions := false } =
      Res.mapOk eC (parseCtx T txt d { opt with positions := true }) := by
  unfold parseCtx
  refine bind_sim (initCtx_erase txt opt) ?_
  intro c
  dsimp only
  refine bind_sim (runTokens_eC _ (token_ok T txt d) _ _ c) ?_
  intro c1
  exact finish_eC c1
end PosIndep

/-- **`positions` changes nothing but the stored ranges** (all inputs, all other options). -/
theorem parse_positions_erase (T : Tables) (txt : Bytes) (opt : Opt) :
    parse T txt { opt with positions := false } =
      Res.mapOk eraseDoc (parse T txt { opt with positions := true }) := by
  unfold parse
  refine PosIndep.bind_sim (PosIndep.parseCtx_erase T txt depthFuel opt) ?_
  intro c
  rfl

end Rox.Lemmas
