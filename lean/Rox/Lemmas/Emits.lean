/-
  Rox.Lemmas.Emits — which kinds of token each part of the tokenizer can deliver.
  `Emits m K`: every token `m` emits satisfies `K` (no claim about the outcome).
-/
import Rox.Tok

namespace Rox.Lemmas
open Rox Rox.TM

def Emits {α} (m : TM α) (K : Token → Prop) : Prop := ∀ t ∈ m.1, K t

theorem emits_pure {α} (a : α) (K : Token → Prop) : Emits (pure a : TM α) K := by
  intro t ht; simp [pure, pure'] at ht

theorem emits_lift {α} (r : Res α) (K : Token → Prop) : Emits (lift r) K := by
  intro t ht; simp [lift] at ht

theorem emits_emit (t : Token) (K : Token → Prop) (h : K t) : Emits (emit t) K := by
  intro t' ht; simp [emit] at ht; subst ht; exact h

theorem emits_bind {α β} (m : TM α) (k : α → TM β) (K : Token → Prop)
    (hm : Emits m K) (hk : ∀ a, Emits (k a) K) : Emits (m >>= k) K := by
  obtain ⟨t1, r⟩ := m
  cases r with
  | ok a =>
    simp only [bind, bind']
    intro t ht
    rcases List.mem_append.mp ht with h | h
    · exact hm t h
    · exact hk a t h
  | err e => simp only [bind, bind']; exact hm
  | panic s => simp only [bind, bind']; exact hm
  | fuel => simp only [bind, bind']; exact hm

/-- token kinds -/
def _root_.Rox.Token.isMisc : Token → Bool
  | .comment .. => true
  | .pi .. => true
  | _ => false

def _root_.Rox.Token.isEntityDecl : Token → Bool
  | .entityDecl .. => true
  | _ => false

def _root_.Rox.Token.isTag : Token → Bool
  | .elementStart .. => true
  | .attribute .. => true
  | .elementEnd .. => true
  | _ => false

/-- what may appear inside element content -/
def _root_.Rox.Token.isContent (t : Token) : Bool := !t.isEntityDecl

/-- one step through `m >>= k` when `m` emits nothing -/
theorem emits_bind_lift {α β} (r : Res α) (k : α → TM β) (K : Token → Prop)
    (hk : ∀ a, Emits (k a) K) : Emits (lift r >>= k) K :=
  emits_bind _ _ _ (emits_lift _ _) hk

section
variable (T : Tables) (txt : Bytes)

theorem parseComment_emits (K : Token → Prop) (hc : ∀ t r, K (.comment t r)) (s : Stream) :
    Emits (parseComment T txt s) K := by
  unfold parseComment
  apply emits_bind_lift; intro s1
  apply emits_bind_lift; rintro ⟨s2, text⟩
  apply emits_bind_lift; intro s3
  split
  · exact emits_lift _ _
  · split
    · exact emits_lift _ _
    · exact emits_bind _ _ _ (emits_emit _ _ (hc _ _)) (fun _ => emits_pure _ _)

theorem parsePi_emits (K : Token → Prop) (hp : ∀ t v r, K (.pi t v r)) (s : Stream) :
    Emits (parsePi T txt s) K := by
  unfold parsePi
  split
  · exact emits_lift _ _
  · apply emits_bind_lift; intro s1
    apply emits_bind_lift; rintro ⟨s2, target⟩
    apply emits_bind_lift; intro s2'
    apply emits_bind_lift; rintro ⟨s3, content⟩
    apply emits_bind_lift; intro s4
    exact emits_bind _ _ _ (emits_emit _ _ (hp _ _ _)) (fun _ => emits_pure _ _)

theorem parseMisc_emits (K : Token → Prop) (hc : ∀ t r, K (.comment t r)) (hp : ∀ t v r, K (.pi t v r)) :
    ∀ (fuel : Nat) (s : Stream), Emits (parseMisc T txt fuel s) K := by
  intro fuel
  induction fuel with
  | zero => intro s; unfold parseMisc; exact emits_lift _ _
  | succ f ih =>
    intro s
    unfold parseMisc
    have h1 := parseComment_emits T txt K hc
    have h2 := parsePi_emits T txt K hp
    split
    · exact emits_pure _ _
    · dsimp only
      split
      · exact emits_bind _ _ _ (h1 _) (fun _ => ih _)
      · split
        · exact emits_bind _ _ _ (h2 _) (fun _ => ih _)
        · exact emits_pure _ _

theorem parseEntityDeclBody_emits (K : Token → Prop) (he : ∀ n v, K (.entityDecl n v)) (s : Stream)
    (isGe : Bool) : Emits (parseEntityDeclBody T txt s isGe) K := by
  unfold parseEntityDeclBody
  apply emits_bind_lift; rintro ⟨s1, name⟩
  apply emits_bind_lift; intro s2
  apply emits_bind_lift; rintro ⟨s3, defn⟩
  dsimp only
  split
  · split
    · exact emits_bind _ _ _ (emits_emit _ _ (he _ _)) (fun _ => emits_lift _ _)
    · exact emits_lift _ _
  · exact emits_lift _ _

theorem parseEntityDecl_emits (K : Token → Prop) (he : ∀ n v, K (.entityDecl n v)) (s : Stream) :
    Emits (parseEntityDecl T txt s) K := by
  unfold parseEntityDecl
  apply emits_bind_lift; intro s1
  apply emits_bind_lift; intro s2
  dsimp only
  split
  · apply emits_bind_lift; intro s3
    exact parseEntityDeclBody_emits T txt K he _ _
  · exact parseEntityDeclBody_emits T txt K he _ _

theorem doctypeLoop_emits (K : Token → Prop) (he : ∀ n v, K (.entityDecl n v))
    (hc : ∀ t r, K (.comment t r)) (hp : ∀ t v r, K (.pi t v r)) (start : Nat) :
    ∀ (fuel : Nat) (s : Stream), Emits (doctypeLoop T txt start fuel s) K := by
  intro fuel
  induction fuel with
  | zero => intro s; unfold doctypeLoop; exact emits_lift _ _
  | succ f ih =>
    intro s
    unfold doctypeLoop
    split
    · exact emits_pure _ _
    · dsimp only
      split
      · exact emits_bind _ _ _ (parseEntityDecl_emits T txt K he _) (fun _ => ih _)
      · split
        · exact emits_bind _ _ _ (parseComment_emits T txt K hc _) (fun _ => ih _)
        · split
          · exact emits_bind _ _ _ (parsePi_emits T txt K hp _) (fun _ => ih _)
          · split
            · apply emits_bind_lift; intro s1
              split
              · exact emits_lift _ _
              · split
                · exact emits_pure _ _
                · exact emits_lift _ _
            · split
              · split
                · exact emits_lift _ _
                · exact ih _
              · exact emits_lift _ _

theorem parseDoctype_emits (K : Token → Prop) (he : ∀ n v, K (.entityDecl n v))
    (hc : ∀ t r, K (.comment t r)) (hp : ∀ t v r, K (.pi t v r)) (s : Stream) :
    Emits (parseDoctype T txt s) K := by
  unfold parseDoctype
  apply emits_bind_lift; intro s1
  dsimp only
  split
  · split
    · exact emits_pure _ _
    · apply emits_bind_lift; intro s2
      exact doctypeLoop_emits T txt K he hc hp _ _ _
  · exact emits_lift _ _

theorem startTagLoop_emits (K : Token → Prop) (ha : ∀ r q e p l v, K (.attribute r q e p l v))
    (hend : ∀ k r, K (.elementEnd k r)) :
    ∀ (fuel : Nat) (s : Stream), Emits (startTagLoop T txt fuel s) K := by
  intro fuel
  induction fuel with
  | zero => intro s; unfold startTagLoop; exact emits_lift _ _
  | succ f ih =>
    intro s
    unfold startTagLoop
    split
    · exact emits_pure _ _
    · dsimp only
      apply emits_bind_lift; intro c
      split
      · apply emits_bind_lift; intro s1
        apply emits_bind_lift; intro s2
        exact emits_bind _ _ _ (emits_emit _ _ (hend _ _)) (fun _ => emits_pure _ _)
      · split
        · apply emits_bind_lift; intro s1
          exact emits_bind _ _ _ (emits_emit _ _ (hend _ _)) (fun _ => emits_pure _ _)
        · apply emits_bind_lift; intro s1
          apply emits_bind_lift; rintro ⟨s2, pfx, loc⟩
          apply emits_bind_lift; intro s3
          apply emits_bind_lift; rintro ⟨s4, quote⟩
          apply emits_bind_lift; rintro ⟨s5, value⟩
          apply emits_bind_lift; intro _
          apply emits_bind_lift; intro s6
          exact emits_bind _ _ _ (emits_emit _ _ (ha _ _ _ _ _ _)) (fun _ => ih _)

theorem parseStartTag_emits (K : Token → Prop) (hs : ∀ p l s, K (.elementStart p l s))
    (ha : ∀ r q e p l v, K (.attribute r q e p l v)) (hend : ∀ k r, K (.elementEnd k r)) (s : Stream) :
    Emits (parseStartTag T txt s) K := by
  unfold parseStartTag
  apply emits_bind_lift; intro s1
  apply emits_bind_lift; rintro ⟨s2, pfx, loc⟩
  apply emits_bind _ _ _ (emits_emit _ _ (hs _ _ _)); intro _
  apply emits_bind _ _ _ (startTagLoop_emits T txt K ha hend _ _); rintro ⟨s3, fin⟩
  dsimp only
  split
  · exact emits_lift _ _
  · exact emits_pure _ _

theorem parseCdata_emits (K : Token → Prop) (hc : ∀ t r, K (.cdata t r)) (s : Stream) :
    Emits (parseCdata T txt s) K := by
  unfold parseCdata
  apply emits_bind_lift; intro s1
  apply emits_bind_lift; rintro ⟨s2, text⟩
  apply emits_bind_lift; intro s3
  exact emits_bind _ _ _ (emits_emit _ _ (hc _ _)) (fun _ => emits_pure _ _)

theorem parseCloseElement_emits (K : Token → Prop) (hend : ∀ k r, K (.elementEnd k r)) (s : Stream) :
    Emits (parseCloseElement T txt s) K := by
  unfold parseCloseElement
  apply emits_bind_lift; intro s1
  apply emits_bind_lift; rintro ⟨s2, pfx, loc⟩
  apply emits_bind_lift; intro s3
  exact emits_bind _ _ _ (emits_emit _ _ (hend _ _)) (fun _ => emits_pure _ _)

theorem parseText_emits (K : Token → Prop) (ht : ∀ t r, K (.text t r)) (s : Stream) :
    Emits (parseText T txt s) K := by
  unfold parseText
  apply emits_bind_lift; rintro ⟨s1, text⟩
  dsimp only
  split
  · exact emits_lift _ _
  · exact emits_bind _ _ _ (emits_emit _ _ (ht _ _)) (fun _ => emits_pure _ _)

/-- Element content delivers every kind of token except entity declarations. -/
theorem parseContent_emits :
    ∀ (fuel depth : Nat) (s : Stream), Emits (parseContent T txt fuel depth s) (fun t => t.isContent = true) := by
  intro fuel
  induction fuel with
  | zero => intro d s; unfold parseContent; exact emits_lift _ _
  | succ f ih =>
    intro d s
    unfold parseContent
    split
    · exact emits_pure _ _
    · split
      · split
        · split
          · split
            · exact emits_bind _ _ _ (parseComment_emits T txt _ (fun _ _ => rfl) _) (fun _ => ih _ _)
            · split
              · exact emits_bind _ _ _ (parseCdata_emits T txt _ (fun _ _ => rfl) _) (fun _ => ih _ _)
              · exact emits_lift _ _
          · split
            · exact emits_bind _ _ _ (parsePi_emits T txt _ (fun _ _ _ => rfl) _) (fun _ => ih _ _)
            · split
              · refine emits_bind _ _ (fun t => t.isContent = true)
                  (parseCloseElement_emits T txt _ (fun _ _ => rfl) _) ?_
                intro _
                split
                · exact emits_pure _ _
                · exact ih _ _
              · refine emits_bind _ _ (fun t => t.isContent = true) (parseStartTag_emits T txt _
                  (fun _ _ _ => rfl) (fun _ _ _ _ _ _ => rfl) (fun _ _ => rfl) _) ?_
                rintro ⟨s1, opened⟩
                exact ih _ _
        · exact emits_lift _ _
      · exact emits_bind _ _ _ (parseText_emits T txt _ (fun _ _ => rfl) _) (fun _ => ih _ _)

theorem parseElement_emits (s : Stream) : Emits (parseElement T txt s) (fun t => t.isContent = true) := by
  unfold parseElement
  refine emits_bind _ _ (fun t => t.isContent = true) (parseStartTag_emits T txt _ (fun _ _ _ => rfl)
    (fun _ _ _ _ _ _ => rfl) (fun _ _ => rfl) _) ?_
  rintro ⟨s1, opened⟩
  dsimp only
  split
  · exact parseContent_emits T txt _ _ _
  · exact emits_pure _ _

/-- The prolog (BOM, XML declaration, Misc) delivers only comments and PIs. -/
theorem parseProlog_emits : Emits (parseProlog T txt) (fun t => t.isMisc = true) := by
  unfold parseProlog
  apply emits_bind_lift; intro s1
  apply emits_bind_lift; intro s2
  refine emits_bind _ _ (fun t => t.isMisc = true)
    (parseMisc_emits T txt _ (fun _ _ => rfl) (fun _ _ _ => rfl) _ _) ?_
  intro _; exact emits_pure _ _

theorem emits_mono {α} {m : TM α} {K K' : Token → Prop} (h : Emits m K) (hk : ∀ t, K t → K' t) :
    Emits m K' := fun t ht => hk t (h t ht)

theorem parseBody_emits (s : Stream) : Emits (parseBody T txt s) (fun t => t.isContent = true) := by
  unfold parseBody
  apply emits_bind
  · unfold parseRootElement
    split
    · exact parseElement_emits T txt _
    · exact emits_pure _ _
  intro s1
  refine emits_bind _ _ (fun t => t.isContent = true)
    (parseMisc_emits T txt _ (fun _ _ => rfl) (fun _ _ _ => rfl) _ _) ?_
  intro s2
  split
  · exact emits_lift _ _
  · exact emits_pure _ _

/-- With `allow_dtd = false` the tokenizer never delivers an `EntityDeclaration`. -/
theorem parseDocument_no_entityDecl :
    Emits (parseDocument T txt false) (fun t => t.isEntityDecl = false) := by
  have hmono : ∀ t : Token, t.isContent = true → t.isEntityDecl = false := by
    intro t h; simpa [Token.isContent] using h
  have hmisc : ∀ t : Token, t.isMisc = true → t.isEntityDecl = false := by
    intro t h; cases t <;> simp_all [Token.isMisc, Token.isEntityDecl]
  unfold parseDocument
  apply emits_bind _ _ _ (emits_mono (parseProlog_emits T txt) hmisc)
  intro s1
  split
  · exact emits_lift _ _
  · exact emits_mono (parseBody_emits T txt _) hmono

/-- An `EntityDeclaration` can only come out of the DOCTYPE: whatever the option, the tokens
before the DOCTYPE are comments and PIs, and those after it are never entity declarations. -/
theorem parseDoctype_kinds (s : Stream) :
    Emits (parseDoctype T txt s) (fun t => t.isMisc = true ∨ t.isEntityDecl = true) :=
  parseDoctype_emits T txt _ (fun _ _ => Or.inr rfl) (fun _ _ => Or.inl rfl) (fun _ _ _ => Or.inl rfl) s

end
end Rox.Lemmas
