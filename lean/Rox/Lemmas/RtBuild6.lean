/-
  Rox.Lemmas.RtBuild6 — the builder on a document with an entity reference inside a run of
  character data: fed with `hoistTToks`, it pushes the literal bytes before the reference, flushes
  them as a fragment, expands the entity (whose text is appended as a further fragment of the same
  node), continues with the bytes after the reference, and the fragments are merged into ONE text
  node when the next markup token arrives.
-/
import Rox.Lemmas.RtTok6
import Rox.Lemmas.RtBuild3
import Rox.Lemmas.Utf8b

namespace Rox.Lemmas
open Rox Rox.Spec.Canon

namespace RtB6
open RtB RtB2 RtB3

/-! ### Bytes -/

theorem valid_plain : ∀ (t : Bytes), (∀ x ∈ t, isPlain x = true) → ValidUtf8 t
  | [], _ => valid_nil
  | b :: t, h => valid_ascii_cons b t (plain_lt128 (h b (by simp)))
      (valid_plain t (fun x hx => h x (by simp [hx])))

theorem finish_plain (t : Bytes) (ht : ∀ x ∈ t, isPlain x = true) :
    TextBuffer.finish ⟨t.reverse, false⟩ = .ok t := by
  have hv : validUtf8 (t.length + 1) t = true := valid_plain t ht
  simp [TextBuffer.finish, TextBuffer.resolvePendingCr, hv]

/-! ### The chunk loop: literal bytes, the reference -/

section loop
variable (T : Tables) (txt : Bytes)

theorem ptl_lit (lower : Token → Ctx → Res Ctx) (range : Range) (c : Ctx) (R : Bytes) :
    ∀ (lit : Bytes), (∀ x ∈ lit, isPlain x = true ∧ x ≠ 38) → ∀ (f pos : Nat) (acc : Bytes),
      processTextLoop T txt lower range (lit.length + f) ⟨pos, lit ++ R⟩ ⟨acc, false⟩ c =
        processTextLoop T txt lower range f ⟨pos + lit.length, R⟩ ⟨lit.reverse ++ acc, false⟩ c := by
  intro lit
  induction lit with
  | nil => intro _ f pos acc; simp
  | cons x lit ih =>
    intro h f pos acc
    obtain ⟨hp, hne⟩ := h x (by simp)
    have hx : (x == bAmp) = false := by rw [beq_eq_false_iff_ne]; exact hne
    have hcr : (x == bCR) = false := plain_bne hp (by decide)
    have hf : (x :: lit).length + f = (lit.length + f) + 1 := by simp; omega
    rw [hf, processTextLoop]
    simp only [Stream.atEnd, List.cons_append, List.isEmpty_cons, Bool.false_eq_true, if_false,
      parseNextChunk, hx, Res.bind_ok]
    have hpush : TextBuffer.pushFromText ⟨acc, false⟩ x = ⟨x :: acc, false⟩ := by
      simp [TextBuffer.pushFromText, TextBuffer.resolvePendingCr, hcr]
    rw [hpush, ih (fun y hy => h y (by simp [hy])) f (pos + 1) (x :: acc)]
    have e1 : pos + 1 + lit.length = pos + (x :: lit).length := by simp; omega
    rw [e1]
    simp

theorem consumeName_e6 (hC3 : TablesCanon3 T) (p : Nat) (R : Bytes) :
    Stream.consumeName T txt ⟨p, 101 :: 59 :: R⟩ = .ok (⟨p + 1, 59 :: R⟩, ⟨p, [101]⟩) := by
  have h1 : decodeChar (101 :: 59 :: R) = some (101, 1) := decodeChar_ascii 101 _ (by decide)
  have h2 : decodeChar (59 :: R) = some (59, 1) := decodeChar_ascii 59 _ (by decide)
  have h3 : charIsNameStart T 101 = true := hC3.lower_nameStartC 101 (by decide)
  have h4 : charIsName T 59 = false := hC3.semi_not_nameC
  simp [Stream.consumeName, Stream.skipName, Stream.skipNameTail, h1, h2, h3, h4]

theorem consumeReference_e6 (hC3 : TablesCanon3 T) (q : Nat) (R : Bytes) :
    Stream.consumeReference T txt ⟨q, 38 :: 101 :: 59 :: R⟩ =
      .ok (⟨q + 3, R⟩, some (.entity ⟨q + 1, [101]⟩)) := by
  have h1 : Stream.tryConsumeByte ⟨q, 38 :: 101 :: 59 :: R⟩ bAmp = (⟨q + 1, 101 :: 59 :: R⟩, true) := by
    simp [Stream.tryConsumeByte, bAmp]
  have h2 : Stream.tryConsumeByte ⟨q + 1, 101 :: 59 :: R⟩ bHash = (⟨q + 1, 101 :: 59 :: R⟩, false) := by
    simp [Stream.tryConsumeByte, bHash]
  unfold Stream.consumeReference
  simp only [h1, h2, Bool.not_true, Bool.false_eq_true, if_false]
  unfold Stream.namedRef
  rw [consumeName_e6 T txt hC3 (q + 1)]
  have e1 : (([101] : Bytes) == Lit.quot) = false := by decide
  have e2 : (([101] : Bytes) == Lit.amp) = false := by decide
  have e3 : (([101] : Bytes) == Lit.apos) = false := by decide
  have e4 : (([101] : Bytes) == Lit.lt) = false := by decide
  have e5 : (([101] : Bytes) == Lit.gt) = false := by decide
  simp only [e1, e2, e3, e4, e5, Bool.false_eq_true, if_false, Stream.finishRef, bSemi]
  simp

theorem parseNextChunk_e6 (hC3 : TablesCanon3 T) (q : Nat) (R : Bytes) (ents : List Entity) (e : Entity)
    (he : findEntity ents [101] = some e) :
    parseNextChunk T txt ents ⟨q, 38 :: 101 :: 59 :: R⟩ = .ok (⟨q + 3, R⟩, .text e.value) := by
  unfold parseNextChunk
  have h : ((38 : UInt8) == bAmp) = true := by decide
  simp only [h, if_true, consumeReference_e6 T txt hC3 q R, Res.bind_ok, he, Res.pure_eq]

/-- the chunk loop at the reference: flush, enter, the entity's tokens, leave, go on -/
theorem ptl_ref6 (hC3 : TablesCanon3 T) (lower : Token → Ctx → Res Ctx) (range : Range)
    (f q : Nat) (R : Bytes) (buf : TextBuffer) (c c1 : Ctx) (e : Entity) (toks : List Token)
    (st : Stream)
    (hfl : flushBuffer c buf range = .ok c1)
    (hld : c1.ld.depth = 0)
    (he : findEntity c.entities [101] = some e)
    (htc : tokenizeContent T txt e.value.off (e.value.off + e.value.bytes.length) = (toks, .ok st)) :
    processTextLoop T txt lower range (f + 1) ⟨q, 38 :: 101 :: 59 :: R⟩ buf c =
      (runTokens lower toks (.ok st) (enter c1) >>= fun c3 =>
        if c3.parentPrefixes.length != c3.entityFloor then .err .unexpectedEndOfStream
        else processTextLoop T txt lower range f ⟨q + 3, R⟩ {} (leave c1 c3)) := by
  have h1 : c1.ld.incRefs = some c1.ld := by simp [LD.incRefs, hld]
  have h2 : c1.ld.incDepth = some { c1.ld with depth := c1.ld.depth + 1 } := by
    simp [LD.incDepth, hld]
  rw [processTextLoop]
  simp only [Stream.atEnd, List.isEmpty_cons, Bool.false_eq_true, if_false,
    parseNextChunk_e6 T txt hC3 q R c.entities e he, Res.bind_ok, hfl, h1]
  dsimp only [Ctx.log]
  simp only [h2, Span.stop, htc]
  rfl

end loop

/-! ### A text run in progress -/

/-- the node of the run, once it has a first fragment -/
def runNode (pid : Nat) : List Str → List (Kind × Option Nat)
  | [] => []
  | f :: _ => [(Kind.text f, some pid)]

/-- `c` is `ca` with a text run in progress whose fragments so far are `frs` -/
structure Run (ca c : Ctx) (frs : List Str) : Prop where
  binv : BInv c
  lim : c.nodesLimit = ca.nodesLimit
  cur : c.curAttrs = ca.curAttrs
  ns1 : c.nsStartIdx = ca.nsStartIdx
  pid : c.parentId = ca.parentId
  pp : c.parentPrefixes = ca.parentPrefixes
  aft : c.afterText = frs
  attrs : c.doc.attrs = ca.doc.attrs
  ns : c.doc.ns = ca.doc.ns
  nodes : kps c = kps ca ++ runNode ca.parentId frs

/-- what the steps of the run leave alone -/
structure Frame (c c' : Ctx) : Prop where
  ld : c'.ld = c.ld
  ents : c'.entities = c.entities
  tag : c'.tagName = c.tagName
  fl : c'.entityFloor = c.entityFloor

theorem Frame.refl (c : Ctx) : Frame c c := ⟨rfl, rfl, rfl, rfl⟩

theorem Frame.trans {a b c : Ctx} (h1 : Frame a b) (h2 : Frame b c) : Frame a c :=
  ⟨h2.ld.trans h1.ld, h2.ents.trans h1.ents, h2.tag.trans h1.tag, h2.fl.trans h1.fl⟩

theorem appendText_run {ca c : Ctx} {frs : List Str} (h : Run ca c frs) (f : Str) (r : Range)
    (hl : ca.nodesLimit ≤ 4294967295) (hroom : ca.doc.nodes.size < ca.nodesLimit) :
    ∃ c', c.appendText f r = .ok c' ∧ Run ca c' (frs ++ [f]) ∧ Frame c c' := by
  cases frs with
  | nil =>
    have hsz : c.doc.nodes.size = ca.doc.nodes.size := by
      have := congrArg List.length h.nodes
      simpa [kps_length, runNode] using this
    have hb1 : BInv (c.log (.textFragment f r)) := h.binv.congr rfl rfl rfl
    have hl1 : (c.log (.textFragment f r)).nodesLimit ≤ 4294967295 := by
      show c.nodesLimit ≤ _
      rw [h.lim]; exact hl
    obtain ⟨c1, h1, hk1, hc1, ha1, hn1⟩ := appendNode_fwd (c.log (.textFragment f r)) (.text f) r hb1
      hl1 (by show c.doc.nodes.size < c.nodesLimit; rw [hsz, h.lim]; exact hroom)
    have hpost := (appendNode_safe (c.log (.textFragment f r)) (.text f) r hb1 hl1).post _ h1
    simp only at hpost
    have hemp : (c.log (.textFragment f r)).afterText.isEmpty = true := by
      show c.afterText.isEmpty = true
      rw [h.aft]; rfl
    have happ : c.appendText f r = .ok { c1 with afterText := c1.afterText ++ [f] } := by
      unfold Ctx.appendText
      simp only [hemp, if_true, h1, Res.bind_ok, Res.pure_eq]
    have hat1 : c1.afterText = [] := (congrArg Core.afterText hc1).trans h.aft
    refine ⟨_, happ, ⟨binv_appendText h.binv happ, (congrArg Core.nodesLimit hc1).trans h.lim,
      (congrArg Core.curAttrs hc1).trans h.cur, (congrArg Core.nsStartIdx hc1).trans h.ns1,
      (congrArg Core.parentId hc1).trans h.pid, (congrArg Core.parentPrefixes hc1).trans h.pp,
      ?_, ha1.trans h.attrs, hn1.trans h.ns, ?_⟩, ?_⟩
    · show c1.afterText ++ [f] = [] ++ [f]
      rw [hat1]
    · show kps c1 = _
      rw [hk1]
      have : kps (c.log (.textFragment f r)) = kps c := rfl
      rw [this, h.nodes]
      show _ ++ [(Kind.text f, some c.parentId)] = _
      rw [h.pid]
      simp [runNode]
    · have e1 : c1.ld = c.ld := by
        have := congrArg Ctx.ld hpost
        exact this
      have e2 : c1.entities = c.entities := by
        have := congrArg Ctx.entities hpost
        exact this
      have e3 : c1.tagName = c.tagName := by
        have := congrArg Ctx.tagName hpost
        exact this
      have e4 : c1.entityFloor = c.entityFloor := by
        have := congrArg Ctx.entityFloor hpost
        exact this
      exact ⟨e1, e2, e3, e4⟩
  | cons g frs' =>
    have hemp : (c.log (.textFragment f r)).afterText.isEmpty = false := by
      show c.afterText.isEmpty = false
      rw [h.aft]; rfl
    have happ : c.appendText f r =
        .ok { c.log (.textFragment f r) with afterText := c.afterText ++ [f] } := by
      unfold Ctx.appendText
      simp only [hemp, Bool.false_eq_true, if_false, Res.pure_eq, Res.bind_ok]
      rfl
    refine ⟨_, happ, ⟨h.binv.congr rfl rfl rfl, h.lim, h.cur, h.ns1, h.pid, h.pp, ?_, h.attrs, h.ns,
      ?_⟩, ⟨rfl, rfl, rfl, rfl⟩⟩
    · show c.afterText ++ [f] = _
      rw [h.aft]
    · exact h.nodes

/-- an owned fragment, unless it is empty -/
def optOwned (t : Bytes) : List Str := if t.isEmpty then [] else [.owned t]

/-- a borrowed fragment, unless it is empty -/
def optBorrowed (off : Nat) (t : Bytes) : List Str := if t.isEmpty then [] else [.borrowed ⟨off, t⟩]

theorem flush_run {ca c : Ctx} {frs : List Str} (h : Run ca c frs) (t : Bytes) (r : Range)
    (ht : ∀ x ∈ t, isPlain x = true)
    (hl : ca.nodesLimit ≤ 4294967295) (hroom : ca.doc.nodes.size < ca.nodesLimit) :
    ∃ c', flushBuffer c ⟨t.reverse, false⟩ r = .ok c' ∧ Run ca c' (frs ++ optOwned t) ∧ Frame c c' := by
  cases t with
  | nil =>
    refine ⟨c, rfl, ?_, Frame.refl c⟩
    simpa [optOwned] using h
  | cons b t' =>
    obtain ⟨c', h1, h2, h3⟩ := appendText_run h (.owned (b :: t')) r hl hroom
    refine ⟨c', ?_, by simpa [optOwned] using h2, h3⟩
    unfold flushBuffer
    have he : TextBuffer.isEmpty ⟨(b :: t').reverse, false⟩ = false := by
      simp [TextBuffer.isEmpty]
    simp only [he, Bool.not_false, if_true, finish_plain (b :: t') ht, Res.bind_ok, h1]

theorem Run.same {ca c c' : Ctx} {frs : List Str} (h : Run ca c frs) (hd : c'.doc = c.doc)
    (hp : c'.parentId = c.parentId) (ha : c'.awaiting = c.awaiting)
    (h1 : c'.nodesLimit = c.nodesLimit) (h2 : c'.curAttrs = c.curAttrs)
    (h3 : c'.nsStartIdx = c.nsStartIdx) (h4 : c'.parentPrefixes = c.parentPrefixes)
    (h5 : c'.afterText = c.afterText) : Run ca c' frs :=
  ⟨h.binv.congr (by rw [hd]) hp ha, h1.trans h.lim, h2.trans h.cur, h3.trans h.ns1, hp.trans h.pid,
    h4.trans h.pp, h5.trans h.aft, by rw [hd]; exact h.attrs, by rw [hd]; exact h.ns,
    by rw [← h.nodes]; unfold kps; rw [hd]⟩

section value
variable (T : Tables) (txt : Bytes) (lower2 : Token → Ctx → Res Ctx)

/-- the entity's tokens: one text token (fast path), or none -/
theorem value_run {ca c : Ctx} {frs : List Str} (h : Run ca c frs) (off : Nat) (v : Bytes)
    (st : Stream) (hv : ∀ x ∈ v, isPlain x = true ∧ x ≠ 38)
    (hl : ca.nodesLimit ≤ 4294967295) (hroom : ca.doc.nodes.size < ca.nodesLimit) :
    ∃ c3, runTokens (tokenStep T txt lower2) (valueToks off v) (.ok st) c = .ok c3 ∧
      Run ca c3 (frs ++ optBorrowed off v) ∧ Frame c c3 := by
  cases v with
  | nil =>
    refine ⟨c, rfl, ?_, Frame.refl c⟩
    simpa [optBorrowed] using h
  | cons b v' =>
    have hfast : ((b :: v').any fun x => x == bAmp || x == bCR) = false := by
      rw [List.any_eq_false]
      intro x hx
      obtain ⟨hp, h38⟩ := hv x hx
      have h1 : (x == bAmp) = false := by rw [beq_eq_false_iff_ne]; exact h38
      simp [h1, plain_bne hp (c := bCR) (by decide)]
    obtain ⟨c', h1, h2, h3⟩ := appendText_run
      (h.same (c' := c.log (.token (.text ⟨off, b :: v'⟩ (off, off + (b :: v').length))))
        rfl rfl rfl rfl rfl rfl rfl rfl)
      (.borrowed ⟨off, b :: v'⟩) (off, off + (b :: v').length) hl hroom
    refine ⟨c', ?_, by simpa [optBorrowed] using h2, ⟨h3.ld, h3.ents, h3.tag, h3.fl⟩⟩
    have hs : tokenStep T txt lower2 (.text ⟨off, b :: v'⟩ (off, off + (b :: v').length)) c = .ok c' := by
      unfold tokenStep
      dsimp only
      unfold processText
      simp only [hfast, Bool.not_false, if_true]
      exact h1
    simp only [valueToks, List.isEmpty_cons, Bool.false_eq_true, if_false]
    unfold runTokens
    rw [feed_cons_ok hs]
    rfl

end value

/-! ### The end of the run: the fragments become one node -/

theorem kps_setNode (c : Ctx) (i : Nat) (n : NodeData) :
    kps (c.setNode i n) = (kps c).set i (kp n) := by
  unfold kps Ctx.setNode
  simp [Array.toList_setIfInBounds, List.map_set]

theorem reset_run {ca c : Ctx} {frs : List Str} (h : Run ca c frs) (hne : frs ≠ []) :
    ∃ c0 X, c.resetAfterText = .ok c0 ∧ X.bytes = (frs.map (·.bytes)).flatten ∧ BInv c0 ∧
      core c0 = { core c with afterText := [], doc := c0.doc } ∧
      kps c0 = kps ca ++ [(Kind.text X, some ca.parentId)] ∧
      c0.doc.attrs = c.doc.attrs ∧ c0.doc.ns = c.doc.ns := by
  cases frs with
  | nil => exact absurd rfl hne
  | cons f r =>
    cases r with
    | nil =>
      have hr := resetAfterText_ok c (by rw [h.aft]; simp)
      refine ⟨_, f, hr, by simp, binv_resetAfterText h.binv hr, rfl, h.nodes, rfl, rfl⟩
    | cons g r' =>
      have hnodes := h.nodes
      simp only [runNode] at hnodes
      have hsz : c.doc.nodes.size = ca.doc.nodes.size + 1 := by
        have := congrArg List.length hnodes
        simpa [kps_length] using this
      have hlast : (kps c)[c.doc.nodes.size - 1]? = some (Kind.text f, some ca.parentId) := by
        rw [hnodes, hsz, List.getElem?_append_right (by simp [kps_length])]
        simp [kps_length]
      rw [kps_getElem?] at hlast
      obtain ⟨n, hn, hkp⟩ := Option.map_eq_some_iff.mp hlast
      simp only [kp, Prod.mk.injEq] at hkp
      have hmerge : c.mergeText = .ok (c.setNode (c.doc.nodes.size - 1)
          { n with kind := .text (.owned (c.afterText.map (·.bytes)).flatten) }) := by
        unfold Ctx.mergeText
        have h0 : (c.doc.nodes.size == 0) = false := by rw [hsz]; simp
        simp only [h0, Bool.false_eq_true, if_false, hn, hkp.1]
      have hr : c.resetAfterText = .ok { c.setNode (c.doc.nodes.size - 1)
          { n with kind := .text (.owned (c.afterText.map (·.bytes)).flatten) } with afterText := [] } := by
        unfold Ctx.resetAfterText
        have h1 : c.afterText.isEmpty = false := by rw [h.aft]; rfl
        have h2 : c.afterText.length > 1 := by rw [h.aft]; simp
        simp only [h1, Bool.false_eq_true, if_false, h2, if_true, hmerge, Res.bind_ok, Res.pure_eq]
      refine ⟨_, .owned (c.afterText.map (·.bytes)).flatten, hr, by rw [h.aft]; rfl,
        binv_resetAfterText h.binv hr, rfl, ?_, rfl, rfl⟩
      show kps (c.setNode _ _) = _
      rw [kps_setNode, hnodes, hsz]
      have : ca.doc.nodes.size + 1 - 1 = (kps ca).length := by simp [kps_length]
      rw [this, List.set_append_right _ _ (Nat.le_refl _)]
      simp [kp, hkp.2]

theorem frags_bytes (off : Nat) (t1 v t2 : Bytes) :
    ((optOwned t1 ++ optBorrowed off v ++ optOwned t2).map (·.bytes)).flatten = t1 ++ v ++ t2 := by
  cases t1 <;> cases v <;> cases t2 <;> simp [optOwned, optBorrowed, Str.bytes]

theorem frags_ne (off : Nat) (t1 v t2 : Bytes) (h : t1 ++ v ++ t2 ≠ []) :
    optOwned t1 ++ optBorrowed off v ++ optOwned t2 ≠ [] := by
  cases t1 <;> cases v <;> cases t2 <;> simp_all [optOwned, optBorrowed]

/-! ### The token of the run -/

section runstep
variable (T : Tables) (txt : Bytes) (lower2 : Token → Ctx → Res Ctx)

theorem step_textrun (hC3 : TablesCanon3 T) (s q : Nat) (ca : Ctx) (e : Entity) (t1 v t2 : Bytes)
    (off : Nat) (st : Stream) (hi : Inv s ca) (hat : ca.afterText = []) (hld : ca.ld.depth = 0)
    (he : findEntity ca.entities [101] = some e) (hev : e.value = ⟨off, v⟩)
    (hsl : sliceBytes txt q (q + (t1 ++ litRef ++ t2).length) = t1 ++ litRef ++ t2)
    (htx : textOk (t1 ++ v ++ t2) = true)
    (hval : tokenizeContent T txt off (off + v.length) = (valueToks off v, .ok st))
    (hroom : ca.doc.nodes.size + 1 ≤ ca.nodesLimit) :
    ∃ cb cb0, tokenStep T txt (tokenStep T txt lower2)
        (.text ⟨q, t1 ++ litRef ++ t2⟩ (q, q + (t1 ++ litRef ++ t2).length)) ca = .ok cb ∧
      cb.resetAfterText = .ok cb0 ∧
      Built s ca cb0 1 0 [(some ca.parentId, XKind.text (t1 ++ v ++ t2))] ∧ cb0.afterText = [] := by
  have hall := textOk_all htx
  have h1p : ∀ x ∈ t1, isPlain x = true ∧ x ≠ 38 := fun x hx =>
    ⟨(hall x (by simp [hx])).1, (hall x (by simp [hx])).2.2.1⟩
  have hvp : ∀ x ∈ v, isPlain x = true ∧ x ≠ 38 := fun x hx =>
    ⟨(hall x (by simp [hx])).1, (hall x (by simp [hx])).2.2.1⟩
  have h2p : ∀ x ∈ t2, isPlain x = true ∧ x ≠ 38 := fun x hx =>
    ⟨(hall x (by simp [hx])).1, (hall x (by simp [hx])).2.2.1⟩
  have hroom' : ca.doc.nodes.size < ca.nodesLimit := by omega
  obtain ⟨rg, hrg⟩ : ∃ rg : Range, rg = (q, q + (t1 ++ litRef ++ t2).length) := ⟨_, rfl⟩
  obtain ⟨cl, hcl⟩ : ∃ cl, cl = ca.log (.token (.text ⟨q, t1 ++ litRef ++ t2⟩ rg)) := ⟨_, rfl⟩
  have hR0 : Run ca cl [] := by
    subst hcl
    exact ⟨hi.binv.congr rfl rfl rfl, rfl, rfl, rfl, rfl, rfl, hat, rfl, rfl, by simp [runNode]; rfl⟩
  -- the bytes before the reference
  obtain ⟨c1, hf1, hR1, hF1⟩ := flush_run hR0 t1 rg (fun x hx => (h1p x hx).1) hi.lim hroom'
  have hld1 : c1.ld.depth = 0 := by rw [hF1.ld, hcl]; exact hld
  have he1 : findEntity cl.entities [101] = some e := by rw [hcl]; exact he
  have hRe : Run ca (enter c1) ([] ++ optOwned t1) := hR1.same rfl rfl rfl rfl rfl rfl rfl rfl
  -- the entity
  obtain ⟨c3, hv3, hR3, hF3⟩ := value_run T txt lower2 hRe off v st hvp hi.lim hroom'
  have hne : (c3.parentPrefixes.length != c3.entityFloor) = false := by
    rw [hR3.pp, hF3.fl]
    show (ca.parentPrefixes.length != c1.parentPrefixes.length) = false
    rw [hR1.pp]
    simp
  have hRl : Run ca (leave c1 c3) ([] ++ optOwned t1 ++ optBorrowed off v) :=
    hR3.same rfl rfl rfl rfl rfl rfl rfl rfl
  -- the bytes after the reference
  obtain ⟨cb, hf2, hRb, hFb⟩ := flush_run hRl t2 rg (fun x hx => (h2p x hx).1) hi.lim hroom'
  simp only [List.nil_append] at hRb
  have htc : tokenizeContent T txt e.value.off (e.value.off + e.value.bytes.length) =
      (valueToks off v, .ok st) := by rw [hev]; exact hval
  have hloop : processTextLoop T txt (tokenStep T txt lower2) rg (t1.length + ((t2.length + 3) + 1))
      ⟨q, t1 ++ 38 :: 101 :: 59 :: t2⟩ {} cl = .ok (⟨t2.reverse, false⟩, leave c1 c3) := by
    have := ptl_lit T txt (tokenStep T txt lower2) rg cl (38 :: 101 :: 59 :: t2) t1 h1p
      ((t2.length + 3) + 1) q []
    rw [List.append_nil] at this
    rw [show ({} : TextBuffer) = ⟨[], false⟩ from rfl, this,
      ptl_ref6 T txt hC3 (tokenStep T txt lower2) rg (t2.length + 3) (q + t1.length) t2 _ cl c1 e _ st
        hf1 hld1 he1 htc]
    unfold runTokens at hv3 ⊢
    cases hfd : feed (tokenStep T txt lower2) (valueToks off v) (enter c1) with
    | ok c3' =>
      rw [hfd] at hv3
      simp only [Res.ok.injEq] at hv3
      subst hv3
      simp only [Res.bind_ok, hne, Bool.false_eq_true, if_false]
      have := ptl_lit T txt (tokenStep T txt lower2) rg (leave c1 c3') [] t2 h2p 3 (q + t1.length + 3) []
      rw [List.append_nil, List.append_nil] at this
      rw [show ({} : TextBuffer) = ⟨[], false⟩ from rfl, this]
      exact ptl_end T txt _ rg 2 _ _ _
    | err e => rw [hfd] at hv3; cases hv3
    | panic e => rw [hfd] at hv3; cases hv3
    | fuel => rw [hfd] at hv3; cases hv3
  have hs : tokenStep T txt (tokenStep T txt lower2) (.text ⟨q, t1 ++ litRef ++ t2⟩ rg) ca = .ok cb := by
    unfold tokenStep
    dsimp only
    unfold processText
    have hany : ((t1 ++ litRef ++ t2).any fun b => b == bAmp || b == bCR) = true := by
      simp [litRef, bAmp]
    simp only [hany, Bool.not_true, Bool.false_eq_true, if_false, Stream.ofRange]
    rw [← hcl]
    have hsl' : sliceBytes txt rg.1 rg.2 = t1 ++ 38 :: 101 :: 59 :: t2 := by
      rw [hrg]
      show sliceBytes txt q (q + (t1 ++ litRef ++ t2).length) = _
      rw [hsl]
      simp only [litRef, List.append_assoc, List.cons_append, List.nil_append]
    have hfu : (t1 ++ 38 :: 101 :: 59 :: t2).length + 1 = t1.length + ((t2.length + 3) + 1) := by
      simp only [List.length_append, List.length_cons]
      omega
    rw [hsl', hfu]
    show (processTextLoop T txt (tokenStep T txt lower2) rg (t1.length + ((t2.length + 3) + 1))
      ⟨rg.1, t1 ++ 38 :: 101 :: 59 :: t2⟩ {} cl >>= fun x => flushBuffer x.2 x.1 rg) = _
    have hq : rg.1 = q := by rw [hrg]
    rw [hq, hloop]
    exact hf2
  -- the end of the run
  have hne0 : t1 ++ v ++ t2 ≠ [] := by
    intro h0
    rw [h0] at htx
    simp [textOk] at htx
  obtain ⟨cb0, X, hr0, hX, hb0, hcore, hk0, ha0, hn0⟩ := reset_run hRb (frags_ne off t1 v t2 hne0)
  rw [frags_bytes] at hX
  have etag : cb.tagName = ca.tagName := by
    rw [hFb.tag]
    show c1.tagName = _
    rw [hF1.tag, hcl]
    rfl
  have efl : cb.entityFloor = ca.entityFloor := by
    rw [hFb.fl]
    show c1.entityFloor = _
    rw [hF1.fl, hcl]
    rfl
  have hc : core cb0 = { core ca with doc := cb0.doc, afterText := [] } := by
    rw [hcore]
    simp only [core, hRb.lim, hRb.cur, hRb.ns1, hRb.pid, hRb.pp, etag, efl]
  refine ⟨cb, cb0, by rw [hrg] at hs; exact hs, hr0, ?_, congrArg Core.afterText hc⟩
  rw [← hX]
  exact built_leaf hi hb0 (by simp) hc hk0 (ha0.trans hRb.attrs) (hn0.trans hRb.ns)
    (fun _ => trivial) (fun _ => rfl)

end runstep

/-! ### The token after the run merges the fragments: it may as well start from the merged state -/

/-- the tokens whose handler starts with `reset_after_text` -/
def isReset : Token → Bool
  | .pi .. => true
  | .comment .. => true
  | .elementStart .. => true
  | .elementEnd .. => true
  | _ => false

theorem mergeText_log (c : Ctx) (e : Ev) :
    (c.log e).mergeText = (c.mergeText >>= fun c' => .ok (c'.log e)) := by
  unfold Ctx.mergeText
  show (if (c.doc.nodes.size == 0) = true then _ else _) = _
  cases h0 : (c.doc.nodes.size == 0) with
  | true => rfl
  | false =>
    simp only [Bool.false_eq_true, if_false]
    show (match c.doc.nodes[c.doc.nodes.size - 1]? with | none => _ | some n => _) = _
    cases hn : c.doc.nodes[c.doc.nodes.size - 1]? with
    | none => rfl
    | some n =>
      simp only
      cases hk : n.kind <;> rfl

theorem reset_log (c c0 : Ctx) (e : Ev) (h : c.resetAfterText = .ok c0) :
    (c.log e).resetAfterText = .ok (c0.log e) := by
  unfold Ctx.resetAfterText at h ⊢
  have ha : (c.log e).afterText = c.afterText := rfl
  rw [ha]
  cases he : c.afterText.isEmpty with
  | true =>
    simp only [he, if_true, Res.ok.injEq] at h ⊢
    rw [h]
  | false =>
    simp only [he, Bool.false_eq_true, if_false] at h ⊢
    by_cases hl : c.afterText.length > 1
    · simp only [hl, if_true] at h ⊢
      rw [Res.bind_eq_ok] at h
      obtain ⟨cm, hm, h⟩ := h
      rw [mergeText_log, hm]
      res_norm at h
      subst h
      rfl
    · simp only [hl, if_false] at h ⊢
      res_norm at h
      subst h
      rfl

theorem reset_aft (c c0 : Ctx) (h : c.resetAfterText = .ok c0) : c0.afterText = [] := by
  unfold Ctx.resetAfterText at h
  cases he : c.afterText.isEmpty with
  | true =>
    simp only [he, if_true, Res.ok.injEq] at h
    subst h
    simpa using he
  | false =>
    simp only [he, Bool.false_eq_true, if_false] at h
    by_cases hl : c.afterText.length > 1
    · simp only [hl, if_true] at h
      rw [Res.bind_eq_ok] at h
      obtain ⟨cm, _, h⟩ := h
      res_norm at h
      subst h
      rfl
    · simp only [hl, if_false] at h
      res_norm at h
      subst h
      rfl

section reset
variable (T : Tables) (txt : Bytes) (lower : Token → Ctx → Res Ctx)

theorem tokenStep_reset (t : Token) (c c0 : Ctx) (ht : isReset t = true)
    (h : c.resetAfterText = .ok c0) :
    tokenStep T txt lower t c = tokenStep T txt lower t c0 := by
  have h1 := reset_log c c0 (.token t) h
  have h2 : (c0.log (.token t)).resetAfterText = .ok (c0.log (.token t)) := by
    unfold Ctx.resetAfterText
    have : (c0.log (.token t)).afterText.isEmpty = true := by
      show c0.afterText.isEmpty = true
      rw [reset_aft c c0 h]; rfl
    simp only [this, if_true]
  cases t <;> simp only [isReset, Bool.false_eq_true] at ht <;>
    (unfold tokenStep; dsimp only; rw [h1, h2])

end reset

theorem toks_head_reset {k : XNode} (h : isText k = false) (p : Nat) :
    ∃ t r, toks p k = t :: r ∧ isReset t = true := by
  cases k with
  | elem n as ks => exact ⟨_, _, by simp only [toks, List.cons_append, List.nil_append]; rfl, rfl⟩
  | comment c => exact ⟨_, _, rfl, rfl⟩
  | text t => simp [isText] at h

/-! ### An element whose children leave a run open at the end -/

section elem6
variable (T : Tables) (txt : Bytes) (lower : Token → Ctx → Res Ctx)
  (hlower : ∀ t c c', BInv c → lower t c = .ok c' → BInv c')
include hlower

theorem build_elem_open6 (s : Nat) (c : Ctx) (n : Bytes) (as : List (Bytes × Bytes)) (ks : List XNode)
    (o1 o2 st o3 o4 : Nat) (r1 r2 : Range) (ats kts : List Token) (hats : AttrToks as ats)
    (ih : ∀ (c3 : Ctx),
      feed (tokenStep T txt lower)
        (Token.elementStart ⟨o1, []⟩ ⟨o2, n⟩ st :: ats ++ [Token.elementEnd .open r1]) c = .ok c3 →
      Inv s c3 → c3.afterText = [] →
      c3.doc.nodes.size + countAll ks ≤ c3.nodesLimit →
      c3.doc.attrs.size + attrCountAll ks < 4294967295 →
      ∃ c' c'', feed (tokenStep T txt lower) kts c3 = .ok c' ∧
        Built s c3 c'' (countAll ks) (attrCountAll ks) (expectAll c3.parentId c3.doc.nodes.size ks) ∧
        (∀ t, isReset t = true → tokenStep T txt lower t c' = tokenStep T txt lower t c''))
    (hn : nameOk n = true) (has : attrsOk as = true) (hi : Inv s c)
    (hroom : c.doc.nodes.size + (1 + countAll ks) ≤ c.nodesLimit)
    (haroom : c.doc.attrs.size + (as.length + attrCountAll ks) < 4294967295) :
    ∃ c', feed (tokenStep T txt lower)
        ([Token.elementStart ⟨o1, []⟩ ⟨o2, n⟩ st] ++ ats ++ [Token.elementEnd .open r1] ++ kts ++
            [Token.elementEnd (.close ⟨o3, []⟩ ⟨o4, n⟩) r2]) c = .ok c' ∧
      Built s c c' (1 + countAll ks) (as.length + attrCountAll ks)
        (expect c.parentId c.doc.nodes.size (.elem n as ks)) ∧
      c'.afterText = [] := by
  have hn0 : n ≠ [] := by
    intro h; subst h; simp [nameOk] at hn
  have hnd : (as.map (·.1)).Nodup := by
    simp only [attrsOk, Bool.and_eq_true, decide_eq_true_eq] at has
    exact has.2
  -- start tag
  obtain ⟨c2, new, hs2, hb2, hc2, hpfx, hmap⟩ :=
    build_head T txt lower hlower s c n as o1 o2 st ats hats has hi
  have d2 : c2.doc = c.doc := congrArg Core.doc hc2
  have cur2 : c2.curAttrs = new := congrArg Core.curAttrs hc2
  have lim2 : c2.nodesLimit = c.nodesLimit := congrArg Core.nodesLimit hc2
  have at2 : c2.afterText = [] := congrArg Core.afterText hc2
  have tag2 : c2.tagName = ⟨[], n, ⟨o2, n⟩, st, st + 1⟩ := congrArg Core.tagName hc2
  have ns2 : c2.nsStartIdx = c.nsStartIdx := congrArg Core.nsStartIdx hc2
  have pid2 : c2.parentId = c.parentId := congrArg Core.parentId hc2
  have pp2 : c2.parentPrefixes = c.parentPrefixes := congrArg Core.parentPrefixes hc2
  have fl2 : c2.entityFloor = c.entityFloor := congrArg Core.entityFloor hc2
  have k2 : kps c2 = kps c := by unfold kps; rw [d2]
  have hnames : new.map (·.loc.bytes) = as.map (·.1) := by
    rw [← hmap, List.map_map]; rfl
  have hnewlen : new.length = as.length := by
    have := congrArg List.length hmap
    simpa using this
  obtain ⟨c3, hs3, rg, new3, hc3, hk3, hns3, hat3, hmap3, hrg, htake⟩ :=
    step_open T txt lower c2 s r1 o2 st n hn0 hb2 (by rw [lim2]; exact hi.lim)
      (by rw [lim2, d2]; omega) (by rw [at2]; simp) tag2 (by rw [ns2]; exact hi.ns1)
      (by rw [d2]; exact hi.ns2) (by rw [k2, d2]; exact hi.good) (by rw [cur2]; exact hpfx)
      (by rw [cur2, hnames]; exact hnd) (by rw [cur2, d2, hnewlen]; omega)
  have hb3 := binv_tokenStep T txt lower hlower _ c2 c3 hb2 hs3
  obtain ⟨hany, hvals⟩ := akey_split new3 c2.curAttrs hmap3
  have hvals' : new3.map (fun a => (a.localName.bytes, a.value.bytes)) = as := by
    rw [hvals, cur2]; exact hmap
  have hnew3len : new3.length = as.length := by
    have := congrArg List.length hvals'
    simpa using this
  have hview : viewKP c3.doc.attrs.toList
      (Kind.element none ⟨o2, n⟩ rg (s, s), some c2.parentId) =
      some (some c.parentId, XKind.elem n as) := by
    simp only [viewKP, htake, hany, hvals', pid2]
    rfl
  have d3n : c3.doc.nodes.size = c.doc.nodes.size + 1 := by
    have := congrArg List.length hk3
    rw [k2] at this
    simpa [kps_length] using this
  have d3a : c3.doc.attrs.size = c.doc.attrs.size + as.length := by
    have := congrArg List.length hat3
    rw [d2] at this
    simpa [hnew3len] using this
  have lim3 : c3.nodesLimit = c.nodesLimit := (congrArg Core.nodesLimit hc3).trans lim2
  have at3 : c3.afterText = [] := congrArg Core.afterText hc3
  have pid3 : c3.parentId = c.doc.nodes.size := by
    have : c3.parentId = c2.doc.nodes.size := congrArg Core.parentId hc3
    rw [this, d2]
  have pp3 : c3.parentPrefixes = [] :: c.parentPrefixes := by
    have : c3.parentPrefixes = [] :: c2.parentPrefixes := congrArg Core.parentPrefixes hc3
    rw [this, pp2]
  have tag3 : c3.tagName = c2.tagName := congrArg Core.tagName hc3
  have fl3 : c3.entityFloor = c.entityFloor := (congrArg Core.entityFloor hc3).trans fl2
  have hi3 : Inv s c3 := by
    refine ⟨hb3, by rw [lim3]; exact hi.lim, congrArg Core.curAttrs hc3, ?_, by rw [hns3, d2]; exact hi.ns2,
      by rw [fl3, pp3]; exact Nat.le_succ_of_le hi.floor, by rw [at3]; simp, ?_⟩
    · have : c3.nsStartIdx = c2.doc.ns.treeOrder.size := congrArg Core.nsStartIdx hc3
      rw [this, d2]; exact hi.ns2
    · intro x hx
      rw [hk3, k2] at hx
      rcases List.mem_append.mp hx with hx | hx
      · exact good_mono (hi.good x hx) (by rw [d3a]; omega)
      · simp only [List.mem_singleton] at hx
        subst hx
        exact ⟨hrg, rfl⟩
  have hfeed3 : feed (tokenStep T txt lower)
      (Token.elementStart ⟨o1, []⟩ ⟨o2, n⟩ st :: ats ++ [Token.elementEnd .open r1]) c = .ok c3 :=
    feed_append_ok _ _ c c2 c3 hs2 (by rw [feed_cons_ok hs3]; rfl)
  -- children
  obtain ⟨c4f, c4, hs4, hB4, hre⟩ :=
    ih c3 hfeed3 hi3 at3 (by rw [d3n, lim3]; omega) (by rw [d3a]; omega)
  obtain ⟨K4, more4, hk4, ha4, hv4⟩ := hB4.grow
  have hi4 := hB4.inv
  have pid4 : c4.parentId = c.doc.nodes.size := hB4.pid.trans pid3
  have hnode : (kps c4)[c.doc.nodes.size]? =
      some (Kind.element none ⟨o2, n⟩ rg (s, s), some c2.parentId) := by
    rw [hk4, hk3, k2]
    rw [List.getElem?_append_left (by simp [kps_length])]
    rw [List.getElem?_append_right (by simp [kps_length])]
    simp [kps_length]
  rw [kps_getElem?] at hnode
  obtain ⟨pn, hpn, hkp⟩ := Option.map_eq_some_iff.mp hnode
  simp only [kp, Prod.mk.injEq] at hkp
  have tag4 : c4.tagName.name ≠ [] := by
    apply hB4.tag
    rw [tag3, tag2]; exact hn0
  -- end tag
  obtain ⟨c5, hs5, hc5, hk5, ha5, hns5⟩ :=
    step_close T txt lower c4 s c.parentId r2 o3 o4 n c.parentPrefixes
      pn none ⟨o2, n⟩ rg (s, s) hi4.at1 tag4 hi4.ns1 hi4.ns2 hi4.cur
      (by rw [hB4.fl, fl3]; exact hi.floor) (hB4.pp.trans pp3)
      (by rw [pid4]; exact hpn) hkp.1 rfl rfl (by rw [hkp.2, pid2])
  have hs5f : tokenStep T txt lower (.elementEnd (.close ⟨o3, []⟩ ⟨o4, n⟩) r2) c4f = .ok c5 := by
    rw [hre _ rfl]; exact hs5
  have hb5 := binv_tokenStep T txt lower hlower _ c4 c5 hi4.binv hs5
  have at5 : c5.afterText = [] := congrArg Core.afterText hc5
  have lim5 : c5.nodesLimit = c.nodesLimit := (congrArg Core.nodesLimit hc5).trans (hB4.lim.trans lim3)
  have tag5 : c5.tagName = c4.tagName := congrArg Core.tagName hc5
  have fl5 : c5.entityFloor = c.entityFloor :=
    (congrArg Core.entityFloor hc5).trans (hB4.fl.trans fl3)
  have pp5 : c5.parentPrefixes = c.parentPrefixes := congrArg Core.parentPrefixes hc5
  have hi5 : Inv s c5 := by
    refine ⟨hb5, by rw [lim5]; exact hi.lim, (congrArg Core.curAttrs hc5).trans hi4.cur, ?_,
      by rw [hns5]; exact hi4.ns2, by rw [fl5, pp5]; exact hi.floor,
      by rw [at5]; simp, by rw [hk5, ha5]; exact hi4.good⟩
    have : c5.nsStartIdx = c4.doc.ns.treeOrder.size := congrArg Core.nsStartIdx hc5
    rw [this]; exact hi4.ns2
  refine ⟨c5, ?_, ⟨hi5, congrArg Core.parentId hc5, pp5, fl5, lim5,
    fun _ => by rw [tag5]; exact tag4, ?_, ?_, ?_⟩, at5⟩
  · refine feed_append_ok _ _ c c4f c5 ?_ (by rw [feed_cons_ok hs5f]; rfl)
    refine feed_append_ok _ _ c c3 c4f ?_ hs4
    exact hfeed3
  · have h5 : c5.doc.nodes.size = c4.doc.nodes.size := by
      have := congrArg List.length hk5
      simpa [kps_length] using this
    rw [h5, hB4.size, d3n]; omega
  · rw [ha5, hB4.asize, d3a]; omega
  · refine ⟨(Kind.element none ⟨o2, n⟩ rg (s, s), some c2.parentId) :: K4, new3 ++ more4, ?_, ?_, ?_⟩
    · rw [hk5, hk4, hk3, k2]; simp
    · rw [ha5, ha4, hat3, d2]; simp
    · rw [expect, List.map_cons, List.map_cons, ha5]
      congr 1
      · rw [ha4, viewKP_stable s c3.doc.attrs.toList more4
          (Kind.element none ⟨o2, n⟩ rg (s, s), some c2.parentId) ⟨by simpa using hrg, rfl⟩]
        exact hview
      · rw [hv4, pid3, d3n]

end elem6

end RtB6

open RtB RtB2 RtB3 RtB6

/-- **Builder, reference inside a run**: if the tokenizer delivered `hoistTToks` for the document,
and re-entered on the entity's value it delivers the value's text token (or nothing), and the text
at the run's offset is `t1&e;t2`, then `parse` (with `allow_dtd = true`) succeeds and the arena read
back is the root followed by the nodes of the INLINE document `<n as>pre (t1 v t2) post</n>`. -/
theorem parse_of_hoistTToks (T : Tables) (hC : TablesCanon T) (hC3 : TablesCanon3 T)
    (txt : Bytes) (opt : Opt) (hdtd : opt.allowDtd = true)
    (n : Bytes) (as : List (Bytes × Bytes)) (pre : List XNode) (t1 v t2 : Bytes) (post : List XNode)
    (hx : hoistTOk n as pre t1 v t2 post = true)
    (htok : tokenize T txt true = (hoistTToks n as pre t1 v t2 post, .ok ()))
    (hval : tokenizeContent T txt (valueOff n) (valueOff n + v.length) =
      (valueToks (valueOff n) v, .ok ⟨valueOff n + v.length, []⟩))
    (href : sliceBytes txt (runOff n as pre v) (runOff n as pre v + (t1 ++ litRef ++ t2).length) =
      t1 ++ litRef ++ t2)
    (hlim : count (inlineT n as pre t1 v t2 post) + 1 ≤ opt.nodesLimit)
    (hl32 : opt.nodesLimit ≤ 4294967295)
    (hattrs : attrCount (inlineT n as pre t1 v t2 post) < 4294967295) :
    ∃ d, parse T txt opt = .ok d ∧
      d.nodes.toList.map (view d) =
        some (none, XKind.root) :: (expect 0 1 (inlineT n as pre t1 v t2 post)).map some := by
  have _ := hC
  -- the class conditions
  obtain ⟨hn, has, ⟨hokpre, htx, hokpost⟩, ⟨hadjpre, hadjpost⟩, hlast, hfirst, _⟩ := hoistTOk_parts hx
  -- start of `parse`
  obtain ⟨c0, h0, l0, ns0, ts0, cur0, fl0, at0, pid0, pp0, attrs0, k0, sz0⟩ := initCtx_ok txt opt
  obtain ⟨ld0, ent0⟩ := initCtx_frame txt opt c0 h0
  have hb0 : BInv c0 := binv_init txt opt c0 h0
  have hi0 : Inv 1 c0 := by
    refine ⟨hb0, by rw [l0]; exact hl32, cur0, ns0, ts0, by rw [fl0]; exact Nat.zero_le _,
      by rw [at0]; simp, ?_⟩
    intro x hx
    rw [k0] at hx
    simp only [List.mem_singleton] at hx
    subst hx
    trivial
  -- offsets
  obtain ⟨r, hr⟩ : ∃ r, r = rootOffT n v := ⟨_, rfl⟩
  obtain ⟨p2, hp2⟩ : ∃ p2, p2 = r + 1 + n.length + attrsLen as := ⟨_, rfl⟩
  obtain ⟨q, hq⟩ : ∃ q, q = runOff n as pre v := ⟨_, rfl⟩
  obtain ⟨X, hX⟩ : ∃ X, X = t1 ++ litRef ++ t2 := ⟨_, rfl⟩
  obtain ⟨p3, hp3⟩ : ∃ p3, p3 = q + X.length + (renderAll post).length := ⟨_, rfl⟩
  obtain ⟨nm, hnm⟩ : ∃ nm : Span, nm = ⟨litDoctype.length + n.length + 11, [101]⟩ := ⟨_, rfl⟩
  obtain ⟨e, hedef⟩ : ∃ e : Entity, e = ⟨nm, ⟨valueOff n, v⟩⟩ := ⟨_, rfl⟩
  have htoks : hoistTToks n as pre t1 v t2 post =
      Token.entityDecl nm ⟨valueOff n, v⟩ ::
        ([Token.elementStart ⟨r + 1, []⟩ ⟨r + 1, n⟩ r] ++ attrToks (r + 1 + n.length) as ++
          [Token.elementEnd .open (p2, p2 + 1)] ++
          (toksAll (p2 + 1) pre ++ [Token.text ⟨q, X⟩ (q, q + X.length)] ++ toksAll (q + X.length) post) ++
          [Token.elementEnd (.close ⟨p3 + 2, []⟩ ⟨p3 + 2, n⟩) (p3, p3 + 3 + n.length)]) := by
    subst hp3; subst hX; subst hq; subst hp2; subst hr; subst hnm
    simp only [hoistTToks, List.append_assoc, List.cons_append, List.nil_append]
  rw [← hq] at href
  -- the entity declaration
  obtain ⟨c1, hc1⟩ : ∃ c1 : Ctx, c1 =
      { c0.log (.token (.entityDecl nm ⟨valueOff n, v⟩)) with
        entities := c0.entities ++ [⟨nm, ⟨valueOff n, v⟩⟩] } := ⟨_, rfl⟩
  have hs1 : tokenStep T txt (token T txt 11) (.entityDecl nm ⟨valueOff n, v⟩) c0 =
      .ok c1 := by rw [hc1]; rfl
  have hi1 : Inv 1 c1 := by
    rw [hc1]
    exact ⟨hi0.binv.congr rfl rfl rfl, hi0.lim, hi0.cur, hi0.ns1, hi0.ns2, hi0.floor, hi0.at1,
      hi0.good⟩
  have ld1 : c1.ld.depth = 0 := by rw [hc1]; exact ld0
  have ent1 : findEntity c1.entities [101] = some e := by
    rw [hc1, hedef, hnm]
    show findEntity (c0.entities ++ _) [101] = _
    rw [ent0]
    rfl
  have doc1 : c1.doc = c0.doc := by rw [hc1]; rfl
  have pid1 : c1.parentId = 0 := by rw [hc1]; exact pid0
  have pp1 : c1.parentPrefixes = [[]] := by rw [hc1]; exact pp0
  have lim1 : c1.nodesLimit = opt.nodesLimit := by rw [hc1]; exact l0
  have hev : e.value = ⟨valueOff n, v⟩ := by rw [hedef]
  -- the element
  have hstep12 : ∀ t c c', t.isEntityDecl = false →
      tokenStep T txt (token T txt 11) t c = .ok c' → EntOk c c' :=
    fun t c c' hk h => token_entOk T txt 12 t c c' hk h
  have hwalk12 : ∀ t c c', tokenStep T txt (token T txt 11) t c = .ok c' → Walks c.ld c'.ld :=
    fun t c c' h => token_walk T txt 12 t c c' h
  simp only [inlineT, count] at hlim
  simp only [inlineT, attrCount] at hattrs
  obtain ⟨c5, hf5, hB, _⟩ := build_elem_open6 T txt (token T txt 11) (binv_token T txt 11) 1 c1 n as
    (pre ++ [.text (t1 ++ v ++ t2)] ++ post) (r + 1) (r + 1) r (p3 + 2) (p3 + 2) (p2, p2 + 1)
    (p3, p3 + 3 + n.length)
    (attrToks (r + 1 + n.length) as)
    (toksAll (p2 + 1) pre ++ [Token.text ⟨q, X⟩ (q, q + X.length)] ++ toksAll (q + X.length) post)
    (attrToks_rel as _)
    (by
      intro c3 hfeed3 hi3 at3 hroom3 haroom3
      rw [countAll_app, countAll_app] at hroom3
      rw [attrCountAll_app, attrCountAll_app] at haroom3
      simp only [countAll, count, attrCountAll, attrCount, Nat.add_zero] at hroom3 haroom3
      -- the children before the run
      obtain ⟨ca, hfa, hBa, hata⟩ := build_all3 T txt (token T txt 11) (binv_token T txt 11) 1 pre
        (toksAll (p2 + 1) pre) c3 (tokForAll_toksAll pre _) hokpre hadjpre hi3
        (fun _ _ _ _ => at3) (by omega) (by omega)
      have ata : ca.afterText = [] := hata hlast (fun _ => at3)
      have hfeeda := feed_append_ok _ _ c1 c3 ca hfeed3 hfa
      have hnd : ∀ t ∈ Token.elementStart ⟨r + 1, []⟩ ⟨r + 1, n⟩ r :: attrToks (r + 1 + n.length) as ++
          [Token.elementEnd .open (p2, p2 + 1)] ++ toksAll (p2 + 1) pre, t.isEntityDecl = false := by
        intro t ht
        simp only [List.cons_append, List.mem_cons, List.mem_append, List.not_mem_nil,
          or_false] at ht
        rcases ht with rfl | (h | rfl) | h
        · rfl
        · exact attrToks_noDecl as _ t h
        · rfl
        · exact toksAll_noDecl pre _ t h
      have enta : ca.entities = c1.entities := (feed_entOk _ hstep12 _ hnd c1 ca hfeeda).1
      have lda : ca.ld.depth = 0 := by
        rw [walks_depth (feed_walks _ hwalk12 _ c1 ca hfeeda)]; exact ld1
      -- the run
      obtain ⟨cb, cb0, hsb, hrb, hBb, atb⟩ := step_textrun T txt (token T txt 10) hC3 1 q ca e t1 v t2
        (valueOff n) ⟨valueOff n + v.length, []⟩ hBa.inv ata lda (by rw [enta]; exact ent1) hev
        href htx hval (by rw [hBa.size, hBa.lim]; omega)
      rw [← hX] at hsb
      have hsb' : tokenStep T txt (token T txt 11) (.text ⟨q, X⟩ (q, q + X.length)) ca = .ok cb := hsb
      rw [hBa.pid] at hBb
      have hBab := hBa.trans hBb
      have hreset : ∀ t, isReset t = true →
          tokenStep T txt (token T txt 11) t cb = tokenStep T txt (token T txt 11) t cb0 :=
        fun t ht => tokenStep_reset T txt (token T txt 11) t cb cb0 ht hrb
      have hfab : feed (tokenStep T txt (token T txt 11))
          (toksAll (p2 + 1) pre ++ [Token.text ⟨q, X⟩ (q, q + X.length)]) c3 = .ok cb := by
        refine feed_append_ok _ _ c3 ca cb hfa ?_
        rw [feed_cons_ok hsb']; rfl
      have hexp : expectAll c3.parentId c3.doc.nodes.size (pre ++ [XNode.text (t1 ++ v ++ t2)] ++ post) =
          expectAll c3.parentId c3.doc.nodes.size pre ++
            [(some c3.parentId, XKind.text (t1 ++ v ++ t2))] ++
            expectAll c3.parentId (c3.doc.nodes.size + countAll pre + 1) post := by
        rw [expectAll_app, expectAll_app, countAll_app]
        simp only [expectAll, expect, countAll, count, List.append_nil, Nat.add_zero, Nat.add_assoc]
      -- the children after the run
      cases hpost : post with
      | nil =>
        refine ⟨cb, cb0, ?_, ?_, hreset⟩
        · simp only [toksAll, List.append_nil]
          exact hfab
        · rw [hpost] at hexp
          rw [hexp]
          simp only [countAll_app, attrCountAll_app, countAll, count, attrCountAll, attrCount,
            expectAll, List.append_nil, Nat.add_zero]
          exact hBab
      | cons k rest =>
        rw [← hpost]
        have hkt : isText k = false := by
          rw [hpost] at hfirst
          simpa [firstIsText] using hfirst
        obtain ⟨cc, hfc, hBc⟩ := build_all2 T txt (token T txt 11) (binv_token T txt 11) 1 post
          (toksAll (q + X.length) post) cb0 (tokForAll_toksAll post _) hokpost hadjpost hBab.inv
          (by
            intro k' rr hks ht
            rw [hks] at hfirst
            simp only [firstIsText] at hfirst
            rw [ht] at hfirst; cases hfirst)
          (by rw [hBab.size, hBab.lim]; omega) (by rw [hBab.asize]; omega)
        rw [hBab.pid, hBab.size] at hBc
        have hfc' : feed (tokenStep T txt (token T txt 11)) (toksAll (q + X.length) post) cb = .ok cc := by
          obtain ⟨t, tr, htk, htr⟩ := toks_head_reset hkt (q + X.length)
          have hl : toksAll (q + X.length) post =
              t :: (tr ++ toksAll (q + X.length + (render k).length) rest) := by
            rw [hpost]
            simp only [toksAll, htk, List.cons_append]
          rw [hl] at hfc ⊢
          simp only [feed] at hfc ⊢
          rw [hreset t htr]
          exact hfc
        refine ⟨cc, cc, feed_append_ok _ _ c3 cb cc hfab hfc', ?_, fun _ _ => rfl⟩
        rw [hexp, countAll_app, countAll_app, attrCountAll_app, attrCountAll_app]
        simp only [countAll, count, attrCountAll, attrCount, Nat.add_zero]
        have := hBab.trans hBc
        simpa only [Nat.add_assoc, Nat.add_zero, List.append_assoc] using this)
    hn has hi1 (by rw [doc1, sz0, lim1]; omega) (by rw [doc1, attrs0]; simpa using hattrs)
  rw [pid1, doc1, sz0] at hB
  obtain ⟨K, more, hk, ha, hv⟩ := hB.grow
  have k1 : kps c1 = [(Kind.root, none)] := by
    have : kps c1 = kps c0 := by unfold kps; rw [doc1]
    rw [this, k0]
  have hrun : runTokens (token T txt depthFuel) (hoistTToks n as pre t1 v t2 post) (.ok ()) c0 = .ok c5 := by
    unfold runTokens
    have : token T txt depthFuel = tokenStep T txt (token T txt 11) := rfl
    rw [this, htoks, feed_cons_ok hs1, hf5]
  have hb5 : BInv c5 := hB.inv.binv
  have hhas : rootHasElement c5.doc = .ok true := by
    rw [expect, List.map_cons] at hv
    cases K with
    | nil => simp at hv
    | cons x K' =>
      simp only [List.map_cons, List.cons.injEq] at hv
      obtain ⟨he, hpar⟩ := viewKP_elem hv.1
      have hnode : (kps c5)[1]? = some x := by
        rw [hk, k1]; rfl
      rw [kps_getElem?] at hnode
      obtain ⟨n1, hn1, hkp⟩ := Option.map_eq_some_iff.mp hnode
      subst hkp
      exact rootHasElement_ok c5.doc hb5.wf n1 hn1 hpar he
  refine ⟨{ c5.doc with ns := { c5.doc.ns with sortedOrder := #[] } }, ?_, ?_⟩
  · unfold parse parseCtx
    rw [h0]
    simp only [Res.bind_ok]
    rw [hdtd, htok]
    simp only
    rw [hrun]
    simp only [Res.bind_ok]
    unfold finish
    rw [hhas]
    have : c5.parentPrefixes.length = 1 := by rw [hB.pp, pp1]; rfl
    simp [this]
  · have hview : ∀ (D : Doc), D.attrs = c5.doc.attrs →
        List.map (view D) c5.doc.nodes.toList = (kps c5).map (viewKP c5.doc.attrs.toList) := by
      intro D hD
      unfold kps
      rw [List.map_map]
      apply List.map_congr_left
      intro nd _
      rw [view_eq, hD]; rfl
    refine (hview _ rfl).trans ?_
    rw [hk, k1, List.map_append, hv]
    rfl

end Rox.Lemmas
