/-
  Rox.Lemmas.ShiftErrBuild — the builder level of the simulation with the error clause
  (see `Rox.Lemmas.ShiftErrBase`), and `parseCtx`.
-/
import Rox.Lemmas.ShiftErrBase

namespace Rox.Lemmas.ShiftE
open Rox Shift
set_option linter.unusedSimpArgs false
set_option linter.unusedVariables false
set_option linter.unusedSectionVars false

/-! ### Computations that are never rejected (they are the same on both sides) -/

/-- the computation is never rejected (it may panic) -/
structure NE {α : Type} (r : Res α) : Prop where
  out : ∀ e, r ≠ .err e

theorem ne_ok {α} (a : α) : NE (Res.ok a) := ⟨fun e h => by cases h⟩
theorem ne_pure {α} (a : α) : NE (pure a : Res α) := ⟨fun e h => by cases h⟩
theorem ne_panic {α} (s : String) : NE (Res.panic s : Res α) := ⟨fun e h => by cases h⟩
theorem ne_fuel {α} : NE (Res.fuel : Res α) := ⟨fun e h => by cases h⟩

theorem ne_bind {α β} (m : Res α) (j : α → Res β) (hm : NE m) (hj : ∀ a, NE (j a)) : NE (m >>= j) := by
  cases m with
  | ok a => exact hj a
  | err e => exact absurd rfl (hm.out e)
  | panic s => exact ne_panic s
  | fuel => exact ne_fuel

syntax "ne_try" term,* : tactic
macro_rules
  | `(tactic| ne_try) => `(tactic| fail "no lemma")
  | `(tactic| ne_try $t:term) => `(tactic| apply $t)
  | `(tactic| ne_try $t:term, $ts:term,*) => `(tactic| first | apply $t | ne_try $ts,*)

syntax "ne_step" term,* : tactic
macro_rules
  | `(tactic| ne_step $ts:term,*) => `(tactic| first
    | exact ne_ok _
    | exact ne_pure _
    | exact ne_panic _
    | exact ne_fuel
    | assumption
    | ne_try $ts,*
    | apply ne_bind
    | intro _
    | split
    | dsimp only)

syntax "ne_auto" ("using" term,*)? : tactic
macro_rules
  | `(tactic| ne_auto) => `(tactic| repeat' ne_step)
  | `(tactic| ne_auto using $ts:term,*) => `(tactic| repeat' ne_step $ts,*)

theorem searchGo_ne (ns : Namespaces) (name : Option Bytes) (uri : Bytes) :
    ∀ fuel i, NE (ns.searchGo name uri fuel i) := by
  intro fuel
  induction fuel with
  | zero => intro i; unfold Namespaces.searchGo; ne_auto
  | succ n ih => intro i; unfold Namespaces.searchGo; ne_auto using ih

theorem search_ne (ns : Namespaces) (name : Option Bytes) (uri : Bytes) : NE (ns.search name uri) := by
  unfold Namespaces.search; ne_auto using searchGo_ne

theorem existsAux_ne (values : Array Namespace) (pfx : Option Bytes) :
    ∀ l, NE (Namespaces.existsAux values pfx l) := by
  intro l
  induction l with
  | nil => unfold Namespaces.existsAux; ne_auto
  | cons a r ih => unfold Namespaces.existsAux; ne_auto using ih

theorem exists_ne (ns : Namespaces) (start : Nat) (pfx : Option Bytes) : NE (ns.exists start pfx) := by
  unfold Namespaces.exists; ne_auto using existsAux_ne

theorem nodeIdNew_ne (k : Nat) : NE (Api.nodeIdNew k) := by
  unfold Api.nodeIdNew; ne_auto

theorem nsByIdx_ne (d : Doc) (k : Nat) : NE (Api.nsByIdx d k) := by
  unfold Api.nsByIdx; ne_auto

theorem expandedName_ne (d : Doc) (i : Option Nat) (loc : Span) : NE (Api.expandedName d i loc) := by
  unfold Api.expandedName; ne_auto using nsByIdx_ne

theorem attrAt_ne (d : Doc) (k : Nat) : NE (Api.attrAt d k) := by
  unfold Api.attrAt; ne_auto

theorem attrExpanded_ne (d : Doc) (k : Nat) : NE (Api.attrExpanded d k) := by
  unfold Api.attrExpanded; ne_auto using attrAt_ne, expandedName_ne

theorem getNodeUnwrap_ne (d : Doc) (k : Nat) : NE (Api.getNodeUnwrap d k) := by
  unfold Api.getNodeUnwrap; ne_auto

theorem follow_ne (d : Doc) (l : Option Nat) : NE (Api.follow d l) := by
  unfold Api.follow; ne_auto

theorem firstChild_ne (d : Doc) (k : Nat) : NE (Api.firstChild d k) := by
  unfold Api.firstChild; ne_auto using getNodeUnwrap_ne, nodeIdNew_ne

theorem lastChild_ne (d : Doc) (k : Nat) : NE (Api.lastChild d k) := by
  unfold Api.lastChild; ne_auto using getNodeUnwrap_ne, follow_ne

theorem nextSibling_ne (d : Doc) (k : Nat) : NE (Api.nextSibling d k) := by
  unfold Api.nextSibling; ne_auto using getNodeUnwrap_ne

theorem children_ne (d : Doc) (k : Nat) : NE (Api.children d k) := by
  unfold Api.children; ne_auto using firstChild_ne, lastChild_ne

theorem childrenNext_ne (d : Doc) (it : Api.ChildrenIt) : NE (it.next d) := by
  unfold Api.ChildrenIt.next; ne_auto using nextSibling_ne

theorem childrenList_ne (d : Doc) : ∀ fuel it, NE (Api.childrenList d fuel it) := by
  intro fuel
  induction fuel with
  | zero => intro it; unfold Api.childrenList; ne_auto
  | succ n ih => intro it; unfold Api.childrenList; ne_auto using ih, childrenNext_ne

theorem kindOf_ne (d : Doc) (k : Nat) : NE (Api.kindOf d k) := by
  unfold Api.kindOf; ne_auto using getNodeUnwrap_ne

theorem isElement_ne (d : Doc) (k : Nat) : NE (Api.isElement d k) := by
  unfold Api.isElement; ne_auto using kindOf_ne

theorem findElement_ne (d : Doc) : ∀ l, NE (Api.findElement d l) := by
  intro l
  induction l with
  | nil => unfold Api.findElement; ne_auto
  | cons a r ih => unfold Api.findElement; ne_auto using ih, isElement_ne

theorem anyM_ne {α : Type} (f : α → Res Bool) (hf : ∀ a, NE (f a)) : ∀ l : List α, NE (l.anyM f) := by
  intro l
  induction l with
  | nil => unfold List.anyM; ne_auto
  | cons a r ih => unfold List.anyM; ne_auto using ih, hf

theorem bufFinish_ne (b : TextBuffer) : NE b.finish := by
  unfold TextBuffer.finish; ne_auto

theorem rootHasElement_ne (d : Doc) : NE (rootHasElement d) := by
  unfold rootHasElement; ne_auto using children_ne, childrenList_ne, findElement_ne

theorem getNsFind_ne (doc : Doc) (pfxOpt : Option Bytes) :
    ∀ l, NE (getNsIdxByPrefix.find doc pfxOpt l) := by
  intro l
  induction l with
  | nil => unfold getNsIdxByPrefix.find; ne_auto
  | cons a r ih => unfold getNsIdxByPrefix.find; ne_auto using ih

/-- the computations the builder runs identically in both runs are never rejected -/
macro "ne_all" : tactic =>
  `(tactic| ne_auto using searchGo_ne, search_ne, exists_ne, nodeIdNew_ne, expandedName_ne,
      attrExpanded_ne, anyM_ne, bufFinish_ne, rootHasElement_ne, getNsFind_ne, existsAux_ne)

variable {pos : Bool}

theorem ESim.sameNE {g : TextPos → TextPos} {α} {r : Res α} (h : NE r) :
    EOkTo g (fun a : α => a) r r := ESim.same h.out

section
variable (T : Tables) {g : TextPos → TextPos} {k : Nat} {txt txt' : Bytes} (H : PosSh g k txt txt')
include H

/-! #### slices of the two texts -/

theorem tokenizeContent_she (a b : Nat) :
    ESimT g k (sh k) (tokenizeContent T txt a b) (tokenizeContent T txt' (a + k) (b + k)) := by
  unfold tokenizeContent
  simp only [ofRange_sh H.slice, sh_rest]
  exact parseContent_she T H _ _ _

/-! #### nodes -/

theorem nodeAt_she (c : Ctx) (i : Nat) :
    EOkTo g (shiftNode k c.positions) (c.nodeAt i) ((shC k c).nodeAt i) := by
  unfold Ctx.nodeAt
  simp only [shC_doc, shiftDoc_nodes, Array.getElem?_map]
  cases c.doc.nodes[i]? with
  | none => exact ESim.panic
  | some n => exact EOkTo.ok rfl

theorem setNextSubtree_she (b : Bool) (new : Nat) (l : List Nat) (nodes : Array NodeData) :
    EOkTo g (·.map (shiftNode k b)) (Ctx.setNextSubtree nodes new l)
      (Ctx.setNextSubtree (nodes.map (shiftNode k b)) new l) := by
  induction l generalizing nodes with
  | nil => exact EOkTo.ok rfl
  | cons id r ih =>
    simp only [Ctx.setNextSubtree, Array.getElem?_map]
    cases h : nodes[id]? with
    | none => exact ESim.panic
    | some n =>
      simp only [Option.map_some]
      have := ih (nodes.setIfInBounds id { n with nextSubtree := some new })
      simp only [Array.map_setIfInBounds] at this
      exact this

theorem appendNode_she (c : Ctx) (kind : Kind) (range : Range) (hk : kind.isRoot = false)
    (hnz : NZ pos c) :
    ESim g (fun p => NZ pos p.1) (fun p => (shC k p.1, p.2)) (c.appendNode kind range)
      ((shC k c).appendNode (shiftKind k kind) (shiftRange k range)) := by
  unfold Ctx.appendNode
  dsimp only [shC_doc, shiftDoc_nodes, shC_nodesLimit, shC_positions, shC_parentId, shC_awaiting]
  simp only [Array.size_map, shiftKind_isElement]
  refine ESim.ite (fun _ => ESim.err) (fun _ => ?_)
  refine ESim.bind (f := fun n : Nat => n) (I := fun _ => True) (ESim.sameNE (by ne_all))
    (fun newId _ _ => ?_)
  rw [ite_inst_irrel (p := c.positions = true) (instDecidableEqBool (shC k c).positions true)
      (instDecidableEqBool c.positions true),
    ← shiftNode_new k c.positions (some c.parentId) kind range hk, ← Array.map_push]
  generalize c.doc.nodes.push _ = nodes
  simp only [Array.getElem?_map]
  cases nodes[c.parentId]? with
  | none => exact ESim.panic
  | some p =>
    cases nodes[newId]? with
    | none => exact ESim.panic
    | some n =>
      simp only [Option.map_some]
      rw [set_sh (m' := { n with prevSibling := p.lastChild })]
      rotate_left
      · rfl
      generalize nodes.setIfInBounds newId _ = nodes2
      simp only [Array.getElem?_map]
      cases nodes2[c.parentId]? with
      | none => exact ESim.panic
      | some p2 =>
        simp only [Option.map_some]
        rw [set_sh (m' := { p2 with lastChild := some newId })]
        rotate_left
        · rfl
        refine ESim.bind (setNextSubtree_she H c.positions _ _ _) (fun nodes3 _ _ => ?_)
        exact ESim.pure hnz rfl

theorem appendText_she (c : Ctx) (text : Str) (range : Range) (hnz : NZ pos c) :
    ESim g (NZ pos) (shC k) (c.appendText text range)
      ((shC k c).appendText (shiftStr k text) (shiftRange k range)) := by
  unfold Ctx.appendText
  dsimp only
  have hl := log_sh k c (.textFragment text range)
  simp only [shEv] at hl
  rw [hl]
  have hnz' : NZ pos (c.log (.textFragment text range)) := hnz
  generalize c.log _ = c' at hnz' ⊢
  simp only [shC_afterText, isEmpty_map]
  refine ESim.ite (fun _ => ?_) (fun _ => ?_)
  · refine ESim.bind (appendNode_she H c' (.text text) range rfl hnz') (fun a _ ha => ?_)
    refine ESim.pure ha ?_
    simp only [shC, List.map_append, List.map_cons, List.map_nil]
  · refine ESim.pure hnz' ?_
    simp only [shC, List.map_append, List.map_cons, List.map_nil]

theorem mergeText_she (c : Ctx) (hnz : NZ pos c) :
    ESim g (NZ pos) (shC k) c.mergeText (shC k c).mergeText := by
  unfold Ctx.mergeText
  simp only [shC_doc, shiftDoc_nodes, Array.size_map, Array.getElem?_map, shC_afterText,
    map_shiftStr_bytes]
  refine ESim.ite (fun _ => ESim.panic) (fun _ => ?_)
  cases c.doc.nodes[c.doc.nodes.size - 1]? with
  | none => exact ESim.panic
  | some n =>
    simp only [Option.map_some, shiftNode_kind]
    cases hk : n.kind <;> simp only [shiftKind] <;> try exact ESim.panic
    refine ESim.ok hnz ?_
    rw [← setNode_sh]
    congr 1
    simp only [shiftNode, hk, shiftKind, shiftStr]

theorem resetAfterText_she (c : Ctx) (hnz : NZ pos c) :
    ESim g (NZ pos) (shC k) c.resetAfterText (shC k c).resetAfterText := by
  unfold Ctx.resetAfterText
  simp only [shC_afterText, isEmpty_map, List.length_map]
  refine ESim.ite (fun _ => EOkTo.ok rfl |>.weaken (fun _ h _ => by cases h; exact hnz)) (fun _ => ?_)
  refine ESim.ite (fun _ => ?_) (fun _ => ESim.pure hnz rfl)
  exact ESim.bind (mergeText_she H c hnz) (fun c1 _ h1 => ESim.pure h1 rfl)

/-! #### namespaces and attributes -/

theorem pushNs_she (ns : Namespaces) (name : Option Span) (uri : Str) (hnz : 0 < ns.values.size) :
    ESim g (fun ns' : Namespaces => 0 < ns'.values.size) (shNss k) (ns.pushNs name uri)
      ((shNss k ns).pushNs (name.map (shiftSpan k)) (shiftStr k uri)) := by
  unfold Namespaces.pushNs Namespaces.search
  have hname : Option.map (fun x : Span => x.bytes) (Option.map (shiftSpan k) name) =
      Option.map (fun x : Span => x.bytes) name := by
    cases name <;> rfl
  simp only [searchGo_sh, shNss_sortedOrder, shNss_values, shiftNsValues_size, shiftStr_bytes, hname,
    shNss_treeOrder]
  refine ESim.bind (f := fun q : Nat × Bool => q) (I := fun _ => True) (ESim.sameNE (by ne_all))
    (fun q _ _ => ?_)
  obtain ⟨si, found⟩ := q
  dsimp only
  refine ESim.ite (fun _ => ?_) (fun _ => ?_)
  · cases ns.sortedOrder[si]? with
    | none => exact ESim.panic
    | some idx => exact ESim.pure hnz rfl
  · refine ESim.ite (fun _ => ESim.err) (fun _ => ?_)
    refine ESim.pure (by simp) ?_
    simp only [shNss, shiftNsValues_push k _ _ hnz]
    rfl

theorem pushRef_she (ns : Namespaces) (i : Nat) :
    EOkTo g (shNss k) (ns.pushRef i) ((shNss k ns).pushRef i) := by
  unfold Namespaces.pushRef
  simp only [shNss_treeOrder]
  cases ns.treeOrder[i]? with
  | none => exact ESim.panic
  | some idx => exact EOkTo.ok rfl

theorem getNsIdxByPrefix_she (b : Bool) (d : Doc) (nss : Range)
    (pp : Nat) (pfx : Bytes) :
    EOkTo g (fun r : Option Nat => r) (getNsIdxByPrefix txt d nss pp pfx)
      (getNsIdxByPrefix txt' (shiftDoc k b d) nss (pp + k) pfx) := by
  unfold getNsIdxByPrefix
  simp only [shiftDoc_ns, shNss_treeOrder, find_sh]
  refine ESim.ite (fun _ => EOkTo.ok rfl) (fun _ => ?_)
  refine ESim.ite (fun _ => ESim.panic) (fun _ => ?_)
  refine ESim.bind (f := fun r : Option Nat => r) (I := fun _ => True) (ESim.sameNE (by ne_all))
    (fun r _ _ => ?_)
  cases r with
  | some idx => exact ESim.pure trivial rfl
  | none => exact ESim.ite (fun _ => (ESim.errPos H)) (fun _ => ESim.pure trivial rfl)

theorem inheritLoop_she (startIdx : Nat) (l : List Nat) (ns : Namespaces) :
    EOkTo g (shNss k) (inheritLoop startIdx l ns) (inheritLoop startIdx l (shNss k ns)) := by
  induction l generalizing ns with
  | nil => exact EOkTo.ok rfl
  | cons i r ih =>
    simp only [inheritLoop, shNss_treeOrder, shNss_values, shiftNsValues_getElem?]
    cases ns.treeOrder[i]? with
    | none => exact ESim.panic
    | some vi =>
      dsimp only
      cases ns.values[vi]? with
      | none => exact ESim.panic
      | some v =>
        simp only [Option.map_some, shNsAt_nameBytes]
        rw [exists_sh k ns startIdx v.nameBytes]
        refine ESim.bind (f := fun b : Bool => b) (I := fun _ => True) (ESim.sameNE (by ne_all))
          (fun ex _ _ => ?_)
        refine ESim.ite (fun _ => ?_) (fun _ => ih ns)
        exact ESim.bind (pushRef_she H ns i) (fun ns1 _ _ => ih ns1)

theorem resolveNamespaces_she (c : Ctx) (hnz : NZ pos c) :
    ESim g (fun p => NZ pos p.1 ∧ p.1.tagName = c.tagName) (fun p => (shC k p.1, p.2)) (resolveNamespaces c)
      (resolveNamespaces (shC k c)) := by
  unfold resolveNamespaces
  refine ESim.bind (nodeAt_she H c c.parentId) (fun p _ _ => ?_)
  simp only [shiftNode_kind]
  cases p.kind with
  | element a b c' parentNs =>
    simp only [shiftKind, shC_nsStartIdx, shC_doc, shiftDoc_ns, shNss_treeOrder]
    refine ESim.ite (fun _ => ESim.pure ⟨hnz, rfl⟩ rfl) (fun _ => ?_)
    refine ESim.bind (inheritLoop_she H _ _ c.doc.ns) (fun ns hns _ => ?_)
    refine ESim.pure ⟨⟨?_, hnz.2⟩, rfl⟩ rfl
    have := inheritLoop_values' _ _ _ _ hns
    show 0 < ns.values.size
    rw [this]; exact hnz.1
  | root => exact ESim.pure ⟨hnz, rfl⟩ rfl
  | pi a b => exact ESim.pure ⟨hnz, rfl⟩ rfl
  | comment a => exact ESim.pure ⟨hnz, rfl⟩ rfl
  | text a => exact ESim.pure ⟨hnz, rfl⟩ rfl

theorem attrNsIdx_she (b : Bool) (d : Doc) (nss : Range) (a : TempAttr) :
    EOkTo g (fun r : Option Nat => r) (attrNsIdx txt d nss a)
      (attrNsIdx txt' (shiftDoc k b d) nss (shTA k a)) := by
  unfold attrNsIdx
  simp only [shTA, shiftSpan_bytes]
  refine ESim.ite (fun _ => EOkTo.ok rfl) (fun _ => ?_)
  refine ESim.ite (fun _ => EOkTo.ok rfl) (fun _ => ?_)
  exact getNsIdxByPrefix_she H b d nss _ _

theorem resolveAttrsLoop_she (pos : Bool) (nss : Range) (startIdx : Nat)
    (l : List TempAttr) (d : Doc) :
    EOkTo g (shiftDoc k pos) (resolveAttrsLoop txt pos nss startIdx l d)
      (resolveAttrsLoop txt' pos nss startIdx (l.map (shTA k)) (shiftDoc k pos d)) := by
  induction l generalizing d with
  | nil => exact EOkTo.ok rfl
  | cons a r ih =>
    simp only [List.map_cons, resolveAttrsLoop]
    refine ESim.bind (attrNsIdx_she H pos d nss a) (fun nsIdx _ _ => ?_)
    have hloc : (shTA k a).loc = shiftSpan k a.loc := rfl
    simp only [hloc, expandedName_sh, attrExpanded_sh, shiftDoc_attrs, Array.size_map, shiftSpan_bytes]
    refine ESim.bind (f := fun q : Option Bytes × Bytes => q) (I := fun _ => True)
      (ESim.sameNE (by ne_all)) (fun en _ _ => ?_)
    refine ESim.bind (f := fun q : Bool => q) (I := fun _ => True)
      (ESim.sameNE (by ne_all)) (fun dup _ _ => ?_)
    refine ESim.ite (fun _ => (ESim.errPos H)) (fun _ => ?_)
    have hval : (shTA k a).value = shiftStr k a.value := rfl
    have hrange : (shTA k a).range = shiftRange k a.range := rfl
    have hq : (shTA k a).qnameLen = a.qnameLen := rfl
    have he : (shTA k a).eqLen = a.eqLen := rfl
    simp only [hval, hrange, hq, he]
    have had : ∀ ad : AttrData,
        ({ nodes := (shiftDoc k pos d).nodes,
           attrs := (d.attrs.map (shiftAttr k pos)).push (shiftAttr k pos ad),
           ns := (shiftDoc k pos d).ns } : Doc) =
          shiftDoc k pos { nodes := d.nodes, attrs := d.attrs.push ad, ns := d.ns } := by
      intro ad
      simp only [shiftDoc, Array.map_push]
    cases pos
    · simp only [Bool.false_eq_true, ↓reduceIte]
      have := had { nsIdx := nsIdx, localName := a.loc, value := a.value, range := (0, 0),
                    qnameLen := 0, eqLen := 0 }
      simp only [shiftAttr, Bool.false_eq_true, ↓reduceIte] at this
      rw [this]
      exact ih _
    · simp only [↓reduceIte]
      have := had { nsIdx := nsIdx, localName := a.loc, value := a.value, range := a.range,
                    qnameLen := a.qnameLen, eqLen := a.eqLen }
      simp only [shiftAttr, ↓reduceIte] at this
      rw [this]
      exact ih _

theorem resolveAttributes_she (c : Ctx) (nss : Range) (hnz : NZ pos c) :
    ESim g (fun p => NZ pos p.1 ∧ p.1.tagName = c.tagName) (fun p => (shC k p.1, p.2))
      (resolveAttributes txt c nss)
      (resolveAttributes txt' (shC k c) nss) := by
  unfold resolveAttributes
  simp only [shC_curAttrs, isEmpty_map, List.length_map, shC_doc, shiftDoc_attrs, Array.size_map,
    shC_positions]
  refine ESim.ite (fun _ => ESim.ok ⟨hnz, rfl⟩ rfl) (fun _ => ?_)
  refine ESim.ite (fun _ => ESim.err) (fun _ => ?_)
  refine ESim.bind (resolveAttrsLoop_she H c.positions nss _ _ c.doc) (fun d hd _ => ?_)
  refine ESim.pure ⟨⟨?_, hnz.2⟩, rfl⟩ ?_
  · show 0 < d.ns.values.size
    rw [resolveAttrsLoop_ns _ _ _ _ _ _ _ hd]; exact hnz.1
  · simp only [shiftDoc_attrs, Array.size_map]
    rfl

/-! #### elements -/

theorem processElement_she (c : Ctx) (e : EndKind) (tokRange : Range)
    (hnz : NZ pos c) :
    ESim g (NZ pos) (shC k) (processElement txt c e tokRange)
      (processElement txt' (shC k c) (shEnd k e) (shiftRange k tokRange)) := by
  unfold processElement
  simp only [shC_tagName, shTag_name]
  refine ESim.ite (fun _ => ?_) (fun hne => ?_)
  · cases e <;> simp only [shEnd] <;> first | exact (ESim.errPos H) | exact ESim.panic
  refine ESim.bind (resolveNamespaces_she H c hnz) (fun a _ h1 => ?_)
  obtain ⟨c1, nss⟩ := a
  obtain ⟨h1, ht1⟩ := h1
  dsimp only at h1 ht1 ⊢
  have hnz1 : NZ pos { c1 with nsStartIdx := c1.doc.ns.treeOrder.size, xmlDeclared := false } := h1
  refine ESim.bind (m' := resolveAttributes txt' _ nss)
    (resolveAttributes_she H
      { c1 with nsStartIdx := c1.doc.ns.treeOrder.size, xmlDeclared := false } nss hnz1)
    (fun a _ h2 => ?_)
  obtain ⟨c2, attrs⟩ := a
  obtain ⟨h2, ht2⟩ := h2
  dsimp only at h2 ht2 ⊢
  have htag : c2.tagName = c.tagName := by rw [ht2, ht1]
  have hne2 : ¬ c2.tagName.name.isEmpty = true := by rw [htag]; exact hne
  have hsh := shTag_of_ne k c2.tagName hne2
  cases e with
  | empty =>
    simp only [shEnd, shC_doc, shC_tagName, shTag_pfx]
    rw [hsh]
    dsimp only
    refine ESim.bind (getNsIdxByPrefix_she H _ c2.doc nss _ _) (fun tagNs _ _ => ?_)
    refine ESim.bind (appendNode_she H c2 (.element tagNs c2.tagName.nameSpan attrs nss)
      (c2.tagName.pos, tokRange.2) rfl h2) (fun a _ h3 => ?_)
    obtain ⟨c3, newId⟩ := a
    exact ESim.pure h3 rfl
  | «open» =>
    simp only [shEnd, shC_doc, shC_tagName, shTag_pfx]
    rw [hsh]
    dsimp only
    refine ESim.bind (getNsIdxByPrefix_she H _ c2.doc nss _ _) (fun tagNs _ _ => ?_)
    refine ESim.bind (appendNode_she H c2 (.element tagNs c2.tagName.nameSpan attrs nss)
      (c2.tagName.pos, tokRange.2) rfl h2) (fun a _ h3 => ?_)
    obtain ⟨c3, newId⟩ := a
    refine ESim.pure h3 ?_
    dsimp only
    rw [shC_tagName, shTag_pfx]
    rfl
  | close pfx loc =>
    simp only [shEnd, shC_parentPrefixes, shC_entityFloor, shC_parentId, shiftSpan_bytes]
    refine ESim.ite (fun _ => (ESim.errPos H)) (fun _ => ?_)
    refine ESim.bind (nodeAt_she H c2 c2.parentId) (fun p _ _ => ?_)
    cases c2.parentPrefixes with
    | nil => exact ESim.panic
    | cons parentPrefix restPrefixes =>
      dsimp only
      have hset : ∀ q : NodeData,
          (shC k c2).setNode c2.parentId (shiftNode k c2.positions q) = shC k (c2.setNode c2.parentId q) :=
        fun q => setNode_sh k c2 _ q
      by_cases hpos : c2.positions = true
      · simp only [shC_positions, hpos, ↓reduceIte]
        have hq : ({ shiftNode k true p with
              range := ((shiftNode k true p).range.1, (shiftRange k tokRange).2) } : NodeData) =
            shiftNode k true { p with range := (p.range.1, tokRange.2) } := by
          simp only [shiftNode, ↓reduceIte, shiftRange]
          cases p.kind <;> rfl
        rw [hpos] at hset
        rw [hq, hset]
        simp only [shiftNode_kind, shiftNode_parent]
        cases p.kind with
        | element a tn b c' =>
          simp only [shiftKind, shiftSpan_bytes]
          by_cases hc : (pfx.bytes != parentPrefix || loc.bytes != tn.bytes) = true
          · simp only [hc, ↓reduceIte]; exact (ESim.errPos H)
          · simp only [hc, ↓reduceIte, Bool.false_eq_true]
            cases p.parent with
            | some id => exact ESim.pure h2 rfl
            | none => exact (ESim.errPos H)
        | root =>
          simp only [shiftKind]
          cases p.parent with
          | some id => exact ESim.pure h2 rfl
          | none => exact (ESim.errPos H)
        | pi a b =>
          simp only [shiftKind]
          cases p.parent with
          | some id => exact ESim.pure h2 rfl
          | none => exact (ESim.errPos H)
        | comment a =>
          simp only [shiftKind]
          cases p.parent with
          | some id => exact ESim.pure h2 rfl
          | none => exact (ESim.errPos H)
        | text a =>
          simp only [shiftKind]
          cases p.parent with
          | some id => exact ESim.pure h2 rfl
          | none => exact (ESim.errPos H)
      · have hposf : c2.positions = false := by simpa using hpos
        simp only [shC_positions, hposf, ↓reduceIte, Bool.false_eq_true]
        rw [hposf] at hset
        rw [hset]
        simp only [shiftNode_kind, shiftNode_parent]
        cases p.kind with
        | element a tn b c' =>
          simp only [shiftKind, shiftSpan_bytes]
          by_cases hc : (pfx.bytes != parentPrefix || loc.bytes != tn.bytes) = true
          · simp only [hc, ↓reduceIte]; exact (ESim.errPos H)
          · simp only [hc, ↓reduceIte, Bool.false_eq_true]
            cases p.parent with
            | some id => exact ESim.pure h2 rfl
            | none => exact (ESim.errPos H)
        | root =>
          simp only [shiftKind]
          cases p.parent with
          | some id => exact ESim.pure h2 rfl
          | none => exact (ESim.errPos H)
        | pi a b =>
          simp only [shiftKind]
          cases p.parent with
          | some id => exact ESim.pure h2 rfl
          | none => exact (ESim.errPos H)
        | comment a =>
          simp only [shiftKind]
          cases p.parent with
          | some id => exact ESim.pure h2 rfl
          | none => exact (ESim.errPos H)
        | text a =>
          simp only [shiftKind]
          cases p.parent with
          | some id => exact ESim.pure h2 rfl
          | none => exact (ESim.errPos H)

/-! #### attribute values -/

theorem normAttrLoop_she (ents : List Entity)
    (rec rec' : Span → TextBuffer → LD → List Ev → Res (TextBuffer × LD × List Ev))
    (hrec : ∀ sp buf ld tr, EOkTo g (shTr k) (rec sp buf ld tr)
      (rec' (shiftSpan k sp) buf ld (tr.map (shEv k)))) :
    ∀ (fuel : Nat) (s : Stream) (buf : TextBuffer) (ld : LD) (tr : List Ev),
      EOkTo g (shTr k) (normAttrLoop T txt ents rec fuel s buf ld tr)
        (normAttrLoop T txt' (ents.map (shEnt k)) rec' fuel (sh k s) buf ld (tr.map (shEv k))) := by
  intro fuel
  induction fuel with
  | zero => intro s buf ld tr; exact ESim.fuel
  | succ fuel ih =>
    intro s buf ld tr
    obtain ⟨p, r⟩ := s
    cases r with
    | nil => exact EOkTo.ok rfl
    | cons c r =>
      simp only [normAttrLoop, sh_rest, sh_pos]
      refine ESim.ite (fun _ => ?_) (fun _ => ?_)
      · refine ESim.ite (fun _ => (ESim.errAt H)) (fun _ => ?_)
        rw [Nat.add_right_comm p k 1]
        exact ih ⟨p + 1, r⟩ _ _ _
      · have hcr := consumeReference_she T H ⟨p, c :: r⟩
        cases hc : Stream.consumeReference T txt ⟨p, c :: r⟩ with
        | err e => rw [hcr.2 e hc]; exact ESim.err' rfl
        | panic e => exact ESim.panic
        | fuel => exact ESim.fuel
        | ok q =>
          obtain ⟨s1, ref⟩ := q
          rw [(hcr.1 _ hc).2]
          cases ref with
          | none => exact (ESim.errFrom H)
          | some x =>
            simp only [Res.bind_ok, Option.map_some]
            cases x with
            | char ch =>
              simp only [shRef]
              refine ESim.ite (fun _ => ?_) (fun _ => ih _ _ _ _)
              exact ESim.ite (fun _ => (ESim.errFrom H)) (fun _ => ih _ _ _ _)
            | entity name =>
              simp only [shRef, shiftSpan_bytes, findEntity_sh]
              cases findEntity ents name.bytes with
              | none => exact (ESim.errFrom H)
              | some ent =>
                simp only [Option.map_some]
                cases ld.incRefs with
                | none => exact (ESim.errAt H)
                | some ld1 =>
                  dsimp only
                  cases ld1.incDepth with
                  | none => exact (ESim.errAt H)
                  | some ld2 =>
                    dsimp only
                    refine ESim.bind (skipXmlChars_she T H ⟨ent.value.off, ent.value.bytes⟩)
                      (fun _ _ _ => ?_)
                    refine ESim.bind (hrec ent.value buf ld2
                      (Ev.loop 1 true ld2.depth ld2.refs :: Ev.loop 0 true ld1.depth ld1.refs :: tr))
                      (fun a _ _ => ?_)
                    obtain ⟨buf3, ld3, tr3⟩ := a
                    exact ih s1 buf3 ld3.decDepth
                      (Ev.loop 2 true ld3.decDepth.depth ld3.decDepth.refs :: tr3)

theorem normAttrRec_she (ents : List Entity) :
    ∀ (d : Nat) (text : Span) (buf : TextBuffer) (ld : LD) (tr : List Ev),
      EOkTo g (shTr k) (normAttrRec T txt ents d text buf ld tr)
        (normAttrRec T txt' (ents.map (shEnt k)) d (shiftSpan k text) buf ld (tr.map (shEv k))) := by
  intro d
  induction d with
  | zero => intro text buf ld tr; exact ESim.fuel
  | succ d ih =>
    intro text buf ld tr
    simp only [normAttrRec, shiftSpan_bytes]
    exact normAttrLoop_she T H ents _ _ ih _ ⟨text.off, text.bytes⟩ buf ld tr

theorem normalizeAttribute_she (c : Ctx) (value : Span)
    (hnz : NZ pos c) :
    ESim g (fun p => NZ pos p.1) (fun p => (shC k p.1, shiftStr k p.2)) (normalizeAttribute T txt c value)
      (normalizeAttribute T txt' (shC k c) (shiftSpan k value)) := by
  unfold normalizeAttribute
  simp only [shiftSpan_bytes, shC_entities, shC_ld, shC_trace]
  refine ESim.ite (fun _ => ?_) (fun _ => ESim.ok hnz rfl)
  refine ESim.bind (normAttrRec_she T H c.entities depthFuel value {} c.ld c.trace)
    (fun a _ _ => ?_)
  obtain ⟨buf, ld, tr⟩ := a
  dsimp only [shTr]
  refine ESim.bind (f := fun b : Bytes => b) (I := fun _ => True) (ESim.sameNE (by ne_all))
    (fun out _ _ => ?_)
  exact ESim.pure hnz rfl

theorem processAttribute_she (c : Ctx) (range : Range)
    (qnameLen eqLen : Nat) (pfx loc value : Span) (hnz : NZ pos c) :
    ESim g (NZ pos) (shC k) (processAttribute T txt c range qnameLen eqLen pfx loc value)
      (processAttribute T txt' (shC k c) (shiftRange k range) qnameLen eqLen (shiftSpan k pfx)
        (shiftSpan k loc) (shiftSpan k value)) := by
  unfold processAttribute
  refine ESim.bind (normalizeAttribute_she T H c value hnz) (fun a _ h1 => ?_)
  obtain ⟨c1, v⟩ := a
  dsimp only at h1 ⊢
  have hl : (shC k c1).log (.attrValue (shiftStr k v)) = shC k (c1.log (.attrValue v)) := rfl
  rw [hl]
  have h2 : NZ pos (c1.log (.attrValue v)) := h1
  generalize c1.log (.attrValue v) = c2 at h2 ⊢
  simp only [shiftSpan_bytes, shiftStr_bytes, shC_doc, shiftDoc_ns, exists_sh, shC_nsStartIdx,
    shC_xmlDeclared]
  refine ESim.ite (fun _ => ?_) (fun _ => ?_)
  · refine ESim.ite (fun _ => (ESim.errPos H)) (fun _ => ?_)
    refine ESim.ite (fun _ => (ESim.errPos H)) (fun _ => ?_)
    refine ESim.ite (fun _ => (ESim.errPos H)) (fun _ => ?_)
    refine ESim.ite (fun _ => (ESim.errPos H)) (fun _ => ?_)
    refine ESim.bind (f := fun b : Bool => b) (I := fun _ => True) (ESim.sameNE (by ne_all))
      (fun ex _ _ => ?_)
    refine ESim.ite (fun _ => (ESim.errPos H)) (fun _ => ?_)
    refine ESim.ite (fun _ => ?_) (fun _ => ESim.pure h2 rfl)
    refine ESim.bind (pushNs_she H c2.doc.ns (some loc) v h2.1) (fun ns _ hns => ?_)
    exact ESim.pure ⟨hns, h2.2⟩ rfl
  · refine ESim.ite (fun _ => ?_) (fun _ => ?_)
    · refine ESim.ite (fun _ => (ESim.errPos H)) (fun _ => ?_)
      refine ESim.ite (fun _ => (ESim.errPos H)) (fun _ => ?_)
      refine ESim.bind (f := fun b : Bool => b) (I := fun _ => True) (ESim.sameNE (by ne_all))
        (fun ex _ _ => ?_)
      refine ESim.ite (fun _ => (ESim.errPos H)) (fun _ => ?_)
      refine ESim.bind (pushNs_she H c2.doc.ns none v h2.1) (fun ns _ hns => ?_)
      exact ESim.pure ⟨hns, h2.2⟩ rfl
    · refine ESim.pure h2 ?_
      simp only [shC, List.map_append, List.map_cons, List.map_nil, shTA]

/-! #### text -/

theorem processCdata_she (c : Ctx) (text : Span) (range : Range) (hnz : NZ pos c) :
    ESim g (NZ pos) (shC k) (processCdata c text range)
      (processCdata (shC k c) (shiftSpan k text) (shiftRange k range)) := by
  unfold processCdata
  simp only [shiftSpan_bytes]
  exact ESim.ite (fun _ => appendText_she H c (.borrowed text) range hnz)
    (fun _ => appendText_she H c (.owned _) range hnz)

theorem parseNextChunk_she (ents : List Entity) (s : Stream) :
    EOkTo g (fun q => (sh k q.1, shChunk k q.2)) (parseNextChunk T txt ents s)
      (parseNextChunk T txt' (ents.map (shEnt k)) (sh k s)) := by
  obtain ⟨p, r⟩ := s
  cases r with
  | nil => exact ESim.panic
  | cons c r =>
    simp only [parseNextChunk, sh_rest, sh_pos]
    refine ESim.ite (fun _ => ?_) (fun _ => EOkTo.ok ?_)
    · have hcr := consumeReference_she T H ⟨p, c :: r⟩
      cases hc : Stream.consumeReference T txt ⟨p, c :: r⟩ with
      | err e => rw [hcr.2 e hc]; exact ESim.err' rfl
      | panic e => exact ESim.panic
      | fuel => exact ESim.fuel
      | ok q =>
        obtain ⟨s1, ref⟩ := q
        rw [(hcr.1 _ hc).2]
        cases ref with
        | none => exact (ESim.errFrom H)
        | some x =>
          simp only [Res.bind_ok, Option.map_some]
          cases x with
          | char ch => exact ESim.pure trivial rfl
          | entity name =>
            simp only [shRef, shiftSpan_bytes, findEntity_sh]
            cases findEntity ents name.bytes with
            | none => exact (ESim.errFrom H)
            | some ent => exact ESim.pure trivial rfl
    · simp only [sh, shChunk, Nat.add_right_comm]

/-- a builder step of the shifted run simulates the step of the original run -/
def EStepSh (g : TextPos → TextPos) (k : Nat) (pos : Bool) (step step' : Token → Ctx → Res Ctx) : Prop :=
  ∀ t c, NZ pos c → ESim g (NZ pos) (shC k) (step t c) (step' (shTok k t) (shC k c))

omit H in
theorem feed_she {step step' : Token → Ctx → Res Ctx} (hs : EStepSh g k pos step step') :
    ∀ (toks : List Token) (c : Ctx), NZ pos c →
      ESim g (NZ pos) (shC k) (feed step toks c) (feed step' (toks.map (shTok k)) (shC k c)) := by
  intro toks
  induction toks with
  | nil => intro c hnz; exact ESim.ok hnz rfl
  | cons t ts ih =>
    intro c hnz
    rw [List.map_cons, feed_cons', feed_cons']
    exact ESim.bind (hs t c hnz) (fun c1 _ h1 => ih c1 h1)

omit H in
theorem feed_append_err (step : Token → Ctx → Res Ctx) (l2 : List Token) (e : Err) :
    ∀ (l1 : List Token) (c : Ctx), feed step l1 c = .err e → feed step (l1 ++ l2) c = .err e := by
  intro l1
  induction l1 with
  | nil => intro c h; cases h
  | cons t ts ih =>
    intro c h
    rw [List.cons_append, feed_cons']
    rw [feed_cons'] at h
    cases hs : step t c with
    | ok c' => rw [hs] at h; exact ih c' h
    | err e' => rw [hs] at h; exact h
    | panic s => rw [hs] at h; cases h
    | fuel => rw [hs] at h; cases h

omit H in
theorem runTokens_she {α β} {step step' : Token → Ctx → Res Ctx} (hs : EStepSh g k pos step step')
    (m : List Token × Res α) (m' : List Token × Res β) (f : α → β) (hm : ESimT g k f m m') (c : Ctx)
    (hnz : NZ pos c) :
    ESim g (NZ pos) (shC k) (runTokens step m.1 m.2 c) (runTokens step' m'.1 m'.2 (shC k c)) := by
  have hfd := feed_she hs m.1 c hnz
  obtain ⟨rest, hrest⟩ := hm.2.2
  refine ⟨?_, ?_⟩
  · intro c1 h
    unfold runTokens at h
    cases hf : feed step m.1 c with
    | ok c' =>
      rw [hf] at h
      cases hstop : m.2 with
      | ok a =>
        rw [hstop] at h
        simp only [Res.ok.injEq] at h
        subst h
        rw [hm.1 a hstop]
        obtain ⟨hi, hf'⟩ := hfd.1 c' hf
        refine ⟨hi, ?_⟩
        simp only [runTokens, hf']
      | err e => rw [hstop] at h; cases h
      | panic e => rw [hstop] at h; cases h
      | fuel => rw [hstop] at h; cases h
    | err e => rw [hf] at h; cases h
    | panic e => rw [hf] at h; cases h
    | fuel => rw [hf] at h; cases h
  · intro e h
    unfold runTokens at h
    cases hf : feed step m.1 c with
    | ok c' =>
      rw [hf] at h
      obtain ⟨hi, hf'⟩ := hfd.1 c' hf
      cases hstop : m.2 with
      | ok a => rw [hstop] at h; cases h
      | err e' =>
        rw [hstop] at h
        simp only [Res.err.injEq] at h
        subst h
        rw [hm.2.1 e' hstop]
        simp only [runTokens, hf']
      | panic e => rw [hstop] at h; cases h
      | fuel => rw [hstop] at h; cases h
    | err e' =>
      rw [hf] at h
      simp only [Res.err.injEq] at h
      subst h
      have := hfd.2 e' hf
      unfold runTokens
      rw [hrest, feed_append_err _ _ _ _ _ this]
    | panic e => rw [hf] at h; cases h
    | fuel => rw [hf] at h; cases h

theorem flushBuffer_she (c : Ctx) (buf : TextBuffer) (range : Range) (hnz : NZ pos c) :
    ESim g (NZ pos) (shC k) (flushBuffer c buf range) (flushBuffer (shC k c) buf (shiftRange k range)) := by
  unfold flushBuffer
  refine ESim.ite (fun _ => ?_) (fun _ => ESim.ok hnz rfl)
  refine ESim.bind (f := fun b : Bytes => b) (I := fun _ => True) (ESim.sameNE (by ne_all))
    (fun out _ _ => ?_)
  exact appendText_she H c (.owned out) range hnz

theorem processTextLoop_she {lower lower' : Token → Ctx → Res Ctx} (hl : EStepSh g k pos lower lower') (range : Range) :
    ∀ (fuel : Nat) (s : Stream) (buf : TextBuffer) (c : Ctx), NZ pos c →
      ESim g (fun q => NZ pos q.2) (fun q => (q.1, shC k q.2))
        (processTextLoop T txt lower range fuel s buf c)
        (processTextLoop T txt' lower' (shiftRange k range) fuel (sh k s) buf (shC k c)) := by
  intro fuel
  induction fuel with
  | zero => intro s buf c hnz; exact ESim.fuel
  | succ fuel ih =>
    intro s buf c hnz
    simp only [processTextLoop]
    have hae : (sh k s).atEnd = s.atEnd := rfl
    rw [hae]
    refine ESim.ite (fun _ => ESim.ok hnz rfl) (fun _ => ?_)
    refine ESim.bind (parseNextChunk_she T H c.entities s) (fun a _ _ => ?_)
    obtain ⟨s1, chunk⟩ := a
    cases chunk with
    | byte b => exact ih _ _ _ hnz
    | char ch =>
      simp only [shChunk, shC_ld]
      exact ESim.ite (fun _ => ih _ _ _ hnz) (fun _ => ih _ _ _ hnz)
    | text fragment =>
      simp only [shChunk]
      refine ESim.bind (flushBuffer_she H c buf range hnz) (fun c1 _ hnz1 => ?_)
      simp only [shC_ld]
      cases c1.ld.incRefs with
      | none => exact (ESim.errAt H)
      | some ld1 =>
        dsimp only [Ctx.log]
        cases ld1.incDepth with
        | none => exact (ESim.errAt H)
        | some ld2 =>
          dsimp only
          rw [span_stop_sh]
          have hm := tokenizeContent_she T H fragment.off fragment.stop
          refine ESim.bind (runTokens_she hl _ _ (sh k) hm _ ?_) (fun c2 _ h2 => ?_)
          · exact hnz1
          refine ESim.ite (fun _ => ESim.err) (fun _ => ?_)
          refine ih _ _ _ ?_
          exact h2

theorem processText_she {lower lower' : Token → Ctx → Res Ctx} (hl : EStepSh g k pos lower lower') (c : Ctx) (text : Span)
    (range : Range) (hnz : NZ pos c) :
    ESim g (NZ pos) (shC k) (processText T txt lower c text range)
      (processText T txt' lower' (shC k c) (shiftSpan k text) (shiftRange k range)) := by
  unfold processText
  simp only [shiftSpan_bytes]
  refine ESim.ite (fun _ => appendText_she H c (.borrowed text) range hnz) (fun _ => ?_)
  have ho : Stream.ofRange txt' (shiftRange k range).1 (shiftRange k range).2 =
      sh k (Stream.ofRange txt range.1 range.2) := ofRange_sh H.slice range.1 range.2
  rw [ho]
  refine ESim.bind (processTextLoop_she T H hl range _ _ _ c hnz) (fun a _ h1 => ?_)
  obtain ⟨buf, c1⟩ := a
  exact flushBuffer_she H c1 buf range h1

theorem tokenStep_she {lower lower' : Token → Ctx → Res Ctx} (hl : EStepSh g k pos lower lower') :
    EStepSh g k pos (tokenStep T txt lower) (tokenStep T txt' lower') := by
  intro t c hnz
  unfold tokenStep
  dsimp only
  have hlog : (shC k c).log (.token (shTok k t)) = shC k (c.log (.token t)) := rfl
  rw [hlog]
  have hnz' : NZ pos (c.log (.token t)) := hnz
  generalize c.log (.token t) = c' at hnz' ⊢
  cases t with
  | pi target value range =>
    simp only [shTok]
    refine ESim.bind (resetAfterText_she H c' hnz') (fun c1 _ h1 => ?_)
    refine ESim.bind (appendNode_she H c1 (.pi target value) range rfl h1) (fun a _ h2 => ?_)
    exact ESim.pure h2 rfl
  | comment text range =>
    simp only [shTok]
    refine ESim.bind (resetAfterText_she H c' hnz') (fun c1 _ h1 => ?_)
    refine ESim.bind (appendNode_she H c1 (.comment (.borrowed text)) range rfl h1) (fun a _ h2 => ?_)
    exact ESim.pure h2 rfl
  | entityDecl name value =>
    simp only [shTok]
    refine ESim.pure hnz' ?_
    simp only [shC, List.map_append, List.map_cons, List.map_nil, shEnt]
  | elementStart pfx loc start =>
    simp only [shTok, shiftSpan_bytes]
    refine ESim.bind (resetAfterText_she H c' hnz') (fun c1 _ h1 => ?_)
    refine ESim.ite (fun _ => ?_) (fun _ => ESim.pure h1 ?_)
    · rw [Nat.add_right_comm start k 1]
      exact ESim.errPos H
    have hne : (⟨pfx.bytes, loc.bytes, loc, start, start + 1⟩ : TagName) ≠ {} := by
      intro h
      have := congrArg TagName.prefixPos h
      simp at this
    simp only [shC, shTag, hne, ↓reduceIte]
    congr 2
    omega
  | «attribute» range qnameLen eqLen pfx loc value =>
    exact processAttribute_she T H c' range qnameLen eqLen pfx loc value hnz'
  | elementEnd e range =>
    simp only [shTok]
    refine ESim.bind (resetAfterText_she H c' hnz') (fun c1 _ h1 => ?_)
    exact processElement_she H c1 e range h1
  | text text range => exact processText_she T H hl c' text range hnz'
  | cdata text range => exact processCdata_she H c' text range hnz'

theorem token_she :
    ∀ d, EStepSh g k pos (token T txt d) (token T txt' d) := by
  intro d
  induction d with
  | zero => intro t c _; exact ESim.fuel
  | succ d ih => exact tokenStep_she T H ih

/-! #### the final checks read links and kinds only -/

/-! ### `parse` -/

theorem finish_she (c : Ctx) : EOkTo g (shC k) (finish c) (finish (shC k c)) := by
  unfold finish
  simp only [shC_doc, rootHasElement_sh, shC_parentPrefixes]
  refine ESim.bind (f := fun b : Bool => b) (I := fun _ => True) (ESim.sameNE (by ne_all))
    (fun has _ _ => ?_)
  refine ESim.ite (fun _ => ESim.err) (fun _ => ?_)
  refine ESim.ite (fun _ => ESim.err) (fun _ => ESim.pure trivial rfl)

theorem initCtx_she (opt : Opt) :
    ESim g (NZ opt.positions) (shC k) (initCtx txt opt) (initCtx txt' opt) := by
  have hns : ({} : Namespaces).pushNs (some ⟨0, Lit.xml⟩) (.borrowed ⟨0, nsXmlUri⟩) =
      .ok { values := #[⟨some ⟨0, Lit.xml⟩, .borrowed ⟨0, nsXmlUri⟩⟩], treeOrder := #[0],
            sortedOrder := #[0] } := by
    simp [Namespaces.pushNs, Namespaces.search, Namespaces.searchGo, bind, Res.bind,
      Array.insertIdxIfInBounds]
  unfold initCtx
  rw [hns, H.len]
  simp only [Res.bind_ok]
  refine ESim.pure ⟨by simp, rfl⟩ ?_
  cases hp : opt.positions <;>
    simp [shC, shiftDoc, shiftNode, rootNode, shTag_default, shiftNsValues, shNss, shiftKind]

end

/-! ### `parse` with a prefix `ws` of white space -/

section
variable (T : Tables) {g : TextPos → TextPos} (txt ws : Bytes)

theorem parseCtx_wsg (hws : ∀ b ∈ ws, byteIsSpace T b = true)
    (H : PosSh g ws.length txt (ws ++ txt))
    (hbom : Stream.startsWith ⟨0, txt⟩ Lit.bom = false)
    (hdecl : Stream.startsWithXmlDecl T ⟨0, txt⟩ = false)
    (hbom' : Stream.startsWith ⟨0, ws ++ txt⟩ Lit.bom = false)
    (hdecl' : Stream.startsWithXmlDecl T ⟨0, ws ++ txt⟩ = false) (opt : Opt) (d : Nat) :
    ESim g (NZ opt.positions) (shC ws.length) (parseCtx T txt d opt) (parseCtx T (ws ++ txt) d opt) := by
  unfold parseCtx
  refine ESim.bind (initCtx_she H opt) (fun c0 _ h0 => ?_)
  dsimp only
  have hm : ESimT g ws.length (fun u : Unit => u) (tokenize T txt opt.allowDtd)
      (tokenize T (ws ++ txt) opt.allowDtd) :=
    parseDocument_wsg T txt ws hws H hbom hdecl hbom' hdecl' opt.allowDtd
  refine ESim.bind (runTokens_she (token_she T H d) _ _ _ hm c0 h0) (fun c1 _ h1 => ?_)
  exact (finish_she H c1).weaken (fun c2 hc2 _ => by
    unfold finish at hc2
    rw [Res.bind_eq_ok] at hc2
    obtain ⟨has, _, hc2⟩ := hc2
    split at hc2
    · cases hc2
    · split at hc2
      · cases hc2
      · simp only [pure, Res.ok.injEq] at hc2
        subst hc2
        exact h1)

/-- the whole of `parse`: accepted documents are shifted, errors are moved -/
theorem parse_wsg (hws : ∀ b ∈ ws, byteIsSpace T b = true)
    (H : PosSh g ws.length txt (ws ++ txt))
    (hbom : Stream.startsWith ⟨0, txt⟩ Lit.bom = false)
    (hdecl : Stream.startsWithXmlDecl T ⟨0, txt⟩ = false)
    (hbom' : Stream.startsWith ⟨0, ws ++ txt⟩ Lit.bom = false)
    (hdecl' : Stream.startsWithXmlDecl T ⟨0, ws ++ txt⟩ = false) (opt : Opt) :
    EOkTo g (shiftDoc ws.length opt.positions) (parse T txt opt) (parse T (ws ++ txt) opt) := by
  unfold parse
  refine ESim.bind (parseCtx_wsg T txt ws hws H hbom hdecl hbom' hdecl' opt depthFuel)
    (fun c _ hnz => ?_)
  refine ESim.pure trivial ?_
  rw [shC_doc, hnz.2]

end

end Rox.Lemmas.ShiftE
