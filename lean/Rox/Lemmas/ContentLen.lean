/-
  Rox.Lemmas.ContentLen — C16: under the default options (`allow_dtd = false`: no entity is ever
  declared or expanded) the text and attribute content of an accepted document never exceeds the
  input in total length — nothing in the input can make the tree larger than the input.
-/
import Rox.Parse
import Rox.Lemmas.TokSpec
import Rox.Lemmas.RangeNest
import Rox.Lemmas.EntFrame
import Rox.Props.C16Base

namespace Rox.Lemmas
open Rox

/-- total length of the text nodes' strings and of the attribute values -/
def docContent (d : Doc) : Nat :=
  (d.nodes.toList.map fun n => match n.kind with
                               | .text s => s.bytes.length
                               | _ => 0).sum +
  (d.attrs.toList.map fun a => a.value.bytes.length).sum

/-! ### Buffer accounting: every push adds at most one byte -/

theorem resolve_len (b : TextBuffer) : (b.resolvePendingCr.1).rev.length = b.rev.length := by
  unfold TextBuffer.resolvePendingCr
  split
  · split
    · rename_i h; rw [h]; simp
    · rename_i h; rw [h]
  · rfl

theorem pushRaw_len (b : TextBuffer) (c : UInt8) : (b.pushRaw c).rev.length = b.rev.length + 1 := by
  unfold TextBuffer.pushRaw
  have := resolve_len b
  revert this
  generalize b.resolvePendingCr = p
  obtain ⟨b1, w⟩ := p
  intro h
  simp only at h ⊢
  simp [h]

theorem pushFromText_len (b : TextBuffer) (c : UInt8) :
    (b.pushFromText c).rev.length ≤ b.rev.length + 1 := by
  unfold TextBuffer.pushFromText
  have := resolve_len b
  revert this
  generalize b.resolvePendingCr = p
  obtain ⟨b1, w⟩ := p
  intro h
  simp only at h ⊢
  split
  · omega
  · simp [h]

theorem pushFromAttr_len (b : TextBuffer) (c : UInt8) (n : Option UInt8) :
    (b.pushFromAttr c n).rev.length ≤ b.rev.length + 1 := by
  unfold TextBuffer.pushFromAttr
  split
  · omega
  · simp

theorem pushBytesRaw_len : ∀ (l : Bytes) (b : TextBuffer),
    (b.pushBytesRaw l).rev.length ≤ b.rev.length + l.length := by
  intro l
  induction l with
  | nil => intro b; simp [TextBuffer.pushBytesRaw]
  | cons x r ih =>
    intro b
    have h1 := ih (b.pushRaw x)
    have h2 := pushRaw_len b x
    simp only [TextBuffer.pushBytesRaw, List.foldl_cons, List.length_cons] at h1 ⊢
    omega

theorem pushBytesText_len : ∀ (l : Bytes) (b : TextBuffer),
    (b.pushBytesText l).rev.length ≤ b.rev.length + l.length := by
  intro l
  induction l with
  | nil => intro b; simp [TextBuffer.pushBytesText]
  | cons x r ih =>
    intro b
    have h1 := ih (b.pushFromText x)
    have h2 := pushFromText_len b x
    simp only [TextBuffer.pushBytesText, List.foldl_cons, List.length_cons] at h1 ⊢
    omega

theorem foldAttr_len : ∀ (l : Bytes) (b : TextBuffer),
    (l.foldl (fun b x => b.pushFromAttr x none) b).rev.length ≤ b.rev.length + l.length := by
  intro l
  induction l with
  | nil => intro b; simp
  | cons x r ih =>
    intro b
    have h1 := ih (b.pushFromAttr x none)
    have h2 := pushFromAttr_len b x none
    simp only [List.foldl_cons, List.length_cons] at h1 ⊢
    omega

theorem finish_len (b : TextBuffer) (out : Bytes) (h : b.finish = .ok out) :
    out.length ≤ b.rev.length := by
  unfold TextBuffer.finish at h
  have := resolve_len b
  revert this h
  generalize b.resolvePendingCr = p
  obtain ⟨b1, w⟩ := p
  intro h hl
  simp only at h hl
  split at h
  · simp only [Res.ok.injEq] at h
    subst h
    simp [hl]
  · simp at h

/-! ### A character reference is at least as long as the character it denotes -/

theorem tryConsumeByte_len (s : Stream) (c : UInt8) :
    (s.tryConsumeByte c).1.rest.length ≤ s.rest.length ∧
    ((s.tryConsumeByte c).2 = true → (s.tryConsumeByte c).1.rest.length + 1 = s.rest.length) := by
  unfold Stream.tryConsumeByte
  split
  · rename_i b r hr
    split
    · simp [hr]
    · simp
  · simp

theorem consumeBytes_len (s : Stream) (f : UInt8 → Bool) :
    (s.consumeBytes f).1.rest.length + (s.consumeBytes f).2.bytes.length = s.rest.length := by
  unfold Stream.consumeBytes
  obtain ⟨run, he, ht⟩ := spanBytes_took f s.rest s.pos []
  revert he ht
  generalize Stream.spanBytesAux f s.pos [] s.rest = res
  obtain ⟨s', run'⟩ := res
  intro he ht
  simp only [List.reverse_nil, List.nil_append] at he
  subst he
  obtain ⟨h1, _, h3, _⟩ := ht
  simp only at h1 h3 ⊢
  rw [h3, List.length_drop]
  omega

theorem finishRef_len (s : Stream) (r r' : Reference) (h : (s.finishRef r).2 = some r') :
    (s.finishRef r).1.rest.length + 1 = s.rest.length := by
  unfold Stream.finishRef at h ⊢
  split
  · rename_i b r0 hr
    rw [hr] at h
    simp only at h
    split
    · simp [hr]
    · rename_i hb
      simp [hb] at h
  · rename_i hr
    rw [hr] at h
    simp at h

theorem numericRef_len (T : Tables) (s : Stream) (isHex : Bool) (r : Reference)
    (h : (s.numericRef T isHex).2 = some r) :
    (s.numericRef T isHex).1.rest.length + 2 ≤ s.rest.length := by
  unfold Stream.numericRef at h ⊢
  have hsv : (if isHex then s.consumeBytes isHexDigit else s.consumeBytes isDecDigit).1.rest.length +
      (if isHex then s.consumeBytes isHexDigit else s.consumeBytes isDecDigit).2.bytes.length =
      s.rest.length := by
    cases isHex
    · exact consumeBytes_len s isDecDigit
    · exact consumeBytes_len s isHexDigit
  revert hsv h
  generalize (if isHex then s.consumeBytes isHexDigit else s.consumeBytes isDecDigit) = sv
  intro h hsv
  simp only at h ⊢
  split
  · rename_i hn; rw [hn] at h; simp at h
  · rename_i n hn
    rw [hn] at h
    simp only at h
    have hne : 1 ≤ sv.2.bytes.length := by
      cases hb : sv.2.bytes with
      | nil => rw [hb] at hn; simp [parseU32] at hn
      | cons x y => simp
    generalize (if isScalar n = true then n else 0xFFFD) = c at h ⊢
    split
    · rename_i hx; simp [hx] at h
    · rename_i hx
      simp only [hx] at h
      have := finishRef_len _ _ _ h
      omega

theorem skipNameTail_len (T : Tables) : ∀ (fuel : Nat) (s : Stream) (acc : Bytes) (s' : Stream)
    (run : Bytes), Stream.skipNameTail T fuel s acc = .ok (s', run) →
    s'.rest.length ≤ s.rest.length := by
  intro fuel
  induction fuel with
  | zero => intro s acc s' run h; simp [Stream.skipNameTail] at h
  | succ n ih =>
    intro s acc s' run h
    unfold Stream.skipNameTail at h
    split at h
    · simp only [Res.ok.injEq, Prod.mk.injEq] at h
      rw [← h.1]; exact Nat.le_refl _
    · split at h
      · simp at h
      · split at h
        · split at h
          · have := ih _ _ _ _ h
            simp only [List.length_drop] at this
            omega
          · simp at h
        · simp only [Res.ok.injEq, Prod.mk.injEq] at h
          rw [← h.1]; exact Nat.le_refl _

theorem consumeName_len (T : Tables) (txt : Bytes) (s s' : Stream) (name : Span)
    (h : s.consumeName T txt = .ok (s', name)) : s'.rest.length ≤ s.rest.length := by
  unfold Stream.consumeName at h
  rw [Res.bind_eq_ok] at h
  obtain ⟨⟨s1, n1⟩, h1, h⟩ := h
  simp only at h
  split at h
  · exact absurd h (errFrom_ne_ok _ _ _ _)
  · res_norm at h
    rw [← h.1]
    unfold Stream.skipName at h1
    split at h1
    · simp only [Res.ok.injEq, Prod.mk.injEq] at h1
      rw [← h1.1]; exact Nat.le_refl _
    · split at h1
      · simp at h1
      · split at h1
        · split at h1
          · rw [Res.bind_eq_ok] at h1
            obtain ⟨⟨s2, run⟩, h2, h1⟩ := h1
            res_norm at h1
            rw [← h1.1]
            have := skipNameTail_len T _ _ _ _ _ h2
            simp only [List.length_drop] at this
            omega
          · simp at h1
        · exact absurd h1 (errFrom_ne_ok _ _ _ _)

theorem namedRef_len (T : Tables) (txt : Bytes) (s s' : Stream) (ch : Nat)
    (h : s.namedRef T txt = .ok (s', some (.char ch))) :
    s'.rest.length + 1 ≤ s.rest.length ∧ (encodeChar ch).length = 1 := by
  unfold Stream.namedRef at h
  split at h
  · simp at h
  · simp at h
  · simp at h
  · rename_i s2 name hn
    have hl := consumeName_len T txt _ _ _ hn
    simp only [Res.ok.injEq] at h
    have hall : ∀ r0 : Reference, (r0 = .char 34 ∨ r0 = .char 38 ∨ r0 = .char 39 ∨ r0 = .char 60 ∨
        r0 = .char 62 ∨ r0 = .entity name) → s2.finishRef r0 = (s', some (.char ch)) →
        s'.rest.length + 1 ≤ s.rest.length ∧ (encodeChar ch).length = 1 := by
      intro r0 hr0 hf
      have h2 : (s2.finishRef r0).2 = some (.char ch) := by rw [hf]
      have h3 := finishRef_len _ _ _ h2
      rw [hf] at h3
      simp only at h3
      refine ⟨by omega, ?_⟩
      have := finishRef_ref _ _ _ h2
      rcases hr0 with rfl | rfl | rfl | rfl | rfl | rfl <;>
        first
          | (simp only [Reference.char.injEq] at this; subst this; decide)
          | simp at this
    refine hall _ ?_ h
    split
    · exact Or.inl rfl
    · split
      · exact Or.inr (Or.inl rfl)
      · split
        · exact Or.inr (Or.inr (Or.inl rfl))
        · split
          · exact Or.inr (Or.inr (Or.inr (Or.inl rfl)))
          · split
            · exact Or.inr (Or.inr (Or.inr (Or.inr (Or.inl rfl))))
            · exact Or.inr (Or.inr (Or.inr (Or.inr (Or.inr rfl))))

theorem charLen_le (c : Nat) : charLen c ≤ 4 := by
  unfold charLen
  split
  · omega
  · split
    · omega
    · split <;> omega

/-- a recognised character reference has consumed at least as many bytes as the character's
UTF-8 encoding has -/
theorem consumeReference_len (T : Tables) (txt : Bytes) (s s' : Stream) (ch : Nat)
    (h : s.consumeReference T txt = .ok (s', some (.char ch))) :
    s'.rest.length + (encodeChar ch).length ≤ s.rest.length := by
  unfold Stream.consumeReference at h
  simp only at h
  have a1 := tryConsumeByte_len s bAmp
  split at h
  · simp at h
  · rename_i hp1
    have hp1' : (s.tryConsumeByte bAmp).2 = true := by simpa using hp1
    have e1 := a1.2 hp1'
    have a2 := tryConsumeByte_len (s.tryConsumeByte bAmp).1 bHash
    split at h
    · rename_i hp2
      have e2 := a2.2 hp2
      have a3 := tryConsumeByte_len ((s.tryConsumeByte bAmp).1.tryConsumeByte bHash).1 bX
      simp only [Res.ok.injEq] at h
      have h2 : ((((s.tryConsumeByte bAmp).1.tryConsumeByte bHash).1.tryConsumeByte bX).1.numericRef T
          (((s.tryConsumeByte bAmp).1.tryConsumeByte bHash).1.tryConsumeByte bX).2).2 =
          some (.char ch) := by rw [h]
      have h3 := numericRef_len T _ _ _ h2
      rw [h] at h3
      simp only at h3
      have := charLen_le ch
      rw [encodeChar_length]
      omega
    · have := namedRef_len T txt _ _ _ h
      omega

/-! ### The text and attribute loops without entities: the buffer grows by at most the bytes read -/

theorem processTextLoop_len (T : Tables) (txt : Bytes) (lower : Token → Ctx → Res Ctx)
    (range : Range) :
    ∀ (fuel : Nat) (s : Stream) (buf buf' : TextBuffer) (c c' : Ctx), c.entities = [] →
      processTextLoop T txt lower range fuel s buf c = .ok (buf', c') →
      buf'.rev.length ≤ buf.rev.length + s.rest.length := by
  intro fuel
  induction fuel with
  | zero => intro s buf buf' c c' _ h; simp [processTextLoop] at h
  | succ fuel ih =>
    intro s buf buf' c c' he h
    simp only [processTextLoop] at h
    split at h
    · res_norm at h; rw [← h.1]; omega
    · rw [Res.bind_eq_ok] at h
      obtain ⟨⟨s1, chunk⟩, hchunk, h⟩ := h
      try dsimp only at h
      unfold parseNextChunk at hchunk
      split at hchunk
      · simp at hchunk
      · rename_i b r hr
        split at hchunk
        · rw [Res.bind_eq_ok] at hchunk
          obtain ⟨⟨s2, ref⟩, href, hchunk⟩ := hchunk
          try dsimp only at hchunk
          split at hchunk
          · rename_i ch
            res_norm at hchunk
            obtain ⟨e1, e2⟩ := hchunk
            subst e1; subst e2
            have hl := consumeReference_len T txt _ _ _ href
            try dsimp only at h
            split at h
            · have h1 := ih _ _ _ _ _ he h
              have h2 := pushBytesText_len (encodeChar ch) buf
              omega
            · have h1 := ih _ _ _ _ _ he h
              have h2 := pushBytesRaw_len (encodeChar ch) buf
              omega
          · rw [he] at hchunk
            simp only [findEntity, List.find?_nil] at hchunk
            exact absurd hchunk (errFrom_ne_ok _ _ _ _)
          · exact absurd hchunk (errFrom_ne_ok _ _ _ _)
        · simp only [Res.ok.injEq, Prod.mk.injEq] at hchunk
          obtain ⟨e1, e2⟩ := hchunk
          subst e1; subst e2
          try dsimp only at h
          have h1 := ih _ _ _ _ _ he h
          have h2 := pushFromText_len buf b
          simp only at h1
          rw [hr]
          simp only [List.length_cons]
          omega

theorem normAttrLoop_len (T : Tables) (txt : Bytes)
    (rec : Span → TextBuffer → LD → List Ev → Res (TextBuffer × LD × List Ev)) :
    ∀ (fuel : Nat) (s : Stream) (buf : TextBuffer) (ld : LD) (tr : List Ev)
      (buf' : TextBuffer) (ld' : LD) (tr' : List Ev),
      normAttrLoop T txt [] rec fuel s buf ld tr = .ok (buf', ld', tr') →
      buf'.rev.length ≤ buf.rev.length + s.rest.length := by
  intro fuel
  induction fuel with
  | zero => intro s buf ld tr buf' ld' tr' h; simp [normAttrLoop] at h
  | succ fuel ih =>
    intro s buf ld tr buf' ld' tr' h
    simp only [normAttrLoop] at h
    split at h
    · res_norm at h; rw [← h.1]; omega
    · rename_i b r hr
      split at h
      · split at h
        · exact absurd h (errAt_ne_ok _ _ _ _)
        · have h1 := ih _ _ _ _ _ _ _ h
          have h2 := pushFromAttr_len buf b (Stream.mk (s.pos + 1) r).currByte?
          simp only at h1
          rw [hr]
          simp only [List.length_cons]
          omega
      · rw [Res.bind_eq_ok] at h
        obtain ⟨⟨s2, ref⟩, href, h⟩ := h
        try dsimp only at h
        split at h
        · rename_i ch
          have hl := consumeReference_len T txt _ _ _ href
          split at h
          · split at h
            · exact absurd h (errFrom_ne_ok _ _ _ _)
            · have h1 := ih _ _ _ _ _ _ _ h
              have h2 := foldAttr_len (encodeChar ch) buf
              omega
          · have h1 := ih _ _ _ _ _ _ _ h
            have h2 := pushBytesRaw_len (encodeChar ch) buf
            omega
        · simp only [findEntity, List.find?_nil] at h
          exact absurd h (errFrom_ne_ok _ _ _ _)
        · exact absurd h (errFrom_ne_ok _ _ _ _)

/-- Without entities the normalised attribute value is no longer than the value in the source, and
only the loop detector and the trace of the builder are touched. -/
theorem normalizeAttribute_len (T : Tables) (txt : Bytes) (c c' : Ctx) (v : Span) (s : Str)
    (he : c.entities = []) (h : normalizeAttribute T txt c v = .ok (c', s)) :
    s.bytes.length ≤ v.bytes.length ∧ c'.doc = c.doc ∧ c'.curAttrs = c.curAttrs ∧
    c'.afterText = c.afterText ∧ c'.entities = c.entities := by
  unfold normalizeAttribute at h
  split at h
  · rw [Res.bind_eq_ok] at h
    obtain ⟨⟨buf, ld, tr⟩, h1, h⟩ := h
    rw [Res.bind_eq_ok] at h
    obtain ⟨out, h2, h⟩ := h
    res_norm at h
    obtain ⟨e1, e2⟩ := h
    subst e1; subst e2
    refine ⟨?_, rfl, rfl, rfl, rfl⟩
    rw [he] at h1
    simp only [depthFuel, normAttrRec] at h1
    have h3 := normAttrLoop_len T txt _ _ _ _ _ _ _ _ _ h1
    have h4 := finish_len _ _ h2
    simp only [Str.bytes] at h3 h4 ⊢
    simp only [List.length_nil] at h3
    omega
  · res_norm at h
    obtain ⟨e1, e2⟩ := h
    subst e1; subst e2
    exact ⟨Nat.le_refl _, rfl, rfl, rfl, rfl⟩


/-! ### The token-order automaton, with attributes: all positioned tokens ascend, a CDATA section's
text and an attribute's value lie inside the token's range -/

/-- One token seen from position `cur`: it starts at or after `cur` (an `ElementEnd` ends at or
after it) and moves the position to its end; the text of a CDATA section and the value of an
attribute are no longer than the token's range; no `EntityDeclaration` is delivered. -/
def CStep (cur : Nat) (t : Token) (cur' : Nat) : Prop :=
  match t with
  | .comment _ r => cur ≤ r.1 ∧ cur' = r.2
  | .cdata tx r => cur ≤ r.1 ∧ r.1 + tx.bytes.length ≤ r.2 ∧ cur' = r.2
  | .pi _ _ r => cur ≤ r.1 ∧ cur' = r.2
  | .text _ r => cur ≤ r.1 ∧ cur' = r.2
  | .elementStart _ _ s => cur ≤ s ∧ cur' = s
  | .attribute r _ _ _ _ v => cur ≤ r.1 ∧ r.1 + v.bytes.length ≤ r.2 ∧ cur' = r.2
  | .entityDecl _ _ => False
  | .elementEnd _ r => cur ≤ r.2 ∧ cur' = r.2

def CRun : Nat → List Token → Nat → Prop
  | st, [], st' => st' = st
  | st, t :: ts, st' => ∃ s1, CStep st t s1 ∧ CRun s1 ts st'

theorem cRun_append : ∀ (l1 l2 : List Token) (st s1 s2 : Nat),
    CRun st l1 s1 → CRun s1 l2 s2 → CRun st (l1 ++ l2) s2 := by
  intro l1
  induction l1 with
  | nil => intro l2 st s1 s2 h1 h2; simp only [CRun] at h1; subst h1; simpa using h2
  | cons t ts ih =>
    intro l2 st s1 s2 h1 h2
    obtain ⟨c0, hs, hr⟩ := h1
    exact ⟨c0, hs, ih l2 c0 s1 s2 hr h2⟩

open Rox.TM in
/-- From `st` the token-order automaton accepts every token `m` delivers; if `m` succeeds with `a` the
final state satisfies `Q a`. -/
def CF {α} (m : TM α) (st : Nat) (Q : α → Nat → Prop) : Prop :=
  ∃ st', CRun st m.1 st' ∧ (∀ a, m.2 = .ok a → Q a st')

section nf
open Rox.TM

theorem cf_pure {α} (a : α) (st : Nat) (Q : α → Nat → Prop) (h : Q a st) :
    CF (pure a : TM α) st Q :=
  ⟨st, by simp [pure, pure', CRun], fun b hb => by
    simp [pure, pure'] at hb; subst hb; exact h⟩

theorem cf_lift {α} (r : Res α) (st : Nat) (Q : α → Nat → Prop) (h : ∀ a, r = .ok a → Q a st) :
    CF (lift r) st Q :=
  ⟨st, by simp [lift, CRun], fun a ha => h a (by simpa [lift] using ha)⟩

theorem cf_fail {α} (r : Res α) (st : Nat) (Q : α → Nat → Prop) (h : ∀ a, r ≠ .ok a) :
    CF (lift r) st Q :=
  cf_lift r st Q (fun a ha => absurd ha (h a))

theorem cf_emit (t : Token) (st st' : Nat) (Q : Unit → Nat → Prop) (h : CStep st t st')
    (hQ : Q () st') : CF (emit t) st Q :=
  ⟨st', ⟨st', h, rfl⟩, fun _ _ => hQ⟩

theorem cf_bind {α β} (m : TM α) (k : α → TM β) (st : Nat) (P : α → Nat → Prop)
    (Q : β → Nat → Prop) (hm : CF m st P)
    (hk : ∀ a c1, m.2 = .ok a → P a c1 → CF (k a) c1 Q) : CF (m >>= k) st Q := by
  obtain ⟨t1, r⟩ := m
  obtain ⟨c1, hrun, hq⟩ := hm
  cases r with
  | ok a =>
    obtain ⟨c2, hrun2, hq2⟩ := hk a c1 rfl (hq a rfl)
    simp only [bind, bind']
    exact ⟨c2, cRun_append _ _ _ _ _ hrun hrun2, hq2⟩
  | err e => simp only [bind, bind']; exact ⟨c1, hrun, fun a ha => by simp at ha⟩
  | panic s => simp only [bind, bind']; exact ⟨c1, hrun, fun a ha => by simp at ha⟩
  | fuel => simp only [bind, bind']; exact ⟨c1, hrun, fun a ha => by simp at ha⟩

/-- a token-free step whose result is described by `P` -/
theorem cf_bind_lift {α β} (r : Res α) (k : α → TM β) (st : Nat) (Q : β → Nat → Prop)
    (P : α → Prop) (hr : ∀ a, r = .ok a → P a) (hk : ∀ a, P a → CF (k a) st Q) :
    CF (lift r >>= k) st Q :=
  cf_bind _ _ _ (fun a c => c = st ∧ P a) _ (cf_lift _ _ _ (fun a ha => ⟨rfl, hr a ha⟩))
    (fun a c1 _ h => by obtain ⟨h1, h2⟩ := h; subst h1; exact hk a h2)

/-- emit a token, then return `a` -/
theorem cf_emit_pure {α} (t : Token) (a : α) (st st' : Nat) (Q : α → Nat → Prop)
    (h : CStep st t st') (hQ : Q a st') : CF (emit t >>= fun _ => (pure a : TM α)) st Q :=
  cf_bind _ _ _ (fun _ c => c = st') _ (cf_emit _ _ st' _ h rfl)
    (fun _ c1 _ h1 => by subst h1; exact cf_pure _ _ _ hQ)

end nf

/-! ### The tokenizer's token stream is accepted by the token-order automaton -/

section tok
open Rox.TM
variable (T : Tables) (hT : TablesOK T) (txt : Bytes)

theorem parseComment_cf (s : Stream) (st : Nat) (hc : st ≤ s.pos) :
    CF (parseComment T txt s) st (fun s' st' => st' ≤ s'.pos) := by
  unfold parseComment
  apply cf_bind_lift _ _ _ _ (fun _ => True) (fun _ _ => trivial)
  intro s1 _
  apply cf_bind_lift _ _ _ _ (fun _ => True) (fun _ _ => trivial)
  rintro ⟨s2, text⟩ _
  simp only
  apply cf_bind_lift _ _ _ _ (fun _ => True) (fun _ _ => trivial)
  intro s3 _
  split
  · exact cf_fail _ _ _ (errFrom_ne_ok _ _ _)
  · split
    · exact cf_fail _ _ _ (errFrom_ne_ok _ _ _)
    · exact cf_emit_pure _ _ _ s3.pos _ ⟨hc, rfl⟩ (Nat.le_refl _)

theorem parseCdata_cf {s : Stream} (hs : SOk txt s) (hp : s.startsWith Lit.cdataStart = true)
    (st : Nat) (hc : st ≤ s.pos) :
    CF (parseCdata T txt s) st (fun s' st' => st' ≤ s'.pos) := by
  unfold parseCdata
  apply cf_bind_lift _ _ _ _ _ (advance_lit hs Lit.cdataStart hp (lit_valid _ (by decide))).post
  rintro s1 ⟨h1, _⟩
  apply cf_bind_lift _ _ _ _ _ (consumeChars_spec T txt _ h1.2).post
  rintro ⟨s2, text⟩ ⟨h2, _, _, t2⟩
  simp only at h2 t2 ⊢
  apply cf_bind_lift _ _ _ _ (fun s3 => s2.pos ≤ s3.pos)
  · intro s3 h3
    unfold Stream.skipString at h3
    split at h3
    · exact absurd h3 (errAt_ne_ok _ _ _ _)
    · unfold Stream.advance at h3
      split at h3
      · simp only [Res.ok.injEq] at h3; subst h3; simp
      · simp at h3
  intro s3 h3
  have := h1.1.pos_le
  have := t2.2.1
  exact cf_emit_pure _ _ _ s3.pos _ ⟨hc, by simp only; omega, rfl⟩ (Nat.le_refl _)

theorem parsePi_cf (s : Stream) (st : Nat) (hc : st ≤ s.pos) :
    CF (parsePi T txt s) st (fun s' st' => st' ≤ s'.pos) := by
  unfold parsePi
  split
  · exact cf_fail _ _ _ (errAt_ne_ok _ _ _)
  · apply cf_bind_lift _ _ _ _ (fun _ => True) (fun _ _ => trivial)
    intro s1 _
    apply cf_bind_lift _ _ _ _ (fun _ => True) (fun _ _ => trivial)
    rintro ⟨s2, target⟩ _
    simp only
    apply cf_bind_lift _ _ _ _ (fun _ => True) (fun _ _ => trivial)
    intro s3 _
    apply cf_bind_lift _ _ _ _ (fun _ => True) (fun _ _ => trivial)
    rintro ⟨s4, content⟩ _
    simp only
    apply cf_bind_lift _ _ _ _ (fun _ => True) (fun _ _ => trivial)
    intro s5 _
    exact cf_emit_pure _ _ _ s5.pos _ ⟨hc, rfl⟩ (Nat.le_refl _)

theorem parseText_cf (s : Stream) (st : Nat) (hc : st ≤ s.pos) :
    CF (parseText T txt s) st (fun s' st' => st' ≤ s'.pos) := by
  unfold parseText
  apply cf_bind_lift _ _ _ _ (fun _ => True) (fun _ _ => trivial)
  rintro ⟨s1, text⟩ _
  simp only
  split
  · exact cf_fail _ _ _ (errAt_ne_ok _ _ _)
  · exact cf_emit_pure _ _ _ s1.pos _ ⟨hc, rfl⟩ (Nat.le_refl _)

include hT

theorem parseMisc_cf : ∀ (fuel : Nat) (s : Stream) (st : Nat), SOk txt s → st ≤ s.pos →
    CF (parseMisc T txt fuel s) st (fun s' st' => st' ≤ s'.pos) := by
  intro fuel
  induction fuel with
  | zero => intro s st _ _; unfold parseMisc; exact cf_fail _ _ _ (by simp)
  | succ n ih =>
    intro s st hs hc
    unfold parseMisc
    split
    · exact cf_pure _ _ _ hc
    · have h1 := skipSpaces_step T hT hs
      have hp1 := h1.1.pos_le
      simp only
      split
      · rename_i hcs
        refine cf_bind _ _ _ _ _ (parseComment_cf T txt _ st (by omega)) ?_
        intro s2 c1 hok hc1
        exact ih s2 c1 ((parseComment_spec T hT txt h1.2 hcs).post s2 hok).1.2 hc1
      · split
        · rename_i hcs
          refine cf_bind _ _ _ _ _ (parsePi_cf T txt _ st (by omega)) ?_
          intro s2 c1 hok hc1
          exact ih s2 c1 ((parsePi_spec T hT txt h1.2 hcs).post s2 hok).1.2 hc1
        · exact cf_pure _ _ _ (by omega)

theorem parseProlog_cf (hv : ValidUtf8 txt) :
    CF (parseProlog T txt) 0 (fun s' st' => st' ≤ s'.pos) := by
  unfold parseProlog
  have hs0 := sok_new txt hv
  apply cf_bind_lift _ _ _ _ (fun s1 => SOk txt s1)
  · intro s1 h1
    split at h1
    · rename_i hb
      have : ValidUtf8 Lit.bom := by unfold ValidUtf8; decide
      exact ((advance_lit hs0 Lit.bom hb this).post s1 h1).1.2
    · simp only [Res.ok.injEq] at h1; subst h1; exact hs0
  intro s1 h1
  apply cf_bind_lift _ _ _ _ (fun s2 => SOk txt s2)
  · intro s2 h2
    split at h2
    · rename_i hd
      exact ((parseDeclaration_spec T hT txt h1 hd).post s2 h2).2
    · simp only [Res.ok.injEq] at h2; subst h2; exact h1
  intro s2 h2
  refine cf_bind _ _ _ _ _ (parseMisc_cf T hT txt _ s2 0 h2 (Nat.zero_le _)) ?_
  intro s3 c1 hok h3
  have hs3 := (parseMisc_spec T hT txt _ s2 (by omega) h2).post s3 hok
  have := (skipSpaces_step T hT hs3.2).1.pos_le
  exact cf_pure _ _ _ (by omega)

/-- The close tag ends at or after every earlier position. -/
theorem parseCloseElement_cf {s : Stream} (hs : SOk txt s) (hp : s.startsWith [60, 47] = true)
    (st : Nat) (hc : st ≤ s.pos) :
    CF (parseCloseElement T txt s) st (fun s' st' => st' ≤ s'.pos) := by
  unfold parseCloseElement
  apply cf_bind_lift _ _ _ _ (fun s1 => Step txt s s1 ∧ s1.pos = s.pos + 2)
    (advance_lit hs [60, 47] hp (lit_valid _ (by decide))).post
  rintro s1 ⟨h1, hp1⟩
  apply cf_bind_lift _ _ _ _ _ (consumeQName_spec T txt h1.2).post
  rintro ⟨s2, pfx, loc⟩ ⟨h2, hsp, hsl, _⟩
  simp only at h2 hsp hsl ⊢
  have h3 := skipSpaces_step T hT h2.2
  apply cf_bind_lift _ _ _ _ _ (consumeByte_spec h3.2 bGt (by decide)).post
  rintro s4 ⟨h4, _⟩
  have hle : st ≤ s4.pos := by
    have := h1.1.pos_le; have := h2.1.pos_le; have := h3.1.pos_le; have := h4.1.pos_le; omega
  exact cf_emit_pure _ _ _ s4.pos _ ⟨hle, rfl⟩ (Nat.le_refl _)

/-- The attribute loop, entered with a pending start tag. -/
theorem startTagLoop_cf : ∀ (fuel : Nat) (s : Stream) (cur : Nat), SOk txt s → cur ≤ s.pos →
    CF (startTagLoop T txt fuel s) cur (fun p st' => st' ≤ p.1.pos) := by
  intro fuel
  induction fuel with
  | zero => intro s cur _ _; unfold startTagLoop; exact cf_fail _ _ _ (by simp)
  | succ n ih =>
    intro s cur hs hc
    unfold startTagLoop
    split
    · exact cf_pure _ _ _ hc
    · have h1 := skipSpaces_step T hT hs
      have hp1 := h1.1.pos_le
      simp only
      apply cf_bind_lift _ _ _ _ (fun c => ∃ r, (s.skipSpaces T).rest = c :: r)
      · intro c hcb
        unfold Stream.currByte at hcb
        split at hcb
        · simp at hcb
        · rename_i b r hr
          simp only [Res.ok.injEq] at hcb
          subst hcb
          exact ⟨r, hr⟩
      rintro c ⟨r, hr⟩
      have hadv : ∀ (b : UInt8), b < 128 → (s.skipSpaces T).rest = b :: r →
          ∀ s2, (s.skipSpaces T).advance 1 = .ok s2 → Step txt (s.skipSpaces T) s2 := by
        intro b hb hr' s2 h2
        unfold Stream.advance at h2
        have : 1 ≤ (s.skipSpaces T).rest.length := by rw [hr']; simp
        simp only [this, if_true, Res.ok.injEq] at h2
        subst h2
        have hd : (s.skipSpaces T).rest.drop 1 = r := by rw [hr']; rfl
        rw [hd]; exact step_ascii h1.2 b r hr' hb
      split
      · rename_i hc'
        have : c = bSlash := by simpa using hc'
        subst this
        apply cf_bind_lift _ _ _ _ _ (hadv bSlash (by decide) hr)
        intro s2 h2
        apply cf_bind_lift _ _ _ _ _ (consumeByte_spec h2.2 bGt (by decide)).post
        rintro s3 ⟨h3, _⟩
        have hle : cur ≤ s3.pos := by
          have := h2.1.pos_le; have := h3.1.pos_le; omega
        exact cf_emit_pure _ _ _ s3.pos _ ⟨hle, rfl⟩ (Nat.le_refl _)
      · split
        · rename_i _ hc'
          have : c = bGt := by simpa using hc'
          subst this
          apply cf_bind_lift _ _ _ _ _ (hadv bGt (by decide) hr)
          intro s2 h2
          have hle : cur ≤ s2.pos := by
            have := h2.1.pos_le; omega
          exact cf_emit_pure _ _ _ s2.pos _ ⟨hle, rfl⟩ (Nat.le_refl _)
        · -- an attribute
          apply cf_bind_lift _ _ _ _ (fun s2 => Step txt (s.skipSpaces T) s2)
          · intro s2 h2
            split at h2
            · exact (consumeSpaces_spec T hT h1.2).post s2 h2
            · simp only [Res.ok.injEq] at h2; subst h2; exact Step.refl h1.2
          intro s2 h2
          apply cf_bind_lift _ _ _ _ _ (consumeQName_spec T txt h2.2).post
          rintro ⟨s3, pfx, loc⟩ ⟨h3, hsp, hsl, _⟩
          simp only at h3 hsp hsl ⊢
          apply cf_bind_lift _ _ _ _ _ (consumeEq_spec T hT h3.2).post
          intro s4 h4
          apply cf_bind_lift _ _ _ _ _ (consumeQuote_spec h4.2).post
          rintro ⟨s5, q⟩ ⟨h5, hq, _⟩
          simp only at h5 ⊢
          apply cf_bind_lift _ _ _ _ _ (advanceUntil2_spec txt h5.2 q bLt hq (by decide)).post
          rintro ⟨s6, value⟩ ⟨h6, hsv, hvoff, htk, hnolt⟩
          simp only at h6 ⊢
          apply cf_bind_lift _ _ _ _ (fun _ => True) (fun _ _ => trivial)
          intro _ _
          apply cf_bind_lift _ _ _ _ _ (consumeByte_spec h6.2 q hq).post
          rintro s7 ⟨h7, hp7⟩
          have hle : cur ≤ s7.pos := by
            have := h2.1.pos_le; have := h3.1.pos_le; have := h4.1.pos_le; have := h5.1.pos_le
            have := h6.1.pos_le; have := h7.1.pos_le; omega
          have hat : CStep cur (.attribute ((s.skipSpaces T).pos, s7.pos)
              (min (s3.pos - (s.skipSpaces T).pos) 65535) (min (s4.pos - s3.pos) 255) pfx loc value)
              s7.pos := by
            have := h2.1.pos_le; have := h3.1.pos_le; have := h4.1.pos_le; have := h5.1.pos_le
            have := h7.1.pos_le; simp only at htk; have := htk.2.1
            exact ⟨by simp only; omega, by simp only; omega, rfl⟩
          refine cf_bind _ _ _ (fun _ c => c = s7.pos) _ (cf_emit _ _ s7.pos _ hat rfl) ?_
          intro _ c1 _ h1'
          subst h1'
          exact ih s7 _ h7.2 (Nat.le_refl _)

/-- A start tag: `ElementStart`, attributes, then the `ElementEnd` of the pending tag. -/
theorem parseStartTag_cf {s : Stream} (hs : SOk txt s) (b : UInt8) (r : Bytes) (hr : s.rest = b :: r)
    (hb : b < 128) (st : Nat) (hc : st ≤ s.pos) :
    CF (parseStartTag T txt s) st (fun p st' => st' ≤ p.1.pos) := by
  unfold parseStartTag
  apply cf_bind_lift _ _ _ _ (fun s1 => Step txt s s1)
  · intro s1 h1
    unfold Stream.advance at h1
    have : 1 ≤ s.rest.length := by rw [hr]; simp
    simp only [this, if_true, Res.ok.injEq] at h1
    subst h1
    have hd : s.rest.drop 1 = r := by rw [hr]; rfl
    rw [hd]; exact step_ascii hs b r hr hb
  intro s1 h1
  apply cf_bind_lift _ _ _ _ _ (consumeQName_spec T txt h1.2).post
  rintro ⟨s2, pfx, loc⟩ ⟨h2, hsp, hsl, hne⟩
  simp only at h2 ⊢
  refine cf_bind _ _ _ (fun _ c => c = s.pos) _
    (cf_emit _ _ s.pos _ ⟨hc, rfl⟩ rfl) ?_
  intro _ c1 _ h1'
  subst h1'
  have hle : s.pos ≤ s2.pos := by
    have := h1.1.pos_le; have := h2.1.pos_le; omega
  refine cf_bind _ _ _ _ _ (startTagLoop_cf T hT txt _ s2 s.pos h2.2 hle) ?_
  rintro ⟨s3, fin⟩ c1 _ h3
  simp only at h3 ⊢
  split
  · exact cf_fail _ _ _ (by simp)
  · exact cf_pure _ _ _ h3

/-- Element content: every positioned token lies at or after the previous one. -/
theorem parseContent_cf : ∀ (fuel depth : Nat) (s : Stream) (st : Nat), SOk txt s → st ≤ s.pos →
    CF (parseContent T txt fuel depth s) st (fun s' st' => st' ≤ s'.pos) := by
  intro fuel
  induction fuel with
  | zero => intro d s st _ _; unfold parseContent; exact cf_fail _ _ _ (by simp)
  | succ n ih =>
    intro depth s st hs hc
    unfold parseContent
    split
    · exact cf_pure _ _ _ hc
    · rename_i c r hr
      have cont : ∀ (d' : Nat) (m : TM Stream), Spec m (TokOk txt) (Step1 txt s) →
          CF m st (fun s' st' => st' ≤ s'.pos) →
          CF (m >>= fun s' => parseContent T txt n d' s') st (fun s' st' => st' ≤ s'.pos) := by
        intro d' m hm hpf
        refine cf_bind _ _ _ _ _ hpf ?_
        intro s2 c1 hok h1
        have h2 := hm.post s2 hok
        exact ih d' s2 _ h2.1.2 h1
      split
      · rename_i hc'
        have hcl : c = bLt := by simpa using hc'
        subst hcl
        split
        · rename_i nb hnb
          split
          · split
            · rename_i hcs
              exact cont depth _ (parseComment_spec T hT txt hs hcs) (parseComment_cf T txt _ _ hc)
            · split
              · rename_i hcs
                exact cont depth _ (parseCdata_spec T hT txt hs hcs) (parseCdata_cf T txt hs hcs _ hc)
              · exact cf_fail _ _ _ (errAt_ne_ok _ _ _)
          · split
            · rename_i _ hq
              have : nb = bQuest := by simpa using hq
              subst this
              have hsw := startsWith_two bLt bQuest r hr hnb
              exact cont depth _ (parsePi_spec T hT txt hs hsw) (parsePi_cf T txt _ _ hc)
            · split
              · rename_i _ _ hsl
                have : nb = bSlash := by simpa using hsl
                subst this
                have hsw := startsWith_two bLt bSlash r hr hnb
                refine cf_bind _ _ _ _ _ (parseCloseElement_cf T hT txt hs hsw st hc) ?_
                intro s2 c1 hok h1
                have h2 := (parseCloseElement_spec T hT txt hs hsw).post s2 hok
                split
                · exact cf_pure _ _ _ h1
                · exact ih _ s2 _ h2.1.2 h1
              · refine cf_bind _ _ _ _ _
                  (parseStartTag_cf T hT txt hs bLt r hr (by decide) st hc) ?_
                rintro ⟨s2, opened⟩ c1 hok h1
                have h2 := (parseStartTag_spec T hT txt hs bLt r hr (by decide)).post _ hok
                simp only at h1 h2 ⊢
                exact ih _ s2 _ h2.1.2 h1
        · exact cf_fail _ _ _ (errAt_ne_ok _ _ _)
      · rename_i hc'
        have hne : c ≠ bLt := by simpa using hc'
        exact cont depth _ (parseText_spec T hT txt hs c r hr hne) (parseText_cf T txt _ _ hc)

theorem parseElement_cf {s : Stream} (hs : SOk txt s) (r : Bytes) (hr : s.rest = bLt :: r)
    (st : Nat) (hc : st ≤ s.pos) :
    CF (parseElement T txt s) st (fun s' st' => st' ≤ s'.pos) := by
  unfold parseElement
  refine cf_bind _ _ _ _ _ (parseStartTag_cf T hT txt hs bLt r hr (by decide) st hc) ?_
  rintro ⟨s2, opened⟩ c1 hok h1
  have h2 := (parseStartTag_spec T hT txt hs bLt r hr (by decide)).post _ hok
  simp only at h1 h2 ⊢
  split
  · exact parseContent_cf T hT txt _ 0 s2 _ h2.1.2 h1
  · exact cf_pure _ _ _ h1

theorem parseBody_cf {s : Stream} (hs : SOk txt s) (st : Nat) (hc : st ≤ s.pos) :
    CF (parseBody T txt s) st (fun _ _ => True) := by
  unfold parseBody
  have h1 := skipSpaces_step T hT hs
  have hp1 := h1.1.pos_le
  refine cf_bind _ _ _ (fun s' st' => SOk txt s' ∧ st' ≤ s'.pos) _ ?_ ?_
  · unfold parseRootElement
    split
    · rename_i hcb
      cases hr : (s.skipSpaces T).rest with
      | nil => simp [Stream.currByte?, hr] at hcb
      | cons b r =>
        have : b = bLt := by simpa [Stream.currByte?, hr] using hcb
        subst this
        obtain ⟨st1, hrun, hq⟩ := parseElement_cf T hT txt h1.2 r hr st (by omega)
        exact ⟨st1, hrun, fun a ha =>
          ⟨((parseElement_spec T hT txt h1.2 r hr).post a ha).2, hq a ha⟩⟩
    · exact cf_pure _ _ _ ⟨h1.2, by omega⟩
  intro s2 c1 _ h2
  refine cf_bind _ _ _ _ _ (parseMisc_cf T hT txt _ s2 c1 h2.1 h2.2) ?_
  intro s3 c2 _ _
  split
  · exact cf_fail _ _ _ (errAt_ne_ok _ _ _)
  · exact cf_pure _ _ _ trivial

/-- With `allow_dtd = false` the token stream of a document is accepted by the token-order automaton. -/
theorem parseDocument_cf (hv : ValidUtf8 txt) :
    CF (parseDocument T txt false) 0 (fun _ _ => True) := by
  unfold parseDocument
  refine cf_bind _ _ _ _ _ (parseProlog_cf T hT txt hv) ?_
  intro s1 c1 hok1 h1
  have hs1 := (parseProlog_spec T hT txt hv).post s1 hok1
  split
  · split
    · exact cf_fail _ _ _ (by simp)
    · rename_i hn
      exact absurd rfl hn
  · exact parseBody_cf T hT txt hs1 c1 h1

end tok


/-! ### The content measure of the builder state -/

def kindLen : Kind → Nat
  | .text s => s.bytes.length
  | _ => 0

def kinds (a : Array NodeData) : List Kind := a.toList.map (·.kind)
def textSum (a : Array NodeData) : Nat := ((kinds a).map kindLen).sum
def strSum (l : List Str) : Nat := (l.map fun s => s.bytes.length).sum
def attrSum (a : Array AttrData) : Nat := (a.toList.map fun a => a.value.bytes.length).sum
def curSum (l : List TempAttr) : Nat := (l.map fun a => a.value.bytes.length).sum
def headLen : List Str → Nat
  | [] => 0
  | s :: _ => s.bytes.length

theorem docContent_eq (d : Doc) : docContent d = textSum d.nodes + attrSum d.attrs := by
  unfold docContent textSum attrSum kinds
  rw [List.map_map]
  have : (fun n : NodeData => match n.kind with
                               | .text s => s.bytes.length
                               | _ => 0) = (kindLen ∘ fun x => x.kind) := by
    funext n
    simp only [Function.comp]
    cases n.kind <;> rfl
  rw [this]

theorem kinds_getElem? (a : Array NodeData) (i : Nat) : (kinds a)[i]? = (a[i]?).map (·.kind) := by
  simp [kinds]

theorem kinds_push (a : Array NodeData) (n : NodeData) : kinds (a.push n) = kinds a ++ [n.kind] := by
  simp [kinds]

theorem list_set_same {α β} (f : α → β) : ∀ (l : List α) (i : Nat) (m m' : α), l[i]? = some m →
    f m' = f m → (l.set i m').map f = l.map f := by
  intro l
  induction l with
  | nil => intro i m m' h _; simp at h
  | cons x r ih =>
    intro i m m' h hf
    cases i with
    | zero =>
      simp only [List.getElem?_cons_zero, Option.some.injEq] at h
      subst h
      simp [hf]
    | succ i =>
      simp only [List.getElem?_cons_succ] at h
      simp only [List.set_cons_succ, List.map_cons]
      rw [ih i m m' h hf]

theorem kinds_set_same (a : Array NodeData) (i : Nat) (m m' : NodeData) (hm : a[i]? = some m)
    (hk : m'.kind = m.kind) : kinds (a.setIfInBounds i m') = kinds a := by
  unfold kinds
  rw [Array.toList_setIfInBounds]
  exact list_set_same _ a.toList i m m' (by simp [hm]) hk

theorem list_set_sum {α} (f : α → Nat) : ∀ (l : List α) (i : Nat) (m m' : α), l[i]? = some m →
    ((l.set i m').map f).sum + f m = (l.map f).sum + f m' := by
  intro l
  induction l with
  | nil => intro i m m' h; simp at h
  | cons x r ih =>
    intro i m m' h
    cases i with
    | zero =>
      simp only [List.getElem?_cons_zero, Option.some.injEq] at h
      subst h
      simp only [List.set_cons_zero, List.map_cons, List.sum_cons]
      omega
    | succ i =>
      simp only [List.getElem?_cons_succ] at h
      have := ih i m m' h
      simp only [List.set_cons_succ, List.map_cons, List.sum_cons]
      omega

theorem textSum_set (a : Array NodeData) (i : Nat) (m m' : NodeData) (hm : a[i]? = some m) :
    textSum (a.setIfInBounds i m') + kindLen m.kind = textSum a + kindLen m'.kind := by
  unfold textSum kinds
  rw [Array.toList_setIfInBounds, List.map_map, List.map_map]
  exact list_set_sum (kindLen ∘ fun x => x.kind) a.toList i m m' (by simp [hm])

theorem setNextSubtree_kinds (new : Nat) : ∀ (l : List Nat) (a a' : Array NodeData),
    Ctx.setNextSubtree a new l = .ok a' → kinds a' = kinds a := by
  intro l
  induction l with
  | nil => intro a a' h; simp [Ctx.setNextSubtree] at h; subst h; rfl
  | cons id r ih =>
    intro a a' h
    simp only [Ctx.setNextSubtree] at h
    split at h
    · simp at h
    · rename_i n hn
      rw [ih _ _ h]
      exact kinds_set_same a id n _ hn rfl

/-- `append_node` adds one node of the given kind and touches nothing else the measure looks at -/
theorem appendNode_kinds {c c' : Ctx} {k : Kind} {r : Range} {id : Nat}
    (h : c.appendNode k r = .ok (c', id)) :
    kinds c'.doc.nodes = kinds c.doc.nodes ++ [k] ∧ c'.doc.attrs = c.doc.attrs ∧
    c'.curAttrs = c.curAttrs ∧ c'.afterText = c.afterText ∧ c'.entities = c.entities := by
  unfold Ctx.appendNode at h
  split at h
  · simp at h
  · rw [Res.bind_eq_ok] at h
    obtain ⟨nid, _, h⟩ := h
    try dsimp only at h
    split at h
    · simp at h
    · rename_i p0 hp0
      split at h
      · simp at h
      · rename_i n0 hn0
        split at h
        · simp at h
        · rename_i p1 hp1
          rw [Res.bind_eq_ok] at h
          obtain ⟨nodes, hs, h⟩ := h
          res_norm at h
          obtain ⟨e1, _⟩ := h
          subst e1
          refine ⟨?_, rfl, rfl, rfl, rfl⟩
          show kinds nodes = _
          rw [setNextSubtree_kinds _ _ _ _ hs,
            kinds_set_same _ _ p1 { p1 with lastChild := some nid } hp1 rfl,
            kinds_set_same _ _ n0 { n0 with prevSibling := p0.lastChild } hn0 rfl, kinds_push]

theorem textSum_append (a b : Array NodeData) (k : Kind) (h : kinds b = kinds a ++ [k]) :
    textSum b = textSum a + kindLen k := by
  unfold textSum
  rw [h]
  simp

theorem strSum_append (l : List Str) (t : Str) : strSum (l ++ [t]) = strSum l + t.bytes.length := by
  simp [strSum]

theorem curSum_append (l : List TempAttr) (t : TempAttr) :
    curSum (l ++ [t]) = curSum l + t.value.bytes.length := by
  simp [curSum]

theorem strSum_head_tail (l : List Str) : strSum l = headLen l + strSum l.tail := by
  cases l with
  | nil => rfl
  | cons x r => simp [strSum, headLen]

theorem owned_bytes (b : Bytes) : (Str.owned b).bytes = b := rfl

theorem flatten_len (l : List Str) : ((l.map (·.bytes)).flatten).length = strSum l := by
  unfold strSum
  rw [List.length_flatten, List.map_map]
  rfl

/-- The invariant: the content built so far — the text nodes (the one under construction counted
with all its fragments), the attributes, and the attributes of the pending start tag — is no longer
than the part of the input read so far; and no entity is declared. -/
structure CI (cur : Nat) (c : Ctx) : Prop where
  ents : c.entities = []
  meas : textSum c.doc.nodes + strSum c.afterText.tail + attrSum c.doc.attrs + curSum c.curAttrs ≤ cur
  last : c.afterText ≠ [] → ∃ s, (kinds c.doc.nodes).getLast? = some (.text s) ∧
    s.bytes.length = headLen c.afterText

/-- nothing the measure looks at has changed -/
structure CS (c c' : Ctx) : Prop where
  ents : c'.entities = c.entities
  nodes : kinds c'.doc.nodes = kinds c.doc.nodes
  attrs : c'.doc.attrs = c.doc.attrs
  cur : c'.curAttrs = c.curAttrs
  after : c'.afterText = c.afterText

theorem CS.refl (c : Ctx) : CS c c := ⟨rfl, rfl, rfl, rfl, rfl⟩

theorem CS.trans {a b c : Ctx} (h1 : CS a b) (h2 : CS b c) : CS a c :=
  ⟨h2.ents.trans h1.ents, h2.nodes.trans h1.nodes, h2.attrs.trans h1.attrs, h2.cur.trans h1.cur,
    h2.after.trans h1.after⟩

theorem CI.cs {cur : Nat} {c c' : Ctx} (h : CI cur c) (s : CS c c') : CI cur c' := by
  refine ⟨s.ents.trans h.ents, ?_, ?_⟩
  · have := h.meas
    unfold textSum at this ⊢
    rw [s.nodes, s.attrs, s.cur, s.after]; exact this
  · rw [s.after, s.nodes]; exact h.last

theorem CI.mono {cur cur' : Nat} {c : Ctx} (h : CI cur c) (hc : cur ≤ cur') : CI cur' c :=
  ⟨h.ents, Nat.le_trans h.meas hc, h.last⟩

theorem mergeText_ci {cur : Nat} {c c' : Ctx} (hi : CI cur c) (hne : c.afterText ≠ [])
    (h : c.mergeText = .ok c') :
    c'.entities = [] ∧ c'.afterText = c.afterText ∧ c'.doc.attrs = c.doc.attrs ∧
    c'.curAttrs = c.curAttrs ∧
    textSum c'.doc.nodes = textSum c.doc.nodes + strSum c.afterText.tail := by
  unfold Ctx.mergeText at h
  dsimp only at h
  split at h
  · simp at h
  · split at h
    · simp at h
    · rename_i n hn
      split at h
      · rename_i s0 hk
        simp only [Res.ok.injEq] at h
        subst h
        refine ⟨hi.ents, rfl, rfl, rfl, ?_⟩
        show textSum (c.doc.nodes.setIfInBounds _ _) = _
        have h1 := textSum_set c.doc.nodes _ n
          { n with kind := .text (.owned ((c.afterText.map (·.bytes)).flatten)) } hn
        obtain ⟨s, hl, hs⟩ := hi.last hne
        have hks : n.kind = .text s := by
          rw [List.getLast?_eq_getElem?, kinds_getElem?] at hl
          have hlen : (kinds c.doc.nodes).length = c.doc.nodes.size := by simp [kinds]
          rw [hlen, hn] at hl
          simpa using hl
        rw [hks] at h1
        simp only [kindLen, owned_bytes] at h1
        rw [flatten_len] at h1
        have := strSum_head_tail c.afterText
        omega
      · simp at h

theorem resetAfterText_ci {cur : Nat} {c c' : Ctx} (hi : CI cur c)
    (h : c.resetAfterText = .ok c') : CI cur c' ∧ c'.afterText = [] := by
  unfold Ctx.resetAfterText at h
  dsimp only at h
  split at h
  · rename_i he
    simp only [Res.ok.injEq] at h; subst h
    exact ⟨hi, by simpa using he⟩
  · rename_i he
    have hne : c.afterText ≠ [] := by simpa using he
    split at h
    · rw [Res.bind_eq_ok] at h
      obtain ⟨c1, h1, h⟩ := h
      res_norm at h
      subst h
      obtain ⟨e1, e2, e3, e4, e5⟩ := mergeText_ci hi hne h1
      refine ⟨⟨e1, ?_, fun hh => absurd rfl hh⟩, rfl⟩
      show textSum c1.doc.nodes + strSum ([] : List Str).tail + attrSum c1.doc.attrs +
        curSum c1.curAttrs ≤ cur
      have := hi.meas
      rw [e3, e4, e5]
      simp only [List.tail_nil, strSum, List.map_nil, List.sum_nil]
      simp only [strSum] at this
      omega
    · rename_i hl
      res_norm at h; subst h
      refine ⟨⟨hi.ents, ?_, fun hh => absurd rfl hh⟩, rfl⟩
      show textSum c.doc.nodes + strSum ([] : List Str).tail + attrSum c.doc.attrs +
        curSum c.curAttrs ≤ cur
      have := hi.meas
      simp only [List.tail_nil, strSum, List.map_nil, List.sum_nil]
      omega

/-- a node is appended while no text node is under construction -/
theorem appendNode_ci {cur cur' : Nat} {c c' : Ctx} {k : Kind} {r : Range} {id : Nat}
    (hi : CI cur c) (ha : c.afterText = []) (hc : cur + kindLen k ≤ cur')
    (h : c.appendNode k r = .ok (c', id)) : CI cur' c' ∧ c'.afterText = [] := by
  obtain ⟨e1, e2, e3, e4, e5⟩ := appendNode_kinds h
  refine ⟨⟨e5.trans hi.ents, ?_, ?_⟩, e4.trans ha⟩
  · have := hi.meas
    rw [textSum_append _ _ _ e1, e2, e3, e4]
    omega
  · intro hne
    rw [e4, ha] at hne
    exact absurd rfl hne

theorem appendText_ci {cur cur' : Nat} {c c' : Ctx} {t : Str} {r : Range} (hi : CI cur c)
    (hc : cur + t.bytes.length ≤ cur') (h : c.appendText t r = .ok c') : CI cur' c' := by
  unfold Ctx.appendText at h
  dsimp only at h
  split at h
  · rename_i he
    have ha : c.afterText = [] := by simpa [Ctx.log] using he
    rw [Res.bind_eq_ok] at h
    obtain ⟨⟨c2, id⟩, hn, h⟩ := h
    res_norm at h
    subst h
    have hi0 : CI cur (c.log (Ev.textFragment t r)) := hi.cs ⟨rfl, rfl, rfl, rfl, rfl⟩
    obtain ⟨e1, e2, e3, e4, e5⟩ := appendNode_kinds hn
    have ha2 : c2.afterText = [] := e4.trans ha
    refine ⟨e5.trans hi.ents, ?_, ?_⟩
    · show textSum c2.doc.nodes + strSum (c2.afterText ++ [t]).tail + attrSum c2.doc.attrs +
        curSum c2.curAttrs ≤ cur'
      have := hi.meas
      simp only [Ctx.log] at e1 e2 e3 e4
      rw [textSum_append _ _ _ e1, e2, e3, ha2]
      rw [ha] at this
      simp only [List.nil_append, List.tail_cons, List.tail_nil, strSum, List.map_nil,
        List.sum_nil, kindLen] at this ⊢
      omega
    · intro _
      refine ⟨t, ?_, ?_⟩
      · show (kinds c2.doc.nodes).getLast? = _
        rw [e1]; simp
      · show t.bytes.length = headLen (c2.afterText ++ [t])
        rw [ha2]; rfl
  · rename_i he
    have hne : c.afterText ≠ [] := by simpa [Ctx.log] using he
    res_norm at h
    subst h
    refine ⟨hi.ents, ?_, ?_⟩
    · show textSum c.doc.nodes + strSum (c.afterText ++ [t]).tail + attrSum c.doc.attrs +
        curSum c.curAttrs ≤ cur'
      have := hi.meas
      have ht : (c.afterText ++ [t]).tail = c.afterText.tail ++ [t] := by
        cases hx : c.afterText with
        | nil => exact absurd hx hne
        | cons x y => rfl
      rw [ht, strSum_append]
      omega
    · intro _
      obtain ⟨s, h1, h2⟩ := hi.last hne
      refine ⟨s, h1, ?_⟩
      show s.bytes.length = headLen (c.afterText ++ [t])
      rw [h2]
      cases hx : c.afterText with
      | nil => exact absurd hx hne
      | cons x y => rfl

theorem flushBuffer_ci {cur cur' : Nat} {c c' : Ctx} {b : TextBuffer} {r : Range} (hi : CI cur c)
    (hc : cur + b.rev.length ≤ cur') (h : flushBuffer c b r = .ok c') : CI cur' c' := by
  unfold flushBuffer at h
  split at h
  · rw [Res.bind_eq_ok] at h
    obtain ⟨out, ho, h⟩ := h
    have := finish_len _ _ ho
    exact appendText_ci hi (by simp only [Str.bytes]; omega) h
  · res_norm at h; subst h
    exact hi.mono (by omega)

theorem cdataNormalize_len : ∀ (n : Nat) (l : Bytes), l.length ≤ n →
    (cdataNormalize l).length ≤ l.length := by
  intro n
  induction n with
  | zero =>
    intro l hl
    have : l = [] := List.eq_nil_of_length_eq_zero (by omega)
    subst this; simp [cdataNormalize]
  | succ n ih =>
    intro l hl
    unfold cdataNormalize
    split
    · simp
    · rename_i r
      have := ih r (by simp only [List.length_cons] at hl; omega)
      simp only [List.length_cons]; omega
    · rename_i r _
      have := ih r (by simp only [List.length_cons] at hl; omega)
      simp only [List.length_cons]; omega
    · rename_i b r _ _
      have := ih r (by simp only [List.length_cons] at hl; omega)
      simp only [List.length_cons]; omega

theorem processCdata_ci {cur cur' : Nat} {c c' : Ctx} {t : Span} {r : Range} (hi : CI cur c)
    (hc : cur + t.bytes.length ≤ cur') (h : processCdata c t r = .ok c') : CI cur' c' := by
  unfold processCdata at h
  split at h
  · exact appendText_ci hi (by simpa [Str.bytes] using hc) h
  · have := cdataNormalize_len _ t.bytes (Nat.le_refl _)
    exact appendText_ci hi (by simp only [Str.bytes]; omega) h

theorem sliceBytes_len (txt : Bytes) (a b : Nat) : (sliceBytes txt a b).length ≤ b - a := by
  unfold sliceBytes
  simp only [List.length_take]
  omega

theorem processText_ci (T : Tables) (txt : Bytes) (lower : Token → Ctx → Res Ctx) {cur cur' : Nat}
    {c c' : Ctx} {t : Span} {r : Range} (hi : CI cur c)
    (hc1 : cur + t.bytes.length ≤ cur') (hc2 : cur + (r.2 - r.1) ≤ cur')
    (h : processText T txt lower c t r = .ok c') : CI cur' c' := by
  unfold processText at h
  split at h
  · exact appendText_ci hi (by simpa [Str.bytes] using hc1) h
  · try dsimp only at h
    rw [Res.bind_eq_ok] at h
    obtain ⟨⟨buf, c1⟩, hl, h⟩ := h
    have hlen := processTextLoop_len T txt lower _ _ _ _ _ _ _ hi.ents hl
    have := processTextLoop_noent T txt lower _ _ _ _ _ _ _ hi.ents hl
    subst this
    have hs := sliceBytes_len txt r.1 r.2
    simp only [Stream.ofRange, List.length_nil] at hlen
    simp only at h
    exact flushBuffer_ci hi (by omega) h


theorem processAttribute_ci (T : Tables) (txt : Bytes) {cur cur' : Nat} {c c' : Ctx} {r : Range}
    {q e : Nat} {pfx loc v : Span} (hi : CI cur c) (hc : cur + v.bytes.length ≤ cur')
    (h : processAttribute T txt c r q e pfx loc v = .ok c') : CI cur' c' := by
  unfold processAttribute at h
  rw [Res.bind_eq_ok] at h
  obtain ⟨⟨c1, value⟩, h1, h⟩ := h
  obtain ⟨hlen, d1, d2, d3, d4⟩ := normalizeAttribute_len T txt _ _ _ _ hi.ents h1
  have s1 : CS c c1 := ⟨d4, by rw [d1], by rw [d1], d2, d3⟩
  have hi1 : CI cur c1 := hi.cs s1
  have fin : ∀ c2 : Ctx, CS c1 c2 → CI cur' c2 := fun c2 s2 => (hi1.cs s2).mono (by omega)
  try dsimp only at h
  split at h
  · split at h
    · exact absurd h (errPos_ne_ok _ _ _ _)
    · split at h
      · exact absurd h (errPos_ne_ok _ _ _ _)
      · try dsimp only at h
        split at h
        · exact absurd h (errPos_ne_ok _ _ _ _)
        · split at h
          · exact absurd h (errPos_ne_ok _ _ _ _)
          · rw [Res.bind_eq_ok] at h
            obtain ⟨ex, _, h⟩ := h
            split at h
            · exact absurd h (errPos_ne_ok _ _ _ _)
            · split at h
              · rw [Res.bind_eq_ok] at h
                obtain ⟨ns, _, h⟩ := h
                res_norm at h; subst h
                exact fin _ ⟨rfl, rfl, rfl, rfl, rfl⟩
              · res_norm at h; subst h
                exact fin _ ⟨rfl, rfl, rfl, rfl, rfl⟩
  · split at h
    · split at h
      · exact absurd h (errPos_ne_ok _ _ _ _)
      · split at h
        · exact absurd h (errPos_ne_ok _ _ _ _)
        · rw [Res.bind_eq_ok] at h
          obtain ⟨ex, _, h⟩ := h
          split at h
          · exact absurd h (errPos_ne_ok _ _ _ _)
          · rw [Res.bind_eq_ok] at h
            obtain ⟨ns, _, h⟩ := h
            res_norm at h; subst h
            exact fin _ ⟨rfl, rfl, rfl, rfl, rfl⟩
    · res_norm at h; subst h
      refine ⟨hi1.ents, ?_, hi1.last⟩
      show textSum c1.doc.nodes + strSum c1.afterText.tail + attrSum c1.doc.attrs +
        curSum (c1.curAttrs ++ [⟨pfx, loc, value, r, q, e⟩]) ≤ cur'
      have := hi1.meas
      rw [curSum_append]
      simp only
      omega

theorem resolveNamespaces_cs (c c' : Ctx) (r : Range) (h : resolveNamespaces c = .ok (c', r)) :
    CS c c' := by
  unfold resolveNamespaces at h
  rw [Res.bind_eq_ok] at h
  obtain ⟨p, _, h⟩ := h
  split at h
  · split at h
    · res_norm at h; rw [← h.1]; exact CS.refl _
    · rw [Res.bind_eq_ok] at h
      obtain ⟨ns, _, h⟩ := h
      res_norm at h
      rw [← h.1]; exact ⟨rfl, rfl, rfl, rfl, rfl⟩
  · res_norm at h; rw [← h.1]; exact CS.refl _

theorem attrSum_push (a : Array AttrData) (x : AttrData) :
    attrSum (a.push x) = attrSum a + x.value.bytes.length := by
  simp [attrSum]

theorem resolveAttrsLoop_sum (txt : Bytes) (pos : Bool) (nss : Range) (st : Nat) :
    ∀ (l : List TempAttr) (d d' : Doc), resolveAttrsLoop txt pos nss st l d = .ok d' →
      attrSum d'.attrs = attrSum d.attrs + curSum l := by
  intro l
  induction l with
  | nil => intro d d' h; simp [resolveAttrsLoop] at h; subst h; simp [curSum]
  | cons a r ih =>
    intro d d' h
    simp only [resolveAttrsLoop] at h
    rw [Res.bind_eq_ok] at h
    obtain ⟨nsIdx, _, h⟩ := h
    rw [Res.bind_eq_ok] at h
    obtain ⟨en, _, h⟩ := h
    try dsimp only at h
    rw [Res.bind_eq_ok] at h
    obtain ⟨dup, _, h⟩ := h
    split at h
    · exact absurd h (errPos_ne_ok _ _ _ _)
    · have := ih _ _ h
      rw [this]
      simp only [attrSum_push, curSum, List.map_cons, List.sum_cons]
      split <;> simp only <;> omega

theorem resolveAttributes_sum (txt : Bytes) (c c' : Ctx) (nss r : Range)
    (h : resolveAttributes txt c nss = .ok (c', r)) :
    c'.entities = c.entities ∧ c'.doc.nodes = c.doc.nodes ∧ c'.afterText = c.afterText ∧
    c'.curAttrs = [] ∧ attrSum c'.doc.attrs = attrSum c.doc.attrs + curSum c.curAttrs := by
  unfold resolveAttributes at h
  split at h
  · rename_i he
    have he' : c.curAttrs = [] := by simpa using he
    res_norm at h; rw [← h.1]
    exact ⟨rfl, rfl, rfl, he', by rw [he']; simp [curSum]⟩
  · split at h
    · simp at h
    · rw [Res.bind_eq_ok] at h
      obtain ⟨doc, hd, h⟩ := h
      res_norm at h
      have hn := resolveAttrsLoop_nodes _ _ _ _ _ _ _ hd
      have hs := resolveAttrsLoop_sum _ _ _ _ _ _ _ hd
      rw [← h.1]
      exact ⟨rfl, hn, rfl, rfl, hs⟩

/-- `process_element`, entered with no text node under construction -/
theorem processElement_ci {txt : Bytes} {cur cur' : Nat} {c c' : Ctx} {e : EndKind} {r : Range}
    (hi : CI cur c) (ha : c.afterText = []) (hc : cur ≤ cur')
    (h : processElement txt c e r = .ok c') : CI cur' c' := by
  unfold processElement at h
  split at h
  · split at h
    · exact absurd h (errPos_ne_ok _ _ _ _)
    · simp at h
  · rw [Res.bind_eq_ok] at h
    obtain ⟨⟨c1, nss⟩, h1, h⟩ := h
    try dsimp only at h
    rw [Res.bind_eq_ok] at h
    obtain ⟨⟨c2, attrs⟩, h2, h⟩ := h
    have s1 := resolveNamespaces_cs _ _ _ h1
    obtain ⟨f1, f2, f3, f4, f5⟩ := resolveAttributes_sum _ _ _ _ _ h2
    simp only at f1 f2 f3 f4 f5
    have hi1 : CI cur c1 := hi.cs s1
    have ha2 : c2.afterText = [] := by rw [f3, s1.after]; exact ha
    have hi2 : CI cur c2 := by
      refine ⟨f1.trans hi1.ents, ?_, fun hne => absurd ha2 hne⟩
      have := hi1.meas
      rw [f2, f3, f4, f5]
      simp only [curSum, List.map_nil, List.sum_nil] at this ⊢
      omega
    try dsimp only at h
    split at h
    · -- empty element
      rw [Res.bind_eq_ok] at h
      obtain ⟨tagNs, _, h⟩ := h
      rw [Res.bind_eq_ok] at h
      obtain ⟨⟨c3, newId⟩, h3, h⟩ := h
      res_norm at h
      subst h
      exact (appendNode_ci hi2 ha2 (by simpa [kindLen] using hc) h3).1.cs ⟨rfl, rfl, rfl, rfl, rfl⟩
    · -- close tag
      split at h
      · exact absurd h (errPos_ne_ok _ _ _ _)
      · rw [Res.bind_eq_ok] at h
        obtain ⟨p, hpn', h⟩ := h
        split at h
        · simp at h
        · split at h
          · exact absurd h (errPos_ne_ok _ _ _ _)
          · split at h
            · res_norm at h
              subst h
              have hpn : c2.doc.nodes[c2.parentId]? = some p := by
                unfold Ctx.nodeAt at hpn'
                split at hpn' <;> simp at hpn'
                subst hpn'; assumption
              refine (hi2.mono hc).cs ⟨rfl, ?_, rfl, rfl, rfl⟩
              show kinds (c2.doc.nodes.setIfInBounds c2.parentId _) = kinds c2.doc.nodes
              refine kinds_set_same _ _ p _ hpn ?_
              split <;> rfl
            · exact absurd h (errPos_ne_ok _ _ _ _)
    · -- open element
      rw [Res.bind_eq_ok] at h
      obtain ⟨tagNs, _, h⟩ := h
      rw [Res.bind_eq_ok] at h
      obtain ⟨⟨c3, newId⟩, h3, h⟩ := h
      res_norm at h
      subst h
      exact (appendNode_ci hi2 ha2 (by simpa [kindLen] using hc) h3).1.cs ⟨rfl, rfl, rfl, rfl, rfl⟩

/-! ### Builder level: steps and token lists -/

section
variable (T : Tables) (txt : Bytes)

theorem tokenStep_ci (lower : Token → Ctx → Res Ctx) {cur cur' : Nat} {t : Token}
    {c c' : Ctx} (hk : TokOk txt t) (hps : CStep cur t cur') (hi : CI cur c)
    (h : tokenStep T txt lower t c = .ok c') : CI cur' c' := by
  unfold tokenStep at h
  dsimp only at h
  have hi0 : CI cur (c.log (.token t)) := hi.cs ⟨rfl, rfl, rfl, rfl, rfl⟩
  split at h
  · -- pi
    obtain ⟨_, _, k3, _⟩ := hk
    simp only [CStep] at hps
    obtain ⟨hle, rfl⟩ := hps
    rw [Res.bind_eq_ok] at h
    obtain ⟨c1, h1, h⟩ := h
    rw [Res.bind_eq_ok] at h
    obtain ⟨⟨c2, id⟩, h2, h⟩ := h
    res_norm at h; subst h
    obtain ⟨hi1, ha1⟩ := resetAfterText_ci hi0 h1
    have := k3.1
    exact (appendNode_ci hi1 ha1 (by simp only [kindLen]; omega) h2).1
  · -- comment
    obtain ⟨_, k2, _⟩ := hk
    simp only [CStep] at hps
    obtain ⟨hle, rfl⟩ := hps
    rw [Res.bind_eq_ok] at h
    obtain ⟨c1, h1, h⟩ := h
    rw [Res.bind_eq_ok] at h
    obtain ⟨⟨c2, id⟩, h2, h⟩ := h
    res_norm at h; subst h
    obtain ⟨hi1, ha1⟩ := resetAfterText_ci hi0 h1
    have := k2.1
    exact (appendNode_ci hi1 ha1 (by simp only [kindLen]; omega) h2).1
  · -- entityDecl
    simp only [CStep] at hps
  · -- elementStart
    simp only [CStep] at hps
    obtain ⟨hle, rfl⟩ := hps
    rw [Res.bind_eq_ok] at h
    obtain ⟨c1, h1, h⟩ := h
    split at h
    · exact absurd h (errPos_ne_ok _ _ _ _)
    · res_norm at h; subst h
      obtain ⟨hi1, _⟩ := resetAfterText_ci hi0 h1
      exact (hi1.mono hle).cs ⟨rfl, rfl, rfl, rfl, rfl⟩
  · -- attribute
    simp only [CStep] at hps
    obtain ⟨hle, hv, rfl⟩ := hps
    exact processAttribute_ci T txt hi0 (by omega) h
  · -- elementEnd
    simp only [CStep] at hps
    obtain ⟨hle, rfl⟩ := hps
    rw [Res.bind_eq_ok] at h
    obtain ⟨c1, h1, h⟩ := h
    obtain ⟨hi1, ha1⟩ := resetAfterText_ci hi0 h1
    exact processElement_ci hi1 ha1 hle h
  · -- text
    obtain ⟨_, k2, k3, _⟩ := hk
    simp only [CStep] at hps
    obtain ⟨hle, rfl⟩ := hps
    have e1 : (_ : Range).1 = _ := congrArg Prod.fst k3
    have e2 : (_ : Range).2 = _ := congrArg Prod.snd k3
    simp only at e1 e2
    exact processText_ci T txt lower hi0 (by omega) (by omega) h
  · -- cdata
    simp only [CStep] at hps
    obtain ⟨hle, hv, rfl⟩ := hps
    exact processCdata_ci hi0 (by omega) h

theorem token_ci (d : Nat) {cur cur' : Nat} {t : Token} {c c' : Ctx} (hk : TokOk txt t)
    (hps : CStep cur t cur') (hi : CI cur c) (h : token T txt d t c = .ok c') : CI cur' c' := by
  cases d with
  | zero => simp [token] at h
  | succ d => exact tokenStep_ci T txt (token T txt d) hk hps hi h

theorem feed_ci (d : Nat) : ∀ (toks : List Token), (∀ t ∈ toks, TokOk txt t) →
    ∀ (cur cur' : Nat) (c c' : Ctx), CRun cur toks cur' → CI cur c →
      feed (token T txt d) toks c = .ok c' → CI cur' c' := by
  intro toks
  induction toks with
  | nil =>
    intro _ cur cur' c c' hrun hi h
    simp only [CRun] at hrun
    simp [feed] at h
    subst h; subst hrun; exact hi
  | cons t ts ih =>
    intro hall cur cur' c c' hrun hi h
    obtain ⟨s1, hstep, hrun'⟩ := hrun
    simp only [feed] at h
    split at h
    · rename_i c1 h1
      have hi1 := token_ci T txt d (hall t (by simp)) hstep hi h1
      exact ih (fun t' ht' => hall t' (by simp [ht'])) s1 cur' c1 c' hrun' hi1 h
    · simp at h
    · simp at h
    · simp at h

/-- the automaton never moves past the end of the input -/
theorem cRun_le : ∀ (toks : List Token), (∀ t ∈ toks, TokOk txt t) → ∀ (cur cur' : Nat),
    cur ≤ txt.length → CRun cur toks cur' → cur' ≤ txt.length := by
  intro toks
  induction toks with
  | nil => intro _ cur cur' hc hrun; simp only [CRun] at hrun; subst hrun; exact hc
  | cons t ts ih =>
    intro hall cur cur' hc hrun
    obtain ⟨s1, hstep, hrun'⟩ := hrun
    refine ih (fun t' ht' => hall t' (by simp [ht'])) s1 cur' ?_ hrun'
    have hk := hall t (by simp)
    cases t with
    | pi tg v r => simp only [CStep] at hstep; rw [hstep.2]; exact hk.2.2.1.2.1
    | comment tx r => simp only [CStep] at hstep; rw [hstep.2]; exact hk.2.1.2.1
    | entityDecl n v => simp only [CStep] at hstep
    | elementStart p l s => simp only [CStep] at hstep; rw [hstep.2]; exact hk.2.2.1
    | «attribute» r q e p l v => simp only [CStep] at hstep; rw [hstep.2.2]; exact hk.1.2.1
    | elementEnd e r =>
      simp only [CStep] at hstep; rw [hstep.2]
      cases e with
      | «open» => exact hk.2.1
      | close p l => exact hk.2.2.2.1
      | empty => exact hk.2.1
    | text tx r => simp only [CStep] at hstep; rw [hstep.2]; exact hk.2.1.2.1
    | cdata tx r => simp only [CStep] at hstep; rw [hstep.2.2]; exact hk.2.2.1

end

/-- **No amplification under default options** (all valid UTF-8 inputs, every option value with
`allow_dtd = false`): -/
theorem parse_content_le_input (T : Tables) (hT : TablesOK T) (txt : Bytes) (hv : ValidUtf8 txt)
    (opt : Opt) (hdtd : opt.allowDtd = false) (d : Doc) (h : parse T txt opt = .ok d) :
    docContent d ≤ txt.length := by
  unfold parse at h
  rw [Res.bind_eq_ok] at h
  obtain ⟨c, hc, h⟩ := h
  res_norm at h
  subst h
  unfold parseCtx at hc
  rw [Res.bind_eq_ok] at hc
  obtain ⟨c0, h0, hc⟩ := hc
  try dsimp only at hc
  rw [Res.bind_eq_ok] at hc
  obtain ⟨c1, h1, hc⟩ := hc
  have i0 : CI 0 c0 := by
    unfold initCtx at h0
    rw [Res.bind_eq_ok] at h0
    obtain ⟨ns, _, h0⟩ := h0
    res_norm at h0
    subst h0
    refine ⟨rfl, ?_, fun hne => absurd rfl hne⟩
    simp [textSum, kinds, rootNode, kindLen, strSum, attrSum, curSum]
  obtain ⟨_, hfeed⟩ := runTokens_feed _ _ _ _ _ h1
  rw [hdtd] at hfeed
  obtain ⟨cur', hrun, _⟩ := parseDocument_cf T hT txt hv
  have htoks := (parseDocument_spec T hT txt hv false).toks
  have i1 := feed_ci T txt depthFuel _ htoks 0 cur' c0 c1 hrun i0 hfeed
  have hle := cRun_le txt _ htoks 0 cur' (Nat.zero_le _) hrun
  unfold finish at hc
  rw [Res.bind_eq_ok] at hc
  obtain ⟨has, _, hc⟩ := hc
  split at hc
  · simp at hc
  · split at hc
    · simp at hc
    · res_norm at hc
      subst hc
      rw [docContent_eq]
      show textSum c1.doc.nodes + attrSum c1.doc.attrs ≤ txt.length
      have := i1.meas
      omega

end Rox.Lemmas
