/-
  Rox.Lemmas.BInv4 — the builder invariant through every builder function, hence for every
  document `parse` returns.
-/
import Rox.Lemmas.BInv3

namespace Rox.Lemmas
open Rox Rox.Spec

/-- nodes, current parent and awaiting list are untouched -/
def TriEq (c c' : Ctx) : Prop :=
  c'.doc.nodes = c.doc.nodes ∧ c'.parentId = c.parentId ∧ c'.awaiting = c.awaiting

theorem TriEq.refl (c : Ctx) : TriEq c c := ⟨rfl, rfl, rfl⟩
theorem TriEq.trans {a b c : Ctx} (h1 : TriEq a b) (h2 : TriEq b c) : TriEq a c :=
  ⟨h2.1.trans h1.1, h2.2.1.trans h1.2.1, h2.2.2.trans h1.2.2⟩
theorem TriEq.binv {c c' : Ctx} (t : TriEq c c') (h : BInv c) : BInv c' := h.congr t.1 t.2.1 t.2.2

theorem binv_appendLeaf {c c' : Ctx} {k : Kind} {r : Range} {id : Nat} (hb : BInv c)
    (hk : k.isRoot = false) (hke : k.isElement = false) (h : c.appendNode k r = .ok (c', id)) :
    BInv c' := by
  obtain ⟨e, _, hp, ha⟩ := ext_of_appendNode c c' k r id hb h
  simp only [hke, Bool.false_eq_true, if_false] at ha
  exact binv_after_append_same_parent hb e hk hp ha

theorem binv_appendText {c c' : Ctx} {t : Str} {r : Range} (hb : BInv c)
    (h : c.appendText t r = .ok c') : BInv c' := by
  unfold Ctx.appendText at h
  dsimp only at h
  split at h
  · rw [Res.bind_eq_ok] at h
    obtain ⟨⟨c2, id⟩, h2, h1⟩ := h
    res_norm at h1
    subst h1
    have hb1 : BInv (c.log (Ev.textFragment t r)) := hb.congr rfl rfl rfl
    exact (binv_appendLeaf hb1 rfl rfl h2).congr rfl rfl rfl
  · res_norm at h
    subst h
    exact hb.congr rfl rfl rfl

theorem binv_mergeText {c c' : Ctx} (hb : BInv c) (h : c.mergeText = .ok c') : BInv c' := by
  unfold Ctx.mergeText at h
  dsimp only at h
  split at h
  · simp at h
  · split at h
    · simp at h
    · rename_i n hn
      split at h
      · rename_i s hk
        simp only [Res.ok.injEq] at h
        subst h
        refine binv_sameLinks hb ?_ rfl rfl
        show SameLinks c.doc.nodes (c.doc.nodes.setIfInBounds _ _)
        refine sameLinks_set _ _ n _ hn rfl rfl rfl rfl ?_ ?_
        · rw [hk]; rfl
        · rw [hk]; rfl
      · simp at h

theorem binv_resetAfterText {c c' : Ctx} (hb : BInv c) (h : c.resetAfterText = .ok c') : BInv c' := by
  unfold Ctx.resetAfterText at h
  dsimp only at h
  split at h
  · simp only [Res.ok.injEq] at h; subst h; exact hb
  · split at h
    · rw [Res.bind_eq_ok] at h
      obtain ⟨c1, h1, h⟩ := h
      res_norm at h
      subst h
      exact (binv_mergeText hb h1).congr rfl rfl rfl
    · res_norm at h; subst h; exact hb.congr rfl rfl rfl

theorem resolveNamespaces_triEq (c c' : Ctx) (r : Range) (h : resolveNamespaces c = .ok (c', r)) :
    TriEq c c' := by
  unfold resolveNamespaces at h
  rw [Res.bind_eq_ok] at h
  obtain ⟨p, _, h⟩ := h
  split at h
  · split at h
    · res_norm at h; rw [← h.1]; exact TriEq.refl _
    · rw [Res.bind_eq_ok] at h
      obtain ⟨ns, _, h⟩ := h
      res_norm at h
      rw [← h.1]; exact ⟨rfl, rfl, rfl⟩
  · res_norm at h; rw [← h.1]; exact TriEq.refl _

theorem resolveAttributes_triEq (txt : Bytes) (c c' : Ctx) (nss r : Range)
    (h : resolveAttributes txt c nss = .ok (c', r)) : TriEq c c' := by
  unfold resolveAttributes at h
  split at h
  · res_norm at h; rw [← h.1]; exact TriEq.refl _
  · split at h
    · simp at h
    · rw [Res.bind_eq_ok] at h
      obtain ⟨doc, hd, h⟩ := h
      res_norm at h
      have := resolveAttrsLoop_nodes _ _ _ _ _ _ _ hd
      rw [← h.1]
      exact ⟨this, rfl, rfl⟩

theorem normalizeAttribute_triEq (T : Tables) (txt : Bytes) (c c' : Ctx) (v : Span) (s : Str)
    (h : normalizeAttribute T txt c v = .ok (c', s)) : TriEq c c' := by
  unfold normalizeAttribute at h
  split at h
  · rw [Res.bind_eq_ok] at h
    obtain ⟨⟨buf, ld, tr⟩, _, h⟩ := h
    rw [Res.bind_eq_ok] at h
    obtain ⟨out, _, h⟩ := h
    res_norm at h
    rw [← h.1]; exact ⟨rfl, rfl, rfl⟩
  · res_norm at h; rw [← h.1]; exact TriEq.refl _

theorem processAttribute_triEq (T : Tables) (txt : Bytes) (c c' : Ctx) (r : Range) (q e : Nat)
    (pfx loc v : Span) (h : processAttribute T txt c r q e pfx loc v = .ok c') : TriEq c c' := by
  unfold processAttribute at h
  rw [Res.bind_eq_ok] at h
  obtain ⟨⟨c1, value⟩, h1, h⟩ := h
  have s1 := normalizeAttribute_triEq _ _ _ _ _ _ h1
  try dsimp only at h
  split at h
  · split at h
    · exact absurd h (errPos_ne_ok _ _ _ _)
    · split at h
      · exact absurd h (errPos_ne_ok _ _ _ _)
      · try dsimp only at h
        split at h
        · exact absurd h (errPos_ne_ok _ _ _ _)
        · split at h
          · exact absurd h (errPos_ne_ok _ _ _ _)
          · rw [Res.bind_eq_ok] at h
            obtain ⟨ex, _, h⟩ := h
            split at h
            · exact absurd h (errPos_ne_ok _ _ _ _)
            · split at h
              · rw [Res.bind_eq_ok] at h
                obtain ⟨ns, _, h⟩ := h
                res_norm at h; subst h
                exact TriEq.trans s1 ⟨rfl, rfl, rfl⟩
              · res_norm at h; subst h
                exact TriEq.trans s1 ⟨rfl, rfl, rfl⟩
  · split at h
    · split at h
      · exact absurd h (errPos_ne_ok _ _ _ _)
      · split at h
        · exact absurd h (errPos_ne_ok _ _ _ _)
        · rw [Res.bind_eq_ok] at h
          obtain ⟨ex, _, h⟩ := h
          split at h
          · exact absurd h (errPos_ne_ok _ _ _ _)
          · rw [Res.bind_eq_ok] at h
            obtain ⟨ns, _, h⟩ := h
            res_norm at h; subst h
            exact TriEq.trans s1 ⟨rfl, rfl, rfl⟩
    · res_norm at h; subst h
      exact TriEq.trans s1 ⟨rfl, rfl, rfl⟩

theorem binv_processElement {txt : Bytes} {c c' : Ctx} {e : EndKind} {r : Range} (hb : BInv c)
    (h : processElement txt c e r = .ok c') : BInv c' := by
  unfold processElement at h
  split at h
  · split at h
    · exact absurd h (errPos_ne_ok _ _ _ _)
    · simp at h
  · rw [Res.bind_eq_ok] at h
    obtain ⟨⟨c1, nss⟩, h1, h⟩ := h
    try dsimp only at h
    rw [Res.bind_eq_ok] at h
    obtain ⟨⟨c2, attrs⟩, h2, h⟩ := h
    have t1 := resolveNamespaces_triEq _ _ _ h1
    have t2 := resolveAttributes_triEq _ _ _ _ _ h2
    have hb2 : BInv c2 := t2.binv ((t1.binv hb).congr rfl rfl rfl)
    try dsimp only at h
    split at h
    · -- empty element
      rw [Res.bind_eq_ok] at h
      obtain ⟨tagNs, _, h⟩ := h
      rw [Res.bind_eq_ok] at h
      obtain ⟨⟨c3, newId⟩, h3, h⟩ := h
      res_norm at h
      subst h
      obtain ⟨ex, hid, hp, ha⟩ := ext_of_appendNode _ _ _ _ _ hb2 h3
      simp only [Kind.isElement, if_true] at ha
      refine binv_after_append_same_parent hb2 ex rfl hp ?_
      simp [ha, hid]
    · -- close tag
      split at h
      · exact absurd h (errPos_ne_ok _ _ _ _)
      · rw [Res.bind_eq_ok] at h
        obtain ⟨p, hp, h⟩ := h
        split at h
        · simp at h
        · split at h
          · exact absurd h (errPos_ne_ok _ _ _ _)
          · split at h
            · rename_i id hid
              res_norm at h
              subst h
              have hpn : c2.doc.nodes[c2.parentId]? = some p := by
                unfold Ctx.nodeAt at hp
                split at hp <;> simp at hp
                subst hp; assumption
              -- the range write keeps links; then the close step
              let pnew : NodeData := if c2.positions = true then
                { p with range := (p.range.1, r.2) } else p
              have hpar : pnew.parent = p.parent := by simp only [pnew]; split <;> rfl
              have hsl : SameLinks c2.doc.nodes (c2.setNode c2.parentId pnew).doc.nodes := by
                show SameLinks c2.doc.nodes (c2.doc.nodes.setIfInBounds _ _)
                refine sameLinks_set _ _ p _ hpn hpar ?_ ?_ ?_ ?_ ?_ <;> (simp only [pnew]; split <;> rfl)
              have hb3 : BInv (c2.setNode c2.parentId pnew) := binv_sameLinks hb2 hsl rfl rfl
              have hq : par (c2.setNode c2.parentId pnew).doc.nodes c2.parentId = some id := by
                rw [hsl.par]
                simp only [Spec.par, hpn, Option.bind_some]
                rw [← hpar]; exact hid
              exact binv_close hb3 id rfl hq rfl rfl
            · exact absurd h (errPos_ne_ok _ _ _ _)
    · -- open element
      rw [Res.bind_eq_ok] at h
      obtain ⟨tagNs, _, h⟩ := h
      rw [Res.bind_eq_ok] at h
      obtain ⟨⟨c3, newId⟩, h3, h⟩ := h
      res_norm at h
      subst h
      obtain ⟨ex, hid, hp, ha⟩ := ext_of_appendNode _ _ _ _ _ hb2 h3
      simp only [Kind.isElement, if_true] at ha
      exact binv_after_append_open hb2 ex rfl hid ha

theorem binv_flushBuffer {c c' : Ctx} {b : TextBuffer} {r : Range} (hb : BInv c)
    (h : flushBuffer c b r = .ok c') : BInv c' := by
  unfold flushBuffer at h
  split at h
  · rw [Res.bind_eq_ok] at h
    obtain ⟨out, _, h⟩ := h
    exact binv_appendText hb h
  · res_norm at h; subst h; exact hb

theorem binv_processCdata {c c' : Ctx} {t : Span} {r : Range} (hb : BInv c)
    (h : processCdata c t r = .ok c') : BInv c' := by
  unfold processCdata at h
  split at h <;> exact binv_appendText hb h

theorem binv_feed (step : Token → Ctx → Res Ctx)
    (hstep : ∀ t c c', BInv c → step t c = .ok c' → BInv c') :
    ∀ (toks : List Token) (c c' : Ctx), BInv c → feed step toks c = .ok c' → BInv c' := by
  intro toks
  induction toks with
  | nil => intro c c' hb h; simp [feed] at h; subst h; exact hb
  | cons t ts ih =>
    intro c c' hb h
    simp only [feed] at h
    split at h
    · rename_i c1 h1
      exact ih _ _ (hstep _ _ _ hb h1) h
    · simp at h
    · simp at h
    · simp at h

theorem binv_runTokens {α} (step : Token → Ctx → Res Ctx)
    (hstep : ∀ t c c', BInv c → step t c = .ok c' → BInv c')
    (toks : List Token) (stop : Res α) (c c' : Ctx) (hb : BInv c)
    (h : runTokens step toks stop c = .ok c') : BInv c' := by
  unfold runTokens at h
  split at h
  · rename_i c1 h1
    split at h <;> simp at h
    subst h
    exact binv_feed step hstep _ _ _ hb h1
  · rename_i hne
    cases hf : feed step toks c <;> simp_all

theorem binv_processTextLoop (T : Tables) (txt : Bytes) (lower : Token → Ctx → Res Ctx)
    (hlower : ∀ t c c', BInv c → lower t c = .ok c' → BInv c') (range : Range) :
    ∀ (fuel : Nat) (s : Stream) (buf buf' : TextBuffer) (c c' : Ctx), BInv c →
      processTextLoop T txt lower range fuel s buf c = .ok (buf', c') → BInv c' := by
  intro fuel
  induction fuel with
  | zero => intro s buf buf' c c' _ h; simp [processTextLoop] at h
  | succ fuel ih =>
    intro s buf buf' c c' hb h
    simp only [processTextLoop] at h
    split at h
    · res_norm at h; rw [← h.2]; exact hb
    · rw [Res.bind_eq_ok] at h
      obtain ⟨⟨s1, chunk⟩, _, h⟩ := h
      try dsimp only at h
      split at h
      · exact ih _ _ _ _ _ hb h
      · try dsimp only at h
        split at h <;> exact ih _ _ _ _ _ hb h
      · rw [Res.bind_eq_ok] at h
        obtain ⟨c1, hfl, h⟩ := h
        have hb1 := binv_flushBuffer hb hfl
        split at h
        · exact absurd h (errAt_ne_ok _ _ _ _)
        · try dsimp only at h
          split at h
          · exact absurd h (errAt_ne_ok _ _ _ _)
          · try dsimp only at h
            rw [Res.bind_eq_ok] at h
            obtain ⟨c2, hrun, h⟩ := h
            have hb2 : BInv c2 := by
              refine binv_runTokens lower hlower _ _ _ _ ?_ hrun
              exact hb1.congr rfl rfl rfl
            split at h
            · simp at h
            · refine ih _ _ _ _ _ ?_ h
              exact hb2.congr rfl rfl rfl

theorem binv_processText (T : Tables) (txt : Bytes) (lower : Token → Ctx → Res Ctx)
    (hlower : ∀ t c c', BInv c → lower t c = .ok c' → BInv c') (c c' : Ctx) (t : Span) (r : Range)
    (hb : BInv c) (h : processText T txt lower c t r = .ok c') : BInv c' := by
  unfold processText at h
  split at h
  · exact binv_appendText hb h
  · try dsimp only at h
    rw [Res.bind_eq_ok] at h
    obtain ⟨⟨buf, c1⟩, h1, h⟩ := h
    exact binv_flushBuffer (binv_processTextLoop T txt lower hlower _ _ _ _ _ _ _ hb h1) h

theorem binv_tokenStep (T : Tables) (txt : Bytes) (lower : Token → Ctx → Res Ctx)
    (hlower : ∀ t c c', BInv c → lower t c = .ok c' → BInv c') (t : Token) (c c' : Ctx)
    (hb : BInv c) (h : tokenStep T txt lower t c = .ok c') : BInv c' := by
  unfold tokenStep at h
  dsimp only at h
  have hb0 : BInv (c.log (.token t)) := hb.congr rfl rfl rfl
  split at h
  · rw [Res.bind_eq_ok] at h
    obtain ⟨c1, h1, h⟩ := h
    rw [Res.bind_eq_ok] at h
    obtain ⟨⟨c2, id⟩, h2, h⟩ := h
    res_norm at h; subst h
    exact binv_appendLeaf (binv_resetAfterText hb0 h1) rfl rfl h2
  · rw [Res.bind_eq_ok] at h
    obtain ⟨c1, h1, h⟩ := h
    rw [Res.bind_eq_ok] at h
    obtain ⟨⟨c2, id⟩, h2, h⟩ := h
    res_norm at h; subst h
    exact binv_appendLeaf (binv_resetAfterText hb0 h1) rfl rfl h2
  · res_norm at h; subst h; exact hb.congr rfl rfl rfl
  · rw [Res.bind_eq_ok] at h
    obtain ⟨c1, h1, h⟩ := h
    split at h
    · exact absurd h (errPos_ne_ok _ _ _ _)
    · res_norm at h; subst h
      exact (binv_resetAfterText hb0 h1).congr rfl rfl rfl
  · exact (processAttribute_triEq _ _ _ _ _ _ _ _ _ _ h).binv hb0
  · rw [Res.bind_eq_ok] at h
    obtain ⟨c1, h1, h⟩ := h
    exact binv_processElement (binv_resetAfterText hb0 h1) h
  · exact binv_processText T txt lower hlower _ _ _ _ hb0 h
  · exact binv_processCdata hb0 h

theorem binv_token (T : Tables) (txt : Bytes) :
    ∀ (d : Nat) (t : Token) (c c' : Ctx), BInv c → token T txt d t c = .ok c' → BInv c' := by
  intro d
  induction d with
  | zero => intro t c c' _ h; simp [token] at h
  | succ d ih => intro t c c' hb h; exact binv_tokenStep T txt (token T txt d) ih t c c' hb h

/-- Every state the parser reaches, and in particular the final one, satisfies the builder
invariant — for every input and every option value. -/
theorem parseCtx_binv (T : Tables) (txt : Bytes) (d : Nat) (opt : Opt) (c : Ctx)
    (h : parseCtx T txt d opt = .ok c) : BInv c := by
  unfold parseCtx at h
  rw [Res.bind_eq_ok] at h
  obtain ⟨c0, h0, h⟩ := h
  try dsimp only at h
  rw [Res.bind_eq_ok] at h
  obtain ⟨c1, h1, h⟩ := h
  have hb1 := binv_runTokens _ (binv_token T txt d) _ _ _ _ (binv_init txt opt c0 h0) h1
  unfold finish at h
  rw [Res.bind_eq_ok] at h
  obtain ⟨has, _, h⟩ := h
  split at h
  · simp at h
  · split at h
    · simp at h
    · res_norm at h; subst h; exact hb1.congr rfl rfl rfl

theorem parse_linkWF (T : Tables) (txt : Bytes) (opt : Opt) (d : Doc)
    (h : parse T txt opt = .ok d) : LinkWF d.nodes := by
  unfold parse at h
  rw [Res.bind_eq_ok] at h
  obtain ⟨c, hc, h⟩ := h
  res_norm at h
  subst h
  exact (parseCtx_binv T txt _ opt c hc).wf

end Rox.Lemmas
