/-
  Rox.Lemmas.SingleRoot — C02: the root node of a parsed document has exactly one Element child
  and no Text child.
-/
import Rox.Lemmas.BInv4
import Rox.Lemmas.Proto
import Rox.Lemmas.Emits
import Rox.Lemmas.TreeApi
import Rox.Lemmas.SafeParse

namespace Rox.Lemmas
open Rox Rox.Spec

/-! ### Arena level: the children of node 0 -/

/-- the children of node 0, in document order -/
def rootKids (a : Arena) : List Nat := (List.range a.size).filter fun j => par a j == some 0

/-- number of Element children of node 0 -/
def elemCount (a : Arena) : Nat :=
  ((rootKids a).filter fun j => kindIs a j Kind.isElement).length

/-- node 0 has no Text child -/
def noTextKid (a : Arena) : Bool := (rootKids a).all fun j => !(kindIs a j Kind.isText)

theorem singleRootB_eq (a : Arena) : singleRootB a = (elemCount a == 1 && noTextKid a) := rfl

/-- the same description of the root's children -/
def RKsame (a a' : Arena) : Prop := elemCount a' = elemCount a ∧ noTextKid a' = noTextKid a

theorem RKsame.refl (a : Arena) : RKsame a a := ⟨rfl, rfl⟩
theorem RKsame.trans {a b c : Arena} (h1 : RKsame a b) (h2 : RKsame b c) : RKsame a c :=
  ⟨h2.1.trans h1.1, h2.2.trans h1.2⟩

/-- parent links are kept -/
def ParMono (a a' : Arena) : Prop := ∀ i p, par a i = some p → par a' i = some p

theorem ParMono.refl (a : Arena) : ParMono a a := fun _ _ h => h
theorem ParMono.trans {a b c : Arena} (h1 : ParMono a b) (h2 : ParMono b c) : ParMono a c :=
  fun i p h => h2 i p (h1 i p h)

/-- `pid` is `n` parent steps below node 0, and no node on the way (but the last) is node 0 -/
def DepthIs (a : Arena) : Nat → Nat → Prop
  | 0, pid => pid = 0
  | n+1, pid => pid ≠ 0 ∧ ∃ p, par a pid = some p ∧ DepthIs a n p

theorem DepthIs.mono {a a' : Arena} (hm : ParMono a a') : ∀ (n pid : Nat), DepthIs a n pid →
    DepthIs a' n pid := by
  intro n
  induction n with
  | zero => intro pid h; exact h
  | succ n ih =>
    intro pid h
    obtain ⟨h0, p, hp, hd⟩ := h
    exact ⟨h0, p, hm _ _ hp, ih p hd⟩

/-- Two arenas with the same parent links and the same Element / Text nodes. -/
structure SameRK (a a' : Arena) : Prop where
  size : a'.size = a.size
  par : ∀ i, par a' i = par a i
  kelem : ∀ i, kindIs a' i Kind.isElement = kindIs a i Kind.isElement
  ktext : ∀ i, kindIs a' i Kind.isText = kindIs a i Kind.isText

theorem SameRK.rootKids {a a' : Arena} (s : SameRK a a') : rootKids a' = rootKids a := by
  unfold Rox.Lemmas.rootKids
  rw [s.size]
  apply List.filter_congr
  intro j _
  rw [s.par]

theorem SameRK.rksame {a a' : Arena} (s : SameRK a a') : RKsame a a' := by
  refine ⟨?_, ?_⟩
  · unfold elemCount
    rw [s.rootKids]
    congr 1
    apply List.filter_congr
    intro j _
    rw [s.kelem]
  · unfold noTextKid
    rw [s.rootKids]
    congr 1
    funext j
    rw [s.ktext]

theorem SameRK.parMono {a a' : Arena} (s : SameRK a a') : ParMono a a' := by
  intro i p h; rw [s.par]; exact h

theorem sameRK_set (a : Arena) (i : Nat) (m m' : NodeData) (hm : a[i]? = some m)
    (hp : m'.parent = m.parent) (he : m'.kind.isElement = m.kind.isElement)
    (hk : m'.kind.isText = m.kind.isText) :
    SameRK a (a.setIfInBounds i m') := by
  have hi : i < a.size := (Array.getElem?_eq_some_iff.mp hm).1
  have key : ∀ j, (a.setIfInBounds i m')[j]? = if i = j then some m' else a[j]? := by
    intro j; rw [Array.getElem?_setIfInBounds]; split <;> simp_all
  refine ⟨by simp, ?_, ?_, ?_⟩ <;> intro j <;>
    simp only [Spec.par, Spec.kindIs, key j] <;>
    (by_cases hij : i = j
     · subst hij; simp [hm, hp, he, hk]
     · simp [hij])

theorem rootKids_lt (b : Arena) : ∀ j ∈ rootKids b, j < b.size := by
  intro j hj
  unfold rootKids at hj
  have := (List.mem_filter.mp hj).1
  exact List.mem_range.mp this

theorem all_congr_mem {α} (l : List α) (p q : α → Bool) (h : ∀ x ∈ l, p x = q x) :
    l.all p = l.all q := by
  induction l with
  | nil => rfl
  | cons x xs ih =>
    simp only [List.all_cons]
    rw [h x (by simp), ih (fun y hy => h y (by simp [hy]))]

section ext
variable {a a' : Arena} {pid : Nat} {aw : List Nat} {k : Kind} (e : Ext a a' pid aw k)
include e

theorem Ext.parMono : ParMono a a' := by
  intro i p h
  have hi : i < a.size := by
    by_cases hi : i < a.size
    · exact hi
    · have : a[i]? = none := by rw [Array.getElem?_eq_none]; omega
      simp [Spec.par, this] at h
  rw [e.par_old i hi]; exact h

theorem Ext.rootKids : rootKids a' = rootKids a ++ (if pid = 0 then [a.size] else []) := by
  unfold Rox.Lemmas.rootKids
  rw [e.size, List.range_succ, List.filter_append]
  congr 1
  · apply List.filter_congr
    intro j hj
    rw [List.mem_range] at hj
    rw [e.par_old j hj]
  · simp only [List.filter_cons, List.filter_nil, e.par_new]
    by_cases hp : pid = 0 <;> simp [hp]

theorem Ext.elemCount :
    elemCount a' = elemCount a + (if pid = 0 then (if k.isElement then 1 else 0) else 0) := by
  unfold Rox.Lemmas.elemCount
  rw [e.rootKids, List.filter_append, List.length_append]
  congr 1
  · congr 1
    apply List.filter_congr
    intro j hj
    rw [e.kind_old j (rootKids_lt a j hj)]
  · by_cases hp : pid = 0
    · simp only [hp, if_true, List.filter_cons, List.filter_nil, e.kind_new]
      cases k.isElement <;> simp
    · simp [hp]

theorem Ext.noTextKid :
    noTextKid a' = (noTextKid a && !(decide (pid = 0) && k.isText)) := by
  unfold Rox.Lemmas.noTextKid
  rw [e.rootKids, List.all_append]
  congr 1
  · apply all_congr_mem
    intro j hj
    rw [e.kind_old j (rootKids_lt a j hj)]
  · by_cases hp : pid = 0
    · simp [hp, e.kind_new]
    · simp [hp]

theorem Ext.rksame_ne (hp : pid ≠ 0) : RKsame a a' := by
  refine ⟨?_, ?_⟩
  · rw [e.elemCount]; simp [hp]
  · rw [e.noTextKid]; simp [hp]

theorem Ext.rksame_leaf (he : k.isElement = false) (ht : k.isText = false) : RKsame a a' := by
  refine ⟨?_, ?_⟩
  · rw [e.elemCount]; simp [he]
  · rw [e.noTextKid]; simp [ht]

theorem Ext.elemCount_le : Rox.Lemmas.elemCount a' ≤ Rox.Lemmas.elemCount a + 1 := by
  rw [e.elemCount]; split
  · split <;> omega
  · omega

theorem Ext.elemCount_eq (he : k.isElement = false) :
    Rox.Lemmas.elemCount a' = Rox.Lemmas.elemCount a := by
  rw [e.elemCount]; simp [he]

theorem Ext.noTextKid_eq (ht : k.isText = false) :
    Rox.Lemmas.noTextKid a' = Rox.Lemmas.noTextKid a := by
  rw [e.noTextKid]; simp [ht]

end ext

/-! ### Builder level: frames -/

/-- The current parent is as many parent steps below node 0 as there are open elements. -/
def DInv (c : Ctx) : Prop :=
  ∃ n, c.parentPrefixes.length = n + 1 ∧ DepthIs c.doc.nodes n c.parentId

theorem DInv.pid_ne {c : Ctx} (hd : DInv c) (h2 : 2 ≤ c.parentPrefixes.length) : c.parentId ≠ 0 := by
  obtain ⟨n, hn, hdep⟩ := hd
  cases n with
  | zero => omega
  | succ n => exact hdep.1

/-- the open-element stack, the entity floor, the current parent and all parent links are kept -/
structure KeepD (c c' : Ctx) : Prop where
  pp : c'.parentPrefixes = c.parentPrefixes
  floor : c'.entityFloor = c.entityFloor
  pid : c'.parentId = c.parentId
  mono : ParMono c.doc.nodes c'.doc.nodes

theorem KeepD.refl (c : Ctx) : KeepD c c := ⟨rfl, rfl, rfl, ParMono.refl _⟩

theorem KeepD.trans {a b c : Ctx} (h1 : KeepD a b) (h2 : KeepD b c) : KeepD a c :=
  ⟨h2.pp.trans h1.pp, h2.floor.trans h1.floor, h2.pid.trans h1.pid, h1.mono.trans h2.mono⟩

theorem KeepD.of_eq {c c' : Ctx} (hpp : c'.parentPrefixes = c.parentPrefixes)
    (hf : c'.entityFloor = c.entityFloor) (hp : c'.parentId = c.parentId)
    (hn : c'.doc.nodes = c.doc.nodes) : KeepD c c' :=
  ⟨hpp, hf, hp, by rw [hn]; exact ParMono.refl _⟩

theorem KeepD.dinv {c c' : Ctx} (k : KeepD c c') (hd : DInv c) : DInv c' := by
  obtain ⟨n, hn, hdep⟩ := hd
  refine ⟨n, by rw [k.pp]; exact hn, ?_⟩
  rw [k.pid]
  exact hdep.mono k.mono _ _

theorem KeepD.len {c c' : Ctx} (k : KeepD c c') :
    c'.parentPrefixes.length = c.parentPrefixes.length := by rw [k.pp]

theorem mergeText_keep {c c' : Ctx} (h : c.mergeText = .ok c') :
    KeepD c c' ∧ RKsame c.doc.nodes c'.doc.nodes := by
  unfold Ctx.mergeText at h
  dsimp only at h
  split at h
  · simp at h
  · split at h
    · simp at h
    · rename_i n hn
      split at h
      · rename_i s hk
        simp only [Res.ok.injEq] at h
        subst h
        have hs : SameRK c.doc.nodes (c.doc.nodes.setIfInBounds (c.doc.nodes.size - 1)
            { n with kind := .text (.owned (c.afterText.map (·.bytes)).flatten) }) := by
          refine sameRK_set _ _ n _ hn rfl ?_ ?_ <;> (rw [hk]; rfl)
        exact ⟨⟨rfl, rfl, rfl, hs.parMono⟩, hs.rksame⟩
      · simp at h

theorem resetAfterText_keep {c c' : Ctx} (h : c.resetAfterText = .ok c') :
    KeepD c c' ∧ RKsame c.doc.nodes c'.doc.nodes := by
  unfold Ctx.resetAfterText at h
  dsimp only at h
  split at h
  · simp only [Res.ok.injEq] at h; subst h; exact ⟨KeepD.refl _, RKsame.refl _⟩
  · split at h
    · rw [Res.bind_eq_ok] at h
      obtain ⟨c1, h1, h⟩ := h
      res_norm at h
      subst h
      obtain ⟨k1, r1⟩ := mergeText_keep h1
      exact ⟨⟨k1.pp, k1.floor, k1.pid, k1.mono⟩, r1⟩
    · res_norm at h; subst h; exact ⟨KeepD.of_eq rfl rfl rfl rfl, RKsame.refl _⟩

theorem appendNode_keep {c c' : Ctx} {k : Kind} {r : Range} {id : Nat} (hb : BInv c)
    (h : c.appendNode k r = .ok (c', id)) :
    KeepD c c' ∧ Ext c.doc.nodes c'.doc.nodes c.parentId c.awaiting k ∧ id = c.doc.nodes.size := by
  obtain ⟨e, hid, hp, _⟩ := ext_of_appendNode c c' k r id hb h
  obtain ⟨_, _, _, _, _, _, _, hpp, _, _, hfl, _⟩ :=
    appendNode_spec c c' k r id hb.pid_lt hb.awaiting_lt h
  exact ⟨⟨hpp, hfl, hp, e.parMono⟩, e, hid⟩

theorem appendText_keep {c c' : Ctx} {t : Str} {r : Range} (hb : BInv c)
    (h : c.appendText t r = .ok c') :
    KeepD c c' ∧ (c.parentId ≠ 0 → RKsame c.doc.nodes c'.doc.nodes) := by
  unfold Ctx.appendText at h
  dsimp only at h
  split at h
  · rw [Res.bind_eq_ok] at h
    obtain ⟨⟨c2, id⟩, h2, h1⟩ := h
    res_norm at h1
    subst h1
    have hb1 : BInv (c.log (Ev.textFragment t r)) := hb.congr rfl rfl rfl
    obtain ⟨k2, e, _⟩ := appendNode_keep hb1 h2
    exact ⟨⟨k2.pp, k2.floor, k2.pid, k2.mono⟩, fun hne => e.rksame_ne hne⟩
  · res_norm at h
    subst h
    exact ⟨KeepD.of_eq rfl rfl rfl rfl, fun _ => RKsame.refl _⟩

theorem flushBuffer_keep {c c' : Ctx} {b : TextBuffer} {r : Range} (hb : BInv c)
    (h : flushBuffer c b r = .ok c') :
    KeepD c c' ∧ (c.parentId ≠ 0 → RKsame c.doc.nodes c'.doc.nodes) := by
  unfold flushBuffer at h
  split at h
  · rw [Res.bind_eq_ok] at h
    obtain ⟨out, _, h⟩ := h
    exact appendText_keep hb h
  · res_norm at h; subst h; exact ⟨KeepD.refl _, fun _ => RKsame.refl _⟩

theorem processCdata_keep {c c' : Ctx} {t : Span} {r : Range} (hb : BInv c)
    (h : processCdata c t r = .ok c') :
    KeepD c c' ∧ (c.parentId ≠ 0 → RKsame c.doc.nodes c'.doc.nodes) := by
  unfold processCdata at h
  split at h <;> exact appendText_keep hb h

theorem resolveNamespaces_keep (c c' : Ctx) (r : Range) (h : resolveNamespaces c = .ok (c', r)) :
    KeepD c c' ∧ c'.doc.nodes = c.doc.nodes := by
  unfold resolveNamespaces at h
  rw [Res.bind_eq_ok] at h
  obtain ⟨p, _, h⟩ := h
  split at h
  · split at h
    · res_norm at h; rw [← h.1]; exact ⟨KeepD.refl _, rfl⟩
    · rw [Res.bind_eq_ok] at h
      obtain ⟨ns, _, h⟩ := h
      res_norm at h
      rw [← h.1]; exact ⟨KeepD.of_eq rfl rfl rfl rfl, rfl⟩
  · res_norm at h; rw [← h.1]; exact ⟨KeepD.refl _, rfl⟩

theorem resolveAttributes_keep (txt : Bytes) (c c' : Ctx) (nss r : Range)
    (h : resolveAttributes txt c nss = .ok (c', r)) : KeepD c c' ∧ c'.doc.nodes = c.doc.nodes := by
  unfold resolveAttributes at h
  split at h
  · res_norm at h; rw [← h.1]; exact ⟨KeepD.refl _, rfl⟩
  · split at h
    · simp at h
    · rw [Res.bind_eq_ok] at h
      obtain ⟨doc, hd, h⟩ := h
      res_norm at h
      have := resolveAttrsLoop_nodes _ _ _ _ _ _ _ hd
      rw [← h.1]
      exact ⟨KeepD.of_eq rfl rfl rfl this, this⟩

theorem normalizeAttribute_keep (T : Tables) (txt : Bytes) (c c' : Ctx) (v : Span) (s : Str)
    (h : normalizeAttribute T txt c v = .ok (c', s)) : KeepD c c' ∧ c'.doc.nodes = c.doc.nodes := by
  unfold normalizeAttribute at h
  split at h
  · rw [Res.bind_eq_ok] at h
    obtain ⟨⟨buf, ld, tr⟩, _, h⟩ := h
    rw [Res.bind_eq_ok] at h
    obtain ⟨out, _, h⟩ := h
    res_norm at h
    rw [← h.1]; exact ⟨KeepD.of_eq rfl rfl rfl rfl, rfl⟩
  · res_norm at h; rw [← h.1]; exact ⟨KeepD.refl _, rfl⟩

theorem processAttribute_keep (T : Tables) (txt : Bytes) (c c' : Ctx) (r : Range) (q e : Nat)
    (pfx loc v : Span) (h : processAttribute T txt c r q e pfx loc v = .ok c') :
    KeepD c c' ∧ c'.doc.nodes = c.doc.nodes := by
  unfold processAttribute at h
  rw [Res.bind_eq_ok] at h
  obtain ⟨⟨c1, value⟩, h1, h⟩ := h
  obtain ⟨s1, n1⟩ := normalizeAttribute_keep _ _ _ _ _ _ h1
  have fin : ∀ c2 : Ctx, c2.parentPrefixes = c1.parentPrefixes → c2.entityFloor = c1.entityFloor →
      c2.parentId = c1.parentId → c2.doc.nodes = c1.doc.nodes →
      KeepD c c2 ∧ c2.doc.nodes = c.doc.nodes :=
    fun c2 a b d e => ⟨s1.trans (KeepD.of_eq a b d e), e.trans n1⟩
  try dsimp only at h
  split at h
  · split at h
    · exact absurd h (errPos_ne_ok _ _ _ _)
    · split at h
      · exact absurd h (errPos_ne_ok _ _ _ _)
      · try dsimp only at h
        split at h
        · exact absurd h (errPos_ne_ok _ _ _ _)
        · split at h
          · exact absurd h (errPos_ne_ok _ _ _ _)
          · rw [Res.bind_eq_ok] at h
            obtain ⟨ex, _, h⟩ := h
            split at h
            · exact absurd h (errPos_ne_ok _ _ _ _)
            · split at h
              · rw [Res.bind_eq_ok] at h
                obtain ⟨ns, _, h⟩ := h
                res_norm at h; subst h
                exact fin _ rfl rfl rfl rfl
              · res_norm at h; subst h
                exact fin _ rfl rfl rfl rfl
  · split at h
    · split at h
      · exact absurd h (errPos_ne_ok _ _ _ _)
      · split at h
        · exact absurd h (errPos_ne_ok _ _ _ _)
        · rw [Res.bind_eq_ok] at h
          obtain ⟨ex, _, h⟩ := h
          split at h
          · exact absurd h (errPos_ne_ok _ _ _ _)
          · rw [Res.bind_eq_ok] at h
            obtain ⟨ns, _, h⟩ := h
            res_norm at h; subst h
            exact fin _ rfl rfl rfl rfl
    · res_norm at h; subst h
      exact fin _ rfl rfl rfl rfl

/-! ### Builder level: what one token does -/

/-- an Element node may have been added to the root's children; no Text node was -/
def ElemUp (c c' : Ctx) : Prop :=
  elemCount c'.doc.nodes ≤ elemCount c.doc.nodes + 1 ∧
    noTextKid c'.doc.nodes = noTextKid c.doc.nodes

def EndPost (e : EndKind) (c c' : Ctx) : Prop :=
  match e with
  | .open => c'.parentPrefixes.length = c.parentPrefixes.length + 1 ∧ ElemUp c c'
  | .empty => c'.parentPrefixes.length = c.parentPrefixes.length ∧ ElemUp c c'
  | .close _ _ => c.entityFloor < c.parentPrefixes.length ∧
      c'.parentPrefixes.length + 1 = c.parentPrefixes.length ∧ 2 ≤ c.parentPrefixes.length

def TokPost : Token → Ctx → Ctx → Prop
  | .elementEnd e _, c, c' => EndPost e c c'
  | .text _ _, c, c' => c'.parentPrefixes.length = c.parentPrefixes.length
  | .cdata _ _, c, c' => c'.parentPrefixes.length = c.parentPrefixes.length
  | _, c, c' => c'.parentPrefixes.length = c.parentPrefixes.length ∧
      RKsame c.doc.nodes c'.doc.nodes

/-- What a successful builder step guarantees. -/
def StepPost (t : Token) (c c' : Ctx) : Prop :=
  DInv c' ∧ c'.entityFloor = c.entityFloor ∧
  (2 ≤ c.parentPrefixes.length → RKsame c.doc.nodes c'.doc.nodes) ∧ TokPost t c c'

theorem EndPost.congr {e : EndKind} {c0 c c' : Ctx}
    (hl : c.parentPrefixes.length = c0.parentPrefixes.length)
    (hf : c.entityFloor = c0.entityFloor) (hr : RKsame c0.doc.nodes c.doc.nodes)
    (h : EndPost e c c') : EndPost e c0 c' := by
  cases e with
  | «open» =>
    obtain ⟨h1, h2, h3⟩ := h
    exact ⟨by rw [h1, hl], by rw [← hr.1]; exact h2, by rw [← hr.2]; exact h3⟩
  | empty =>
    obtain ⟨h1, h2, h3⟩ := h
    exact ⟨by rw [h1, hl], by rw [← hr.1]; exact h2, by rw [← hr.2]; exact h3⟩
  | close p l =>
    obtain ⟨h1, h2, h3⟩ := h
    exact ⟨by rw [← hl, ← hf]; exact h1, by rw [← hl]; exact h2, by rw [← hl]; exact h3⟩

theorem processElement_step {txt : Bytes} {c c' : Ctx} {e : EndKind} {r : Range} (hb : BInv c)
    (hd : DInv c) (h : processElement txt c e r = .ok c') :
    DInv c' ∧ c'.entityFloor = c.entityFloor ∧
      (2 ≤ c.parentPrefixes.length → RKsame c.doc.nodes c'.doc.nodes) ∧ EndPost e c c' := by
  unfold processElement at h
  split at h
  · split at h
    · exact absurd h (errPos_ne_ok _ _ _ _)
    · simp at h
  · rw [Res.bind_eq_ok] at h
    obtain ⟨⟨c1, nss⟩, h1, h⟩ := h
    try dsimp only at h
    rw [Res.bind_eq_ok] at h
    obtain ⟨⟨c2, attrs⟩, h2, h⟩ := h
    have t1 := resolveNamespaces_triEq _ _ _ h1
    have t2 := resolveAttributes_triEq _ _ _ _ _ h2
    have hb2 : BInv c2 := t2.binv ((t1.binv hb).congr rfl rfl rfl)
    obtain ⟨k1, n1⟩ := resolveNamespaces_keep _ _ _ h1
    obtain ⟨k2, n2⟩ := resolveAttributes_keep _ _ _ _ _ h2
    have k12 : KeepD c c2 :=
      ⟨k2.pp.trans k1.pp, k2.floor.trans k1.floor, k2.pid.trans k1.pid, k1.mono.trans k2.mono⟩
    have n12 : c2.doc.nodes = c.doc.nodes := n2.trans n1
    have hd2 : DInv c2 := k12.dinv hd
    try dsimp only at h
    split at h
    · -- empty element
      rw [Res.bind_eq_ok] at h
      obtain ⟨tagNs, _, h⟩ := h
      rw [Res.bind_eq_ok] at h
      obtain ⟨⟨c3, newId⟩, h3, h⟩ := h
      res_norm at h
      subst h
      obtain ⟨k3, ex, _⟩ := appendNode_keep hb2 h3
      have k13 := k12.trans k3
      refine ⟨?_, k13.floor, ?_, ?_, ?_, ?_⟩
      · exact (KeepD.dinv (c' := { c3 with awaiting := c3.awaiting ++ [newId] })
          (k13.trans (KeepD.of_eq rfl rfl rfl rfl)) hd)
      · intro h2'
        rw [← n12]
        exact ex.rksame_ne (hd2.pid_ne (by rw [k12.len]; exact h2'))
      · exact k13.len
      · rw [← n12]; exact ex.elemCount_le
      · rw [← n12]; exact ex.noTextKid_eq rfl
    · -- close tag
      split at h
      · exact absurd h (errPos_ne_ok _ _ _ _)
      · rename_i hfloor
        rw [Res.bind_eq_ok] at h
        obtain ⟨p, hp, h⟩ := h
        split at h
        · simp at h
        · rename_i parentPrefix restPrefixes hpp
          split at h
          · exact absurd h (errPos_ne_ok _ _ _ _)
          · split at h
            · rename_i id hid
              res_norm at h
              subst h
              have hpn : c2.doc.nodes[c2.parentId]? = some p := by
                unfold Ctx.nodeAt at hp
                split at hp <;> simp at hp
                subst hp; assumption
              let pnew : NodeData := if c2.positions = true then
                { p with range := (p.range.1, r.2) } else p
              have hpar : pnew.parent = p.parent := by simp only [pnew]; split <;> rfl
              have hsl : SameRK c2.doc.nodes (c2.setNode c2.parentId pnew).doc.nodes := by
                show SameRK c2.doc.nodes (c2.doc.nodes.setIfInBounds _ _)
                refine sameRK_set _ _ p _ hpn hpar ?_ ?_ <;> (simp only [pnew]; split <;> rfl)
              have hq : par c2.doc.nodes c2.parentId = some id := by
                simp only [Spec.par, hpn, Option.bind_some]
                rw [← hpar]; exact hid
              obtain ⟨n, hn, hdep⟩ := hd2
              have hlen2 : c2.parentPrefixes.length = restPrefixes.length + 1 := by
                rw [hpp]; rfl
              have hfl : c2.entityFloor < c2.parentPrefixes.length := by omega
              cases n with
              | zero =>
                exfalso
                have h0 : c2.parentId = 0 := hdep
                rw [h0] at hq
                rw [hb2.wf.root.1] at hq
                simp at hq
              | succ n =>
                obtain ⟨_, q, hq', hdq⟩ := hdep
                have hqid : q = id := by rw [hq] at hq'; simpa using hq'.symm
                subst hqid
                have hrk : RKsame c.doc.nodes (c2.setNode c2.parentId pnew).doc.nodes := by
                  rw [← n12]; exact hsl.rksame
                refine ⟨⟨n, ?_, ?_⟩, ?_, fun _ => hrk, ?_, ?_, ?_⟩
                · show restPrefixes.length = n + 1
                  omega
                · exact hdq.mono hsl.parMono _ _
                · exact k12.floor
                · rw [← k12.floor, ← k12.len]; exact hfl
                · show restPrefixes.length + 1 = _
                  rw [← k12.len]; omega
                · rw [← k12.len]; omega
            · exact absurd h (errPos_ne_ok _ _ _ _)
    · -- open element
      rw [Res.bind_eq_ok] at h
      obtain ⟨tagNs, _, h⟩ := h
      rw [Res.bind_eq_ok] at h
      obtain ⟨⟨c3, newId⟩, h3, h⟩ := h
      res_norm at h
      subst h
      obtain ⟨k3, ex, hid⟩ := appendNode_keep hb2 h3
      have k13 := k12.trans k3
      obtain ⟨n, hn, hdep⟩ := k13.dinv hd
      refine ⟨⟨n + 1, ?_, ?_, c2.parentId, ?_, ?_⟩, k13.floor, ?_, ?_, ?_, ?_⟩
      · show c3.parentPrefixes.length + 1 = n + 1 + 1
        omega
      · show newId ≠ 0
        have := hb2.pid_lt; omega
      · show par c3.doc.nodes newId = some c2.parentId
        rw [hid]; exact ex.par_new
      · rw [← k3.pid]; exact hdep
      · intro h2'
        rw [← n12]
        exact ex.rksame_ne (hd2.pid_ne (by rw [k12.len]; exact h2'))
      · show c3.parentPrefixes.length + 1 = _
        rw [k13.len]
      · rw [← n12]; exact ex.elemCount_le
      · rw [← n12]; exact ex.noTextKid_eq rfl

/-! ### Builder level: nested activations -/

theorem DInv.congr {c c' : Ctx} (hd : DInv c) (hpp : c'.parentPrefixes = c.parentPrefixes)
    (hn : c'.doc.nodes = c.doc.nodes) (hp : c'.parentId = c.parentId) : DInv c' := by
  unfold DInv; rw [hpp, hn, hp]; exact hd

/-- what is proved of a builder `step` -/
def StepSpec (step : Token → Ctx → Res Ctx) : Prop :=
  ∀ (t : Token) (c c' : Ctx), BInv c → DInv c → step t c = .ok c' → StepPost t c c'

theorem TokPost.floor_le {t : Token} {c c' : Ctx} (h : TokPost t c c')
    (hf : c.entityFloor ≤ c.parentPrefixes.length) : c.entityFloor ≤ c'.parentPrefixes.length := by
  cases t with
  | elementEnd e r =>
    cases e with
    | «open» => have := h.1; omega
    | empty => have := h.1; omega
    | close p l => obtain ⟨h1, h2, _⟩ := h; omega
  | text _ _ => have : c'.parentPrefixes.length = c.parentPrefixes.length := h; omega
  | cdata _ _ => have : c'.parentPrefixes.length = c.parentPrefixes.length := h; omega
  | pi _ _ _ => have := h.1; omega
  | comment _ _ => have := h.1; omega
  | entityDecl _ _ => have := h.1; omega
  | elementStart _ _ _ => have := h.1; omega
  | «attribute» _ _ _ _ _ _ => have := h.1; omega

/-- Inside the expansion of an entity (floor ≥ 2): the stack never goes below the floor, so the
current parent is never node 0 and the root's children are left alone. -/
theorem nested_feed (step : Token → Ctx → Res Ctx)
    (hB : ∀ t c c', BInv c → step t c = .ok c' → BInv c') (hS : StepSpec step) :
    ∀ (toks : List Token) (c c' : Ctx), BInv c → DInv c →
      c.entityFloor ≤ c.parentPrefixes.length → feed step toks c = .ok c' →
      DInv c' ∧ c'.entityFloor = c.entityFloor ∧ c.entityFloor ≤ c'.parentPrefixes.length ∧
        (2 ≤ c.entityFloor → RKsame c.doc.nodes c'.doc.nodes) := by
  intro toks
  induction toks with
  | nil =>
    intro c c' _ hd hf h
    simp [feed] at h
    subst h
    exact ⟨hd, rfl, hf, fun _ => RKsame.refl _⟩
  | cons t ts ih =>
    intro c c' hb hd hf h
    simp only [feed] at h
    split at h
    · rename_i c1 h1
      obtain ⟨hd1, hf1, hr1, hp1⟩ := hS t c c1 hb hd h1
      have hle1 := hp1.floor_le hf
      obtain ⟨hd', hf', hle', hr'⟩ := ih c1 c' (hB _ _ _ hb h1) hd1 (by rw [hf1]; exact hle1) h
      refine ⟨hd', hf'.trans hf1, by rw [← hf1]; exact hle', fun h2 => ?_⟩
      exact (hr1 (by omega)).trans (hr' (by rw [hf1]; exact h2))
    · simp at h
    · simp at h
    · simp at h

theorem runTokens_feed {α} (step : Token → Ctx → Res Ctx) (toks : List Token) (stop : Res α)
    (c c' : Ctx) (h : runTokens step toks stop c = .ok c') :
    (∃ s, stop = .ok s) ∧ feed step toks c = .ok c' := by
  unfold runTokens at h
  split at h
  · rename_i c1 h1
    split at h <;> simp at h
    subst h
    exact ⟨⟨_, rfl⟩, h1⟩
  · rename_i hne
    cases hf : feed step toks c <;> simp_all

section
variable (T : Tables) (txt : Bytes)

theorem step_processTextLoop (lower : Token → Ctx → Res Ctx)
    (hlowerB : ∀ t c c', BInv c → lower t c = .ok c' → BInv c') (hlower : StepSpec lower)
    (range : Range) :
    ∀ (fuel : Nat) (s : Stream) (buf buf' : TextBuffer) (c c' : Ctx), BInv c → DInv c →
      processTextLoop T txt lower range fuel s buf c = .ok (buf', c') →
      BInv c' ∧ DInv c' ∧ c'.entityFloor = c.entityFloor ∧
        c'.parentPrefixes.length = c.parentPrefixes.length ∧
        (2 ≤ c.parentPrefixes.length → RKsame c.doc.nodes c'.doc.nodes) := by
  intro fuel
  induction fuel with
  | zero => intro s buf buf' c c' _ _ h; simp [processTextLoop] at h
  | succ fuel ih =>
    intro s buf buf' c c' hb hd h
    simp only [processTextLoop] at h
    split at h
    · res_norm at h; rw [← h.2]; exact ⟨hb, hd, rfl, rfl, fun _ => RKsame.refl _⟩
    · rw [Res.bind_eq_ok] at h
      obtain ⟨⟨s1, chunk⟩, hpc, h⟩ := h
      try dsimp only at h
      split at h
      · exact ih _ _ _ _ _ hb hd h
      · try dsimp only at h
        split at h <;> exact ih _ _ _ _ _ hb hd h
      · rename_i frag
        rw [Res.bind_eq_ok] at h
        obtain ⟨c1, hfl, h⟩ := h
        have hb1 := binv_flushBuffer hb hfl
        obtain ⟨k1, r1⟩ := flushBuffer_keep hb hfl
        have hd1 := k1.dinv hd
        split at h
        · exact absurd h (errAt_ne_ok _ _ _ _)
        · try dsimp only at h
          split at h
          · exact absurd h (errAt_ne_ok _ _ _ _)
          · try dsimp only at h
            rw [Res.bind_eq_ok] at h
            obtain ⟨c2, hrun, h⟩ := h
            have hb2 : BInv c2 := by
              refine binv_runTokens lower hlowerB _ _ _ _ ?_ hrun
              exact hb1.congr rfl rfl rfl
            obtain ⟨_, hfeed⟩ := runTokens_feed _ _ _ _ _ hrun
            have hnf := fun hB hD hF => nested_feed lower hlowerB hlower _ _ _ hB hD hF hfeed
            obtain ⟨hd2, hf2, hle2, hr2⟩ := hnf (hb1.congr rfl rfl rfl) (hd1.congr rfl rfl rfl)
              (Nat.le_refl _)
            split at h
            · simp at h
            · rename_i hne
              have hlen2 : c2.parentPrefixes.length = c1.parentPrefixes.length := by
                have : c2.parentPrefixes.length = c2.entityFloor := by simpa using hne
                rw [this, hf2]; rfl
              have hih := fun hB hD => ih _ _ _ _ _ hB hD h
              obtain ⟨hb', hd', hf', hl', hr'⟩ := hih (hb2.congr rfl rfl rfl)
                (hd2.congr rfl rfl rfl)
              refine ⟨hb', hd', ?_, ?_, ?_⟩
              · rw [hf']; exact k1.floor
              · rw [hl']; show c2.parentPrefixes.length = _; rw [hlen2, k1.len]
              · intro h2
                have h21 : 2 ≤ c1.parentPrefixes.length := by rw [k1.len]; exact h2
                exact ((r1 (hd.pid_ne h2)).trans (hr2 h21)).trans
                  (hr' (by show 2 ≤ c2.parentPrefixes.length; rw [hlen2]; exact h21))

theorem step_processText (lower : Token → Ctx → Res Ctx)
    (hlowerB : ∀ t c c', BInv c → lower t c = .ok c' → BInv c') (hlower : StepSpec lower)
    (c c' : Ctx) (t : Span) (r : Range) (hb : BInv c) (hd : DInv c)
    (h : processText T txt lower c t r = .ok c') :
    DInv c' ∧ c'.entityFloor = c.entityFloor ∧
      c'.parentPrefixes.length = c.parentPrefixes.length ∧
      (2 ≤ c.parentPrefixes.length → RKsame c.doc.nodes c'.doc.nodes) := by
  unfold processText at h
  split at h
  · obtain ⟨k1, r1⟩ := appendText_keep hb h
    exact ⟨k1.dinv hd, k1.floor, k1.len, fun h2 => r1 (hd.pid_ne h2)⟩
  · try dsimp only at h
    rw [Res.bind_eq_ok] at h
    obtain ⟨⟨buf, c1⟩, h1, h⟩ := h
    obtain ⟨hb1, hd1, hf1, hl1, hr1⟩ :=
      step_processTextLoop T txt lower hlowerB hlower _ _ _ _ _ _ _ hb hd h1
    obtain ⟨k2, r2⟩ := flushBuffer_keep hb1 h
    refine ⟨k2.dinv hd1, k2.floor.trans hf1, k2.len.trans hl1, fun h2 => ?_⟩
    exact (hr1 h2).trans (r2 (hd1.pid_ne (by rw [hl1]; exact h2)))

end

section
variable (T : Tables) (txt : Bytes)

theorem leaf_post {c c1 c2 : Ctx} {k : Kind} {r : Range} {id : Nat} (hb : BInv c) (hd : DInv c)
    (he : k.isElement = false) (ht : k.isText = false)
    (h1 : c.resetAfterText = .ok c1) (h2 : c1.appendNode k r = .ok (c2, id)) :
    DInv c2 ∧ c2.entityFloor = c.entityFloor ∧
      c2.parentPrefixes.length = c.parentPrefixes.length ∧ RKsame c.doc.nodes c2.doc.nodes := by
  obtain ⟨k1, r1⟩ := resetAfterText_keep h1
  obtain ⟨k2, ex, _⟩ := appendNode_keep (binv_resetAfterText hb h1) h2
  have k12 := k1.trans k2
  exact ⟨k12.dinv hd, k12.floor, k12.len, r1.trans (ex.rksame_leaf he ht)⟩

theorem stepSpec_tokenStep (lower : Token → Ctx → Res Ctx)
    (hlowerB : ∀ t c c', BInv c → lower t c = .ok c' → BInv c') (hlower : StepSpec lower) :
    StepSpec (tokenStep T txt lower) := by
  intro t c c' hb hd h
  unfold tokenStep at h
  dsimp only at h
  have hb0 : BInv (c.log (.token t)) := hb.congr rfl rfl rfl
  have hd0 : DInv (c.log (.token t)) := hd.congr rfl rfl rfl
  split at h
  · -- pi
    rw [Res.bind_eq_ok] at h
    obtain ⟨c1, h1, h⟩ := h
    rw [Res.bind_eq_ok] at h
    obtain ⟨⟨c2, id⟩, h2, h⟩ := h
    res_norm at h; subst h
    obtain ⟨a1, a2, a3, a4⟩ := leaf_post hb0 hd0 rfl rfl h1 h2
    exact ⟨a1, a2, fun _ => a4, a3, a4⟩
  · -- comment
    rw [Res.bind_eq_ok] at h
    obtain ⟨c1, h1, h⟩ := h
    rw [Res.bind_eq_ok] at h
    obtain ⟨⟨c2, id⟩, h2, h⟩ := h
    res_norm at h; subst h
    obtain ⟨a1, a2, a3, a4⟩ := leaf_post hb0 hd0 rfl rfl h1 h2
    exact ⟨a1, a2, fun _ => a4, a3, a4⟩
  · -- entityDecl
    res_norm at h; subst h
    exact ⟨hd.congr rfl rfl rfl, rfl, fun _ => RKsame.refl _, rfl, RKsame.refl _⟩
  · -- elementStart
    rw [Res.bind_eq_ok] at h
    obtain ⟨c1, h1, h⟩ := h
    split at h
    · exact absurd h (errPos_ne_ok _ _ _ _)
    · res_norm at h; subst h
      obtain ⟨k1, r1⟩ := resetAfterText_keep h1
      exact ⟨(k1.dinv hd0).congr rfl rfl rfl, k1.floor, fun _ => r1, k1.len, r1⟩
  · -- attribute
    obtain ⟨k1, n1⟩ := processAttribute_keep _ _ _ _ _ _ _ _ _ _ h
    have r1 : RKsame c.doc.nodes c'.doc.nodes := by rw [n1]; exact RKsame.refl _
    exact ⟨k1.dinv hd0, k1.floor, fun _ => r1, k1.len, r1⟩
  · -- elementEnd
    rw [Res.bind_eq_ok] at h
    obtain ⟨c1, h1, h⟩ := h
    obtain ⟨k1, r1⟩ := resetAfterText_keep h1
    obtain ⟨a1, a2, a3, a4⟩ := processElement_step (binv_resetAfterText hb0 h1) (k1.dinv hd0) h
    refine ⟨a1, a2.trans k1.floor, fun h2 => ?_, ?_⟩
    · exact r1.trans (a3 (by rw [k1.len]; exact h2))
    · exact EndPost.congr (c0 := c) k1.len k1.floor r1 a4
  · -- text
    obtain ⟨a1, a2, a3, a4⟩ := step_processText T txt lower hlowerB hlower _ _ _ _ hb0 hd0 h
    exact ⟨a1, a2, a4, a3⟩
  · -- cdata
    obtain ⟨k1, r1⟩ := processCdata_keep hb0 h
    exact ⟨k1.dinv hd0, k1.floor, fun h2 => r1 (hd.pid_ne h2), k1.len⟩

theorem stepSpec_token : ∀ (d : Nat), StepSpec (token T txt d) := by
  intro d
  induction d with
  | zero => intro t c c' _ _ h; simp [token] at h
  | succ d ih => exact stepSpec_tokenStep T txt (token T txt d) (binv_token T txt d) ih

end

/-! ### The document grammar: nesting depth and "a top-level element has been seen" -/

abbrev DSt := Nat × Bool

/-- The depth automaton. `Text`/`Cdata`/close tags need an open element; a top-level element
(`ElementEnd(Open|Empty)` at depth 0) is accepted once. -/
def dStep : DSt → Token → Option DSt
  | (n, s), .elementEnd .open _ =>
    if n = 0 then (if s then none else some (1, true)) else some (n + 1, s)
  | (n, s), .elementEnd .empty _ =>
    if n = 0 then (if s then none else some (0, true)) else some (n, s)
  | (n, s), .elementEnd (.close _ _) _ => if n = 0 then none else some (n - 1, s)
  | (n, s), .text _ _ => if n = 0 then none else some (n, s)
  | (n, s), .cdata _ _ => if n = 0 then none else some (n, s)
  | st, _ => some st

def dRun : DSt → List Token → Option DSt
  | st, [] => some st
  | st, t :: ts =>
    match dStep st t with
    | some st' => dRun st' ts
    | none => none

theorem dRun_append (st : DSt) (l1 l2 : List Token) :
    dRun st (l1 ++ l2) = (dRun st l1).bind (fun s1 => dRun s1 l2) := by
  induction l1 generalizing st with
  | nil => simp [dRun]
  | cons t ts ih =>
    simp only [List.cons_append, dRun]
    cases dStep st t with
    | none => simp
    | some st' => exact ih st'

/-- The builder at the top level, relative to the automaton state. -/
def TopInv (st : DSt) (c : Ctx) : Prop :=
  c.parentPrefixes.length = st.1 + 1 ∧ elemCount c.doc.nodes ≤ 1 ∧
    (st.2 = false → elemCount c.doc.nodes = 0) ∧ noTextKid c.doc.nodes = true

theorem TopInv.of_same {n n' : Nat} {s : Bool} {c c' : Ctx} (h : TopInv (n, s) c)
    (hl : c'.parentPrefixes.length = n' + 1) (hr : RKsame c.doc.nodes c'.doc.nodes) :
    TopInv (n', s) c' := by
  obtain ⟨_, h2, h3, h4⟩ := h
  exact ⟨hl, by rw [hr.1]; exact h2, by rw [hr.1]; exact h3, by rw [hr.2]; exact h4⟩

theorem top_step {t : Token} {st st1 : DSt} {c c1 : Ctx} (hs : dStep st t = some st1)
    (ht : TopInv st c) (hp : StepPost t c c1) : TopInv st1 c1 := by
  obtain ⟨n, s⟩ := st
  obtain ⟨_, _, hr, hp⟩ := hp
  have hL : c.parentPrefixes.length = n + 1 := ht.1
  cases t with
  | elementEnd e r =>
    cases e with
    | «open» =>
      obtain ⟨hl1, hu1, hu2⟩ := hp
      by_cases hn : n = 0
      · subst hn
        cases s with
        | true => simp [dStep] at hs
        | false =>
          simp [dStep] at hs; subst hs
          obtain ⟨_, h2, h3, h4⟩ := ht
          have := h3 rfl
          exact ⟨by rw [hl1, hL], by omega, fun h => by simp at h, by rw [hu2]; exact h4⟩
      · simp [dStep, hn] at hs; subst hs
        exact ht.of_same (by rw [hl1, hL]) (hr (by omega))
    | empty =>
      obtain ⟨hl1, hu1, hu2⟩ := hp
      by_cases hn : n = 0
      · subst hn
        cases s with
        | true => simp [dStep] at hs
        | false =>
          simp [dStep] at hs; subst hs
          obtain ⟨_, h2, h3, h4⟩ := ht
          have := h3 rfl
          exact ⟨by rw [hl1, hL], by omega, fun h => by simp at h, by rw [hu2]; exact h4⟩
      · simp [dStep, hn] at hs; subst hs
        exact ht.of_same (by rw [hl1, hL]) (hr (by omega))
    | close p l =>
      obtain ⟨_, hl1, h2⟩ := hp
      by_cases hn : n = 0
      · simp [dStep, hn] at hs
      · simp [dStep, hn] at hs; subst hs
        exact ht.of_same (by omega) (hr h2)
  | text _ _ =>
    have hl1 : c1.parentPrefixes.length = c.parentPrefixes.length := hp
    by_cases hn : n = 0
    · simp [dStep, hn] at hs
    · simp [dStep, hn] at hs; subst hs
      exact ht.of_same (by omega) (hr (by omega))
  | cdata _ _ =>
    have hl1 : c1.parentPrefixes.length = c.parentPrefixes.length := hp
    by_cases hn : n = 0
    · simp [dStep, hn] at hs
    · simp [dStep, hn] at hs; subst hs
      exact ht.of_same (by omega) (hr (by omega))
  | pi _ _ _ =>
    simp [dStep] at hs; subst hs; exact ht.of_same (by rw [hp.1, hL]) hp.2
  | comment _ _ =>
    simp [dStep] at hs; subst hs; exact ht.of_same (by rw [hp.1, hL]) hp.2
  | entityDecl _ _ =>
    simp [dStep] at hs; subst hs; exact ht.of_same (by rw [hp.1, hL]) hp.2
  | elementStart _ _ _ =>
    simp [dStep] at hs; subst hs; exact ht.of_same (by rw [hp.1, hL]) hp.2
  | «attribute» _ _ _ _ _ _ =>
    simp [dStep] at hs; subst hs; exact ht.of_same (by rw [hp.1, hL]) hp.2

theorem top_feed (step : Token → Ctx → Res Ctx)
    (hB : ∀ t c c', BInv c → step t c = .ok c' → BInv c') (hS : StepSpec step) :
    ∀ (toks : List Token) (st ste : DSt) (c c' : Ctx), dRun st toks = some ste → BInv c →
      DInv c → TopInv st c → feed step toks c = .ok c' → TopInv ste c' := by
  intro toks
  induction toks with
  | nil =>
    intro st ste c c' hrun _ _ ht h
    simp only [dRun, Option.some.injEq] at hrun
    simp [feed] at h
    subst h; subst hrun; exact ht
  | cons t ts ih =>
    intro st ste c c' hrun hb hd ht h
    simp only [dRun] at hrun
    cases hps : dStep st t with
    | none => rw [hps] at hrun; simp at hrun
    | some st1 =>
      rw [hps] at hrun
      simp only at hrun
      simp only [feed] at h
      split at h
      · rename_i c1 h1
        have hp := hS t c c1 hb hd h1
        exact ih st1 ste c1 c' hrun (hB _ _ _ hb h1) hp.1 (top_step hps ht hp) h
      · simp at h
      · simp at h
      · simp at h

/-! ### The tokenizer obeys the document grammar -/

open Rox.TM in
/-- From state `st` the depth automaton accepts every token `m` delivers; if `m` succeeds with `a`
the final state satisfies `P a`. -/
def DF {α} (m : TM α) (st : DSt) (P : α → DSt → Prop) : Prop :=
  ∃ ste, dRun st m.1 = some ste ∧ (∀ a, m.2 = .ok a → P a ste)

section df
open Rox.TM

theorem df_pure {α} (a : α) (st : DSt) (P : α → DSt → Prop) (h : P a st) :
    DF (pure a : TM α) st P :=
  ⟨st, by simp [pure, pure', dRun], fun b hb => by
    simp [pure, pure'] at hb; subst hb; exact h⟩

theorem df_lift {α} (r : Res α) (st : DSt) (P : α → DSt → Prop) (h : ∀ a, r = .ok a → P a st) :
    DF (lift r) st P :=
  ⟨st, by simp [lift, dRun], fun a ha => h a (by simpa [lift] using ha)⟩

theorem df_emit (t : Token) (st st' : DSt) (P : Unit → DSt → Prop) (h : dStep st t = some st')
    (hP : P () st') : DF (emit t) st P :=
  ⟨st', by simp [emit, dRun, h], fun _ _ => hP⟩

theorem df_bind {α β} (m : TM α) (k : α → TM β) (st : DSt) (P : α → DSt → Prop)
    (Q : β → DSt → Prop) (hm : DF m st P) (hk : ∀ a st1, P a st1 → DF (k a) st1 Q) :
    DF (m >>= k) st Q := by
  obtain ⟨t1, r⟩ := m
  obtain ⟨ste, hrun, hq⟩ := hm
  cases r with
  | ok a =>
    obtain ⟨ste2, hrun2, hq2⟩ := hk a ste (hq a rfl)
    simp only [bind, bind']
    refine ⟨ste2, ?_, hq2⟩
    rw [dRun_append]
    simp only at hrun
    rw [hrun]
    exact hrun2
  | err e => simp only [bind, bind']; exact ⟨ste, hrun, fun a ha => by simp at ha⟩
  | panic s => simp only [bind, bind']; exact ⟨ste, hrun, fun a ha => by simp at ha⟩
  | fuel => simp only [bind, bind']; exact ⟨ste, hrun, fun a ha => by simp at ha⟩

theorem df_bind_lift {α β} (r : Res α) (k : α → TM β) (st : DSt) (Q : β → DSt → Prop)
    (hk : ∀ a, DF (k a) st Q) : DF (lift r >>= k) st Q :=
  df_bind _ _ _ (fun _ s => s = st) _ (df_lift _ _ _ (fun _ _ => rfl))
    (fun a st1 h => by subst h; exact hk a)

theorem df_mono {α} {m : TM α} {st : DSt} {P Q : α → DSt → Prop} (h : DF m st P)
    (hPQ : ∀ a s, P a s → Q a s) : DF m st Q := by
  obtain ⟨ste, h1, h2⟩ := h
  exact ⟨ste, h1, fun a ha => hPQ a ste (h2 a ha)⟩

theorem dRun_neutral (st : DSt) (K : Token → Prop) (hK : ∀ t, K t → dStep st t = some st) :
    ∀ (l : List Token), (∀ t ∈ l, K t) → dRun st l = some st := by
  intro l
  induction l with
  | nil => intro _; rfl
  | cons t ts ih =>
    intro h
    simp only [dRun, hK t (h t (by simp))]
    exact ih (fun t' ht' => h t' (by simp [ht']))

/-- A computation all of whose tokens leave the state `st` alone. -/
theorem df_neutral {α} (m : TM α) (st : DSt) (K : Token → Prop)
    (hK : ∀ t, K t → dStep st t = some st) (hm : Emits m K) : DF m st (fun _ s => s = st) :=
  ⟨st, dRun_neutral st K hK m.1 hm, fun _ _ => rfl⟩

theorem dStep_misc (st : DSt) (t : Token) (h : t.isMisc = true ∨ t.isEntityDecl = true) :
    dStep st t = some st := by
  obtain ⟨n, s⟩ := st
  cases t <;> simp [Token.isMisc, Token.isEntityDecl] at h <;> simp [dStep]

variable (T : Tables) (txt : Bytes)

theorem parseComment_df (s : Stream) (st : DSt) :
    DF (parseComment T txt s) st (fun _ s' => s' = st) :=
  df_neutral _ st (fun t => t.isMisc = true) (fun t h => dStep_misc st t (Or.inl h))
    (parseComment_emits T txt _ (fun _ _ => rfl) s)

theorem parsePi_df (s : Stream) (st : DSt) :
    DF (parsePi T txt s) st (fun _ s' => s' = st) :=
  df_neutral _ st (fun t => t.isMisc = true) (fun t h => dStep_misc st t (Or.inl h))
    (parsePi_emits T txt _ (fun _ _ _ => rfl) s)

theorem parseMisc_df (fuel : Nat) (s : Stream) (st : DSt) :
    DF (parseMisc T txt fuel s) st (fun _ s' => s' = st) :=
  df_neutral _ st (fun t => t.isMisc = true) (fun t h => dStep_misc st t (Or.inl h))
    (parseMisc_emits T txt _ (fun _ _ => rfl) (fun _ _ _ => rfl) fuel s)

theorem parseProlog_df (st : DSt) : DF (parseProlog T txt) st (fun _ s' => s' = st) :=
  df_neutral _ st (fun t => t.isMisc = true) (fun t h => dStep_misc st t (Or.inl h))
    (parseProlog_emits T txt)

theorem parseDoctype_df (s : Stream) (st : DSt) :
    DF (parseDoctype T txt s) st (fun _ s' => s' = st) :=
  df_neutral _ st _ (fun t h => dStep_misc st t h) (parseDoctype_kinds T txt s)

theorem parseText_df (s : Stream) (n : Nat) (sn : Bool) :
    DF (parseText T txt s) (n + 1, sn) (fun _ s' => s' = (n + 1, sn)) :=
  df_neutral _ _ (fun t => ∃ a b, t = .text a b)
    (fun t h => by obtain ⟨a, b, rfl⟩ := h; simp [dStep])
    (parseText_emits T txt _ (fun a b => ⟨a, b, rfl⟩) s)

theorem parseCdata_df (s : Stream) (n : Nat) (sn : Bool) :
    DF (parseCdata T txt s) (n + 1, sn) (fun _ s' => s' = (n + 1, sn)) :=
  df_neutral _ _ (fun t => ∃ a b, t = .cdata a b)
    (fun t h => by obtain ⟨a, b, rfl⟩ := h; simp [dStep])
    (parseCdata_emits T txt _ (fun a b => ⟨a, b, rfl⟩) s)

theorem parseCloseElement_df (s : Stream) (n : Nat) (sn : Bool) :
    DF (parseCloseElement T txt s) (n + 1, sn) (fun _ s' => s' = (n, sn)) := by
  unfold parseCloseElement
  apply df_bind_lift; intro s1
  apply df_bind_lift; rintro ⟨s2, pfx, loc⟩
  apply df_bind_lift; intro s3
  refine df_bind _ _ _ (fun _ s' => s' = (n, sn)) _ (df_emit _ _ (n, sn) _ (by simp [dStep]) rfl) ?_
  intro _ st1 h1
  subst h1
  exact df_pure _ _ _ rfl

/-- The attribute loop: `Attribute` tokens leave the state alone; the closing `ElementEnd` counts
the element if it is a top-level one. -/
theorem startTagLoop_df :
    ∀ (fuel : Nat) (s : Stream) (n : Nat) (sn : Bool), (n = 0 → sn = false) →
      DF (startTagLoop T txt fuel s) (n, sn)
        (fun p st => ∀ o, p.2 = some o → st.1 = if o then n + 1 else n) := by
  intro fuel
  induction fuel with
  | zero => intro s n sn _; unfold startTagLoop; exact df_lift _ _ _ (by simp)
  | succ f ih =>
    intro s n sn hsn
    unfold startTagLoop
    split
    · exact df_pure _ _ _ (by simp)
    · dsimp only
      apply df_bind_lift; intro c
      split
      · apply df_bind_lift; intro s1
        apply df_bind_lift; intro s2
        by_cases hn : n = 0
        · have := hsn hn; subst this; subst hn
          refine df_bind _ _ _ (fun _ s' => s' = (0, true)) _
            (df_emit _ _ (0, true) _ (by simp [dStep]) rfl) ?_
          intro _ st1 h1; subst h1
          exact df_pure _ _ _ (by simp)
        · refine df_bind _ _ _ (fun _ s' => s' = (n, sn)) _
            (df_emit _ _ (n, sn) _ (by simp [dStep, hn]) rfl) ?_
          intro _ st1 h1; subst h1
          exact df_pure _ _ _ (by simp)
      · split
        · apply df_bind_lift; intro s1
          by_cases hn : n = 0
          · have := hsn hn; subst this; subst hn
            refine df_bind _ _ _ (fun _ s' => s' = (1, true)) _
              (df_emit _ _ (1, true) _ (by simp [dStep]) rfl) ?_
            intro _ st1 h1; subst h1
            exact df_pure _ _ _ (by simp)
          · refine df_bind _ _ _ (fun _ s' => s' = (n + 1, sn)) _
              (df_emit _ _ (n + 1, sn) _ (by simp [dStep, hn]) rfl) ?_
            intro _ st1 h1; subst h1
            exact df_pure _ _ _ (by simp)
        · apply df_bind_lift; intro s1
          apply df_bind_lift; rintro ⟨s2, pfx, loc⟩
          apply df_bind_lift; intro s3
          apply df_bind_lift; rintro ⟨s4, quote⟩
          apply df_bind_lift; rintro ⟨s5, value⟩
          apply df_bind_lift; intro _
          apply df_bind_lift; intro s6
          refine df_bind _ _ _ (fun _ s' => s' = (n, sn)) _
            (df_emit _ _ (n, sn) _ (by simp [dStep]) rfl) ?_
          intro _ st1 h1; subst h1
          exact ih _ n sn hsn

theorem parseStartTag_df (s : Stream) (n : Nat) (sn : Bool) (hsn : n = 0 → sn = false) :
    DF (parseStartTag T txt s) (n, sn) (fun p st => st.1 = if p.2 then n + 1 else n) := by
  unfold parseStartTag
  apply df_bind_lift; intro s1
  apply df_bind_lift; rintro ⟨s2, pfx, loc⟩
  refine df_bind _ _ _ (fun _ s' => s' = (n, sn)) _ (df_emit _ _ (n, sn) _ (by simp [dStep]) rfl) ?_
  intro _ st1 h1; subst h1
  refine df_bind _ _ _ _ _ (startTagLoop_df T txt _ _ n sn hsn) ?_
  rintro ⟨s3, fin⟩ st1 h1
  dsimp only
  split
  · exact df_lift _ _ _ (by simp)
  · rename_i opened
    exact df_pure _ _ _ (h1 opened rfl)

/-- Element content, `depth` elements of this activation open, at automaton depth `n > depth`:
the depth never drops to 0 before `parse_content` returns. -/
theorem parseContent_df :
    ∀ (fuel depth : Nat) (s : Stream) (n : Nat) (sn : Bool), depth + 1 ≤ n →
      DF (parseContent T txt fuel depth s) (n, sn) (fun _ _ => True) := by
  intro fuel
  induction fuel with
  | zero => intro d s n sn _; unfold parseContent; exact df_lift _ _ _ (fun _ _ => trivial)
  | succ f ih =>
    intro d s n sn hn
    obtain ⟨m, rfl⟩ : ∃ m, n = m + 1 := ⟨n - 1, by omega⟩
    unfold parseContent
    split
    · exact df_pure _ _ _ trivial
    · split
      · split
        · split
          · split
            · refine df_bind _ _ _ _ _ (parseComment_df T txt _ _) ?_
              intro _ st1 h1; subst h1; exact ih _ _ _ _ hn
            · split
              · refine df_bind _ _ _ _ _ (parseCdata_df T txt _ _ _) ?_
                intro _ st1 h1; subst h1; exact ih _ _ _ _ hn
              · exact df_lift _ _ _ (fun _ _ => trivial)
          · split
            · refine df_bind _ _ _ _ _ (parsePi_df T txt _ _) ?_
              intro _ st1 h1; subst h1; exact ih _ _ _ _ hn
            · split
              · refine df_bind _ _ _ _ _ (parseCloseElement_df T txt _ _ _) ?_
                intro _ st1 h1; subst h1
                split
                · exact df_pure _ _ _ trivial
                · rename_i hd
                  have : d ≠ 0 := by simpa using hd
                  exact ih _ _ _ _ (by omega)
              · refine df_bind _ _ _ _ _ (parseStartTag_df T txt _ (m + 1) sn (by omega)) ?_
                rintro ⟨s1, opened⟩ ⟨n1, sn1⟩ h1
                simp only at h1
                subst h1
                refine ih _ _ _ _ ?_
                cases opened <;> simp <;> omega
        · exact df_lift _ _ _ (fun _ _ => trivial)
      · refine df_bind _ _ _ _ _ (parseText_df T txt _ _ _) ?_
        intro _ st1 h1; subst h1; exact ih _ _ _ _ hn

theorem parseElement_df (s : Stream) :
    DF (parseElement T txt s) (0, false) (fun _ _ => True) := by
  unfold parseElement
  refine df_bind _ _ _ _ _ (parseStartTag_df T txt _ 0 false (fun _ => rfl)) ?_
  rintro ⟨s1, opened⟩ ⟨n1, sn1⟩ h1
  dsimp only
  split
  · rename_i ho
    simp only at h1 ho
    subst ho
    simp only [if_true] at h1
    subst h1
    exact parseContent_df T txt _ _ _ _ _ (by omega)
  · exact df_pure _ _ _ trivial

theorem parseBody_df (s : Stream) : DF (parseBody T txt s) (0, false) (fun _ _ => True) := by
  unfold parseBody
  refine df_bind _ _ _ (fun _ _ => True) _ ?_ ?_
  · unfold parseRootElement
    split
    · exact parseElement_df T txt _
    · exact df_pure _ _ _ trivial
  intro s1 st1 _
  refine df_bind _ _ _ _ _ (parseMisc_df T txt _ _ st1) ?_
  intro s2 st2 _
  split
  · exact df_lift _ _ _ (fun _ _ => trivial)
  · exact df_pure _ _ _ trivial

/-- The token stream of a document is accepted by the depth automaton. -/
theorem parseDocument_df (allowDtd : Bool) :
    DF (parseDocument T txt allowDtd) (0, false) (fun _ _ => True) := by
  unfold parseDocument
  refine df_bind _ _ _ _ _ (parseProlog_df T txt _) ?_
  intro s1 st1 h1; subst h1
  split
  · split
    · exact df_lift _ _ _ (fun _ _ => trivial)
    · refine df_bind _ _ _ _ _ (parseDoctype_df T txt _ _) ?_
      intro s2 st2 h2; subst h2
      refine df_bind _ _ _ _ _ (parseMisc_df T txt _ _ _) ?_
      intro s3 st3 h3; subst h3
      exact parseBody_df T txt _
  · exact parseBody_df T txt _

end df

/-! ### The final check and the theorem -/

open Rox.Api in
/-- `children()` of the root (as `children_init`, without a bound on the arena size: the first
child of node 0 is node 1). -/
theorem children_init_root (d : Doc) (h : LinkWF d.nodes) :
    ∃ it, children d 0 = .ok it ∧ Reach d.nodes 0 it ∧
      absIt d.nodes 0 it = kidsIn d.nodes 0 0 (d.nodes.size - 1) := by
  have hi : 0 < d.nodes.size := h.nonempty
  have hn : d.nodes[0]? = some d.nodes[0] := by simp [hi]
  have hPL := h.parentLt
  have hbefore : ∀ k, k ≤ 0 → (par d.nodes k == some 0) = false := by
    intro k hk
    cases hp : par d.nodes k with
    | none => simp
    | some q => have := hPL k q hp; simp; omega
  cases hl : d.nodes[0].lastChild with
  | none =>
    refine ⟨⟨none, none⟩, ?_, Reach.done, ?_⟩
    · simp [children, firstChild, lastChild, getNodeUnwrap, hn, hl, follow]
    · have hlc : lastCh d.nodes 0 = none := by simp [Spec.lastCh, hi, hl]
      rw [h.last 0 hi] at hlc
      unfold lastChildSpec at hlc
      rw [find_rev_range_none] at hlc
      simp only [absIt]
      symm
      unfold kidsIn
      rw [List.filter_eq_nil_iff]
      intro k hk
      rw [List.mem_range'] at hk
      obtain ⟨m, hm, rfl⟩ := hk
      have := hlc (0 + 1 * m) (by omega)
      simpa using this
  | some l =>
    have hlc : lastCh d.nodes 0 = some l := by simp [Spec.lastCh, hi, hl]
    obtain ⟨hp1, h1l, hll, hpl, hafter⟩ := first_child_is_next h 0 l hi hlc
    refine ⟨⟨some (0 + 1), some l⟩, ?_, Reach.live (0 + 1) l hp1 hpl h1l hll, ?_⟩
    · have h3 : 0 + 1 < d.nodes.size := by omega
      have h3' : 1 < d.nodes.size := by omega
      simp [children, firstChild, lastChild, getNodeUnwrap, hn, hl, follow, nodeIdNew, h3', hll]
    · simp only [absIt]
      rw [kidsIn_skip d.nodes 0 0 (0 + 1) (d.nodes.size - 1) (by omega) (by omega)
            (fun k _ hk2 => hbefore k (by omega))]
      symm
      apply kidsIn_shrink d.nodes 0 (0 + 1) (d.nodes.size - 1) l (by omega)
      intro k hk1 hk2
      exact hafter k hk1 (by omega)

open Rox.Api in
theorem findElement_some (d : Doc) : ∀ (l : List Nat) (r : Nat), findElement d l = .ok (some r) →
    r ∈ l ∧ kindIs d.nodes r Kind.isElement = true := by
  intro l
  induction l with
  | nil => intro r h; simp [findElement] at h
  | cons j js ih =>
    intro r h
    simp only [findElement, isElement, kindOf, getNodeUnwrap] at h
    cases hj : d.nodes[j]? with
    | none => rw [hj] at h; simp at h
    | some nd =>
      rw [hj] at h
      simp only [Res.bind_ok, Res.pure_eq] at h
      split at h
      · rename_i he
        simp only [Res.ok.injEq, Option.some.injEq] at h
        subst h
        exact ⟨by simp, by simp [kindIs, hj, he]⟩
      · obtain ⟨h1, h2⟩ := ih r h
        exact ⟨by simp [h1], h2⟩

/-- `finish` only lets documents through whose root has an Element child. -/
theorem rootHasElement_true (d : Doc) (h : LinkWF d.nodes) (hr : rootHasElement d = .ok true) :
    1 ≤ elemCount d.nodes := by
  obtain ⟨it, hc, hre, habs⟩ := children_init_root d h
  have hsz : 0 < d.nodes.size := h.nonempty
  unfold rootHasElement at hr
  simp only [hc, Res.bind_ok] at hr
  have hlen : (absIt d.nodes 0 it).length < Api.fuelN d := by
    rw [habs]
    have := kidsIn_length d.nodes 0 0 (d.nodes.size - 1)
    unfold Api.fuelN; omega
  rw [childrenList_safe d h 0 _ it hre hlen] at hr
  simp only [Res.bind_ok] at hr
  rw [Res.bind_eq_ok] at hr
  obtain ⟨e, he, hr⟩ := hr
  simp only [pure, Res.ok.injEq] at hr
  cases e with
  | none => simp at hr
  | some r =>
    obtain ⟨hmem, hk⟩ := findElement_some d _ r he
    rw [habs] at hmem
    unfold kidsIn at hmem
    obtain ⟨hm1, hm2⟩ := List.mem_filter.mp hmem
    rw [List.mem_range'_1] at hm1
    have hrk : r ∈ rootKids d.nodes := by
      unfold rootKids
      exact List.mem_filter.mpr ⟨List.mem_range.mpr (by omega), hm2⟩
    unfold elemCount
    exact List.length_pos_of_mem (List.mem_filter.mpr ⟨hrk, hk⟩)

theorem parseCtx_singleRoot (T : Tables) (txt : Bytes) (d : Nat) (opt : Opt) (c : Ctx)
    (h : parseCtx T txt d opt = .ok c) : singleRootB c.doc.nodes = true := by
  unfold parseCtx at h
  rw [Res.bind_eq_ok] at h
  obtain ⟨c0, h0, h⟩ := h
  try dsimp only at h
  rw [Res.bind_eq_ok] at h
  obtain ⟨c1, h1, h⟩ := h
  have hb0 := binv_init txt opt c0 h0
  have hi0 : DInv c0 ∧ TopInv (0, false) c0 := by
    unfold initCtx at h0
    rw [Res.bind_eq_ok] at h0
    obtain ⟨ns, _, h0⟩ := h0
    res_norm at h0
    subst h0
    refine ⟨⟨0, rfl, rfl⟩, rfl, ?_, ?_, ?_⟩ <;>
      simp [elemCount, noTextKid, rootKids, Spec.par, rootNode, List.range_succ]
  obtain ⟨_, hfeed⟩ := runTokens_feed _ _ _ _ _ h1
  obtain ⟨ste, hrun, _⟩ := parseDocument_df T txt opt.allowDtd
  have ht1 : TopInv ste c1 :=
    top_feed _ (binv_token T txt d) (stepSpec_token T txt d) _ _ ste _ _ hrun hb0 hi0.1 hi0.2 hfeed
  have hb1 : BInv c1 := binv_runTokens _ (binv_token T txt d) _ _ _ _ hb0 h1
  unfold finish at h
  rw [Res.bind_eq_ok] at h
  obtain ⟨has, hhas, h⟩ := h
  split at h
  · simp at h
  · rename_i hh
    have : has = true := by simpa using hh
    subst this
    split at h
    · simp at h
    · res_norm at h; subst h
      have hge := rootHasElement_true c1.doc hb1.wf hhas
      obtain ⟨_, hle, _, hnt⟩ := ht1
      show singleRootB c1.doc.nodes = true
      rw [singleRootB_eq, hnt]
      have : elemCount c1.doc.nodes = 1 := by omega
      simp [this]

/-- **Single root element** (all inputs, all options): among the children of node 0 there is
exactly one Element and no Text. -/
theorem parse_singleRoot (T : Tables) (txt : Bytes) (opt : Opt) (d : Doc)
    (h : parse T txt opt = .ok d) : singleRootB d.nodes = true := by
  unfold parse at h
  rw [Res.bind_eq_ok] at h
  obtain ⟨c, hc, h⟩ := h
  res_norm at h
  subst h
  exact parseCtx_singleRoot T txt _ opt c hc

end Rox.Lemmas
