/-
  Rox.Lemmas.SingleRoot — C02: the root node of a parsed document has exactly one Element child
  and no Text child.
-/
import Rox.Lemmas.BInv4
import Rox.Lemmas.Proto
import Rox.Lemmas.TreeApi
import Rox.Lemmas.SafeParse

namespace Rox.Lemmas
open Rox Rox.Spec

/-- **Single root element** (all inputs, all options): among the children of node 0 there is
exactly one Element and no Text. -/
theorem parse_singleRoot (T : Tables) (txt : Bytes) (opt : Opt) (d : Doc)
    (h : parse T txt opt = .ok d) : singleRootB d.nodes = true := by
  sorry

end Rox.Lemmas
