/-
  Rox.Lemmas.RtTok6 — the tokenizer on a document with an entity reference inside a run of
  character data (`Rox.Spec.Canon.hoistT`): the DOCTYPE with the entity declaration, the run
  `t1&e;t2` as ONE text token, and the tokens of the entity's replacement text (one text token, or
  none when the replacement text is empty).
-/
import Rox.Spec.Canon6
import Rox.Lemmas.RtTok3

namespace Rox.Lemmas
open Rox Rox.Spec.Canon

/-! ### The expected tokens -/

/-- offset of the root element's `<` -/
def rootOffT (n v : Bytes) : Nat := (litDoctype ++ n ++ litEntOpen ++ v ++ litEntClose).length

/-- offset of the first byte of the run `t1&e;t2` -/
def runOff (n : Bytes) (as : List (Bytes × Bytes)) (pre : List XNode) (v : Bytes) : Nat :=
  rootOffT n v + 1 + n.length + attrsLen as + 1 + (renderAll pre).length

/-- The expected tokens of `hoistT`, every offset spelled out. -/
def hoistTToks (n : Bytes) (as : List (Bytes × Bytes)) (pre : List XNode) (t1 v t2 : Bytes)
    (post : List XNode) : List Token :=
  let r := rootOffT n v
  let p2 := r + 1 + n.length + attrsLen as            -- offset of `>` of the start tag
  let q := runOff n as pre v                           -- offset of the run
  let X := t1 ++ litRef ++ t2
  let p3 := q + X.length + (renderAll post).length    -- offset of `</`
  [Token.entityDecl ⟨litDoctype.length + n.length + 11, [101]⟩ ⟨valueOff n, v⟩] ++
  [Token.elementStart ⟨r + 1, []⟩ ⟨r + 1, n⟩ r] ++ attrToks (r + 1 + n.length) as ++
  [Token.elementEnd .open (p2, p2 + 1)] ++ toksAll (p2 + 1) pre ++
  [Token.text ⟨q, X⟩ (q, q + X.length)] ++ toksAll (q + X.length) post ++
  [Token.elementEnd (.close ⟨p3 + 2, []⟩ ⟨p3 + 2, n⟩) (p3, p3 + 3 + n.length)]

/-- the tokens of the entity's replacement text -/
def valueToks (off : Nat) (v : Bytes) : List Token :=
  if v.isEmpty then [] else [Token.text ⟨off, v⟩ (off, off + v.length)]

/-! ### The class conditions -/

theorem noAdj_mid : ∀ (a : List XNode) (k : XNode) (b : List XNode),
    noAdjText (a ++ [k] ++ b) = true → isText k = true →
    lastIsText a = false ∧ firstIsText b = false
  | [], k, b, h, hk => by
    refine ⟨rfl, ?_⟩
    cases b with
    | nil => rfl
    | cons k' r =>
      simp only [List.nil_append, List.cons_append, noAdjText, hk, Bool.true_and,
        Bool.and_eq_true, Bool.not_eq_true'] at h
      simpa [firstIsText] using h.1
  | [x], k, b, h, hk => by
    have h' : noAdjText (x :: k :: b) = true := by simpa using h
    have hx : isText x = false := by
      simp only [noAdjText, hk, Bool.and_true, Bool.and_eq_true, Bool.not_eq_true'] at h'
      exact h'.1
    refine ⟨by simpa [lastIsText] using hx, ?_⟩
    exact (noAdj_mid [] k b (by simpa using noAdj_tail h') hk).2
  | x :: y :: a, k, b, h, hk => by
    have h' : noAdjText (x :: (y :: a ++ [k] ++ b)) = true := by simpa using h
    have := noAdj_mid (y :: a) k b (noAdj_tail h') hk
    exact ⟨by simpa [lastIsText] using this.1, this.2⟩

theorem hoistTOk_parts {n : Bytes} {as : List (Bytes × Bytes)} {pre' post : List XNode}
    {t1 v t2 : Bytes} (hx : hoistTOk n as pre' t1 v t2 post = true) :
    nameOk n = true ∧ attrsOk as = true ∧
    (okAll pre' = true ∧ textOk (t1 ++ v ++ t2) = true ∧ okAll post = true) ∧
    (noAdjText pre' = true ∧ noAdjText post = true) ∧
    lastIsText pre' = false ∧ firstIsText post = false ∧ (∀ x ∈ v, x ≠ 39) := by
  simp only [hoistTOk, inlineT, ok, Bool.and_eq_true, Bool.not_eq_true'] at hx
  obtain ⟨⟨⟨⟨hn, has⟩, hadj⟩, hks⟩, hq⟩ := hx
  obtain ⟨hk1, hk3⟩ := okAll_append _ _ hks
  obtain ⟨hk1, hk2⟩ := okAll_append _ _ hk1
  obtain ⟨ha1, ha3⟩ := noAdj_append _ _ hadj
  obtain ⟨ha1, _⟩ := noAdj_append _ _ ha1
  obtain ⟨hl, hf⟩ := noAdj_mid pre' _ post hadj rfl
  refine ⟨hn, has, ⟨hk1, ?_, hk3⟩, ⟨ha1, ha3⟩, hl, hf, ?_⟩
  · simpa [okAll, ok] using hk2
  · intro x hx e
    subst e
    rw [← List.contains_iff_mem] at hx
    rw [hx] at hq
    exact Bool.noConfusion hq

/-- the bytes of the run `t1&e;t2`: plain, no `<`, no `>` -/
theorem run_bytes {t1 v t2 : Bytes} (ht : textOk (t1 ++ v ++ t2) = true) :
    ∀ x ∈ t1 ++ litRef ++ t2, isPlain x = true ∧ x ≠ 60 ∧ x ≠ 62 := by
  have hall := textOk_all ht
  intro x hx
  simp only [List.mem_append] at hx
  rcases hx with (hx | hx) | hx
  · have := hall x (by simp [hx]); exact ⟨this.1, this.2.1, this.2.2.2⟩
  · simp only [litRef, List.mem_cons, List.not_mem_nil, or_false] at hx
    rcases hx with rfl | rfl | rfl <;> exact ⟨by decide, by decide, by decide⟩
  · have := hall x (by simp [hx]); exact ⟨this.1, this.2.1, this.2.2.2⟩

/-! ### A run of plain characters (which may contain `&`) before markup is one text token -/

section
variable (T : Tables) (txt : Bytes)

theorem parseContent_plainrun (hC : TablesCanon T) (fuel d p : Nat) (X rest : Bytes)
    (hX : ∀ x ∈ X, isPlain x = true ∧ x ≠ 60 ∧ x ≠ 62) (hne : X ≠ []) :
    parseContent T txt (fuel + 1) d ⟨p, X ++ 60 :: rest⟩ =
      pre [.text ⟨p, X⟩ (p, p + X.length)]
        (parseContent T txt fuel d ⟨p + X.length, 60 :: rest⟩) := by
  have h2 := consumeChars_run T txt hC (fun _ c => c != 60) 60 rest (by decide)
    (by intro q; simp) X
    (by
      intro x hx
      obtain ⟨hp, hne, _⟩ := hX x hx
      refine ⟨hp, fun s => ?_⟩
      have : (x.toNat == 60) = false := by
        rw [beq_eq_false_iff_ne]; exact toNat_ne hne
      simp [bne, this]) p
  have h3 : X.contains bGt = false := by
    rw [Bool.eq_false_iff]
    intro h
    rw [List.contains_iff_mem] at h
    exact (hX _ h).2.2 rfl
  have ht : parseText T txt ⟨p, X ++ 60 :: rest⟩ =
      ret [.text ⟨p, X⟩ (p, p + X.length)] ⟨p + X.length, 60 :: rest⟩ := by
    unfold parseText
    simp only [h2, lift_ok_bind, h3, Bool.false_and, Bool.false_eq_true, if_false, emit_bind]
    rfl
  obtain ⟨b, r, hb, e⟩ : ∃ b r, (b == bLt) = false ∧ X ++ 60 :: rest = b :: r := by
    cases X with
    | nil => exact absurd rfl hne
    | cons b t' =>
      refine ⟨b, t' ++ 60 :: rest, ?_, rfl⟩
      rw [beq_eq_false_iff_ne]
      exact (hX b (by simp)).2.1
  have hstep : ∀ s : Stream, s.rest = b :: r →
      parseContent T txt (fuel + 1) d s =
        (parseText T txt s >>= fun s => parseContent T txt fuel d s) := by
    intro s hs
    simp only [parseContent, hs, hb, Bool.false_eq_true, if_false]
  rw [hstep _ e, ht, ok_bind]

end

/-! ### The root element with the run among its children -/

theorem parseElement_hoistT (T : Tables) (txt : Bytes) (hC : TablesCanon T) (n : Bytes)
    (as : List (Bytes × Bytes)) (pre' post : List XNode) (X : Bytes) (hn : nameOk n = true)
    (has : attrsOk as = true) (hpre : okAll pre' = true) (hpost : okAll post = true)
    (hapre : noAdjText pre' = true) (hapost : noAdjText post = true)
    (hl : lastIsText pre' = false) (hf : firstIsText post = false)
    (hX : ∀ x ∈ X, isPlain x = true ∧ x ≠ 60 ∧ x ≠ 62) (hne : X ≠ []) (p : Nat) :
    parseElement T txt ⟨p, 60 :: (n ++ (renderAttrs as ++ 62 :: (renderAll pre' ++ (X ++
        (renderAll post ++ 60 :: 47 :: (n ++ 62 :: []))))))⟩ =
      ret ([Token.elementStart ⟨p + 1, []⟩ ⟨p + 1, n⟩ p] ++ attrToks (p + 1 + n.length) as ++
        [Token.elementEnd .open (p + 1 + n.length + attrsLen as, p + 1 + n.length + attrsLen as + 1)] ++
        toksAll (p + 1 + n.length + attrsLen as + 1) pre' ++
        [Token.text ⟨p + 1 + n.length + attrsLen as + 1 + (renderAll pre').length, X⟩
          (p + 1 + n.length + attrsLen as + 1 + (renderAll pre').length,
           p + 1 + n.length + attrsLen as + 1 + (renderAll pre').length + X.length)] ++
        toksAll (p + 1 + n.length + attrsLen as + 1 + (renderAll pre').length + X.length) post ++
        [Token.elementEnd
          (.close ⟨p + 1 + n.length + attrsLen as + 1 + (renderAll pre').length + X.length + (renderAll post).length + 2, []⟩
            ⟨p + 1 + n.length + attrsLen as + 1 + (renderAll pre').length + X.length + (renderAll post).length + 2, n⟩)
          (p + 1 + n.length + attrsLen as + 1 + (renderAll pre').length + X.length + (renderAll post).length,
           p + 1 + n.length + attrsLen as + 1 + (renderAll pre').length + X.length + (renderAll post).length + 3 + n.length)])
        ⟨p + 1 + n.length + attrsLen as + 1 + (renderAll pre').length + X.length + (renderAll post).length + 3 + n.length, []⟩ := by
  have hXl : 1 ≤ X.length := by
    cases X with
    | nil => exact absurd rfl hne
    | cons _ _ => simp
  obtain ⟨F, hF⟩ : ∃ F, (renderAll pre' ++ (X ++
        (renderAll post ++ 60 :: 47 :: (n ++ 62 :: [])))).length + 1 =
      stepsAll pre' + ((stepsAll post + (F + 1)) + 1) := by
    have h1 := stepsAll_le pre' hpre
    have h2 := stepsAll_le post hpost
    refine ⟨(renderAll pre').length + (renderAll post).length + X.length + n.length + 2 -
      stepsAll pre' - stepsAll post, ?_⟩
    simp only [List.length_append, List.length_cons, List.length_nil]
    omega
  obtain ⟨r', e'⟩ := firstNotText_head hf (47 :: (n ++ 62 :: []))
  have href : ∀ (fuel q : Nat),
      parseContent T txt (fuel + 1) 0 ⟨q, X ++ (renderAll post ++ 60 :: 47 :: (n ++ 62 :: []))⟩ =
        pre [.text ⟨q, X⟩ (q, q + X.length)]
          (parseContent T txt fuel 0 ⟨q + X.length, renderAll post ++ 60 :: 47 :: (n ++ 62 :: [])⟩) := by
    intro fuel q
    rw [e']
    exact parseContent_plainrun T txt hC fuel 0 q X r' hX hne
  unfold parseElement
  simp only [parseStartTag_run T txt hC n as _ hn has p, ok_bind, if_true]
  rw [hF, pc_allG T txt hC pre' hpre hapre _ 0 _ _ (fun h => absurd h (by simp [hl])),
    href, pc_all T txt hC post hpost hapost (F + 1) 0 _ _ ⟨_, rfl⟩,
    parseContent_close0 T txt hC F _ n [] hn, pre_mk, pre_mk, pre_mk, pre_mk]
  simp only [List.append_assoc]

set_option linter.unusedVariables false in
/-- **Tokenizer, reference inside a run** (`allow_dtd = true`): exactly `hoistTToks`, and success. -/
theorem tokenize_hoistT (T : Tables) (hT : TablesOK T) (hC : TablesCanon T) (hC3 : TablesCanon3 T)
    (n : Bytes) (as : List (Bytes × Bytes)) (pre : List XNode) (t1 v t2 : Bytes) (post : List XNode)
    (hx : hoistTOk n as pre t1 v t2 post = true) :
    tokenize T (hoistT n as pre t1 v t2 post) true = (hoistTToks n as pre t1 v t2 post, .ok ()) := by
  obtain ⟨hn, has, ⟨hpre, htx, hpost⟩, ⟨hapre, hapost⟩, hl, hf, hq⟩ := hoistTOk_parts hx
  have hX := run_bytes htx
  have hXne : t1 ++ litRef ++ t2 ≠ [] := by simp [litRef]
  generalize hXdef : t1 ++ litRef ++ t2 = X at hX hXne
  -- the document, byte by byte
  have eD : hoistT n as pre t1 v t2 post =
      60 :: 33 :: 68 :: 79 :: 67 :: 84 :: 89 :: 80 :: 69 :: 32 :: (n ++ 32 :: 91 :: 60 :: 33 :: 69 ::
        78 :: 84 :: 73 :: 84 :: 89 :: 32 :: 101 :: 32 :: 39 :: (v ++ 39 :: 62 :: 93 :: 62 ::
        (60 :: (n ++ (renderAttrs as ++ 62 :: (renderAll pre ++ (X ++
          (renderAll post ++ 60 :: 47 :: (n ++ 62 :: []))))))))) := by
    rw [← hXdef]
    simp only [hoistT, litDoctype, litEntOpen, litEntClose, List.append_assoc,
      List.cons_append, List.nil_append]
  have hro : rootOffT n v = 0 + 10 + n.length + 14 + v.length + 4 := by
    simp only [rootOffT, litDoctype, litEntOpen, litEntClose, List.length_append,
      List.length_cons, List.length_nil]
  have hdt := fun txt => parseDoctype_run T txt hC hC3 n v
    (60 :: (n ++ (renderAttrs as ++ 62 :: (renderAll pre ++ (X ++
      (renderAll post ++ 60 :: 47 :: (n ++ 62 :: []))))))) hn hq 0
  have hel := fun txt => parseElement_hoistT T txt hC n as pre post X hn has hpre hpost hapre hapost
    hl hf hX hXne (rootOffT n v)
  obtain ⟨b, r, hb, eB⟩ := name_head hn (renderAttrs as ++ 62 :: (renderAll pre ++ (X ++
      (renderAll post ++ 60 :: 47 :: (n ++ 62 :: [])))))
  have hmisc2 := fun txt fuel => parseMisc_tag T txt hC fuel (rootOffT n v) b r hb
  rw [← hro] at hdt
  rw [eB] at hdt hel eD
  -- the expected tokens
  have htoks : hoistTToks n as pre t1 v t2 post =
      [Token.entityDecl ⟨0 + 10 + n.length + 11, [101]⟩ ⟨0 + 10 + n.length + 14, v⟩] ++
      ([Token.elementStart ⟨rootOffT n v + 1, []⟩ ⟨rootOffT n v + 1, n⟩ (rootOffT n v)] ++
        attrToks (rootOffT n v + 1 + n.length) as ++
        [Token.elementEnd .open (rootOffT n v + 1 + n.length + attrsLen as,
          rootOffT n v + 1 + n.length + attrsLen as + 1)] ++
        toksAll (rootOffT n v + 1 + n.length + attrsLen as + 1) pre ++
        [Token.text ⟨rootOffT n v + 1 + n.length + attrsLen as + 1 + (renderAll pre).length, X⟩
          (rootOffT n v + 1 + n.length + attrsLen as + 1 + (renderAll pre).length,
           rootOffT n v + 1 + n.length + attrsLen as + 1 + (renderAll pre).length + X.length)] ++
        toksAll (rootOffT n v + 1 + n.length + attrsLen as + 1 + (renderAll pre).length + X.length) post ++
        [Token.elementEnd
          (.close ⟨rootOffT n v + 1 + n.length + attrsLen as + 1 + (renderAll pre).length + X.length + (renderAll post).length + 2, []⟩
            ⟨rootOffT n v + 1 + n.length + attrsLen as + 1 + (renderAll pre).length + X.length + (renderAll post).length + 2, n⟩)
          (rootOffT n v + 1 + n.length + attrsLen as + 1 + (renderAll pre).length + X.length + (renderAll post).length,
           rootOffT n v + 1 + n.length + attrsLen as + 1 + (renderAll pre).length + X.length + (renderAll post).length + 3 + n.length)]) := by
    rw [← hXdef]
    simp only [hoistTToks, runOff, valueOff, litDoctype, litEntOpen, List.length_cons, List.length_nil,
      List.append_assoc, Nat.zero_add]
  rw [htoks]
  generalize hoistT n as pre t1 v t2 post = D at eD ⊢
  generalize rootOffT n v = q at hdt hel hmisc2 ⊢
  have hbom : Stream.startsWith ⟨0, D⟩ Lit.bom = false := by
    rw [eD]; simp [Stream.startsWith, Lit.bom, List.isPrefixOf]
  have hdecl : Stream.startsWithXmlDecl T ⟨0, D⟩ = false := by
    rw [eD]; simp [Stream.startsWithXmlDecl, Stream.startsWith, Lit.xmlDeclOpen, List.isPrefixOf]
  have hdoc : Stream.startsWith ⟨0, D⟩ Lit.doctype = true := by
    rw [eD]; simp [Stream.startsWith, Lit.doctype, List.isPrefixOf]
  have hsk : Stream.skipSpaces T ⟨0, D⟩ = ⟨0, D⟩ := by
    rw [eD]; exact skipSpaces_ns T 0 60 _ (hC.delims_not_space 60 (by simp))
  have hmisc : parseMisc T D (D.length + 1) ⟨0, D⟩ = ret [] ⟨0, D⟩ := by
    have h1 : Stream.startsWith ⟨0, D⟩ Lit.commentStart = false := by
      rw [eD]; simp [Stream.startsWith, Lit.commentStart, List.isPrefixOf]
    have h2 : Stream.startsWith ⟨0, D⟩ Lit.piStart = false := by
      rw [eD]; simp [Stream.startsWith, Lit.piStart, List.isPrefixOf]
    have h3 : Stream.atEnd ⟨0, D⟩ = false := by
      rw [eD]; rfl
    simp only [parseMisc, h3, Bool.false_eq_true, if_false, hsk, h1, h2]
    rfl
  have hprolog : parseProlog T D = ret [] ⟨0, D⟩ := by
    unfold parseProlog
    simp only [Stream.new, hbom, hdecl, Bool.false_eq_true, if_false, lift_ok_bind, hmisc, ok_bind,
      hsk, pre_nil]
    rfl
  have hdt' := hdt D
  rw [← eD] at hdt'
  have hbody := parseBody_of_element T D hC q b r _ _ (hel D)
  unfold tokenize parseDocument
  simp only [hprolog, ok_bind, hdoc, if_true, Bool.not_true, Bool.false_eq_true, if_false, hdt',
    List.length_cons, hmisc2, hbody, pre_mk]
  rfl

set_option linter.unusedVariables false in
/-- **Tokenizer, replacement text**: re-entering the tokenizer on the entity's value delivers one
text token (none when the value is empty) and stops at the end of the value. -/
theorem tokenizeContent_hoistT (T : Tables) (hT : TablesOK T) (hC : TablesCanon T) (hC3 : TablesCanon3 T)
    (n : Bytes) (as : List (Bytes × Bytes)) (pre : List XNode) (t1 v t2 : Bytes) (post : List XNode)
    (hx : hoistTOk n as pre t1 v t2 post = true) :
    tokenizeContent T (hoistT n as pre t1 v t2 post) (valueOff n) (valueOff n + v.length) =
      (valueToks (valueOff n) v, .ok ⟨valueOff n + v.length, []⟩) := by
  obtain ⟨_, _, ⟨_, htx, _⟩, _, _, _, _⟩ := hoistTOk_parts hx
  have hsl : sliceBytes (hoistT n as pre t1 v t2 post) (valueOff n) (valueOff n + v.length) = v := by
    have e : hoistT n as pre t1 v t2 post = (litDoctype ++ n ++ litEntOpen) ++ (v ++
        (litEntClose ++ ([60] ++ n ++ renderAttrs as ++ [62] ++ renderAll pre ++ t1 ++ litRef ++ t2 ++
          renderAll post ++ [60, 47] ++ n ++ [62]))) := by
      simp only [hoistT, List.append_assoc]
    have hlen : (litDoctype ++ n ++ litEntOpen).length = valueOff n := by
      simp only [valueOff, List.length_append]
    rw [e, sliceBytes, List.drop_left' hlen, Nat.add_sub_cancel_left, List.take_left' rfl]
  unfold tokenizeContent Stream.ofRange
  simp only [hsl]
  cases hv : v with
  | nil =>
    simp only [List.length_nil, Nat.zero_add, Nat.add_zero, valueToks, List.isEmpty_nil, if_true]
    rw [parseContent_nil]
    rfl
  | cons b v' =>
    have htv : textOk v = true := by
      have hall := textOk_all htx
      simp only [textOk, Bool.and_eq_true, List.all_eq_true, bne_iff_ne, ne_eq, Bool.not_eq_true']
      refine ⟨by rw [hv]; rfl, ?_⟩
      intro x hx
      have := hall x (by simp [hx])
      exact ⟨⟨⟨this.1, this.2.1⟩, this.2.2.1⟩, this.2.2.2⟩
    rw [← hv]
    have hF : v.length + 1 = (v.length - 1 + 1) + 1 := by rw [hv]; simp
    rw [hF, parseContent_text_end T _ hC _ 0 (valueOff n) v htv, parseContent_nil, pre_mk]
    simp only [valueToks, hv, List.isEmpty_cons, Bool.false_eq_true, if_false, List.append_nil]
    rfl

/-- the run `t1&e;t2` stands in the hoisted text at its computed offset -/
theorem hoistT_run_slice (n : Bytes) (as : List (Bytes × Bytes)) (pre : List XNode) (t1 v t2 : Bytes)
    (post : List XNode) :
    sliceBytes (hoistT n as pre t1 v t2 post) (runOff n as pre v)
      (runOff n as pre v + (t1 ++ litRef ++ t2).length) = t1 ++ litRef ++ t2 := by
  unfold sliceBytes hoistT runOff rootOffT
  have e : (litDoctype ++ n ++ litEntOpen ++ v ++ litEntClose ++ ([60] ++ n ++ renderAttrs as ++ [62] ++
      renderAll pre ++ t1 ++ litRef ++ t2 ++ renderAll post ++ [60, 47] ++ n ++ [62])) =
      (litDoctype ++ n ++ litEntOpen ++ v ++ litEntClose ++ [60] ++ n ++ renderAttrs as ++ [62] ++
        renderAll pre) ++ ((t1 ++ litRef ++ t2) ++ (renderAll post ++ [60, 47] ++ n ++ [62])) := by
    simp only [List.append_assoc]
  rw [e]
  have hl : (litDoctype ++ n ++ litEntOpen ++ v ++ litEntClose ++ [60] ++ n ++ renderAttrs as ++ [62] ++
      renderAll pre).length =
      (litDoctype ++ n ++ litEntOpen ++ v ++ litEntClose).length + 1 + n.length + attrsLen as + 1 +
        (renderAll pre).length := by
    simp only [List.length_append, List.length_cons, List.length_nil, renderAttrs_length]
  rw [← hl, List.drop_left, Nat.add_sub_cancel_left, List.take_left' rfl]

end Rox.Lemmas
