/-
  Rox.Lemmas.RtTok3 — the tokenizer on a document whose content is routed through an entity
  (`Rox.Spec.Canon.hoist`): the DOCTYPE with the entity declaration, the reference as a text token
  of its own, and the tokens of the entity's replacement text.
-/
import Rox.Spec.Canon3
import Rox.Lemmas.RtTok

namespace Rox.Lemmas
open Rox Rox.Spec.Canon

section
variable (T : Tables) (txt : Bytes)

/-! ### Cursor primitives: running to the end of the input; `skip_name` -/

theorem skipCharsAux_end (hC : TablesCanon T) (f : Stream → Nat → Bool) :
    ∀ (t : Bytes), (∀ x ∈ t, isPlain x = true ∧ ∀ s, f s x.toNat = true) →
      ∀ (fuel p : Nat) (acc : Bytes), t.length < fuel →
      Stream.skipCharsAux T txt f fuel ⟨p, t⟩ acc = .ok (⟨p + t.length, []⟩, acc.reverse ++ t) := by
  intro t
  induction t with
  | nil =>
    intro _ fuel p acc hf
    obtain ⟨fuel, rfl⟩ : ∃ f, fuel = f + 1 := ⟨fuel - 1, by simp at hf; omega⟩
    simp [Stream.skipCharsAux]
  | cons b t ih =>
    intro ht fuel p acc hf
    obtain ⟨fuel, rfl⟩ : ∃ f, fuel = f + 1 := ⟨fuel - 1, by simp at hf; omega⟩
    obtain ⟨hbp, hbf⟩ := ht b (by simp)
    simp only [Stream.skipCharsAux, decodeChar_ascii b _ (plain_lt128 hbp),
      hC.plain_xmlCharC b hbp, hbf, Bool.not_true, Bool.false_eq_true, if_false, if_true]
    have h1 : 1 ≤ (b :: t).length := by simp
    simp only [h1, if_true, List.drop_succ_cons, List.drop_zero, List.take_succ_cons,
      List.take_zero, List.reverse_cons, List.reverse_nil, List.nil_append, List.cons_append]
    rw [ih (fun x hx => ht x (by simp [hx])) fuel (p + 1) (b :: acc) (by simp at hf; omega)]
    simp
    omega

theorem consumeChars_end (hC : TablesCanon T) (f : Stream → Nat → Bool)
    (t : Bytes) (ht : ∀ x ∈ t, isPlain x = true ∧ ∀ s, f s x.toNat = true) (p : Nat) :
    Stream.consumeChars T txt ⟨p, t⟩ f = .ok (⟨p + t.length, []⟩, ⟨p, t⟩) := by
  unfold Stream.consumeChars
  dsimp only
  rw [skipCharsAux_end T txt hC f t ht _ p [] (by simp)]
  simp

/-- the loop of `skip_name` over lower-case letters, up to a space -/
theorem skipNameTail_lower (hX : TablesCanon3 T) (rest : Bytes) :
    ∀ (name : Bytes), (∀ x ∈ name, isLower x = true) → ∀ (fuel p : Nat) (acc : Bytes),
      name.length < fuel →
      Stream.skipNameTail T fuel ⟨p, name ++ 32 :: rest⟩ acc =
        .ok (⟨p + name.length, 32 :: rest⟩, acc.reverse ++ name) := by
  intro name
  induction name with
  | nil =>
    intro _ fuel p acc hf
    obtain ⟨fuel, rfl⟩ : ∃ f, fuel = f + 1 := ⟨fuel - 1, by simp at hf; omega⟩
    have h32 : (32 : UInt8).toNat = 32 := rfl
    simp [Stream.skipNameTail, decodeChar_ascii 32 rest (by decide), h32, hX.space_not_nameC]
  | cons b name ih =>
    intro hl fuel p acc hf
    obtain ⟨fuel, rfl⟩ : ∃ f, fuel = f + 1 := ⟨fuel - 1, by simp at hf; omega⟩
    have hb : isLower b = true := hl b (by simp)
    simp only [List.cons_append, Stream.skipNameTail, decodeChar_ascii b _ (lower_lt128 hb),
      hX.lower_nameC b hb, if_true]
    have h1 : 1 ≤ (b :: (name ++ 32 :: rest)).length := by simp
    simp only [h1, if_true, List.drop_succ_cons, List.drop_zero, List.take_succ_cons,
      List.take_zero, List.reverse_cons, List.reverse_nil, List.nil_append, List.cons_append]
    rw [ih (fun x hx => hl x (by simp [hx])) fuel (p + 1) (b :: acc) (by simp at hf; omega)]
    simp
    omega

theorem skipName_lower (hX : TablesCanon3 T) (rest : Bytes) (name : Bytes)
    (hn : nameOk name = true) (p : Nat) :
    Stream.skipName T txt ⟨p, name ++ 32 :: rest⟩ =
      .ok (⟨p + name.length, 32 :: rest⟩, ⟨p, name⟩) := by
  obtain ⟨b, n', rfl, hb, hl⟩ := nameOk_cons hn
  simp only [List.cons_append, Stream.skipName, decodeChar_ascii b _ (lower_lt128 hb),
    hX.lower_nameStartC b hb, if_true]
  have h1 : 1 ≤ (b :: (n' ++ 32 :: rest)).length := by simp
  simp only [h1, if_true, List.drop_succ_cons, List.drop_zero, List.take_succ_cons,
    List.take_zero, List.reverse_cons, List.reverse_nil, List.nil_append]
  rw [skipNameTail_lower T hX rest n' hl _ (p + 1) [b] (by simp; omega)]
  simp
  omega

theorem consumeName_lower (hX : TablesCanon3 T) (rest : Bytes) (name : Bytes)
    (hn : nameOk name = true) (p : Nat) :
    Stream.consumeName T txt ⟨p, name ++ 32 :: rest⟩ =
      .ok (⟨p + name.length, 32 :: rest⟩, ⟨p, name⟩) := by
  unfold Stream.consumeName
  rw [skipName_lower T txt hX rest name hn p]
  obtain ⟨b, n', rfl, _, _⟩ := nameOk_cons hn
  simp

end

/-! ### The content loop: a text running to the end of the input, the reference -/

section
variable (T : Tables) (txt : Bytes)

theorem parseText_end (hC : TablesCanon T) (t : Bytes) (ht : textOk t = true) (p : Nat) :
    parseText T txt ⟨p, t⟩ = ret [.text ⟨p, t⟩ (p, p + t.length)] ⟨p + t.length, []⟩ := by
  have hall := textOk_all ht
  have h2 := consumeChars_end T txt hC (fun _ c => c != 60) t
    (by
      intro x hx
      obtain ⟨hp, hne, _⟩ := hall x hx
      refine ⟨hp, fun s => ?_⟩
      have : (x.toNat == 60) = false := by
        rw [beq_eq_false_iff_ne]; exact toNat_ne hne
      simp [bne, this]) p
  have h3 : t.contains bGt = false := by
    rw [Bool.eq_false_iff]
    intro h
    rw [List.contains_iff_mem] at h
    exact (hall _ h).2.2.2 rfl
  unfold parseText
  simp only [h2, lift_ok_bind, h3, Bool.false_and, Bool.false_eq_true, if_false, emit_bind]
  rfl

theorem parseContent_text_end (hC : TablesCanon T) (fuel d p : Nat) (t : Bytes)
    (ht : textOk t = true) :
    parseContent T txt (fuel + 1) d ⟨p, t⟩ =
      pre [.text ⟨p, t⟩ (p, p + t.length)] (parseContent T txt fuel d ⟨p + t.length, []⟩) := by
  obtain ⟨b, r, hb, e⟩ : ∃ b r, (b == bLt) = false ∧ t = b :: r := by
    cases t with
    | nil => simp [textOk] at ht
    | cons b t' =>
      refine ⟨b, t', ?_, rfl⟩
      rw [beq_eq_false_iff_ne]
      exact (textOk_all ht b (by simp)).2.1
  have hstep : ∀ s : Stream, s.rest = b :: r →
      parseContent T txt (fuel + 1) d s =
        (parseText T txt s >>= fun s => parseContent T txt fuel d s) := by
    intro s hs
    simp only [parseContent, hs, hb, Bool.false_eq_true, if_false]
  rw [hstep _ e, parseText_end T txt hC t ht p, ok_bind]

theorem parseContent_nil (fuel d p : Nat) :
    parseContent T txt (fuel + 1) d ⟨p, []⟩ = ret [] ⟨p, []⟩ := by
  simp only [parseContent]
  rfl

/-- the reference `&e;` between markup is a text token of its own -/
theorem parseContent_ref (hC : TablesCanon T) (fuel d p : Nat) (rest : Bytes) :
    parseContent T txt (fuel + 1) d ⟨p, 38 :: 101 :: 59 :: 60 :: rest⟩ =
      pre [.text ⟨p, litRef⟩ (p, p + 3)] (parseContent T txt fuel d ⟨p + 3, 60 :: rest⟩) := by
  have h2 := consumeChars_run T txt hC (fun _ c => c != 60) 60 rest (by decide)
    (by intro q; simp) [38, 101, 59]
    (by
      intro x hx
      simp only [List.mem_cons, List.not_mem_nil, or_false] at hx
      rcases hx with rfl | rfl | rfl <;> exact ⟨by decide, fun _ => by decide⟩) p
  have ht : parseText T txt ⟨p, 38 :: 101 :: 59 :: 60 :: rest⟩ =
      ret [.text ⟨p, litRef⟩ (p, p + 3)] ⟨p + 3, 60 :: rest⟩ := by
    have h3 : ([38, 101, 59] : Bytes).contains bGt = false := by decide
    unfold parseText
    simp only [List.cons_append, List.nil_append] at h2
    simp only [h2, lift_ok_bind, h3, Bool.false_and, Bool.false_eq_true, if_false, emit_bind]
    rfl
  have hb : ((38 : UInt8) == bLt) = false := by decide
  have hstep : ∀ s : Stream, s.rest = 38 :: 101 :: 59 :: 60 :: rest →
      parseContent T txt (fuel + 1) d s =
        (parseText T txt s >>= fun s => parseContent T txt fuel d s) := by
    intro s hs
    simp only [parseContent, hs, hb, Bool.false_eq_true, if_false]
  rw [hstep _ rfl, ht, ok_bind]

end

/-! ### The content loop over a forest, general right context -/

/-- what may follow a text child: the end of the input or markup -/
def StopOk (rest : Bytes) : Prop := rest = [] ∨ ∃ r, rest = 60 :: r

theorem next_stop {k : XNode} {ks : List XNode} {rest : Bytes} (h : noAdjText (k :: ks) = true)
    (ht : isText k = true) (hr : lastIsText (k :: ks) = true → StopOk rest) :
    StopOk (renderAll ks ++ rest) := by
  cases ks with
  | nil =>
    have := hr (by simpa [lastIsText] using ht)
    simpa [renderAll] using this
  | cons k' r =>
    simp only [noAdjText, Bool.and_eq_true, ht, Bool.true_and, Bool.not_eq_true'] at h
    obtain ⟨r', e⟩ := render_head_lt h.1
    exact .inr ⟨r' ++ (renderAll r ++ rest),
      by simp only [renderAll, e, List.append_assoc, List.cons_append]⟩

section
variable (T : Tables) (txt : Bytes)

theorem pc_nodeG (hC : TablesCanon T) (k : XNode) (hk : ok k = true)
    (fuel d p : Nat) (rest : Bytes) (hr : isText k = true → StopOk rest) :
    parseContent T txt (steps k + fuel) d ⟨p, render k ++ rest⟩ =
      pre (toks p k) (parseContent T txt fuel d ⟨p + (render k).length, rest⟩) := by
  by_cases ht : isText k = true
  · rcases hr ht with rfl | h60
    · cases k with
      | text t =>
        simp only [ok] at hk
        have hs : steps (.text t) + fuel = fuel + 1 := by simp only [steps]; omega
        simp only [render, toks, List.append_nil]
        rw [hs, parseContent_text_end T txt hC fuel d p t hk]
      | elem n as ks => simp [isText] at ht
      | comment c => simp [isText] at ht
    · exact pc_node T txt hC k hk fuel d p rest (fun _ => h60)
  · exact pc_node T txt hC k hk fuel d p rest (fun h => absurd h ht)

theorem pc_allG (hC : TablesCanon T) : ∀ (ks : List XNode), okAll ks = true → noAdjText ks = true →
    ∀ (fuel d p : Nat) (rest : Bytes), (lastIsText ks = true → StopOk rest) →
    parseContent T txt (stepsAll ks + fuel) d ⟨p, renderAll ks ++ rest⟩ =
      pre (toksAll p ks) (parseContent T txt fuel d ⟨p + (renderAll ks).length, rest⟩)
  | [], _, _, fuel, d, p, rest, _ => by
    simp only [stepsAll, renderAll, toksAll, List.nil_append, List.length_nil, Nat.zero_add,
      Nat.add_zero, pre_nil]
  | k :: ks, h, hadj, fuel, d, p, rest, hr => by
    simp only [okAll, Bool.and_eq_true] at h
    have hs : stepsAll (k :: ks) + fuel = steps k + (stepsAll ks + fuel) := by
      simp only [stepsAll]; omega
    have hrr : renderAll (k :: ks) ++ rest = render k ++ (renderAll ks ++ rest) := by
      simp only [renderAll, List.append_assoc]
    have hr' : lastIsText ks = true → StopOk rest := by
      intro hl
      apply hr
      cases ks with
      | nil => simp [lastIsText] at hl
      | cons k' r => simpa [lastIsText] using hl
    rw [hs, hrr, pc_nodeG T txt hC k h.1 _ d p _ (fun ht => next_stop hadj ht hr),
      pc_allG hC ks h.2 (noAdj_tail hadj) fuel d _ rest hr', pre_pre]
    simp only [toksAll, renderAll, List.length_append, Nat.add_assoc]

end

/-! ### Splitting the class conditions over `pre ++ mid ++ post` -/

theorem okAll_append : ∀ (a b : List XNode), okAll (a ++ b) = true → okAll a = true ∧ okAll b = true
  | [], b, h => ⟨rfl, by simpa using h⟩
  | k :: a, b, h => by
    simp only [List.cons_append, okAll, Bool.and_eq_true] at h ⊢
    obtain ⟨h1, h2⟩ := okAll_append a b h.2
    exact ⟨⟨h.1, h1⟩, h2⟩

theorem noAdj_append : ∀ (a b : List XNode), noAdjText (a ++ b) = true →
    noAdjText a = true ∧ noAdjText b = true
  | [], b, h => ⟨rfl, by simpa using h⟩
  | [k], b, h => ⟨rfl, noAdj_tail (by simpa using h)⟩
  | k :: k' :: a, b, h => by
    simp only [List.cons_append, noAdjText, Bool.and_eq_true] at h
    obtain ⟨h1, h2⟩ := noAdj_append (k' :: a) b (by simpa using h.2)
    refine ⟨?_, h2⟩
    simp only [noAdjText, Bool.and_eq_true]
    exact ⟨h.1, h1⟩

/-! ### The DOCTYPE with one entity declaration -/

section
variable (T : Tables) (txt : Bytes)

theorem consumeSpaces_sp (hC : TablesCanon T) (p : Nat) (b : UInt8) (r : Bytes)
    (h : byteIsSpace T b = false) :
    Stream.consumeSpaces T txt ⟨p, 32 :: b :: r⟩ = .ok ⟨p + 1, b :: r⟩ := by
  simp only [Stream.consumeSpaces, hC.space_is_space, Bool.not_true, Bool.false_eq_true, if_false,
    skipSpaces_sp T hC p b r h]

theorem parseDoctypeStart_run (hC : TablesCanon T) (hC3 : TablesCanon3 T) (n R : Bytes)
    (hn : nameOk n = true) (p : Nat) :
    parseDoctypeStart T txt ⟨p, 60 :: 33 :: 68 :: 79 :: 67 :: 84 :: 89 :: 80 :: 69 :: 32 :: (n ++ 32 :: 91 :: R)⟩ =
      .ok ⟨p + 9 + 1 + n.length + 1, 91 :: R⟩ := by
  have h91 : byteIsSpace T 91 = false := hC3.brackets_not_space 91 (by simp)
  have h1 : Stream.advance ⟨p, 60 :: 33 :: 68 :: 79 :: 67 :: 84 :: 89 :: 80 :: 69 :: 32 :: (n ++ 32 :: 91 :: R)⟩ 9 =
      .ok ⟨p + 9, 32 :: (n ++ 32 :: 91 :: R)⟩ := by
    simp [Stream.advance]
  have h2 : Stream.consumeSpaces T txt ⟨p + 9, 32 :: (n ++ 32 :: 91 :: R)⟩ =
      .ok ⟨p + 9 + 1, n ++ 32 :: 91 :: R⟩ := by
    obtain ⟨b, r, hb, e⟩ := name_head hn (32 :: 91 :: R)
    rw [e]
    exact consumeSpaces_sp T txt hC _ b r (hC.lower_not_space b hb)
  have h3 := skipName_lower T txt hC3 (91 :: R) n hn (p + 9 + 1)
  have h4 := skipSpaces_sp T hC (p + 9 + 1 + n.length) 91 R h91
  have h5 : parseExternalId T txt ⟨p + 9 + 1 + n.length + 1, 91 :: R⟩ =
      .ok (⟨p + 9 + 1 + n.length + 1, 91 :: R⟩, false) := by
    have a : Stream.startsWith ⟨p + 9 + 1 + n.length + 1, 91 :: R⟩ Lit.system_ = false := by
      simp [Stream.startsWith, Lit.system_, List.isPrefixOf]
    have b : Stream.startsWith ⟨p + 9 + 1 + n.length + 1, 91 :: R⟩ Lit.public_ = false := by
      simp [Stream.startsWith, Lit.public_, List.isPrefixOf]
    simp only [parseExternalId, a, b, Bool.or_false, Bool.false_eq_true, if_false, Res.pure_eq]
  have h6 := skipSpaces_ns T (p + 9 + 1 + n.length + 1) 91 R h91
  have h7 : Stream.currByte ⟨p + 9 + 1 + n.length + 1, 91 :: R⟩ = .ok 91 := rfl
  have h8 : (((91 : UInt8) != bLBr) && ((91 : UInt8) != bGt)) = false := by decide
  simp only [parseDoctypeStart, h1, Res.bind_ok, h2, h3, h4, h5, h6, h7, h8, Bool.false_eq_true,
    if_false, Res.pure_eq]

theorem parseEntityDef_run (v R : Bytes) (hv : ∀ x ∈ v, x ≠ 39) (p : Nat) (isGe : Bool) :
    parseEntityDef T txt ⟨p, 39 :: (v ++ 39 :: R)⟩ isGe =
      .ok (⟨p + 1 + v.length + 1, R⟩, some ⟨p + 1, v⟩) := by
  have h1 : Stream.currByte ⟨p, 39 :: (v ++ 39 :: R)⟩ = .ok 39 := rfl
  have h2 : (((39 : UInt8) == bQuot) || ((39 : UInt8) == bApos)) = true := by decide
  have h3 : Stream.consumeQuote txt ⟨p, 39 :: (v ++ 39 :: R)⟩ = .ok (⟨p + 1, v ++ 39 :: R⟩, 39) := by
    simp [Stream.consumeQuote, bApos, bQuot]
  have h4 : Stream.consumeBytes ⟨p + 1, v ++ 39 :: R⟩ (fun c => c != 39) =
      (⟨p + 1 + v.length, 39 :: R⟩, ⟨p + 1, v⟩) := by
    unfold Stream.consumeBytes
    dsimp only
    rw [spanBytesAux_run (fun c => c != 39) 39 R (by decide) v
      (by intro x hx; simpa using hv x hx)]
    simp
  have h5 : Stream.consumeByte txt ⟨p + 1 + v.length, 39 :: R⟩ 39 = .ok ⟨p + 1 + v.length + 1, R⟩ := by
    simp [Stream.consumeByte]
  simp only [parseEntityDef, h1, Res.bind_ok, h2, if_true, h3, h4, h5, Res.pure_eq]

theorem parseEntityDecl_run (hC : TablesCanon T) (hC3 : TablesCanon3 T) (v R : Bytes)
    (hv : ∀ x ∈ v, x ≠ 39) (p : Nat) :
    parseEntityDecl T txt ⟨p, 60 :: 33 :: 69 :: 78 :: 84 :: 73 :: 84 :: 89 :: 32 :: 101 :: 32 :: 39 :: (v ++ 39 :: 62 :: R)⟩ =
      ret [.entityDecl ⟨p + 9, [101]⟩ ⟨p + 12, v⟩] ⟨p + 12 + v.length + 2, R⟩ := by
  have he : isLower 101 = true := by decide
  have h39 : byteIsSpace T 39 = false := hC3.brackets_not_space 39 (by simp)
  have h1 : Stream.advance ⟨p, 60 :: 33 :: 69 :: 78 :: 84 :: 73 :: 84 :: 89 :: 32 :: 101 :: 32 :: 39 :: (v ++ 39 :: 62 :: R)⟩ 8 =
      .ok ⟨p + 8, 32 :: 101 :: 32 :: 39 :: (v ++ 39 :: 62 :: R)⟩ := by
    simp [Stream.advance]
  have h2 := consumeSpaces_sp T txt hC (p + 8) 101 (32 :: 39 :: (v ++ 39 :: 62 :: R))
    (hC.lower_not_space 101 he)
  have h3 : Stream.tryConsumeByte ⟨p + 8 + 1, 101 :: 32 :: 39 :: (v ++ 39 :: 62 :: R)⟩ bPct =
      (⟨p + 8 + 1, 101 :: 32 :: 39 :: (v ++ 39 :: 62 :: R)⟩, false) := by
    simp [Stream.tryConsumeByte, bPct]
  have h4 := consumeName_lower T txt hC3 (39 :: (v ++ 39 :: 62 :: R)) [101] (by decide) (p + 8 + 1)
  simp only [List.cons_append, List.nil_append, List.length_cons, List.length_nil] at h4
  have h5 := consumeSpaces_sp T txt hC (p + 8 + 1 + (0 + 1)) 39 (v ++ 39 :: 62 :: R) h39
  have h6 := parseEntityDef_run T txt v (62 :: R) hv (p + 8 + 1 + (0 + 1) + 1) true
  have h7 := skipSpaces_ns T (p + 8 + 1 + (0 + 1) + 1 + 1 + v.length + 1) 62 R
    (hC.delims_not_space 62 (by simp))
  have h8 : Stream.consumeByte txt ⟨p + 8 + 1 + (0 + 1) + 1 + 1 + v.length + 1, 62 :: R⟩ bGt =
      .ok ⟨p + 8 + 1 + (0 + 1) + 1 + 1 + v.length + 1 + 1, R⟩ := by
    simp [Stream.consumeByte, bGt]
  unfold parseEntityDecl
  simp only [h1, lift_ok_bind, h2, h3, Bool.false_eq_true, if_false]
  unfold parseEntityDeclBody
  simp only [h4, lift_ok_bind, h5, h6, if_true, emit_bind, h7, h8]
  have e1 : p + 8 + 1 + (0 + 1) + 1 + 1 + v.length + 1 + 1 = p + 12 + v.length + 2 := by omega
  have e2 : p + 8 + 1 + (0 + 1) + 1 + 1 = p + 12 := by omega
  have e3 : p + 8 + 1 = p + 9 := by omega
  rw [e1, e2, e3]
  rfl

theorem doctypeLoop_close (hC : TablesCanon T) (hC3 : TablesCanon3 T) (start fuel p : Nat)
    (R : Bytes) :
    doctypeLoop T txt start (fuel + 1) ⟨p, 93 :: 62 :: R⟩ = ret [] ⟨p + 2, R⟩ := by
  have h93 : byteIsSpace T 93 = false := hC3.brackets_not_space 93 (by simp)
  have hsk := skipSpaces_ns T p 93 (62 :: R) h93
  have a1 : Stream.startsWith ⟨p, 93 :: 62 :: R⟩ Lit.entity_ = false := by
    simp [Stream.startsWith, Lit.entity_, List.isPrefixOf]
  have a2 : Stream.startsWith ⟨p, 93 :: 62 :: R⟩ Lit.commentStart = false := by
    simp [Stream.startsWith, Lit.commentStart, List.isPrefixOf]
  have a3 : Stream.startsWith ⟨p, 93 :: 62 :: R⟩ Lit.piStart = false := by
    simp [Stream.startsWith, Lit.piStart, List.isPrefixOf]
  have a4 : Stream.startsWith ⟨p, 93 :: 62 :: R⟩ Lit.rbr = true := by
    simp [Stream.startsWith, Lit.rbr, List.isPrefixOf]
  have h1 : Stream.advance ⟨p, 93 :: 62 :: R⟩ 1 = .ok ⟨p + 1, 62 :: R⟩ := by simp [Stream.advance]
  have h2 := skipSpaces_ns T (p + 1) 62 R (hC.delims_not_space 62 (by simp))
  have h3 : ((62 : UInt8) == bGt) = true := by decide
  simp only [doctypeLoop, Stream.atEnd, List.isEmpty_cons, Bool.false_eq_true, if_false, hsk, a1,
    a2, a3, a4, if_true, h1, lift_ok_bind, h2, h3]
  rfl

theorem doctypeLoop_run (hC : TablesCanon T) (hC3 : TablesCanon3 T) (start fuel p : Nat)
    (v R : Bytes) (hv : ∀ x ∈ v, x ≠ 39) :
    doctypeLoop T txt start (fuel + 2)
        ⟨p, 60 :: 33 :: 69 :: 78 :: 84 :: 73 :: 84 :: 89 :: 32 :: 101 :: 32 :: 39 :: (v ++ 39 :: 62 :: 93 :: 62 :: R)⟩ =
      ret [.entityDecl ⟨p + 9, [101]⟩ ⟨p + 12, v⟩] ⟨p + 12 + v.length + 4, R⟩ := by
  have hsk := skipSpaces_ns T p 60
    (33 :: 69 :: 78 :: 84 :: 73 :: 84 :: 89 :: 32 :: 101 :: 32 :: 39 :: (v ++ 39 :: 62 :: 93 :: 62 :: R))
    (hC.delims_not_space 60 (by simp))
  have a1 : Stream.startsWith
      ⟨p, 60 :: 33 :: 69 :: 78 :: 84 :: 73 :: 84 :: 89 :: 32 :: 101 :: 32 :: 39 :: (v ++ 39 :: 62 :: 93 :: 62 :: R)⟩
      Lit.entity_ = true := by
    simp [Stream.startsWith, Lit.entity_, List.isPrefixOf]
  have hd := parseEntityDecl_run T txt hC hC3 v (93 :: 62 :: R) hv p
  have hc := doctypeLoop_close T txt hC hC3 start fuel (p + 12 + v.length + 2) R
  have hs : doctypeLoop T txt start (fuel + 2)
        ⟨p, 60 :: 33 :: 69 :: 78 :: 84 :: 73 :: 84 :: 89 :: 32 :: 101 :: 32 :: 39 :: (v ++ 39 :: 62 :: 93 :: 62 :: R)⟩ =
      (parseEntityDecl T txt
        ⟨p, 60 :: 33 :: 69 :: 78 :: 84 :: 73 :: 84 :: 89 :: 32 :: 101 :: 32 :: 39 :: (v ++ 39 :: 62 :: 93 :: 62 :: R)⟩ >>=
        fun s => doctypeLoop T txt start (fuel + 1) s) := by
    simp only [doctypeLoop, Stream.atEnd, List.isEmpty_cons, Bool.false_eq_true, if_false, hsk, a1,
      if_true]
  rw [hs, hd, ok_bind, hc, pre_mk]
  have e : p + 12 + v.length + 2 + 2 = p + 12 + v.length + 4 := by omega
  rw [e]
  rfl

theorem parseDoctype_run (hC : TablesCanon T) (hC3 : TablesCanon3 T) (n v R : Bytes)
    (hn : nameOk n = true) (hv : ∀ x ∈ v, x ≠ 39) (p : Nat) :
    parseDoctype T txt
        ⟨p, 60 :: 33 :: 68 :: 79 :: 67 :: 84 :: 89 :: 80 :: 69 :: 32 :: (n ++ 32 :: 91 :: 60 :: 33 :: 69 :: 78 :: 84 :: 73 :: 84 :: 89 :: 32 :: 101 :: 32 :: 39 :: (v ++ 39 :: 62 :: 93 :: 62 :: R))⟩ =
      ret [.entityDecl ⟨p + 10 + n.length + 11, [101]⟩ ⟨p + 10 + n.length + 14, v⟩]
        ⟨p + 10 + n.length + 14 + v.length + 4, R⟩ := by
  have h1 := parseDoctypeStart_run T txt hC hC3 n
    (60 :: 33 :: 69 :: 78 :: 84 :: 73 :: 84 :: 89 :: 32 :: 101 :: 32 :: 39 :: (v ++ 39 :: 62 :: 93 :: 62 :: R)) hn p
  have h2 := skipSpaces_ns T (p + 9 + 1 + n.length + 1) 91
    (60 :: 33 :: 69 :: 78 :: 84 :: 73 :: 84 :: 89 :: 32 :: 101 :: 32 :: 39 :: (v ++ 39 :: 62 :: 93 :: 62 :: R))
    (hC3.brackets_not_space 91 (by simp))
  have h3 : ((91 : UInt8) == bGt) = false := by decide
  have h4 : Stream.advance ⟨p + 9 + 1 + n.length + 1, 91 :: 60 :: 33 :: 69 :: 78 :: 84 :: 73 :: 84 :: 89 :: 32 :: 101 :: 32 :: 39 :: (v ++ 39 :: 62 :: 93 :: 62 :: R)⟩ 1 =
      .ok ⟨p + 9 + 1 + n.length + 1 + 1, 60 :: 33 :: 69 :: 78 :: 84 :: 73 :: 84 :: 89 :: 32 :: 101 :: 32 :: 39 :: (v ++ 39 :: 62 :: 93 :: 62 :: R)⟩ := by
    simp [Stream.advance]
  obtain ⟨F, hF⟩ : ∃ F, (60 :: 33 :: 69 :: 78 :: 84 :: 73 :: 84 :: 89 :: 32 :: 101 :: 32 :: 39 :: (v ++ 39 :: 62 :: 93 :: 62 :: R)).length + 1 = F + 2 :=
    ⟨(33 :: 69 :: 78 :: 84 :: 73 :: 84 :: 89 :: 32 :: 101 :: 32 :: 39 :: (v ++ 39 :: 62 :: 93 :: 62 :: R)).length, by simp⟩
  unfold parseDoctype
  simp only [h1, lift_ok_bind, h2, h3, Bool.false_eq_true, if_false, h4]
  rw [hF, doctypeLoop_run T txt hC hC3 _ F _ v R hv]

end

/-! ### The root element with the reference among its children -/

theorem firstNotText_head {ks : List XNode} (h : firstIsText ks = false) (rest : Bytes) :
    ∃ r, renderAll ks ++ 60 :: rest = 60 :: r := by
  cases ks with
  | nil => exact ⟨rest, rfl⟩
  | cons k r =>
    obtain ⟨r', e⟩ := render_head_lt (k := k) (by simpa [firstIsText] using h)
    exact ⟨r' ++ (renderAll r ++ 60 :: rest),
      by simp only [renderAll, e, List.append_assoc, List.cons_append]⟩

theorem parseElement_hoist (T : Tables) (txt : Bytes) (hC : TablesCanon T) (n : Bytes)
    (as : List (Bytes × Bytes)) (pre' post : List XNode) (hn : nameOk n = true)
    (has : attrsOk as = true) (hpre : okAll pre' = true) (hpost : okAll post = true)
    (hapre : noAdjText pre' = true) (hapost : noAdjText post = true)
    (hl : lastIsText pre' = false) (hf : firstIsText post = false) (p : Nat) :
    parseElement T txt ⟨p, 60 :: (n ++ (renderAttrs as ++ 62 :: (renderAll pre' ++ 38 :: 101 :: 59 ::
        (renderAll post ++ 60 :: 47 :: (n ++ 62 :: [])))))⟩ =
      ret ([Token.elementStart ⟨p + 1, []⟩ ⟨p + 1, n⟩ p] ++ attrToks (p + 1 + n.length) as ++
        [Token.elementEnd .open (p + 1 + n.length + attrsLen as, p + 1 + n.length + attrsLen as + 1)] ++
        toksAll (p + 1 + n.length + attrsLen as + 1) pre' ++
        [Token.text ⟨p + 1 + n.length + attrsLen as + 1 + (renderAll pre').length, litRef⟩
          (p + 1 + n.length + attrsLen as + 1 + (renderAll pre').length,
           p + 1 + n.length + attrsLen as + 1 + (renderAll pre').length + 3)] ++
        toksAll (p + 1 + n.length + attrsLen as + 1 + (renderAll pre').length + 3) post ++
        [Token.elementEnd
          (.close ⟨p + 1 + n.length + attrsLen as + 1 + (renderAll pre').length + 3 + (renderAll post).length + 2, []⟩
            ⟨p + 1 + n.length + attrsLen as + 1 + (renderAll pre').length + 3 + (renderAll post).length + 2, n⟩)
          (p + 1 + n.length + attrsLen as + 1 + (renderAll pre').length + 3 + (renderAll post).length,
           p + 1 + n.length + attrsLen as + 1 + (renderAll pre').length + 3 + (renderAll post).length + 3 + n.length)])
        ⟨p + 1 + n.length + attrsLen as + 1 + (renderAll pre').length + 3 + (renderAll post).length + 3 + n.length, []⟩ := by
  obtain ⟨F, hF⟩ : ∃ F, (renderAll pre' ++ 38 :: 101 :: 59 ::
        (renderAll post ++ 60 :: 47 :: (n ++ 62 :: []))).length + 1 =
      stepsAll pre' + ((stepsAll post + (F + 1)) + 1) := by
    have h1 := stepsAll_le pre' hpre
    have h2 := stepsAll_le post hpost
    refine ⟨(renderAll pre').length + (renderAll post).length + n.length + 5 - stepsAll pre' -
      stepsAll post, ?_⟩
    simp only [List.length_append, List.length_cons, List.length_nil]
    omega
  obtain ⟨r', e'⟩ := firstNotText_head hf (47 :: (n ++ 62 :: []))
  have href : ∀ (fuel q : Nat),
      parseContent T txt (fuel + 1) 0 ⟨q, 38 :: 101 :: 59 :: (renderAll post ++ 60 :: 47 :: (n ++ 62 :: []))⟩ =
        pre [.text ⟨q, litRef⟩ (q, q + 3)]
          (parseContent T txt fuel 0 ⟨q + 3, renderAll post ++ 60 :: 47 :: (n ++ 62 :: [])⟩) := by
    intro fuel q
    rw [e']
    exact parseContent_ref T txt hC fuel 0 q r'
  unfold parseElement
  simp only [parseStartTag_run T txt hC n as _ hn has p, ok_bind, if_true]
  rw [hF, pc_allG T txt hC pre' hpre hapre _ 0 _ _ (fun h => absurd h (by simp [hl])),
    href, pc_all T txt hC post hpost hapost (F + 1) 0 _ _ ⟨_, rfl⟩,
    parseContent_close0 T txt hC F _ n [] hn, pre_mk, pre_mk, pre_mk, pre_mk]
  simp only [List.append_assoc]

theorem parseBody_of_element (T : Tables) (txt : Bytes) (hC : TablesCanon T) (q : Nat) (b : UInt8)
    (r : Bytes) (L : List Token) (e : Nat)
    (hel : parseElement T txt ⟨q, 60 :: b :: r⟩ = ret L ⟨e, []⟩) :
    parseBody T txt ⟨q, 60 :: b :: r⟩ = ret L () := by
  have hsk := skipSpaces_ns T q 60 (b :: r) (hC.delims_not_space 60 (by simp))
  have hcb : (Stream.currByte? ⟨q, 60 :: b :: r⟩ == some bLt) = true := rfl
  unfold parseBody parseRootElement
  simp only [hsk, hcb, if_true, hel, ok_bind, List.length_nil, parseMisc_end, Stream.atEnd,
    List.isEmpty_nil, Bool.not_true, Bool.false_eq_true, if_false, pre_nil]
  exact pre_pure _ _

theorem hoistOk_parts {n : Bytes} {as : List (Bytes × Bytes)} {pre' mid post : List XNode}
    (hx : hoistOk n as pre' mid post = true) :
    nameOk n = true ∧ attrsOk as = true ∧
    (okAll pre' = true ∧ okAll mid = true ∧ okAll post = true) ∧
    (noAdjText pre' = true ∧ noAdjText mid = true ∧ noAdjText post = true) ∧
    lastIsText pre' = false ∧ firstIsText post = false ∧ (∀ x ∈ renderAll mid, x ≠ 39) := by
  simp only [hoistOk, ok, Bool.and_eq_true, Bool.not_eq_true'] at hx
  obtain ⟨⟨⟨⟨⟨⟨hn, has⟩, hadj⟩, hks⟩, hl⟩, hf⟩, hq⟩ := hx
  obtain ⟨hk1, hk3⟩ := okAll_append _ _ hks
  obtain ⟨hk1, hk2⟩ := okAll_append _ _ hk1
  obtain ⟨ha1, ha3⟩ := noAdj_append _ _ hadj
  obtain ⟨ha1, ha2⟩ := noAdj_append _ _ ha1
  refine ⟨hn, has, ⟨hk1, hk2, hk3⟩, ⟨ha1, ha2, ha3⟩, hl, hf, ?_⟩
  intro x hx e
  subst e
  rw [← List.contains_iff_mem] at hx
  rw [hx] at hq
  exact Bool.noConfusion hq

set_option linter.unusedVariables false in
/-- **Tokenizer, hoisted document** (`allow_dtd = true`): exactly `hoistToks`, and success. -/
theorem tokenize_hoist (T : Tables) (hT : TablesOK T) (hC : TablesCanon T) (hC3 : TablesCanon3 T)
    (n : Bytes) (as : List (Bytes × Bytes)) (pre mid post : List XNode)
    (hx : hoistOk n as pre mid post = true) :
    tokenize T (hoist n as pre mid post) true = (hoistToks n as pre mid post, .ok ()) := by
  obtain ⟨hn, has, ⟨hpre, _, hpost⟩, ⟨hapre, _, hapost⟩, hl, hf, hq⟩ := hoistOk_parts hx
  -- the document, byte by byte
  have eD : hoist n as pre mid post =
      60 :: 33 :: 68 :: 79 :: 67 :: 84 :: 89 :: 80 :: 69 :: 32 :: (n ++ 32 :: 91 :: 60 :: 33 :: 69 ::
        78 :: 84 :: 73 :: 84 :: 89 :: 32 :: 101 :: 32 :: 39 :: (renderAll mid ++ 39 :: 62 :: 93 :: 62 ::
        (60 :: (n ++ (renderAttrs as ++ 62 :: (renderAll pre ++ 38 :: 101 :: 59 ::
          (renderAll post ++ 60 :: 47 :: (n ++ 62 :: [])))))))) := by
    simp only [hoist, hoistProlog, litDoctype, litEntOpen, litEntClose, litRef, List.append_assoc,
      List.cons_append, List.nil_append]
  have hro : rootOff n mid = 0 + 10 + n.length + 14 + (renderAll mid).length + 4 := by
    simp only [rootOff, hoistProlog, litDoctype, litEntOpen, litEntClose, List.length_append,
      List.length_cons, List.length_nil]
  have hdt := fun txt => parseDoctype_run T txt hC hC3 n (renderAll mid)
    (60 :: (n ++ (renderAttrs as ++ 62 :: (renderAll pre ++ 38 :: 101 :: 59 ::
      (renderAll post ++ 60 :: 47 :: (n ++ 62 :: [])))))) hn hq 0
  have hel := fun txt => parseElement_hoist T txt hC n as pre post hn has hpre hpost hapre hapost
    hl hf (rootOff n mid)
  obtain ⟨b, r, hb, eB⟩ := name_head hn (renderAttrs as ++ 62 :: (renderAll pre ++ 38 :: 101 :: 59 ::
      (renderAll post ++ 60 :: 47 :: (n ++ 62 :: []))))
  have hmisc2 := fun txt fuel => parseMisc_tag T txt hC fuel (rootOff n mid) b r hb
  rw [← hro] at hdt
  rw [eB] at hdt hel eD
  -- the expected tokens
  have htoks : hoistToks n as pre mid post =
      [Token.entityDecl ⟨0 + 10 + n.length + 11, [101]⟩ ⟨0 + 10 + n.length + 14, renderAll mid⟩] ++
      ([Token.elementStart ⟨rootOff n mid + 1, []⟩ ⟨rootOff n mid + 1, n⟩ (rootOff n mid)] ++
        attrToks (rootOff n mid + 1 + n.length) as ++
        [Token.elementEnd .open (rootOff n mid + 1 + n.length + attrsLen as,
          rootOff n mid + 1 + n.length + attrsLen as + 1)] ++
        toksAll (rootOff n mid + 1 + n.length + attrsLen as + 1) pre ++
        [Token.text ⟨rootOff n mid + 1 + n.length + attrsLen as + 1 + (renderAll pre).length, litRef⟩
          (rootOff n mid + 1 + n.length + attrsLen as + 1 + (renderAll pre).length,
           rootOff n mid + 1 + n.length + attrsLen as + 1 + (renderAll pre).length + 3)] ++
        toksAll (rootOff n mid + 1 + n.length + attrsLen as + 1 + (renderAll pre).length + 3) post ++
        [Token.elementEnd
          (.close ⟨rootOff n mid + 1 + n.length + attrsLen as + 1 + (renderAll pre).length + 3 + (renderAll post).length + 2, []⟩
            ⟨rootOff n mid + 1 + n.length + attrsLen as + 1 + (renderAll pre).length + 3 + (renderAll post).length + 2, n⟩)
          (rootOff n mid + 1 + n.length + attrsLen as + 1 + (renderAll pre).length + 3 + (renderAll post).length,
           rootOff n mid + 1 + n.length + attrsLen as + 1 + (renderAll pre).length + 3 + (renderAll post).length + 3 + n.length)]) := by
    simp only [hoistToks, refOff, valueOff, litDoctype, litEntOpen, List.length_cons, List.length_nil,
      List.append_assoc, Nat.zero_add]
  rw [htoks]
  generalize hoist n as pre mid post = D at eD ⊢
  generalize rootOff n mid = q at hdt hel hmisc2 ⊢
  have hbom : Stream.startsWith ⟨0, D⟩ Lit.bom = false := by
    rw [eD]; simp [Stream.startsWith, Lit.bom, List.isPrefixOf]
  have hdecl : Stream.startsWithXmlDecl T ⟨0, D⟩ = false := by
    rw [eD]; simp [Stream.startsWithXmlDecl, Stream.startsWith, Lit.xmlDeclOpen, List.isPrefixOf]
  have hdoc : Stream.startsWith ⟨0, D⟩ Lit.doctype = true := by
    rw [eD]; simp [Stream.startsWith, Lit.doctype, List.isPrefixOf]
  have hsk : Stream.skipSpaces T ⟨0, D⟩ = ⟨0, D⟩ := by
    rw [eD]; exact skipSpaces_ns T 0 60 _ (hC.delims_not_space 60 (by simp))
  have hmisc : parseMisc T D (D.length + 1) ⟨0, D⟩ = ret [] ⟨0, D⟩ := by
    have h1 : Stream.startsWith ⟨0, D⟩ Lit.commentStart = false := by
      rw [eD]; simp [Stream.startsWith, Lit.commentStart, List.isPrefixOf]
    have h2 : Stream.startsWith ⟨0, D⟩ Lit.piStart = false := by
      rw [eD]; simp [Stream.startsWith, Lit.piStart, List.isPrefixOf]
    have h3 : Stream.atEnd ⟨0, D⟩ = false := by
      rw [eD]; rfl
    simp only [parseMisc, h3, Bool.false_eq_true, if_false, hsk, h1, h2]
    rfl
  have hprolog : parseProlog T D = ret [] ⟨0, D⟩ := by
    unfold parseProlog
    simp only [Stream.new, hbom, hdecl, Bool.false_eq_true, if_false, lift_ok_bind, hmisc, ok_bind,
      hsk, pre_nil]
    rfl
  have hdt' := hdt D
  rw [← eD] at hdt'
  have hbody := parseBody_of_element T D hC q b r _ _ (hel D)
  unfold tokenize parseDocument
  simp only [hprolog, ok_bind, hdoc, if_true, Bool.not_true, Bool.false_eq_true, if_false, hdt',
    List.length_cons, hmisc2, hbody, pre_mk]
  rfl

set_option linter.unusedVariables false in
/-- **Tokenizer, replacement text**: re-entering the tokenizer on the entity's value (the byte
range recorded in the `EntityDeclaration` token) delivers exactly the tokens of the moved children,
with offsets inside the DOCTYPE, and stops at the end of the value. -/
theorem tokenizeContent_hoist (T : Tables) (hT : TablesOK T) (hC : TablesCanon T) (hC3 : TablesCanon3 T)
    (n : Bytes) (as : List (Bytes × Bytes)) (pre mid post : List XNode)
    (hx : hoistOk n as pre mid post = true) :
    tokenizeContent T (hoist n as pre mid post) (valueOff n) (valueOff n + (renderAll mid).length) =
      (toksAll (valueOff n) mid, .ok ⟨valueOff n + (renderAll mid).length, []⟩) := by
  obtain ⟨_, _, ⟨_, hmid, _⟩, ⟨_, hamid, _⟩, _, _, _⟩ := hoistOk_parts hx
  have hsl : sliceBytes (hoist n as pre mid post) (valueOff n)
      (valueOff n + (renderAll mid).length) = renderAll mid := by
    have e : hoist n as pre mid post = (litDoctype ++ n ++ litEntOpen) ++ (renderAll mid ++
        (litEntClose ++ ([60] ++ n ++ renderAttrs as ++ [62] ++ renderAll pre ++ litRef ++
          renderAll post ++ [60, 47] ++ n ++ [62]))) := by
      simp only [hoist, hoistProlog, List.append_assoc]
    have hlen : (litDoctype ++ n ++ litEntOpen).length = valueOff n := by
      simp only [valueOff, List.length_append]
    rw [e, sliceBytes, List.drop_left' hlen, Nat.add_sub_cancel_left, List.take_left' rfl]
  obtain ⟨F, hF⟩ : ∃ F, (renderAll mid).length + 1 = stepsAll mid + (F + 1) :=
    ⟨(renderAll mid).length - stepsAll mid, by have := stepsAll_le mid hmid; omega⟩
  unfold tokenizeContent Stream.ofRange
  simp only [hsl]
  rw [hF]
  have h := pc_allG T (hoist n as pre mid post) hC mid hmid hamid (F + 1) 0 (valueOff n) []
    (fun _ => .inl rfl)
  rw [List.append_nil] at h
  rw [h, parseContent_nil, pre_mk, List.append_nil]
  rfl

end Rox.Lemmas
