/-
  Rox.Lemmas.MirrorAsm — Stage C' of the proof of `accepted_tree_mirrors`: Stage C of the
  grammar-soundness proof (`Rox.Lemmas.GrammarAsm`) once more, carrying the tree: the abstract
  document `x` assembled from the flat list of items is in PI normal form, and the abstract arena
  machine `runA` (`Rox.Lemmas.MirrorDefs`) run over the items yields exactly the root node followed
  by the nodes of `docTree x` in document order. Pure list combinatorics.
-/
import Rox.Lemmas.MirrorDefs
import Rox.Lemmas.GrammarAsm

namespace Rox.Lemmas
open Rox Rox.Spec Rox.Spec.Grammar Rox.Spec.Canon4 Rox.Spec.Mirror

/-! ### Unfolding the mutual definitions -/

theorem masm_expectAllY_nil (p i : Nat) : expectAllY p i [] = [] := by
  simp only [expectAllY]

theorem masm_expectAllY_cons (p i : Nat) (k : YNode) (ks : List YNode) :
    expectAllY p i (k :: ks) = expectY p i k ++ expectAllY p (i + countY k) ks := by
  simp only [expectAllY]

theorem masm_countAllY_nil : countAllY [] = 0 := by
  simp only [countAllY]

theorem masm_countAllY_cons (k : YNode) (ks : List YNode) :
    countAllY (k :: ks) = countY k + countAllY ks := by
  simp only [countAllY]

theorem masm_expectY_elem (p i : Nat) (n : Bytes) (as : List (Bytes × Bytes)) (ks : List YNode) :
    expectY p i (.elem n as ks) = (some p, .elem n as) :: expectAllY i (i + 1) ks := by
  simp only [expectY]

theorem masm_countY_elem (n : Bytes) (as : List (Bytes × Bytes)) (ks : List YNode) :
    countY (.elem n as ks) = 1 + countAllY ks := by
  simp only [countY]

mutual
  theorem masm_length_expectY : ∀ (y : YNode) (p i : Nat), (expectY p i y).length = countY y
    | .elem n as ks, p, i => by
      rw [masm_expectY_elem, masm_countY_elem, List.length_cons, masm_length_expectAllY ks i (i + 1)]
      omega
    | .comment c, p, i => by simp only [expectY, countY, List.length_cons, List.length_nil]
    | .pi t v, p, i => by simp only [expectY, countY, List.length_cons, List.length_nil]
    | .text t, p, i => by simp only [expectY, countY, List.length_cons, List.length_nil]
  theorem masm_length_expectAllY : ∀ (l : List YNode) (p i : Nat),
      (expectAllY p i l).length = countAllY l
    | [], p, i => by rw [masm_expectAllY_nil, masm_countAllY_nil]; rfl
    | k :: ks, p, i => by
      rw [masm_expectAllY_cons, masm_countAllY_cons, List.length_append, masm_length_expectY k p i,
        masm_length_expectAllY ks p (i + countY k)]
end

theorem masm_expectAllY_append (p : Nat) (l1 l2 : List YNode) : ∀ i : Nat,
    expectAllY p i (l1 ++ l2) = expectAllY p i l1 ++ expectAllY p (i + countAllY l1) l2 := by
  induction l1 with
  | nil => intro i; rw [masm_countAllY_nil, masm_expectAllY_nil]; rfl
  | cons k r ih =>
    intro i
    rw [List.cons_append, masm_expectAllY_cons, masm_expectAllY_cons, ih, masm_countAllY_cons,
      List.append_assoc, Nat.add_assoc]

theorem masm_treeKids_nil (pend : Option Bytes) : treeKids pend [] = flush pend := by
  simp only [treeKids]
theorem masm_treeKids_text (pend : Option Bytes) (raw : Bytes) (r : List GNode) :
    treeKids pend (.text raw :: r) = treeKids (some (pend.getD [] ++ decodeText raw)) r := by
  simp only [treeKids]
theorem masm_treeKids_cdata (pend : Option Bytes) (b : Bytes) (r : List GNode) :
    treeKids pend (.cdata b :: r) = treeKids (some (pend.getD [] ++ lineEnds b)) r := by
  simp only [treeKids]
theorem masm_treeKids_comment (pend : Option Bytes) (b : Bytes) (r : List GNode) :
    treeKids pend (.comment b :: r) = flush pend ++ .comment b :: treeKids none r := by
  simp only [treeKids]
theorem masm_treeKids_pi (pend : Option Bytes) (t v : Bytes) (r : List GNode) :
    treeKids pend (.pi t v :: r) = flush pend ++ .pi t v :: treeKids none r := by
  simp only [treeKids]
theorem masm_treeKids_elem (pend : Option Bytes) (q : Bytes) (attrs : List (Bytes × Bytes))
    (kids r : List GNode) :
    treeKids pend (.elem q attrs kids :: r) =
      flush pend ++ .elem (qparts q).2 (attrsOf attrs) (treeKids none kids) :: treeKids none r := by
  simp only [treeKids]
theorem masm_treeOf_elem (q : Bytes) (attrs : List (Bytes × Bytes)) (kids : List GNode) :
    treeOf (.elem q attrs kids) = [.elem (qparts q).2 (attrsOf attrs) (treeKids none kids)] := by
  simp only [treeOf]

theorem masm_normalAll_nil (T : Tables) : NormalAll T [] := by
  simp only [NormalAll]
theorem masm_normalAll_cons (T : Tables) (k : GNode) (ks : List GNode) :
    NormalAll T (k :: ks) ↔ Normal T k ∧ NormalAll T ks := by
  simp only [NormalAll]
theorem masm_normal_elem (T : Tables) (q : Bytes) (attrs : List (Bytes × Bytes)) (kids : List GNode) :
    Normal T (.elem q attrs kids) ↔ NormalAll T kids := by
  simp only [Normal]
theorem masm_normal_comment (T : Tables) (b : Bytes) : Normal T (.comment b) := by
  simp only [Normal, piNormal]
theorem masm_normal_cdata (T : Tables) (b : Bytes) : Normal T (.cdata b) := by
  simp only [Normal, piNormal]
theorem masm_normal_text (T : Tables) (b : Bytes) : Normal T (.text b) := by
  simp only [Normal, piNormal]
theorem masm_normal_pi (T : Tables) (t s v : Bytes) (h : (Item.pi t s v).PiN T) :
    Normal T (.pi t v) := by
  cases v with
  | nil => simp only [Normal, piNormal]
  | cons b r => simp only [Normal, piNormal]; exact h


/-! ### The machine -/

/-- the machine reads the items `kitems` of the children `kids` of the innermost open element `p`:
the stack is left as it was, the nodes of `kids` are appended (the run being collected when the
machine starts is the beginning of the first text node) -/
def MachK (kitems : List Item) (kids : List GNode) : Prop :=
  ∀ (a : AS) (p : Nat) (rest : List Nat), a.stk = p :: rest →
    (runA a kitems).stk = a.stk ∧
    (runA a kitems).flushed = a.out ++ expectAllY p a.out.length (treeKids a.pend kids)

/-- the machine reads the items `grp` of one node that is not character data -/
def NodeRun (grp : List Item) (y : YNode) : Prop :=
  ∀ (a : AS) (p : Nat) (rest : List Nat), a.stk = p :: rest →
    runA a grp = ⟨a.flushed ++ expectY p a.flushed.length y, none, a.stk⟩

theorem masm_top (a : AS) (p : Nat) (rest : List Nat) (h : a.stk = p :: rest) : a.top = p := by
  unfold AS.top
  rw [h]
  rfl

theorem masm_flushed (a : AS) (p : Nat) (rest : List Nat) (h : a.stk = p :: rest) :
    a.flushed = a.out ++ expectAllY p a.out.length (flush a.pend) := by
  have ht := masm_top a p rest h
  obtain ⟨out, pend, stk⟩ := a
  cases pend with
  | none =>
    show out ++ [] = out ++ expectAllY p out.length []
    rw [masm_expectAllY_nil]
  | some t =>
    show out ++ [(some (AS.top ⟨out, some t, stk⟩), YKind.text t)] =
      out ++ expectAllY p out.length [YNode.text t]
    rw [ht, masm_expectAllY_cons, masm_expectAllY_nil]
    simp only [expectY, List.append_nil]

theorem masm_mach_nil : MachK [] [] := by
  intro a p rest h
  refine ⟨rfl, ?_⟩
  rw [masm_treeKids_nil]
  exact masm_flushed a p rest h

theorem masm_mach_sp (s : Bytes) (kitems : List Item) (kids : List GNode) (hM : MachK kitems kids) :
    MachK (Item.sp s :: kitems) kids := by
  intro a p rest h
  exact hM a p rest h

theorem masm_mach_char (it : Item) (k : GNode) (c : Bytes) (kitems : List Item) (kids : List GNode)
    (hs : ∀ a : AS, stepA a it = ⟨a.out, some (a.pend.getD [] ++ c), a.stk⟩)
    (ht : ∀ pend, treeKids pend (k :: kids) = treeKids (some (pend.getD [] ++ c)) kids)
    (hM : MachK kitems kids) : MachK (it :: kitems) (k :: kids) := by
  intro a p rest h
  show (runA (stepA a it) kitems).stk = _ ∧ (runA (stepA a it) kitems).flushed = _
  rw [hs, ht]
  exact hM ⟨a.out, some (a.pend.getD [] ++ c), a.stk⟩ p rest h

theorem masm_mach_node (grp : List Item) (y : YNode) (k : GNode) (kitems : List Item)
    (kids : List GNode) (hg : NodeRun grp y)
    (ht : ∀ pend, treeKids pend (k :: kids) = flush pend ++ y :: treeKids none kids)
    (hM : MachK kitems kids) : MachK (grp ++ kitems) (k :: kids) := by
  intro a p rest h
  rw [runA_append, hg a p rest h, ht]
  have hf := masm_flushed a p rest h
  have hl : a.flushed.length = a.out.length + countAllY (flush a.pend) := by
    rw [hf, List.length_append, masm_length_expectAllY]
  obtain ⟨h1, h2⟩ := hM ⟨a.flushed ++ expectY p a.flushed.length y, none, a.stk⟩ p rest h
  refine ⟨h1, ?_⟩
  rw [h2]
  show (a.flushed ++ expectY p a.flushed.length y) ++
    expectAllY p (a.flushed ++ expectY p a.flushed.length y).length (treeKids none kids) = _
  rw [masm_expectAllY_append, masm_expectAllY_cons, List.length_append, masm_length_expectY, hl, hf]
  simp only [List.append_assoc]

theorem masm_noderun_comment (b : Bytes) : NodeRun [Item.comment b] (.comment b) := by
  intro a p rest h
  show (⟨a.flushed ++ [(some a.top, YKind.comment b)], none, a.stk⟩ : AS) = _
  rw [masm_top a p rest h]
  simp only [expectY]

theorem masm_noderun_pi (t s v : Bytes) : NodeRun [Item.pi t s v] (.pi t v) := by
  intro a p rest h
  show (⟨a.flushed ++ [(some a.top, YKind.pi t (if v.isEmpty then none else some v))], none,
    a.stk⟩ : AS) = _
  rw [masm_top a p rest h]
  simp only [expectY]

theorem masm_noderun_empty (q : Bytes) (attrs : List AttrC) (s1 : Bytes) :
    NodeRun [Item.stag q attrs s1 true] (.elem (qparts q).2 (attrsOfC attrs) []) := by
  intro a p rest h
  show (⟨a.flushed ++ [(some a.top, YKind.elem (qparts q).2 (attrsOfC attrs))], none, a.stk⟩ : AS) = _
  rw [masm_top a p rest h, masm_expectY_elem, masm_expectAllY_nil]

theorem masm_noderun_open (q : Bytes) (attrs : List AttrC) (s1 q' s2 : Bytes) (kit1 : List Item)
    (kids1 : List GNode) (hM : MachK kit1 kids1) :
    NodeRun (Item.stag q attrs s1 false :: (kit1 ++ [Item.etag q' s2]))
      (.elem (qparts q).2 (attrsOfC attrs) (treeKids none kids1)) := by
  intro a p rest h
  show runA (stepA a (Item.stag q attrs s1 false)) (kit1 ++ [Item.etag q' s2]) = _
  rw [runA_append]
  have hs : stepA a (Item.stag q attrs s1 false) =
      ⟨a.flushed ++ [(some p, YKind.elem (qparts q).2 (attrsOfC attrs))], none,
        a.flushed.length :: a.stk⟩ := by
    show (⟨a.flushed ++ [(some a.top, YKind.elem (qparts q).2 (attrsOfC attrs))], none,
      a.flushed.length :: a.stk⟩ : AS) = _
    rw [masm_top a p rest h]
  rw [hs]
  obtain ⟨h1, h2⟩ := hM ⟨a.flushed ++ [(some p, YKind.elem (qparts q).2 (attrsOfC attrs))], none,
    a.flushed.length :: a.stk⟩ a.flushed.length a.stk rfl
  show (⟨(runA _ kit1).flushed, none, (runA _ kit1).stk.tail⟩ : AS) = _
  rw [h1, h2, masm_expectY_elem]
  simp only [List.length_append, List.length_cons, List.length_nil, List.tail_cons,
    List.append_assoc, List.cons_append, List.nil_append, Nat.zero_add]

theorem masm_leaf_mach (it : Item) (h : it.isLeafNT = true) (kitems : List Item)
    (kids : List GNode) (hM : MachK kitems kids) : MachK (it :: kitems) (asmNode it :: kids) := by
  cases it with
  | comment b =>
    exact masm_mach_node [Item.comment b] (.comment b) (.comment b) kitems kids
      (masm_noderun_comment b) (fun pend => masm_treeKids_comment pend b kids) hM
  | pi t s v =>
    exact masm_mach_node [Item.pi t s v] (.pi t v) (.pi t v) kitems kids
      (masm_noderun_pi t s v) (fun pend => masm_treeKids_pi pend t v kids) hM
  | cdata b =>
    exact masm_mach_char (Item.cdata b) (.cdata b) (lineEnds b) kitems kids (fun _ => rfl)
      (fun pend => masm_treeKids_cdata pend b kids) hM
  | sp s => exact Bool.noConfusion h
  | text t => exact Bool.noConfusion h
  | stag q a s e => exact Bool.noConfusion h
  | etag q s => exact Bool.noConfusion h

theorem masm_leaf_normal (T : Tables) (it : Item) (hp : it.PiN T) : Normal T (asmNode it) := by
  cases it with
  | comment b => exact masm_normal_comment T b
  | pi t s v => exact masm_normal_pi T t s v hp
  | cdata b => exact masm_normal_cdata T b
  | sp s => exact masm_normal_text T []
  | text t => exact masm_normal_text T t
  | stag q a s e => exact masm_normal_text T []
  | etag q s => exact masm_normal_text T []

theorem masm_misc_pend (l : List Item) (h : ∀ it ∈ l, it.isMiscI = true) :
    ∀ a : AS, a.pend = none → (runA a l).pend = none := by
  induction l with
  | nil => intro a ha; exact ha
  | cons x r ih =>
    intro a ha
    have hx := h x (List.mem_cons_self ..)
    have hr : ∀ it ∈ r, it.isMiscI = true := fun it hit => h it (List.mem_cons_of_mem _ hit)
    show (runA (stepA a x) r).pend = none
    cases x with
    | sp s => exact ih hr a ha
    | comment b => exact ih hr _ rfl
    | pi t s v => exact ih hr _ rfl
    | cdata b => exact Bool.noConfusion hx
    | text t => exact Bool.noConfusion hx
    | stag q a s e => exact Bool.noConfusion hx
    | etag q s => exact Bool.noConfusion hx

theorem masm_rmisc (T : Tables) (l : List Item) (h : ∀ it ∈ l, it.isMiscI = true)
    (hl : ∀ it ∈ l, it.Lex T) (hp : ∀ it ∈ l, it.PiN T) :
    ∃ ms, RMisc T ms (flat l) ∧ (∀ k ∈ ms, isMisc k = true ∧ GWf T k) ∧ NormalAll T ms ∧
      MachK l ms := by
  induction l with
  | nil =>
    exact ⟨[], RMisc.nil, fun k hk => absurd hk (List.not_mem_nil), masm_normalAll_nil T,
      masm_mach_nil⟩
  | cons x r ih =>
    obtain ⟨ms, hm, hw, hN, hM⟩ := ih (fun it hit => h it (List.mem_cons_of_mem _ hit))
      (fun it hit => hl it (List.mem_cons_of_mem _ hit))
      (fun it hit => hp it (List.mem_cons_of_mem _ hit))
    have hx := h x (List.mem_cons_self ..)
    rcases asm_misc_item T x hx (hl x (List.mem_cons_self ..)) with
      ⟨s, rfl, hs⟩ | ⟨hr, hg, hi⟩
    · exact ⟨ms, RMisc.sp s ms _ hs hm, hw, hN, masm_mach_sp s r ms hM⟩
    · refine ⟨asmNode x :: ms, RMisc.item _ _ ms _ hi hr hm, ?_,
        (masm_normalAll_cons T _ _).2 ⟨masm_leaf_normal T x (hp x (List.mem_cons_self ..)), hN⟩, ?_⟩
      · intro k hk
        rcases List.mem_cons.1 hk with rfl | hk
        · exact ⟨hi, hg⟩
        · exact hw k hk
      · cases x with
        | sp s => exact Bool.noConfusion hi
        | comment b => exact masm_leaf_mach _ rfl r ms hM
        | pi t s v => exact masm_leaf_mach _ rfl r ms hM
        | cdata b => exact Bool.noConfusion hx
        | text t => exact Bool.noConfusion hx
        | stag q a s e => exact Bool.noConfusion hx
        | etag q s => exact Bool.noConfusion hx


/-! ### The children of an element -/

/-- `AsmA` of `Rox.Lemmas.GrammarAsm` with the normal form of the children and the machine -/
def AsmM (T : Tables) (d : Nat) (stk : List QP) (its : List Item) : Prop :=
  ∃ (kitems : List Item) (q' s2 : Bytes) (rest : List Item) (kids : List GNode),
    its = kitems ++ Item.etag q' s2 :: rest ∧ RKids T kids (flat kitems) ∧ GWfAll T kids ∧
    noAdjText kids = true ∧
    (∀ k ks, kids = k :: ks → isText k = true → ∃ t r, kitems = Item.text t :: r) ∧
    runStk stk kitems = some stk ∧ Sp0 T s2 ∧
    ((d = 0 ∧ rest = []) ∨ (∃ d', d = d' + 1 ∧ Content d' rest)) ∧
    NormalAll T kids ∧ MachK kitems kids

theorem masm_prepend (T : Tables) (d : Nat) (stk : List QP) (it : Item) (tail : List Item)
    (k : GNode) (hr : RNode T k it.bytes) (hg : GWf T k) (hstep : stepStk stk it = some stk)
    (htxt : isText k = true → (∃ t, it = .text t) ∧ ∀ t' r, tail ≠ Item.text t' :: r)
    (hN : Normal T k)
    (hmach : ∀ kitems kids, MachK kitems kids → MachK (it :: kitems) (k :: kids))
    (hA : AsmM T d stk tail) : AsmM T d stk (it :: tail) := by
  obtain ⟨kitems, q', s2, rest, kids, rfl, hk, hw, hn, hh, hrun, hs, hd, hNk, hM⟩ := hA
  refine ⟨it :: kitems, q', s2, rest, k :: kids, rfl, RKids.cons k kids _ _ hr hk,
    (asm_gwfall_cons T k kids).2 ⟨hg, hw⟩, ?_, ?_, ?_, hs, hd,
    (masm_normalAll_cons T k kids).2 ⟨hN, hNk⟩, hmach kitems kids hM⟩
  · apply asm_noAdj_cons k kids hn
    intro k' r hkr h1 h2
    obtain ⟨t', r', hkit⟩ := hh k' r hkr h2
    exact (htxt h1).2 t' (r' ++ Item.etag q' s2 :: rest) (by rw [hkit]; rfl)
  · intro k0 ks hk0 h1
    injection hk0 with hk0 _
    subst hk0
    obtain ⟨t, rfl⟩ := (htxt h1).1
    exact ⟨t, kitems, rfl⟩
  · rw [asm_runStk_cons_same stk it kitems hstep]
    exact hrun

theorem masm_main (T : Tables) : ∀ (n : Nat) (its : List Item) (d : Nat) (stk fin : List QP),
    its.length < n → Content d its → stk.length = d + 1 → runStk stk its = some fin →
    (∀ it ∈ its, it.Lex T) → (∀ it ∈ its, it.Sem T) → (∀ it ∈ its, it.PiN T) →
    AsmM T d stk its ∨ stk.length ≤ fin.length := by
  intro n
  induction n with
  | zero => intro its d stk fin h; exact absurd h (Nat.not_lt_zero _)
  | succ n ih =>
    intro its d stk fin hlen hc hstk hrun hlex hsem hpin
    cases hc with
    | eof =>
      right
      have : some stk = some fin := hrun
      injection this with this
      rw [this]; exact Nat.le_refl _
    | leaf _ it tail hleaf hc' =>
      have hstep := asm_step_leaf stk it hleaf
      rw [asm_runStk_cons_same stk it tail hstep] at hrun
      have hl : tail.length < n := Nat.lt_of_succ_lt_succ hlen
      rcases ih tail d stk fin hl hc' hstk hrun
        (fun x hx => hlex x (List.mem_cons_of_mem _ hx))
        (fun x hx => hsem x (List.mem_cons_of_mem _ hx))
        (fun x hx => hpin x (List.mem_cons_of_mem _ hx)) with hA | hB
      · left
        obtain ⟨h1, h2, h3⟩ := asm_leaf T it hleaf (hlex it (List.mem_cons_self ..))
        exact masm_prepend T d stk it tail (asmNode it) h1 h2 hstep
          (fun h => by rw [h3] at h; exact absurd h (by decide))
          (masm_leaf_normal T it (hpin it (List.mem_cons_self ..)))
          (masm_leaf_mach it hleaf) hA
      · exact Or.inr hB
    | text _ t tail hnt hc' =>
      have hstep : stepStk stk (Item.text t) = some stk := rfl
      rw [asm_runStk_cons_same stk _ tail hstep] at hrun
      have hl : tail.length < n := Nat.lt_of_succ_lt_succ hlen
      rcases ih tail d stk fin hl hc' hstk hrun
        (fun x hx => hlex x (List.mem_cons_of_mem _ hx))
        (fun x hx => hsem x (List.mem_cons_of_mem _ hx))
        (fun x hx => hpin x (List.mem_cons_of_mem _ hx)) with hA | hB
      · left
        have hL : (Item.text t).Lex T := hlex _ (List.mem_cons_self ..)
        have hS : RefText T t := hsem _ (List.mem_cons_self ..)
        have hg : GWf T (.text t) := (asm_gwf_text T t).2 ⟨hL.1, hL.2.1, hS, hL.2.2.2⟩
        exact masm_prepend T d stk (Item.text t) tail (.text t) (RNode.text t) hg hstep
          (fun _ => ⟨⟨t, rfl⟩, hnt⟩) (masm_normal_text T t)
          (fun kitems kids hM => masm_mach_char (Item.text t) (.text t) (decodeText t) kitems kids
            (fun _ => rfl) (fun pend => masm_treeKids_text pend t kids) hM) hA
      · exact Or.inr hB
    | empty _ q attrs s1 tail hc' =>
      have hstep : stepStk stk (Item.stag q attrs s1 true) = some stk := rfl
      rw [asm_runStk_cons_same stk _ tail hstep] at hrun
      have hl : tail.length < n := Nat.lt_of_succ_lt_succ hlen
      rcases ih tail d stk fin hl hc' hstk hrun
        (fun x hx => hlex x (List.mem_cons_of_mem _ hx))
        (fun x hx => hsem x (List.mem_cons_of_mem _ hx))
        (fun x hx => hpin x (List.mem_cons_of_mem _ hx)) with hA | hB
      · left
        have hL : (Item.stag q attrs s1 true).Lex T := hlex _ (List.mem_cons_self ..)
        have hS : (Item.stag q attrs s1 true).Sem T := hsem _ (List.mem_cons_self ..)
        have hg := asm_gwf_stag T q attrs s1 true [] hL hS rfl (asm_gwfall_nil T)
        have hr : RNode T (.elem q (attrs.map fun a => (a.n, a.v)) [])
            (Item.stag q attrs s1 true).bytes :=
          RNode.empty q _ (attrsBytes attrs) s1 (asm_rattrs T attrs hL.2.2) hL.2.1
        exact masm_prepend T d stk _ tail _ hr hg hstep
          (fun h => Bool.noConfusion h)
          ((masm_normal_elem T _ _ _).2 (masm_normalAll_nil T))
          (fun kitems kids hM => masm_mach_node [Item.stag q attrs s1 true]
            (.elem (qparts q).2 (attrsOfC attrs) []) _ kitems kids (masm_noderun_empty q attrs s1)
            (fun pend => by rw [masm_treeKids_elem, masm_treeKids_nil]; rfl) hM) hA
      · exact Or.inr hB
    | «open» _ q attrs s1 tail hc' =>
      have hrun1 : runStk (qparts q :: stk) tail = some fin := hrun
      have hl : tail.length < n := Nat.lt_of_succ_lt_succ hlen
      have hL : (Item.stag q attrs s1 false).Lex T := hlex _ (List.mem_cons_self ..)
      have hS : (Item.stag q attrs s1 false).Sem T := hsem _ (List.mem_cons_self ..)
      have hlexT : ∀ x ∈ tail, x.Lex T := fun x hx => hlex x (List.mem_cons_of_mem _ hx)
      have hsemT : ∀ x ∈ tail, x.Sem T := fun x hx => hsem x (List.mem_cons_of_mem _ hx)
      have hpinT : ∀ x ∈ tail, x.PiN T := fun x hx => hpin x (List.mem_cons_of_mem _ hx)
      rcases ih tail (d + 1) (qparts q :: stk) fin hl hc' (by simp [hstk]) hrun1 hlexT hsemT hpinT
        with hA | hB
      · obtain ⟨kit1, q', s2, rest1, kids1, htail, hk1, hw1, hn1, _, hr1, hs2, hd1, hN1, hM1⟩ := hA
        have hc1 : Content d rest1 := by
          rcases hd1 with ⟨h0, _⟩ | ⟨d', hd', hc1⟩
          · exact absurd h0 (Nat.succ_ne_zero _)
          · have : d = d' := Nat.succ.inj hd'
            rw [this]; exact hc1
        subst htail
        rw [asm_runStk_append, hr1] at hrun1
        have hrun2 : (match stepStk (qparts q :: stk) (Item.etag q' s2) with
              | some stk' => runStk stk' rest1
              | none => none) = some fin := hrun1
        have hstepE : stepStk (qparts q :: stk) (Item.etag q' s2) =
            if qparts q = qparts q' then some stk else none := rfl
        by_cases hqq : qparts q = qparts q'
        · rw [hstepE, if_pos hqq] at hrun2
          have hrun3 : runStk stk rest1 = some fin := hrun2
          have hl1 : rest1.length < n := by
            have : rest1.length < (kit1 ++ Item.etag q' s2 :: rest1).length := by
              simp only [List.length_append, List.length_cons]; omega
            omega
          have hlexR : ∀ x ∈ rest1, x.Lex T := fun x hx =>
            hlexT x (List.mem_append_right _ (List.mem_cons_of_mem _ hx))
          have hsemR : ∀ x ∈ rest1, x.Sem T := fun x hx =>
            hsemT x (List.mem_append_right _ (List.mem_cons_of_mem _ hx))
          have hpinR : ∀ x ∈ rest1, x.PiN T := fun x hx =>
            hpinT x (List.mem_append_right _ (List.mem_cons_of_mem _ hx))
          rcases ih rest1 d stk fin hl1 hc1 hstk hrun3 hlexR hsemR hpinR with hA2 | hB2
          · left
            obtain ⟨kit2, q2, s22, rest2, kids2, rfl, hk2, hw2, hn2, hh2, hr2, hs22, hd2, hN2, hM2⟩ :=
              hA2
            have hg : GWf T (.elem q (attrs.map fun a => (a.n, a.v)) kids1) :=
              asm_gwf_stag T q attrs s1 false kids1 hL hS hn1 hw1
            have hrn : RNode T (.elem q (attrs.map fun a => (a.n, a.v)) kids1)
                ((Item.stag q attrs s1 false).bytes ++
                  (flat kit1 ++ (Item.etag q' s2).bytes)) := by
              have := RNode.elem q q' _ kids1 (attrsBytes attrs) s1 (flat kit1) s2
                (asm_rattrs T attrs hL.2.2) hL.2.1 hk1 hs2 hqq.symm
              rw [asm_elem_bytes] at this
              exact this
            have hMach : MachK (Item.stag q attrs s1 false :: (kit1 ++ Item.etag q' s2 :: kit2))
                (.elem q (attrs.map fun a => (a.n, a.v)) kids1 :: kids2) := by
              have := masm_mach_node (Item.stag q attrs s1 false :: (kit1 ++ [Item.etag q' s2]))
                (.elem (qparts q).2 (attrsOfC attrs) (treeKids none kids1))
                (.elem q (attrs.map fun a => (a.n, a.v)) kids1) kit2 kids2
                (masm_noderun_open q attrs s1 q' s2 kit1 kids1 hM1)
                (fun pend => masm_treeKids_elem pend q _ kids1 kids2) hM2
              have e : (Item.stag q attrs s1 false :: (kit1 ++ [Item.etag q' s2])) ++ kit2 =
                  Item.stag q attrs s1 false :: (kit1 ++ Item.etag q' s2 :: kit2) := by
                simp only [List.cons_append, List.append_assoc, List.nil_append]
              rw [e] at this
              exact this
            refine ⟨Item.stag q attrs s1 false :: (kit1 ++ Item.etag q' s2 :: kit2), q2, s22,
              rest2, .elem q (attrs.map fun a => (a.n, a.v)) kids1 :: kids2, ?_, ?_,
              (asm_gwfall_cons T _ _).2 ⟨hg, hw2⟩, ?_, ?_, ?_, hs22, hd2,
              (masm_normalAll_cons T _ _).2 ⟨(masm_normal_elem T _ _ _).2 hN1, hN2⟩, hMach⟩
            · simp only [List.cons_append, List.append_assoc]
            · have hfl : flat (Item.stag q attrs s1 false :: (kit1 ++ Item.etag q' s2 :: kit2)) =
                  ((Item.stag q attrs s1 false).bytes ++
                    (flat kit1 ++ (Item.etag q' s2).bytes)) ++ flat kit2 := by
                show (Item.stag q attrs s1 false).bytes ++ flat (kit1 ++ Item.etag q' s2 :: kit2) = _
                rw [asm_flat_append]
                show _ ++ (flat kit1 ++ ((Item.etag q' s2).bytes ++ flat kit2)) = _
                simp only [List.append_assoc]
              rw [hfl]
              exact RKids.cons _ _ _ _ hrn hk2
            · apply asm_noAdj_cons _ kids2 hn2
              intro k' r _ h1 _
              exact Bool.noConfusion h1
            · intro k0 ks hk0 h1
              injection hk0 with hk0 _
              subst hk0
              exact Bool.noConfusion h1
            · show runStk (qparts q :: stk) (kit1 ++ Item.etag q' s2 :: kit2) = some stk
              rw [asm_runStk_append, hr1]
              show (match stepStk (qparts q :: stk) (Item.etag q' s2) with
                    | some stk' => runStk stk' kit2
                    | none => none) = some stk
              rw [hstepE, if_pos hqq]
              exact hr2
          · exact Or.inr hB2
        · rw [hstepE, if_neg hqq] at hrun2
          exact absurd hrun2 (by simp)
      · right
        have : (qparts q :: stk).length = stk.length + 1 := rfl
        omega
    | close d' q s2 tail hc' =>
      left
      have hL : (Item.etag q s2).Lex T := hlex _ (List.mem_cons_self ..)
      exact ⟨[], q, s2, tail, [], rfl, RKids.nil, asm_gwfall_nil T, rfl,
        (fun k ks h => by cases h), rfl, hL.2, Or.inr ⟨d', rfl, hc'⟩, masm_normalAll_nil T,
        masm_mach_nil⟩
    | last q s2 =>
      left
      have hL : (Item.etag q s2).Lex T := hlex _ (List.mem_cons_self ..)
      exact ⟨[], q, s2, [], [], rfl, RKids.nil, asm_gwfall_nil T, rfl,
        (fun k ks h => by cases h), rfl, hL.2, Or.inl ⟨rfl, rfl⟩, masm_normalAll_nil T,
        masm_mach_nil⟩

/-! ### The document -/

theorem masm_root (T : Tables) (pre root post : List Item)
    (hpre : ∀ it ∈ pre, it.isMiscI = true) (hpost : ∀ it ∈ post, it.isMiscI = true)
    (hroot : RootShape root)
    (hlex : ∀ it ∈ root, it.Lex T) (hsem : ∀ it ∈ root, it.Sem T) (hpin : ∀ it ∈ root, it.PiN T)
    (hrun : runStk [] (pre ++ root ++ post) = some [])
    (hstag : ∃ it ∈ pre ++ root ++ post, it.isStag = true) :
    ∃ r y, isElem r = true ∧ GWf T r ∧ RNode T r (flat root) ∧ Normal T r ∧ treeOf r = [y] ∧
      NodeRun root y := by
  rcases hroot with rfl | ⟨q, attrs, s1, rfl⟩ | ⟨q, attrs, s1, content, rfl, hcont⟩
  · obtain ⟨it, hit, hs⟩ := hstag
    rw [List.append_nil] at hit
    have hm : it.isMiscI = true := by
      rcases List.mem_append.1 hit with h | h
      · exact hpre it h
      · exact hpost it h
    rw [asm_misc_not_stag it hm] at hs
    exact Bool.noConfusion hs
  · have hL : (Item.stag q attrs s1 true).Lex T := hlex _ (List.mem_cons_self ..)
    have hS : (Item.stag q attrs s1 true).Sem T := hsem _ (List.mem_cons_self ..)
    refine ⟨.elem q (attrs.map fun a => (a.n, a.v)) [],
      .elem (qparts q).2 (attrsOfC attrs) [], rfl,
      asm_gwf_stag T q attrs s1 true [] hL hS rfl (asm_gwfall_nil T), ?_,
      (masm_normal_elem T _ _ _).2 (masm_normalAll_nil T), ?_, masm_noderun_empty q attrs s1⟩
    · show RNode T _ ((Item.stag q attrs s1 true).bytes ++ [])
      rw [List.append_nil]
      exact RNode.empty q _ (attrsBytes attrs) s1 (asm_rattrs T attrs hL.2.2) hL.2.1
    · rw [masm_treeOf_elem, masm_treeKids_nil]; rfl
  · have hL : (Item.stag q attrs s1 false).Lex T := hlex _ (List.mem_cons_self ..)
    have hS : (Item.stag q attrs s1 false).Sem T := hsem _ (List.mem_cons_self ..)
    have hlexC : ∀ x ∈ content, x.Lex T := fun x hx => hlex x (List.mem_cons_of_mem _ hx)
    have hsemC : ∀ x ∈ content, x.Sem T := fun x hx => hsem x (List.mem_cons_of_mem _ hx)
    have hpinC : ∀ x ∈ content, x.PiN T := fun x hx => hpin x (List.mem_cons_of_mem _ hx)
    rw [List.append_assoc, asm_runStk_append, asm_run_misc [] pre hpre] at hrun
    have hrun1 : runStk [qparts q] (content ++ post) = some [] := hrun
    rw [asm_runStk_append] at hrun1
    cases hfin : runStk [qparts q] content with
    | none => rw [hfin] at hrun1; exact absurd hrun1 (by simp)
    | some fin =>
      rw [hfin] at hrun1
      have hrun2 : runStk fin post = some [] := hrun1
      rw [asm_run_misc fin post hpost] at hrun2
      injection hrun2 with hrun2
      subst hrun2
      rcases masm_main T (content.length + 1) content 0 [qparts q] [] (Nat.lt_succ_self _) hcont rfl
        hfin hlexC hsemC hpinC with hA | hB
      · obtain ⟨kitems, q', s2, rest, kids, rfl, hk, hw, hn, _, hr, hs2, hd, hN, hM⟩ := hA
        have hrest : rest = [] := by
          rcases hd with ⟨_, h⟩ | ⟨d', hd', _⟩
          · exact h
          · exact absurd hd' (Nat.succ_ne_zero _).symm
        subst hrest
        rw [asm_runStk_append, hr] at hfin
        have hfin2 : (match stepStk [qparts q] (Item.etag q' s2) with
              | some stk' => runStk stk' []
              | none => none) = some [] := hfin
        have hstepE : stepStk [qparts q] (Item.etag q' s2) =
            if qparts q = qparts q' then some [] else none := rfl
        by_cases hqq : qparts q = qparts q'
        · refine ⟨.elem q (attrs.map fun a => (a.n, a.v)) kids,
            .elem (qparts q).2 (attrsOfC attrs) (treeKids none kids), rfl,
            asm_gwf_stag T q attrs s1 false kids hL hS hn hw, ?_,
            (masm_normal_elem T _ _ _).2 hN, ?_,
            masm_noderun_open q attrs s1 q' s2 kitems kids hM⟩
          · have := RNode.elem q q' _ kids (attrsBytes attrs) s1 (flat kitems) s2
              (asm_rattrs T attrs hL.2.2) hL.2.1 hk hs2 hqq.symm
            rw [asm_elem_bytes] at this
            have hfl : flat (Item.stag q attrs s1 false :: (kitems ++ [Item.etag q' s2])) =
                (Item.stag q attrs s1 false).bytes ++
                  (flat kitems ++ (Item.etag q' s2).bytes) := by
              show (Item.stag q attrs s1 false).bytes ++ flat (kitems ++ [Item.etag q' s2]) = _
              rw [asm_flat_append]
              show _ ++ (flat kitems ++ ((Item.etag q' s2).bytes ++ [])) = _
              rw [List.append_nil]
            rw [hfl]
            exact this
          · rw [masm_treeOf_elem]; rfl
        · rw [hstepE, if_neg hqq] at hfin2
          exact absurd hfin2 (by simp)
      · exact absurd hB (Nat.not_succ_le_zero _)

/-- **Stage C'** -/
theorem assembleM (T : Tables) (bom decl : Bytes) (pre root post : List Item)
    (hbom : bom = [] ∨ bom = Lit.bom) (hdecl : decl = [] ∨ XmlDecl T decl)
    (hpre : ∀ it ∈ pre, it.isMiscI = true) (hpost : ∀ it ∈ post, it.isMiscI = true)
    (hroot : RootShape root)
    (hlex : ∀ it ∈ pre ++ root ++ post, it.Lex T) (hsem : ∀ it ∈ pre ++ root ++ post, it.Sem T)
    (hpin : ∀ it ∈ pre ++ root ++ post, it.PiN T)
    (hrun : runStk [] (pre ++ root ++ post) = some [])
    (hstag : ∃ it ∈ pre ++ root ++ post, it.isStag = true) :
    ∃ x : GDoc, GDocWf T x ∧ DocNormal T x ∧
      RDoc T x (bom ++ decl ++ flat pre ++ flat root ++ flat post) ∧
      (runA initA (pre ++ root ++ post)).pend = none ∧
      (runA initA (pre ++ root ++ post)).out = (none, YKind.root) :: expectAllY 0 1 (docTree x) := by
  obtain ⟨mpre, hmpre, hwpre, hNpre, hMpre⟩ := masm_rmisc T pre hpre
    (fun it h => hlex it (List.mem_append_left _ (List.mem_append_left _ h)))
    (fun it h => hpin it (List.mem_append_left _ (List.mem_append_left _ h)))
  obtain ⟨mpost, hmpost, hwpost, hNpost, hMpost⟩ := masm_rmisc T post hpost
    (fun it h => hlex it (List.mem_append_right _ h))
    (fun it h => hpin it (List.mem_append_right _ h))
  obtain ⟨r, y, he, hg, hr, hNr, hty, hRun⟩ := masm_root T pre root post hpre hpost hroot
    (fun it h => hlex it (List.mem_append_left _ (List.mem_append_right _ h)))
    (fun it h => hsem it (List.mem_append_left _ (List.mem_append_right _ h)))
    (fun it h => hpin it (List.mem_append_left _ (List.mem_append_right _ h))) hrun hstag
  refine ⟨⟨mpre, r, mpost⟩, ⟨he, hg, hwpre, hwpost⟩, ⟨hNpre, hNr, hNpost⟩,
    RDoc.mk mpre r mpost bom decl _ _ _ hbom hdecl hmpre hr hmpost, ?_⟩
  rw [runA_append, runA_append]
  obtain ⟨s1, f1⟩ := hMpre initA 0 [] rfl
  have s1' : (runA initA pre).stk = 0 :: [] := s1
  rw [hRun (runA initA pre) 0 [] s1']
  obtain ⟨s3, f3⟩ := hMpost ⟨(runA initA pre).flushed ++
    expectY 0 (runA initA pre).flushed.length y, none, (runA initA pre).stk⟩ 0 [] s1'
  have p3 := masm_misc_pend post hpost ⟨(runA initA pre).flushed ++
    expectY 0 (runA initA pre).flushed.length y, none, (runA initA pre).stk⟩ rfl
  refine ⟨p3, ?_⟩
  have ho : ∀ a : AS, a.pend = none → a.out = a.flushed := by
    intro a ha
    unfold AS.flushed
    rw [ha, List.append_nil]
  rw [ho _ p3, f3, f1]
  show ([(none, YKind.root)] ++ expectAllY 0 1 (treeKids none mpre) ++
      expectY 0 ([(none, YKind.root)] ++ expectAllY 0 1 (treeKids none mpre)).length y) ++
    expectAllY 0 (([(none, YKind.root)] ++ expectAllY 0 1 (treeKids none mpre) ++
      expectY 0 ([(none, YKind.root)] ++ expectAllY 0 1 (treeKids none mpre)).length y)).length
      (treeKids none mpost) =
    (none, YKind.root) :: expectAllY 0 1 (treeKids none mpre ++ treeOf r ++ treeKids none mpost)
  have hd : treeKids none mpre ++ treeOf r ++ treeKids none mpost =
      treeKids none mpre ++ (y :: treeKids none mpost) := by
    rw [hty, List.append_assoc]
    rfl
  rw [hd, masm_expectAllY_append, masm_expectAllY_cons]
  simp only [List.length_append, List.length_cons, masm_length_expectAllY,
    masm_length_expectY, List.append_assoc, List.cons_append, List.nil_append,
    Nat.add_comm, Nat.add_left_comm]

end Rox.Lemmas
