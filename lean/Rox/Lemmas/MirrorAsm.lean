/-
  Rox.Lemmas.MirrorAsm — Stage C' of the proof of `accepted_tree_mirrors`: Stage C of the
  grammar-soundness proof (`Rox.Lemmas.GrammarAsm`) once more, carrying the tree: the abstract
  document `x` assembled from the flat list of items is in PI normal form, and the abstract arena
  machine `runA` (`Rox.Lemmas.MirrorDefs`) run over the items yields exactly the root node followed
  by the nodes of `docTree x` in document order. Pure list combinatorics.
-/
import Rox.Lemmas.MirrorDefs
import Rox.Lemmas.GrammarAsm

namespace Rox.Lemmas
open Rox Rox.Spec Rox.Spec.Grammar Rox.Spec.Canon4 Rox.Spec.Mirror

/-- **Stage C'** -/
theorem assembleM (T : Tables) (bom decl : Bytes) (pre root post : List Item)
    (hbom : bom = [] ∨ bom = Lit.bom) (hdecl : decl = [] ∨ XmlDecl T decl)
    (hpre : ∀ it ∈ pre, it.isMiscI = true) (hpost : ∀ it ∈ post, it.isMiscI = true)
    (hroot : RootShape root)
    (hlex : ∀ it ∈ pre ++ root ++ post, it.Lex T) (hsem : ∀ it ∈ pre ++ root ++ post, it.Sem T)
    (hpin : ∀ it ∈ pre ++ root ++ post, it.PiN T)
    (hrun : runStk [] (pre ++ root ++ post) = some [])
    (hstag : ∃ it ∈ pre ++ root ++ post, it.isStag = true) :
    ∃ x : GDoc, GDocWf T x ∧ DocNormal T x ∧
      RDoc T x (bom ++ decl ++ flat pre ++ flat root ++ flat post) ∧
      (runA initA (pre ++ root ++ post)).pend = none ∧
      (runA initA (pre ++ root ++ post)).out = (none, YKind.root) :: expectAllY 0 1 (docTree x) := by
  sorry

end Rox.Lemmas
