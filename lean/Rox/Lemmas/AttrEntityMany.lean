/-
  Rox.Lemmas.AttrEntityMany — C07 in attribute values, any number of references: a value
  `p0 &n1; p1 &n2; p2 … &nk; pk` (every `pi` literal, every `ni` the name of a declared entity whose
  replacement text is literal; the same entity may occur several times) is normalised, at entity
  depth 0, to the normalisation of the parts written one after the other.
-/
import Rox.Lemmas.AttrEntity

namespace Rox.Lemmas
open Rox Rox.Spec Rox.Props.C04

/-- One segment of the value after the first literal: the name of the reference, the entity it
denotes, and the literal run after the reference. -/
abbrev Seg := Span × Entity × Bytes

/-- `&n1; p1 &n2; p2 … &nk; pk` -/
def valueTail : List Seg → Bytes
  | [] => []
  | (n, _, q) :: segs => [bAmp] ++ n.bytes ++ [bSemi] ++ q ++ valueTail segs

/-- `p0 &n1; p1 … &nk; pk` -/
def valueOf (p0 : Bytes) (segs : List Seg) : Bytes := p0 ++ valueTail segs

/-- `attrLit e1.value ++ attrLit p1 ++ … ++ attrLit ek.value ++ attrLit pk` -/
def expectedTail : List Seg → Bytes
  | [] => []
  | (_, e, q) :: segs => attrLit e.value.bytes ++ attrLit q ++ expectedTail segs

/-- `attrLit p0 ++ attrLit e1.value ++ attrLit p1 ++ … ++ attrLit ek.value ++ attrLit pk` -/
def expected (p0 : Bytes) (segs : List Seg) : Bytes := attrLit p0 ++ expectedTail segs

/-- Every reference is recognised by `consume_reference` at its position: the stream that starts at
the `&` of segment `i` (at offset `pos`) yields `some (.entity ni)` and the stream just after the
`;`. -/
def RefsOk (T : Tables) (txt : Bytes) : Nat → List Seg → Prop
  | _, [] => True
  | pos, (n, _, q) :: segs =>
    (Stream.mk pos ([bAmp] ++ n.bytes ++ [bSemi] ++ q ++ valueTail segs)).consumeReference T txt =
        .ok (⟨pos + n.bytes.length + 2, q ++ valueTail segs⟩, some (.entity n)) ∧
      RefsOk T txt (pos + n.bytes.length + 2 + q.length) segs

/-- Every name is declared, with a literal replacement text, and every literal run is literal. -/
def SegsOk (ents : List Entity) (segs : List Seg) : Prop :=
  ∀ s ∈ segs, findEntity ents s.1.bytes = some s.2.1 ∧ litOk s.2.1.value.bytes ∧ litOk s.2.2

theorem valueTail_head (segs : List Seg) : valueTail segs = [] ∨ ∃ r, valueTail segs = bAmp :: r := by
  cases segs with
  | nil => exact Or.inl rfl
  | cons s segs => obtain ⟨n, e, q⟩ := s; exact Or.inr ⟨_, by simp only [valueTail, List.cons_append, List.nil_append, List.append_assoc]; rfl⟩

/-- The byte loop on `&n1; p1 … &nk; pk` at depth 0 (positioned at the first `&`, or at the end of
the value): if it succeeds, the buffer has received the normalisation of the parts, and the loop
detector is at rest (untouched if there was no reference). -/
theorem normAttrLoop_segs (T : Tables) (txt : Bytes) (ents : List Entity) (d : Nat)
    (res : TextBuffer × LD × List Ev) :
    ∀ (segs : List Seg) (pos fuel : Nat) (buf : TextBuffer) (ld : LD) (tr : List Ev),
      ld.depth = 0 → SegsOk ents segs → RefsOk T txt pos segs → buf.pendingCr = false →
      normAttrLoop T txt ents (normAttrRec T txt ents (d + 1)) fuel ⟨pos, valueTail segs⟩ buf ld tr =
        .ok res →
      ∃ b' tr', res = (b', (if segs = [] then ld else ⟨0, 0⟩), tr') ∧ b'.pendingCr = false ∧
        Props.C05.out b' = Props.C05.out buf ++ expectedTail segs := by
  intro segs
  induction segs with
  | nil =>
    intro pos fuel buf ld tr _ _ _ hb h
    cases fuel with
    | zero => simp [normAttrLoop] at h
    | succ f =>
      rw [normAttrLoop] at h
      simp only [valueTail, Res.ok.injEq] at h
      exact ⟨buf, tr, by simp [← h], hb, by simp [expectedTail]⟩
  | cons s segs ih =>
    obtain ⟨n, e, q⟩ := s
    intro pos fuel buf ld tr hd hs hr hb h
    obtain ⟨hfind, hv, hq⟩ := hs (n, e, q) (by simp)
    have hs' : SegsOk ents segs := fun x hx => hs x (by simp [hx])
    obtain ⟨hcr, hr'⟩ := hr
    dsimp only at hfind hv hq
    have hvt : valueTail ((n, e, q) :: segs) = bAmp :: (n.bytes ++ (bSemi :: (q ++ valueTail segs))) := by
      simp [valueTail]
    have hcr' : (Stream.mk pos (bAmp :: (n.bytes ++ (bSemi :: (q ++ valueTail segs))))).consumeReference
        T txt = .ok (⟨pos + n.bytes.length + 2, q ++ valueTail segs⟩, some (.entity n)) := by
      have : bAmp :: (n.bytes ++ (bSemi :: (q ++ valueTail segs))) =
          [bAmp] ++ n.bytes ++ [bSemi] ++ q ++ valueTail segs := by simp
      rw [this]; exact hcr
    rw [hvt] at h
    cases fuel with
    | zero => simp [normAttrLoop] at h
    | succ f1 =>
      rw [normAttrLoop] at h
      have hne : (bAmp != bAmp) = false := by decide
      have hir : ld.incRefs = some ld := by simp [LD.incRefs, hd]
      have hid : ld.incDepth = some ⟨1, ld.refs⟩ := by simp [LD.incDepth, hd]
      simp only [hne, Bool.false_eq_true, if_false, hcr', Res.bind_ok, hfind, hir, hid] at h
      rw [Res.bind_eq_ok] at h
      obtain ⟨_, _, h⟩ := h
      rw [Res.bind_eq_ok] at h
      obtain ⟨⟨buf2, ld3, tr3⟩, hin, h⟩ := h
      rw [normAttrRec] at hin
      rw [Props.C05.normAttrLoop_literal T txt ents _ _ _ e.value.bytes _ _ _
        (Nat.lt_succ_self _) hv] at hin
      simp only [Res.ok.injEq, Prod.mk.injEq] at hin
      obtain ⟨rfl, rfl, rfl⟩ := hin
      dsimp only at h
      have hdd : (LD.mk 1 ld.refs).decDepth = ⟨0, 0⟩ := by simp [LD.decDepth]
      rw [hdd] at h
      obtain ⟨fuel2, h2⟩ := normAttrLoop_lit T txt ents _ _ _ (valueTail segs) (valueTail_head segs) _ q
        f1 _ _ (fun x hx => (hq x hx).1) h
      obtain ⟨b', tr', e1, e2, e3⟩ := ih _ fuel2 _ ⟨0, 0⟩ _ rfl hs' hr'
        (by rw [pushLit_pending, pushLit_pending]; exact hb) h2
      refine ⟨b', tr', ?_, e2, ?_⟩
      · rw [e1]; simp
      · rw [e3, Props.C05.pushLit_spec, Props.C05.pushLit_spec]
        simp [expectedTail]

/-- **Any number of entity references in an attribute value, entity depth 0**: the value is
`p0 &n1; p1 … &nk; pk` with `k ≥ 1`, literal `pi`; every `ni` is declared with a literal
replacement text; every reference is recognised by `consume_reference` at its position (`hcr`). If
`normalize_attribute` succeeds, the result is owned and equals the normalisation of the `2k + 1`
parts written one after the other, and the loop detector is at rest. -/
theorem normalizeAttribute_entities (T : Tables) (txt : Bytes) (c c' : Ctx) (value : Span) (out : Str)
    (p0 : Bytes) (segs : List Seg)
    (hd : c.ld.depth = 0)
    (hk : segs ≠ [])
    (hval : value.bytes = valueOf p0 segs)
    (hp : litOk p0) (hsegs : SegsOk c.entities segs)
    (hcr : RefsOk T txt (value.off + p0.length) segs)
    (h : normalizeAttribute T txt c value = .ok (c', out)) :
    out = .owned (expected p0 segs) ∧ c'.ld = ⟨0, 0⟩ := by
  have hneed : value.bytes.any (fun b => b == bAmp || b == bTab || b == bLF || b == bCR) = true := by
    rw [hval, valueOf]
    rcases valueTail_head segs with h0 | ⟨r, h0⟩
    · cases segs with
      | nil => exact absurd rfl hk
      | cons s segs => obtain ⟨n, e, q⟩ := s; simp [valueTail] at h0
    · rw [h0]; simp
  unfold normalizeAttribute at h
  simp only [hneed, if_true] at h
  rw [Res.bind_eq_ok] at h
  obtain ⟨⟨buf, ld, tr⟩, hrec, h⟩ := h
  rw [Res.bind_eq_ok] at h
  obtain ⟨o, hfin, h⟩ := h
  res_norm at h
  obtain ⟨rfl, rfl⟩ := h
  have hdf : depthFuel = 11 + 1 := rfl
  rw [hdf, normAttrRec] at hrec
  generalize value.bytes.length + 1 = fuel0 at hrec
  rw [hval, valueOf] at hrec
  obtain ⟨fuel1, h1⟩ := normAttrLoop_lit T txt c.entities _ c.ld c.trace _ (valueTail_head segs) _ p0
    fuel0 value.off {} (fun x hx => (hp x hx).1) hrec
  obtain ⟨b', tr', e1, e2, e3⟩ := normAttrLoop_segs T txt c.entities 10 _ segs _ fuel1 _ c.ld _ hd hsegs hcr
    (by rw [pushLit_pending]) h1
  simp only [hk, if_false, Prod.mk.injEq] at e1
  obtain ⟨rfl, rfl, rfl⟩ := e1
  refine ⟨?_, rfl⟩
  have ho := finish_content _ _ hfin
  dsimp only at ho
  have hc : Props.C04.content buf = Props.C05.out buf := by
    simp [Props.C04.content, TextBuffer.resolvePendingCr, e2, Props.C05.out]
  rw [hc, e3, Props.C05.pushLit_spec] at ho
  subst ho
  simp [Props.C05.out, expected]

/-- Without TAB, LF, CR nothing is normalised. -/
theorem attrLit_id : ∀ l : Bytes, (∀ b ∈ l, b ≠ bTab ∧ b ≠ bLF ∧ b ≠ bCR) → attrLit l = l := by
  intro l
  induction l using attrLit.induct with
  | case1 => intro _; simp [attrLit]
  | case2 r _ => intro h; exact absurd rfl (h 13 (by simp)).2.2
  | case3 x r hne ih =>
    intro h
    have hx := h x (by simp)
    have hat : attrLit (x :: r) = (if x == 13 || x == 10 || x == 9 then 32 else x) :: attrLit r := by
      rw [attrLit]; exact hne
    rw [hat, ih (fun b hb => h b (by simp [hb]))]
    have h1 : (x == 13) = false := by simpa [bCR] using hx.2.2
    have h2 : (x == 10) = false := by simpa [bLF] using hx.2.1
    have h3 : (x == 9) = false := by simpa [bTab] using hx.1
    simp [h1, h2, h3]

/-- **The same for every `k ≥ 0`, on the bytes of the result** (with no reference and nothing to
normalise the fast path returns the value borrowed; its bytes are still the normalisation): the
bytes are the normalisation of the parts, and the loop detector is at rest — untouched when there
is no reference. -/
theorem normalizeAttribute_entities_bytes (T : Tables) (txt : Bytes) (c c' : Ctx) (value : Span)
    (out : Str) (p0 : Bytes) (segs : List Seg)
    (hd : c.ld.depth = 0)
    (hval : value.bytes = valueOf p0 segs)
    (hp : litOk p0) (hsegs : SegsOk c.entities segs)
    (hcr : RefsOk T txt (value.off + p0.length) segs)
    (h : normalizeAttribute T txt c value = .ok (c', out)) :
    out.bytes = expected p0 segs ∧ c'.ld = (if segs = [] then c.ld else ⟨0, 0⟩) := by
  by_cases hk : segs = []
  · subst hk
    simp only [valueOf, valueTail, List.append_nil] at hval
    simp only [expected, expectedTail, List.append_nil, if_true]
    unfold normalizeAttribute at h
    split at h
    · rw [Res.bind_eq_ok] at h
      obtain ⟨⟨buf, ld, tr⟩, hrec, h⟩ := h
      rw [Res.bind_eq_ok] at h
      obtain ⟨o, hfin, h⟩ := h
      res_norm at h
      obtain ⟨rfl, rfl⟩ := h
      have hdf : depthFuel = 11 + 1 := rfl
      rw [hdf, normAttrRec, hval] at hrec
      rw [Props.C05.normAttrLoop_literal T txt c.entities _ _ _ p0 _ _ _ (Nat.lt_succ_self _) hp] at hrec
      simp only [Res.ok.injEq, Prod.mk.injEq] at hrec
      obtain ⟨rfl, rfl, rfl⟩ := hrec
      refine ⟨?_, rfl⟩
      have ho := finish_content _ _ hfin
      have hc : Props.C04.content (Props.C05.pushLit {} p0) = Props.C05.out (Props.C05.pushLit {} p0) := by
        simp [Props.C04.content, TextBuffer.resolvePendingCr, pushLit_pending, Props.C05.out]
      rw [hc, Props.C05.pushLit_spec] at ho
      subst ho
      simp [Props.C05.out, Str.bytes]
    · rename_i hno
      res_norm at h
      obtain ⟨rfl, rfl⟩ := h
      refine ⟨?_, rfl⟩
      simp only [Str.bytes, hval]
      refine (attrLit_id p0 ?_).symm
      intro b hb
      rw [hval] at hno
      simp only [List.any_eq_true, not_exists, not_and, Bool.or_eq_true, beq_iff_eq, not_or] at hno
      have := hno b hb
      exact ⟨this.1.1.2, this.1.2, this.2⟩
  · obtain ⟨h1, h2⟩ := normalizeAttribute_entities T txt c c' value out p0 segs hd hk hval hp hsegs hcr h
    simp [h1, h2, hk, Str.bytes]

/-- The lemma for one reference is the instance `k = 1`. -/
example (T : Tables) (txt : Bytes) (c c' : Ctx) (value : Span) (out : Str)
    (p q : Bytes) (name : Span) (e : Entity)
    (hd : c.ld.depth = 0)
    (hval : value.bytes = p ++ [bAmp] ++ name.bytes ++ [bSemi] ++ q)
    (hp : litOk p) (hq : litOk q) (hv : litOk e.value.bytes)
    (hcr : (Stream.mk (value.off + p.length) ([bAmp] ++ name.bytes ++ [bSemi] ++ q)).consumeReference T txt =
      .ok (⟨value.off + p.length + name.bytes.length + 2, q⟩, some (.entity name)))
    (hfind : findEntity c.entities name.bytes = some e)
    (h : normalizeAttribute T txt c value = .ok (c', out)) :
    out = .owned (attrLit p ++ attrLit e.value.bytes ++ attrLit q) ∧ c'.ld = ⟨0, 0⟩ := by
  have := normalizeAttribute_entities T txt c c' value out p [(name, e, q)] hd (by simp)
    (by simp [hval, valueOf, valueTail]) hp
    (by intro s hs; simp at hs; subst hs; exact ⟨hfind, hv, hq⟩)
    (by simpa [RefsOk, valueTail] using hcr) h
  simpa [expected, expectedTail] using this

/-! ### The hypotheses are satisfiable: `a&e;b&f;&e;c` with `e` = `x TAB y CR LF`, `f` = `z` -/

namespace ManyExample

def txt : Bytes := []
def entE : Entity := ⟨⟨0, [101]⟩, ⟨0, [120, 9, 121, 13, 10]⟩⟩
def entF : Entity := ⟨⟨0, [102]⟩, ⟨0, [122]⟩⟩
def ctx : Ctx := { nodesLimit := 10, positions := false, entities := [entE, entF], doc := ⟨#[], #[], {}⟩ }
/-- `a&e;b&f;&e;c` at offset 5 -/
def value : Span := ⟨5, [97, 38, 101, 59, 98, 38, 102, 59, 38, 101, 59, 99]⟩
def segs : List Seg := [(⟨7, [101]⟩, entE, [98]), (⟨11, [102]⟩, entF, []), (⟨14, [101]⟩, entE, [99])]

example : value.bytes = valueOf [97] segs := by decide
example : litOk [97] := by unfold litOk; decide
example : SegsOk ctx.entities segs := by unfold SegsOk litOk; decide
example : RefsOk Generated.tables txt (value.off + [97].length) segs := by
  simp only [segs, RefsOk, valueTail]; decide +kernel
example : expected [97] segs = [97, 120, 32, 121, 32, 98, 122, 120, 32, 121, 32, 99] := by decide
/-- … and `normalize_attribute` does succeed on it, with that result. -/
example : (normalizeAttribute Generated.tables txt ctx value).toOption.map (·.2) =
    some (.owned (expected [97] segs)) := by decide +kernel

/-- The theorem applied to the example. -/
example (c' : Ctx) (out : Str) (h : normalizeAttribute Generated.tables txt ctx value = .ok (c', out)) :
    out = .owned [97, 120, 32, 121, 32, 98, 122, 120, 32, 121, 32, 99] ∧ c'.ld = ⟨0, 0⟩ :=
  normalizeAttribute_entities Generated.tables txt ctx c' value out [97] segs rfl (by decide) (by decide)
    (by unfold litOk; decide) (by unfold SegsOk litOk; decide)
    (by simp only [segs, RefsOk, valueTail]; decide +kernel) h

end ManyExample

-- #print axioms normalizeAttribute_entities        -- [propext, Classical.choice, Quot.sound]
-- #print axioms normalizeAttribute_entities_bytes  -- [propext, Classical.choice, Quot.sound]

end Rox.Lemmas
