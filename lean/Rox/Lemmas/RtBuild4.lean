/-
  Rox.Lemmas.RtBuild4 — the builder fed with the expected tokens of a whole document
  (`Rox.Spec.Canon4.docToks`) builds exactly the expected arena: the root node, then the Misc items
  of the prolog, the root element's subtree and the Misc items of the epilog as children of the root
  node in source order (read back through `viewY`), and `parse` succeeds.
-/
import Rox.Spec.Canon4
import Rox.Lemmas.RtBuild

namespace Rox.Lemmas
open Rox Rox.Spec.Canon Rox.Spec.Canon4

namespace RtB4
open RtB

/-! ### What `viewY` reads of a node -/

def viewKPY (attrs : List AttrData) (x : Kind × Option Nat) : Option (Option Nat × YKind) :=
  match x.1 with
  | .root => some (x.2, .root)
  | .comment s => some (x.2, .comment s.bytes)
  | .text s => some (x.2, .text s.bytes)
  | .pi t v => some (x.2, .pi t.bytes (v.map (·.bytes)))
  | .element nsIdx name at_ _ =>
    if nsIdx.isSome then none
    else
      let as := (attrs.drop at_.1).take (at_.2 - at_.1)
      if as.any (fun a => a.nsIdx.isSome) then none
      else some (x.2, .elem name.bytes (as.map fun a => (a.localName.bytes, a.value.bytes)))

theorem viewY_eq (d : Doc) (n : NodeData) : viewY d n = viewKPY d.attrs.toList (kp n) := by
  obtain ⟨p, a, b, c, k, r⟩ := n
  cases k <;> rfl

theorem viewKPY_stable (s : Nat) (l more : List AttrData) (x : Kind × Option Nat)
    (h : good s l.length x.1) : viewKPY (l ++ more) x = viewKPY l x := by
  obtain ⟨k, p⟩ := x
  cases k with
  | element ns name at_ nss =>
    simp only [good] at h
    simp only [viewKPY, take_drop_append l more at_.1 at_.2 h.1]
  | _ => rfl

section steps
variable (T : Tables) (txt : Bytes) (lower : Token → Ctx → Res Ctx)

theorem step_pi (c : Ctx) (t : Span) (v : Option Span) (r : Range)
    (hb : BInv c) (hl : c.nodesLimit ≤ 4294967295) (hroom : c.doc.nodes.size < c.nodesLimit)
    (hat : c.afterText.length ≤ 1) :
    ∃ c', tokenStep T txt lower (.pi t v r) c = .ok c' ∧
      core c' = { core c with doc := c'.doc, afterText := [] } ∧
      kps c' = kps c ++ [(.pi t v, some c.parentId)] ∧
      c'.doc.attrs = c.doc.attrs ∧ c'.doc.ns = c.doc.ns := by
  unfold tokenStep
  dsimp only
  rw [resetAfterText_ok _ (by simpa [Ctx.log] using hat)]
  simp only [Res.bind_ok]
  obtain ⟨c', h, hk, hc, h1, h2⟩ := appendNode_fwd
    { c.log (.token (.pi t v r)) with afterText := [] } (.pi t v) r
    (hb.congr rfl rfl rfl) hl hroom
  rw [h]
  exact ⟨c', rfl, hc, hk, h1, h2⟩

end steps

/-! ### What feeding the tokens of a subtree achieves -/

structure BuiltY (s : Nat) (c c' : Ctx) (N A : Nat) (L : List (Option Nat × YKind)) : Prop where
  inv : Inv s c'
  pid : c'.parentId = c.parentId
  pp : c'.parentPrefixes = c.parentPrefixes
  fl : c'.entityFloor = c.entityFloor
  lim : c'.nodesLimit = c.nodesLimit
  tag : c.tagName.name ≠ [] → c'.tagName.name ≠ []
  size : c'.doc.nodes.size = c.doc.nodes.size + N
  asize : c'.doc.attrs.size = c.doc.attrs.size + A
  grow : ∃ K more, kps c' = kps c ++ K ∧ c'.doc.attrs.toList = c.doc.attrs.toList ++ more ∧
    K.map (viewKPY c'.doc.attrs.toList) = L.map some

theorem BuiltY.refl {s : Nat} {c : Ctx} (h : Inv s c) : BuiltY s c c 0 0 [] :=
  ⟨h, rfl, rfl, rfl, rfl, id, rfl, rfl, [], [], by simp, by simp, rfl⟩

theorem BuiltY.trans {s : Nat} {c c1 c2 : Ctx} {N1 N2 A1 A2 : Nat} {L1 L2 : List (Option Nat × YKind)}
    (h1 : BuiltY s c c1 N1 A1 L1) (h2 : BuiltY s c1 c2 N2 A2 L2) :
    BuiltY s c c2 (N1 + N2) (A1 + A2) (L1 ++ L2) := by
  obtain ⟨K1, m1, hk1, ha1, hv1⟩ := h1.grow
  obtain ⟨K2, m2, hk2, ha2, hv2⟩ := h2.grow
  refine ⟨h2.inv, h2.pid.trans h1.pid, h2.pp.trans h1.pp, h2.fl.trans h1.fl, h2.lim.trans h1.lim,
    fun h => h2.tag (h1.tag h), by rw [h2.size, h1.size]; omega, by rw [h2.asize, h1.asize]; omega,
    K1 ++ K2, m1 ++ m2, by rw [hk2, hk1, List.append_assoc], by rw [ha2, ha1, List.append_assoc], ?_⟩
  rw [List.map_append, List.map_append, hv2, ← hv1]
  congr 1
  apply List.map_congr_left
  intro x hx
  rw [ha2]
  apply viewKPY_stable s
  have : x ∈ kps c1 := by rw [hk1]; exact List.mem_append_right _ hx
  have := h1.inv.good x this
  simpa using this

theorem built_leafY {s : Nat} {c c' : Ctx} {k : Kind} {X : List Str} {v : Option Nat × YKind}
    (hi : Inv s c) (hb' : BInv c') (hX : X.length ≤ 1)
    (hc : core c' = { core c with doc := c'.doc, afterText := X })
    (hk : kps c' = kps c ++ [(k, some c.parentId)]) (ha : c'.doc.attrs = c.doc.attrs)
    (hns : c'.doc.ns = c.doc.ns)
    (hg : ∀ na, good s na k) (hv : ∀ l, viewKPY l (k, some c.parentId) = some v) :
    BuiltY s c c' 1 0 [v] := by
  have e1 : c'.nodesLimit = c.nodesLimit := congrArg Core.nodesLimit hc
  have e2 : c'.curAttrs = c.curAttrs := congrArg Core.curAttrs hc
  have e3 : c'.nsStartIdx = c.nsStartIdx := congrArg Core.nsStartIdx hc
  have e4 : c'.entityFloor = c.entityFloor := congrArg Core.entityFloor hc
  have e5 : c'.afterText = X := congrArg Core.afterText hc
  have e6 : c'.parentId = c.parentId := congrArg Core.parentId hc
  have e7 : c'.parentPrefixes = c.parentPrefixes := congrArg Core.parentPrefixes hc
  have e8 : c'.tagName = c.tagName := congrArg Core.tagName hc
  have hsz : c'.doc.nodes.size = c.doc.nodes.size + 1 := by
    have := congrArg List.length hk
    simpa [kps_length] using this
  refine ⟨⟨hb', by rw [e1]; exact hi.lim, by rw [e2]; exact hi.cur, by rw [e3]; exact hi.ns1,
      by rw [hns]; exact hi.ns2, by rw [e4, e7]; exact hi.floor, by rw [e5]; exact hX, ?_⟩,
    e6, e7, e4, e1, by rw [e8]; exact id, hsz, by rw [ha]; rfl, [(k, some c.parentId)], [], hk,
    by rw [ha]; simp, by simp [hv]⟩
  intro x hx
  rw [hk] at hx
  rw [ha]
  rcases List.mem_append.mp hx with hx | hx
  · exact hi.good x hx
  · simp only [List.mem_singleton] at hx
    subst hx
    exact hg _

section main
variable (T : Tables) (txt : Bytes) (lower : Token → Ctx → Res Ctx)
  (hlower : ∀ t c c', BInv c → lower t c = .ok c' → BInv c')
include hlower

theorem build_commentY (s p : Nat) (c : Ctx) (body : Bytes) (hi : Inv s c)
    (hroom : c.doc.nodes.size + 1 ≤ c.nodesLimit) :
    ∃ c', feed (tokenStep T txt lower) (toksY p (.comment body)) c = .ok c' ∧
      BuiltY s c c' 1 0 (expectY c.parentId c.doc.nodes.size (.comment body)) ∧
      c'.afterText = [] := by
  obtain ⟨c', hs, hc, hk, ha, hns⟩ := step_comment T txt lower c (p + 4) body (p, p + 7 + body.length)
    hi.binv hi.lim (by omega) hi.at1
  have hb' : BInv c' := binv_tokenStep T txt lower hlower _ c c' hi.binv hs
  refine ⟨c', ?_, ?_, congrArg Core.afterText hc⟩
  · simp only [toksY]
    rw [feed_cons_ok hs]; rfl
  · simp only [expectY]
    exact built_leafY hi hb' (by simp) hc hk ha hns (fun _ => trivial) (fun _ => rfl)

theorem build_piY (s p : Nat) (c : Ctx) (t v : Bytes) (hi : Inv s c)
    (hroom : c.doc.nodes.size + 1 ≤ c.nodesLimit) :
    ∃ c', feed (tokenStep T txt lower) (toksY p (.pi t v)) c = .ok c' ∧
      BuiltY s c c' 1 0 (expectY c.parentId c.doc.nodes.size (.pi t v)) ∧
      c'.afterText = [] := by
  by_cases hv : v.isEmpty = true
  · obtain ⟨c', hs, hc, hk, ha, hns⟩ := step_pi T txt lower c ⟨p + 2, t⟩ none (p, p + 4 + t.length)
      hi.binv hi.lim (by omega) hi.at1
    have hb' : BInv c' := binv_tokenStep T txt lower hlower _ c c' hi.binv hs
    refine ⟨c', ?_, ?_, congrArg Core.afterText hc⟩
    · simp only [toksY, hv, if_true]
      rw [feed_cons_ok hs]; rfl
    · simp only [expectY, hv, if_true]
      exact built_leafY hi hb' (by simp) hc hk ha hns (fun _ => trivial) (fun _ => rfl)
  · have hv : v.isEmpty = false := by simpa using hv
    obtain ⟨c', hs, hc, hk, ha, hns⟩ := step_pi T txt lower c ⟨p + 2, t⟩
      (some ⟨p + 3 + t.length, v⟩) (p, p + 5 + t.length + v.length)
      hi.binv hi.lim (by omega) hi.at1
    have hb' : BInv c' := binv_tokenStep T txt lower hlower _ c c' hi.binv hs
    refine ⟨c', ?_, ?_, congrArg Core.afterText hc⟩
    · simp only [toksY, hv, Bool.false_eq_true, if_false]
      rw [feed_cons_ok hs]; rfl
    · simp only [expectY, hv, Bool.false_eq_true, if_false]
      exact built_leafY hi hb' (by simp) hc hk ha hns (fun _ => trivial) (fun _ => rfl)

theorem build_textY (s p : Nat) (c : Ctx) (t : Bytes) (hi : Inv s c) (ht : textOk t = true)
    (hat : c.afterText = [])
    (hroom : c.doc.nodes.size + 1 ≤ c.nodesLimit) :
    ∃ c', feed (tokenStep T txt lower) (toksY p (.text t)) c = .ok c' ∧
      BuiltY s c c' 1 0 (expectY c.parentId c.doc.nodes.size (.text t)) := by
  obtain ⟨c', hs, hc, hk, ha, hns⟩ := step_text T txt lower c p t (p, p + t.length)
    hi.binv hi.lim (by omega) hat ht
  have hb' : BInv c' := binv_tokenStep T txt lower hlower _ c c' hi.binv hs
  refine ⟨c', ?_, ?_⟩
  · simp only [toksY]
    rw [feed_cons_ok hs]; rfl
  · simp only [expectY]
    exact built_leafY hi hb' (by simp) hc hk ha hns (fun _ => trivial) (fun _ => rfl)

theorem build_elemY (s p : Nat) (c : Ctx) (n : Bytes) (as : List (Bytes × Bytes)) (ks : List YNode)
    (ih : ∀ (p : Nat) (c : Ctx), Inv s c →
      (∀ k r, ks = k :: r → isTextY k = true → c.afterText = []) →
      c.doc.nodes.size + countAllY ks ≤ c.nodesLimit →
      c.doc.attrs.size + attrCountAllY ks < 4294967295 →
      ∃ c', feed (tokenStep T txt lower) (toksAllY p ks) c = .ok c' ∧
        BuiltY s c c' (countAllY ks) (attrCountAllY ks) (expectAllY c.parentId c.doc.nodes.size ks))
    (hn : nameOk n = true) (has : attrsOk as = true) (hi : Inv s c)
    (hroom : c.doc.nodes.size + (1 + countAllY ks) ≤ c.nodesLimit)
    (haroom : c.doc.attrs.size + (as.length + attrCountAllY ks) < 4294967295) :
    ∃ c', feed (tokenStep T txt lower) (toksY p (.elem n as ks)) c = .ok c' ∧
      BuiltY s c c' (1 + countAllY ks) (as.length + attrCountAllY ks)
        (expectY c.parentId c.doc.nodes.size (.elem n as ks)) ∧
      c'.afterText = [] := by
  have hn0 : n ≠ [] := by
    intro h; subst h; simp [nameOk] at hn
  have has' : ∀ a ∈ as, a.1 ≠ Lit.xmlns ∧ valueOk a.2 = true := by
    intro a ha
    simp only [attrsOk, Bool.and_eq_true, List.all_eq_true, bne_iff_ne, ne_eq,
      decide_eq_true_eq] at has
    have := has.1 a ha
    exact ⟨this.1.2, this.2⟩
  have hnd : (as.map (·.1)).Nodup := by
    simp only [attrsOk, Bool.and_eq_true, decide_eq_true_eq] at has
    exact has.2
  obtain ⟨p2, hp2⟩ : ∃ p2, p2 = p + 1 + n.length + attrsLen as := ⟨_, rfl⟩
  obtain ⟨p3, hp3⟩ : ∃ p3, p3 = p2 + 1 + (renderAllY ks).length := ⟨_, rfl⟩
  have htoks : toksY p (.elem n as ks) =
      [Token.elementStart ⟨p + 1, []⟩ ⟨p + 1, n⟩ p] ++ attrToks (p + 1 + n.length) as ++
        [Token.elementEnd .open (p2, p2 + 1)] ++ toksAllY (p2 + 1) ks ++
        [Token.elementEnd (.close ⟨p3 + 2, []⟩ ⟨p3 + 2, n⟩) (p3, p3 + 3 + n.length)] := by
    subst hp3; subst hp2; rw [toksY]
  -- start tag
  obtain ⟨c1, hs1, hc1⟩ := step_start T txt lower c (p + 1) (p + 1) p n hi.at1
  have hb1 := binv_tokenStep T txt lower hlower _ c c1 hi.binv hs1
  obtain ⟨c2, hs2, new, hc2, hpfx, hmap⟩ := feed_attrs T txt lower as (p + 1 + n.length) c1 has'
  have hb2 := binv_feed _ (binv_tokenStep T txt lower hlower) _ _ _ hb1 hs2
  have d2 : c2.doc = c.doc := (congrArg Core.doc hc2).trans (congrArg Core.doc hc1)
  have cur1 : c1.curAttrs = [] := (congrArg Core.curAttrs hc1).trans hi.cur
  have cur2 : c2.curAttrs = new := by
    have : c2.curAttrs = c1.curAttrs ++ new := congrArg Core.curAttrs hc2
    rw [this, cur1]; rfl
  have lim2 : c2.nodesLimit = c.nodesLimit :=
    (congrArg Core.nodesLimit hc2).trans (congrArg Core.nodesLimit hc1)
  have at2 : c2.afterText = [] := (congrArg Core.afterText hc2).trans (congrArg Core.afterText hc1)
  have tag2 : c2.tagName = ⟨[], n, ⟨p + 1, n⟩, p, p + 1⟩ :=
    (congrArg Core.tagName hc2).trans (congrArg Core.tagName hc1)
  have ns2 : c2.nsStartIdx = c.nsStartIdx :=
    (congrArg Core.nsStartIdx hc2).trans (congrArg Core.nsStartIdx hc1)
  have pid2 : c2.parentId = c.parentId :=
    (congrArg Core.parentId hc2).trans (congrArg Core.parentId hc1)
  have pp2 : c2.parentPrefixes = c.parentPrefixes :=
    (congrArg Core.parentPrefixes hc2).trans (congrArg Core.parentPrefixes hc1)
  have fl2 : c2.entityFloor = c.entityFloor :=
    (congrArg Core.entityFloor hc2).trans (congrArg Core.entityFloor hc1)
  have k2 : kps c2 = kps c := by unfold kps; rw [d2]
  have hnames : new.map (·.loc.bytes) = as.map (·.1) := by
    rw [← hmap, List.map_map]; rfl
  have hnewlen : new.length = as.length := by
    have := congrArg List.length hmap
    simpa using this
  obtain ⟨c3, hs3, rg, new3, hc3, hk3, hns3, hat3, hmap3, hrg, htake⟩ :=
    step_open T txt lower c2 s (p2, p2 + 1) (p + 1) p n hn0 hb2 (by rw [lim2]; exact hi.lim)
      (by rw [lim2, d2]; omega) (by rw [at2]; simp) tag2 (by rw [ns2]; exact hi.ns1)
      (by rw [d2]; exact hi.ns2) (by rw [k2, d2]; exact hi.good) (by rw [cur2]; exact hpfx)
      (by rw [cur2, hnames]; exact hnd) (by rw [cur2, d2, hnewlen]; omega)
  have hb3 := binv_tokenStep T txt lower hlower _ c2 c3 hb2 hs3
  obtain ⟨hany, hvals⟩ := akey_split new3 c2.curAttrs hmap3
  have hvals' : new3.map (fun a => (a.localName.bytes, a.value.bytes)) = as := by
    rw [hvals, cur2]; exact hmap
  have hnew3len : new3.length = as.length := by
    have := congrArg List.length hvals'
    simpa using this
  have hview : viewKPY c3.doc.attrs.toList
      (Kind.element none ⟨p + 1, n⟩ rg (s, s), some c2.parentId) =
      some (some c.parentId, YKind.elem n as) := by
    simp only [viewKPY, htake, hany, hvals', pid2]
    rfl
  have d3n : c3.doc.nodes.size = c.doc.nodes.size + 1 := by
    have := congrArg List.length hk3
    rw [k2] at this
    simpa [kps_length] using this
  have d3a : c3.doc.attrs.size = c.doc.attrs.size + as.length := by
    have := congrArg List.length hat3
    rw [d2] at this
    simpa [hnew3len] using this
  have lim3 : c3.nodesLimit = c.nodesLimit := (congrArg Core.nodesLimit hc3).trans lim2
  have at3 : c3.afterText = [] := congrArg Core.afterText hc3
  have pid3 : c3.parentId = c.doc.nodes.size := by
    have : c3.parentId = c2.doc.nodes.size := congrArg Core.parentId hc3
    rw [this, d2]
  have pp3 : c3.parentPrefixes = [] :: c.parentPrefixes := by
    have : c3.parentPrefixes = [] :: c2.parentPrefixes := congrArg Core.parentPrefixes hc3
    rw [this, pp2]
  have tag3 : c3.tagName = c2.tagName := congrArg Core.tagName hc3
  have fl3 : c3.entityFloor = c.entityFloor := (congrArg Core.entityFloor hc3).trans fl2
  have hi3 : Inv s c3 := by
    refine ⟨hb3, by rw [lim3]; exact hi.lim, congrArg Core.curAttrs hc3, ?_, by rw [hns3, d2]; exact hi.ns2,
      by rw [fl3, pp3]; exact Nat.le_succ_of_le hi.floor, by rw [at3]; simp, ?_⟩
    · have : c3.nsStartIdx = c2.doc.ns.treeOrder.size := congrArg Core.nsStartIdx hc3
      rw [this, d2]; exact hi.ns2
    · intro x hx
      rw [hk3, k2] at hx
      rcases List.mem_append.mp hx with hx | hx
      · exact good_mono (hi.good x hx) (by rw [d3a]; omega)
      · simp only [List.mem_singleton] at hx
        subst hx
        exact ⟨hrg, rfl⟩
  -- children
  obtain ⟨c4, hs4, hB4⟩ := ih (p2 + 1) c3 hi3 (fun _ _ _ _ => at3) (by rw [d3n, lim3]; omega)
    (by rw [d3a]; omega)
  obtain ⟨K4, more4, hk4, ha4, hv4⟩ := hB4.grow
  have hi4 := hB4.inv
  have pid4 : c4.parentId = c.doc.nodes.size := hB4.pid.trans pid3
  have hnode : (kps c4)[c.doc.nodes.size]? =
      some (Kind.element none ⟨p + 1, n⟩ rg (s, s), some c2.parentId) := by
    rw [hk4, hk3, k2]
    rw [List.getElem?_append_left (by simp [kps_length])]
    rw [List.getElem?_append_right (by simp [kps_length])]
    simp [kps_length]
  rw [kps_getElem?] at hnode
  obtain ⟨pn, hpn, hkp⟩ := Option.map_eq_some_iff.mp hnode
  simp only [kp, Prod.mk.injEq] at hkp
  have tag4 : c4.tagName.name ≠ [] := by
    apply hB4.tag
    rw [tag3, tag2]; exact hn0
  -- end tag
  obtain ⟨c5, hs5, hc5, hk5, ha5, hns5⟩ :=
    step_close T txt lower c4 s c.parentId (p3, p3 + 3 + n.length) (p3 + 2) (p3 + 2) n c.parentPrefixes
      pn none ⟨p + 1, n⟩ rg (s, s) hi4.at1 tag4 hi4.ns1 hi4.ns2 hi4.cur
      (by rw [hB4.fl, fl3]; exact hi.floor) (hB4.pp.trans pp3)
      (by rw [pid4]; exact hpn) hkp.1 rfl rfl (by rw [hkp.2, pid2])
  have hb5 := binv_tokenStep T txt lower hlower _ c4 c5 hi4.binv hs5
  have at5 : c5.afterText = [] := congrArg Core.afterText hc5
  have lim5 : c5.nodesLimit = c.nodesLimit := (congrArg Core.nodesLimit hc5).trans (hB4.lim.trans lim3)
  have tag5 : c5.tagName = c4.tagName := congrArg Core.tagName hc5
  have fl5 : c5.entityFloor = c.entityFloor :=
    (congrArg Core.entityFloor hc5).trans (hB4.fl.trans fl3)
  have pp5 : c5.parentPrefixes = c.parentPrefixes := congrArg Core.parentPrefixes hc5
  have hi5 : Inv s c5 := by
    refine ⟨hb5, by rw [lim5]; exact hi.lim, (congrArg Core.curAttrs hc5).trans hi4.cur, ?_,
      by rw [hns5]; exact hi4.ns2, by rw [fl5, pp5]; exact hi.floor,
      by rw [at5]; simp, by rw [hk5, ha5]; exact hi4.good⟩
    have : c5.nsStartIdx = c4.doc.ns.treeOrder.size := congrArg Core.nsStartIdx hc5
    rw [this]; exact hi4.ns2
  refine ⟨c5, ?_, ⟨hi5, congrArg Core.parentId hc5, pp5, fl5, lim5,
    fun _ => by rw [tag5]; exact tag4, ?_, ?_, ?_⟩, at5⟩
  · rw [htoks]
    refine feed_append_ok _ _ c c4 c5 ?_ (by rw [feed_cons_ok hs5]; rfl)
    refine feed_append_ok _ _ c c3 c4 ?_ hs4
    refine feed_append_ok _ _ c c2 c3 ?_ (by rw [feed_cons_ok hs3]; rfl)
    show feed _ (_ :: attrToks _ as) c = _
    rw [feed_cons_ok hs1]; exact hs2
  · have h5 : c5.doc.nodes.size = c4.doc.nodes.size := by
      have := congrArg List.length hk5
      simpa [kps_length] using this
    rw [h5, hB4.size, d3n]; omega
  · rw [ha5, hB4.asize, d3a]; omega
  · refine ⟨(Kind.element none ⟨p + 1, n⟩ rg (s, s), some c2.parentId) :: K4, new3 ++ more4, ?_, ?_, ?_⟩
    · rw [hk5, hk4, hk3, k2]; simp
    · rw [ha5, ha4, hat3, d2]; simp
    · rw [expectY, List.map_cons, List.map_cons, ha5]
      congr 1
      · rw [ha4, viewKPY_stable s c3.doc.attrs.toList more4
          (Kind.element none ⟨p + 1, n⟩ rg (s, s), some c2.parentId) ⟨by simpa using hrg, rfl⟩]
        exact hview
      · rw [hv4, pid3, d3n]
set_option linter.unusedSectionVars false in
mutual
  theorem build_nodeY (s : Nat) : ∀ (k : YNode) (p : Nat) (c : Ctx), okY k = true → Inv s c →
      (isTextY k = true → c.afterText = []) →
      c.doc.nodes.size + countY k ≤ c.nodesLimit →
      c.doc.attrs.size + attrCountY k < 4294967295 →
      ∃ c', feed (tokenStep T txt lower) (toksY p k) c = .ok c' ∧
        BuiltY s c c' (countY k) (attrCountY k) (expectY c.parentId c.doc.nodes.size k) ∧
        (isTextY k = false → c'.afterText = [])
    | .elem n as ks, p, c, hok, hi, _, hroom, haroom => by
      simp only [okY, Bool.and_eq_true] at hok
      obtain ⟨⟨⟨hn, has⟩, hadj⟩, hks⟩ := hok
      simp only [countY] at hroom
      simp only [attrCountY] at haroom
      obtain ⟨c', h1, h2, h3⟩ := build_elemY T txt lower hlower s p c n as ks
        (fun p c hi hat hr har => build_allY s ks p c hks hadj hi hat hr har) hn has hi hroom haroom
      exact ⟨c', h1, by simpa only [countY, attrCountY] using h2, fun _ => h3⟩
    | .comment b, p, c, _, hi, _, hroom, _ => by
      simp only [countY] at hroom
      obtain ⟨c', h1, h2, h3⟩ := build_commentY T txt lower hlower s p c b hi hroom
      exact ⟨c', h1, by simpa only [countY, attrCountY] using h2, fun _ => h3⟩
    | .pi t v, p, c, _, hi, _, hroom, _ => by
      simp only [countY] at hroom
      obtain ⟨c', h1, h2, h3⟩ := build_piY T txt lower hlower s p c t v hi hroom
      exact ⟨c', h1, by simpa only [countY, attrCountY] using h2, fun _ => h3⟩
    | .text t, p, c, hok, hi, hat, hroom, _ => by
      simp only [okY] at hok
      simp only [countY] at hroom
      obtain ⟨c', h1, h2⟩ := build_textY T txt lower hlower s p c t hi hok (hat rfl) hroom
      exact ⟨c', h1, by simpa only [countY, attrCountY] using h2, fun h => by simp [isTextY] at h⟩
  theorem build_allY (s : Nat) : ∀ (ks : List YNode) (p : Nat) (c : Ctx), okAllY ks = true →
      noAdjTextY ks = true → Inv s c →
      (∀ k r, ks = k :: r → isTextY k = true → c.afterText = []) →
      c.doc.nodes.size + countAllY ks ≤ c.nodesLimit →
      c.doc.attrs.size + attrCountAllY ks < 4294967295 →
      ∃ c', feed (tokenStep T txt lower) (toksAllY p ks) c = .ok c' ∧
        BuiltY s c c' (countAllY ks) (attrCountAllY ks) (expectAllY c.parentId c.doc.nodes.size ks)
    | [], p, c, _, _, hi, _, _, _ => by
      simp only [toksAllY, countAllY, attrCountAllY, expectAllY]
      exact ⟨c, rfl, BuiltY.refl hi⟩
    | k :: ks, p, c, hok, hadj, hi, hat, hroom, haroom => by
      simp only [okAllY, Bool.and_eq_true] at hok
      simp only [countAllY] at hroom
      simp only [attrCountAllY] at haroom
      obtain ⟨c1, h1, hB1, hat1⟩ := build_nodeY s k p c hok.1 hi (hat k ks rfl) (by omega) (by omega)
      have hadj' : noAdjTextY ks = true := by
        cases ks with
        | nil => rfl
        | cons k2 r =>
          simp only [noAdjTextY, Bool.and_eq_true] at hadj
          exact hadj.2
      obtain ⟨c2, h2, hB2⟩ := build_allY s ks (p + (renderY k).length) c1 hok.2 hadj' hB1.inv
        (by
          intro k2 r hks ht2
          subst hks
          simp only [noAdjTextY, Bool.and_eq_true, Bool.not_eq_true', Bool.and_eq_false_iff] at hadj
          rcases hadj.1 with h | h
          · exact hat1 h
          · rw [ht2] at h; cases h)
        (by rw [hB1.size, hB1.lim]; omega) (by rw [hB1.asize]; omega)
      rw [hB1.pid, hB1.size] at hB2
      simp only [toksAllY, countAllY, attrCountAllY, expectAllY]
      exact ⟨c2, feed_append_ok _ _ _ _ _ h1 h2, hB1.trans hB2⟩
end

/-! ### A sequence of non-text nodes written at arbitrary offsets -/

/-- `ts` is the concatenation of the tokens of the nodes `ks`, each at some offset -/
inductive TokSeq : List YNode → List Token → Prop where
  | nil : TokSeq [] []
  | cons (p : Nat) (k : YNode) {ks : List YNode} {ts : List Token} :
      TokSeq ks ts → TokSeq (k :: ks) (toksY p k ++ ts)

set_option linter.unusedSectionVars false in
theorem build_seq (s : Nat) : ∀ (ks : List YNode) (ts : List Token), TokSeq ks ts → ∀ (c : Ctx),
    (∀ k ∈ ks, okY k = true ∧ isTextY k = false) → Inv s c →
    c.doc.nodes.size + countAllY ks ≤ c.nodesLimit →
    c.doc.attrs.size + attrCountAllY ks < 4294967295 →
    ∃ c', feed (tokenStep T txt lower) ts c = .ok c' ∧
      BuiltY s c c' (countAllY ks) (attrCountAllY ks) (expectAllY c.parentId c.doc.nodes.size ks) := by
  intro ks ts h
  induction h with
  | nil =>
    intro c _ hi _ _
    simp only [countAllY, attrCountAllY, expectAllY]
    exact ⟨c, rfl, BuiltY.refl hi⟩
  | @cons p k ks ts _ ih =>
    intro c hok hi hroom haroom
    simp only [countAllY] at hroom
    simp only [attrCountAllY] at haroom
    obtain ⟨hk1, hk2⟩ := hok k (by simp)
    obtain ⟨c1, h1, hB1, _⟩ := build_nodeY T txt lower hlower s k p c hk1 hi
      (by intro h; rw [hk2] at h; cases h) (by omega) (by omega)
    obtain ⟨c2, h2, hB2⟩ := ih c1 (fun x hx => hok x (by simp [hx])) hB1.inv
      (by rw [hB1.size, hB1.lim]; omega) (by rw [hB1.asize]; omega)
    rw [hB1.pid, hB1.size] at hB2
    simp only [countAllY, attrCountAllY, expectAllY]
    exact ⟨c2, feed_append_ok _ _ _ _ _ h1 h2, hB1.trans hB2⟩

end main

theorem TokSeq.append {a b : List YNode} {ta tb : List Token} (h1 : TokSeq a ta) (h2 : TokSeq b tb) :
    TokSeq (a ++ b) (ta ++ tb) := by
  induction h1 with
  | nil => simpa using h2
  | cons p k _ ih =>
    rw [List.cons_append, List.append_assoc]
    exact TokSeq.cons p k ih

theorem miscToks_seq (ws : Bytes) : ∀ (l : List YNode) (p : Nat), TokSeq l (miscToks ws p l)
  | [], _ => TokSeq.nil
  | k :: r, p => by
    rw [miscToks]
    exact TokSeq.cons p k (miscToks_seq ws r _)

theorem docToks_seq (y : YDoc) : TokSeq y.items (docToks y) := by
  unfold docToks YDoc.items
  simp only
  refine TokSeq.append (TokSeq.append (TokSeq.append (miscToks_seq _ _ _) (miscToks_seq _ _ _)) ?_)
    (miscToks_seq _ _ _)
  have := TokSeq.cons ((bomBytes y).length + (declBytes y).length + (renderMisc y.ws y.pre).length +
    (dtBytes y).length + (renderMisc y.ws y.mid).length) y.root TokSeq.nil
  simpa using this

theorem miscOk_ok {k : YNode} (h : miscOk k = true) : okY k = true ∧ isTextY k = false := by
  cases k with
  | comment c => exact ⟨by simpa [miscOk, okY] using h, rfl⟩
  | pi t v => exact ⟨by simpa [miscOk, okY] using h, rfl⟩
  | elem _ _ _ => simp [miscOk] at h
  | text _ => simp [miscOk] at h

theorem items_ok (y : YDoc) (hy : docOk y = true) :
    ∀ k ∈ y.items, okY k = true ∧ isTextY k = false := by
  simp only [docOk, Bool.and_eq_true, List.all_eq_true] at hy
  obtain ⟨⟨⟨⟨⟨_, hpre⟩, hmid⟩, hpost⟩, hroot⟩, _⟩ := hy
  intro k hk
  simp only [YDoc.items, List.mem_append, List.mem_singleton] at hk
  rcases hk with ((hk | hk) | hk) | hk
  · exact miscOk_ok (hpre k hk)
  · exact miscOk_ok (hmid k hk)
  · subst hk; exact ⟨hroot, rfl⟩
  · exact miscOk_ok (hpost k hk)

/-! ### The final checks -/

theorem viewKPY_elem {l : List AttrData} {x : Kind × Option Nat} {p : Option Nat} {n : Bytes}
    {as : List (Bytes × Bytes)} (h : viewKPY l x = some (p, YKind.elem n as)) :
    x.1.isElement = true ∧ x.2 = p := by
  obtain ⟨k, q⟩ := x
  cases k with
  | element a b c d =>
    simp only [viewKPY] at h
    split at h
    · simp at h
    · split at h
      · simp at h
      · simp only [Option.some.injEq, Prod.mk.injEq] at h
        exact ⟨rfl, h.1⟩
  | _ => simp [viewKPY] at h

theorem mem_expectAllY (P : Nat) (n : Bytes) (as : List (Bytes × Bytes)) (kids : List YNode) :
    ∀ (ks : List YNode) (id : Nat), YNode.elem n as kids ∈ ks →
      (some P, YKind.elem n as) ∈ expectAllY P id ks
  | [], _, h => by simp at h
  | k :: r, id, h => by
    rw [expectAllY]
    rcases List.mem_cons.mp h with h | h
    · subst h
      rw [expectY]
      simp
    · exact List.mem_append_right _ (mem_expectAllY P n as kids r _ h)

open Rox.Api Rox.Spec in
theorem findElement_found (d : Doc) (j : Nat) (nj : NodeData) (hj : d.nodes[j]? = some nj)
    (hk : nj.kind.isElement = true) : ∀ (l : List Nat), (∀ i ∈ l, i < d.nodes.size) → j ∈ l →
      ∃ r, findElement d l = .ok (some r)
  | [], _, h => by simp at h
  | i :: l, hlt, h => by
    have hi : i < d.nodes.size := hlt i (by simp)
    have hi' : d.nodes[i]? = some d.nodes[i] := by simp [hi]
    simp only [findElement, isElement, kindOf, getNodeUnwrap, hi', Res.bind_ok, Res.pure_eq]
    by_cases he : d.nodes[i].kind.isElement = true
    · simp [he]
    · simp only [he, Bool.false_eq_true, if_false]
      rcases List.mem_cons.mp h with h | h
      · subst h
        rw [hi'] at hj
        simp only [Option.some.injEq] at hj
        subst hj
        exact absurd hk he
      · exact findElement_found d j nj hj hk l (fun x hx => hlt x (by simp [hx])) h

open Rox.Api Rox.Spec in
theorem rootHasElement_any (d : Doc) (h : LinkWF d.nodes) (j : Nat) (nj : NodeData)
    (hj : d.nodes[j]? = some nj) (hp : nj.parent = some 0) (hk : nj.kind.isElement = true) :
    rootHasElement d = .ok true := by
  obtain ⟨it, hc, hre, habs⟩ := children_init_root d h
  have hsz : j < d.nodes.size := (Array.getElem?_eq_some_iff.mp hj).1
  unfold rootHasElement
  simp only [hc, Res.bind_ok]
  have hlen : (absIt d.nodes 0 it).length < Api.fuelN d := by
    rw [habs]
    have := kidsIn_length d.nodes 0 0 (d.nodes.size - 1)
    unfold Api.fuelN; omega
  rw [childrenList_safe d h 0 _ it hre hlen, habs]
  have hmem : j ∈ kidsIn d.nodes 0 0 (d.nodes.size - 1) := by
    unfold kidsIn
    rw [List.mem_filter, List.mem_range'_1]
    refine ⟨by omega, ?_⟩
    simp [par, hj, hp]
  obtain ⟨r, hr⟩ := findElement_found d j nj hj hk _
    (fun i hi => by have := kidsIn_lt d.nodes 0 0 (d.nodes.size - 1) i hi; omega) hmem
  simp only [Res.bind_ok, hr]
  rfl

end RtB4

open RtB RtB4

/-- **Builder, whole documents**: if the tokenizer delivered `docToks y` and succeeded, then `parse`
succeeds and the arena, read back node by node in id order, is the root followed by the nodes of
`y.items` in document order, each with the right parent id and content. -/
theorem parse_of_docToks (T : Tables) (txt : Bytes) (opt : Opt) (y : YDoc)
    (hy : docOk y = true)
    (htok : tokenize T txt opt.allowDtd = (docToks y, .ok ()))
    (hlim : countAllY y.items + 1 ≤ opt.nodesLimit) (hl32 : opt.nodesLimit ≤ 4294967295)
    (hattrs : attrCountAllY y.items < 4294967295) :
    ∃ d, parse T txt opt = .ok d ∧
      d.nodes.toList.map (viewY d) =
        some (none, YKind.root) :: (expectAllY 0 1 y.items).map some := by
  obtain ⟨c0, h0, l0, ns0, ts0, cur0, fl0, at0, pid0, pp0, attrs0, k0, sz0⟩ := initCtx_ok txt opt
  have hb0 : BInv c0 := binv_init txt opt c0 h0
  have hi0 : Inv 1 c0 := by
    refine ⟨hb0, by rw [l0]; exact hl32, cur0, ns0, ts0, by rw [fl0]; exact Nat.zero_le _,
      by rw [at0]; simp, ?_⟩
    intro x hx
    rw [k0] at hx
    simp only [List.mem_singleton] at hx
    subst hx
    trivial
  obtain ⟨c1, hf, hB⟩ := build_seq T txt (token T txt 11) (binv_token T txt 11) 1 y.items
    (docToks y) (docToks_seq y) c0 (items_ok y hy) hi0 (by rw [sz0, l0]; omega)
    (by rw [attrs0]; simpa using hattrs)
  obtain ⟨K, more, hk, ha, hv⟩ := hB.grow
  rw [pid0, sz0] at hv
  have hrun : runTokens (token T txt depthFuel) (docToks y) (.ok ()) c0 = .ok c1 := by
    unfold runTokens
    have : token T txt depthFuel = tokenStep T txt (token T txt 11) := rfl
    rw [this, hf]
  have hb1 : BInv c1 := hB.inv.binv
  have hhas : rootHasElement c1.doc = .ok true := by
    have hmem : (some 0, YKind.elem y.name y.attrs) ∈ expectAllY 0 1 y.items :=
      mem_expectAllY 0 y.name y.attrs y.kids y.items 1 (by simp [YDoc.items, YDoc.root])
    have hmem' : some (some 0, YKind.elem y.name y.attrs) ∈
        K.map (viewKPY c1.doc.attrs.toList) := by
      rw [hv]; exact List.mem_map_of_mem hmem
    obtain ⟨x, hxK, hxv⟩ := List.mem_map.mp hmem'
    obtain ⟨he, hpar⟩ := viewKPY_elem hxv
    have hx1 : x ∈ kps c1 := by rw [hk]; exact List.mem_append_right _ hxK
    unfold kps at hx1
    obtain ⟨nj, hnj, hkp⟩ := List.mem_map.mp hx1
    subst hkp
    rw [Array.mem_toList_iff] at hnj
    obtain ⟨j, hjlt, hje⟩ := Array.mem_iff_getElem.mp hnj
    exact rootHasElement_any c1.doc hb1.wf j nj (by simp [hjlt, hje]) hpar he
  refine ⟨{ c1.doc with ns := { c1.doc.ns with sortedOrder := #[] } }, ?_, ?_⟩
  · unfold parse parseCtx
    rw [h0]
    simp only [Res.bind_ok]
    rw [htok]
    simp only
    rw [hrun]
    simp only [Res.bind_ok]
    unfold finish
    rw [hhas]
    have : c1.parentPrefixes.length = 1 := by rw [hB.pp, pp0]; rfl
    simp [this]
  · have hview : ∀ (D : Doc), D.attrs = c1.doc.attrs →
        List.map (viewY D) c1.doc.nodes.toList = (kps c1).map (viewKPY c1.doc.attrs.toList) := by
      intro D hD
      unfold kps
      rw [List.map_map]
      apply List.map_congr_left
      intro nd _
      rw [viewY_eq, hD]; rfl
    refine (hview _ rfl).trans ?_
    rw [hk, k0, List.map_append, hv]
    rfl

end Rox.Lemmas
