/-
  Rox.Lemmas.CompleteRef — Stage B⁻¹ of the completeness proof, part 1: references. A string of
  literal bytes and well-formed references (`RefText`, with no DOCTYPE: predefined names and
  character references only) is accepted by `normalize_attribute` and by `process_text`
  (the converse of `Rox.Lemmas.GrammarRef`).
-/
import Rox.Lemmas.CompleteBuildDefs
import Rox.Lemmas.GrammarRef
import Rox.Lemmas.MirrorDecode
import Rox.Lemmas.RtBuild

namespace Rox.Lemmas.CB
open Rox Rox.Spec Rox.Spec.Grammar Rox.Spec.Mirror Rox.Props.C06

section
variable (T : Tables) (hT : TablesOK T) (hX : TablesComplete T) (txt : Bytes)

/-- lower-case Latin letter -/
abbrev isLower (b : UInt8) : Prop := 97 ≤ b ∧ b ≤ 122

theorem lower_lt {b : UInt8} (h : isLower b) : b < 128 := by
  obtain ⟨h1, h2⟩ := h
  exact Nat.lt_of_le_of_lt (UInt8.le_iff_toNat_le.mp h2) (by decide)

include hX in
theorem skipNameTail_lower (rest : Bytes) : ∀ (l : Bytes), (∀ b ∈ l, isLower b) →
    ∀ (fuel p : Nat) (acc : Bytes), l.length < fuel →
      Stream.skipNameTail T fuel ⟨p, l ++ bSemi :: rest⟩ acc =
        .ok (⟨p + l.length, bSemi :: rest⟩, acc.reverse ++ l) := by
  intro l
  induction l with
  | nil =>
    intro _ fuel p acc hf
    obtain ⟨f, rfl⟩ : ∃ f, fuel = f + 1 := ⟨fuel - 1, by omega⟩
    have hn : charIsName T (bSemi : UInt8).toNat = false := hX.delim_not_name bSemi (by decide)
    have hn' : charIsName T 59 = false := hn
    have hd : decodeChar ((59 : UInt8) :: rest) = some (59, 1) := decodeChar_ascii 59 rest (by decide)
    simp [Stream.skipNameTail, bSemi, hd, hn']
  | cons b l ih =>
    intro hl fuel p acc hf
    obtain ⟨f, rfl⟩ : ∃ f, fuel = f + 1 := ⟨fuel - 1, by omega⟩
    have hb : isLower b := hl b (by simp)
    have hn : charIsName T b.toNat = true :=
      hX.nameStart_sub_name _ (hX.lower_nameStart b hb.1 hb.2)
    simp only [List.length_cons] at hf
    have := ih (fun x hx => hl x (by simp [hx])) f (p + 1) (b :: acc) (by omega)
    simp only [Stream.skipNameTail, List.cons_append, decodeChar_ascii b _ (lower_lt hb), hn, if_true]
    simp only [List.length_cons, List.drop_succ_cons, List.drop_zero, List.take_succ_cons,
      List.take_zero]
    rw [if_pos (by omega)]
    simp only [List.reverse_cons, List.reverse_nil, List.nil_append, List.singleton_append]
    rw [this]
    simp only [List.reverse_cons, List.append_assoc, List.singleton_append]
    congr 3
    omega

include hX in
theorem consumeName_lower (b : UInt8) (l rest : Bytes) (hb : isLower b) (hl : ∀ x ∈ l, isLower x)
    (p : Nat) :
    Stream.consumeName T txt ⟨p, b :: l ++ bSemi :: rest⟩ =
      .ok (⟨p + (l.length + 1), bSemi :: rest⟩, ⟨p, b :: l⟩) := by
  have hn : charIsNameStart T b.toNat = true := hX.lower_nameStart b hb.1 hb.2
  have ht := skipNameTail_lower T hX rest l hl (l ++ bSemi :: rest).length.succ (p + 1) [b]
    (by simp; omega)
  unfold Stream.consumeName Stream.skipName
  simp only [List.cons_append, decodeChar_ascii b _ (lower_lt hb), hn, if_true]
  simp only [List.length_cons, List.drop_succ_cons, List.drop_zero, List.take_succ_cons,
    List.take_zero]
  rw [if_pos (by omega)]
  simp only [List.reverse_cons, List.reverse_nil, List.nil_append] at ht ⊢
  rw [ht]
  simp only [Res.bind_ok, Res.pure_eq, List.singleton_append, List.isEmpty_cons]
  simp only [Bool.false_eq_true, if_false]
  congr 3
  omega

theorem predefined_lower (n : Bytes) (hn : n ∈ predefined) :
    ∃ b l, n = b :: l ∧ isLower b ∧ (∀ x ∈ l, isLower x) ∧
      ∃ ch, ∀ sp : Span, sp.bytes = n →
        (if sp.bytes == Lit.quot then Reference.char 34
          else if sp.bytes == Lit.amp then .char 38
          else if sp.bytes == Lit.apos then .char 39
          else if sp.bytes == Lit.lt then .char 60
          else if sp.bytes == Lit.gt then .char 62
          else .entity sp) = .char ch := by
  simp only [predefined, List.mem_cons, List.not_mem_nil, or_false] at hn
  rcases hn with rfl | rfl | rfl | rfl | rfl
  · exact ⟨_, _, rfl, by decide, by decide, 60, fun sp h => by rw [h]; rfl⟩
  · exact ⟨_, _, rfl, by decide, by decide, 62, fun sp h => by rw [h]; rfl⟩
  · exact ⟨_, _, rfl, by decide, by decide, 38, fun sp h => by rw [h]; rfl⟩
  · exact ⟨_, _, rfl, by decide, by decide, 39, fun sp h => by rw [h]; rfl⟩
  · exact ⟨_, _, rfl, by decide, by decide, 34, fun sp h => by rw [h]; rfl⟩

theorem finishRef_semi (p : Nat) (rest : Bytes) (r : Reference) :
    Stream.finishRef ⟨p, bSemi :: rest⟩ r = (⟨p + 1, rest⟩, some r) := by
  simp [Stream.finishRef]

include hX in
theorem namedRef_predef (n rest : Bytes) (hn : n ∈ predefined) (p : Nat) :
    ∃ ch p', Stream.namedRef T txt ⟨p, n ++ bSemi :: rest⟩ = .ok (⟨p', rest⟩, some (.char ch)) := by
  obtain ⟨b, l, rfl, hb, hl, ch, hch⟩ := predefined_lower n hn
  refine ⟨ch, p + (l.length + 1) + 1, ?_⟩
  unfold Stream.namedRef
  rw [consumeName_lower T hX txt b l rest hb hl p]
  have h1 := hch ⟨p, b :: l⟩ rfl
  simp only at h1 ⊢
  rw [h1, finishRef_semi]

theorem spanRun (f : UInt8 → Bool) (c : UInt8) (rest : Bytes) (hc : f c = false) :
    ∀ (v : Bytes), (∀ x ∈ v, f x = true) → ∀ (p : Nat) (acc : Bytes),
      Stream.spanBytesAux f p acc (v ++ c :: rest) =
        (⟨p + v.length, c :: rest⟩, acc.reverse ++ v) := by
  intro v
  induction v with
  | nil => intro _ p acc; simp [Stream.spanBytesAux, hc]
  | cons b v ih =>
    intro hv p acc
    have hb : f b = true := hv b (by simp)
    simp only [List.cons_append, Stream.spanBytesAux, hb, if_true]
    rw [ih (fun x hx => hv x (by simp [hx]))]
    simp
    omega

theorem numericRef_ok (isHex : Bool) (ds rest : Bytes) (n p : Nat)
    (hds : ∀ d ∈ ds, (if isHex then isHexDigit d else isDecDigit d) = true)
    (hp : parseU32 ds (if isHex then 16 else 10) = some n) (hc : charRefOk T n) :
    ∃ ch p', Stream.numericRef T ⟨p, ds ++ bSemi :: rest⟩ isHex =
      (⟨p', rest⟩, some (.char ch)) := by
  refine ⟨if isScalar n then n else 0xFFFD, p + ds.length + 1, ?_⟩
  unfold Stream.numericRef
  have hrun : ∀ f : UInt8 → Bool, f bSemi = false → (∀ d ∈ ds, f d = true) →
      Stream.consumeBytes ⟨p, ds ++ bSemi :: rest⟩ f = (⟨p + ds.length, bSemi :: rest⟩, ⟨p, ds⟩) := by
    intro f h1 h2
    unfold Stream.consumeBytes
    simp only
    rw [spanRun f bSemi rest h1 ds h2 p []]
    simp
  have hsv : (if isHex then Stream.consumeBytes ⟨p, ds ++ bSemi :: rest⟩ isHexDigit
      else Stream.consumeBytes ⟨p, ds ++ bSemi :: rest⟩ isDecDigit) =
      (⟨p + ds.length, bSemi :: rest⟩, ⟨p, ds⟩) := by
    cases isHex
    · simp only [Bool.false_eq_true, if_false] at hds ⊢
      exact hrun _ (by decide) hds
    · simp only [if_true] at hds ⊢
      exact hrun _ (by decide) hds
  simp only [hsv, hp]
  unfold charRefOk at hc
  rw [hc]
  simp only [Bool.not_true, Bool.false_eq_true, if_false]
  rw [finishRef_semi]

include hX in
/-- a well-formed reference is read as a character reference, up to and including its `;` -/
theorem consumeReference_ref (r rest : Bytes) (hr : Ref T r) (p : Nat) :
    ∃ ch p', Stream.consumeReference T txt ⟨p, r ++ rest⟩ = .ok (⟨p', rest⟩, some (.char ch)) := by
  cases hr with
  | named n hn =>
    obtain ⟨ch, p', h⟩ := namedRef_predef T hX txt n rest hn (p + 1)
    refine ⟨ch, p', ?_⟩
    obtain ⟨b, l, rfl, hb, _⟩ := predefined_lower n hn
    have hb35 : (b == bHash) = false := by
      have : b ≠ bHash := by
        intro e; rw [e] at hb; exact absurd hb (by decide)
      simpa using this
    unfold Stream.consumeReference
    simp only [Stream.tryConsumeByte, List.cons_append, List.nil_append, List.append_assoc,
      beq_self_eq_true, if_true, Bool.not_true, Bool.false_eq_true, if_false, hb35]
    simpa using h
  | dec ds n hds hp hc =>
    obtain ⟨ch, p', h⟩ := numericRef_ok T false ds rest n (p + 1 + 1) (by simpa using hds)
      (by simpa using hp) hc
    refine ⟨ch, p', ?_⟩
    have hx : ∀ q, Stream.tryConsumeByte ⟨q, ds ++ bSemi :: rest⟩ bX = (⟨q, ds ++ bSemi :: rest⟩, false) := by
      intro q
      cases ds with
      | nil => simp [Stream.tryConsumeByte, bSemi, bX]
      | cons d ds' =>
        have hd : (d == bX) = false := by
          have h1 := hds d (by simp)
          have : d ≠ bX := by
            intro e; rw [e] at h1; exact absurd h1 (by decide)
          simpa using this
        simp [Stream.tryConsumeByte, hd]
    unfold Stream.consumeReference
    simp only [Stream.tryConsumeByte, List.cons_append, List.nil_append, List.append_assoc,
      beq_self_eq_true, if_true, Bool.not_true, Bool.false_eq_true, if_false]
    have := hx (p + 1 + 1)
    simp only [Stream.tryConsumeByte] at this
    simp only [this]
    simpa using h
  | hex hs n hds hp hc =>
    obtain ⟨ch, p', h⟩ := numericRef_ok T true hs rest n (p + 1 + 1 + 1) (by simpa using hds)
      (by simpa using hp) hc
    refine ⟨ch, p', ?_⟩
    unfold Stream.consumeReference
    simp only [Stream.tryConsumeByte, List.cons_append, List.nil_append, List.append_assoc,
      beq_self_eq_true, if_true, Bool.not_true, Bool.false_eq_true, if_false]
    simpa using h

theorem ref_amp (r : Bytes) (hr : Ref T r) : ∃ r', r = bAmp :: r' := by
  cases hr with
  | named n _ => exact ⟨_, rfl⟩
  | dec ds n _ _ _ => exact ⟨_, rfl⟩
  | hex hs n _ _ _ => exact ⟨_, rfl⟩

include hX in
theorem normAttrLoop_ok
    (rec : Span → TextBuffer → LD → List Ev → Res (TextBuffer × LD × List Ev)) :
    ∀ (bs : Bytes), RefText T bs → ∀ (fuel p : Nat) (buf : TextBuffer) (ld : LD) (tr : List Ev),
      bs.length < fuel → ld.depth = 0 →
      ∃ out, normAttrLoop T txt [] rec fuel ⟨p, bs⟩ buf ld tr = .ok out := by
  intro bs hrt
  induction hrt with
  | nil =>
    intro fuel p buf ld tr hf _
    obtain ⟨f, rfl⟩ : ∃ f, fuel = f + 1 := ⟨fuel - 1, by omega⟩
    exact ⟨(buf, ld, tr), by simp only [normAttrLoop]⟩
  | lit b rest h1 h2 _ ih =>
    intro fuel p buf ld tr hf hd
    obtain ⟨f, rfl⟩ : ∃ f, fuel = f + 1 := ⟨fuel - 1, by omega⟩
    simp only [List.length_cons] at hf
    obtain ⟨out, ho⟩ := ih f (p + 1) (buf.pushFromAttr b (Stream.currByte? ⟨p + 1, rest⟩)) ld tr
      (by omega) hd
    refine ⟨out, ?_⟩
    have e1 : (b != bAmp) = true := by simpa using h1
    have e2 : (b == bLt) = false := by simpa using h2
    simp only [normAttrLoop, e1, e2, if_true, Bool.false_eq_true, if_false]
    exact ho
  | ref r rest hr _ ih =>
    intro fuel p buf ld tr hf hd
    obtain ⟨f, rfl⟩ : ∃ f, fuel = f + 1 := ⟨fuel - 1, by omega⟩
    obtain ⟨ch, p', hc⟩ := consumeReference_ref T hX txt r rest hr p
    obtain ⟨r', rfl⟩ := ref_amp T r hr
    simp only [List.cons_append, List.length_cons, List.length_append] at hf hc
    obtain ⟨out, ho⟩ := ih f p' (buf.pushBytesRaw (encodeChar ch)) ld tr (by omega) hd
    refine ⟨out, ?_⟩
    have hd' : ¬ ld.depth > 0 := by omega
    simp only [normAttrLoop, List.cons_append, bne_self_eq_false, Bool.false_eq_true, if_false, hc,
      Res.bind_ok, hd']
    exact ho

theorem finish_cases (b : TextBuffer) : (∃ out, b.finish = .ok out) ∨ ∃ s, b.finish = .panic s := by
  unfold TextBuffer.finish
  simp only
  split
  · exact Or.inl ⟨_, rfl⟩
  · exact Or.inr ⟨_, rfl⟩

include hT hX in
/-- `normalize_attribute` accepts a value made of literal bytes and well-formed references -/
theorem normalizeAttribute_ok (c : Ctx) (v : Span) (hv : SpanU txt v) (hents : c.entities = [])
    (hd : c.ld.depth = 0) (hrt : RefText T v.bytes) :
    ∃ c' s, normalizeAttribute T txt c v = .ok (c', s) := by
  have hsafe := (normalizeAttribute_safe T hT txt c v hv (by rw [hents]; intro e he; cases he)
    (by omega)).safe
  obtain ⟨⟨buf, ld, tr⟩, hrec⟩ : ∃ out, normAttrRec T txt c.entities depthFuel v {} c.ld c.trace =
      .ok out := by
    rw [hents]
    simp only [depthFuel, normAttrRec]
    exact normAttrLoop_ok T hX txt _ _ hrt _ _ _ _ _ (by omega) hd
  unfold normalizeAttribute at hsafe ⊢
  split
  · rename_i hany
    rw [if_pos hany, hrec] at hsafe
    simp only [Res.bind_ok] at hsafe ⊢
    rw [hrec]
    simp only [Res.bind_ok]
    rcases finish_cases buf with ⟨out, ho⟩ | ⟨s, hs⟩
    · rw [ho]; exact ⟨_, _, rfl⟩
    · rw [hs] at hsafe; exact absurd hsafe (by simp [Res.Safe])
  · exact ⟨_, _, rfl⟩

theorem appendText_ok (c : Ctx) (s : Str) (r : Range) (hb : BInv c) (hl : c.nodesLimit ≤ 4294967295)
    (hroom : c.afterText = [] → c.doc.nodes.size < c.nodesLimit) :
    ∃ c', c.appendText s r = .ok c' := by
  unfold Ctx.appendText
  by_cases he : c.afterText = []
  · have hb' : BInv (c.log (.textFragment s r)) := hb.congr rfl rfl rfl
    obtain ⟨c1, h1⟩ := Rox.Lemmas.RtB.appendNode_ok (c.log (.textFragment s r)) (.text s) r hb' hl
      (hroom he)
    have : (c.log (.textFragment s r)).afterText.isEmpty = true := by
      show c.afterText.isEmpty = true
      rw [he]; rfl
    simp only [this, if_true, h1, Res.bind_ok, Res.pure_eq]
    exact ⟨_, rfl⟩
  · have : (c.log (.textFragment s r)).afterText.isEmpty = false := by
      show c.afterText.isEmpty = false
      cases h : c.afterText with
      | nil => exact absurd h he
      | cons _ _ => rfl
    simp only [this, Bool.false_eq_true, if_false, Res.bind_ok, Res.pure_eq]
    exact ⟨_, rfl⟩

include hX in
theorem processTextLoop_ok (lower : Token → Ctx → Res Ctx) (range : Range) (c : Ctx) :
    ∀ (bs : Bytes), RefText T bs → ∀ (fuel p : Nat) (buf : TextBuffer), bs.length < fuel →
      ∃ buf', processTextLoop T txt lower range fuel ⟨p, bs⟩ buf c = .ok (buf', c) := by
  intro bs hrt
  induction hrt with
  | nil =>
    intro fuel p buf hf
    obtain ⟨f, rfl⟩ : ∃ f, fuel = f + 1 := ⟨fuel - 1, by omega⟩
    exact ⟨buf, by simp [processTextLoop, Stream.atEnd]⟩
  | lit b rest h1 h2 _ ih =>
    intro fuel p buf hf
    obtain ⟨f, rfl⟩ : ∃ f, fuel = f + 1 := ⟨fuel - 1, by omega⟩
    simp only [List.length_cons] at hf
    obtain ⟨out, ho⟩ := ih f (p + 1) (buf.pushFromText b) (by omega)
    refine ⟨out, ?_⟩
    have e1 : (b == bAmp) = false := by simpa using h1
    simp only [processTextLoop, Stream.atEnd, List.isEmpty_cons, Bool.false_eq_true, if_false,
      parseNextChunk, e1, Res.bind_ok]
    exact ho
  | ref r rest hr _ ih =>
    intro fuel p buf hf
    obtain ⟨f, rfl⟩ : ∃ f, fuel = f + 1 := ⟨fuel - 1, by omega⟩
    obtain ⟨ch, p', hc⟩ := consumeReference_ref T hX txt r rest hr p
    obtain ⟨r', rfl⟩ := ref_amp T r hr
    simp only [List.cons_append, List.length_cons, List.length_append] at hf hc
    obtain ⟨o1, ho1⟩ := ih f p' (buf.pushBytesText (encodeChar ch)) (by omega)
    obtain ⟨o2, ho2⟩ := ih f p' (buf.pushBytesRaw (encodeChar ch)) (by omega)
    simp only [processTextLoop, Stream.atEnd, List.cons_append, List.isEmpty_cons,
      Bool.false_eq_true, if_false, parseNextChunk, beq_self_eq_true, if_true, hc, Res.bind_ok,
      Res.pure_eq]
    split
    · exact ⟨o1, ho1⟩
    · exact ⟨o2, ho2⟩

include hT hX in
/-- `process_text` accepts character data made of literal bytes and well-formed references (when
the text run needs a new node there must be room for it) -/
theorem processText_ok (lower : Token → Ctx → Res Ctx) (hlower : TokSafe txt lower 1)
    (c : Ctx) (t : Span) (r : Range) (htu : SpanU txt t)
    (hr : r = (t.off, t.off + t.bytes.length)) (hb : BInv c) (ha : AInv txt c)
    (hents : c.entities = []) (hd : c.ld.depth = 0) (hrt : RefText T t.bytes)
    (hroom : c.afterText = [] → c.doc.nodes.size < c.nodesLimit) :
    ∃ c', processText T txt lower c t r = .ok c' := by
  have _ := hd
  have _ := hents
  have hsafe := (processText_safe T hT txt lower 0 hlower c t r htu hr hb ha (Nat.zero_le _)).safe
  unfold processText at hsafe ⊢
  split
  · exact appendText_ok c _ r hb ha.lim hroom
  · rename_i hany
    rw [if_neg hany] at hsafe
    have e : Stream.ofRange txt r.1 r.2 = ⟨t.off, t.bytes⟩ := by
      subst hr
      unfold Stream.ofRange
      simp only
      rw [← htu.1.1]
    obtain ⟨buf, hl⟩ := processTextLoop_ok T hX txt lower r c t.bytes hrt
      (t.bytes.length + 1) t.off {} (by omega)
    simp only [e, hl, Res.bind_ok] at hsafe ⊢
    unfold flushBuffer at hsafe ⊢
    split
    · rename_i hne
      rw [if_pos hne] at hsafe
      rcases finish_cases buf with ⟨out, ho⟩ | ⟨s, hs⟩
      · rw [ho]
        simp only [Res.bind_ok]
        exact appendText_ok c _ r hb ha.lim hroom
      · rw [hs] at hsafe; exact absurd hsafe (by simp [Res.Safe])
    · exact ⟨_, rfl⟩

end
end Rox.Lemmas.CB
