/-
  Rox.Lemmas.RoundTrip2 — parse ∘ renderS: every legal rendering of an abstract document parses to
  the same tree.
-/
import Rox.Lemmas.RtTok2
import Rox.Lemmas.RtBuild2

namespace Rox.Lemmas
open Rox Rox.Spec.Canon

/-- **Round trip for every rendering** (`XS` = an abstract document with a legal choice of white
space inside tags, quote characters and `<e/>` / `<e></e>`): parsing `renderS s` succeeds and the
arena read back is the root followed by the nodes of `erase s` in document order. -/
theorem parse_renderS (T : Tables) (hT : TablesOK T) (hC : TablesCanon T) (hC2 : TablesCanon2 T)
    (n : Bytes) (as : List (Bytes × Bytes × AttrStyle)) (endWs : Bytes) (sc : Bool)
    (ks : List XS) (closeWs : Bytes)
    (hx : ok (erase (.elem n as endWs sc ks closeWs)) = true)
    (hs : styleOk (.elem n as endWs sc ks closeWs) = true) (opt : Opt)
    (hlim : count (erase (.elem n as endWs sc ks closeWs)) + 1 ≤ opt.nodesLimit)
    (hl32 : opt.nodesLimit ≤ 4294967295)
    (hattrs : attrCount (erase (.elem n as endWs sc ks closeWs)) < 4294967295) :
    ∃ d, parse T (renderS (.elem n as endWs sc ks closeWs)) opt = .ok d ∧
      d.nodes.toList.map (view d) =
        some (none, XKind.root) :: (expect 0 1 (erase (.elem n as endWs sc ks closeWs))).map some := by
  obtain ⟨toks, htok, hrel⟩ := tokenize_renderS T hT hC hC2 n as endWs sc ks closeWs hx hs opt.allowDtd
  rw [erase_elem] at hx hrel hlim hattrs ⊢
  exact parse_of_tokFor T _ opt n _ _ hx toks hrel htok hlim hl32 hattrs

end Rox.Lemmas
