/-
  Rox.Lemmas.CompleteTok1 — Stage A⁻¹ of the completeness proof, the cursor primitives: each
  primitive of `Rox.Stream`, started on a piece of concrete syntax described by the lexical
  predicates of `Rox.Spec.Grammar` (`Chars`, `Sp0`, `Name`, `QName`) followed by a suitable stop
  byte, succeeds and stops exactly behind the piece.
  (The technique and the generic lemmas are those of `Rox.Lemmas.RtTok5`.)
-/
import Rox.Lemmas.CompleteDefs
import Rox.Lemmas.RtTok5
import Rox.Lemmas.GrammarUtf8

namespace Rox.Lemmas.CT1
open Rox Rox.Spec Rox.Spec.Grammar Rox.Spec.Complete Rox.TM

/-! ### From the grammar's predicates to character splits -/

theorem isChar_encode (c : Nat) (hc : c < 0x110000) : IsChar (encodeChar c) c := by
  refine ⟨gp_encode_ne_nil c, ?_⟩
  intro rest
  rw [decode_encode c hc rest, encodeChar_length]

theorem chars_enc : ∀ (cs : List Nat), (∀ c ∈ cs, c < 0x110000) → Rox.Lemmas.Chars (enc cs) cs := by
  intro cs
  induction cs with
  | nil => intro _; exact .nil
  | cons c cs ih =>
    intro h
    rw [gp_enc_cons]
    exact .cons (isChar_encode c (h c (by simp))) (ih (fun d hd => h d (by simp [hd])))

theorem chars_length_le : ∀ (bs : Bytes) (cs : List Nat), Rox.Lemmas.Chars bs cs → cs.length ≤ bs.length := by
  intro bs cs h
  induction h with
  | nil => simp
  | @cons u bs c cs hu _ ih =>
    have := isChar_len hu
    simp only [List.length_cons, List.length_append]
    omega

theorem chars_append : ∀ (a : Bytes) (ca : List Nat), Rox.Lemmas.Chars a ca → ∀ (b : Bytes) (cb : List Nat),
    Rox.Lemmas.Chars b cb → Rox.Lemmas.Chars (a ++ b) (ca ++ cb) := by
  intro a ca h
  induction h with
  | nil => intro b cb hb; exact hb
  | @cons u bs c cs hu _ ih =>
    intro b cb hb
    rw [List.append_assoc]
    exact .cons hu (ih b cb hb)

section
variable (T : Tables)

/-- `RtTok5`'s table facts follow from those of the completeness proof -/
theorem canon5 (hT : TablesOK T) (hX : TablesComplete T) : TablesCanon5 T where
  byte_name_of_char := hX.byte_name_of_char
  byte_nameStart_of_char := hX.byte_nameStart_of_char
  byte_xmlChar_of_char := hX.byte_xmlChar_of_char
  nameStart_sub_name := hX.nameStart_sub_name
  nameStart_not_space := by
    intro b _ hns
    cases hs : byteIsSpace T b with
    | false => rfl
    | true =>
      have := hX.nameStart_sub_name _ hns
      rw [hX.space_not_name b hs] at this
      cases this
  nameStart_not_delim := by
    intro b hb
    cases hns : charIsNameStart T b.toNat with
    | false => rfl
    | true =>
      have := hX.nameStart_sub_name _ hns
      rw [hX.delim_not_name b (by
        simp only [List.mem_cons, List.not_mem_nil, or_false] at hb ⊢
        rcases hb with rfl | rfl | rfl | rfl <;> simp)] at this
      cases this
  space_not_name := fun b hs => ⟨hT.space_ascii b hs, hX.space_not_name b hs⟩

/-- [2] `Char*` as a character split -/
theorem chars_bridge (hX : TablesComplete T) {bs : Bytes} (h : Grammar.Chars T bs) :
    ∃ cs, Rox.Lemmas.Chars bs cs ∧ ∀ c ∈ cs, charIsXmlChar T c = true := by
  obtain ⟨cs, rfl, hall⟩ := h
  exact ⟨cs, chars_enc cs (fun c hc => hX.xmlChar_lt c (hall c hc)), hall⟩

/-- an ASCII byte that occurs in the encoding of characters is one of them -/
theorem mem_enc_ascii (k : UInt8) (hk : k < 128) : ∀ (cs : List Nat), (∀ c ∈ cs, c < 0x110000) →
    k.toNat ∈ cs → k ∈ enc cs := by
  intro cs
  induction cs with
  | nil => intro _ h; cases h
  | cons c cs ih =>
    intro hlt h
    rw [gp_enc_cons, List.mem_append]
    rcases List.mem_cons.mp h with e | h
    · left
      rw [← e, gp_encode_byte k hk]
      simp
    · right
      exact ih (fun d hd => hlt d (by simp [hd])) h

/-- [4] NCName as `RtTok5`'s `NameP` -/
theorem ncname_nameP (hX : TablesComplete T) {n : Bytes} (h : NCName T n) : NameP T n := by
  obtain ⟨⟨c, cs, rfl, hns, hall⟩, hcol⟩ := h
  have hlt : ∀ d ∈ c :: cs, d < 0x110000 := by
    intro d hd
    rcases List.mem_cons.mp hd with rfl | hd
    · exact hX.name_lt _ (hX.nameStart_sub_name _ hns)
    · exact hX.name_lt _ (hall d hd)
  have h58 : ∀ d ∈ c :: cs, d ≠ 58 := by
    intro d hd e
    subst e
    exact hcol (mem_enc_ascii bColon (by decide) _ hlt hd)
  rw [gp_enc_cons]
  refine ⟨encodeChar c, enc cs, c, cs, rfl, isChar_encode c (hlt c (by simp)),
    chars_enc cs (fun d hd => hlt d (by simp [hd])), hns, h58 c (by simp), ?_⟩
  intro d hd
  exact ⟨hall d hd, h58 d (by simp [hd])⟩

/-- [5] Name: the first character and the others -/
theorem name_parts (hX : TablesComplete T) {n : Bytes} (h : Name T n) :
    ∃ u bs c cs, n = u ++ bs ∧ IsChar u c ∧ Rox.Lemmas.Chars bs cs ∧ charIsNameStart T c = true ∧
      ∀ d ∈ cs, charIsName T d = true := by
  obtain ⟨c, cs, rfl, hns, hall⟩ := h
  rw [gp_enc_cons]
  exact ⟨encodeChar c, enc cs, c, cs, rfl,
    isChar_encode c (hX.name_lt _ (hX.nameStart_sub_name _ hns)),
    chars_enc cs (fun d hd => hX.name_lt _ (hall d hd)), hns, hall⟩

theorem name_chars (hX : TablesComplete T) {n : Bytes} (h : Name T n) :
    ∃ cs, Rox.Lemmas.Chars n cs ∧ ∀ d ∈ cs, charIsName T d = true := by
  obtain ⟨u, bs, c, cs, rfl, hu, hbs, hns, hall⟩ := name_parts T hX h
  refine ⟨c :: cs, .cons hu hbs, ?_⟩
  intro d hd
  rcases List.mem_cons.mp hd with rfl | hd
  · exact hX.nameStart_sub_name _ hns
  · exact hall d hd

theorem name_ne_nil {n : Bytes} (h : Name T n) : n ≠ [] := by
  obtain ⟨c, cs, rfl, _, _⟩ := h
  rw [gp_enc_cons]
  intro e
  exact gp_encode_ne_nil c (List.append_eq_nil_iff.mp e).1

end

/-! ### White space -/

section
variable (T : Tables) (txt : Bytes)

theorem skipSpacesAux_sp0 (X : Bytes) (hX : NoSp T X) :
    ∀ (s : Bytes), Sp0 T s → ∀ p, Stream.skipSpacesAux T p (s ++ X) = ⟨p + s.length, X⟩ := by
  intro s
  induction s with
  | nil =>
    intro _ p
    cases X with
    | nil => rfl
    | cons b r => simp [Stream.skipSpacesAux, hX b r rfl]
  | cons b s ih =>
    intro h p
    have hb := h b (by simp)
    simp only [List.cons_append, Stream.skipSpacesAux, hb, if_true,
      ih (fun x hx => h x (by simp [hx])), List.length_cons]
    congr 1
    omega

theorem skipSpaces_sp0 (s X : Bytes) (hs : Sp0 T s) (hX : NoSp T X) (p : Nat) :
    Stream.skipSpaces T ⟨p, s ++ X⟩ = ⟨p + s.length, X⟩ :=
  skipSpacesAux_sp0 T X hX s hs p

theorem startsWithSpace_sp (s X : Bytes) (hs : Sp T s) (p : Nat) :
    Stream.startsWithSpace T ⟨p, s ++ X⟩ = true := by
  obtain ⟨hne, h0⟩ := hs
  cases s with
  | nil => exact absurd rfl hne
  | cons b s' => simpa [Stream.startsWithSpace] using h0 b (by simp)

theorem startsWithSpace_noSp (X : Bytes) (hX : NoSp T X) (p : Nat) :
    Stream.startsWithSpace T ⟨p, X⟩ = false := by
  cases X with
  | nil => rfl
  | cons b r => simpa [Stream.startsWithSpace] using hX b r rfl

/-- a white-space prefix can be split off any byte string -/
theorem split_sp0 : ∀ (v : Bytes), ∃ sv v', v = sv ++ v' ∧ Sp0 T sv ∧ NoSp T v' := by
  intro v
  induction v with
  | nil => exact ⟨[], [], rfl, fun _ h => (by cases h), noSp_nil T⟩
  | cons b v ih =>
    cases hb : byteIsSpace T b with
    | false => exact ⟨[], b :: v, rfl, fun _ h => (by cases h), noSp_cons T hb⟩
    | true =>
      obtain ⟨sv, v', rfl, h1, h2⟩ := ih
      refine ⟨b :: sv, v', rfl, ?_, h2⟩
      intro x hx
      rcases List.mem_cons.mp hx with rfl | hx
      · exact hb
      · exact h1 x hx

theorem sp0_append {a b : Bytes} (ha : Sp0 T a) (hb : Sp0 T b) : Sp0 T (a ++ b) := by
  intro x hx
  rcases List.mem_append.mp hx with h | h
  · exact ha x h
  · exact hb x h

theorem noSp_append_of_ne {a : Bytes} (ha : NoSp T a) (hne : a ≠ []) (X : Bytes) : NoSp T (a ++ X) := by
  cases a with
  | nil => exact absurd rfl hne
  | cons b r =>
    intro b' r' e
    simp only [List.cons_append, List.cons.injEq] at e
    rw [← e.1]
    exact ha b r rfl

end

/-! ### Runs of characters -/

section
variable (T : Tables) (txt : Bytes)

theorem skipCharsAux_runC (f : Stream → Nat → Bool) (c0 : UInt8) (R : Bytes) (hc0 : c0 < 128)
    (hx0 : charIsXmlChar T c0.toNat = true) (hstop : ∀ p, f ⟨p, c0 :: R⟩ c0.toNat = false) :
    ∀ (t : Bytes), Run T f (c0 :: R) t → ∀ (fuel p : Nat) (acc : Bytes), t.length < fuel →
      Stream.skipCharsAux T txt f fuel ⟨p, t ++ c0 :: R⟩ acc =
        .ok (⟨p + t.length, c0 :: R⟩, acc.reverse ++ t) := by
  intro t ht
  induction ht with
  | nil =>
    intro fuel p acc hf
    obtain ⟨fuel, rfl⟩ : ∃ f, fuel = f + 1 := ⟨fuel - 1, by simp at hf; omega⟩
    simp [Stream.skipCharsAux, decodeChar_ascii c0 R hc0, hx0, hstop]
  | @cons u bs c hu hx hf _ ih =>
    intro fuel p acc hfu
    obtain ⟨fuel, rfl⟩ : ∃ f, fuel = f + 1 := ⟨fuel - 1, by simp at hfu; omega⟩
    have hul := isChar_len hu
    rw [List.append_assoc, skipCharsAux_char T txt f hu _ hx p (hf p) fuel acc,
      ih fuel _ _ (by simp at hfu; omega)]
    simp [Nat.add_assoc]

theorem consumeChars_runC (f : Stream → Nat → Bool) (c0 : UInt8) (R : Bytes) (hc0 : c0 < 128)
    (hx0 : charIsXmlChar T c0.toNat = true) (hstop : ∀ p, f ⟨p, c0 :: R⟩ c0.toNat = false)
    (t : Bytes) (ht : Run T f (c0 :: R) t) (p : Nat) :
    Stream.consumeChars T txt ⟨p, t ++ c0 :: R⟩ f =
      .ok (⟨p + t.length, c0 :: R⟩, ⟨p, t⟩) := by
  unfold Stream.consumeChars
  dsimp only
  rw [skipCharsAux_runC T txt f c0 R hc0 hx0 hstop t ht _ p [] (by simp; omega)]
  simp

/-- the body of a CDATA section -/
theorem run_cdata (R : Bytes) : ∀ (bs : Bytes) (cs : List Nat), Rox.Lemmas.Chars bs cs →
    (∀ c ∈ cs, charIsXmlChar T c = true) → containsSub bs Lit.cdataEnd = false →
    Run T (fun s c => !(c == 93 && s.startsWith Lit.cdataEnd)) (93 :: 93 :: 62 :: R) bs := by
  intro bs cs h
  induction h with
  | nil => intro _ _; exact .nil
  | @cons u bs c cs hu hbs ih =>
    intro hall hsub
    refine .cons hu (hall c (by simp)) ?_
      (ih (fun d hd => hall d (by simp [hd])) (containsSub_suffix _ u bs hsub))
    intro q
    have hpre : Lit.cdataEnd.isPrefixOf (u ++ (bs ++ 93 :: 93 :: 62 :: R)) = false := by
      have hne := hu.1
      cases u with
      | nil => exact absurd rfl hne
      | cons b u' =>
        by_cases hb : b = 93
        · subst hb
          obtain ⟨rfl, _⟩ := isChar_head_ascii hu (by decide)
          have h2 := containsSub_head hsub
          -- `]` b' b'' … : the body does not contain `]]>`, and what follows `]` + body-rest
          -- cannot complete `]]>` inside the terminator either
          cases bs with
          | nil => simp [Lit.cdataEnd, List.isPrefixOf]
          | cons b' bs' =>
            by_cases hb' : b' = 93
            · subst hb'
              cases bs' with
              | nil => simp [Lit.cdataEnd, List.isPrefixOf]
              | cons b'' bs'' =>
                simp [Lit.cdataEnd, List.isPrefixOf] at h2
                simp [Lit.cdataEnd, List.isPrefixOf, h2]
            · have : ((93 : UInt8) == b') = false := by
                rw [beq_eq_false_iff_ne]; exact fun e => hb' e.symm
              simp [Lit.cdataEnd, List.isPrefixOf, this]
        · have : ((93 : UInt8) == b) = false := by
            rw [beq_eq_false_iff_ne]; exact fun e => hb e.symm
          simp [Lit.cdataEnd, List.isPrefixOf, this]
    simp [Stream.startsWith, hpre]

end

/-! ### Names -/

section
variable (T : Tables) (txt : Bytes)

theorem skipNameTail_stopC (c0 : UInt8) (R : Bytes) (hc0 : c0 < 128)
    (hcn : charIsName T c0.toNat = false) :
    ∀ (bs : Bytes) (cs : List Nat), Rox.Lemmas.Chars bs cs → (∀ d ∈ cs, charIsName T d = true) →
      ∀ (fuel p : Nat) (acc : Bytes), bs.length < fuel →
      Stream.skipNameTail T fuel ⟨p, bs ++ c0 :: R⟩ acc =
        .ok (⟨p + bs.length, c0 :: R⟩, acc.reverse ++ bs) := by
  intro bs cs h
  induction h with
  | nil =>
    intro _ fuel p acc hf
    obtain ⟨fuel, rfl⟩ : ∃ f, fuel = f + 1 := ⟨fuel - 1, by simp at hf; omega⟩
    simp [Stream.skipNameTail, decodeChar_ascii c0 R hc0, hcn]
  | @cons u bs c cs hu _ ih =>
    intro hall fuel p acc hf
    obtain ⟨fuel, rfl⟩ : ∃ f, fuel = f + 1 := ⟨fuel - 1, by simp at hf; omega⟩
    have hul := isChar_len hu
    rw [List.append_assoc, skipNameTail_char T hu _ (hall c (by simp)) p fuel acc,
      ih (fun d hd => hall d (by simp [hd])) fuel _ _ (by simp at hf; omega)]
    simp [Nat.add_assoc]

theorem skipName_stopC (hX : TablesComplete T) (c0 : UInt8) (R : Bytes) (hc0 : c0 < 128)
    (hcn : charIsName T c0.toNat = false) (name : Bytes) (hn : Name T name) (p : Nat) :
    Stream.skipName T txt ⟨p, name ++ c0 :: R⟩ =
      .ok (⟨p + name.length, c0 :: R⟩, ⟨p, name⟩) := by
  obtain ⟨u, bs, c, cs, rfl, hu, hbs, hns, hall⟩ := name_parts T hX hn
  obtain ⟨b, r, e, hd, h1, h2, h3⟩ := isChar_view hu (bs ++ c0 :: R)
  rw [List.append_assoc, e]
  simp only [Stream.skipName, hd, hns, h1, h2, h3, if_true]
  rw [skipNameTail_stopC T c0 R hc0 hcn bs cs hbs hall _ _ _
    (by rw [← e]; have := isChar_len hu; simp; omega)]
  simp [Nat.add_assoc]

theorem consumeName_stopC (hX : TablesComplete T) (c0 : UInt8) (R : Bytes) (hc0 : c0 < 128)
    (hcn : charIsName T c0.toNat = false) (name : Bytes) (hn : Name T name) (p : Nat) :
    Stream.consumeName T txt ⟨p, name ++ c0 :: R⟩ =
      .ok (⟨p + name.length, c0 :: R⟩, ⟨p, name⟩) := by
  unfold Stream.consumeName
  rw [skipName_stopC T txt hX c0 R hc0 hcn name hn p]
  have := name_ne_nil T hn
  cases name with
  | nil => exact absurd rfl this
  | cons _ _ => simp

end

/-! ### Qualified names -/

section
variable (T : Tables) (txt : Bytes)

/-- a byte at which the scanning loop of `consume_qname` stops -/
def QStop (c0 : UInt8) : Prop := c0 < 128 ∧ charIsName T c0.toNat = false ∧ c0 ≠ bColon

theorem qstop_space (hT : TablesOK T) (hX : TablesComplete T) {b : UInt8}
    (h : byteIsSpace T b = true) : QStop T b := by
  refine ⟨hT.space_ascii b h, hX.space_not_name b h, ?_⟩
  rintro rfl
  rw [hX.delim_not_space bColon (by simp [bColon])] at h
  cases h

theorem qstop_delim (hX : TablesComplete T) {b : UInt8}
    (h : b ∈ ([33, 34, 35, 38, 39, 47, 59, 60, 61, 62, 63] : List UInt8)) : QStop T b := by
  refine ⟨?_, hX.delim_not_name b h, ?_⟩
  · simp only [List.mem_cons, List.not_mem_nil, or_false] at h
    rcases h with rfl | rfl | rfl | rfl | rfl | rfl | rfl | rfl | rfl | rfl | rfl <;> decide
  · simp only [List.mem_cons, List.not_mem_nil, or_false] at h
    rcases h with rfl | rfl | rfl | rfl | rfl | rfl | rfl | rfl | rfl | rfl | rfl <;> decide

theorem qnameLoop_charS (hC5 : TablesCanon5 T) {u : Bytes} {c : Nat} (hu : IsChar u c) (X : Bytes)
    (hn : charIsName T c = true) (h58 : c ≠ 58) (start p fuel : Nat) (acc : Bytes)
    (split : Option Nat) :
    Stream.qnameLoop T txt start (fuel + 1) ⟨p, u ++ X⟩ acc split =
      Stream.qnameLoop T txt start fuel ⟨p + u.length, X⟩ (u.reverse ++ acc) split := by
  rcases isChar_cases hu with ⟨b, rfl, hb, rfl⟩ | hall
  · have hbc : (b == bColon) = false := by
      rw [beq_eq_false_iff_ne]
      rintro rfl
      exact h58 rfl
    have hbn := hC5.byte_name_of_char b hb hn
    simp [Stream.qnameLoop, hb, hbc, hbn]
  · obtain ⟨b, r, e, hd, h1, h2, h3⟩ := isChar_view hu X
    have hb : ¬ b < 128 := by
      apply hall
      have := hu.1
      cases u with
      | nil => exact absurd rfl this
      | cons b' u' =>
        simp only [List.cons_append, List.cons.injEq] at e
        rw [e.1]; simp
    rw [e]
    simp only [Stream.qnameLoop, hb, hd, hn, h1, h2, h3, if_true, if_false]

/-- the loop over name characters other than ':' (one unit of fuel per character) -/
theorem qnameLoop_chars (hC5 : TablesCanon5 T) (start : Nat) (X : Bytes) (split : Option Nat) :
    ∀ (bs : Bytes) (cs : List Nat), Rox.Lemmas.Chars bs cs →
      (∀ d ∈ cs, charIsName T d = true ∧ d ≠ 58) → ∀ (fuel p : Nat) (acc : Bytes),
      Stream.qnameLoop T txt start (cs.length + fuel) ⟨p, bs ++ X⟩ acc split =
        Stream.qnameLoop T txt start fuel ⟨p + bs.length, X⟩ (bs.reverse ++ acc) split := by
  intro bs cs h
  induction h with
  | nil => intro _ fuel p acc; simp
  | @cons u bs c cs hu _ ih =>
    intro hall fuel p acc
    obtain ⟨h1, h2⟩ := hall c (by simp)
    have e : (c :: cs).length + fuel = (cs.length + fuel) + 1 := by simp; omega
    rw [e, List.append_assoc, qnameLoop_charS T txt hC5 hu _ h1 h2 start p _ acc split,
      ih (fun d hd => hall d (by simp [hd]))]
    simp [Nat.add_assoc]

theorem qnameLoop_stop (hG : TablesGrammar T) (start : Nat) (c0 : UInt8) (R : Bytes)
    (hs : QStop T c0) (fuel p : Nat) (acc : Bytes) (split : Option Nat) :
    Stream.qnameLoop T txt start (fuel + 1) ⟨p, c0 :: R⟩ acc split =
      .ok (⟨p, c0 :: R⟩, acc.reverse, split) := by
  obtain ⟨h1, h2, h3⟩ := hs
  have hbn : byteIsName T c0 = false := by
    cases hb : byteIsName T c0 with
    | false => rfl
    | true =>
      rw [hG.name_ascii c0 h1 hb] at h2
      cases h2
  have hcc : (c0 == bColon) = false := by
    rw [beq_eq_false_iff_ne]; exact h3
  simp [Stream.qnameLoop, h1, hcc, hbn]

theorem qnameLoop_colon (start : Nat) (X : Bytes) (fuel p : Nat) (acc : Bytes) :
    Stream.qnameLoop T txt start (fuel + 1) ⟨p, bColon :: X⟩ acc none =
      Stream.qnameLoop T txt start fuel ⟨p + 1, X⟩ (bColon :: acc) (some p) := by
  have h1 : bColon < 128 := by decide
  simp [Stream.qnameLoop, h1]

/-! #### `qparts` -/

theorem qparts_nocolon {q : Bytes} (h : bColon ∉ q) : qparts q = ([], q) := by
  unfold qparts
  rw [gp_span_all (· != bColon) q (by
    intro x hx
    simp only [bne_iff_ne, ne_eq]
    rintro rfl
    exact h hx)]

theorem qparts_colon {a : Bytes} (l : Bytes) (h : bColon ∉ a) : qparts (a ++ bColon :: l) = (a, l) := by
  unfold qparts
  rw [gp_span_stop (· != bColon) a bColon l (by
    intro x hx
    simp only [bne_iff_ne, ne_eq]
    rintro rfl
    exact h hx) (by simp)]

/-! #### `consume_qname` -/

theorem consumeQName_ncname (hT : TablesOK T) (hG : TablesGrammar T) (hX : TablesComplete T)
    (q : Bytes) (hq : NCName T q) (c0 : UInt8) (R : Bytes) (hs : QStop T c0) (p : Nat) :
    Stream.consumeQName T txt ⟨p, q ++ c0 :: R⟩ =
      .ok (⟨p + q.length, c0 :: R⟩, ⟨p, []⟩, ⟨p, q⟩) := by
  have hC5 := canon5 T hT hX
  have hn := ncname_nameP T hX hq
  obtain ⟨cs, hcs, hall⟩ := nameP_all T hC5 hn
  have hle := chars_length_le q cs hcs
  obtain ⟨F, hF⟩ : ∃ F, (q ++ c0 :: R).length + 1 = cs.length + (F + 1) :=
    ⟨(q ++ c0 :: R).length - cs.length, by simp; omega⟩
  unfold Stream.consumeQName
  dsimp only
  rw [hF, qnameLoop_chars T txt hC5 p (c0 :: R) none q cs hcs hall (F + 1) p [],
    qnameLoop_stop T txt hG p c0 R hs]
  simp [strIsNameStart_name T hC5 hn]

theorem consumeQName_item (hT : TablesOK T) (hG : TablesGrammar T) (hX : TablesComplete T)
    (q : Bytes) (hq : QName T q) (c0 : UInt8) (R : Bytes) (hs : QStop T c0) (p : Nat) :
    ∃ pfx loc, Stream.consumeQName T txt ⟨p, q ++ c0 :: R⟩ =
        .ok (⟨p + q.length, c0 :: R⟩, pfx, loc) ∧ qparts q = (pfx.bytes, loc.bytes) := by
  have hC5 := canon5 T hT hX
  rcases hq with hq | ⟨pn, l, hpn, hl, rfl⟩ | ⟨l, hl, rfl⟩
  · exact ⟨⟨p, []⟩, ⟨p, q⟩, consumeQName_ncname T txt hT hG hX q hq c0 R hs p, qparts_nocolon hq.2⟩
  · have hn1 := ncname_nameP T hX hpn
    have hn2 := ncname_nameP T hX hl
    obtain ⟨cs1, hcs1, hall1⟩ := nameP_all T hC5 hn1
    obtain ⟨cs2, hcs2, hall2⟩ := nameP_all T hC5 hn2
    have hle1 := chars_length_le pn cs1 hcs1
    have hle2 := chars_length_le l cs2 hcs2
    obtain ⟨F, hF⟩ : ∃ F, (pn ++ [bColon] ++ l ++ c0 :: R).length + 1 =
        cs1.length + ((cs2.length + (F + 1)) + 1) :=
      ⟨(pn ++ [bColon] ++ l ++ c0 :: R).length - cs1.length - cs2.length - 1, by simp; omega⟩
    have hr : pn ++ [bColon] ++ l ++ c0 :: R = pn ++ bColon :: (l ++ c0 :: R) := by simp
    refine ⟨⟨p, pn⟩, ⟨p + pn.length + 1, l⟩, ?_, ?_⟩
    · unfold Stream.consumeQName
      dsimp only
      rw [hF, hr, qnameLoop_chars T txt hC5 p _ none pn cs1 hcs1 hall1 _ p [],
        qnameLoop_colon T txt p, qnameLoop_chars T txt hC5 p (c0 :: R) _ l cs2 hcs2 hall2 (F + 1),
        qnameLoop_stop T txt hG p c0 R hs]
      have e1 : p + pn.length - p = pn.length := by omega
      have e2 : (pn ++ bColon :: l).take pn.length = pn := List.take_left
      have e3 : (pn ++ bColon :: l).drop (pn.length + 1) = l := by
        rw [← List.drop_drop, List.drop_left]; rfl
      simp [e1, e2, e3, strIsNameStart_name T hC5 hn1, strIsNameStart_name T hC5 hn2]
      omega
    · rw [List.append_assoc]
      exact qparts_colon l hpn.2
  · have hn2 := ncname_nameP T hX hl
    obtain ⟨cs2, hcs2, hall2⟩ := nameP_all T hC5 hn2
    have hle2 := chars_length_le l cs2 hcs2
    obtain ⟨F, hF⟩ : ∃ F, (bColon :: l ++ c0 :: R).length + 1 = (cs2.length + (F + 1)) + 1 :=
      ⟨(bColon :: l ++ c0 :: R).length - cs2.length - 1, by simp; omega⟩
    refine ⟨⟨p, []⟩, ⟨p + 1, l⟩, ?_, ?_⟩
    · unfold Stream.consumeQName
      dsimp only
      rw [hF, List.cons_append, qnameLoop_colon T txt p,
        qnameLoop_chars T txt hC5 p (c0 :: R) _ l cs2 hcs2 hall2 (F + 1),
        qnameLoop_stop T txt hG p c0 R hs]
      simp [strIsNameStart_name T hC5 hn2]
      omega
    · exact qparts_colon (a := []) l (by simp)

end

/-! ### Attribute values, `Eq`, quotes -/

section
variable (T : Tables) (txt : Bytes)

/-- [2] `Char*` as a character split; an ASCII byte that does not occur is not one of the
characters -/
theorem chars_bridge_avoid (hX : TablesComplete T) {bs : Bytes} (h : Grammar.Chars T bs) :
    ∃ cs, Rox.Lemmas.Chars bs cs ∧ (∀ c ∈ cs, charIsXmlChar T c = true) ∧
      ∀ k : UInt8, k < 128 → k ∉ bs → k.toNat ∉ cs := by
  obtain ⟨cs, rfl, hall⟩ := h
  have hlt : ∀ c ∈ cs, c < 0x110000 := fun c hc => hX.xmlChar_lt c (hall c hc)
  exact ⟨cs, chars_enc cs hlt, hall, fun k hk hno hm => hno (mem_enc_ascii k hk cs hlt hm)⟩

/-- dropping leading ASCII bytes from a string of characters -/
theorem chars_drop_ascii : ∀ (sv : Bytes), (∀ b ∈ sv, b < 128) → ∀ (v' : Bytes) (cs : List Nat),
    Rox.Lemmas.Chars (sv ++ v') cs → ∃ cs', Rox.Lemmas.Chars v' cs' ∧ ∀ c ∈ cs', c ∈ cs := by
  intro sv
  induction sv with
  | nil => intro _ v' cs h; exact ⟨cs, h, fun _ hc => hc⟩
  | cons b sv ih =>
    intro hasc v' cs h
    obtain ⟨cs1, rfl, h1⟩ := chars_ascii_head h (hasc b (by simp))
    obtain ⟨cs', h2, h3⟩ := ih (fun x hx => hasc x (by simp [hx])) v' cs1 h1
    exact ⟨cs', h2, fun c hc => by simp [h3 c hc]⟩

theorem advanceUntil2_quote (q : UInt8) (v R : Bytes) (hq : q ∉ v) (hlt : bLt ∉ v) (p : Nat) :
    Stream.advanceUntil2 ⟨p, v ++ q :: R⟩ q bLt = .ok (⟨p + v.length, q :: R⟩, ⟨p, v⟩) := by
  unfold Stream.advanceUntil2
  dsimp only
  rw [spanBytesAux_run (fun b => b != q && b != bLt) q R (by simp) v
    (by
      intro x hx
      have h1 : x ≠ q := fun e => hq (e ▸ hx)
      have h2 : x ≠ bLt := fun e => hlt (e ▸ hx)
      simp [h1, h2])]
  simp [Stream.atEnd]

theorem consumeByte_same (c : UInt8) (R : Bytes) (p : Nat) :
    Stream.consumeByte txt ⟨p, c :: R⟩ c = .ok ⟨p + 1, R⟩ := by
  simp [Stream.consumeByte]

theorem consumeQuote_q (q : UInt8) (hq : q = bQuot ∨ q = bApos) (R : Bytes) (p : Nat) :
    Stream.consumeQuote txt ⟨p, q :: R⟩ = .ok (⟨p + 1, R⟩, q) := by
  rcases hq with rfl | rfl <;> simp [Stream.consumeQuote, bApos, bQuot]

theorem consumeEq_item (hX : TablesComplete T) (s2 s3 X : Bytes) (h2 : Sp0 T s2) (h3 : Sp0 T s3)
    (hX' : NoSp T X) (p : Nat) :
    Stream.consumeEq T txt ⟨p, s2 ++ bEq :: (s3 ++ X)⟩ = .ok ⟨p + s2.length + 1 + s3.length, X⟩ := by
  have he : byteIsSpace T bEq = false := hX.delim_not_space bEq (by simp [bEq])
  unfold Stream.consumeEq
  rw [skipSpaces_sp0 T s2 _ h2 (noSp_cons T he) p]
  simp only [consumeByte_same, bind]
  show Res.ok _ = _
  rw [skipSpaces_sp0 T s3 X h3 hX']

theorem quote_noSp (hX : TablesComplete T) (q : UInt8) (hq : q = bQuot ∨ q = bApos) (R : Bytes) :
    NoSp T (q :: R) := by
  apply noSp_cons
  rcases hq with rfl | rfl
  · exact hX.delim_not_space bQuot (by simp [bQuot])
  · exact hX.delim_not_space bApos (by simp [bApos])

end

/-! ### What comes next -/

section
variable (T : Tables) (txt : Bytes)

/-- The one table fact of Stage A⁻¹ that is not in `TablesComplete`: `parse_pi` tests for the
literal `<?xml` + U+0020, so U+0020 must not be a name character (true of the tables of the build:
`Rox.Lemmas.CompleteTok1Tables`). -/
structure TablesTok (T : Tables) : Prop where
  sp_not_name : charIsName T 32 = false

/-- white space comes next -/
theorem head_sp (hT : TablesOK T) (hX : TablesComplete T) {s : Bytes} (hs : Sp T s) (Z : Bytes) :
    ∃ c1 R1, s ++ Z = c1 :: R1 ∧ QStop T c1 := by
  obtain ⟨hne, h0⟩ := hs
  cases s with
  | nil => exact absurd rfl hne
  | cons b s' => exact ⟨b, s' ++ Z, rfl, qstop_space T hT hX (h0 b (by simp))⟩

/-- optional white space, then a stop byte -/
theorem head_sp0_stop (hT : TablesOK T) (hX : TablesComplete T) {s : Bytes} (hs : Sp0 T s)
    (c0 : UInt8) (R : Bytes) (h0 : QStop T c0) : ∃ c1 R1, s ++ c0 :: R = c1 :: R1 ∧ QStop T c1 := by
  cases s with
  | nil => exact ⟨c0, R, rfl, h0⟩
  | cons b s' => exact ⟨b, s' ++ c0 :: R, rfl, qstop_space T hT hX (hs b (by simp))⟩

/-- the first byte of a qualified name -/
theorem qname_head (hT : TablesOK T) (hX : TablesComplete T) {q : Bytes} (hq : QName T q) :
    ∃ b q', q = b :: q' ∧ byteIsSpace T b = false ∧ b ≠ 33 ∧ b ≠ 47 ∧ b ≠ 62 ∧ b ≠ 63 := by
  have hC5 := canon5 T hT hX
  rcases hq with hq | ⟨pn, l, hpn, _, rfl⟩ | ⟨l, _, rfl⟩
  · obtain ⟨b, r, hb, e⟩ := name_head5 T hT hC5 (ncname_nameP T hX hq) []
    rw [List.append_nil] at e
    exact ⟨b, r, e, hb⟩
  · obtain ⟨b, r, hb, e⟩ := name_head5 T hT hC5 (ncname_nameP T hX hpn) ([bColon] ++ l)
    rw [← List.append_assoc] at e
    exact ⟨b, r, e, hb⟩
  · exact ⟨bColon, l, rfl, hX.delim_not_space bColon (by simp [bColon]), by decide, by decide,
      by decide, by decide⟩

theorem qname_noSp (hT : TablesOK T) (hX : TablesComplete T) {q : Bytes} (hq : QName T q) (Z : Bytes) :
    NoSp T (q ++ Z) := by
  obtain ⟨b, q', rfl, hb, _⟩ := qname_head T hT hX hq
  exact noSp_cons T hb

/-- the local `consume_spaces` of `parse_declaration`, `parse_pi` -/
theorem declConsumeSpaces_sp0 (s X : Bytes) (hs : Sp0 T s) (hX' : NoSp T X)
    (hor : s ≠ [] ∨ Lit.piEnd.isPrefixOf X = true ∨ X = []) (p : Nat) :
    declConsumeSpaces T txt ⟨p, s ++ X⟩ = .ok ⟨p + s.length, X⟩ := by
  cases s with
  | cons b s' =>
    have hsp : Stream.startsWithSpace T ⟨p, b :: s' ++ X⟩ = true :=
      startsWithSpace_sp T (b :: s') X ⟨by simp, hs⟩ p
    simp only [declConsumeSpaces, hsp, if_true, skipSpaces_sp0 T (b :: s') X hs hX' p]
  | nil =>
    have hsp := startsWithSpace_noSp T X hX' p
    simp only [List.nil_append, List.length_nil, Nat.add_zero]
    rcases hor with h | h | h
    · exact absurd rfl h
    · simp only [declConsumeSpaces, hsp, Stream.startsWith, h, Bool.false_eq_true, if_false,
        Bool.not_true, Bool.false_and]
    · subst h
      simp [declConsumeSpaces, hsp, Stream.startsWith, Stream.atEnd, Lit.piEnd]

/-! #### Lower-case ASCII names (`version`, `encoding`, `standalone`) -/

theorem enc_ascii : ∀ (n : Bytes), (∀ b ∈ n, b < 128) → enc (n.map UInt8.toNat) = n := by
  intro n
  induction n with
  | nil => intro _; rfl
  | cons b n ih =>
    intro h
    rw [List.map_cons, gp_enc_cons, gp_encode_byte b (h b (by simp)),
      ih (fun x hx => h x (by simp [hx]))]
    rfl

theorem lower_ncname (hX : TablesComplete T) (n : Bytes) (hne : n ≠ [])
    (hl : ∀ b ∈ n, 97 ≤ b ∧ b ≤ 122) : NCName T n := by
  have hasc : ∀ b ∈ n, b < 128 := by
    intro b hb
    have := (hl b hb).2
    exact UInt8.lt_of_le_of_lt this (by decide)
  refine ⟨?_, ?_⟩
  · cases n with
    | nil => exact absurd rfl hne
    | cons b n' =>
      refine ⟨b.toNat, n'.map UInt8.toNat, ?_, hX.lower_nameStart b (hl b (by simp)).1 (hl b (by simp)).2, ?_⟩
      · rw [← List.map_cons, enc_ascii _ hasc]
      · intro d hd
        obtain ⟨x, hx, rfl⟩ := List.mem_map.mp hd
        exact hX.nameStart_sub_name _ (hX.lower_nameStart x (hl x (by simp [hx])).1 (hl x (by simp [hx])).2)
  · intro hc
    have := (hl bColon hc).1
    exact absurd this (by decide)

theorem lower_not_space (hX : TablesComplete T) (b : UInt8) (h1 : 97 ≤ b) (h2 : b ≤ 122) :
    byteIsSpace T b = false := by
  cases hs : byteIsSpace T b with
  | false => rfl
  | true =>
    have := hX.nameStart_sub_name _ (hX.lower_nameStart b h1 h2)
    rw [hX.space_not_name b hs] at this
    cases this

/-- a quoted value: characters other than the quote and `<` -/
theorem run_value (hX : TablesComplete T) (q : UInt8) (hq128 : q < 128) (v : Bytes)
    (hv : Grammar.Chars T v) (hq : q ∉ v) (hlt : bLt ∉ v) (stop : Bytes) :
    Run T (fun _ c => c != q.toNat && c != 60) stop v := by
  obtain ⟨cs, hcs, hall, hav⟩ := chars_bridge_avoid T hX hv
  refine run_of_chars T _ _ (fun c => c != q.toNat && c != 60) (fun c h _ => h) v cs hcs ?_
  intro c hc
  refine ⟨hall c hc, ?_⟩
  have h1 : c ≠ q.toNat := fun e => hav q hq128 hq (e ▸ hc)
  have h2 : c ≠ 60 := fun e => hav bLt (by decide) hlt (by rw [e] at hc; exact hc)
  simp [h1, h2]

theorem quote_facts (hX : TablesComplete T) (q : UInt8) (hq : q = bQuot ∨ q = bApos) :
    q < 128 ∧ charIsXmlChar T q.toNat = true := by
  rcases hq with rfl | rfl
  · exact ⟨by decide, hX.delim_xmlChar bQuot (by simp [bQuot])⟩
  · exact ⟨by decide, hX.delim_xmlChar bApos (by simp [bApos])⟩

end

/-! ### Processing instructions -/

section
variable (T : Tables) (txt : Bytes)

theorem stop_not_xml (hX : TablesComplete T) {c0 : UInt8} (hcn : charIsName T c0.toNat = false) :
    c0 ≠ 120 ∧ c0 ≠ 109 ∧ c0 ≠ 108 := by
  refine ⟨?_, ?_, ?_⟩ <;> rintro rfl
  · rw [hX.nameStart_sub_name _ (hX.lower_nameStart 120 (by decide) (by decide))] at hcn; cases hcn
  · rw [hX.nameStart_sub_name _ (hX.lower_nameStart 109 (by decide) (by decide))] at hcn; cases hcn
  · rw [hX.nameStart_sub_name _ (hX.lower_nameStart 108 (by decide) (by decide))] at hcn; cases hcn

/-- `<?` target … is not `<?xml` + U+0020 -/
theorem not_xmlDeclC (hX : TablesComplete T) (hK : TablesTok T) (t : Bytes) (hn : Name T t)
    (hok : piTargetOk t = true) (c0 : UInt8) (hcn : charIsName T c0.toNat = false) (R : Bytes) :
    Lit.xmlDecl.isPrefixOf (60 :: 63 :: (t ++ c0 :: R)) = false := by
  have hc' := stop_not_xml T hX hcn
  rw [Bool.eq_false_iff]
  intro h
  match t, hn, hok with
  | [], _, _ =>
    simp [Lit.xmlDecl, List.isPrefixOf] at h
    exact hc'.1 h.1.symm
  | [b1], _, _ =>
    simp [Lit.xmlDecl, List.isPrefixOf] at h
    exact hc'.2.1 h.2.1.symm
  | [b1, b2], _, _ =>
    simp [Lit.xmlDecl, List.isPrefixOf] at h
    exact hc'.2.2 h.2.2.1.symm
  | [b1, b2, b3], _, hok =>
    simp [Lit.xmlDecl, List.isPrefixOf] at h
    obtain ⟨rfl, rfl, rfl, _⟩ := h
    exact absurd hok (by decide)
  | b1 :: b2 :: b3 :: b4 :: r, hn, _ =>
    simp [Lit.xmlDecl, List.isPrefixOf] at h
    obtain ⟨rfl, rfl, rfl, rfl⟩ := h
    obtain ⟨cs, hcs, hall⟩ := name_chars T hX hn
    obtain ⟨cs1, rfl, h1⟩ := chars_ascii_head hcs (by decide)
    obtain ⟨cs2, rfl, h2⟩ := chars_ascii_head h1 (by decide)
    obtain ⟨cs3, rfl, h3⟩ := chars_ascii_head h2 (by decide)
    obtain ⟨cs4, rfl, h4⟩ := chars_ascii_head h3 (by decide)
    have := hall (32 : UInt8).toNat (by simp)
    rw [show (32 : UInt8).toNat = 32 from rfl, hK.sp_not_name] at this
    cases this

/-- `<?` target … is not `<?xml` + white space -/
theorem not_xmlDeclWC (hT : TablesOK T) (hX : TablesComplete T) (t : Bytes) (hn : Name T t)
    (hok : piTargetOk t = true) (c0 : UInt8) (hcn : charIsName T c0.toNat = false) (R : Bytes)
    (p : Nat) : Stream.startsWithXmlDecl T ⟨p, 60 :: 63 :: (t ++ c0 :: R)⟩ = false := by
  have hc' := stop_not_xml T hX hcn
  rw [Bool.eq_false_iff]
  intro h
  simp only [Stream.startsWithXmlDecl, Bool.and_eq_true] at h
  obtain ⟨h, h6⟩ := h
  match t, hn, hok with
  | [], _, _ =>
    simp [Stream.startsWith, Lit.xmlDeclOpen, List.isPrefixOf] at h
    exact hc'.1 h.1.symm
  | [b1], _, _ =>
    simp [Stream.startsWith, Lit.xmlDeclOpen, List.isPrefixOf] at h
    exact hc'.2.1 h.2.1.symm
  | [b1, b2], _, _ =>
    simp [Stream.startsWith, Lit.xmlDeclOpen, List.isPrefixOf] at h
    exact hc'.2.2 h.2.2.symm
  | [b1, b2, b3], _, hok =>
    simp [Stream.startsWith, Lit.xmlDeclOpen, List.isPrefixOf] at h
    obtain ⟨rfl, rfl, rfl⟩ := h
    exact absurd hok (by decide)
  | b1 :: b2 :: b3 :: b4 :: r, hn, _ =>
    simp [Stream.startsWith, Lit.xmlDeclOpen, List.isPrefixOf] at h
    obtain ⟨rfl, rfl, rfl⟩ := h
    have h6 : byteIsSpace T b4 = true := by simpa using h6
    have h4lt := hT.space_ascii b4 h6
    have h4n := hX.space_not_name b4 h6
    obtain ⟨cs, hcs, hall⟩ := name_chars T hX hn
    obtain ⟨cs1, rfl, h1⟩ := chars_ascii_head hcs (by decide)
    obtain ⟨cs2, rfl, h2⟩ := chars_ascii_head h1 (by decide)
    obtain ⟨cs3, rfl, h3⟩ := chars_ascii_head h2 (by decide)
    obtain ⟨cs4, rfl, h4⟩ := chars_ascii_head h3 h4lt
    have := hall b4.toNat (by simp)
    rw [h4n] at this
    cases this

/-- what follows the target of a PI: white space or `?>` -/
theorem pi_after_target (hT : TablesOK T) (hX : TablesComplete T) {s v : Bytes} (hs : Sp0 T s)
    (hsv : v ≠ [] → s ≠ []) (rest : Bytes) :
    ∃ c0 R0, s ++ v ++ 63 :: 62 :: rest = c0 :: R0 ∧ c0 < 128 ∧ charIsName T c0.toNat = false := by
  cases s with
  | cons b s' =>
    exact ⟨b, s' ++ v ++ 63 :: 62 :: rest, by simp, hT.space_ascii b (hs b (by simp)),
      hX.space_not_name b (hs b (by simp))⟩
  | nil =>
    have hv : v = [] := by
      cases v with
      | nil => rfl
      | cons x v' => exact absurd rfl (hsv (by simp))
    subst hv
    exact ⟨63, 62 :: rest, rfl, by decide, hX.delim_not_name 63 (by simp)⟩

end

end Rox.Lemmas.CT1
