/-
  Rox.Lemmas.ErrPayload — the names and characters an error carries are the ones written in the
  source (C14): every string payload of an error returned by `parse` is a contiguous piece of the
  input, every character payload occurs in the input.
-/
import Rox.Lemmas.ErrPos
import Rox.Lemmas.SafeParse
import Rox.Lemmas.ErrPayloadBuild

namespace Rox.Lemmas
open Rox

/-- what an error's payload must be, relative to the input -/
def PayloadOk (txt : Bytes) : Err → Prop
  | .duplicatedNamespace n _ => n <:+: txt
  | .unknownNamespace n _ => n <:+: txt
  | .unknownEntityReference n _ => n <:+: txt
  | .duplicatedAttribute n _ => n <:+: txt
  /- the name of the end tag as written, and the name of the element it should have closed as
  written in its start tag (`prefix:local`, or `local`) -/
  | .unexpectedCloseTag expected actual _ => expected <:+: txt ∧ actual <:+: txt
  /- the offending character occurs in the input -/
  | .nonXmlChar c _ => encodeChar c <:+: txt
  | .invalidChar _ actual _ => actual ∈ txt
  | .invalidChar2 _ actual _ => actual ∈ txt
  | _ => True

/-- **Error payloads come from the source** (every valid UTF-8 input, every option value, errors
raised while expanding entities included). -/
theorem parse_error_payload (T : Tables) (hT : TablesOK T) (txt : Bytes) (hv : ValidUtf8 txt)
    (opt : Opt) (e : Err) (h : parse T txt opt = .err e) : PayloadOk txt e := by
  have _ := hT
  have h1 : EP.POk txt e := (EP.parse_ek T txt hv opt).out e h
  cases e <;> exact h1

end Rox.Lemmas
