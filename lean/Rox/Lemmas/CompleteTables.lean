/-
  Rox.Lemmas.CompleteTables — the table facts of `Rox.Lemmas.TablesComplete` hold of the tables
  extracted from the current build (re-checked whenever `Generated.lean` changes).
-/
import Rox.Generated
import Rox.Lemmas.GrammarTables
import Rox.Lemmas.CompleteDefs

namespace Rox.Lemmas
open Rox

/-- every range of `rs` lies inside one range of `rs'` (as in `Rox.Props.C03`) -/
def rangesSubC (rs rs' : List (Nat × Nat)) : Bool :=
  rs.all fun r => rs'.any fun r' => r'.1 ≤ r.1 && r.2 ≤ r'.2

theorem inRanges_subC {rs rs' : List (Nat × Nat)} (h : rangesSubC rs rs' = true) (c : Nat)
    (hc : inRanges rs c = true) : inRanges rs' c = true := by
  simp only [inRanges, List.any_eq_true, Bool.and_eq_true, decide_eq_true_eq] at hc ⊢
  obtain ⟨r, hr, h1, h2⟩ := hc
  simp only [rangesSubC, List.all_eq_true, List.any_eq_true, Bool.and_eq_true,
    decide_eq_true_eq] at h
  obtain ⟨r', hr', h3, h4⟩ := h r hr
  exact ⟨r', hr', by omega, by omega⟩

theorem inRanges_code {c : Nat} (h : inRanges [(0, 0x10FFFF)] c = true) : c < 0x110000 := by
  simp only [inRanges, List.any_cons, List.any_nil, Bool.or_false, Bool.and_eq_true,
    decide_eq_true_eq] at h
  omega

/-- The table facts of the completeness proof hold of the tables of the build. -/
theorem generated_tables_complete : TablesComplete Rox.Generated.tables := by
  refine ⟨?_, ?_, ?_, ?_, ?_, ?_, ?_, ?_, ?_, ?_, ?_, ?_, ?_⟩
  · apply all_bytes_g; decide +kernel
  · apply all_bytes_g; decide +kernel
  · apply all_bytes_g; decide +kernel
  · apply all_bytes_g; decide +kernel
  · apply all_bytes_g; decide +kernel
  · exact inRanges_subC (rs := Generated.implNameStart) (rs' := Generated.implName) (by decide)
  · intro c hc
    exact inRanges_code (inRanges_subC (rs := Generated.implName) (rs' := [(0, 0x10FFFF)]) (by decide) c hc)
  · intro c hc
    exact inRanges_code (inRanges_subC (rs := Generated.implXmlChar) (rs' := [(0, 0x10FFFF)]) (by decide) c hc)
  · decide
  · decide
  · decide
  · apply all_bytes_g; decide +kernel
  · decide

end Rox.Lemmas
