/-
  Rox.Lemmas.CompleteSem — Stage S of the completeness proof: the constraints stated on the abstract
  tree (`nsWf`: namespace constraints with the scopes of `Rox.Spec.MirrorNs`; the sizes of
  `WithinLimits`) become the item-level checks and costs of `Rox.Lemmas.CompleteDefs` on the
  flattened document.
-/
import Rox.Lemmas.CompleteDefs

namespace Rox.Lemmas
open Rox Rox.Spec Rox.Spec.Grammar Rox.Spec.Mirror Rox.Spec.MirrorNs Rox.Spec.Complete Rox.Spec.Canon4

/-! ### The checks -/

theorem csem_runOk_append (a b : List Item) : ∀ st : SStk,
    runOk st (a ++ b) = (runOk st a && runOk (runSt st a) b) := by
  induction a with
  | nil => intro st; simp only [List.nil_append, runOk, runSt, Bool.true_and]
  | cons it r ih => intro st; simp only [List.cons_append, runOk, runSt, ih, Bool.and_assoc]

theorem csem_runSt_append (a b : List Item) : ∀ st : SStk,
    runSt st (a ++ b) = runSt (runSt st a) b := by
  induction a with
  | nil => intro st; simp only [List.nil_append, runSt]
  | cons it r ih => intro st; simp only [List.cons_append, runSt, ih]

theorem csem_misc_item (st : SStk) (it : Item) (h : it.isMiscI = true) :
    itemOk st it = true ∧ itemSt st it = st := by
  cases it <;> simp_all [Item.isMiscI, itemOk, itemSt]

theorem csem_misc_run (its : List Item) (h : ∀ it ∈ its, it.isMiscI = true) : ∀ st : SStk,
    runOk st its = true ∧ runSt st its = st := by
  induction its with
  | nil => intro st; simp only [runOk, runSt, and_self]
  | cons it r ih =>
    intro st
    have h1 := csem_misc_item st it (h it (List.mem_cons_self ..))
    have h2 := ih (fun x hx => h x (List.mem_cons_of_mem _ hx)) st
    simp only [runOk, runSt, h1.1, h1.2, h2.1, h2.2, Bool.and_self, and_self]

mutual
  theorem csem_node : ∀ (c : CNode) (st : SStk), c.Closed → nsWf (topSc st) c.abs = true →
      runOk st c.items = true ∧ runSt st c.items = st
    | .elem q attrs s1 kids q' s2, st, hcl, hns => by
      simp only [CNode.Closed] at hcl
      simp only [CNode.abs, nsWf, Bool.and_eq_true] at hns
      have ih := csem_nodes kids ((qparts q, scopeOf (topSc st) (attrsAbs attrs)) :: st) hcl.2
        (by simpa only [topSc] using hns.2)
      simp only [CNode.items, runOk, runSt, itemOk, itemSt, csem_runOk_append, csem_runSt_append,
        ih.1, ih.2, hns.1, hcl.1, List.tail_cons, Bool.and_self, beq_self_eq_true,
        and_self]
    | .empty q attrs s1, st, _, hns => by
      simp only [CNode.abs, nsWf, Bool.and_eq_true] at hns
      simp only [CNode.items, runOk, runSt, itemOk, itemSt, hns.1, Bool.and_self, and_self]
    | .text t, st, _, _ => by simp only [CNode.items, runOk, runSt, itemOk, itemSt, Bool.and_self, and_self]
    | .cdata b, st, _, _ => by simp only [CNode.items, runOk, runSt, itemOk, itemSt, Bool.and_self, and_self]
    | .comment b, st, _, _ => by simp only [CNode.items, runOk, runSt, itemOk, itemSt, Bool.and_self, and_self]
    | .pi t s v, st, _, _ => by simp only [CNode.items, runOk, runSt, itemOk, itemSt, Bool.and_self, and_self]
  theorem csem_nodes : ∀ (cs : List CNode) (st : SStk), CNode.ClosedAll cs →
      nsWfAll (topSc st) (CNode.absAll cs) = true →
      runOk st (CNode.itemsAll cs) = true ∧ runSt st (CNode.itemsAll cs) = st
    | [], st, _, _ => by simp only [CNode.itemsAll, runOk, runSt, and_self]
    | k :: ks, st, hcl, hns => by
      simp only [CNode.ClosedAll] at hcl
      simp only [CNode.absAll, nsWfAll, Bool.and_eq_true] at hns
      have h1 := csem_node k st hcl.1 hns.1
      have h2 := csem_nodes ks st hcl.2 hns.2
      simp only [CNode.itemsAll, csem_runOk_append, csem_runSt_append, h1.1, h1.2, h2.1, h2.2,
        Bool.and_self, and_self]
end

/-- the namespace constraints of the tree are the item-level checks; the tags are balanced -/
theorem sem_doc (pre : List Item) (root : CNode) (post : List Item)
    (hpre : ∀ it ∈ pre, it.isMiscI = true) (hpost : ∀ it ∈ post, it.isMiscI = true)
    (hcl : root.Closed) (hns : nsWf [] root.abs = true) :
    runOk [] (pre ++ root.items ++ post) = true ∧ runSt [] (pre ++ root.items ++ post) = [] := by
  have h1 := csem_misc_run pre hpre []
  have h2 := csem_node root [] hcl (by simpa only [topSc] using hns)
  have h3 := csem_misc_run post hpost []
  simp only [csem_runOk_append, csem_runSt_append, h1.1, h1.2, h2.1, h2.2, h3.1, h3.2,
    Bool.and_self, and_self]

/-! ### The costs -/

theorem csem_countAllY_append (a b : List YNode) : countAllY (a ++ b) = countAllY a + countAllY b := by
  induction a with
  | nil => simp only [List.nil_append, countAllY, Nat.zero_add]
  | cons k r ih => simp only [List.cons_append, countAllY, ih, Nat.add_assoc]

theorem csem_attrCountAllY_append (a b : List YNode) :
    attrCountAllY (a ++ b) = attrCountAllY a + attrCountAllY b := by
  induction a with
  | nil => simp only [List.nil_append, attrCountAllY, Nat.zero_add]
  | cons k r ih => simp only [List.cons_append, attrCountAllY, ih, Nat.add_assoc]

theorem csem_count_flush (p : Option Bytes) : countAllY (flush p) = if p.isSome then 1 else 0 := by
  cases p <;> simp [flush, countAllY, countY]

theorem csem_attrCount_flush (p : Option Bytes) : attrCountAllY (flush p) = 0 := by
  cases p <;> simp [flush, attrCountAllY, attrCountY]

theorem csem_nodeCost_etag (b : Bool) (q s2 : Bytes) (r : List Item) :
    nodeCost b (.etag q s2 :: r) = nodeCost false r := by
  cases b <;> simp only [nodeCost]

mutual
  /-- an element: one node plus its children, whatever the pending flag; no run is pending after it -/
  theorem csem_nodeCost_node : ∀ (c : CNode), c.isElemC = true → ∀ (b : Bool) (rest : List Item),
      nodeCost b (c.items ++ rest) = countAllY (treeOf c.abs) + nodeCost false rest
    | .elem q attrs s1 kids q' s2, _, b, rest => by
      have ih := csem_nodeCost_nodes kids none (.etag q' s2 :: rest)
        (by rw [csem_nodeCost_etag, csem_nodeCost_etag])
      simp only [Option.isSome_none, Bool.false_eq_true, if_false, Nat.add_zero,
        csem_nodeCost_etag] at ih
      simp only [CNode.items, CNode.abs, treeOf, List.cons_append, List.append_assoc,
        List.nil_append, nodeCost, ih, countAllY, countY, Nat.add_zero, Nat.add_assoc]
    | .empty q attrs s1, _, b, rest => by
      simp only [CNode.items, CNode.abs, treeOf, treeKids, flush, List.cons_append,
        List.nil_append, nodeCost, countAllY, countY, Nat.add_zero]
    | .text t, h, _, _ => by simp [CNode.isElemC] at h
    | .cdata t, h, _, _ => by simp [CNode.isElemC] at h
    | .comment t, h, _, _ => by simp [CNode.isElemC] at h
    | .pi t s v, h, _, _ => by simp [CNode.isElemC] at h
  /-- children: `p` is the text run being collected -/
  theorem csem_nodeCost_nodes : ∀ (cs : List CNode) (p : Option Bytes) (rest : List Item),
      nodeCost true rest = nodeCost false rest →
      nodeCost p.isSome (CNode.itemsAll cs ++ rest) + (if p.isSome then 1 else 0) =
        countAllY (treeKids p (CNode.absAll cs)) + nodeCost false rest
    | [], p, rest, hr => by
      cases p <;>
        simp [CNode.itemsAll, CNode.absAll, treeKids, flush, countAllY, countY, hr, Nat.add_comm]
    | .text t :: ks, p, rest, hr => by
      have ih := csem_nodeCost_nodes ks (some (p.getD [] ++ decodeText t)) rest hr
      simp only [Option.isSome_some, if_true] at ih
      simp only [CNode.itemsAll, CNode.items, CNode.absAll, CNode.abs, treeKids, List.cons_append,
        List.nil_append, nodeCost, ← ih]
      cases p <;> simp <;> omega
    | .cdata t :: ks, p, rest, hr => by
      have ih := csem_nodeCost_nodes ks (some (p.getD [] ++ lineEnds t)) rest hr
      simp only [Option.isSome_some, if_true] at ih
      simp only [CNode.itemsAll, CNode.items, CNode.absAll, CNode.abs, treeKids, List.cons_append,
        List.nil_append, nodeCost, ← ih]
      cases p <;> simp <;> omega
    | .comment t :: ks, p, rest, hr => by
      have ih := csem_nodeCost_nodes ks none rest hr
      simp only [Option.isSome_none, Bool.false_eq_true, if_false, Nat.add_zero] at ih
      simp only [CNode.itemsAll, CNode.items, CNode.absAll, CNode.abs, treeKids, List.cons_append,
        List.nil_append, nodeCost, ih, csem_countAllY_append, csem_count_flush, countAllY, countY]
      omega
    | .pi t s v :: ks, p, rest, hr => by
      have ih := csem_nodeCost_nodes ks none rest hr
      simp only [Option.isSome_none, Bool.false_eq_true, if_false, Nat.add_zero] at ih
      simp only [CNode.itemsAll, CNode.items, CNode.absAll, CNode.abs, treeKids, List.cons_append,
        List.nil_append, nodeCost, ih, csem_countAllY_append, csem_count_flush, countAllY, countY]
      omega
    | .elem q attrs s1 kids q' s2 :: ks, p, rest, hr => by
      have ih := csem_nodeCost_nodes ks none rest hr
      simp only [Option.isSome_none, Bool.false_eq_true, if_false, Nat.add_zero] at ih
      have hk := csem_nodeCost_node (.elem q attrs s1 kids q' s2) rfl p.isSome
        (CNode.itemsAll ks ++ rest)
      simp only [CNode.abs, treeOf] at hk
      simp only [CNode.itemsAll, List.append_assoc, hk, ih, CNode.absAll, CNode.abs, treeKids,
        csem_countAllY_append, csem_count_flush, countAllY]
      omega
    | .empty q attrs s1 :: ks, p, rest, hr => by
      have ih := csem_nodeCost_nodes ks none rest hr
      simp only [Option.isSome_none, Bool.false_eq_true, if_false, Nat.add_zero] at ih
      have hk := csem_nodeCost_node (.empty q attrs s1) rfl p.isSome (CNode.itemsAll ks ++ rest)
      simp only [CNode.abs, treeOf] at hk
      simp only [CNode.itemsAll, List.append_assoc, hk, ih, CNode.absAll, CNode.abs, treeKids,
        csem_countAllY_append, csem_count_flush, countAllY]
      omega
end

/-- prolog / epilog: one node per comment and PI, white space dropped, nothing pending at the end -/
theorem csem_nodeCost_misc (its : List Item) (h : ∀ it ∈ its, it.isMiscI = true) (rest : List Item) :
    nodeCost false (its ++ rest) = countAllY (treeKids none (miscAbs its)) + nodeCost false rest := by
  induction its with
  | nil => simp only [List.nil_append, miscAbs, treeKids, flush, countAllY, Nat.zero_add]
  | cons it r ih =>
    have h1 := h it (List.mem_cons_self ..)
    have h2 := ih (fun x hx => h x (List.mem_cons_of_mem _ hx))
    cases it with
    | sp s => simp only [List.cons_append, nodeCost, miscAbs, h2]
    | comment b =>
      simp only [List.cons_append, nodeCost, miscAbs, treeKids, flush, List.nil_append, countAllY,
        countY, h2, Nat.add_assoc]
    | pi t s v =>
      simp only [List.cons_append, nodeCost, miscAbs, treeKids, flush, List.nil_append, countAllY,
        countY, h2, Nat.add_assoc]
    | cdata b => simp [Item.isMiscI] at h1
    | text t => simp [Item.isMiscI] at h1
    | stag q a s e => simp [Item.isMiscI] at h1
    | etag q s => simp [Item.isMiscI] at h1

theorem csem_attrCost_append (a b : List Item) : attrCost (a ++ b) = attrCost a + attrCost b := by
  induction a with
  | nil => simp only [List.nil_append, attrCost, Nat.zero_add]
  | cons it r ih => cases it <;> simp only [List.cons_append, attrCost, ih, Nat.add_assoc]

theorem csem_declCost_append (a b : List Item) : declCost (a ++ b) = declCost a + declCost b := by
  induction a with
  | nil => simp only [List.nil_append, declCost, Nat.zero_add]
  | cons it r ih => cases it <;> simp only [List.cons_append, declCost, ih, Nat.add_assoc]

theorem csem_properCount (attrs : List AttrC) : properCount attrs = (attrsOf (attrsAbs attrs)).length := by
  simp only [properCount, attrsOf, List.length_map]

mutual
  theorem csem_attrCost_node : ∀ (c : CNode), attrCost c.items = attrCountAllY (treeOf c.abs)
    | .elem q attrs s1 kids q' s2 => by
      simp only [CNode.items, CNode.abs, treeOf, attrCost, csem_attrCost_append,
        csem_attrCost_nodes kids none, csem_properCount, attrCountAllY, attrCountY, Nat.add_zero]
    | .empty q attrs s1 => by
      simp only [CNode.items, CNode.abs, treeOf, treeKids, flush, attrCost, csem_properCount,
        attrCountAllY, attrCountY, Nat.add_zero]
    | .text t => by simp only [CNode.items, CNode.abs, treeOf, attrCost, attrCountAllY]
    | .cdata t => by simp only [CNode.items, CNode.abs, treeOf, attrCost, attrCountAllY]
    | .comment t => by simp only [CNode.items, CNode.abs, treeOf, attrCost, attrCountAllY, attrCountY]
    | .pi t s v => by simp only [CNode.items, CNode.abs, treeOf, attrCost, attrCountAllY, attrCountY]
  theorem csem_attrCost_nodes : ∀ (cs : List CNode) (p : Option Bytes),
      attrCost (CNode.itemsAll cs) = attrCountAllY (treeKids p (CNode.absAll cs))
    | [], p => by
      simp only [CNode.itemsAll, CNode.absAll, treeKids, attrCost, csem_attrCount_flush]
    | .text t :: ks, p => by
      simp only [CNode.itemsAll, CNode.items, CNode.absAll, CNode.abs, treeKids, List.cons_append,
        List.nil_append, attrCost, csem_attrCost_nodes ks (some (p.getD [] ++ decodeText t))]
    | .cdata t :: ks, p => by
      simp only [CNode.itemsAll, CNode.items, CNode.absAll, CNode.abs, treeKids, List.cons_append,
        List.nil_append, attrCost, csem_attrCost_nodes ks (some (p.getD [] ++ lineEnds t))]
    | .comment t :: ks, p => by
      simp only [CNode.itemsAll, CNode.items, CNode.absAll, CNode.abs, treeKids, List.cons_append,
        List.nil_append, attrCost, csem_attrCost_nodes ks none, csem_attrCountAllY_append,
        csem_attrCount_flush, attrCountAllY, attrCountY, Nat.zero_add]
    | .pi t s v :: ks, p => by
      simp only [CNode.itemsAll, CNode.items, CNode.absAll, CNode.abs, treeKids, List.cons_append,
        List.nil_append, attrCost, csem_attrCost_nodes ks none, csem_attrCountAllY_append,
        csem_attrCount_flush, attrCountAllY, attrCountY, Nat.zero_add]
    | .elem q attrs s1 kids q' s2 :: ks, p => by
      have hk := csem_attrCost_node (.elem q attrs s1 kids q' s2)
      simp only [CNode.abs, treeOf, attrCountAllY, Nat.add_zero] at hk
      simp only [CNode.itemsAll, csem_attrCost_append, hk, csem_attrCost_nodes ks none,
        CNode.absAll, CNode.abs, treeKids, csem_attrCountAllY_append, csem_attrCount_flush,
        attrCountAllY, Nat.zero_add]
    | .empty q attrs s1 :: ks, p => by
      have hk := csem_attrCost_node (.empty q attrs s1)
      simp only [CNode.abs, treeOf, attrCountAllY, Nat.add_zero] at hk
      simp only [CNode.itemsAll, csem_attrCost_append, hk, csem_attrCost_nodes ks none,
        CNode.absAll, CNode.abs, treeKids, csem_attrCountAllY_append, csem_attrCount_flush,
        attrCountAllY, Nat.zero_add]
end

mutual
  theorem csem_declCost_node : ∀ (c : CNode), declCost c.items = declCount c.abs
    | .elem q attrs s1 kids q' s2 => by
      simp only [CNode.items, CNode.abs, declCost, csem_declCost_append, csem_declCost_nodes kids,
        declCount, Nat.add_zero]
    | .empty q attrs s1 => by
      simp only [CNode.items, CNode.abs, declCost, declCount, declCountAll]
    | .text t => by simp only [CNode.items, CNode.abs, declCost, declCount]
    | .cdata t => by simp only [CNode.items, CNode.abs, declCost, declCount]
    | .comment t => by simp only [CNode.items, CNode.abs, declCost, declCount]
    | .pi t s v => by simp only [CNode.items, CNode.abs, declCost, declCount]
  theorem csem_declCost_nodes : ∀ (cs : List CNode),
      declCost (CNode.itemsAll cs) = declCountAll (CNode.absAll cs)
    | [] => by simp only [CNode.itemsAll, CNode.absAll, declCost, declCountAll]
    | k :: ks => by
      simp only [CNode.itemsAll, CNode.absAll, csem_declCost_append, csem_declCost_node k,
        csem_declCost_nodes ks, declCountAll]
end

theorem csem_attrCost_misc (its : List Item) (h : ∀ it ∈ its, it.isMiscI = true) :
    attrCost its = 0 ∧ declCost its = 0 ∧ attrCountAllY (treeKids none (miscAbs its)) = 0 := by
  induction its with
  | nil => simp only [attrCost, declCost, miscAbs, treeKids, flush, attrCountAllY, and_self]
  | cons it r ih =>
    have h1 := h it (List.mem_cons_self ..)
    have h2 := ih (fun x hx => h x (List.mem_cons_of_mem _ hx))
    cases it with
    | sp s => simpa only [attrCost, declCost, miscAbs] using h2
    | comment b =>
      simp only [attrCost, declCost, miscAbs, treeKids, flush, List.nil_append, attrCountAllY,
        attrCountY, h2, Nat.add_zero, and_self]
    | pi t s v =>
      simp only [attrCost, declCost, miscAbs, treeKids, flush, List.nil_append, attrCountAllY,
        attrCountY, h2, Nat.add_zero, and_self]
    | cdata b => simp [Item.isMiscI] at h1
    | text t => simp [Item.isMiscI] at h1
    | stag q a s e => simp [Item.isMiscI] at h1
    | etag q s => simp [Item.isMiscI] at h1

/-- the costs of the items are the sizes of the tree -/
theorem cost_doc (pre : List Item) (root : CNode) (post : List Item)
    (hpre : ∀ it ∈ pre, it.isMiscI = true) (hpost : ∀ it ∈ post, it.isMiscI = true)
    (hroot : root.isElemC = true) :
    nodeCost false (pre ++ root.items ++ post) =
        countAllY (docTree ⟨miscAbs pre, root.abs, miscAbs post⟩) ∧
      attrCost (pre ++ root.items ++ post) =
        attrCountAllY (docTree ⟨miscAbs pre, root.abs, miscAbs post⟩) ∧
      declCost (pre ++ root.items ++ post) = declCount root.abs := by
  have hm1 := csem_attrCost_misc pre hpre
  have hm2 := csem_attrCost_misc post hpost
  refine ⟨?_, ?_, ?_⟩
  · have h3 := csem_nodeCost_misc post hpost []
    rw [List.append_nil] at h3
    rw [List.append_assoc, csem_nodeCost_misc pre hpre, csem_nodeCost_node root hroot, h3]
    simp only [docTree, csem_countAllY_append, nodeCost, Nat.add_zero, Nat.add_assoc]
  · simp only [docTree, csem_attrCost_append, csem_attrCountAllY_append, hm1.1, hm1.2.2, hm2.1,
      hm2.2.2, csem_attrCost_node, Nat.zero_add, Nat.add_zero]
  · simp only [csem_declCost_append, hm1.2.1, hm2.2.1, csem_declCost_node, Nat.zero_add,
      Nat.add_zero]

/-- the root element's start tag is among the items -/
theorem stag_doc (pre : List Item) (root : CNode) (post : List Item) (hroot : root.isElemC = true) :
    ∃ it ∈ pre ++ root.items ++ post, it.isStag = true := by
  cases root with
  | elem q attrs s1 kids q' s2 =>
    exact ⟨.stag q attrs s1 false, by simp [CNode.items], rfl⟩
  | empty q attrs s1 =>
    exact ⟨.stag q attrs s1 true, by simp [CNode.items], rfl⟩
  | text t => simp [CNode.isElemC] at hroot
  | cdata b => simp [CNode.isElemC] at hroot
  | comment b => simp [CNode.isElemC] at hroot
  | pi t s v => simp [CNode.isElemC] at hroot

end Rox.Lemmas
