/-
  Rox.Lemmas.RtBuild7 — the builder on a document whose content is routed through entities in any
  way: fed with tokens presenting grouped content (`Rt7.GTokFor`), expanding every reference by
  re-entering the tokenizer on the entity's value one level deeper, it appends exactly the nodes of
  the inline content with adjacent character data joined (`mergeAcc`), and walks the loop detector
  over the forest of references.
-/
import Rox.Lemmas.Rt7Defs
import Rox.Lemmas.RtTok7
import Rox.Lemmas.RtBuild6

namespace Rox.Lemmas
open Rox Rox.Spec Rox.Spec.Canon Rox.Spec.Canon7

namespace Rt7
open RtB RtB2 RtB3 RtB6

/-! ### Tokens that leave the loop detector and the entity table alone -/

section frame
variable (T : Tables) (txt : Bytes) (lower : Token → Ctx → Res Ctx)

/-- a step that leaves the loop detector and the entity table alone -/
def Frm (t : Token) : Prop :=
  ∀ c c', tokenStep T txt lower t c = .ok c' → c'.ld = c.ld ∧ c'.entities = c.entities

theorem frm_comment (sp : Span) (r : Range) : Frm T txt lower (.comment sp r) := by
  intro c c' h
  unfold tokenStep at h
  dsimp only at h
  rw [Res.bind_eq_ok] at h
  obtain ⟨c1, h1, h⟩ := h
  rw [Res.bind_eq_ok] at h
  obtain ⟨⟨c2, id⟩, h2, h⟩ := h
  res_norm at h; subst h
  have e1 := resetAfterText_ld _ _ h1
  have e2 := appendNode_ld _ _ _ _ _ h2
  have f1 := (resetAfterText_entOk _ _ h1).1
  have f2 := (appendNode_entOk _ _ _ _ _ h2).1
  exact ⟨by rw [e2, e1]; rfl, by rw [f2, f1]; rfl⟩

theorem frm_start (a b : Span) (s : Nat) : Frm T txt lower (.elementStart a b s) := by
  intro c c' h
  unfold tokenStep at h
  dsimp only at h
  rw [Res.bind_eq_ok] at h
  obtain ⟨c1, h1, h⟩ := h
  have e1 := resetAfterText_ld _ _ h1
  have f1 := (resetAfterText_entOk _ _ h1).1
  split at h
  · exact absurd h (errPos_ne_ok _ _ _ _)
  · res_norm at h; subst h
    exact ⟨by show c1.ld = _; rw [e1]; rfl, by show c1.entities = _; rw [f1]; rfl⟩

theorem frm_end (e : EndKind) (r : Range) : Frm T txt lower (.elementEnd e r) := by
  intro c c' h
  unfold tokenStep at h
  dsimp only at h
  rw [Res.bind_eq_ok] at h
  obtain ⟨c1, h1, h⟩ := h
  have e1 := resetAfterText_ld _ _ h1
  have f1 := (resetAfterText_entOk _ _ h1).1
  have e2 := processElement_ld _ _ _ _ _ h
  have f2 := (processElement_entOk _ _ _ _ _ h).1
  exact ⟨by rw [e2, e1]; rfl, by rw [f2, f1]; rfl⟩

theorem frm_attr (rg : Range) (q e o1 o2 o3 : Nat) (an v : Bytes) (han : an ≠ Lit.xmlns)
    (hv : valueOk v = true) : Frm T txt lower (.attribute rg q e ⟨o1, []⟩ ⟨o2, an⟩ ⟨o3, v⟩) := by
  intro c c' h
  unfold tokenStep at h
  dsimp only at h
  unfold processAttribute normalizeAttribute at h
  have h1 : (([] : Bytes) == Lit.xmlns) = false := by decide
  have h2 : (an == Lit.xmlns) = false := by rw [beq_eq_false_iff_ne]; exact han
  simp only [valueOk_fast hv, Bool.false_eq_true, if_false, Res.bind_ok, h1, h2, Bool.and_false,
    Res.pure_eq, Res.ok.injEq] at h
  subst h
  exact ⟨rfl, rfl⟩

theorem frm_attrToks {as : List (Bytes × Bytes)} {ats : List Token} (h : AttrToks as ats)
    (has : ∀ a ∈ as, a.1 ≠ Lit.xmlns ∧ valueOk a.2 = true) : ∀ t ∈ ats, Frm T txt lower t := by
  induction h with
  | nil => intro t ht; cases ht
  | cons an v rg q e o1 o2 o3 _ ih =>
    intro t ht
    rcases List.mem_cons.mp ht with rfl | ht
    · exact frm_attr T txt lower rg q e o1 o2 o3 an v (has (an, v) (by simp)).1 (has (an, v) (by simp)).2
    · exact ih (fun a ha => has a (by simp [ha])) t ht

theorem feed_frm : ∀ (ts : List Token), (∀ t ∈ ts, Frm T txt lower t) → ∀ (c c' : Ctx),
    feed (tokenStep T txt lower) ts c = .ok c' → c'.ld = c.ld ∧ c'.entities = c.entities := by
  intro ts
  induction ts with
  | nil => intro _ c c' h; simp only [feed, Res.ok.injEq] at h; subst h; exact ⟨rfl, rfl⟩
  | cons t ts ih =>
    intro hall c c' h
    simp only [feed] at h
    split at h
    · rename_i c1 h1
      obtain ⟨a1, a2⟩ := hall t (by simp) _ _ h1
      obtain ⟨b1, b2⟩ := ih (fun t ht => hall t (by simp [ht])) _ _ h
      exact ⟨b1.trans a1, b2.trans a2⟩
    · simp at h
    · simp at h
    · simp at h

theorem feed_append_inv {step : Token → Ctx → Res Ctx} : ∀ (l1 l2 : List Token) (c c2 : Ctx),
    feed step (l1 ++ l2) c = .ok c2 → ∃ c1, feed step l1 c = .ok c1 ∧ feed step l2 c1 = .ok c2 := by
  intro l1
  induction l1 with
  | nil => intro l2 c c2 h; exact ⟨c, rfl, by simpa using h⟩
  | cons t ts ih =>
    intro l2 c c2 h
    simp only [List.cons_append, feed] at h ⊢
    cases hs : step t c with
    | ok c' => rw [hs] at h; simp only at h ⊢; exact ih l2 c' c2 h
    | err e => rw [hs] at h; simp at h
    | panic s => rw [hs] at h; simp at h
    | fuel => rw [hs] at h; simp at h

end frame

/-! ### Walks -/

theorem walk_cons_inv {ld ld' : LD} {k r : Forest} (h : walk ld (.cons k r) = some ld') :
    ∃ ld1 ld2 ld3, ld.incRefs = some ld1 ∧ ld1.incDepth = some ld2 ∧ walk ld2 k = some ld3 ∧
      walk ld3.decDepth r = some ld' := by
  simp only [walk] at h
  cases ha : ld.incRefs with
  | none => simp [ha] at h
  | some lda =>
    simp only [ha] at h
    cases hb : lda.incDepth with
    | none => simp [hb] at h
    | some ldb =>
      simp only [hb] at h
      cases hc : walk ldb k with
      | none => simp [hc] at h
      | some ldc =>
        simp only [hc] at h
        exact ⟨lda, ldb, ldc, rfl, hb, hc, h⟩

theorem walk_append_inv : ∀ (f g : Forest) (ld ld2 : LD),
    walk ld (Canon7.Forest.append f g) = some ld2 →
    ∃ ld1, walk ld f = some ld1 ∧ walk ld1 g = some ld2 := by
  intro f
  induction f with
  | nil => intro g ld ld2 h; exact ⟨ld, rfl, h⟩
  | cons k r _ ihr =>
    intro g ld ld2 h
    simp only [Canon7.Forest.append] at h
    obtain ⟨la, lb, lc, h1, h2, h3, h4⟩ := walk_cons_inv h
    obtain ⟨ld1, h5, h6⟩ := ihr g _ _ h4
    refine ⟨ld1, ?_, h6⟩
    simp only [walk, h1, h2, h3, h5]

/-! ### The run pending between two tokens -/

/-- the character data collected so far: the fragments of the run in progress and the bytes still
in the buffer; `none` when there is neither -/
def pend (frs : List Str) (B : Bytes) : Option Bytes :=
  if frs.isEmpty && B.isEmpty then none else some ((frs.map (·.bytes)).flatten ++ B)

theorem pend_nil : pend [] [] = none := rfl

theorem pend_text (frs : List Str) (B t : Bytes) (ht : t ≠ []) :
    some ((pend frs B).getD [] ++ t) = pend frs (B ++ t) := by
  have hne : (B ++ t).isEmpty = false := by
    cases B <;> cases t <;> simp_all
  unfold pend
  simp only [hne, Bool.and_false, Bool.false_eq_true, if_false]
  cases hf : frs.isEmpty <;> cases hb : B.isEmpty <;>
    simp_all [List.isEmpty_iff]

theorem pend_flush (frs : List Str) (B : Bytes) : pend (frs ++ optOwned B) [] = pend frs B := by
  unfold pend optOwned
  cases B with
  | nil => simp
  | cons b r => simp [Str.bytes]

theorem pend_frag (frs : List Str) (f : Str) (hf : f.bytes ≠ []) :
    pend (frs ++ [f]) [] = pend frs f.bytes := by
  unfold pend
  have : f.bytes.isEmpty = false := by
    cases h : f.bytes with
    | nil => exact absurd h hf
    | cons _ _ => rfl
  simp [this]

theorem pend_none {frs : List Str} (h : pend frs [] = none) : frs = [] := by
  unfold pend at h
  cases frs with
  | nil => rfl
  | cons a r => simp at h

theorem pend_isSome (frs : List Str) (B : Bytes) :
    (pend frs B).isSome = !(frs.isEmpty && B.isEmpty) := by
  cases frs <;> cases B <;> simp [pend]

/-! ### A state with a run in progress -/

/-- `c` is the builder's state, `ca` the state of completed nodes it extends by the run whose
fragments so far are `frs` -/
structure St (s : Nat) (ca c : Ctx) (frs : List Str) : Prop where
  inv : Inv s ca
  at0 : ca.afterText = []
  run : Run ca c frs
  tag : c.tagName = ca.tagName
  fl : c.entityFloor = ca.entityFloor

theorem St.refl {s : Nat} {c : Ctx} (hi : Inv s c) (hat : c.afterText = []) : St s c c [] :=
  ⟨hi, hat, ⟨hi.binv, rfl, rfl, rfl, rfl, rfl, hat, rfl, rfl, by simp [runNode]⟩, rfl, rfl⟩

theorem built_cast {s : Nat} {c c' : Ctx} {N A N' A' : Nat} {L L' : List (Option Nat × XKind)}
    (h : Built s c c' N A L) (hN : N = N') (hA : A = A') (hL : L = L') : Built s c c' N' A' L' := by
  subst hN; subst hA; subst hL; exact h

/-- the state in which the run is complete: what the next markup token starts from -/
theorem St.settle {s : Nat} {ca c : Ctx} {frs : List Str} (h : St s ca c frs) :
    ∃ c0, c.resetAfterText = .ok c0 ∧ c0.afterText = [] ∧
      Built s ca c0 (countAll (flushP (pend frs []))) 0
        (expectAll ca.parentId ca.doc.nodes.size (flushP (pend frs []))) ∧
      c0.ld = c.ld ∧ c0.entities = c.entities := by
  cases frs with
  | nil =>
    have hr := resetAfterText_ok c (by rw [h.run.aft]; simp)
    refine ⟨_, hr, rfl, ?_, rfl, rfl⟩
    have hk : kps c = kps ca := by simpa [runNode] using h.run.nodes
    have hsz : c.doc.nodes.size = ca.doc.nodes.size := by
      have := congrArg List.length hk
      simpa [kps_length] using this
    simp only [pend_nil, flushP, countAll, expectAll]
    refine ⟨⟨h.run.binv.congr rfl rfl rfl, ?_, ?_, ?_, ?_, ?_, by simp, ?_⟩, h.run.pid, h.run.pp, h.fl,
      h.run.lim, ?_, hsz, by show c.doc.attrs.size = _; rw [h.run.attrs]; rfl, [], [], ?_, ?_, rfl⟩
    · show c.nodesLimit ≤ _
      rw [h.run.lim]; exact h.inv.lim
    · show c.curAttrs = []
      rw [h.run.cur]; exact h.inv.cur
    · show c.nsStartIdx = s
      rw [h.run.ns1]; exact h.inv.ns1
    · show c.doc.ns.treeOrder.size = s
      rw [h.run.ns]; exact h.inv.ns2
    · show c.entityFloor ≤ c.parentPrefixes.length
      rw [h.fl, h.run.pp]; exact h.inv.floor
    · intro x hx
      have hx' : x ∈ kps ca := by rw [← hk]; exact hx
      show good s c.doc.attrs.size x.1
      rw [h.run.attrs]
      exact h.inv.good x hx'
    · intro ht
      show c.tagName.name ≠ []
      rw [h.tag]; exact ht
    · show kps c = kps ca ++ []
      rw [hk]; simp
    · show c.doc.attrs.toList = ca.doc.attrs.toList ++ []
      rw [h.run.attrs]; simp
  | cons f r =>
    obtain ⟨c0, X, hr0, hX, hb0, hcore, hk0, ha0, hn0⟩ := reset_run h.run (by simp)
    have hc : core c0 = { core ca with doc := c0.doc, afterText := [] } := by
      rw [hcore]
      simp only [core, h.run.lim, h.run.cur, h.run.ns1, h.run.pid, h.run.pp, h.tag, h.fl]
    have hB := built_leaf (v := (some ca.parentId, XKind.text X.bytes)) h.inv hb0 (X := []) (by simp) hc hk0
      (ha0.trans h.run.attrs) (hn0.trans h.run.ns) (fun _ => trivial) (fun _ => rfl)
    have hp : pend (f :: r) [] = some X.bytes := by
      rw [hX]
      simp [pend]
    refine ⟨c0, hr0, congrArg Core.afterText hc, ?_, resetAfterText_ld _ _ hr0,
      (resetAfterText_entOk _ _ hr0).1⟩
    rw [hp]
    exact built_cast hB (by simp [flushP, countAll, count]) rfl (by simp [flushP, expectAll, expect])

/-! ### What feeding a token list achieves -/

section feeds
variable (T : Tables) (txt : Bytes) (s : Nat) (E : List Entity)

/-- Feeding `ts` at entity level `m` (the builder one level deeper is `token m`) from any state with
a run possibly in progress appends the nodes the content `xs` completes (its first text joined with
the run in progress), leaves the run `xs` ends with in progress, and walks the loop detector over
the forest `f`. -/
def FeedsX (m : Nat) (xs : List XNode) (f : Forest) (ts : List Token) : Prop :=
  ∀ (ca c : Ctx) (frs : List Str) (ld' : LD),
    St s ca c frs → c.entities = E → 11 ≤ c.ld.depth + m →
    walk c.ld f = some ld' →
    ca.doc.nodes.size + cnt (mergeAcc (pend frs []) xs) ≤ ca.nodesLimit →
    ca.doc.attrs.size + attrCountAll (mergeAcc (pend frs []) xs).1 < 4294967295 →
    ∃ ca' c' frs',
      feed (tokenStep T txt (token T txt m)) ts c = .ok c' ∧ St s ca' c' frs' ∧
      Built s ca ca' (countAll (mergeAcc (pend frs []) xs).1)
        (attrCountAll (mergeAcc (pend frs []) xs).1)
        (expectAll ca.parentId ca.doc.nodes.size (mergeAcc (pend frs []) xs).1) ∧
      (mergeAcc (pend frs []) xs).2 = pend frs' [] ∧ c'.ld = ld' ∧ c'.entities = E

theorem feedsX_nil (m : Nat) : FeedsX T txt s E m [] .nil [] := by
  intro ca c frs ld' hst hE _ hw _ _
  simp only [walk, Option.some.injEq] at hw
  refine ⟨ca, c, frs, rfl, hst, ?_, rfl, hw, hE⟩
  simp only [mergeAcc, countAll, attrCountAll, expectAll]
  exact Built.refl hst.inv

theorem feedsX_append {m : Nat} {xs ys : List XNode} {f g : Forest} {t1 t2 : List Token}
    (h1 : FeedsX T txt s E m xs f t1) (h2 : FeedsX T txt s E m ys g t2) :
    FeedsX T txt s E m (xs ++ ys) (Canon7.Forest.append f g) (t1 ++ t2) := by
  intro ca c frs ld' hst hE hd hw hroom haroom
  obtain ⟨ld1, hw1, hw2⟩ := walk_append_inv f g _ _ hw
  rw [cnt_append] at hroom
  rw [mergeAcc_append] at haroom
  simp only [attrCountAll_append] at haroom
  have hp := cnt_pending ys (mergeAcc (pend frs []) xs).2
  obtain ⟨ca1, c1, frs1, hf1, hst1, hB1, hp1, hl1, he1⟩ := h1 ca c frs ld1 hst hE hd hw1
    (by simp only [cnt]; omega) (by omega)
  have hd1 : c1.ld.depth = c.ld.depth := by rw [hl1]; exact walk_depth f _ _ hw1
  obtain ⟨ca2, c2, frs2, hf2, hst2, hB2, hp2, hl2, he2⟩ := h2 ca1 c1 frs1 ld' hst1 he1
    (by rw [hd1]; exact hd) (by rw [hl1]; exact hw2)
    (by rw [← hp1, hB1.size, hB1.lim]; omega) (by rw [← hp1, hB1.asize]; omega)
  rw [← hp1, hB1.pid, hB1.size] at hB2
  refine ⟨ca2, c2, frs2, feed_append_ok _ _ _ _ _ hf1 hf2, hst2, ?_, ?_, hl2, he2⟩
  · rw [mergeAcc_append]
    simp only [countAll_append, attrCountAll_append, expectAll_append]
    exact hB1.trans hB2
  · rw [mergeAcc_append]
    simp only
    rw [hp1]
    exact hp2

/-- a comment -/
theorem feedsX_comment (m : Nat) (b : Bytes) (o : Nat) (r : Range) :
    FeedsX T txt s E m [.comment b] .nil [Token.comment ⟨o, b⟩ r] := by
  intro ca c frs ld' hst hE _ hw hroom _
  simp only [walk, Option.some.injEq] at hw
  obtain ⟨c0, hr0, hat0, hB0, hl0, he0⟩ := hst.settle
  have hm : mergeAcc (pend frs []) [.comment b] = (flushP (pend frs []) ++ [.comment b], none) := by
    simp only [mergeAcc]
  rw [hm] at hroom ⊢
  simp only [cnt, countAll_append, countAll, count, Option.isSome_none, Bool.false_eq_true,
    if_false] at hroom
  obtain ⟨c', hf, hB, hat⟩ := build_comment2 T txt (token T txt m) (binv_token T txt m) s c0 b o r
    hB0.inv (by rw [hB0.size, hB0.lim]; omega)
  have hstep : tokenStep T txt (token T txt m) (.comment ⟨o, b⟩ r) c0 = .ok c' := by
    simp only [feed] at hf
    split at hf
    · rename_i c1 h1; simp only [Res.ok.injEq] at hf; subst hf; exact h1
    · simp at hf
    · simp at hf
    · simp at hf
  obtain ⟨hl, he⟩ := frm_comment T txt (token T txt m) ⟨o, b⟩ r _ _ hstep
  rw [hB0.pid, hB0.size] at hB
  refine ⟨c', c', [], ?_, St.refl hB.inv hat, ?_, rfl, by rw [hl, hl0, hw], by rw [he, he0, hE]⟩
  · rw [feed_cons_ok (c1 := c')]
    · rfl
    · rw [tokenStep_reset T txt (token T txt m) _ c c0 rfl hr0]; exact hstep
  · simp only
    refine built_cast (hB0.trans hB) ?_ ?_ ?_
    · simp only [countAll_append, countAll, count]
    · simp only [attrCountAll_append, attrCountAll_flushP, attrCountAll, attrCount]
    · simp only [expectAll_append, expectAll, List.append_nil]

end feeds

/-! ### An element whose children leave a run open at the end; the state before the end tag is
handed on (`Q`) -/

section elem7
variable (T : Tables) (txt : Bytes) (lower : Token → Ctx → Res Ctx)
  (hlower : ∀ t c c', BInv c → lower t c = .ok c' → BInv c')
include hlower

theorem build_elem_open7 (s : Nat) (c : Ctx) (n : Bytes) (as : List (Bytes × Bytes)) (ks : List XNode)
    (o1 o2 st o3 o4 : Nat) (r1 r2 : Range) (ats kts : List Token) (hats : AttrToks as ats)
    (Q : Ctx → Prop)
    (ih : ∀ (c3 : Ctx),
      feed (tokenStep T txt lower)
        (Token.elementStart ⟨o1, []⟩ ⟨o2, n⟩ st :: ats ++ [Token.elementEnd .open r1]) c = .ok c3 →
      Inv s c3 → c3.afterText = [] →
      c3.doc.nodes.size + countAll ks ≤ c3.nodesLimit →
      c3.doc.attrs.size + attrCountAll ks < 4294967295 →
      ∃ c' c'', feed (tokenStep T txt lower) kts c3 = .ok c' ∧
        Built s c3 c'' (countAll ks) (attrCountAll ks) (expectAll c3.parentId c3.doc.nodes.size ks) ∧
        (∀ t, isReset t = true → tokenStep T txt lower t c' = tokenStep T txt lower t c'') ∧ Q c')
    (hn : nameOk n = true) (has : attrsOk as = true) (hi : Inv s c)
    (hroom : c.doc.nodes.size + (1 + countAll ks) ≤ c.nodesLimit)
    (haroom : c.doc.attrs.size + (as.length + attrCountAll ks) < 4294967295) :
    ∃ c4f c', Q c4f ∧
      tokenStep T txt lower (Token.elementEnd (.close ⟨o3, []⟩ ⟨o4, n⟩) r2) c4f = .ok c' ∧
      feed (tokenStep T txt lower)
        ([Token.elementStart ⟨o1, []⟩ ⟨o2, n⟩ st] ++ ats ++ [Token.elementEnd .open r1] ++ kts ++
            [Token.elementEnd (.close ⟨o3, []⟩ ⟨o4, n⟩) r2]) c = .ok c' ∧
      Built s c c' (1 + countAll ks) (as.length + attrCountAll ks)
        (expect c.parentId c.doc.nodes.size (.elem n as ks)) ∧
      c'.afterText = [] := by
  have hn0 : n ≠ [] := by
    intro h; subst h; simp [nameOk] at hn
  have hnd : (as.map (·.1)).Nodup := by
    simp only [attrsOk, Bool.and_eq_true, decide_eq_true_eq] at has
    exact has.2
  -- start tag
  obtain ⟨c2, new, hs2, hb2, hc2, hpfx, hmap⟩ :=
    build_head T txt lower hlower s c n as o1 o2 st ats hats has hi
  have d2 : c2.doc = c.doc := congrArg Core.doc hc2
  have cur2 : c2.curAttrs = new := congrArg Core.curAttrs hc2
  have lim2 : c2.nodesLimit = c.nodesLimit := congrArg Core.nodesLimit hc2
  have at2 : c2.afterText = [] := congrArg Core.afterText hc2
  have tag2 : c2.tagName = ⟨[], n, ⟨o2, n⟩, st, st + 1⟩ := congrArg Core.tagName hc2
  have ns2 : c2.nsStartIdx = c.nsStartIdx := congrArg Core.nsStartIdx hc2
  have pid2 : c2.parentId = c.parentId := congrArg Core.parentId hc2
  have pp2 : c2.parentPrefixes = c.parentPrefixes := congrArg Core.parentPrefixes hc2
  have fl2 : c2.entityFloor = c.entityFloor := congrArg Core.entityFloor hc2
  have k2 : kps c2 = kps c := by unfold kps; rw [d2]
  have hnames : new.map (·.loc.bytes) = as.map (·.1) := by
    rw [← hmap, List.map_map]; rfl
  have hnewlen : new.length = as.length := by
    have := congrArg List.length hmap
    simpa using this
  obtain ⟨c3, hs3, rg, new3, hc3, hk3, hns3, hat3, hmap3, hrg, htake⟩ :=
    step_open T txt lower c2 s r1 o2 st n hn0 hb2 (by rw [lim2]; exact hi.lim)
      (by rw [lim2, d2]; omega) (by rw [at2]; simp) tag2 (by rw [ns2]; exact hi.ns1)
      (by rw [d2]; exact hi.ns2) (by rw [k2, d2]; exact hi.good) (by rw [cur2]; exact hpfx)
      (by rw [cur2, hnames]; exact hnd) (by rw [cur2, d2, hnewlen]; omega)
  have hb3 := binv_tokenStep T txt lower hlower _ c2 c3 hb2 hs3
  obtain ⟨hany, hvals⟩ := akey_split new3 c2.curAttrs hmap3
  have hvals' : new3.map (fun a => (a.localName.bytes, a.value.bytes)) = as := by
    rw [hvals, cur2]; exact hmap
  have hnew3len : new3.length = as.length := by
    have := congrArg List.length hvals'
    simpa using this
  have hview : viewKP c3.doc.attrs.toList
      (Kind.element none ⟨o2, n⟩ rg (s, s), some c2.parentId) =
      some (some c.parentId, XKind.elem n as) := by
    simp only [viewKP, htake, hany, hvals', pid2]
    rfl
  have d3n : c3.doc.nodes.size = c.doc.nodes.size + 1 := by
    have := congrArg List.length hk3
    rw [k2] at this
    simpa [kps_length] using this
  have d3a : c3.doc.attrs.size = c.doc.attrs.size + as.length := by
    have := congrArg List.length hat3
    rw [d2] at this
    simpa [hnew3len] using this
  have lim3 : c3.nodesLimit = c.nodesLimit := (congrArg Core.nodesLimit hc3).trans lim2
  have at3 : c3.afterText = [] := congrArg Core.afterText hc3
  have pid3 : c3.parentId = c.doc.nodes.size := by
    have : c3.parentId = c2.doc.nodes.size := congrArg Core.parentId hc3
    rw [this, d2]
  have pp3 : c3.parentPrefixes = [] :: c.parentPrefixes := by
    have : c3.parentPrefixes = [] :: c2.parentPrefixes := congrArg Core.parentPrefixes hc3
    rw [this, pp2]
  have tag3 : c3.tagName = c2.tagName := congrArg Core.tagName hc3
  have fl3 : c3.entityFloor = c.entityFloor := (congrArg Core.entityFloor hc3).trans fl2
  have hi3 : Inv s c3 := by
    refine ⟨hb3, by rw [lim3]; exact hi.lim, congrArg Core.curAttrs hc3, ?_, by rw [hns3, d2]; exact hi.ns2,
      by rw [fl3, pp3]; exact Nat.le_succ_of_le hi.floor, by rw [at3]; simp, ?_⟩
    · have : c3.nsStartIdx = c2.doc.ns.treeOrder.size := congrArg Core.nsStartIdx hc3
      rw [this, d2]; exact hi.ns2
    · intro x hx
      rw [hk3, k2] at hx
      rcases List.mem_append.mp hx with hx | hx
      · exact good_mono (hi.good x hx) (by rw [d3a]; omega)
      · simp only [List.mem_singleton] at hx
        subst hx
        exact ⟨hrg, rfl⟩
  have hfeed3 : feed (tokenStep T txt lower)
      (Token.elementStart ⟨o1, []⟩ ⟨o2, n⟩ st :: ats ++ [Token.elementEnd .open r1]) c = .ok c3 :=
    feed_append_ok _ _ c c2 c3 hs2 (by rw [feed_cons_ok hs3]; rfl)
  -- children
  obtain ⟨c4f, c4, hs4, hB4, hre, hQ⟩ :=
    ih c3 hfeed3 hi3 at3 (by rw [d3n, lim3]; omega) (by rw [d3a]; omega)
  obtain ⟨K4, more4, hk4, ha4, hv4⟩ := hB4.grow
  have hi4 := hB4.inv
  have pid4 : c4.parentId = c.doc.nodes.size := hB4.pid.trans pid3
  have hnode : (kps c4)[c.doc.nodes.size]? =
      some (Kind.element none ⟨o2, n⟩ rg (s, s), some c2.parentId) := by
    rw [hk4, hk3, k2]
    rw [List.getElem?_append_left (by simp [kps_length])]
    rw [List.getElem?_append_right (by simp [kps_length])]
    simp [kps_length]
  rw [kps_getElem?] at hnode
  obtain ⟨pn, hpn, hkp⟩ := Option.map_eq_some_iff.mp hnode
  simp only [kp, Prod.mk.injEq] at hkp
  have tag4 : c4.tagName.name ≠ [] := by
    apply hB4.tag
    rw [tag3, tag2]; exact hn0
  -- end tag
  obtain ⟨c5, hs5, hc5, hk5, ha5, hns5⟩ :=
    step_close T txt lower c4 s c.parentId r2 o3 o4 n c.parentPrefixes
      pn none ⟨o2, n⟩ rg (s, s) hi4.at1 tag4 hi4.ns1 hi4.ns2 hi4.cur
      (by rw [hB4.fl, fl3]; exact hi.floor) (hB4.pp.trans pp3)
      (by rw [pid4]; exact hpn) hkp.1 rfl rfl (by rw [hkp.2, pid2])
  have hs5f : tokenStep T txt lower (.elementEnd (.close ⟨o3, []⟩ ⟨o4, n⟩) r2) c4f = .ok c5 := by
    rw [hre _ rfl]; exact hs5
  have hb5 := binv_tokenStep T txt lower hlower _ c4 c5 hi4.binv hs5
  have at5 : c5.afterText = [] := congrArg Core.afterText hc5
  have lim5 : c5.nodesLimit = c.nodesLimit := (congrArg Core.nodesLimit hc5).trans (hB4.lim.trans lim3)
  have tag5 : c5.tagName = c4.tagName := congrArg Core.tagName hc5
  have fl5 : c5.entityFloor = c.entityFloor :=
    (congrArg Core.entityFloor hc5).trans (hB4.fl.trans fl3)
  have pp5 : c5.parentPrefixes = c.parentPrefixes := congrArg Core.parentPrefixes hc5
  have hi5 : Inv s c5 := by
    refine ⟨hb5, by rw [lim5]; exact hi.lim, (congrArg Core.curAttrs hc5).trans hi4.cur, ?_,
      by rw [hns5]; exact hi4.ns2, by rw [fl5, pp5]; exact hi.floor,
      by rw [at5]; simp, by rw [hk5, ha5]; exact hi4.good⟩
    have : c5.nsStartIdx = c4.doc.ns.treeOrder.size := congrArg Core.nsStartIdx hc5
    rw [this]; exact hi4.ns2
  refine ⟨c4f, c5, hQ, hs5f, ?_, ⟨hi5, congrArg Core.parentId hc5, pp5, fl5, lim5,
    fun _ => by rw [tag5]; exact tag4, ?_, ?_, ?_⟩, at5⟩
  · refine feed_append_ok _ _ c c4f c5 ?_ (by rw [feed_cons_ok hs5f]; rfl)
    refine feed_append_ok _ _ c c3 c4f ?_ hs4
    exact hfeed3
  · have h5 : c5.doc.nodes.size = c4.doc.nodes.size := by
      have := congrArg List.length hk5
      simpa [kps_length] using this
    rw [h5, hB4.size, d3n]; omega
  · rw [ha5, hB4.asize, d3a]; omega
  · refine ⟨(Kind.element none ⟨o2, n⟩ rg (s, s), some c2.parentId) :: K4, new3 ++ more4, ?_, ?_, ?_⟩
    · rw [hk5, hk4, hk3, k2]; simp
    · rw [ha5, ha4, hat3, d2]; simp
    · rw [expect, List.map_cons, List.map_cons, ha5]
      congr 1
      · rw [ha4, viewKP_stable s c3.doc.attrs.toList more4
          (Kind.element none ⟨o2, n⟩ rg (s, s), some c2.parentId) ⟨by simpa using hrg, rfl⟩]
        exact hview
      · rw [hv4, pid3, d3n]

end elem7

section feedsElem
variable (T : Tables) (txt : Bytes) (s : Nat) (E : List Entity)

/-- an element, given its children -/
theorem feedsX_elem {m : Nat} {xs : List XNode} {f : Forest} {kts : List Token}
    (hk : FeedsX T txt s E m xs f kts)
    (n : Bytes) (as : List (Bytes × Bytes)) (o1 o2 st o3 o4 : Nat) (r1 r2 : Range)
    (ats : List Token) (hats : AttrToks as ats) (hn : nameOk n = true) (has : attrsOk as = true) :
    FeedsX T txt s E m [.elem n as xs] f
      ([Token.elementStart ⟨o1, []⟩ ⟨o2, n⟩ st] ++ ats ++ [Token.elementEnd .open r1] ++ kts ++
        [Token.elementEnd (.close ⟨o3, []⟩ ⟨o4, n⟩) r2]) := by
  intro ca c frs ld' hst hE hd hw hroom haroom
  obtain ⟨c0, hr0, hat0, hB0, hl0, he0⟩ := hst.settle
  have hm : mergeAcc (pend frs []) [.elem n as xs] =
      (flushP (pend frs []) ++ [.elem n as (mergeList none xs)], none) := by
    simp only [mergeAcc]
  rw [hm] at hroom haroom ⊢
  simp only [cnt, countAll_append, countAll, count, Option.isSome_none, Bool.false_eq_true,
    if_false] at hroom
  simp only [attrCountAll_append, attrCountAll_flushP, attrCountAll, attrCount] at haroom
  have has' : ∀ a ∈ as, a.1 ≠ Lit.xmlns ∧ valueOk a.2 = true := by
    intro a ha
    simp only [attrsOk, Bool.and_eq_true, List.all_eq_true, bne_iff_ne, ne_eq,
      decide_eq_true_eq] at has
    have := has.1 a ha
    exact ⟨this.1.2, this.2⟩
  have hfrm : ∀ t ∈ Token.elementStart ⟨o1, []⟩ ⟨o2, n⟩ st :: ats ++ [Token.elementEnd .open r1],
      Frm T txt (token T txt m) t := by
    intro t ht
    simp only [List.cons_append, List.mem_cons, List.mem_append, List.not_mem_nil, or_false] at ht
    rcases ht with rfl | ht | rfl
    · exact frm_start T txt _ _ _ _
    · exact frm_attrToks T txt _ hats has' t ht
    · exact frm_end T txt _ _ _
  obtain ⟨c4f, c', hQ, hs5, hf, hB, hat⟩ := build_elem_open7 T txt (token T txt m) (binv_token T txt m)
    s c0 n as (mergeList none xs) o1 o2 st o3 o4 r1 r2 ats kts hats
    (fun c4 => c4.ld = ld' ∧ c4.entities = E)
    (by
      intro c3 hfeed3 hi3 at3 hroom3 haroom3
      obtain ⟨hl3, he3⟩ := feed_frm T txt (token T txt m) _ hfrm _ _ hfeed3
      rw [← cnt_eq] at hroom3
      rw [mergeList_eq, attrCountAll_append, attrCountAll_flushP] at haroom3
      obtain ⟨ca4, c4, frs4, hf4, hst4, hB4, hp4, hl4, he4⟩ := hk c3 c3 [] ld' (St.refl hi3 at3)
        (by rw [he3, he0, hE]) (by rw [hl3, hl0]; exact hd) (by rw [hl3, hl0]; exact hw)
        (by rw [pend_nil]; exact hroom3) (by rw [pend_nil]; omega)
      rw [pend_nil] at hB4 hp4
      obtain ⟨c4', hr4, hat4, hB4', _, _⟩ := hst4.settle
      rw [← hp4, hB4.pid, hB4.size] at hB4'
      refine ⟨c4, c4', hf4, ?_, fun t ht => tokenStep_reset T txt _ t c4 c4' ht hr4, hl4, he4⟩
      refine built_cast (hB4.trans hB4') ?_ ?_ ?_
      · rw [mergeList_eq, countAll_append]
      · rw [mergeList_eq, attrCountAll_append, attrCountAll_flushP]
      · rw [mergeList_eq, expectAll_append])
    hn has hB0.inv (by rw [hB0.size, hB0.lim]; omega) (by rw [hB0.asize]; omega)
  obtain ⟨hl5, he5⟩ := frm_end T txt (token T txt m) _ _ _ _ hs5
  rw [hB0.pid, hB0.size] at hB
  refine ⟨c', c', [], ?_, St.refl hB.inv hat, ?_, rfl, by rw [hl5]; exact hQ.1, by rw [he5]; exact hQ.2⟩
  · simp only [List.append_assoc, List.cons_append, List.nil_append] at hf ⊢
    simp only [feed] at hf ⊢
    rw [tokenStep_reset T txt (token T txt m) _ c c0 rfl hr0]
    exact hf
  · simp only
    refine built_cast (hB0.trans hB) ?_ ?_ ?_
    · simp only [countAll_append, countAll, count]; omega
    · simp only [attrCountAll_append, attrCountAll_flushP, attrCountAll, attrCount]; omega
    · simp only [expectAll_append, expectAll, List.append_nil]

end feedsElem

/-! ### References to the entities `e`, `ex`, `exx`, … -/

theorem entName_lowerB (j : Nat) : ∀ x ∈ List.replicate j (120 : UInt8), isLower x = true := by
  intro x hx
  rw [List.mem_replicate] at hx
  rw [hx.2]
  decide

theorem entName_lengthB (j : Nat) : (entName j).length = j + 1 := by
  simp [entName]

section refs
variable (T : Tables) (txt : Bytes)

/-- the loop of `skip_name` over lower-case letters, up to a semicolon -/
theorem skipNameTail_semi (hX : TablesCanon3 T) (rest : Bytes) :
    ∀ (name : Bytes), (∀ x ∈ name, isLower x = true) → ∀ (fuel p : Nat) (acc : Bytes),
      name.length < fuel →
      Stream.skipNameTail T fuel ⟨p, name ++ 59 :: rest⟩ acc =
        .ok (⟨p + name.length, 59 :: rest⟩, acc.reverse ++ name) := by
  intro name
  induction name with
  | nil =>
    intro _ fuel p acc hf
    obtain ⟨fuel, rfl⟩ : ∃ f, fuel = f + 1 := ⟨fuel - 1, by simp at hf; omega⟩
    have h59 : (59 : UInt8).toNat = 59 := rfl
    simp [Stream.skipNameTail, decodeChar_ascii 59 rest (by decide), h59, hX.semi_not_nameC]
  | cons b name ih =>
    intro hl fuel p acc hf
    obtain ⟨fuel, rfl⟩ : ∃ f, fuel = f + 1 := ⟨fuel - 1, by simp at hf; omega⟩
    have hb : isLower b = true := hl b (by simp)
    simp only [List.cons_append, Stream.skipNameTail, decodeChar_ascii b _ (lower_lt128 hb),
      hX.lower_nameC b hb, if_true]
    have h1 : 1 ≤ (b :: (name ++ 59 :: rest)).length := by simp
    simp only [h1, if_true, List.drop_succ_cons, List.drop_zero, List.take_succ_cons,
      List.take_zero, List.reverse_cons, List.reverse_nil, List.nil_append, List.cons_append]
    rw [ih (fun x hx => hl x (by simp [hx])) fuel (p + 1) (b :: acc) (by simp at hf; omega)]
    simp
    omega

theorem consumeName_ent (hX : TablesCanon3 T) (j p : Nat) (rest : Bytes) :
    Stream.consumeName T txt ⟨p, entName j ++ 59 :: rest⟩ =
      .ok (⟨p + (entName j).length, 59 :: rest⟩, ⟨p, entName j⟩) := by
  have he : isLower 101 = true := by decide
  unfold Stream.consumeName Stream.skipName
  simp only [entName, List.cons_append, decodeChar_ascii 101 _ (by decide : (101 : UInt8) < 128),
    hX.lower_nameStartC 101 he, if_true]
  have h1 : 1 ≤ (101 :: (List.replicate j (120 : UInt8) ++ 59 :: rest)).length := by simp
  simp only [h1, if_true, List.drop_succ_cons, List.drop_zero, List.take_succ_cons,
    List.take_zero, List.reverse_cons, List.reverse_nil, List.nil_append]
  rw [skipNameTail_semi T hX rest (List.replicate j 120) (entName_lowerB j) _ (p + 1) [101]
    (by simp; omega)]
  simp
  omega

theorem consumeReference_ent (hX : TablesCanon3 T) (q j : Nat) (R : Bytes) :
    Stream.consumeReference T txt ⟨q, 38 :: (entName j ++ 59 :: R)⟩ =
      .ok (⟨q + (entName j).length + 2, R⟩, some (.entity ⟨q + 1, entName j⟩)) := by
  have h1 : Stream.tryConsumeByte ⟨q, 38 :: (entName j ++ 59 :: R)⟩ bAmp =
      (⟨q + 1, entName j ++ 59 :: R⟩, true) := by
    simp [Stream.tryConsumeByte, bAmp]
  have h2 : Stream.tryConsumeByte ⟨q + 1, entName j ++ 59 :: R⟩ bHash =
      (⟨q + 1, entName j ++ 59 :: R⟩, false) := by
    simp [Stream.tryConsumeByte, bHash, entName]
  unfold Stream.consumeReference
  simp only [h1, h2, Bool.not_true, Bool.false_eq_true, if_false]
  unfold Stream.namedRef
  rw [consumeName_ent T txt hX j (q + 1)]
  have e1 : ((entName j) == Lit.quot) = false := by simp [entName, Lit.quot]
  have e2 : ((entName j) == Lit.amp) = false := by simp [entName, Lit.amp]
  have e3 : ((entName j) == Lit.apos) = false := by simp [entName, Lit.apos]
  have e4 : ((entName j) == Lit.lt) = false := by simp [entName, Lit.lt]
  have e5 : ((entName j) == Lit.gt) = false := by simp [entName, Lit.gt]
  simp only [e1, e2, e3, e4, e5, Bool.false_eq_true, if_false, Stream.finishRef, bSemi]
  simp
  omega

theorem parseNextChunk_ent (hX : TablesCanon3 T) (q j : Nat) (R : Bytes) (ents : List Entity)
    (e : Entity) (he : findEntity ents (entName j) = some e) :
    parseNextChunk T txt ents ⟨q, 38 :: (entName j ++ 59 :: R)⟩ =
      .ok (⟨q + (entName j).length + 2, R⟩, .text e.value) := by
  unfold parseNextChunk
  have h : ((38 : UInt8) == bAmp) = true := by decide
  simp only [h, if_true, consumeReference_ent T txt hX q j R, Res.bind_ok, he, Res.pure_eq]

/-- the context in which the replacement text is processed -/
def enter7 (c : Ctx) (ld1 ld2 : LD) : Ctx :=
  let c1 := { c with ld := ld1 }.log (.loop 0 true ld1.depth ld1.refs)
  let c2 := { c1 with ld := ld2 }.log (.loop 1 true ld2.depth ld2.refs)
  { c2 with tagName := {}, entityFloor := c2.parentPrefixes.length,
            maxDepth := max c2.maxDepth ld2.depth }

/-- the chunk loop at a reference: flush, enter, the entity's tokens, leave, go on -/
theorem ptl_ref7 (hX : TablesCanon3 T) (lower : Token → Ctx → Res Ctx) (range : Range)
    (f q j : Nat) (R : Bytes) (buf : TextBuffer) (c c1 : Ctx) (ld1 ld2 : LD) (e : Entity)
    (toks : List Token) (st : Stream)
    (hfl : flushBuffer c buf range = .ok c1)
    (h1 : c1.ld.incRefs = some ld1) (h2 : ld1.incDepth = some ld2)
    (he : findEntity c.entities (entName j) = some e)
    (htc : tokenizeContent T txt e.value.off (e.value.off + e.value.bytes.length) = (toks, .ok st)) :
    processTextLoop T txt lower range (f + 1) ⟨q, 38 :: (entName j ++ 59 :: R)⟩ buf c =
      (runTokens lower toks (.ok st) (enter7 c1 ld1 ld2) >>= fun c3 =>
        if c3.parentPrefixes.length != c3.entityFloor then .err .unexpectedEndOfStream
        else processTextLoop T txt lower range f ⟨q + (entName j).length + 2, R⟩ {} (leave c1 c3)) := by
  rw [processTextLoop]
  simp only [Stream.atEnd, List.isEmpty_cons, Bool.false_eq_true, if_false,
    parseNextChunk_ent T txt hX q j R c.entities e he, Res.bind_ok, hfl, h1]
  dsimp only [Ctx.log]
  simp only [h2, Span.stop, htc]
  rfl

end refs

/-! ### States around an expansion -/

theorem run_left {ca ca' c : Ctx} {frs : List Str} (h : Run ca c frs)
    (h1 : ca'.nodesLimit = ca.nodesLimit) (h2 : ca'.curAttrs = ca.curAttrs)
    (h3 : ca'.nsStartIdx = ca.nsStartIdx) (h4 : ca'.parentId = ca.parentId)
    (h5 : ca'.parentPrefixes = ca.parentPrefixes) (h6 : ca'.doc = ca.doc) : Run ca' c frs :=
  ⟨h.binv, by rw [h1]; exact h.lim, by rw [h2]; exact h.cur, by rw [h3]; exact h.ns1,
    by rw [h4]; exact h.pid, by rw [h5]; exact h.pp, h.aft, by rw [h6]; exact h.attrs,
    by rw [h6]; exact h.ns, by rw [h4]; unfold kps; rw [h6]; exact h.nodes⟩

theorem flush_run' {ca c : Ctx} {frs : List Str} (h : Run ca c frs) (t : Bytes) (r : Range)
    (ht : ∀ x ∈ t, isPlain x = true)
    (hl : ca.nodesLimit ≤ 4294967295) (hroom : t ≠ [] → ca.doc.nodes.size < ca.nodesLimit) :
    ∃ c', flushBuffer c ⟨t.reverse, false⟩ r = .ok c' ∧ Run ca c' (frs ++ optOwned t) ∧ Frame c c' := by
  cases t with
  | nil =>
    refine ⟨c, rfl, ?_, Frame.refl c⟩
    simpa [optOwned] using h
  | cons b t' => exact flush_run h (b :: t') r ht hl (hroom (by simp))

/-- the virtual state of completed nodes inside an expansion -/
def enterV (ca : Ctx) : Ctx := { ca with tagName := {}, entityFloor := ca.parentPrefixes.length }

/-- … and back outside -/
def leaveV (ca ca3 : Ctx) : Ctx := { ca3 with tagName := ca.tagName, entityFloor := ca.entityFloor }

theorem st_enter {s : Nat} {ca c : Ctx} {frs : List Str} (h : St s ca c frs) (ld1 ld2 : LD) :
    St s (enterV ca) (enter7 c ld1 ld2) frs := by
  refine ⟨⟨h.inv.binv.congr rfl rfl rfl, h.inv.lim, h.inv.cur, h.inv.ns1, h.inv.ns2, Nat.le_refl _,
    h.inv.at1, h.inv.good⟩, h.at0, ?_, rfl, ?_⟩
  · exact run_left (h.run.same (c' := enter7 c ld1 ld2) rfl rfl rfl rfl rfl rfl rfl rfl)
      rfl rfl rfl rfl rfl rfl
  · show c.parentPrefixes.length = ca.parentPrefixes.length
    rw [h.run.pp]

theorem st_leave {s : Nat} {ca c1 ca3 c3 : Ctx} {frs1 frs3 : List Str} {N A : Nat}
    {L : List (Option Nat × XKind)} (h1 : St s ca c1 frs1) (h3 : St s ca3 c3 frs3)
    (hB : Built s (enterV ca) ca3 N A L) :
    St s (leaveV ca ca3) (leave c1 c3) frs3 ∧ Built s ca (leaveV ca ca3) N A L := by
  have hpp : ca3.parentPrefixes = ca.parentPrefixes := hB.pp
  have hinv : Inv s (leaveV ca ca3) :=
    ⟨h3.inv.binv.congr rfl rfl rfl, h3.inv.lim, h3.inv.cur, h3.inv.ns1, h3.inv.ns2,
      by show ca.entityFloor ≤ ca3.parentPrefixes.length; rw [hpp]; exact h1.inv.floor,
      h3.inv.at1, h3.inv.good⟩
  refine ⟨⟨hinv, h3.at0, ?_, h1.tag, h1.fl⟩, ⟨hinv, hB.pid, hB.pp, rfl, hB.lim, id, hB.size, hB.asize,
    hB.grow⟩⟩
  exact run_left (h3.run.same (c' := leave c1 c3) rfl rfl rfl rfl rfl rfl rfl rfl)
    rfl rfl rfl rfl rfl rfl

theorem st_log {s : Nat} {ca c : Ctx} {frs : List Str} (h : St s ca c frs) (e : Ev) :
    St s ca (c.log e) frs :=
  ⟨h.inv, h.at0, h.run.same rfl rfl rfl rfl rfl rfl rfl rfl, h.tag, h.fl⟩

theorem st_frame {s : Nat} {ca c c' : Ctx} {frs frs' : List Str} (h : St s ca c frs)
    (hr : Run ca c' frs') (hf : Frame c c') : St s ca c' frs' :=
  ⟨h.inv, h.at0, hr, hf.tag.trans h.tag, hf.fl.trans h.fl⟩

theorem incDepth_lt {ld ld1 : LD} (h : ld.incDepth = some ld1) : ld.depth < 10 := by
  unfold LD.incDepth at h
  split at h
  · assumption
  · simp at h

/-! ### The chunk loop over the items of a run -/

/-- rounds of the chunk loop -/
def chunks : List Item → Nat
  | [] => 0
  | .text t :: r => t.length + chunks r
  | .ref _ :: r => 1 + chunks r

theorem chunks_le : ∀ (items : List Item), chunks items ≤ (renderItems items).length
  | [] => Nat.le_refl _
  | .text t :: r => by
    have := chunks_le r
    simp only [chunks, renderItems, List.length_append]; omega
  | .ref i :: r => by
    have := chunks_le r
    simp only [chunks, renderItems, refBytes, List.length_append, List.length_cons]; omega

section loop
variable (T : Tables) (txt : Bytes) (s : Nat) (tbl : List (List XNode)) (ftbl : List Forest)
  (E : List Entity) (G : Nat → List GNode)

/-- what expanding entity `j` achieves, at every level -/
def EntP (j : Nat) : Prop :=
  ∀ m ts, GTokForAll txt (G j) ts → FeedsX T txt s E m (tbl.getD j []) (ftbl.getD j .nil) ts

/-- the entity table: entity `j` is found under its name, and re-entering the tokenizer on its
value delivers tokens presenting its grouped replacement text -/
def EntEnv (nE : Nat) : Prop :=
  ∀ j, j < nE → ∃ e ts st, findEntity E (entName j) = some e ∧
    tokenizeContent T txt e.value.off (e.value.off + e.value.bytes.length) = (ts, .ok st) ∧
    GTokForAll txt (G j) ts

theorem loop_items (hX : TablesCanon3 T) (nE bound : Nat) (hbn : bound ≤ nE)
    (hEnv : EntEnv T txt E G nE) (hP : ∀ j, j < bound → EntP T txt s tbl ftbl E G j)
    (m : Nat) (rg : Range) :
    ∀ (items : List Item), okItems bound items = true →
    ∀ (R : Bytes) (fuel pos : Nat) (B : Bytes) (ca c : Ctx) (frs : List Str) (ld' : LD),
      St s ca c frs → (∀ x ∈ B, isPlain x = true) → c.entities = E → 11 ≤ c.ld.depth + m →
      walk c.ld (forestItems ftbl items) = some ld' →
      ca.doc.nodes.size + cnt (mergeAcc (pend frs B) (expandItems tbl items)) ≤ ca.nodesLimit →
      ca.doc.attrs.size + attrCountAll (mergeAcc (pend frs B) (expandItems tbl items)).1 < 4294967295 →
      ∃ ca' c' frs' B', (∀ x ∈ B', isPlain x = true) ∧
        processTextLoop T txt (token T txt m) rg (chunks items + fuel)
            ⟨pos, renderItems items ++ R⟩ ⟨B.reverse, false⟩ c =
          processTextLoop T txt (token T txt m) rg fuel
            ⟨pos + (renderItems items).length, R⟩ ⟨B'.reverse, false⟩ c' ∧
        St s ca' c' frs' ∧
        Built s ca ca' (countAll (mergeAcc (pend frs B) (expandItems tbl items)).1)
          (attrCountAll (mergeAcc (pend frs B) (expandItems tbl items)).1)
          (expectAll ca.parentId ca.doc.nodes.size (mergeAcc (pend frs B) (expandItems tbl items)).1) ∧
        (mergeAcc (pend frs B) (expandItems tbl items)).2 = pend frs' B' ∧
        c'.ld = ld' ∧ c'.entities = E := by
  intro items
  induction items with
  | nil =>
    intro _ R fuel pos B ca c frs ld' hst hB hE _ hw _ _
    simp only [forestItems, walk, Option.some.injEq] at hw
    refine ⟨ca, c, frs, B, hB, ?_, hst, ?_, rfl, hw, hE⟩
    · simp only [chunks, renderItems, List.nil_append, List.length_nil, Nat.zero_add, Nat.add_zero]
    · simp only [expandItems, mergeAcc, countAll, attrCountAll, expectAll]
      exact Built.refl hst.inv
  | cons it r ih =>
    cases it with
    | text t =>
      intro hok R fuel pos B ca c frs ld' hst hB hE hd hw hroom haroom
      simp only [okItems, Bool.and_eq_true] at hok
      obtain ⟨ht, hokr⟩ := hok
      have hall := textOk_all ht
      have hne : t ≠ [] := by
        intro h0; subst h0; simp [textOk] at ht
      simp only [forestItems] at hw
      have hm : mergeAcc (pend frs B) (expandItems tbl (.text t :: r)) =
          mergeAcc (pend frs (B ++ t)) (expandItems tbl r) := by
        simp only [expandItems, mergeAcc, pend_text frs B t hne]
      rw [hm] at hroom haroom ⊢
      obtain ⟨ca', c', frs', B', hB', heq, hst', hBu, hp, hl, he⟩ :=
        ih hokr R fuel (pos + t.length) (B ++ t) ca c frs ld' hst
          (by
            intro x hx
            rcases List.mem_append.mp hx with hx | hx
            · exact hB x hx
            · exact (hall x hx).1)
          hE hd hw hroom haroom
      refine ⟨ca', c', frs', B', hB', ?_, hst', hBu, hp, hl, he⟩
      have hlit := ptl_lit T txt (token T txt m) rg c (renderItems r ++ R) t
        (fun x hx => ⟨(hall x hx).1, (hall x hx).2.2.1⟩) (chunks r + fuel) pos B.reverse
      have e1 : chunks (.text t :: r) + fuel = t.length + (chunks r + fuel) := by
        simp only [chunks]; omega
      have e2 : renderItems (.text t :: r) ++ R = t ++ (renderItems r ++ R) := by
        simp only [renderItems, List.append_assoc]
      have e3 : pos + (renderItems (.text t :: r)).length = pos + t.length + (renderItems r).length := by
        simp only [renderItems, List.length_append]; omega
      rw [e1, e2, e3, hlit, ← List.reverse_append]
      exact heq
    | ref j =>
      intro hok R fuel pos B ca c frs ld' hst hB hE hd hw hroom haroom
      simp only [okItems, Bool.and_eq_true, decide_eq_true_eq] at hok
      obtain ⟨hj, hokr⟩ := hok
      simp only [forestItems] at hw
      obtain ⟨ld1, ld2, ld3, hi1, hi2, hw3, hw4⟩ := walk_cons_inv hw
      -- the content
      have hx : expandItems tbl (.ref j :: r) = tbl.getD j [] ++ expandItems tbl r := by
        simp only [expandItems]
      rw [hx] at hroom haroom ⊢
      rw [cnt_append] at hroom
      rw [mergeAcc_append] at haroom ⊢
      simp only [attrCountAll_append] at haroom
      have hpB : pend (frs ++ optOwned B) [] = pend frs B := pend_flush frs B
      -- flush
      have hroomB : B ≠ [] → ca.doc.nodes.size < ca.nodesLimit := by
        intro hne
        have h1 := cnt_pending (tbl.getD j []) (pend frs B)
        have h2 := cnt_pending (expandItems tbl r) (mergeAcc (pend frs B) (tbl.getD j [])).2
        have h3 : (pend frs B).isSome = true := by
          rw [pend_isSome]
          cases B with
          | nil => exact absurd rfl hne
          | cons _ _ => simp
        simp only [h3, if_true] at h1
        simp only [cnt] at h1
        omega
      obtain ⟨c1, hf1, hR1, hF1⟩ := flush_run' hst.run B rg hB hst.inv.lim hroomB
      have hst1 : St s ca c1 (frs ++ optOwned B) := st_frame hst hR1 hF1
      -- the loop detector
      have hlt := incDepth_lt hi2
      have hd1 : ld1.depth = c.ld.depth := RtB3.incRefs_depth hi1
      have hd2 : ld2.depth = c.ld.depth + 1 := by rw [RtB3.incDepth_depth hi2, hd1]
      obtain ⟨m', rfl⟩ : ∃ m', m = m' + 1 := ⟨m - 1, by omega⟩
      -- the entity
      obtain ⟨e, ts, st, hfe, htc, hrel⟩ := hEnv j (by omega)
      have hPj := hP j hj m' ts hrel
      have hstE := st_enter hst1 ld1 ld2
      have hp1 := cnt_pending (expandItems tbl r) (mergeAcc (pend frs B) (tbl.getD j [])).2
      obtain ⟨ca3, c3, frs3, hf3, hst3, hB3, hp3, hl3, he3⟩ := hPj (enterV ca) (enter7 c1 ld1 ld2)
        (frs ++ optOwned B) ld3 hstE
        (by show c1.entities = E; rw [hF1.ents]; exact hE)
        (by show 11 ≤ ld2.depth + m'; omega)
        (by show walk ld2 _ = _; exact hw3)
        (by rw [hpB]; show ca.doc.nodes.size + _ ≤ ca.nodesLimit; simp only [cnt] at hp1 hroom ⊢; omega)
        (by rw [hpB]; show ca.doc.attrs.size + _ < _; omega)
      rw [hpB] at hB3 hp3
      obtain ⟨hstL, hBL⟩ := st_leave hst1 hst3 hB3
      have hne : (c3.parentPrefixes.length != c3.entityFloor) = false := by
        rw [hst3.run.pp, hst3.fl, hB3.pp, hB3.fl]
        show (ca.parentPrefixes.length != ca.parentPrefixes.length) = false
        simp
      -- the rest of the run
      have hd3 : ld3.depth = ld2.depth := walk_depth _ _ _ hw3
      have hldL : (leave c1 c3).ld = ld3.decDepth := by
        show c3.ld.decDepth = _
        rw [hl3]
      have hdL : (leave c1 c3).ld.depth = c.ld.depth := by
        rw [hldL, RtB3.decDepth_depth ld3 (by omega)]; omega
      obtain ⟨ca', c', frs', B', hB', heq, hst', hBu, hp, hl, he⟩ :=
        ih hokr R fuel (pos + (entName j).length + 2) [] (leaveV ca ca3) (leave c1 c3) frs3 ld' hstL
          (by intro x hx; cases hx)
          (by show c3.entities = E; exact he3)
          (by rw [hdL]; exact hd)
          (by rw [hldL]; exact hw4)
          (by rw [← hp3, hBL.size, hBL.lim]; omega)
          (by rw [← hp3, hBL.asize]; omega)
      rw [← hp3, hBL.pid, hBL.size] at hBu
      rw [← hp3] at hp
      refine ⟨ca', c', frs', B', hB', ?_, hst', ?_, hp, hl, he⟩
      · have e1 : chunks (.ref j :: r) + fuel = (chunks r + fuel) + 1 := by
          simp only [chunks]; omega
        have e2 : renderItems (.ref j :: r) ++ R = 38 :: (entName j ++ 59 :: (renderItems r ++ R)) := by
          simp only [renderItems, refBytes, List.append_assoc, List.cons_append, List.nil_append]
        have e3 : pos + (renderItems (.ref j :: r)).length =
            pos + (entName j).length + 2 + (renderItems r).length := by
          simp only [renderItems, refBytes, List.length_append, List.length_cons, List.length_nil]
          omega
        have e4 : token T txt (m' + 1) = tokenStep T txt (token T txt m') := rfl
        rw [e1, e2, e3, ptl_ref7 T txt hX (token T txt (m' + 1)) rg (chunks r + fuel) pos j
          (renderItems r ++ R) _ c c1 ld1 ld2 e ts st hf1 (by rw [hF1.ld]; exact hi1) hi2
          (by rw [hE]; exact hfe) htc]
        unfold runTokens
        rw [e4, hf3]
        simp only [Res.bind_ok, hne, Bool.false_eq_true, if_false]
        rw [← e4]
        exact heq
      · simp only [countAll_append, attrCountAll_append, expectAll_append]
        exact hBL.trans hBu

end loop

/-! ### A run: one text token -/

theorem items_noamp (bound : Nat) : ∀ (items : List Item), hasRef items = false →
    okItems bound items = true → ∀ x ∈ renderItems items, isPlain x = true ∧ x ≠ 38
  | [], _, _, x, hx => by simp [renderItems] at hx
  | .text t :: r, hr, h, x, hx => by
    simp only [okItems, Bool.and_eq_true] at h
    simp only [hasRef] at hr
    simp only [renderItems, List.mem_append] at hx
    rcases hx with hx | hx
    · have := textOk_all h.1 x hx
      exact ⟨this.1, this.2.2.1⟩
    · exact items_noamp bound r hr h.2 x hx
  | .ref i :: r, hr, _, _, _ => by simp [hasRef] at hr

theorem items_amp : ∀ (items : List Item), hasRef items = true →
    (renderItems items).any (fun b => b == bAmp || b == bCR) = true
  | [], h => by simp [hasRef] at h
  | .text t :: r, h => by
    simp only [hasRef] at h
    simp only [renderItems, List.any_append, items_amp r h, Bool.or_true]
  | .ref i :: r, _ => by
    simp [renderItems, refBytes, bAmp]

theorem forestItems_texts (ftbl : List Forest) : ∀ (items : List Item), hasRef items = false →
    forestItems ftbl items = .nil
  | [], _ => rfl
  | .text t :: r, h => by
    simp only [hasRef] at h
    simp only [forestItems, forestItems_texts ftbl r h]
  | .ref i :: r, h => by simp [hasRef] at h

theorem mergeAcc_texts (tbl : List (List XNode)) (bound : Nat) (frs : List Str) :
    ∀ (items : List Item) (B : Bytes), hasRef items = false → okItems bound items = true →
      mergeAcc (pend frs B) (expandItems tbl items) = ([], pend frs (B ++ renderItems items))
  | [], B, _, _ => by simp only [expandItems, mergeAcc, renderItems, List.append_nil]
  | .text t :: r, B, hr, h => by
    simp only [okItems, Bool.and_eq_true] at h
    simp only [hasRef] at hr
    have hne : t ≠ [] := by
      intro h0; subst h0; simp [textOk] at h
    simp only [expandItems, mergeAcc, pend_text frs B t hne, renderItems]
    rw [mergeAcc_texts tbl bound frs r (B ++ t) hr h.2, List.append_assoc]
  | .ref i :: r, _, hr, _ => by simp [hasRef] at hr

section run
variable (T : Tables) (txt : Bytes) (s : Nat) (tbl : List (List XNode)) (ftbl : List Forest)
  (E : List Entity) (G : Nat → List GNode)

theorem feedsX_run (hX : TablesCanon3 T) (nE bound : Nat) (hbn : bound ≤ nE)
    (hEnv : EntEnv T txt E G nE) (hP : ∀ j, j < bound → EntP T txt s tbl ftbl E G j)
    (m : Nat) (items : List Item) (q : Nat) (hok : okItems bound items = true)
    (hne : items.isEmpty = false)
    (hsl : sliceBytes txt q (q + (renderItems items).length) = renderItems items) :
    FeedsX T txt s E m (expandItems tbl items) (forestItems ftbl items)
      [Token.text ⟨q, renderItems items⟩ (q, q + (renderItems items).length)] := by
  intro ca c frs ld' hst hE hd hw hroom haroom
  have hXne : renderItems items ≠ [] := items_ne bound items hok hne
  obtain ⟨rg, hrg⟩ : ∃ rg : Range, rg = (q, q + (renderItems items).length) := ⟨_, rfl⟩
  obtain ⟨cl, hcl⟩ : ∃ cl, cl = c.log (.token (.text ⟨q, renderItems items⟩ rg)) := ⟨_, rfl⟩
  have hstl : St s ca cl frs := by rw [hcl]; exact st_log hst _
  rw [← hrg]
  cases hr : hasRef items with
  | false =>
    -- no reference: the text is appended as it stands
    have hm := mergeAcc_texts tbl bound frs items [] hr hok
    rw [List.nil_append] at hm
    rw [hm] at hroom ⊢
    rw [forestItems_texts ftbl items hr] at hw
    simp only [walk, Option.some.injEq] at hw
    have hsome : (pend frs (renderItems items)).isSome = true := by
      rw [pend_isSome]
      cases hx : renderItems items with
      | nil => exact absurd hx hXne
      | cons _ _ => simp
    simp only [cnt, countAll, hsome, if_true] at hroom
    have hnoamp := items_noamp bound items hr hok
    have hfast : ((renderItems items).any fun x => x == bAmp || x == bCR) = false := by
      rw [List.any_eq_false]
      intro x hx
      obtain ⟨hp, h38⟩ := hnoamp x hx
      have h1 : (x == bAmp) = false := by rw [beq_eq_false_iff_ne]; exact h38
      simp [h1, plain_bne hp (c := bCR) (by decide)]
    obtain ⟨c', h1, h2, h3⟩ := appendText_run hstl.run (.borrowed ⟨q, renderItems items⟩) rg
      hst.inv.lim (by omega)
    have hs : tokenStep T txt (token T txt m) (.text ⟨q, renderItems items⟩ rg) c = .ok c' := by
      unfold tokenStep
      dsimp only
      unfold processText
      simp only [hfast, Bool.not_false, if_true]
      rw [← hcl]
      exact h1
    refine ⟨ca, c', frs ++ [.borrowed ⟨q, renderItems items⟩], ?_, st_frame hstl h2 h3, ?_, ?_, ?_, ?_⟩
    · rw [feed_cons_ok hs]; rfl
    · simp only [countAll, attrCountAll, expectAll]
      exact Built.refl hst.inv
    · exact (pend_frag frs (.borrowed ⟨q, renderItems items⟩) hXne).symm
    · rw [h3.ld, hcl]; exact hw
    · rw [h3.ents, hcl]; exact hE
  | true =>
    -- references: the chunk loop
    have hany := items_amp items hr
    obtain ⟨F, hF⟩ : ∃ F, (renderItems items).length + 1 = chunks items + (F + 1) :=
      ⟨(renderItems items).length - chunks items, by have := chunks_le items; omega⟩
    obtain ⟨ca', c', frs', B', hB', heq, hst', hBu, hp, hl, he⟩ :=
      loop_items T txt s tbl ftbl E G hX nE bound hbn hEnv hP m rg items hok [] (F + 1) q [] ca cl frs
        ld' hstl (by intro x hx; cases hx) (by rw [hcl]; exact hE) (by rw [hcl]; exact hd)
        (by rw [hcl]; exact hw) hroom haroom
    rw [List.append_nil] at heq
    have hroomB : B' ≠ [] → ca'.doc.nodes.size < ca'.nodesLimit := by
      intro hne'
      have h3 : (pend frs' B').isSome = true := by
        rw [pend_isSome]
        cases B' with
        | nil => exact absurd rfl hne'
        | cons _ _ => simp
      rw [← hp] at h3
      simp only [cnt, h3, if_true] at hroom
      rw [hBu.size, hBu.lim]
      omega
    obtain ⟨c'', hf2, hR2, hF2⟩ := flush_run' hst'.run B' rg hB' hst'.inv.lim hroomB
    have hs : tokenStep T txt (token T txt m) (.text ⟨q, renderItems items⟩ rg) c = .ok c'' := by
      unfold tokenStep
      dsimp only
      unfold processText
      simp only [hany, Bool.not_true, Bool.false_eq_true, if_false, Stream.ofRange]
      rw [← hcl]
      have hsl' : sliceBytes txt rg.1 rg.2 = renderItems items := by rw [hrg]; exact hsl
      have hq : rg.1 = q := by rw [hrg]
      rw [hsl', hF, hq]
      show (processTextLoop T txt (token T txt m) rg (chunks items + (F + 1))
        ⟨q, renderItems items⟩ {} cl >>= fun x => flushBuffer x.2 x.1 rg) = _
      have e0 : ({} : TextBuffer) = ⟨([] : Bytes).reverse, false⟩ := rfl
      rw [e0, heq, ptl_end]
      exact hf2
    refine ⟨ca', c'', frs' ++ optOwned B', ?_, st_frame hst' hR2 hF2, hBu, ?_, ?_, ?_⟩
    · rw [feed_cons_ok hs]; rfl
    · rw [hp, pend_flush]
    · rw [hF2.ld]; exact hl
    · rw [hF2.ents]; exact he

end run

/-! ### Grouped content, by structural induction; the entities, by induction on their index -/

section main
variable (T : Tables) (txt : Bytes) (s : Nat) (tbl : List (List XNode)) (ftbl : List Forest)
  (E : List Entity) (G : Nat → List GNode)

mutual
  theorem build_gnode (hX : TablesCanon3 T) (nE bound : Nat) (hbn : bound ≤ nE)
      (hEnv : EntEnv T txt E G nE) (hP : ∀ j, j < bound → EntP T txt s tbl ftbl E G j) :
      ∀ (g : GNode) (ts : List Token), GTokFor txt g ts → okG bound g = true → wfG g = true →
      ∀ m, FeedsX T txt s E m (expandG tbl g) (forestG ftbl g) ts
    | .elem n as ks, ts, hrel, hok, hwf, m => by
      obtain ⟨o1, o2, st, o3, o4, r1, r2, ats, kts, hats, hk, rfl⟩ := gtokFor_elem_inv hrel
      simp only [okG, Bool.and_eq_true] at hok
      simp only [wfG, Bool.and_eq_true] at hwf
      simp only [expandG, forestG]
      exact feedsX_elem T txt s E (build_gall hX nE bound hbn hEnv hP ks kts hk hok.2 hwf.1 m)
        n as o1 o2 st o3 o4 r1 r2 ats hats hok.1.1 hok.1.2
    | .comment b, ts, hrel, _, _, m => by
      obtain ⟨o, r, rfl⟩ := gtokFor_comment_inv hrel
      simp only [expandG, forestG]
      exact feedsX_comment T txt s E m b o r
    | .run items, ts, hrel, hok, hwf, m => by
      obtain ⟨q, hsl, rfl⟩ := gtokFor_run_inv hrel
      simp only [okG] at hok
      simp only [wfG, Bool.not_eq_true'] at hwf
      simp only [expandG, forestG]
      exact feedsX_run T txt s tbl ftbl E G hX nE bound hbn hEnv hP m items q hok hwf hsl
  theorem build_gall (hX : TablesCanon3 T) (nE bound : Nat) (hbn : bound ≤ nE)
      (hEnv : EntEnv T txt E G nE) (hP : ∀ j, j < bound → EntP T txt s tbl ftbl E G j) :
      ∀ (gs : List GNode) (ts : List Token), GTokForAll txt gs ts → okGAll bound gs = true →
      wfGAll gs = true → ∀ m, FeedsX T txt s E m (expandGAll tbl gs) (forestGAll ftbl gs) ts
    | [], ts, hrel, _, _, m => by
      have := gtokForAll_nil_inv hrel
      subst this
      simp only [expandGAll, forestGAll]
      exact feedsX_nil T txt s E m
    | g :: gs, ts, hrel, hok, hwf, m => by
      obtain ⟨t1, t2, h1, h2, rfl⟩ := gtokForAll_cons_inv hrel
      simp only [okGAll, Bool.and_eq_true] at hok
      simp only [wfGAll, Bool.and_eq_true] at hwf
      simp only [expandGAll, forestGAll]
      exact feedsX_append T txt s E
        (build_gnode hX nE bound hbn hEnv hP g t1 h1 hok.1 hwf.1 m)
        (build_gall hX nE bound hbn hEnv hP gs t2 h2 hok.2 hwf.2 m)
end

/-- the tables, entry by entry, in grouped form -/
def TblOk (nE : Nat) : Prop :=
  ∀ j, j < nE → okGAll j (G j) = true ∧ wfGAll (G j) = true ∧
    tbl.getD j [] = expandGAll tbl (G j) ∧ ftbl.getD j .nil = forestGAll ftbl (G j)

theorem entP_all (hX : TablesCanon3 T) (nE : Nat) (hEnv : EntEnv T txt E G nE)
    (hG : TblOk tbl ftbl G nE) : ∀ j, j < nE → EntP T txt s tbl ftbl E G j := by
  intro j
  induction j using Nat.strongRecOn with
  | _ j ih =>
    intro hj m ts hrel
    obtain ⟨h1, h2, h3, h4⟩ := hG j hj
    rw [h3, h4]
    exact build_gall T txt s tbl ftbl E G hX nE j (Nat.le_of_lt hj) hEnv
      (fun k hk => ih k hk (by omega)) (G j) ts hrel h1 h2 m

end main

/-! ### The declarations; the entity table -/

def mkEnt (p : Span × Span) : Entity := ⟨p.1, p.2⟩

/-- the context after the `EntityDeclaration` tokens -/
def addEnts : Ctx → List (Span × Span) → Ctx
  | c, [] => c
  | c, p :: l =>
    addEnts { c.log (.token (.entityDecl p.1 p.2)) with entities := c.entities ++ [⟨p.1, p.2⟩] } l

theorem feed_decls (T : Tables) (txt : Bytes) (lower : Token → Ctx → Res Ctx) :
    ∀ (l : List (Span × Span)) (c : Ctx),
      feed (tokenStep T txt lower) (l.map (fun p => Token.entityDecl p.1 p.2)) c = .ok (addEnts c l)
  | [], c => rfl
  | p :: l, c => by
    have hs : tokenStep T txt lower (.entityDecl p.1 p.2) c =
        .ok { c.log (.token (.entityDecl p.1 p.2)) with entities := c.entities ++ [⟨p.1, p.2⟩] } := rfl
    simp only [List.map_cons]
    rw [feed_cons_ok hs]
    exact feed_decls T txt lower l _

theorem addEnts_spec : ∀ (l : List (Span × Span)) (c : Ctx),
    (addEnts c l).doc = c.doc ∧ (addEnts c l).parentId = c.parentId ∧
    (addEnts c l).awaiting = c.awaiting ∧ (addEnts c l).nodesLimit = c.nodesLimit ∧
    (addEnts c l).curAttrs = c.curAttrs ∧ (addEnts c l).nsStartIdx = c.nsStartIdx ∧
    (addEnts c l).parentPrefixes = c.parentPrefixes ∧ (addEnts c l).entityFloor = c.entityFloor ∧
    (addEnts c l).afterText = c.afterText ∧ (addEnts c l).ld = c.ld ∧
    (addEnts c l).entities = c.entities ++ l.map mkEnt
  | [], c => ⟨rfl, rfl, rfl, rfl, rfl, rfl, rfl, rfl, rfl, rfl, by simp [addEnts]⟩
  | p :: l, c => by
    obtain ⟨h1, h2, h3, h4, h5, h6, h7, h8, h9, h10, h11⟩ := addEnts_spec l
      { c.log (.token (.entityDecl p.1 p.2)) with entities := c.entities ++ [⟨p.1, p.2⟩] }
    refine ⟨h1, h2, h3, h4, h5, h6, h7, h8, h9, h10, ?_⟩
    show (addEnts _ l).entities = _
    rw [h11]
    simp [mkEnt]

theorem entName_inj {i j : Nat} (h : entName i = entName j) : i = j := by
  have := congrArg List.length h
  simpa [entName] using this

theorem find_idx (nm : Bytes) : ∀ (l : List Entity) (j : Nat) (hj : j < l.length),
    (∀ i (hi : i < l.length), i < j → (l[i].name.bytes == nm) = false) →
    (l[j].name.bytes == nm) = true → findEntity l nm = some l[j]
  | [], j, hj, _, _ => by simp at hj
  | e :: l, 0, _, _, h2 => by
    simp only [List.getElem_cons_zero] at h2
    simp only [findEntity, List.find?, h2, List.getElem_cons_zero]
  | e :: l, j + 1, hj, h1, h2 => by
    have h0 := h1 0 (by simp) (by omega)
    simp only [List.getElem_cons_zero] at h0
    simp only [List.getElem_cons_succ] at h2 ⊢
    simp only [findEntity, List.find?, h0]
    exact find_idx nm l j (by simpa using hj)
      (fun i hi hij => by
        have := h1 (i + 1) (by simpa using hi) (by omega)
        simpa using this) h2

theorem initCtx_ld (txt : Bytes) (opt : Opt) (c : Ctx) (h : initCtx txt opt = .ok c) :
    c.ld = {} ∧ c.entities = [] := by
  unfold initCtx at h
  rw [Res.bind_eq_ok] at h
  obtain ⟨ns, _, h⟩ := h
  res_norm at h
  subst h
  exact ⟨rfl, rfl⟩

end Rt7

open RtB RtB2 RtB3 RtB6 Rt7

/-- **Builder, general entity document**: if the tokenizer delivered one `EntityDeclaration` per
entity followed by tokens presenting the root element with grouped content, and re-entered on each
entity's value it delivers tokens presenting that entity's grouped replacement text, and the loop
detector accepts the forest of references, then `parse` (with `allow_dtd = true`) succeeds and the
arena read back is the root followed by the nodes of the inline document with adjacent character
data joined. -/
theorem parse_of_edocToks (T : Tables) (hC3 : TablesCanon3 T) (txt : Bytes) (opt : Opt)
    (hdtd : opt.allowDtd = true)
    (tbl : List (List XNode)) (ftbl : List Forest) (G : Nat → List GNode) (nE : Nat)
    (n : Bytes) (as : List (Bytes × Bytes)) (gkids : List GNode)
    (decls : List (Span × Span)) (rootToks : List Token)
    (htok : tokenize T txt true =
      (decls.map (fun p => Token.entityDecl p.1 p.2) ++ rootToks, .ok ()))
    (hlen : decls.length = nE)
    (hdecl : ∀ i (h1 : i < decls.length), decls[i].1.bytes = entName i ∧
      ∃ ts st, tokenizeContent T txt decls[i].2.off (decls[i].2.off + decls[i].2.bytes.length) =
          (ts, .ok st) ∧ GTokForAll txt (G i) ts)
    (hroot : GTokFor txt (.elem n as gkids) rootToks)
    (hG : TblOk tbl ftbl G nE)
    (hok : okG nE (.elem n as gkids) = true) (hwf : wfG (.elem n as gkids) = true)
    (hacc : (walk {} (forestGAll ftbl gkids)).isSome = true)
    (hlim : count (.elem n as (mergeList none (expandGAll tbl gkids))) + 1 ≤ opt.nodesLimit)
    (hl32 : opt.nodesLimit ≤ 4294967295)
    (hattrs : attrCount (.elem n as (mergeList none (expandGAll tbl gkids))) < 4294967295) :
    ∃ doc, parse T txt opt = .ok doc ∧
      doc.nodes.toList.map (view doc) =
        some (none, XKind.root) ::
          (expect 0 1 (.elem n as (mergeList none (expandGAll tbl gkids)))).map some := by
  -- start of `parse`
  obtain ⟨c0, h0, l0, ns0, ts0, cur0, fl0, at0, pid0, pp0, attrs0, k0, sz0⟩ := initCtx_ok txt opt
  obtain ⟨ld0, ent0⟩ := initCtx_ld txt opt c0 h0
  have hb0 : BInv c0 := binv_init txt opt c0 h0
  -- the declarations
  obtain ⟨c1, hc1⟩ : ∃ c1, c1 = addEnts c0 decls := ⟨_, rfl⟩
  obtain ⟨d1, p1, a1, l1, cu1, n1, pp1, f1, at1, ld1, e1⟩ := addEnts_spec decls c0
  rw [← hc1] at d1 p1 a1 l1 cu1 n1 pp1 f1 at1 ld1 e1
  have hfd : feed (tokenStep T txt (token T txt 11)) (decls.map (fun p => Token.entityDecl p.1 p.2)) c0 =
      .ok c1 := by rw [hc1]; exact feed_decls T txt _ decls c0
  have k1 : kps c1 = [(Kind.root, none)] := by
    have : kps c1 = kps c0 := by unfold kps; rw [d1]
    rw [this, k0]
  have hi1 : Inv 1 c1 := by
    refine ⟨hb0.congr (by rw [d1]) p1 a1, by rw [l1, l0]; exact hl32, by rw [cu1]; exact cur0,
      by rw [n1]; exact ns0, by rw [d1]; exact ts0, by rw [f1, fl0]; exact Nat.zero_le _,
      by rw [at1, at0]; simp, ?_⟩
    intro x hx
    rw [k1] at hx
    simp only [List.mem_singleton] at hx
    subst hx
    trivial
  -- the entity table
  obtain ⟨E, hE⟩ : ∃ E, E = decls.map mkEnt := ⟨_, rfl⟩
  have ent1 : c1.entities = E := by rw [e1, ent0, hE]; rfl
  have hEnv : EntEnv T txt E G nE := by
    intro j hj
    have hjd : j < decls.length := by rw [hlen]; exact hj
    have hjE : j < E.length := by rw [hE]; simpa using hjd
    obtain ⟨hnm, ts, st, htc, hrel⟩ := hdecl j hjd
    have hEj : E[j] = mkEnt decls[j] := by
      simp only [hE, List.getElem_map]
    refine ⟨E[j], ts, st, ?_, ?_, hrel⟩
    · apply find_idx (entName j) E j hjE
      · intro i hi hij
        have hid : i < decls.length := by rw [hE] at hi; simpa using hi
        have : E[i] = mkEnt decls[i] := by simp only [hE, List.getElem_map]
        rw [this]
        show (decls[i].1.bytes == entName j) = false
        rw [(hdecl i hid).1, beq_eq_false_iff_ne]
        intro h
        have := entName_inj h
        omega
      · rw [hEj]
        show (decls[j].1.bytes == entName j) = true
        rw [hnm]
        exact beq_self_eq_true _
    · rw [hEj]
      exact htc
  have hP := entP_all T txt 1 tbl ftbl E G hC3 nE hEnv hG
  -- the root element
  obtain ⟨ld', hw⟩ := Option.isSome_iff_exists.mp hacc
  have hroot' := build_gnode T txt 1 tbl ftbl E G hC3 nE nE (Nat.le_refl _) hEnv hP
    (.elem n as gkids) rootToks hroot hok hwf 11
  simp only [expandG, forestG] at hroot'
  have hm : mergeAcc (pend [] []) [XNode.elem n as (expandGAll tbl gkids)] =
      ([XNode.elem n as (mergeList none (expandGAll tbl gkids))], none) := by
    simp only [pend_nil, mergeAcc, flushP, List.nil_append]
  simp only [count] at hlim
  simp only [attrCount] at hattrs
  obtain ⟨ca', c', frs', hf, hst, hB, hp, _, _⟩ := hroot' c1 c1 [] ld' (St.refl hi1 (by rw [at1, at0]))
    ent1 (by rw [ld1, ld0]; exact Nat.le_refl _) (by rw [ld1, ld0]; exact hw)
    (by
      rw [hm]
      simp only [cnt, countAll, count, Option.isSome_none, Bool.false_eq_true, if_false]
      rw [d1, sz0, l1, l0]; omega)
    (by
      rw [hm]
      simp only [attrCountAll, attrCount]
      rw [d1, attrs0]; simp only [Array.size_empty]; omega)
  rw [hm] at hB hp
  simp only at hB hp
  have hfrs : frs' = [] := pend_none hp.symm
  subst hfrs
  rw [p1, pid0, d1, sz0] at hB
  obtain ⟨K, more, hk, ha, hv⟩ := hB.grow
  simp only [expectAll, List.append_nil] at hv
  have kc' : kps c' = kps ca' := by simpa [runNode] using hst.run.nodes
  have ac' : c'.doc.attrs = ca'.doc.attrs := hst.run.attrs
  have hrun : runTokens (token T txt depthFuel)
      (decls.map (fun p => Token.entityDecl p.1 p.2) ++ rootToks) (.ok ()) c0 = .ok c' := by
    unfold runTokens
    have : token T txt depthFuel = tokenStep T txt (token T txt 11) := rfl
    rw [this, feed_append_ok _ _ c0 c1 c' hfd hf]
  have hb' : BInv c' := hst.run.binv
  have hhas : rootHasElement c'.doc = .ok true := by
    rw [expect, List.map_cons] at hv
    cases K with
    | nil => simp at hv
    | cons x K' =>
      simp only [List.map_cons, List.cons.injEq] at hv
      obtain ⟨he, hpar⟩ := viewKP_elem hv.1
      have hnode : (kps c')[1]? = some x := by
        rw [kc', hk, k1]; rfl
      rw [kps_getElem?] at hnode
      obtain ⟨n1', hn1, hkp⟩ := Option.map_eq_some_iff.mp hnode
      subst hkp
      exact rootHasElement_ok c'.doc hb'.wf n1' hn1 hpar he
  refine ⟨{ c'.doc with ns := { c'.doc.ns with sortedOrder := #[] } }, ?_, ?_⟩
  · unfold parse parseCtx
    rw [h0]
    simp only [Res.bind_ok]
    rw [hdtd, htok]
    simp only
    rw [hrun]
    simp only [Res.bind_ok]
    unfold finish
    rw [hhas]
    have : c'.parentPrefixes.length = 1 := by rw [hst.run.pp, hB.pp, pp1, pp0]; rfl
    simp [this]
  · have hview : ∀ (D : Doc), D.attrs = c'.doc.attrs →
        List.map (view D) c'.doc.nodes.toList = (kps c').map (viewKP c'.doc.attrs.toList) := by
      intro D hD
      unfold kps
      rw [List.map_map]
      apply List.map_congr_left
      intro nd _
      rw [view_eq, hD]; rfl
    refine (hview _ rfl).trans ?_
    rw [kc', ac', hk, k1, List.map_append, hv]
    rfl

end Rox.Lemmas

