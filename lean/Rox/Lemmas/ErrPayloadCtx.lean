/-
  Rox.Lemmas.ErrPayloadCtx — the builder invariant behind `ErrPayload`: the names the builder keeps
  for later error messages (entity values to re-tokenize, pending attributes, the tag being read, and
  the stack of open elements: prefix on `parentPrefixes`, local name in the arena) are pieces of the
  input, every open element's `prefix:local` being one piece. Frame lemmas for the arena operations.
-/
import Rox.Lemmas.ErrPayloadDoc
import Rox.Lemmas.ErrPayloadStream

namespace Rox.Lemmas.EP
open Rox

/-- the local name of an element node -/
def elemName : Kind → Option Bytes
  | .element _ tn _ _ => some tn.bytes
  | _ => none

/-- what the invariant reads of a node: its parent link and its element name -/
def sig (n : NodeData) : Option Nat × Option Bytes := (n.parent, elemName n.kind)

def sigs (a : Array NodeData) : List (Option Nat × Option Bytes) := a.toList.map sig

/-- the chain of open elements: the node `id` with the top of the prefix stack, its parent with the
next entry, … — each `prefix:local` (or `local`) is a piece of the input -/
def PP (txt : Bytes) (sm : List (Option Nat × Option Bytes)) : Nat → List Bytes → Prop
  | _, [] => True
  | id, p :: rest => ∃ par nm, sm[id]? = some (par, nm) ∧
      (∀ tn, nm = some tn → genQNameString p tn <:+: txt) ∧
      (∀ pid, par = some pid → PP txt sm pid rest)

theorem PP.mono {txt : Bytes} {sm sm' : List (Option Nat × Option Bytes)} (h : sm <+: sm') :
    ∀ {stack : List Bytes} {id : Nat}, PP txt sm id stack → PP txt sm' id stack := by
  obtain ⟨ext, rfl⟩ := h
  intro stack
  induction stack with
  | nil => intro id _; trivial
  | cons p rest ih =>
    intro id hp
    obtain ⟨par, nm, h1, h2, h3⟩ := hp
    exact ⟨par, nm, getElem?_append_some h1, h2, fun pid hpid => ih (h3 pid hpid)⟩

/-- the builder invariant -/
structure CI (txt : Bytes) (c : Ctx) : Prop where
  ents : ∀ e ∈ c.entities, e.value.bytes <:+: txt
  attrs : ∀ a ∈ c.curAttrs, a.pfx.bytes <:+: txt ∧ a.loc.bytes <:+: txt
  tagPfx : c.tagName.pfx <:+: txt
  tagQ : genQNameString c.tagName.pfx c.tagName.nameSpan.bytes <:+: txt
  chain : PP txt (sigs c.doc.nodes) c.parentId c.parentPrefixes

/-- what an operation that does not touch names keeps -/
structure Fr (c c' : Ctx) : Prop where
  ents : c'.entities = c.entities
  attrs : ∀ a ∈ c'.curAttrs, a ∈ c.curAttrs
  tag : c'.tagName = c.tagName
  pid : c'.parentId = c.parentId
  pps : c'.parentPrefixes = c.parentPrefixes
  sg : sigs c.doc.nodes <+: sigs c'.doc.nodes

theorem Fr.refl (c : Ctx) : Fr c c := ⟨rfl, fun _ h => h, rfl, rfl, rfl, List.prefix_refl _⟩

theorem Fr.trans {a b c : Ctx} (h1 : Fr a b) (h2 : Fr b c) : Fr a c :=
  ⟨by rw [h2.ents, h1.ents], fun x hx => h1.attrs x (h2.attrs x hx), by rw [h2.tag, h1.tag],
   by rw [h2.pid, h1.pid], by rw [h2.pps, h1.pps], h1.sg.trans h2.sg⟩

theorem CI.frame {txt : Bytes} {c c' : Ctx} (hc : CI txt c) (h : Fr c c') : CI txt c' :=
  ⟨by rw [h.ents]; exact hc.ents, fun a ha => hc.attrs a (h.attrs a ha), by rw [h.tag]; exact hc.tagPfx,
   by rw [h.tag]; exact hc.tagQ, by rw [h.pid, h.pps]; exact PP.mono h.sg hc.chain⟩

/-! ### the arena -/

theorem list_set_self {α} : ∀ (l : List α) (i : Nat) (y : α), l[i]? = some y → l.set i y = l
  | [], _, _, h => by simp at h
  | a :: l, 0, y, h => by simp at h; simp [h]
  | a :: l, i + 1, y, h => by
    simp only [List.getElem?_cons_succ] at h
    simp [list_set_self l i y h]

theorem sigs_push (a : Array NodeData) (n : NodeData) : sigs (a.push n) = sigs a ++ [sig n] := by
  simp [sigs]

theorem sigs_set (a : Array NodeData) (i : Nat) (n n' : NodeData) (h : a[i]? = some n)
    (hs : sig n' = sig n) : sigs (a.setIfInBounds i n') = sigs a := by
  unfold sigs
  rw [Array.toList_setIfInBounds, List.map_set]
  apply list_set_self
  rw [List.getElem?_map, Array.getElem?_toList, h, hs]
  rfl

theorem setNextSubtree_sigs (new : Nat) : ∀ (l : List Nat) (nodes nodes' : Array NodeData),
    Ctx.setNextSubtree nodes new l = .ok nodes' → sigs nodes' = sigs nodes := by
  intro l
  induction l with
  | nil => intro nodes nodes' h; simp only [Ctx.setNextSubtree, Res.ok.injEq] at h; rw [h]
  | cons x xs ih =>
    intro nodes nodes' h
    simp only [Ctx.setNextSubtree] at h
    split at h
    · cases h
    · rename_i n hn
      rw [ih _ _ h]
      exact sigs_set _ _ _ _ hn rfl

/-- `append_node`: one node more, with the given kind and the current parent -/
theorem appendNode_fr {c c' : Ctx} {k : Kind} {r : Range} {id : Nat}
    (h : c.appendNode k r = .ok (c', id)) :
    c'.entities = c.entities ∧ c'.curAttrs = c.curAttrs ∧ c'.tagName = c.tagName ∧
    c'.parentId = c.parentId ∧ c'.parentPrefixes = c.parentPrefixes ∧
    sigs c'.doc.nodes = sigs c.doc.nodes ++ [(some c.parentId, elemName k)] ∧
    id = c.doc.nodes.size := by
  unfold Ctx.appendNode at h
  split at h
  · cases h
  · rw [Res.bind_eq_ok] at h
    obtain ⟨newId, hid, h⟩ := h
    unfold Api.nodeIdNew at hid
    split at hid
    · simp only [Res.ok.injEq] at hid
      subst hid
      simp only at h
      split at h
      · cases h
      · rename_i p0 hp0
        split at h
        · cases h
        · rename_i n0 hn0
          split at h
          · cases h
          · rename_i p1 hp1
            rw [Res.bind_eq_ok] at h
            obtain ⟨nodes', hs, h⟩ := h
            simp only [pure, Res.ok.injEq, Prod.mk.injEq] at h
            obtain ⟨hc, hi⟩ := h
            subst hc
            refine ⟨rfl, rfl, rfl, rfl, rfl, ?_, hi.symm⟩
            show sigs nodes' = _
            rw [setNextSubtree_sigs _ _ _ _ hs,
              sigs_set _ _ p1 { p1 with lastChild := some c.doc.nodes.size } hp1 rfl,
              sigs_set _ _ n0 { n0 with prevSibling := p0.lastChild } hn0 rfl, sigs_push]
            rfl
    · cases hid

theorem appendNode_Fr {c c' : Ctx} {k : Kind} {r : Range} {id : Nat}
    (h : c.appendNode k r = .ok (c', id)) : Fr c c' := by
  obtain ⟨h1, h2, h3, h4, h5, h6, _⟩ := appendNode_fr h
  exact ⟨h1, fun a ha => by rw [h2] at ha; exact ha, h3, h4, h5, by rw [h6]; exact List.prefix_append _ _⟩

theorem Fr.of_eq {c c' : Ctx} (h1 : c'.entities = c.entities) (h2 : c'.curAttrs = c.curAttrs)
    (h3 : c'.tagName = c.tagName) (h4 : c'.parentId = c.parentId)
    (h5 : c'.parentPrefixes = c.parentPrefixes) (h6 : c'.doc.nodes = c.doc.nodes) : Fr c c' :=
  ⟨h1, fun a ha => by rw [h2] at ha; exact ha, h3, h4, h5, by rw [h6]; exact List.prefix_refl _⟩

theorem log_Fr (c : Ctx) (e : Ev) : Fr c (c.log e) := Fr.of_eq rfl rfl rfl rfl rfl rfl

theorem appendText_Fr {c c' : Ctx} {t : Str} {r : Range} (h : c.appendText t r = .ok c') : Fr c c' := by
  unfold Ctx.appendText at h
  try dsimp only at h
  split at h
  · rw [Res.bind_eq_ok] at h
    obtain ⟨⟨c2, id⟩, h2, h1⟩ := h
    res_norm at h1
    subst h1
    exact (log_Fr c _).trans ((appendNode_Fr h2).trans (Fr.of_eq rfl rfl rfl rfl rfl rfl))
  · res_norm at h
    subst h
    exact Fr.of_eq rfl rfl rfl rfl rfl rfl

theorem mergeText_Fr {c c' : Ctx} (h : c.mergeText = .ok c') : Fr c c' := by
  unfold Ctx.mergeText at h
  try dsimp only at h
  split at h
  · cases h
  · split at h
    · cases h
    · rename_i n hn
      split at h
      · rename_i s hk
        simp only [Res.ok.injEq] at h; subst h
        refine ⟨rfl, fun _ ha => ha, rfl, rfl, rfl, ?_⟩
        show sigs c.doc.nodes <+: sigs (c.doc.nodes.setIfInBounds _ _)
        rw [sigs_set _ _ _ _ hn (by simp [sig, elemName, hk])]
        exact List.prefix_refl _
      · cases h

theorem resetAfterText_Fr {c c' : Ctx} (h : c.resetAfterText = .ok c') : Fr c c' := by
  unfold Ctx.resetAfterText at h
  try dsimp only at h
  split at h
  · simp only [Res.ok.injEq] at h; subst h; exact Fr.refl _
  · split at h
    · rw [Res.bind_eq_ok] at h
      obtain ⟨c1, h1, h⟩ := h
      res_norm at h
      subst h
      exact (mergeText_Fr h1).trans (Fr.of_eq rfl rfl rfl rfl rfl rfl)
    · res_norm at h; subst h; exact Fr.of_eq rfl rfl rfl rfl rfl rfl

theorem resolveNamespaces_Fr {c c' : Ctx} {r : Range} (h : resolveNamespaces c = .ok (c', r)) :
    Fr c c' := by
  unfold resolveNamespaces at h
  rw [Res.bind_eq_ok] at h
  obtain ⟨p, _, h⟩ := h
  split at h
  · split at h
    · res_norm at h; rw [← h.1]; exact Fr.refl _
    · rw [Res.bind_eq_ok] at h
      obtain ⟨ns, _, h⟩ := h
      res_norm at h
      rw [← h.1]; exact Fr.of_eq rfl rfl rfl rfl rfl rfl
  · res_norm at h; rw [← h.1]; exact Fr.refl _

theorem resolveAttributes_Fr {txt : Bytes} {c c' : Ctx} {nss r : Range}
    (h : resolveAttributes txt c nss = .ok (c', r)) : Fr c c' := by
  unfold resolveAttributes at h
  split at h
  · res_norm at h; rw [← h.1]; exact Fr.refl _
  · split at h
    · cases h
    · rw [Res.bind_eq_ok] at h
      obtain ⟨doc, hd, h⟩ := h
      res_norm at h
      have hn := resolveAttrsLoop_nodes _ _ _ _ _ _ _ hd
      rw [← h.1]
      refine ⟨rfl, fun a ha => (by cases ha), rfl, rfl, rfl, ?_⟩
      show sigs c.doc.nodes <+: sigs doc.nodes
      rw [hn]; exact List.prefix_refl _

theorem flushBuffer_Fr {c c' : Ctx} {b : TextBuffer} {r : Range} (h : flushBuffer c b r = .ok c') :
    Fr c c' := by
  unfold flushBuffer at h
  split at h
  · rw [Res.bind_eq_ok] at h
    obtain ⟨out, _, h⟩ := h
    exact appendText_Fr h
  · res_norm at h; subst h; exact Fr.refl _

theorem processCdata_Fr {c c' : Ctx} {t : Span} {r : Range} (h : processCdata c t r = .ok c') :
    Fr c c' := by
  unfold processCdata at h
  split at h <;> exact appendText_Fr h

end Rox.Lemmas.EP
