/-
  Rox.Lemmas.ApiSafe2 — no accessor of the read API can panic or loop on a document whose arena
  satisfies the link invariant `LinkWF` and whose tables satisfy `NsOk` (both hold of every
  parsed document).
-/
import Rox.Lemmas.SafeDefs
import Rox.Lemmas.Children
import Rox.Lemmas.Nav
import Rox.Lemmas.SafeNs
import Rox.Lemmas.SafeParse
import Rox.Props.C10Base

namespace Rox.Lemmas
open Rox Rox.Api Rox.Props.C06

/-- A result that is neither a panic nor out of fuel. -/
abbrev Total {α} (r : Res α) : Prop := Res.Safe r

/-! ### Table-reading accessors -/

theorem getNodeUnwrap_ok (d : Doc) (i : Nat) (hi : i < d.nodes.size) :
    getNodeUnwrap d i = .ok d.nodes[i] := by
  unfold getNodeUnwrap
  rw [Array.getElem?_eq_getElem hi]

theorem kindOf_ok (d : Doc) (i : Nat) (hi : i < d.nodes.size) :
    kindOf d i = .ok d.nodes[i].kind := by
  unfold kindOf
  rw [getNodeUnwrap_ok d i hi]
  rfl

theorem sliceIt_mem_toList (it : SliceIt) (k : Nat) (hk : k ∈ it.toList) : it.lo ≤ k ∧ k < it.hi := by
  unfold SliceIt.toList at hk
  simp only [List.mem_map, List.mem_range] at hk
  obtain ⟨x, hx, rfl⟩ := hk
  omega

theorem attributes_spec (d : Doc) (st : Nat) (hn : NsOk d st) (i : Nat) (hi : i < d.nodes.size) :
    RSpec (attributes d i) (fun it => it.lo ≤ it.hi ∧ it.hi ≤ d.attrs.size) := by
  unfold attributes
  rw [getNodeUnwrap_ok d i hi]
  simp only [Res.bind_ok]
  split
  · rename_i tn name a b nss hk
    obtain ⟨_, _, h3, h4, _⟩ :=
      hn.elem i _ tn name (a, b) nss (Array.getElem?_eq_getElem hi) hk
    simp only at h3 h4
    simp only [h3, h4, decide_true, Bool.and_self, if_true]
    exact rspec_ok _ _ ⟨h3, h4⟩
  · exact rspec_ok _ _ ⟨Nat.le_refl _, Nat.zero_le _⟩

theorem namespaces_spec (d : Doc) (st : Nat) (hn : NsOk d st) (i : Nat) (hi : i < d.nodes.size) :
    RSpec (namespaces d i) (fun it => it.lo ≤ it.hi ∧ it.hi ≤ d.ns.treeOrder.size) := by
  unfold namespaces
  rw [getNodeUnwrap_ok d i hi]
  simp only [Res.bind_ok]
  split
  · rename_i tn name attrs a b hk
    obtain ⟨h1, h2, _, _, _⟩ :=
      hn.elem i _ tn name attrs (a, b) (Array.getElem?_eq_getElem hi) hk
    simp only at h1 h2
    simp only [h1, h2, decide_true, Bool.and_self, if_true]
    exact rspec_ok _ _ ⟨h1, h2⟩
  · exact rspec_ok _ _ ⟨Nat.le_refl _, Nat.zero_le _⟩

theorem nsAt_safe (d : Doc) (st : Nat) (hn : NsOk d st) (k : Nat) (hk : k < d.ns.treeOrder.size) :
    RSpec (nsAt d k) (fun _ => True) := by
  unfold nsAt
  rw [Array.getElem?_eq_getElem hk]
  dsimp only
  have hlt : d.ns.treeOrder[k] < d.ns.values.size := hn.ns.tree_lt _ (by simp)
  rw [Array.getElem?_eq_getElem hlt]
  exact rspec_ok _ _ trivial

theorem mapMLoop_safe {α β : Type} (f : α → Res β) :
    ∀ (l : List α) (acc : List β), (∀ k ∈ l, RSpec (f k) (fun _ => True)) →
      RSpec (List.mapM.loop f l acc) (fun _ => True)
  | [], acc, _ => by
    simp only [List.mapM.loop]
    exact rspec_ok _ _ trivial
  | a :: r, acc, h => by
    simp only [List.mapM.loop]
    refine rspec_bind _ _ _ _ (h a (by simp)) ?_
    intro b _
    exact mapMLoop_safe f r (b :: acc) (fun k hk => h k (by simp [hk]))

theorem namespaceList_safe (d : Doc) (st : Nat) (hn : NsOk d st) (i : Nat) (hi : i < d.nodes.size) :
    RSpec (namespaceList d i) (fun _ => True) := by
  unfold namespaceList
  refine rspec_bind _ _ _ _ (namespaces_spec d st hn i hi) ?_
  intro it ⟨_, h2⟩
  unfold List.mapM
  apply mapMLoop_safe
  intro k hk
  have := sliceIt_mem_toList it k hk
  exact nsAt_safe d st hn k (by omega)

theorem elem_tn_lt (d : Doc) (st : Nat) (hn : NsOk d st) (i : Nat) (hi : i < d.nodes.size)
    (tn : Option Nat) (name : Span) (attrs nss : Range) (hk : d.nodes[i].kind = .element tn name attrs nss) :
    ∀ j, tn = some j → j < d.ns.values.size :=
  (hn.elem i _ tn name attrs nss (Array.getElem?_eq_getElem hi) hk).2.2.2.2

theorem tagName_safe (d : Doc) (st : Nat) (hn : NsOk d st) (i : Nat) (hi : i < d.nodes.size) :
    RSpec (tagName d i) (fun _ => True) := by
  unfold tagName
  rw [kindOf_ok d i hi]
  simp only [Res.bind_ok]
  split
  · rename_i tn name attrs nss hk
    exact expandedName_safe d tn name (elem_tn_lt d st hn i hi tn name attrs nss hk)
  · exact rspec_ok _ _ trivial

theorem hasTagName_safe (d : Doc) (st : Nat) (hn : NsOk d st) (i : Nat) (hi : i < d.nodes.size)
    (ns : Option Bytes) (name : Bytes) : RSpec (hasTagName d i ns name) (fun _ => True) := by
  unfold hasTagName
  rw [kindOf_ok d i hi]
  simp only [Res.bind_ok]
  split
  · rename_i tn nm attrs nss hk
    split
    · refine rspec_bind _ _ _ _
        (expandedName_safe d tn nm (elem_tn_lt d st hn i hi tn nm attrs nss hk)) ?_
      intro _ _
      exact rspec_ok _ _ trivial
    · exact rspec_ok _ _ trivial
  · exact rspec_ok _ _ trivial

theorem findAttr_safe (d : Doc) (st : Nat) (hn : NsOk d st) (ns : Option Bytes) (name : Bytes) :
    ∀ (l : List Nat), (∀ k ∈ l, k < d.attrs.size) →
      RSpec (findAttr d ns name l) (fun r => ∀ k, r = some k → k < d.attrs.size)
  | [], _ => by
    simp only [findAttr]
    exact rspec_ok _ _ (by intro k hk; simp at hk)
  | k :: r, h => by
    simp only [findAttr]
    refine rspec_bind _ _ _ _ (attrExpanded_safe d st hn k (h k (by simp))) ?_
    intro en _
    split
    · exact rspec_ok _ _ (by intro k' hk'; simp at hk'; subst hk'; exact h k (by simp))
    · exact findAttr_safe d st hn ns name r (fun k' hk' => h k' (by simp [hk']))

theorem attributeNode_safe (d : Doc) (st : Nat) (hn : NsOk d st) (i : Nat) (hi : i < d.nodes.size)
    (ns : Option Bytes) (name : Bytes) :
    RSpec (attributeNode d i ns name) (fun r => ∀ k, r = some k → k < d.attrs.size) := by
  unfold attributeNode
  refine rspec_bind _ _ _ _ (attributes_spec d st hn i hi) ?_
  intro it ⟨_, h2⟩
  apply findAttr_safe d st hn
  intro k hk
  have := sliceIt_mem_toList it k hk
  omega

theorem attributeValue_safe (d : Doc) (st : Nat) (hn : NsOk d st) (i : Nat) (hi : i < d.nodes.size)
    (ns : Option Bytes) (name : Bytes) : RSpec (attributeValue d i ns name) (fun _ => True) := by
  unfold attributeValue
  refine rspec_bind _ _ _ _ (attributeNode_safe d st hn i hi ns name) ?_
  intro r hr
  split
  · exact rspec_ok _ _ trivial
  · rename_i k
    have hk := hr k rfl
    unfold attrAt
    rw [Array.getElem?_eq_getElem hk]
    exact rspec_ok _ _ trivial

theorem hasAttribute_safe (d : Doc) (st : Nat) (hn : NsOk d st) (i : Nat) (hi : i < d.nodes.size)
    (ns : Option Bytes) (name : Bytes) : RSpec (hasAttribute d i ns name) (fun _ => True) := by
  unfold hasAttribute
  refine rspec_bind _ _ _ _ (attributeNode_safe d st hn i hi ns name) ?_
  intro r _
  exact rspec_ok _ _ trivial

/-- Table-reading accessors. -/
theorem api_tables_total (d : Doc) (st : Nat) (hn : NsOk d st) (i : Nat) (hi : i < d.nodes.size)
    (ns : Option Bytes) (name uri : Bytes) (pfx : Option Bytes) :
    Total (attributes d i) ∧ Total (namespaces d i) ∧ Total (namespaceList d i) ∧
    Total (tagName d i) ∧ Total (hasTagName d i ns name) ∧ Total (attributeNode d i ns name) ∧
    Total (attributeValue d i ns name) ∧ Total (hasAttribute d i ns name) ∧
    Total (defaultNamespace d i) ∧ Total (lookupPrefix d i uri) ∧ Total (lookupNamespaceUri d i pfx) := by
  refine ⟨(attributes_spec d st hn i hi).safe, (namespaces_spec d st hn i hi).safe,
    (namespaceList_safe d st hn i hi).safe, (tagName_safe d st hn i hi).safe,
    (hasTagName_safe d st hn i hi ns name).safe, (attributeNode_safe d st hn i hi ns name).safe,
    (attributeValue_safe d st hn i hi ns name).safe, (hasAttribute_safe d st hn i hi ns name).safe,
    ?_, ?_, ?_⟩
  · have : RSpec (defaultNamespace d i) (fun _ => True) := by
      unfold defaultNamespace
      refine rspec_bind _ _ _ _ (namespaceList_safe d st hn i hi) ?_
      intro _ _
      exact rspec_ok _ _ trivial
    exact this.safe
  · have : RSpec (lookupPrefix d i uri) (fun _ => True) := by
      unfold lookupPrefix
      split
      · exact rspec_ok _ _ trivial
      · refine rspec_bind _ _ _ _ (namespaceList_safe d st hn i hi) ?_
        intro _ _
        exact rspec_ok _ _ trivial
    exact this.safe
  · have : RSpec (lookupNamespaceUri d i pfx) (fun _ => True) := by
      unfold lookupNamespaceUri
      refine rspec_bind _ _ _ _ (namespaceList_safe d st hn i hi) ?_
      intro _ _
      exact rspec_ok _ _ trivial
    exact this.safe

/-! ### Link-following accessors -/

theorem apiSafe_of_linkWF (d : Doc) (hw : LinkWF d.nodes) (hs : d.nodes.size ≤ 4294967295) :
    Rox.Props.C10.ApiSafe d :=
  ⟨fun i n hn => links_in_range hw i n hn, hs⟩

theorem follow_ok (d : Doc) (link : Option Nat) (h : ∀ j, link = some j → j < d.nodes.size) :
    follow d link = .ok link := by
  unfold follow
  cases link with
  | none => rfl
  | some j => simp [h j rfl]

theorem parent_eq (d : Doc) (hw : LinkWF d.nodes) (i : Nat) (hi : i < d.nodes.size) :
    parent d i = .ok d.nodes[i].parent := by
  unfold parent
  rw [getNodeUnwrap_ok d i hi]
  simp only [Res.bind_ok]
  exact follow_ok d _ (links_in_range hw i _ (Array.getElem?_eq_getElem hi)).1

theorem prevSibling_eq (d : Doc) (hw : LinkWF d.nodes) (i : Nat) (hi : i < d.nodes.size) :
    prevSibling d i = .ok d.nodes[i].prevSibling := by
  unfold prevSibling
  rw [getNodeUnwrap_ok d i hi]
  simp only [Res.bind_ok]
  exact follow_ok d _ (links_in_range hw i _ (Array.getElem?_eq_getElem hi)).2.1

theorem lastChild_eq (d : Doc) (hw : LinkWF d.nodes) (i : Nat) (hi : i < d.nodes.size) :
    lastChild d i = .ok d.nodes[i].lastChild := by
  unfold lastChild
  rw [getNodeUnwrap_ok d i hi]
  simp only [Res.bind_ok]
  exact follow_ok d _
    (fun j hj => ((links_in_range hw i _ (Array.getElem?_eq_getElem hi)).2.2.1 j hj).1)

theorem firstChild_eq (d : Doc) (hw : LinkWF d.nodes) (hs : d.nodes.size ≤ 4294967295) (i : Nat)
    (hi : i < d.nodes.size) :
    ∃ r, firstChild d i = .ok r ∧ ∀ j, r = some j → j < d.nodes.size ∧ i < j := by
  unfold firstChild
  rw [getNodeUnwrap_ok d i hi]
  simp only [Res.bind_ok]
  cases hl : d.nodes[i].lastChild with
  | none => exact ⟨none, rfl, by intro j hj; simp at hj⟩
  | some l =>
    have h1 := ((links_in_range hw i _ (Array.getElem?_eq_getElem hi)).2.2.1 l hl).2
    have h2 : i + 1 < 4294967295 := by omega
    refine ⟨some (i + 1), by simp [nodeIdNew, h2, h1], ?_⟩
    intro j hj
    simp only [Option.some.injEq] at hj
    omega

/-- Along the axis, a measure that strictly decreases at every step. -/
def axisMeasure (d : Doc) (a : Axis) (i : Nat) : Nat :=
  match a with
  | .ancestors => i
  | .prevSiblings => i
  | .nextSiblings => d.nodes.size - 1 - i
  | .firstChildren => d.nodes.size - 1 - i
  | .lastChildren => d.nodes.size - 1 - i

theorem axisMeasure_lt_size (d : Doc) (a : Axis) (i : Nat) (hi : i < d.nodes.size) :
    axisMeasure d a i < d.nodes.size := by
  cases a <;> simp only [axisMeasure] <;> omega

/-- One step of an axis iterator from a valid node: `none` or a valid node of smaller measure. -/
theorem axisStep_spec (d : Doc) (hw : LinkWF d.nodes) (hs : d.nodes.size ≤ 4294967295) (a : Axis)
    (i : Nat) (hi : i < d.nodes.size) :
    ∃ r, a.step d i = .ok r ∧
      ∀ j, r = some j → j < d.nodes.size ∧ axisMeasure d a j < axisMeasure d a i := by
  have hn : d.nodes[i]? = some d.nodes[i] := Array.getElem?_eq_getElem hi
  obtain ⟨l1, l2, l3, l4⟩ := links_in_range hw i _ hn
  cases a with
  | ancestors =>
    refine ⟨_, parent_eq d hw i hi, ?_⟩
    intro j hj
    have hlt : j < i := hw.parentLt i j (by simp [Spec.par, hi, hj])
    simp only [axisMeasure]
    exact ⟨l1 j hj, hlt⟩
  | prevSiblings =>
    refine ⟨_, prevSibling_eq d hw i hi, ?_⟩
    intro j hj
    have hps : Spec.prevSib d.nodes i = some j := by simp [Spec.prevSib, hi, hj]
    rw [hw.prev i hi] at hps
    simp only [axisMeasure]
    refine ⟨l2 j hj, ?_⟩
    split at hps
    · simp at hps
    · unfold Spec.prevSibSpec at hps
      rw [find_rev_range_some] at hps
      exact hps.1
  | nextSiblings =>
    refine ⟨_, nextSibling_spec d hw i hi, ?_⟩
    intro j hj
    unfold nextSibSpec at hj
    rw [find_range'_some] at hj
    simp only [axisMeasure]
    omega
  | firstChildren =>
    obtain ⟨r, hr, hr'⟩ := firstChild_eq d hw hs i hi
    refine ⟨r, hr, ?_⟩
    intro j hj
    have := hr' j hj
    simp only [axisMeasure]
    omega
  | lastChildren =>
    refine ⟨_, lastChild_eq d hw i hi, ?_⟩
    intro j hj
    have hlc : Spec.lastCh d.nodes i = some j := by simp [Spec.lastCh, hi, hj]
    rw [hw.last i hi] at hlc
    unfold Spec.lastChildSpec at hlc
    rw [find_rev_range_some] at hlc
    obtain ⟨h1, h2, _⟩ := hlc
    have hlt : i < j := hw.parentLt j i (by simpa using h2)
    simp only [axisMeasure]
    omega

theorem axisList_ok (d : Doc) (hw : LinkWF d.nodes) (hs : d.nodes.size ≤ 4294967295) (a : Axis) :
    ∀ (fuel i : Nat), i < d.nodes.size → axisMeasure d a i + 1 < fuel →
      ∃ l, axisList d a fuel (some i) = .ok l ∧ ∀ j ∈ l, j < d.nodes.size := by
  intro fuel
  induction fuel with
  | zero => intro i _ h; omega
  | succ n ih =>
    intro i hi hm
    obtain ⟨r, hr, hr'⟩ := axisStep_spec d hw hs a i hi
    simp only [axisList, hr, Res.bind_ok]
    cases r with
    | none =>
      obtain ⟨m, rfl⟩ : ∃ m, n = m + 1 := ⟨n - 1, by omega⟩
      refine ⟨[i], by simp [axisList], ?_⟩
      intro j hj
      simp only [List.mem_singleton] at hj
      omega
    | some j =>
      obtain ⟨hj, hlt⟩ := hr' j rfl
      obtain ⟨l, hl, hl'⟩ := ih j hj (by omega)
      refine ⟨i :: l, by simp [hl], ?_⟩
      intro k hk
      simp only [List.mem_cons] at hk
      rcases hk with rfl | hk
      · exact hi
      · exact hl' k hk

theorem axisList_fuelN_ok (d : Doc) (hw : LinkWF d.nodes) (hs : d.nodes.size ≤ 4294967295) (a : Axis)
    (i : Nat) (hi : i < d.nodes.size) :
    ∃ l, axisList d a (fuelN d) (some i) = .ok l ∧ ∀ j ∈ l, j < d.nodes.size := by
  apply axisList_ok d hw hs a (fuelN d) i hi
  have := axisMeasure_lt_size d a i hi
  unfold fuelN
  omega

theorem axisElement_safe (d : Doc) (hw : LinkWF d.nodes) (hs : d.nodes.size ≤ 4294967295) (a : Axis)
    (i : Nat) (hi : i < d.nodes.size) : RSpec (axisElement d a i) (fun _ => True) := by
  obtain ⟨l, hl, hl'⟩ := axisList_fuelN_ok d hw hs a i hi
  unfold axisElement
  simp only [hl, Res.bind_ok]
  apply findElement_safe
  intro j hj
  exact hl' j (List.mem_of_mem_drop hj)

theorem descendants_ok (d : Doc) (hw : LinkWF d.nodes) (i : Nat) (hi : i < d.nodes.size) :
    ∃ it, descendants d i = .ok it ∧ it.lo = i ∧ i < it.hi ∧ it.hi ≤ d.nodes.size := by
  unfold descendants
  rw [getNodeUnwrap_ok d i hi]
  simp only [Res.bind_ok]
  cases hx : d.nodes[i].nextSubtree with
  | none =>
    have h1 : i ≤ d.nodes.size := by omega
    refine ⟨⟨i, d.nodes.size⟩, by simp [h1], rfl, hi, Nat.le_refl _⟩
  | some j =>
    have hns : Spec.nextSub d.nodes i = some j := by simp [Spec.nextSub, hi, hx]
    rw [hw.next i hi] at hns
    unfold Spec.nextSubtreeSpec at hns
    rw [find_range'_some] at hns
    have h1 : i ≤ j := by omega
    have h2 : j ≤ d.nodes.size := by omega
    refine ⟨⟨i, j⟩, by simp [h1, h2], rfl, by show i < j; omega, h2⟩

theorem textStorage_safe (d : Doc) (hw : LinkWF d.nodes) (hs : d.nodes.size ≤ 4294967295) (i : Nat)
    (hi : i < d.nodes.size) : RSpec (textStorage d i) (fun _ => True) := by
  unfold textStorage
  rw [kindOf_ok d i hi]
  simp only [Res.bind_ok]
  split
  · obtain ⟨r, hr, hr'⟩ := firstChild_eq d hw hs i hi
    simp only [hr, Res.bind_ok]
    split
    · rename_i c
      rw [kindOf_ok d c (hr' c rfl).1]
      simp only [Res.bind_ok]
      split <;> exact rspec_ok _ _ trivial
    · exact rspec_ok _ _ trivial
  · exact rspec_ok _ _ trivial
  · exact rspec_ok _ _ trivial
  · exact rspec_ok _ _ trivial

theorem nextSibling_lt (d : Doc) (i j : Nat) (h : nextSibSpec d.nodes i = some j) :
    j < d.nodes.size := by
  unfold nextSibSpec at h
  rw [find_range'_some] at h
  omega

theorem tailStorage_safe (d : Doc) (hw : LinkWF d.nodes) (i : Nat)
    (hi : i < d.nodes.size) : RSpec (tailStorage d i) (fun _ => True) := by
  unfold tailStorage
  rw [kindOf_ok d i hi]
  simp only [Res.bind_ok]
  split
  · exact rspec_ok _ _ trivial
  · rw [nextSibling_spec d hw i hi]
    simp only [Res.bind_ok]
    split
    · rename_i j hj
      rw [kindOf_ok d j (nextSibling_lt d i j hj)]
      simp only [Res.bind_ok]
      split <;> exact rspec_ok _ _ trivial
    · exact rspec_ok _ _ trivial

/-- `children().rev()` yields the remaining child list backwards. -/
theorem childrenRevList_safe (d : Doc) (h : LinkWF d.nodes) (p : Nat) :
    ∀ (fuel : Nat) (it : ChildrenIt), Reach d.nodes p it → (absIt d.nodes p it).length < fuel →
      childrenRevList d fuel it = .ok (absIt d.nodes p it).reverse := by
  intro fuel
  induction fuel with
  | zero => intro it _ hl; omega
  | succ n ih =>
    intro it hr hl
    obtain ⟨it', hn, hr', habs⟩ := children_nextBack d h p it hr
    simp only [childrenRevList, hn, Res.bind_ok]
    cases hk : (absIt d.nodes p it).getLast? with
    | none =>
      rw [List.getLast?_eq_none_iff] at hk
      simp [hk]
    | some x =>
      obtain ⟨ys, hys⟩ := List.getLast?_eq_some_iff.mp hk
      have hdl : (absIt d.nodes p it).dropLast = ys := by rw [hys]; simp
      have hlen : (absIt d.nodes p it').length < n := by
        rw [habs, hdl]
        rw [hys] at hl
        simp only [List.length_append, List.length_cons, List.length_nil] at hl
        omega
      simp only []
      rw [ih it' hr' hlen, habs, hdl, hys]
      simp

theorem children_all (d : Doc) (hw : LinkWF d.nodes) (hs : d.nodes.size ≤ 4294967295) (i : Nat)
    (hi : i < d.nodes.size) :
    ∃ it l, children d i = .ok it ∧ childrenList d (fuelN d) it = .ok l ∧
      childrenRevList d (fuelN d) it = .ok l.reverse ∧ ∀ j ∈ l, j < d.nodes.size := by
  obtain ⟨it, hc, hr, habs⟩ := children_init d hw hs i hi
  have hlen : (absIt d.nodes i it).length < fuelN d := by
    rw [habs]
    have := kidsIn_length d.nodes i 0 (d.nodes.size - 1)
    unfold fuelN; omega
  refine ⟨it, absIt d.nodes i it, hc, childrenList_safe d hw i _ it hr hlen,
    childrenRevList_safe d hw i _ it hr hlen, ?_⟩
  intro j hj
  rw [habs] at hj
  have := kidsIn_lt _ _ _ _ j hj
  omega

/-- Link-following accessors and the iterators built on them (the axis iterators visit at most
`nodes.size` nodes, so the model's fuel `nodes.size + 1` is never exhausted). -/
theorem api_links_total (d : Doc) (hw : LinkWF d.nodes) (hs : d.nodes.size ≤ 4294967295) (i : Nat)
    (hi : i < d.nodes.size) (a : Axis) :
    Total (textStorage d i) ∧ Total (tailStorage d i) ∧ Total (descendants d i) ∧
    Total (axisList d a (fuelN d) (some i)) ∧ Total (axisElement d a i) ∧
    Total (firstElementChild d i) ∧ Total (lastElementChild d i) ∧
    (∃ it, children d i = .ok it ∧ Total (childrenList d (fuelN d) it) ∧
      Total (childrenRevList d (fuelN d) it)) := by
  obtain ⟨it, l, hc, hl, hrl, hlt⟩ := children_all d hw hs i hi
  refine ⟨(textStorage_safe d hw hs i hi).safe, (tailStorage_safe d hw i hi).safe, ?_, ?_,
    (axisElement_safe d hw hs a i hi).safe, ?_, ?_, ⟨it, hc, ?_, ?_⟩⟩
  · obtain ⟨s, h, _⟩ := descendants_ok d hw i hi
    rw [h]; trivial
  · obtain ⟨l', h, _⟩ := axisList_fuelN_ok d hw hs a i hi
    rw [h]; trivial
  · have : RSpec (firstElementChild d i) (fun _ => True) := by
      unfold firstElementChild
      simp only [hc, hl, Res.bind_ok]
      exact findElement_safe d l hlt
    exact this.safe
  · have : RSpec (lastElementChild d i) (fun _ => True) := by
      unfold lastElementChild
      simp only [hc, hrl, Res.bind_ok]
      exact findElement_safe d _ (fun j hj => hlt j (by simpa using hj))
    exact this.safe
  · rw [hl]; trivial
  · rw [hrl]; trivial

end Rox.Lemmas
