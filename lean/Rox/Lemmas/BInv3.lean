/-
  Rox.Lemmas.BInv3 — the builder invariant through `append_node` (leaf / empty element / open
  element), through a close tag, and through in-place rewrites that keep the links.
-/
import Rox.Lemmas.BInv2

namespace Rox.Lemmas
open Rox Rox.Spec

theorem ext_of_appendNode (c c' : Ctx) (k : Kind) (r : Range) (id : Nat) (hb : BInv c)
    (h : c.appendNode k r = .ok (c', id)) :
    Ext c.doc.nodes c'.doc.nodes c.parentId c.awaiting k ∧ id = c.doc.nodes.size ∧
    c'.parentId = c.parentId ∧ c'.awaiting = (if k.isElement then [] else [c.doc.nodes.size]) := by
  obtain ⟨h1, h2, h3, h4, h5, h6, _⟩ := appendNode_spec c c' k r id hb.pid_lt hb.awaiting_lt h
  obtain ⟨p, hp, hn⟩ := h4
  exact ⟨⟨h2, h3, p, _, hp, hn⟩, h1, h6, h5⟩

/-- After a node has been appended under `pid` (which stays the current parent), the finished
part of the right spine is exactly the new node. -/
theorem binv_after_append_same_parent {c c' : Ctx} {k : Kind} (hb : BInv c)
    (e : Ext c.doc.nodes c'.doc.nodes c.parentId c.awaiting k) (hk : k.isRoot = false)
    (hp : c'.parentId = c.parentId) (ha : c'.awaiting = [c.doc.nodes.size]) : BInv c' := by
  have hwf' := hb.wf.ext e hb.pid_lt hb.pid_kind hb.pid_spine hb.awaiting hk
  have hPL := hb.wf.parentLt
  have hsz := e.size
  have hlast : c'.doc.nodes.size - 1 = c.doc.nodes.size := by omega
  refine ⟨hwf', by rw [hp, hsz]; have := hb.pid_lt; omega, ?_, ?_, ?_⟩
  · rw [hp, e.kind_old _ hb.pid_lt]; exact hb.pid_kind
  · rw [hp, hlast, e.anc_new hPL hb.pid_lt]; exact Or.inr (anc_refl _ _)
  · intro x
    rw [ha, hp]
    simp only [List.mem_singleton]
    constructor
    · rintro rfl
      refine ⟨by omega, ?_, ?_⟩
      · rw [spine_iff hwf' _ (by omega), hlast]; exact anc_refl _ _
      · intro hanc
        have := anc_le _ (e.parentLt hPL hb.pid_lt) _ _ hanc
        have := hb.pid_lt; omega
    · rintro ⟨hx, hs, hn⟩
      rw [spine_iff hwf' x hx, hlast, e.anc_new hPL hb.pid_lt] at hs
      rcases hs with hs | hs
      · exact hs
      · exact absurd ((e.anc_old hPL x c.parentId hb.pid_lt).mpr hs) hn

/-- After an element has been appended and made the current parent, nothing is awaiting. -/
theorem binv_after_append_open {c c' : Ctx} {k : Kind} (hb : BInv c)
    (e : Ext c.doc.nodes c'.doc.nodes c.parentId c.awaiting k) (hk : k.isElement = true)
    (hp : c'.parentId = c.doc.nodes.size) (ha : c'.awaiting = []) : BInv c' := by
  have hkr : k.isRoot = false := by cases k <;> simp_all [Kind.isElement, Kind.isRoot]
  have hwf' := hb.wf.ext e hb.pid_lt hb.pid_kind hb.pid_spine hb.awaiting hkr
  have hPL := hb.wf.parentLt
  have hsz := e.size
  have hlast : c'.doc.nodes.size - 1 = c.doc.nodes.size := by omega
  refine ⟨hwf', by rw [hp, hsz]; omega, ?_, ?_, ?_⟩
  · rw [hp, e.kind_new]; simp [canHaveChildren, hk]
  · rw [hp, hlast]; exact anc_refl _ _
  · intro x
    rw [ha, hp]
    simp only [List.not_mem_nil, false_iff, not_and]
    intro hx hs hn
    rw [spine_iff hwf' x hx, hlast] at hs
    exact hn hs

/-- A close tag: the current parent becomes finished, its parent becomes current. -/
theorem binv_close {c c' : Ctx} (hb : BInv c) (q : Nat)
    (hn : c'.doc.nodes = c.doc.nodes) (hq : par c.doc.nodes c.parentId = some q)
    (hp : c'.parentId = q) (ha : c'.awaiting = c.awaiting ++ [c.parentId]) : BInv c' := by
  have hPL := hb.wf.parentLt
  have hqlt : q < c.parentId := hPL _ _ hq
  have hpos : 0 < c.parentId := by omega
  obtain ⟨q', hq', _, hqk⟩ := hb.wf.parent_lt c.parentId hpos hb.pid_lt
  rw [hq] at hq'; simp at hq'; subst hq'
  have hstep : ∀ x, Anc c.doc.nodes x c.parentId ↔ x = c.parentId ∨ Anc c.doc.nodes x q :=
    fun x => anc_step _ hPL x _ _ hq
  refine ⟨by rw [hn]; exact hb.wf, by rw [hn, hp]; have := hb.pid_lt; omega, by rw [hn, hp]; exact hqk, ?_, ?_⟩
  · rw [hn, hp]
    exact anc_trans _ hPL _ _ _ ((hstep q).mpr (Or.inr (anc_refl _ _))) hb.pid_spine
  · intro x
    rw [ha, hn, hp, List.mem_append, List.mem_singleton, hb.awaiting]
    constructor
    · rintro (⟨h1, h2, h3⟩ | rfl)
      · exact ⟨h1, h2, fun h => h3 ((hstep x).mpr (Or.inr h))⟩
      · refine ⟨hb.pid_lt, (spine_iff hb.wf _ hb.pid_lt).mpr hb.pid_spine, ?_⟩
        intro h
        have := anc_le _ hPL _ _ h
        omega
    · rintro ⟨h1, h2, h3⟩
      by_cases hx : x = c.parentId
      · exact Or.inr hx
      · refine Or.inl ⟨h1, h2, fun h => ?_⟩
        rcases (hstep x).mp h with h | h
        · exact hx h
        · exact h3 h

/-- Rewriting a node in place without touching links or kind class keeps the invariant. -/
theorem binv_sameLinks {c c' : Ctx} (hb : BInv c) (s : SameLinks c.doc.nodes c'.doc.nodes)
    (hp : c'.parentId = c.parentId) (ha : c'.awaiting = c.awaiting) : BInv c' := by
  have hspec : ∀ x, nextSubtreeSpec c'.doc.nodes x = nextSubtreeSpec c.doc.nodes x := by
    intro x
    unfold nextSubtreeSpec; rw [s.size]; apply find?_congr'; intro j _
    unfold isAncOrSelf; rw [s.chain]
  refine ⟨s.linkWF hb.wf, by rw [hp, s.size]; exact hb.pid_lt, by rw [hp, s.kkids]; exact hb.pid_kind,
    by rw [hp, s.size, s.anc]; exact hb.pid_spine, ?_⟩
  intro x
  rw [ha, hp, s.size, hspec, s.anc]
  exact hb.awaiting x

end Rox.Lemmas
