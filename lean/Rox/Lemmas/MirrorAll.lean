/-
  Rox.Lemmas.MirrorAll — for EVERY input that `parse` accepts without a DOCTYPE, the tree is exactly
  the tree of the abstract document the input is the concrete syntax of (`Rox.Spec.Mirror`).
-/
import Rox.Spec.Mirror
import Rox.Lemmas.GrammarSound
import Rox.Lemmas.MirrorTok
import Rox.Lemmas.MirrorBuild4
import Rox.Lemmas.MirrorAsm

namespace Rox.Lemmas
open Rox Rox.Spec.Grammar Rox.Spec.Canon4 Rox.Spec.Mirror

/-- **The tree mirrors the document, for every accepted input** (every valid UTF-8 input,
`allow_dtd = false`, every node limit, with or without positions): if `parse` returns a tree, the
input is the concrete syntax of a well-formed abstract document `x` (`Rox.Spec.Grammar`), and the
arena read back in id order is the root node followed by exactly the nodes of `docTree x` in
document order: elements, comments and processing instructions with the same nesting and order,
local names, comment bodies, PI targets and values as written, every maximal run of character data
and CDATA sections one text node holding its XML-defined decoding (`decodeText`, `lineEnds`),
attributes in source order without the namespace declarations with values normalised
(`decodeAttr`). -/
theorem accepted_tree_mirrors (T : Tables) (hT : TablesOK T) (hG : TablesGrammar T) (txt : Bytes)
    (hv : ValidUtf8 txt) (opt : Opt) (hdtd : opt.allowDtd = false) (d : Doc)
    (h : parse T txt opt = .ok d) :
    ∃ x : GDoc, GDocWf T x ∧ DocNormal T x ∧ RDoc T x txt ∧
      d.nodes.toList.map (viewM d) = (none, YKind.root) :: expectAllY 0 1 (docTree x) := by
  unfold parse at h
  rw [Res.bind_eq_ok] at h
  obtain ⟨c, hc, hd⟩ := h
  simp only [Res.pure_eq, Res.ok.injEq] at hd
  subst hd
  -- the tokenizer succeeded
  have htok : ∃ toks, tokenize T txt false = (toks, .ok ()) := by
    have hc' := hc
    unfold parseCtx at hc'
    rw [Res.bind_eq_ok] at hc'
    obtain ⟨c0, _, hc'⟩ := hc'
    rw [hdtd] at hc'
    dsimp only at hc'
    rw [Res.bind_eq_ok] at hc'
    obtain ⟨c1, hrun, _⟩ := hc'
    obtain ⟨⟨u, hu⟩, _⟩ := runTokens_feed _ _ _ _ _ hrun
    cases u
    exact ⟨(tokenize T txt false).1, Prod.ext rfl hu⟩
  obtain ⟨toks, htoks⟩ := htok
  -- Stage A'
  obtain ⟨bom, decl, pre, root, post, htxt, hbom, hdecl, hpre, hpost, hroot, hlex, hpin, hit⟩ :=
    tokenize_itemsM T hT hG txt hv toks htoks
  have hit' : ItemsToksM (pre ++ root ++ post) (tokenize T txt false).1 := by rw [htoks]; exact hit
  -- Stage B (what the builder checked)
  obtain ⟨hrun, hsem, hstag⟩ := parseCtx_items T hT txt hv opt hdtd c hc _ hit'.toItemsToks hlex
  -- Stage C'
  obtain ⟨x, hwf, hnorm, hrdoc, hpend, hout⟩ :=
    assembleM T bom decl pre root post hbom hdecl hpre hpost hroot hlex hsem hpin hrun hstag
  -- Stage B' (what the builder built)
  have hview := parseCtx_itemsM T hT txt hv opt hdtd c hc _ hit' hlex hpend
  refine ⟨x, hwf, hnorm, ?_, ?_⟩
  · rw [htxt]; exact hrdoc
  · rw [hview, hout]

end Rox.Lemmas
