/-
  Rox.Lemmas.RoundTrip — parse ∘ render: for every abstract document of the class
  `Rox.Spec.Canon.ok`, parsing its canonical rendering succeeds and the tree is the document.
-/
import Rox.Lemmas.RtTok
import Rox.Lemmas.RtBuild

namespace Rox.Lemmas
open Rox Rox.Spec.Canon

/-- **Round trip** (every abstract document whose root is an element, any shape, depth and width;
both values of `allow_dtd`, with or without `positions`, any node limit that admits the
document): the parse of the canonical rendering succeeds, and the arena read back in id order is
the root followed by the document's nodes in document order — each with its parent's id, its
name, its attribute list (names and values in source order, no namespace), its comment body or
its text. -/
theorem parse_render (T : Tables) (hT : TablesOK T) (hC : TablesCanon T)
    (n : Bytes) (as : List (Bytes × Bytes)) (ks : List XNode)
    (hx : ok (.elem n as ks) = true) (opt : Opt)
    (hlim : count (.elem n as ks) + 1 ≤ opt.nodesLimit) (hl32 : opt.nodesLimit ≤ 4294967295)
    (hattrs : attrCount (.elem n as ks) < 4294967295) :
    ∃ d, parse T (render (.elem n as ks)) opt = .ok d ∧
      d.nodes.toList.map (view d) =
        some (none, XKind.root) :: (expect 0 1 (.elem n as ks)).map some :=
  parse_of_toks T (render (.elem n as ks)) opt n as ks hx
    (tokenize_render T hT hC n as ks hx opt.allowDtd) hlim hl32 hattrs

end Rox.Lemmas
