/-
  Rox.Lemmas.StreamCalc — invariants of the tokenizer's cursor: it always denotes a slice of the
  input that is valid UTF-8 and ends on a character boundary; every primitive moves it forward by
  whole characters.
-/
import Rox.Lemmas.Utf8
import Rox.Lemmas.TMLogic
import Rox.Props.C14Base

namespace Rox.Lemmas
open Rox

/-- Any suffix of a valid string that starts at a non-continuation byte is valid. -/
theorem valid_drop_boundary : ∀ (n : Nat) (l : Bytes) (k : Nat), l.length ≤ n → ValidUtf8 l →
    (∀ b r, l.drop k = b :: r → isCont b = false) → ValidUtf8 (l.drop k) := by
  intro n
  induction n with
  | zero =>
    intro l k hl hv _
    have : l = [] := List.eq_nil_of_length_eq_zero (by omega)
    subst this; simpa using hv
  | succ n ih =>
    intro l k hl hv hb
    cases k with
    | zero => simpa using hv
    | succ k =>
      cases l with
      | nil => simpa using hv
      | cons b r =>
        obtain ⟨c, w, hdec, _, hrest⟩ := (valid_cons b r).mp hv
        have hw := decodeChar_width _ _ _ hdec
        simp only [List.length_cons] at hw hl
        by_cases hkw : k + 1 < w
        · exfalso
          obtain ⟨b', r', hdr, hc⟩ := decodeChar_cont _ c w (k + 1) hdec (by omega) hkw
          have := hb b' r' hdr
          rw [hc] at this; simp at this
        · have hlen : ((b :: r).drop w).length ≤ n := by simp only [List.length_drop, List.length_cons]; omega
          have heq : (b :: r).drop (k + 1) = ((b :: r).drop w).drop (k + 1 - w) := by
            rw [List.drop_drop]; congr 1; omega
          rw [heq]
          apply ih _ _ hlen hrest
          intro b' r' h'
          rw [← heq] at h'
          exact hb b' r' h'

/-- A valid prefix can be removed from a valid string. -/
theorem valid_of_append (a b : Bytes) (hab : ValidUtf8 (a ++ b)) (ha : ValidUtf8 a) : ValidUtf8 b := by
  have : b = (a ++ b).drop a.length := by simp
  rw [this]
  apply valid_drop_boundary (a ++ b).length _ _ (Nat.le_refl _) hab
  intro x r hx
  simp at hx
  -- b = x :: r; if x were a continuation byte, `a ++ [x]`-prefix argument: use validity of the split
  -- via `valid_prefix`: a valid and a ++ b valid imply b starts a character
  subst hx
  cases hcx : isCont x with
  | false => rfl
  | true =>
  exfalso
  have hc' : isCont x = true := hcx
  -- decode a ++ (x :: r) char by char along `a`
  have key : ∀ (n : Nat) (a : Bytes), a.length ≤ n → ValidUtf8 a → ValidUtf8 (a ++ x :: r) → False := by
    intro n
    induction n with
    | zero =>
      intro a hl _ hv
      have : a = [] := List.eq_nil_of_length_eq_zero (by omega)
      subst this
      have := valid_head x r (by simpa using hv)
      rw [hc'] at this; simp at this
    | succ n ih =>
      intro a hl hva hv
      cases a with
      | nil =>
        have := valid_head x r (by simpa using hv)
        rw [hc'] at this; simp at this
      | cons a0 ar =>
        obtain ⟨c, w, hdec, _, hrest⟩ := (valid_cons a0 ar).mp hva
        have hw := decodeChar_width _ _ _ hdec
        simp only [List.length_cons] at hw hl
        have hdec' := decodeChar_take (a0 :: ar) (((a0 :: ar).drop w) ++ x :: r) c w hdec
        have hsplit : (a0 :: ar).take w ++ ((a0 :: ar).drop w ++ x :: r) = (a0 :: ar) ++ x :: r := by
          rw [← List.append_assoc, List.take_append_drop]
        rw [hsplit] at hdec'
        rw [List.cons_append] at hv hdec'
        obtain ⟨c2, w2, hdec2, _, hrest2⟩ := (valid_cons a0 (ar ++ x :: r)).mp hv
        rw [hdec'] at hdec2
        simp at hdec2
        obtain ⟨_, rfl⟩ := hdec2
        have hdrop : (a0 :: (ar ++ x :: r)).drop w = (a0 :: ar).drop w ++ x :: r := by
          rw [← List.cons_append, List.drop_append_of_le_length (by simp; omega)]
        rw [hdrop] at hrest2
        exact ih ((a0 :: ar).drop w) (by simp only [List.length_drop, List.length_cons]; omega) hrest hrest2
  exact key a.length a (Nat.le_refl _) ha hab

theorem valid_all_ascii (l : Bytes) (h : ∀ b ∈ l, b < 128) : ValidUtf8 l := by
  induction l with
  | nil => exact valid_nil
  | cons b r ih =>
    rw [valid_cons]
    have hb := h b (by simp)
    refine ⟨b.toNat, 1, decodeChar_ascii b r hb, ?_, ?_⟩
    · have : b.toNat < 128 := by simpa [UInt8.lt_iff_toNat_lt] using hb
      simp [charOk, isScalar]; omega
    · simpa using ih (fun x hx => h x (by simp [hx]))

/-- `s'` is `s` after consuming `k` bytes. -/
def Adv (s s' : Stream) : Prop :=
  ∃ k, k ≤ s.rest.length ∧ s'.pos = s.pos + k ∧ s'.rest = s.rest.drop k

theorem Adv.refl (s : Stream) : Adv s s := ⟨0, by omega, rfl, rfl⟩

theorem Adv.trans {a b c : Stream} (h1 : Adv a b) (h2 : Adv b c) : Adv a c := by
  obtain ⟨k1, l1, p1, r1⟩ := h1
  obtain ⟨k2, l2, p2, r2⟩ := h2
  rw [r1, List.length_drop] at l2
  exact ⟨k1 + k2, by omega, by rw [p2, p1]; omega, by rw [r2, r1, List.drop_drop]⟩

theorem Adv.pos_le {a b : Stream} (h : Adv a b) : a.pos ≤ b.pos := by
  obtain ⟨k, _, p, _⟩ := h; omega

theorem Adv.len {a b : Stream} (h : Adv a b) : b.pos + b.rest.length = a.pos + a.rest.length := by
  obtain ⟨k, l, p, r⟩ := h
  rw [p, r, List.length_drop]; omega

/-- The cursor denotes a slice of the input: its bytes are the input's bytes at its position, it
is valid UTF-8 (so it starts on a character boundary) and it ends on a character boundary. -/
structure SOk (txt : Bytes) (s : Stream) : Prop where
  slice : s.rest = sliceBytes txt s.pos (s.pos + s.rest.length)
  bound : s.pos + s.rest.length ≤ txt.length
  utf8 : ValidUtf8 s.rest
  endb : isCharBoundary txt (s.pos + s.rest.length) = true

theorem sliceBytes_drop (txt : Bytes) (a b k : Nat) (hk : a + k ≤ b) :
    (sliceBytes txt a b).drop k = sliceBytes txt (a + k) b := by
  unfold sliceBytes
  rw [List.drop_take, List.drop_drop]
  congr 1
  omega

theorem SOk.adv {txt : Bytes} {s s' : Stream} (h : SOk txt s) (ha : Adv s s') (hv : ValidUtf8 s'.rest) :
    SOk txt s' := by
  have hl := ha.len
  obtain ⟨k, l, p, r⟩ := ha
  refine ⟨?_, by rw [hl]; exact h.bound, hv, by rw [hl]; exact h.endb⟩
  rw [hl, r, p]
  conv => lhs; rw [h.slice]
  exact sliceBytes_drop txt s.pos _ k (by omega)

/-- The position of a well-formed cursor is a character boundary of the input, inside it: the
position-reporting functions cannot panic there. -/
theorem SOk.pos_boundary {txt : Bytes} {s : Stream} (h : SOk txt s) :
    s.pos ≤ txt.length ∧ isCharBoundary txt s.pos = true := by
  refine ⟨by have := h.bound; omega, ?_⟩
  cases hr : s.rest with
  | nil =>
    have := h.endb
    rw [hr] at this
    simpa using this
  | cons b r =>
    have hv := valid_head b r (by rw [← hr]; exact h.utf8)
    unfold isCharBoundary
    by_cases h0 : s.pos = 0
    · simp [h0]
    · have hsl := h.slice
      rw [hr] at hsl
      unfold sliceBytes at hsl
      have : txt.drop s.pos ≠ [] := by
        intro he; rw [he] at hsl; simp at hsl
      cases hd : txt.drop s.pos with
      | nil => exact absurd hd this
      | cons b' r' =>
        rw [hd] at hsl
        simp only [List.length_cons] at hsl
        have : (s.pos + (r.length + 1) - s.pos) = r.length + 1 := by omega
        rw [this, List.take_succ_cons] at hsl
        simp at hsl
        simp [h0, hsl.1 ▸ hv]

theorem errAt_safe {α} {txt : Bytes} {s : Stream} (h : SOk txt s) (mk : TextPos → Err) (Q : α → Prop) :
    RSpec (errAt txt mk s.pos : Res α) Q := by
  obtain ⟨h1, h2⟩ := h.pos_boundary
  unfold errAt genTextPos
  simp only [h1, h2, decide_true, Bool.and_self, if_true]
  exact rspec_err _ _

theorem errFrom_safe {α} (txt : Bytes) (mk : TextPos → Err) (p : Nat) (Q : α → Prop) :
    RSpec (errFrom txt mk p : Res α) Q := by
  rw [Rox.Props.C14.errFrom_pos]
  exact rspec_err _ _

end Rox.Lemmas
