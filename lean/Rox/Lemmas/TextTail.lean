/-
  Rox.Lemmas.TextTail — C11: `text`, `tail` and `root_element` are determined by the adjacent nodes
  as documented.
-/
import Rox.Lemmas.AxisSpec
import Rox.Lemmas.SingleRoot
import Rox.Lemmas.BInv4
import Rox.Lemmas.Size

namespace Rox.Lemmas
open Rox Rox.Api Rox.Spec

def kindAt (a : Arena) (i : Nat) : Option Kind := (a[i]?).map (·.kind)

/-- `text()`: of an element, the text of its first child if that is a text node; of a comment or
text node, its own string; otherwise none. -/
def textSpec (a : Arena) (i : Nat) : Option Str :=
  match kindAt a i with
  | some (.element ..) =>
    if (lastChildSpec a i).isSome then
      match kindAt a (i + 1) with
      | some (.text s) => some s
      | _ => none
    else none
  | some (.comment s) => some s
  | some (.text s) => some s
  | _ => none

/-- `tail()`: of an element, the text of its next sibling if that is a text node. -/
def tailSpec (a : Arena) (i : Nat) : Option Str :=
  match kindAt a i with
  | some (.element ..) =>
    match nextSibSpec a i with
    | some j =>
      match kindAt a j with
      | some (.text s) => some s
      | _ => none
    | none => none
  | _ => none

theorem kindAt_lt (a : Arena) (i : Nat) (hi : i < a.size) : kindAt a i = some a[i].kind := by
  simp [kindAt, hi]

theorem text_tail_is_spec (d : Doc) (hw : LinkWF d.nodes) (hs : d.nodes.size ≤ 4294967295) (i : Nat)
    (hi : i < d.nodes.size) :
    textStorage d i = .ok (textSpec d.nodes i) ∧ tailStorage d i = .ok (tailSpec d.nodes i) := by
  constructor
  · unfold textStorage textSpec
    rw [kindOf_ok d i hi, kindAt_lt _ i hi]
    simp only [Res.bind_ok]
    cases hk : d.nodes[i].kind with
    | element a b c e =>
      simp only []
      obtain ⟨r, hr, hr'⟩ := firstChild_eq d hw hs i hi
      rw [firstChild_is_spec d hw hs i hi] at hr ⊢
      cases hr
      simp only [Res.bind_ok]
      cases hl : (lastChildSpec d.nodes i).isSome with
      | false => simp
      | true =>
        have h1 : i + 1 < d.nodes.size := (hr' (i + 1) (by simp [hl])).1
        simp only [if_true]
        rw [kindOf_ok d _ h1, kindAt_lt _ _ h1]
        simp only [Res.bind_ok]
        cases d.nodes[i + 1].kind <;> rfl
    | root => rfl
    | pi _ _ => rfl
    | comment _ => rfl
    | text _ => rfl
  · unfold tailStorage tailSpec
    rw [kindOf_ok d i hi, kindAt_lt _ i hi]
    simp only [Res.bind_ok]
    cases hk : d.nodes[i].kind with
    | element a b c e =>
      simp only [Kind.isElement]
      obtain ⟨r, hr, hr'⟩ := axisStep_spec d hw hs .nextSiblings i hi
      have hns := nextSibling_spec d hw i hi
      change nextSibling d i = _ at hr
      rw [hns] at hr
      cases hr
      rw [hns]
      simp only [Res.bind_ok]
      cases hn : nextSibSpec d.nodes i with
      | none => rfl
      | some j =>
        have h1 : j < d.nodes.size := (hr' j hn).1
        simp only []
        rw [kindOf_ok d _ h1, kindAt_lt _ _ h1]
        simp only [Res.bind_ok]
        cases d.nodes[j].kind <;> rfl
    | root => rfl
    | pi _ _ => rfl
    | comment _ => rfl
    | text _ => rfl

theorem filter_length_one {α} (l : List α) (p : α → Bool) (h : (l.filter p).length = 1) :
    ∃ e, l.find? p = some e ∧ e ∈ l ∧ p e = true ∧ ∀ j ∈ l, p j = true → j = e := by
  obtain ⟨e, he⟩ := List.length_eq_one_iff.mp h
  have hmem : ∀ j, j ∈ l.filter p ↔ j = e := by intro j; rw [he]; simp
  have hee := (hmem e).mpr rfl
  rw [List.mem_filter] at hee
  refine ⟨e, ?_, hee.1, hee.2, ?_⟩
  · rw [← List.head?_filter, he]; rfl
  · intro j hj hp
    exact (hmem j).mp (List.mem_filter.mpr ⟨hj, hp⟩)

theorem kidsIn_root_eq (a : Arena) (h0 : 0 < a.size) : kidsIn a 0 0 (a.size - 1) = rootKids a := by
  unfold kidsIn rootKids
  have : a.size - 1 + 1 - 0 = a.size := by omega
  rw [this, List.range_eq_range']

/-- `root_element()` of a parsed document never fails its `expect` and is the element child of the
root node. -/
theorem rootElement_is_spec (T : Tables) (txt : Bytes) (opt : Opt) (d : Doc)
    (hlim : opt.nodesLimit ≤ 4294967295) (h : parse T txt opt = .ok d) :
    ∃ e, rootElement d = .ok e ∧ e < d.nodes.size ∧ par d.nodes e = some 0 ∧
      kindIs d.nodes e Kind.isElement = true ∧
      ∀ j, j < d.nodes.size → par d.nodes j = some 0 → kindIs d.nodes j Kind.isElement = true → j = e := by
  have hw := parse_linkWF T txt opt d h
  have hs : d.nodes.size ≤ 4294967295 := Nat.le_trans (parse_size_le_limit T txt opt d h) hlim
  have h0 : 0 < d.nodes.size := hw.nonempty
  obtain ⟨_, _, _, _, hfe, _⟩ := children_is_spec d hw hs 0 h0
  rw [kidsIn_root_eq _ h0] at hfe
  have hsr := parse_singleRoot T txt opt d h
  rw [singleRootB_eq] at hsr
  simp only [Bool.and_eq_true, beq_iff_eq] at hsr
  obtain ⟨e, hf, hmem, hel, huniq⟩ := filter_length_one (rootKids d.nodes)
    (fun j => kindIs d.nodes j Kind.isElement) hsr.1
  have hmem' := hmem
  unfold rootKids at hmem'
  rw [List.mem_filter, List.mem_range] at hmem'
  refine ⟨e, ?_, hmem'.1, by simpa using hmem'.2, hel, ?_⟩
  · unfold rootElement
    rw [hfe, hf]
    rfl
  · intro j hj hp hk
    apply huniq j _ hk
    unfold rootKids
    rw [List.mem_filter, List.mem_range]
    exact ⟨hj, by simp [hp]⟩

end Rox.Lemmas
