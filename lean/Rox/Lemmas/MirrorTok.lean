/-
  Rox.Lemmas.MirrorTok — Stage A' of the proof of `accepted_tree_mirrors`: Stage A of the
  grammar-soundness proof (`Rox.Lemmas.GrammarTok`) once more, with what is needed about processing
  instructions in addition: the value of a PI item does not begin with white space (`Item.PiN`), and
  the PI token carries exactly that value, `none` when it is empty (`PiTok`, `ItemsToksM`).
-/
import Rox.Lemmas.MirrorDefs
import Rox.Lemmas.GrammarTok

namespace Rox.Lemmas
open Rox Rox.Spec.Grammar Rox.TM

/-- **Stage A'** -/
theorem tokenize_itemsM (T : Tables) (hT : TablesOK T) (hG : TablesGrammar T) (txt : Bytes)
    (hv : ValidUtf8 txt) (toks : List Token) (h : tokenize T txt false = (toks, .ok ())) :
    ∃ (bom decl : Bytes) (pre root post : List Item),
      txt = bom ++ decl ++ flat pre ++ flat root ++ flat post ∧
      (bom = [] ∨ bom = Lit.bom) ∧ (decl = [] ∨ XmlDecl T decl) ∧
      (∀ it ∈ pre, it.isMiscI = true) ∧ (∀ it ∈ post, it.isMiscI = true) ∧ RootShape root ∧
      (∀ it ∈ pre ++ root ++ post, it.Lex T) ∧ (∀ it ∈ pre ++ root ++ post, it.PiN T) ∧
      ItemsToksM (pre ++ root ++ post) toks := by
  sorry

end Rox.Lemmas
