/-
  Rox.Lemmas.MirrorTok — Stage A' of the proof of `accepted_tree_mirrors`: Stage A of the
  grammar-soundness proof (`Rox.Lemmas.GrammarTok`) once more, with what is needed about processing
  instructions in addition: the value of a PI item does not begin with white space (`Item.PiN`), and
  the PI token carries exactly that value, `none` when it is empty (`PiTok`, `ItemsToksM`).
-/
import Rox.Lemmas.MirrorDefs
import Rox.Lemmas.GrammarTok

namespace Rox.Lemmas
open Rox Rox.Spec.Grammar Rox.TM

/-! ### Processing instructions -/

theorem mt_skipSpacesAux_ns (T : Tables) : ∀ (l : Bytes) (pos : Nat),
    (Stream.skipSpacesAux T pos l).startsWithSpace T = false := by
  intro l
  induction l with
  | nil => intro pos; rfl
  | cons b r ih =>
    intro pos
    simp only [Stream.skipSpacesAux]
    split
    · exact ih (pos + 1)
    · rename_i hb
      simpa [Stream.startsWithSpace] using hb

/-- after the local `consume_spaces` of `parse_pi` the next byte is not white space -/
theorem mt_declConsumeSpaces_ns (T : Tables) (txt : Bytes) {s s' : Stream}
    (h : declConsumeSpaces T txt s = .ok s') : s'.startsWithSpace T = false := by
  unfold declConsumeSpaces at h
  split at h
  · simp only [Res.ok.injEq] at h
    subst h
    exact mt_skipSpacesAux_ns T s.rest s.pos
  · rename_i hsp
    split at h
    · split at h
      · exact absurd h (errAt_ne_ok _ _ _ _)
      · simp at h
    · simp only [Res.ok.injEq] at h
      subst h
      simpa using hsp

/-- the first byte of a run taken from a cursor is the cursor's first byte -/
theorem mt_took_head {s s' : Stream} {b : UInt8} {v : Bytes} (h : Took s s' (b :: v)) :
    ∃ r, s.rest = b :: r := by
  have h4 := h.2.2.2
  cases hr : s.rest with
  | nil => rw [hr] at h4; simp at h4
  | cons c r =>
    rw [hr] at h4
    simp only [List.length_cons, List.take_succ_cons, List.cons.injEq] at h4
    exact ⟨r, by rw [h4.1]⟩

theorem parsePi_itemM (T : Tables) (hT : TablesOK T) (_hG : TablesGrammar T) (txt : Bytes)
    {s s' : Stream} {toks : List Token} (hs : SOk txt s)
    (hp : s.startsWith Lit.piStart = true) (h : parsePi T txt s = (toks, .ok s')) :
    ∃ t sp v, (Took s s' (Item.pi t sp v).bytes ∧ SOk txt s' ∧ (Item.pi t sp v).Lex T ∧
      ItemToks (.pi t sp v) toks) ∧ (Item.pi t sp v).PiN T ∧ PiTok (.pi t sp v) toks := by
  unfold parsePi at h
  split at h
  · exact absurd h (tm_lift_ne_ok (errAt_ne_ok _ _ _))
  obtain ⟨s1, h1, h⟩ := tm_lift_bind_ok h
  obtain ⟨⟨s2, target⟩, h2, h⟩ := tm_lift_bind_ok h
  obtain ⟨s3, h3, h⟩ := tm_lift_bind_ok h
  obtain ⟨⟨s4, content⟩, h4, h⟩ := tm_lift_bind_ok h
  obtain ⟨s5, h5, h⟩ := tm_lift_bind_ok h
  have k1 := (advance_lit hs Lit.piStart hp (lit_valid _ (by decide))).post _ h1
  have t1 := advance_took Lit.piStart hp h1
  obtain ⟨k2, _, _, t2, _⟩ := (consumeName_spec T txt k1.1.2).post _ h2
  simp only at k2 t2
  have k3 := (declConsumeSpaces_spec T hT txt k2.2).post _ h3
  obtain ⟨sp, t3, hsp, hsp0⟩ := declConsumeSpaces_took T txt h3
  have hns := mt_declConsumeSpaces_ns T txt h3
  obtain ⟨k4, _, _, t4⟩ := (consumeChars_spec T txt _ k3.2).post _ h4
  simp only at k4 t4 h5 h
  have k5 := (skipString_spec k4.2 Lit.piEnd (lit_valid _ (by decide))).post _ h5
  have t5 := skipString_took Lit.piEnd h5
  obtain ⟨t, h, htoks⟩ := tm_emit_bind_ok h
  obtain ⟨ht, hs'⟩ := tm_pure_ok h
  subst ht; subst hs'; subst htoks
  refine ⟨target.bytes, sp, content.bytes,
    ⟨Took.trans (Took.trans (Took.trans (Took.trans t1 t2) t3) t4) t5,
    k5.1.2, ⟨consumeName_name T txt k1.1.2 h2, hsp, ?_, consumeChars_chars T txt _ k3.2 h4, ?_⟩,
    ItemToks.pi _ _ _ target _ _ rfl⟩, ?_, ?_⟩
  · intro hv hsp'
    apply hv
    apply consumeChars_nil_of_stop T txt _ h4
    rcases hsp0 hsp' with h0 | h0
    · exact Or.inl h0
    · right
      obtain ⟨r, hr⟩ := List.isPrefixOf_iff_prefix.mp h0
      have hr' : s3.rest = 63 :: 62 :: r := hr.symm
      refine ⟨63, 1, ?_, ?_⟩
      · rw [hr']; exact decodeChar_ascii 63 _ (by decide)
      · simp [h0]
  · exact consumeChars_noSub T txt 63 63 [62] rfl (by decide) k3.2 h4
  · cases hc : content.bytes with
    | nil => trivial
    | cons b v =>
      rw [hc] at t4
      obtain ⟨r, hr⟩ := mt_took_head t4
      show byteIsSpace T b = false
      simpa [Stream.startsWithSpace, hr] using hns
  · refine ⟨target, _, _, rfl, ?_⟩
    cases hc : content.bytes.isEmpty <;> simp

/-! ### Segments -/

theorem mt_itemsToksM_append {a b : List Item} {ta tb : List Token} (ha : ItemsToksM a ta)
    (hb : ItemsToksM b tb) : ItemsToksM (a ++ b) (ta ++ tb) := by
  induction ha with
  | nil => simpa using hb
  | cons it its ts tss h1 h2 _ ih =>
    rw [List.cons_append, List.append_assoc]
    exact .cons _ _ _ _ h1 h2 ih

theorem mt_all_append {P : Item → Prop} {a b : List Item} (ha : ∀ it ∈ a, P it)
    (hb : ∀ it ∈ b, P it) : ∀ it ∈ a ++ b, P it := by
  intro x hx
  rcases List.mem_append.mp hx with hx | hx
  · exact ha x hx
  · exact hb x hx

theorem mt_all_cons {P : Item → Prop} {a : Item} {b : List Item} (ha : P a)
    (hb : ∀ it ∈ b, P it) : ∀ it ∈ a :: b, P it := by
  intro x hx
  rcases List.mem_cons.mp hx with rfl | hx
  · exact ha
  · exact hb x hx

/-- a stretch of the input cut into items -/
def mt_Seg (T : Tables) (txt : Bytes) (s s' : Stream) (items : List Item) (toks : List Token) : Prop :=
  Took s s' (flat items) ∧ SOk txt s' ∧ (∀ it ∈ items, it.Lex T) ∧ (∀ it ∈ items, it.PiN T) ∧
    ItemsToksM items toks

theorem mt_Seg.nil {T : Tables} {txt : Bytes} {s : Stream} (hs : SOk txt s) : mt_Seg T txt s s [] [] :=
  ⟨Took.nil s, hs, (by simp), (by simp), .nil⟩

theorem mt_Seg.cons {T : Tables} {txt : Bytes} {s s1 s2 : Stream} {it : Item} {items : List Item}
    {t1 t2 : List Token}
    (h1 : Took s s1 it.bytes ∧ SOk txt s1 ∧ it.Lex T ∧ ItemToks it t1)
    (hn : it.PiN T) (hp : PiTok it t1)
    (h2 : mt_Seg T txt s1 s2 items t2) : mt_Seg T txt s s2 (it :: items) (t1 ++ t2) := by
  obtain ⟨a1, _, a3, a4⟩ := h1
  obtain ⟨b1, b2, b3, b4, b5⟩ := h2
  exact ⟨a1.trans b1, b2, mt_all_cons a3 b3, mt_all_cons hn b4, .cons _ _ _ _ a4 hp b5⟩

theorem mt_Seg.trans {T : Tables} {txt : Bytes} {s s1 s2 : Stream} {a b : List Item}
    {ta tb : List Token} (h1 : mt_Seg T txt s s1 a ta) (h2 : mt_Seg T txt s1 s2 b tb) :
    mt_Seg T txt s s2 (a ++ b) (ta ++ tb) := by
  obtain ⟨a1, _, a3, a4, a5⟩ := h1
  obtain ⟨b1, b2, b3, b4, b5⟩ := h2
  exact ⟨by rw [gt_flat_append]; exact a1.trans b1, b2, mt_all_append a3 b3, mt_all_append a4 b4,
    mt_itemsToksM_append a5 b5⟩

section
variable (T : Tables) (hT : TablesOK T) (hG : TablesGrammar T) (txt : Bytes)
include hT

/-- `skip_spaces` outside the root element: at most one white-space item -/
theorem mt_skipSpaces_seg {s : Stream} (hs : SOk txt s) :
    ∃ items, (∀ it ∈ items, it.isMiscI = true) ∧ mt_Seg T txt s (s.skipSpaces T) items [] := by
  obtain ⟨w, hw, hsp, _⟩ := skipSpaces_took T s
  have h1 := skipSpaces_step T hT hs
  by_cases h : w = []
  · subst h
    exact ⟨[], (by simp), hw, h1.2, (by simp), (by simp), .nil⟩
  · refine ⟨[.sp w], ?_, ?_, h1.2, ?_, ?_, ?_⟩
    · intro it hit
      rcases List.mem_singleton.mp hit with rfl
      rfl
    · simpa [flat, Item.bytes] using hw
    · intro it hit
      rcases List.mem_singleton.mp hit with rfl
      exact ⟨h, hsp⟩
    · intro it hit
      rcases List.mem_singleton.mp hit with rfl
      trivial
    · exact ItemsToksM.cons _ _ _ _ (.sp w) trivial .nil

include hG

theorem mt_parseMisc_items : ∀ (fuel : Nat) (s s' : Stream) (toks : List Token), SOk txt s →
    parseMisc T txt fuel s = (toks, .ok s') →
    ∃ items, (∀ it ∈ items, it.isMiscI = true) ∧ mt_Seg T txt s s' items toks := by
  intro fuel
  induction fuel with
  | zero =>
    intro s s' toks hs h
    unfold parseMisc at h
    exact absurd h gt_fuel_ne_ok
  | succ n ih =>
    intro s s' toks hs h
    unfold parseMisc at h
    split at h
    · obtain ⟨rfl, rfl⟩ := tm_pure_ok h
      exact ⟨[], (by simp), mt_Seg.nil hs⟩
    · simp only at h
      obtain ⟨sps, hm, hseg⟩ := mt_skipSpaces_seg T hT txt hs
      split at h
      · rename_i hc
        obtain ⟨t1, s2, t2, hx, hk, rfl⟩ := tm_bind_ok h
        obtain ⟨b, hb⟩ := parseComment_item T hT hG txt hseg.2.1 hc hx
        obtain ⟨items, him, hiseg⟩ := ih s2 s' t2 hb.2.1 hk
        refine ⟨sps ++ (.comment b :: items), gt_misc_append hm ?_, ?_⟩
        · intro x hx
          rcases List.mem_cons.mp hx with rfl | hx
          · rfl
          · exact him x hx
        · exact hseg.trans (mt_Seg.cons hb trivial trivial hiseg)
      · split at h
        · rename_i hc
          obtain ⟨t1, s2, t2, hx, hk, rfl⟩ := tm_bind_ok h
          obtain ⟨t, sp, v, hb, hpn, hpt⟩ := parsePi_itemM T hT hG txt hseg.2.1 hc hx
          obtain ⟨items, him, hiseg⟩ := ih s2 s' t2 hb.2.1 hk
          refine ⟨sps ++ (.pi t sp v :: items), gt_misc_append hm ?_, ?_⟩
          · intro x hx
            rcases List.mem_cons.mp hx with rfl | hx
            · rfl
            · exact him x hx
          · exact hseg.trans (mt_Seg.cons hb hpn hpt hiseg)
        · obtain ⟨rfl, rfl⟩ := tm_pure_ok h
          refine ⟨sps, hm, ?_⟩
          simpa using hseg

theorem mt_parseContent_items : ∀ (fuel depth : Nat) (s s' : Stream) (toks : List Token), SOk txt s →
    parseContent T txt fuel depth s = (toks, .ok s') →
    ∃ items, Content depth items ∧ mt_Seg T txt s s' items toks ∧
      (∀ t r, items = .text t :: r → ∃ b rest, s.rest = b :: rest ∧ b ≠ bLt) := by
  intro fuel
  induction fuel with
  | zero =>
    intro depth s s' toks hs h
    unfold parseContent at h
    exact absurd h gt_fuel_ne_ok
  | succ n ih =>
    intro depth s s' toks hs h
    unfold parseContent at h
    split at h
    · obtain ⟨rfl, rfl⟩ := tm_pure_ok h
      exact ⟨[], .eof _, mt_Seg.nil hs, by intro t r h; cases h⟩
    · rename_i c r hr
      split at h
      · rename_i hc
        have hcl : c = bLt := by simpa using hc
        subst hcl
        split at h
        · rename_i nb hnb
          obtain ⟨r', hr'⟩ := gt_nextByte hr hnb
          split at h
          · split at h
            · rename_i hcs
              obtain ⟨t1, s2, t2, hx, hk, rfl⟩ := tm_bind_ok h
              obtain ⟨b, hb⟩ := parseComment_item T hT hG txt hs hcs hx
              obtain ⟨items, hcn, hseg, _⟩ := ih depth s2 s' t2 hb.2.1 hk
              exact ⟨.comment b :: items, .leaf _ _ _ rfl hcn, mt_Seg.cons hb trivial trivial hseg,
                by intro t r h; cases h⟩
            · split at h
              · rename_i hcs
                obtain ⟨t1, s2, t2, hx, hk, rfl⟩ := tm_bind_ok h
                obtain ⟨b, hb⟩ := parseCdata_item T hT hG txt hs hcs hx
                obtain ⟨items, hcn, hseg, _⟩ := ih depth s2 s' t2 hb.2.1 hk
                exact ⟨.cdata b :: items, .leaf _ _ _ rfl hcn, mt_Seg.cons hb trivial trivial hseg,
                  by intro t r h; cases h⟩
              · exact absurd h (tm_lift_ne_ok (errAt_ne_ok _ _ _))
          · split at h
            · rename_i _ hq
              have : nb = bQuest := by simpa using hq
              subst this
              have hsw : s.startsWith Lit.piStart = true := by
                simp [Stream.startsWith, hr', Lit.piStart, bLt, bQuest]
              obtain ⟨t1, s2, t2, hx, hk, rfl⟩ := tm_bind_ok h
              obtain ⟨t, sp, v, hb, hpn, hpt⟩ := parsePi_itemM T hT hG txt hs hsw hx
              obtain ⟨items, hcn, hseg, _⟩ := ih depth s2 s' t2 hb.2.1 hk
              exact ⟨.pi t sp v :: items, .leaf _ _ _ rfl hcn, mt_Seg.cons hb hpn hpt hseg,
                by intro t r h; cases h⟩
            · split at h
              · rename_i _ _ hsl
                have : nb = bSlash := by simpa using hsl
                subst this
                obtain ⟨t1, s2, t2, hx, hk, rfl⟩ := tm_bind_ok h
                obtain ⟨q, s2', hb⟩ := parseCloseElement_item T hT hG txt hs ⟨r', hr'⟩ hx
                cases depth with
                | zero =>
                  simp only [beq_self_eq_true, if_true] at hk
                  obtain ⟨rfl, rfl⟩ := tm_pure_ok hk
                  exact ⟨[.etag q s2'], .last _ _, mt_Seg.cons hb trivial trivial (mt_Seg.nil hb.2.1),
                    by intro t r h; cases h⟩
                | succ d =>
                  have hd : (d + 1 == 0) = false := by simp
                  simp only [hd, Bool.false_eq_true, if_false, Nat.add_sub_cancel] at hk
                  obtain ⟨items, hcn, hseg, _⟩ := ih d s2 s' t2 hb.2.1 hk
                  exact ⟨.etag q s2' :: items, .close _ _ _ _ hcn, mt_Seg.cons hb trivial trivial hseg,
                    by intro t r h; cases h⟩
              · obtain ⟨t1, ⟨s2, opened⟩, t2, hx, hk, rfl⟩ := tm_bind_ok h
                obtain ⟨q, attrs, s1, hb⟩ := parseStartTag_item T hT hG txt hs ⟨r, hr⟩ hx
                simp only at hk
                cases opened with
                | true =>
                  simp only [if_true] at hk
                  obtain ⟨items, hcn, hseg, _⟩ := ih (depth + 1) s2 s' t2 hb.2.1 hk
                  exact ⟨.stag q attrs s1 false :: items, .open _ _ _ _ _ hcn, mt_Seg.cons hb trivial trivial hseg,
                    by intro t r h; cases h⟩
                | false =>
                  simp only [Bool.false_eq_true, if_false] at hk
                  obtain ⟨items, hcn, hseg, _⟩ := ih depth s2 s' t2 hb.2.1 hk
                  exact ⟨.stag q attrs s1 true :: items, .empty _ _ _ _ _ hcn, mt_Seg.cons hb trivial trivial hseg,
                    by intro t r h; cases h⟩
        · exact absurd h (tm_lift_ne_ok (errAt_ne_ok _ _ _))
      · rename_i hc
        have hne : c ≠ bLt := by simpa using hc
        obtain ⟨t1, s2, t2, hx, hk, rfl⟩ := tm_bind_ok h
        obtain ⟨t, hb1, hb2, hb3, hb4, hstop⟩ := parseText_item T hT hG txt hs ⟨c, r, hr, hne⟩ hx
        obtain ⟨items, hcn, hseg, htx⟩ := ih depth s2 s' t2 hb2 hk
        refine ⟨.text t :: items, .text _ _ _ ?_ hcn, mt_Seg.cons ⟨hb1, hb2, hb3, hb4⟩ trivial trivial hseg,
          fun _ _ _ => ⟨c, r, hr, hne⟩⟩
        intro t' r' he
        obtain ⟨b, rest, hbr, hbne⟩ := htx t' r' he
        rcases hstop with h0 | ⟨r0, h0⟩
        · rw [h0] at hbr; cases hbr
        · rw [h0] at hbr
          injection hbr with e1 _
          exact hbne e1.symm

theorem mt_parseElement_items {s s' : Stream} {toks : List Token} (hs : SOk txt s)
    (hp : ∃ r, s.rest = bLt :: r) (h : parseElement T txt s = (toks, .ok s')) :
    ∃ root, RootShape root ∧ mt_Seg T txt s s' root toks := by
  unfold parseElement at h
  obtain ⟨t1, ⟨s2, opened⟩, t2, hx, hk, rfl⟩ := tm_bind_ok h
  obtain ⟨q, attrs, s1, hb⟩ := parseStartTag_item T hT hG txt hs hp hx
  simp only at hk
  cases opened with
  | true =>
    simp only [if_true] at hk
    obtain ⟨items, hcn, hseg, _⟩ := mt_parseContent_items T hT hG txt _ 0 s2 s' t2 hb.2.1 hk
    exact ⟨.stag q attrs s1 false :: items, .inr (.inr ⟨q, attrs, s1, items, rfl, hcn⟩),
      mt_Seg.cons hb trivial trivial hseg⟩
  | false =>
    simp only [Bool.false_eq_true, if_false] at hk
    obtain ⟨rfl, rfl⟩ := tm_pure_ok hk
    exact ⟨[.stag q attrs s1 true], .inr (.inl ⟨q, attrs, s1, rfl⟩),
      mt_Seg.cons hb trivial trivial (mt_Seg.nil hb.2.1)⟩

theorem mt_parseProlog_items (hv : ValidUtf8 txt) {s' : Stream} {toks : List Token}
    (h : parseProlog T txt = (toks, .ok s')) :
    ∃ (bom decl : Bytes) (pre : List Item), (bom = [] ∨ bom = Lit.bom) ∧ (decl = [] ∨ XmlDecl T decl) ∧
      (∀ it ∈ pre, it.isMiscI = true) ∧ txt = bom ++ decl ++ flat pre ++ s'.rest ∧ SOk txt s' ∧
      (∀ it ∈ pre, it.Lex T) ∧ (∀ it ∈ pre, it.PiN T) ∧ ItemsToksM pre toks := by
  unfold parseProlog at h
  have hs0 := sok_new txt hv
  simp only at h
  obtain ⟨s1, h1, h⟩ := tm_lift_bind_ok h
  obtain ⟨s2, h2, h⟩ := tm_lift_bind_ok h
  obtain ⟨t1, s3, t2, h3, hk, rfl⟩ := tm_bind_ok h
  obtain ⟨rfl, rfl⟩ := tm_pure_ok hk
  -- BOM
  have hbom : ∃ bom, (bom = [] ∨ bom = Lit.bom) ∧ Took (Stream.new txt) s1 bom ∧ SOk txt s1 := by
    split at h1
    · rename_i hb
      have hvb : ValidUtf8 Lit.bom := by unfold ValidUtf8; decide
      exact ⟨Lit.bom, .inr rfl, advance_took Lit.bom hb h1,
        ((advance_lit hs0 Lit.bom hb hvb).post _ h1).1.2⟩
    · injection h1 with h1
      subst h1
      exact ⟨[], .inl rfl, Took.nil _, hs0⟩
  obtain ⟨bom, hbom, htb, hs1⟩ := hbom
  -- declaration
  have hdecl : ∃ decl, (decl = [] ∨ XmlDecl T decl) ∧ Took s1 s2 decl ∧ SOk txt s2 := by
    split at h2
    · rename_i hd
      obtain ⟨decl, hd1, hd2, hd3⟩ := parseDeclaration_decl T hT hG txt hs1 hd h2
      exact ⟨decl, .inr hd3, hd1, hd2⟩
    · injection h2 with h2
      subst h2
      exact ⟨[], .inl rfl, Took.nil _, hs1⟩
  obtain ⟨decl, hdecl, htd, hs2⟩ := hdecl
  obtain ⟨m, hm, hmseg⟩ := mt_parseMisc_items T hT hG txt _ s2 s3 t1 hs2 h3
  obtain ⟨sps, hsm, hsseg⟩ := mt_skipSpaces_seg T hT txt hmseg.2.1
  have hall := hmseg.trans hsseg
  refine ⟨bom, decl, m ++ sps, hbom, hdecl, gt_misc_append hm hsm, ?_, hall.2.1, hall.2.2.1,
    hall.2.2.2.1, ?_⟩
  · have := ((htb.trans htd).trans hall.1).eq
    simpa [Stream.new] using this
  · simpa using hall.2.2.2.2

theorem mt_parseBody_items {s : Stream} {toks : List Token} (hs : SOk txt s)
    (h : parseBody T txt s = (toks, .ok ())) :
    ∃ (sps root post : List Item), (∀ it ∈ sps, it.isMiscI = true) ∧
      (∀ it ∈ post, it.isMiscI = true) ∧ RootShape root ∧
      s.rest = flat sps ++ flat root ++ flat post ∧ (∀ it ∈ sps ++ root ++ post, it.Lex T) ∧
      (∀ it ∈ sps ++ root ++ post, it.PiN T) ∧ ItemsToksM (sps ++ root ++ post) toks := by
  unfold parseBody at h
  simp only at h
  obtain ⟨sps, hsm, hsseg⟩ := mt_skipSpaces_seg T hT txt hs
  obtain ⟨t1, s2, t2, h2, hk, rfl⟩ := tm_bind_ok h
  obtain ⟨t3, s3, t4, h3, hk2, rfl⟩ := tm_bind_ok hk
  have hroot : ∃ root, RootShape root ∧ mt_Seg T txt (s.skipSpaces T) s2 root t1 := by
    unfold parseRootElement at h2
    split at h2
    · rename_i hc
      cases hr : (s.skipSpaces T).rest with
      | nil => simp [Stream.currByte?, hr] at hc
      | cons b r =>
        have : b = bLt := by simpa [Stream.currByte?, hr] using hc
        subst this
        exact mt_parseElement_items T hT hG txt hsseg.2.1 ⟨r, hr⟩ h2
    · obtain ⟨rfl, rfl⟩ := tm_pure_ok h2
      exact ⟨[], .inl rfl, mt_Seg.nil hsseg.2.1⟩
  obtain ⟨root, hrs, hrseg⟩ := hroot
  obtain ⟨post, hpm, hpseg⟩ := mt_parseMisc_items T hT hG txt _ s2 s3 t3 hrseg.2.1 h3
  split at hk2
  · exact absurd hk2 (tm_lift_ne_ok (errAt_ne_ok _ _ _))
  · rename_i he
    obtain ⟨rfl, _⟩ := tm_pure_ok hk2
    have hend : s3.rest = [] := by simpa [Stream.atEnd] using he
    have hall := (hsseg.trans hrseg).trans hpseg
    refine ⟨sps, root, post, hsm, hpm, hrs, ?_, hall.2.2.1, hall.2.2.2.1, ?_⟩
    · have := hall.1.eq
      rw [hend] at this
      simpa [gt_flat_append] using this
    · simpa using hall.2.2.2.2

end

/-- **Stage A'** -/
theorem tokenize_itemsM (T : Tables) (hT : TablesOK T) (hG : TablesGrammar T) (txt : Bytes)
    (hv : ValidUtf8 txt) (toks : List Token) (h : tokenize T txt false = (toks, .ok ())) :
    ∃ (bom decl : Bytes) (pre root post : List Item),
      txt = bom ++ decl ++ flat pre ++ flat root ++ flat post ∧
      (bom = [] ∨ bom = Lit.bom) ∧ (decl = [] ∨ XmlDecl T decl) ∧
      (∀ it ∈ pre, it.isMiscI = true) ∧ (∀ it ∈ post, it.isMiscI = true) ∧ RootShape root ∧
      (∀ it ∈ pre ++ root ++ post, it.Lex T) ∧ (∀ it ∈ pre ++ root ++ post, it.PiN T) ∧
      ItemsToksM (pre ++ root ++ post) toks := by
  unfold tokenize parseDocument at h
  obtain ⟨t1, s1, t2, h1, hk, rfl⟩ := tm_bind_ok h
  obtain ⟨bom, decl, pre, hbom, hdecl, hpm, htxt, hs1, hplex, hppn, hptk⟩ :=
    mt_parseProlog_items T hT hG txt hv h1
  have hbody : parseBody T txt s1 = (t2, .ok ()) := by
    split at hk
    · simp only [Bool.not_false, if_true] at hk
      exact absurd hk (tm_lift_ne_ok (by intro a h; cases h))
    · exact hk
  obtain ⟨sps, root, post, hsm, hpostm, hrs, hrest, hlex, hpn, htk⟩ :=
    mt_parseBody_items T hT hG txt hs1 hbody
  refine ⟨bom, decl, pre ++ sps, root, post, ?_, hbom, hdecl, gt_misc_append hpm hsm, hpostm, hrs,
    ?_, ?_, ?_⟩
  · rw [htxt, hrest]
    simp [gt_flat_append]
  · have := mt_all_append hplex hlex
    simpa [List.append_assoc] using this
  · have := mt_all_append hppn hpn
    simpa [List.append_assoc] using this
  · have := mt_itemsToksM_append hptk htk
    simpa using this

end Rox.Lemmas
