/-
  Rox.Lemmas.CompleteBuildDefs — Stage B⁻¹ of the completeness proof, definitions: the invariant
  `CInv` that relates a builder context (between two items) to the stack `SStk` of open elements
  with their abstract in-scope bindings (`Rox.Spec.MirrorNs.scopeOf`).

  The namespace part is stated at the level of LOOKUPS: the range of `tree_order` an element node
  carries and the abstract scope answer every prefix query alike (`ScopeRel`).
-/
import Rox.Lemmas.CompleteDefs
import Rox.Lemmas.GrammarBuild
import Rox.Lemmas.SafeParse
import Rox.Lemmas.NsScope

namespace Rox.Lemmas.CB
open Rox Rox.Spec Rox.Spec.Grammar Rox.Spec.Mirror Rox.Spec.MirrorNs Rox.Spec.Complete Rox.Props.C06
  Rox.Lemmas.GB

/-- the (prefix, namespace name) pair behind an index into `values` -/
def nsPair (d : Doc) (i : Nat) : Option (Option Bytes × Bytes) :=
  (d.ns.values[i]?).map fun v => (v.nameBytes, v.uri.bytes)

/-- the bindings a list of indices into `values` denotes -/
def scopeList (d : Doc) (l : List Nat) : Scope := l.filterMap (nsPair d)

/-- the range `r` of `tree_order` and the abstract scope `sc` answer every prefix query alike -/
def ScopeRel (d : Doc) (r : Range) (sc : Scope) : Prop :=
  r.1 ≤ r.2 ∧ r.2 ≤ d.ns.treeOrder.size ∧
    ∀ p : Option Bytes, lookup (scopeList d (rangeList d.ns r)) p = lookup sc p

/-- walking up from `pid`: one element per entry, whose namespace range denotes that scope; then
the root node -/
def NChain (d : Doc) : List Scope → Nat → Prop
  | [], pid => ∃ nd, d.nodes[pid]? = some nd ∧ nd.kind = .root
  | sc :: rest, pid => ∃ nd ns tn as nss q, d.nodes[pid]? = some nd ∧
      nd.kind = .element ns tn as nss ∧ ScopeRel d nss sc ∧ nd.parent = some q ∧ NChain d rest q

/-- the root node has an element child -/
def HasRootEl (d : Doc) : Prop :=
  ∃ (j : Nat) (nj : NodeData), d.nodes[j]? = some nj ∧ nj.parent = some 0 ∧ nj.kind.isElement = true

/-- the builder context `c`, between two items, with the open elements `st` -/
structure CInv (txt : Bytes) (st : SStk) (c : Ctx) : Prop where
  binv : BInv c
  ainv : AInv txt c
  ginv : GInv (st.map (·.1)) c
  ld0 : c.ld.depth = 0
  nchain : NChain c.doc (st.map (·.2)) c.parentId
  /-- entry 0 of the table is the implicit `xml` binding -/
  xml0 : ∃ v, c.doc.ns.values[0]? = some v ∧ v.uri.bytes = nsXmlUri
  /-- inside an element a start tag has been seen -/
  tag : st ≠ [] → c.tagName.name ≠ []

end Rox.Lemmas.CB
