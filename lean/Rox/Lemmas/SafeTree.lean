/-
  Rox.Lemmas.SafeTree — `append_node`, `append_text`, `merge_text`, `reset_after_text` never
  panic under the builder invariants, and keep them.
-/
import Rox.Lemmas.SafeDefs

namespace Rox.Lemmas
open Rox Rox.Props.C06

/-- What no tree-building function touches. -/
def Keep (c c' : Ctx) : Prop :=
  c'.ld.depth = c.ld.depth ∧ c'.tagName = c.tagName

theorem Keep.refl (c : Ctx) : Keep c c := ⟨rfl, rfl⟩
theorem Keep.trans {a b c : Ctx} (h1 : Keep a b) (h2 : Keep b c) : Keep a c :=
  ⟨h2.1.trans h1.1, h2.2.trans h1.2⟩

theorem setNextSubtree_safe (new : Nat) : ∀ (l : List Nat) (nodes : Array NodeData),
    (∀ x ∈ l, x < nodes.size) → RSpec (Ctx.setNextSubtree nodes new l) (fun _ => True) := by
  intro l
  induction l with
  | nil => intro nodes _; exact rspec_ok _ _ trivial
  | cons x xs ih =>
    intro nodes h
    simp only [Ctx.setNextSubtree]
    have hx : x < nodes.size := h x (by simp)
    have : nodes[x]? = some nodes[x] := by simp [hx]
    rw [this]
    simp only
    apply ih
    intro y hy
    simp only [Array.size_setIfInBounds]
    exact h y (by simp [hy])

/-- `append_node` cannot panic; it rewrites the arena and `awaiting_subtree` only. -/
theorem appendNode_safe (c : Ctx) (k : Kind) (r : Range) (hb : BInv c) (hl : c.nodesLimit ≤ 4294967295) :
    RSpec (c.appendNode k r)
      (fun p => p.1 = { c with doc := { c.doc with nodes := p.1.doc.nodes }, awaiting := p.1.awaiting }) := by
  unfold Ctx.appendNode
  split
  · exact rspec_err _ _
  · rename_i hlt
    have hid : Api.nodeIdNew c.doc.nodes.size = .ok c.doc.nodes.size := by
      unfold Api.nodeIdNew
      have : c.doc.nodes.size < 4294967295 := by omega
      simp [this]
    rw [hid]
    simp only [Res.bind_ok]
    have hpid := hb.pid_lt
    have hne : c.parentId ≠ c.doc.nodes.size := by omega
    have h1 : (c.doc.nodes.push (NodeData.mk (some c.parentId) none none none k (if c.positions then r else (0, 0))))[c.parentId]? = some c.doc.nodes[c.parentId] := by
      rw [Array.getElem?_push]; simp [hne, hpid]
    rw [h1]
    simp only
    have h3 : (c.doc.nodes.push (NodeData.mk (some c.parentId) none none none k (if c.positions then r else (0, 0))))[c.doc.nodes.size]? =
          some (NodeData.mk (some c.parentId) none none none k (if c.positions then r else (0, 0))) := by
      rw [Array.getElem?_push]; simp
    rw [h3]
    simp only
    have h2 : ∀ (n : NodeData), ((c.doc.nodes.push (NodeData.mk (some c.parentId) none none none k (if c.positions then r else (0, 0)))).setIfInBounds c.doc.nodes.size n)[c.parentId]? =
          some c.doc.nodes[c.parentId] := by
      intro n
      rw [Array.getElem?_setIfInBounds]
      simp only [hne.symm, if_false]
      exact h1
    rw [h2]
    simp only
    apply rspec_bind _ _ (fun _ => True)
    · apply setNextSubtree_safe
      intro x hx
      have := hb.awaiting_lt x hx
      simp only [Array.size_setIfInBounds, Array.size_push]
      omega
    · intro nodes _
      exact rspec_ok _ _ rfl

/-- what a new element node must satisfy -/
def KindOk (d : Doc) (k : Kind) : Prop :=
  ∀ tn name attrs nss, k = .element tn name attrs nss →
    nss.1 ≤ nss.2 ∧ nss.2 ≤ d.ns.treeOrder.size ∧ attrs.1 ≤ attrs.2 ∧ attrs.2 ≤ d.attrs.size ∧
    (∀ j, tn = some j → j < d.ns.values.size)

/-- `append_node` keeps the invariants (the new node must be a text node if a text run is open). -/
theorem appendNode_ainv {txt : Bytes} {c c' : Ctx} {k : Kind} {r : Range} {id : Nat} (hb : BInv c)
    (ha : AInv txt c) (hkt : c.afterText ≠ [] → ∃ s, k = .text s) (hke : KindOk c.doc k)
    (h : c.appendNode k r = .ok (c', id)) : AInv txt c' ∧ Keep c c' := by
  have hfr := (appendNode_safe c k r hb ha.lim).post _ h
  obtain ⟨_, hsz, hold, ⟨p, hp, hnew⟩, _⟩ := appendNode_spec c c' k r id hb.pid_lt hb.awaiting_lt h
  simp only at hfr
  have hns : c'.doc.ns = c.doc.ns := by rw [hfr]
  have hat : c'.doc.attrs = c.doc.attrs := by rw [hfr]
  refine ⟨⟨by rw [hfr]; exact ha.lim, ?_, ?_, by rw [hfr]; exact ha.ents, by rw [hfr]; exact ha.depth⟩,
    by rw [hfr]; exact ⟨rfl, rfl⟩⟩
  · have hst : c'.nsStartIdx = c.nsStartIdx := by rw [hfr]
    rw [hst]
    refine ⟨by rw [hns]; exact ha.nsOk.ns, by rw [hns]; exact ha.nsOk.xml0, by rw [hns]; exact ha.nsOk.start,
      ?_, ?_⟩
    · intro i n tn name attrs nss hi hk
      rw [hns, hat]
      by_cases hlt : i < c.doc.nodes.size
      · rw [hold i hlt] at hi
        cases hci : c.doc.nodes[i]? with
        | none => rw [hci] at hi; simp at hi
        | some m =>
          rw [hci] at hi
          simp only [Option.map_some, Option.some.injEq] at hi
          subst hi
          exact ha.nsOk.elem i m tn name attrs nss hci hk
      · by_cases heq : i = c.doc.nodes.size
        · subst heq
          rw [hnew] at hi
          simp only [Option.some.injEq] at hi
          subst hi
          exact hke tn name attrs nss hk
        · have : c'.doc.nodes[i]? = none := by
            apply Array.getElem?_eq_none; omega
          rw [this] at hi; simp at hi
    · intro k' a hk' j hj
      rw [hns]
      rw [hat] at hk'
      exact ha.nsOk.attrNs k' a hk' j hj
  · intro hne
    have hat' : c'.afterText = c.afterText := by rw [hfr]
    rw [hat'] at hne
    obtain ⟨s, hs⟩ := hkt hne
    refine ⟨NodeData.mk (some c.parentId) p.lastChild none none k (if c.positions then r else (0, 0)), s, ?_, hs⟩
    rw [hsz]
    simp only [Nat.add_sub_cancel]
    exact hnew

/-- `append_text` -/
theorem appendText_safe {txt : Bytes} (c : Ctx) (t : Str) (r : Range) (hb : BInv c) (ha : AInv txt c) :
    RSpec (c.appendText t r) (fun c' => AInv txt c' ∧ Keep c c') := by
  unfold Ctx.appendText
  dsimp only
  split
  · rename_i hemp
    have hlog : BInv (c.log (.textFragment t r)) := hb.congr rfl rfl rfl
    have halog : AInv txt (c.log (.textFragment t r)) :=
      ⟨ha.lim, ha.nsOk, ha.text, ha.ents, ha.depth⟩
    apply rspec_bind_eq _ _ _ _ (appendNode_safe (c.log (.textFragment t r)) (.text t) r hlog ha.lim)
    rintro ⟨c1, id⟩ h1 _
    obtain ⟨a1, k1⟩ := appendNode_ainv hlog halog (fun hne => ⟨t, rfl⟩)
      (by intro tn name attrs nss hk; simp at hk) h1
    obtain ⟨_, hsz, _, ⟨p, _, hnew⟩, _⟩ :=
      appendNode_spec _ c1 _ r id hlog.pid_lt hlog.awaiting_lt h1
    simp only [Res.bind_ok]
    refine rspec_ok _ _ ⟨⟨a1.lim, a1.nsOk, ?_, a1.ents, a1.depth⟩, ?_⟩
    · intro _
      refine ⟨NodeData.mk (some (c.log (.textFragment t r)).parentId) p.lastChild none none (.text t)
        (if (c.log (.textFragment t r)).positions then r else (0, 0)), t, ?_, rfl⟩
      show c1.doc.nodes[c1.doc.nodes.size - 1]? = _
      rw [hsz]
      simp only [Nat.add_sub_cancel]
      exact hnew
    · exact k1
  · rename_i hne
    simp only [Res.bind_ok, Res.pure_eq]
    refine rspec_ok _ _ ⟨⟨ha.lim, ha.nsOk, ?_, ha.ents, ha.depth⟩, ⟨rfl, rfl⟩⟩
    intro _
    exact ha.text (by
      intro h0
      apply hne
      show (c.log (.textFragment t r)).afterText.isEmpty = true
      simp [Ctx.log, h0])

/-- `merge_text` -/
theorem mergeText_safe {txt : Bytes} (c : Ctx) (ha : AInv txt c) (hne : c.afterText ≠ []) :
    RSpec c.mergeText (fun c' => AInv txt c' ∧ Keep c c' ∧ c'.afterText = c.afterText) := by
  obtain ⟨n, s, hn, hk⟩ := ha.text hne
  have hsz : c.doc.nodes.size ≠ 0 := by
    intro h0
    have : c.doc.nodes[c.doc.nodes.size - 1]? = none := by
      apply Array.getElem?_eq_none; omega
    rw [this] at hn; simp at hn
  unfold Ctx.mergeText
  have : (c.doc.nodes.size == 0) = false := by simpa using hsz
  simp only [this, Bool.false_eq_true, if_false]
  rw [hn]
  simp only [hk]
  refine rspec_ok _ _ ⟨⟨ha.lim, ?_, ?_, ha.ents, ha.depth⟩, ⟨rfl, rfl⟩, rfl⟩
  · refine ⟨ha.nsOk.ns, ha.nsOk.xml0, ha.nsOk.start, ?_, ha.nsOk.attrNs⟩
    intro i m tn name attrs nss hi hkm
    simp only [Ctx.setNode] at hi
    rw [Array.getElem?_setIfInBounds] at hi
    split at hi
    · rename_i heq
      split at hi
      · simp only [Option.some.injEq] at hi
        subst hi
        simp at hkm
      · simp at hi
    · exact ha.nsOk.elem i m tn name attrs nss hi hkm
  · intro _
    simp only [Ctx.setNode, Array.size_setIfInBounds]
    refine ⟨{ n with kind := .text (.owned ((c.afterText.map (·.bytes)).flatten)) }, _, ?_, rfl⟩
    rw [Array.getElem?_setIfInBounds]
    have : c.doc.nodes.size - 1 < c.doc.nodes.size := by omega
    simp [this]

/-- `reset_after_text` -/
theorem resetAfterText_safe {txt : Bytes} (c : Ctx) (ha : AInv txt c) :
    RSpec c.resetAfterText (fun c' => AInv txt c' ∧ Keep c c' ∧ c'.afterText = []) := by
  unfold Ctx.resetAfterText
  split
  · rename_i h
    exact rspec_ok _ _ ⟨ha, Keep.refl _, by simpa using h⟩
  · rename_i h
    have hne : c.afterText ≠ [] := by simpa using h
    split
    · apply rspec_bind _ _ _ _ (mergeText_safe c ha hne)
      rintro c1 ⟨a1, k1, _⟩
      exact rspec_ok _ _ ⟨⟨a1.lim, a1.nsOk, by intro h; simp at h, a1.ents, a1.depth⟩, k1, rfl⟩
    · simp only [Res.pure_eq, Res.bind_ok]
      exact rspec_ok _ _ ⟨⟨ha.lim, ha.nsOk, by intro h; simp at h, ha.ents, ha.depth⟩, Keep.refl _, rfl⟩

end Rox.Lemmas
