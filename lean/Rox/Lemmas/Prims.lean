/-
  Rox.Lemmas.Prims — every cursor primitive of tokenizer.rs moves the cursor forward by whole
  characters, never panics and never runs out of fuel.
-/
import Rox.Lemmas.StreamCalc

namespace Rox.Lemmas
open Rox

/-- What the tokenizer's control flow needs from the tables (true of the generated ones: checked
by `decide` in `Rox.Props.C01`). -/
structure TablesOK (T : Tables) : Prop where
  space_ascii : ∀ b : UInt8, byteIsSpace T b = true → b < 128
  lbr_not_space : byteIsSpace T bLBr = false
  gt_not_space : byteIsSpace T bGt = false

/-- one step of the cursor: forward, still a well-formed cursor -/
def Step (txt : Bytes) (s s' : Stream) : Prop := Adv s s' ∧ SOk txt s'

theorem Step.refl {txt : Bytes} {s : Stream} (h : SOk txt s) : Step txt s s := ⟨Adv.refl s, h⟩
theorem Step.trans {txt : Bytes} {a b c : Stream} (h1 : Step txt a b) (h2 : Step txt b c) : Step txt a c :=
  ⟨h1.1.trans h2.1, h2.2⟩

/-- consuming one ASCII byte -/
theorem step_ascii {txt : Bytes} {s : Stream} (hs : SOk txt s) (b : UInt8) (r : Bytes)
    (hr : s.rest = b :: r) (hb : b < 128) : Step txt s ⟨s.pos + 1, r⟩ := by
  have hadv : Adv s ⟨s.pos + 1, r⟩ := ⟨1, by rw [hr]; simp, rfl, by rw [hr]; rfl⟩
  exact ⟨hadv, hs.adv hadv (valid_ascii_tail b r hb (by rw [← hr]; exact hs.utf8))⟩

/-- consuming one decoded character -/
theorem step_char {txt : Bytes} {s : Stream} (hs : SOk txt s) (c w : Nat)
    (hd : decodeChar s.rest = some (c, w)) : w ≤ s.rest.length ∧ Step txt s ⟨s.pos + w, s.rest.drop w⟩ := by
  have hw := decodeChar_width _ _ _ hd
  have hadv : Adv s ⟨s.pos + w, s.rest.drop w⟩ := ⟨w, hw.2.2, rfl, rfl⟩
  refine ⟨hw.2.2, hadv, hs.adv hadv ?_⟩
  cases hr : s.rest with
  | nil => rw [hr] at hd; simp [decodeChar] at hd
  | cons b r =>
    obtain ⟨c', w', hd', _, hv⟩ := (valid_cons b r).mp (by rw [← hr]; exact hs.utf8)
    rw [hr] at hd
    rw [hd] at hd'
    simp at hd'
    obtain ⟨_, rfl⟩ := hd'
    exact hv

/-- a non-empty well-formed cursor always decodes (the `chars()` panic site is unreachable) -/
theorem decode_some {txt : Bytes} {s : Stream} (hs : SOk txt s) (b : UInt8) (r : Bytes)
    (hr : s.rest = b :: r) : ∃ c w, decodeChar s.rest = some (c, w) := by
  obtain ⟨c, w, hd, _, _⟩ := (valid_cons b r).mp (by rw [← hr]; exact hs.utf8)
  exact ⟨c, w, by rw [hr]; exact hd⟩

theorem skipSpacesAux_step (T : Tables) (hT : TablesOK T) (txt : Bytes) :
    ∀ (l : Bytes) (pos : Nat), SOk txt ⟨pos, l⟩ → Step txt ⟨pos, l⟩ (Stream.skipSpacesAux T pos l) := by
  intro l
  induction l with
  | nil => intro pos hs; simp only [Stream.skipSpacesAux]; exact Step.refl hs
  | cons b r ih =>
    intro pos hs
    simp only [Stream.skipSpacesAux]
    split
    · rename_i hb
      have h1 := step_ascii hs b r rfl (hT.space_ascii b hb)
      exact Step.trans h1 (ih (pos + 1) h1.2)
    · exact Step.refl hs

theorem skipSpaces_step (T : Tables) (hT : TablesOK T) {txt : Bytes} {s : Stream} (hs : SOk txt s) :
    Step txt s (s.skipSpaces T) := skipSpacesAux_step T hT txt s.rest s.pos hs

/-- skipping a literal that is present (any valid literal: ASCII keywords, the BOM) -/
theorem advance_lit {txt : Bytes} {s : Stream} (hs : SOk txt s) (lit : Bytes)
    (hp : s.startsWith lit = true) (hl : ValidUtf8 lit) :
    RSpec (s.advance lit.length) (fun s' => Step txt s s' ∧ s'.pos = s.pos + lit.length) := by
  have hpre := List.isPrefixOf_iff_prefix.mp hp
  obtain ⟨r, hr⟩ := hpre
  have hlen : lit.length ≤ s.rest.length := by rw [← hr]; simp
  unfold Stream.advance
  simp only [hlen, if_true]
  apply rspec_ok
  have hadv : Adv s ⟨s.pos + lit.length, s.rest.drop lit.length⟩ := ⟨lit.length, hlen, rfl, rfl⟩
  refine ⟨⟨hadv, hs.adv hadv ?_⟩, rfl⟩
  have : s.rest.drop lit.length = r := by rw [← hr]; simp
  rw [this]
  exact valid_of_append lit r (by rw [hr]; exact hs.utf8) hl

theorem skipString_spec {txt : Bytes} {s : Stream} (hs : SOk txt s) (lit : Bytes) (hl : ValidUtf8 lit) :
    RSpec (s.skipString txt lit) (fun s' => Step txt s s' ∧ s'.pos = s.pos + lit.length) := by
  unfold Stream.skipString
  split
  · exact errAt_safe hs _ _
  · rename_i h
    exact advance_lit hs lit (by simpa using h) hl

theorem consumeByte_spec {txt : Bytes} {s : Stream} (hs : SOk txt s) (c : UInt8) (hc : c < 128) :
    RSpec (s.consumeByte txt c) (fun s' => Step txt s s' ∧ s'.pos = s.pos + 1) := by
  unfold Stream.consumeByte
  split
  · exact rspec_err _ _
  · rename_i b r hr
    split
    · exact errAt_safe hs _ _
    · rename_i hbc
      have : b = c := by simpa using hbc
      subst this
      exact rspec_ok _ _ ⟨step_ascii hs b r hr hc, rfl⟩

theorem tryConsumeByte_step {txt : Bytes} {s : Stream} (hs : SOk txt s) (c : UInt8) (hc : c < 128) :
    Step txt s (s.tryConsumeByte c).1 := by
  unfold Stream.tryConsumeByte
  split
  · rename_i b r hr
    split
    · rename_i hbc
      have : b = c := by simpa using hbc
      subst this
      exact step_ascii hs b r hr hc
    · exact Step.refl hs
  · exact Step.refl hs

/-- A byte scan that only ever consumes ASCII bytes. -/
theorem spanBytes_ascii_step {txt : Bytes} (f : UInt8 → Bool) (hf : ∀ b, f b = true → b < 128) :
    ∀ (l : Bytes) (pos : Nat) (acc : Bytes), SOk txt ⟨pos, l⟩ →
      Step txt ⟨pos, l⟩ (Stream.spanBytesAux f pos acc l).1 := by
  intro l
  induction l with
  | nil => intro pos acc hs; simp only [Stream.spanBytesAux]; exact Step.refl hs
  | cons b r ih =>
    intro pos acc hs
    simp only [Stream.spanBytesAux]
    split
    · rename_i hb
      have h1 := step_ascii hs b r rfl (hf b hb)
      exact Step.trans h1 (ih (pos + 1) _ h1.2)
    · exact Step.refl hs

/-- A byte scan that can only stop in front of an ASCII byte (or at the end): it may run over
multi-byte characters, but where it stops is a character boundary. -/
theorem spanBytes_stop_step {txt : Bytes} (f : UInt8 → Bool) (hf : ∀ b, f b = false → b < 128) :
    ∀ (l : Bytes) (pos : Nat) (acc : Bytes), SOk txt ⟨pos, l⟩ →
      Step txt ⟨pos, l⟩ (Stream.spanBytesAux f pos acc l).1 := by
  intro l pos acc hs
  -- the scan result is ⟨pos + k, l.drop k⟩ where l.drop k is empty or starts with a byte failing f
  have key : ∀ (l' : Bytes) (pos' : Nat) (acc' : Bytes),
      ∃ k, k ≤ l'.length ∧ (Stream.spanBytesAux f pos' acc' l').1 = ⟨pos' + k, l'.drop k⟩ ∧
        (∀ b r, l'.drop k = b :: r → f b = false) := by
    intro l'
    induction l' with
    | nil => intro pos' acc'; exact ⟨0, by simp, by simp [Stream.spanBytesAux], by simp⟩
    | cons b r ih =>
      intro pos' acc'
      simp only [Stream.spanBytesAux]
      split
      · obtain ⟨k, hk, he, hstop⟩ := ih (pos' + 1) (b :: acc')
        exact ⟨k + 1, by simp; omega, by rw [he]; simp; omega, by simpa using hstop⟩
      · rename_i hb
        refine ⟨0, by simp, by simp, ?_⟩
        intro b' r' h'
        simp at h'
        rw [← h'.1]; simpa using hb
  obtain ⟨k, hk, he, hstop⟩ := key l pos acc
  rw [he]
  have hadv : Adv ⟨pos, l⟩ ⟨pos + k, l.drop k⟩ := ⟨k, hk, rfl, rfl⟩
  refine ⟨hadv, hs.adv hadv ?_⟩
  apply valid_drop_boundary l.length l k (Nat.le_refl _) hs.utf8
  intro b r hbr
  have hb := hf b (hstop b r hbr)
  unfold isCont
  have : ¬ (0x80 ≤ b) := by
    intro h2; exact absurd (UInt8.lt_of_lt_of_le hb h2) (UInt8.lt_irrefl _)
  simp [this]

theorem consumeSpaces_spec (T : Tables) (hT : TablesOK T) {txt : Bytes} {s : Stream} (hs : SOk txt s) :
    RSpec (s.consumeSpaces T txt) (Step txt s) := by
  unfold Stream.consumeSpaces
  split
  · exact rspec_err _ _
  · split
    · exact errAt_safe hs _ _
    · exact rspec_ok _ _ (skipSpaces_step T hT hs)

theorem consumeEq_spec (T : Tables) (hT : TablesOK T) {txt : Bytes} {s : Stream} (hs : SOk txt s) :
    RSpec (s.consumeEq T txt) (Step txt s) := by
  unfold Stream.consumeEq
  have h1 := skipSpaces_step T hT hs
  apply rspec_bind _ _ (fun s' => Step txt s s')
  · exact rspec_weaken (consumeByte_spec h1.2 bEq (by decide)) (fun s' h => Step.trans h1 h.1)
  · intro s' h
    exact rspec_ok _ _ (Step.trans h (skipSpaces_step T hT h.2))

theorem consumeQuote_spec {txt : Bytes} {s : Stream} (hs : SOk txt s) :
    RSpec (s.consumeQuote txt) (fun p => Step txt s p.1 ∧ p.2 < 128 ∧ (p.2 = bApos ∨ p.2 = bQuot)) := by
  unfold Stream.consumeQuote
  split
  · exact rspec_err _ _
  · rename_i c r hr
    split
    · rename_i hc
      have hq : c = bApos ∨ c = bQuot := by simpa using hc
      have hlt : c < 128 := by rcases hq with rfl | rfl <;> decide
      exact rspec_ok _ _ ⟨step_ascii hs c r hr hlt, hlt, hq⟩
    · exact errAt_safe hs _ _

end Rox.Lemmas
