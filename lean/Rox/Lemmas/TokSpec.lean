/-
  Rox.Lemmas.TokSpec — the tokenizer never panics, never runs out of fuel, moves forward by
  whole characters and only emits tokens whose strings are slices of the input.
-/
import Rox.Lemmas.Prims3

namespace Rox.Lemmas
open Rox Rox.TM

/-- a source range: ordered, inside the input, both ends on character boundaries -/
def RangeOk (txt : Bytes) (r : Range) : Prop :=
  r.1 ≤ r.2 ∧ r.2 ≤ txt.length ∧ isCharBoundary txt r.1 = true ∧ isCharBoundary txt r.2 = true

/-- What every delivered token satisfies. -/
def TokOk (txt : Bytes) : Token → Prop
  | .pi t v r => SpanOk txt t ∧ (∀ v', v = some v' → SpanOk txt v' ∧ v'.bytes ≠ []) ∧ RangeOk txt r ∧ t.bytes ≠ []
  | .comment t r => SpanOk txt t ∧ RangeOk txt r ∧
      -- C08: no "--" inside, no "-" at the end
      containsSub t.bytes Lit.dashDash = false ∧ t.bytes.getLast? ≠ some bDash
  | .entityDecl n v => SpanOk txt n ∧ SpanU txt v
  | .elementStart p l s => SpanOk txt p ∧ SpanOk txt l ∧ s ≤ txt.length ∧ l.bytes ≠ [] ∧
      isCharBoundary txt s = true
  | .attribute r _ _ p l v => RangeOk txt r ∧ SpanOk txt p ∧ SpanOk txt l ∧ SpanU txt v ∧
      -- C08: no '<' in a delivered attribute value
      (∀ b ∈ v.bytes, b ≠ bLt)
  | .elementEnd (.close p l) r => SpanOk txt p ∧ SpanOk txt l ∧ RangeOk txt r
  | .elementEnd _ r => RangeOk txt r
  | .text t r => SpanU txt t ∧ RangeOk txt r ∧ r = (t.off, t.off + t.bytes.length) ∧
      -- C08: no "]]>" in character data
      (t.bytes.contains bGt && containsSub t.bytes Lit.cdataEnd) = false
  | .cdata t r => SpanOk txt t ∧ RangeOk txt r

/-- strict progress -/
def Step1 (txt : Bytes) (s s' : Stream) : Prop := Step txt s s' ∧ s.pos < s'.pos

theorem Step1.len {txt : Bytes} {s s' : Stream} (h : Step1 txt s s') : s'.rest.length < s.rest.length := by
  have := h.1.1.len; have := h.2; omega

theorem Step.len_le {txt : Bytes} {s s' : Stream} (h : Step txt s s') : s'.rest.length ≤ s.rest.length := by
  have := h.1.len; have := h.1.pos_le; omega

theorem Step.range {txt : Bytes} {s s' : Stream} (h : Step txt s s') (hs : SOk txt s) :
    RangeOk txt (s.pos, s'.pos) := by
  have h1 := h.1.pos_le; have h2 := h.2.bound
  exact ⟨h1, by simp only; omega, hs.pos_boundary.2, h.2.pos_boundary.2⟩

theorem lit_valid (l : Bytes) (h : l.all (· < 128) = true) : ValidUtf8 l :=
  valid_all_ascii l (by simpa [List.all_eq_true] using h)

section
variable (T : Tables) (hT : TablesOK T) (txt : Bytes)
include hT

theorem parseAttribute_spec {s : Stream} (hs : SOk txt s) :
    RSpec (parseAttribute T txt s) (fun p => Step txt s p.1) := by
  unfold parseAttribute
  apply rspec_bind _ _ _ _ (consumeQName_spec T txt hs)
  rintro ⟨s1, _, _⟩ ⟨h1, _, _⟩
  apply rspec_bind _ _ _ _ (consumeEq_spec T hT h1.2)
  intro s2 h2
  apply rspec_bind _ _ _ _ (consumeQuote_spec h2.2)
  rintro ⟨s3, q⟩ ⟨h3, hq, _⟩
  apply rspec_bind _ _ _ _ (consumeChars_spec T txt _ h3.2)
  rintro ⟨s4, _⟩ ⟨h4, _⟩
  apply rspec_bind _ _ _ _ (consumeByte_spec h4.2 q hq)
  intro s5 h5
  exact rspec_ok _ _ (Step.trans h1 (Step.trans h2 (Step.trans h3 (Step.trans h4 h5.1))))

theorem parsePseudoAttribute_spec {s : Stream} (hs : SOk txt s) (name : Bytes) :
    RSpec (parsePseudoAttribute T txt s name) (Step txt s) := by
  unfold parsePseudoAttribute
  apply rspec_bind _ _ _ _ (parseAttribute_spec T hT txt hs)
  rintro ⟨s1, pfx, loc⟩ h1
  dsimp only
  split
  · exact errFrom_safe _ _ _ _
  · exact rspec_ok _ _ h1

theorem declConsumeSpaces_spec {s : Stream} (hs : SOk txt s) :
    RSpec (declConsumeSpaces T txt s) (Step txt s) := by
  unfold declConsumeSpaces
  split
  · exact rspec_ok _ _ (skipSpaces_step T hT hs)
  · split
    · split
      · exact errAt_safe hs _ _
      · rename_i hne _ hr
        simp [Stream.atEnd, hr] at hne
    · exact rspec_ok _ _ (Step.refl hs)

theorem declEnd_spec {s : Stream} (hs : SOk txt s) : RSpec (declEnd T txt s) (Step txt s) := by
  unfold declEnd
  have h1 := skipSpaces_step T hT hs
  exact rspec_weaken (skipString_spec h1.2 Lit.piEnd (lit_valid _ (by decide))) (fun _ h => Step.trans h1 h.1)

theorem declStandalone_spec {s : Stream} (hs : SOk txt s) : RSpec (declStandalone T txt s) (Step txt s) := by
  unfold declStandalone
  split
  · apply rspec_bind _ _ _ _ (parsePseudoAttribute_spec T hT txt hs _)
    intro s1 h1
    exact rspec_weaken (declEnd_spec T hT txt h1.2) (fun _ h => Step.trans h1 h)
  · exact declEnd_spec T hT txt hs

theorem declEncoding_spec {s : Stream} (hs : SOk txt s) : RSpec (declEncoding T txt s) (Step txt s) := by
  unfold declEncoding
  split
  · apply rspec_bind _ _ _ _ (parsePseudoAttribute_spec T hT txt hs _)
    intro s1 h1
    apply rspec_bind _ _ _ _ (declConsumeSpaces_spec T hT txt h1.2)
    intro s2 h2
    exact rspec_weaken (declStandalone_spec T hT txt h2.2) (fun _ h => Step.trans h1 (Step.trans h2 h))
  · exact declStandalone_spec T hT txt hs

omit hT in
/-- `<?xml` + white space begins, in particular, with the five bytes `<?xml` -/
theorem startsWithXmlDecl_open {s : Stream} (hp : s.startsWithXmlDecl T = true) :
    s.startsWith Lit.xmlDeclOpen = true := by
  unfold Stream.startsWithXmlDecl at hp
  exact (Bool.and_eq_true _ _ ▸ hp).1

omit hT in
/-- no `<?xml`, no XML declaration -/
theorem startsWithXmlDecl_false_of_open {s : Stream} (hp : s.startsWith Lit.xmlDeclOpen = false) :
    s.startsWithXmlDecl T = false := by
  unfold Stream.startsWithXmlDecl
  rw [hp]; rfl

omit hT in
/-- `<?xml` + a white-space byte is an XML declaration opening -/
theorem startsWithXmlDecl_cons (p : Nat) (b : UInt8) (r : Bytes) (hb : byteIsSpace T b = true) :
    Stream.startsWithXmlDecl T ⟨p, 60 :: 63 :: 120 :: 109 :: 108 :: b :: r⟩ = true := by
  simp [Stream.startsWithXmlDecl, Stream.startsWith, Lit.xmlDeclOpen, List.isPrefixOf, hb]

theorem parseDeclaration_spec {s : Stream} (hs : SOk txt s) (hp : s.startsWithXmlDecl T = true) :
    RSpec (parseDeclaration T txt s) (Step txt s) := by
  unfold parseDeclaration
  have h5 : s.startsWith [60, 63, 120, 109, 108] = true := startsWithXmlDecl_open T hp
  apply rspec_bind _ _ (fun s1 => Step txt s s1)
  · exact rspec_weaken (advance_lit hs [60, 63, 120, 109, 108] h5 (lit_valid _ (by decide))) (fun _ h => h.1)
  intro s1 h1
  apply rspec_bind _ _ _ _ (declConsumeSpaces_spec T hT txt h1.2)
  intro s2 h2
  have h12 := Step.trans h1 h2
  split
  · exact rspec_weaken (skipString_spec h2.2 Lit.version (lit_valid _ (by decide))) (fun _ h => Step.trans h12 h.1)
  · apply rspec_bind _ _ _ _ (parsePseudoAttribute_spec T hT txt h2.2 _)
    intro s3 h3
    apply rspec_bind _ _ _ _ (declConsumeSpaces_spec T hT txt h3.2)
    intro s4 h4
    exact rspec_weaken (declEncoding_spec T hT txt h4.2) (fun _ h => Step.trans h12 (Step.trans h3 (Step.trans h4 h)))

theorem parseComment_spec {s : Stream} (hs : SOk txt s) (hp : s.startsWith Lit.commentStart = true) :
    Spec (parseComment T txt s) (TokOk txt) (Step1 txt s) := by
  unfold parseComment
  apply spec_bind _ _ _ (fun s1 => Step txt s s1 ∧ s1.pos = s.pos + 4)
  · exact spec_of_rspec _ _ _ (advance_lit hs Lit.commentStart hp (lit_valid _ (by decide)))
  rintro s1 ⟨h1, hp1⟩
  apply spec_bind _ _ _ _ _ (spec_of_rspec _ _ _ (consumeChars_spec T txt _ h1.2))
  rintro ⟨s2, text⟩ ⟨h2, hsp, _, _⟩
  apply spec_bind _ _ _ _ _ (spec_of_rspec _ _ _ (skipString_spec h2.2 Lit.commentEnd (lit_valid _ (by decide))))
  rintro s3 ⟨h3, _⟩
  have h13 := Step.trans h1 (Step.trans h2 h3)
  have hlt : s.pos < s3.pos := by
    have := h2.1.pos_le; have := h3.1.pos_le; simp only at *; omega
  split
  · exact spec_of_rspec _ _ _ (errFrom_safe _ _ _ _)
  · rename_i hdd
    split
    · exact spec_of_rspec _ _ _ (errFrom_safe _ _ _ _)
    · rename_i hld
      apply spec_bind _ _ _ (fun _ => True) _
        (spec_emit _ _ ⟨hsp, h13.range hs, by simpa using hdd, by simpa using hld⟩)
      intro _ _
      exact spec_pure _ _ _ ⟨h13, hlt⟩

theorem parsePi_spec {s : Stream} (hs : SOk txt s) (hp : s.startsWith Lit.piStart = true) :
    Spec (parsePi T txt s) (TokOk txt) (Step1 txt s) := by
  unfold parsePi
  split
  · exact spec_of_rspec _ _ _ (errAt_safe hs _ _)
  · apply spec_bind _ _ _ (fun s1 => Step txt s s1 ∧ s1.pos = s.pos + 2)
    · exact spec_of_rspec _ _ _ (advance_lit hs Lit.piStart hp (lit_valid _ (by decide)))
    rintro s1 ⟨h1, hp1⟩
    apply spec_bind _ _ _ _ _ (spec_of_rspec _ _ _ (consumeName_spec T txt h1.2))
    rintro ⟨s2, target⟩ ⟨h2, hsp2, _, _, htne⟩
    apply spec_bind _ _ _ _ _ (spec_of_rspec _ _ _ (declConsumeSpaces_spec T hT txt h2.2))
    intro s3 h3
    apply spec_bind _ _ _ _ _ (spec_of_rspec _ _ _ (consumeChars_spec T txt _ h3.2))
    rintro ⟨s4, content⟩ ⟨h4, hsp4, _, _⟩
    apply spec_bind _ _ _ _ _ (spec_of_rspec _ _ _ (skipString_spec h4.2 Lit.piEnd (lit_valid _ (by decide))))
    rintro s5 ⟨h5, _⟩
    have h15 := Step.trans h1 (Step.trans h2 (Step.trans h3 (Step.trans h4 h5)))
    have hlt : s.pos < s5.pos := by
      have := h2.1.pos_le; have := h3.1.pos_le; have := h4.1.pos_le; have := h5.1.pos_le; simp only at *; omega
    apply spec_bind _ _ _ (fun _ => True)
    · apply spec_emit
      refine ⟨hsp2, ?_, h15.range hs, htne⟩
      intro v' hv'
      split at hv'
      · rename_i hne
        simp at hv'
        subst hv'; exact ⟨hsp4, by simpa using hne⟩
      · simp at hv'
    intro _ _
    exact spec_pure _ _ _ ⟨h15, hlt⟩

theorem parseMisc_spec : ∀ (fuel : Nat) (s : Stream), s.rest.length < fuel → SOk txt s →
    Spec (parseMisc T txt fuel s) (TokOk txt) (Step txt s) := by
  intro fuel
  induction fuel with
  | zero => intro s h; omega
  | succ n ih =>
    intro s hf hs
    unfold parseMisc
    split
    · exact spec_pure _ _ _ (Step.refl hs)
    · have h1 := skipSpaces_step T hT hs
      simp only
      split
      · rename_i hc
        apply spec_bind _ _ _ _ _ (parseComment_spec T hT txt h1.2 hc)
        intro s2 h2
        have hlen := h2.len; have hl1 := h1.len_le
        exact spec_weaken (ih s2 (by omega) h2.1.2) (fun _ h => Step.trans h1 (Step.trans h2.1 h))
      · split
        · rename_i hc
          apply spec_bind _ _ _ _ _ (parsePi_spec T hT txt h1.2 hc)
          intro s2 h2
          have hlen := h2.len; have hl1 := h1.len_le
          exact spec_weaken (ih s2 (by omega) h2.1.2) (fun _ h => Step.trans h1 (Step.trans h2.1 h))
        · exact spec_pure _ _ _ h1

omit hT in
theorem spanBytes_took (f : UInt8 → Bool) : ∀ (l : Bytes) (pos : Nat) (acc : Bytes),
    ∃ run, (Stream.spanBytesAux f pos acc l).2 = acc.reverse ++ run ∧
      Took ⟨pos, l⟩ (Stream.spanBytesAux f pos acc l).1 run := by
  intro l
  induction l with
  | nil => intro pos acc; exact ⟨[], by simp [Stream.spanBytesAux], Took.nil _⟩
  | cons b r ih =>
    intro pos acc
    simp only [Stream.spanBytesAux]
    split
    · obtain ⟨run, he, ht⟩ := ih (pos + 1) (b :: acc)
      refine ⟨b :: run, by rw [he]; simp, ?_⟩
      have h1 : Took ⟨pos, b :: r⟩ ⟨pos + 1, r⟩ [b] := ⟨by simp, rfl, rfl, rfl⟩
      exact Took.trans h1 ht
    · exact ⟨[], by simp, Took.nil _⟩

omit hT in
/-- `consume_bytes(|c| c != quote)`: up to the closing quote (an ASCII byte) -/
theorem consumeUntilQuote_spec {s : Stream} (hs : SOk txt s) (q : UInt8) (hq : q < 128) :
    Step txt s (s.consumeBytes (fun c => c != q)).1 ∧ SpanU txt (s.consumeBytes (fun c => c != q)).2 := by
  unfold Stream.consumeBytes
  have hstep := spanBytes_stop_step (txt := txt) (fun c => c != q)
    (by intro b hb; simp only [bne_eq_false_iff_eq] at hb; subst hb; exact hq) s.rest s.pos [] hs
  obtain ⟨run, he, ht⟩ := spanBytes_took (fun c => c != q) s.rest s.pos []
  revert hstep he ht
  generalize Stream.spanBytesAux (fun c => c != q) s.pos [] s.rest = res
  obtain ⟨s', run'⟩ := res
  intro hstep he ht
  simp only [List.reverse_nil, List.nil_append] at he
  subst he
  exact ⟨hstep, ht.spanU hs hstep.2⟩

theorem parseExternalId_spec {s : Stream} (hs : SOk txt s) :
    RSpec (parseExternalId T txt s) (fun p => Step txt s p.1) := by
  unfold parseExternalId
  split
  · rename_i hsp
    have hlit : ∃ lit, s.startsWith lit = true ∧ lit.length = 6 ∧ ValidUtf8 lit := by
      simp only [Bool.or_eq_true] at hsp
      rcases hsp with h | h
      · exact ⟨Lit.system_, h, rfl, lit_valid _ (by decide)⟩
      · exact ⟨Lit.public_, h, rfl, lit_valid _ (by decide)⟩
    obtain ⟨lit, hl1, hl2, hl3⟩ := hlit
    apply rspec_bind _ _ (fun s1 => Step txt s s1)
    · have := advance_lit hs lit hl1 hl3
      rw [hl2] at this
      exact rspec_weaken this (fun _ h => h.1)
    intro s1 h1
    apply rspec_bind _ _ _ _ (consumeSpaces_spec T hT h1.2)
    intro s2 h2
    apply rspec_bind _ _ _ _ (consumeQuote_spec h2.2)
    rintro ⟨s3, q⟩ ⟨h3, hq, _⟩
    obtain ⟨h4, _⟩ := consumeUntilQuote_spec txt h3.2 q hq
    simp only
    apply rspec_bind _ _ _ _ (consumeByte_spec h4.2 q hq)
    rintro s5 ⟨h5, _⟩
    have h15 := Step.trans h1 (Step.trans h2 (Step.trans h3 (Step.trans h4 h5)))
    split
    · exact rspec_ok _ _ h15
    · apply rspec_bind _ _ _ _ (consumeSpaces_spec T hT h5.2)
      intro s6 h6
      apply rspec_bind _ _ _ _ (consumeQuote_spec h6.2)
      rintro ⟨s7, q2⟩ ⟨h7, hq2, _⟩
      obtain ⟨h8, _⟩ := consumeUntilQuote_spec txt h7.2 q2 hq2
      simp only
      apply rspec_bind _ _ _ _ (consumeByte_spec h8.2 q2 hq2)
      rintro s9 ⟨h9, _⟩
      exact rspec_ok _ _ (Step.trans h15 (Step.trans h6 (Step.trans h7 (Step.trans h8 h9))))
  · exact rspec_ok _ _ (Step.refl hs)

theorem parseEntityDef_spec {s : Stream} (hs : SOk txt s) (isGe : Bool) :
    RSpec (parseEntityDef T txt s isGe)
      (fun p => Step txt s p.1 ∧ ∀ v, p.2 = some v → SpanU txt v) := by
  unfold parseEntityDef
  apply rspec_bind _ _ (fun _ => True)
  · unfold Stream.currByte; split
    · exact rspec_err _ _
    · exact rspec_ok _ _ trivial
  intro c _
  split
  · apply rspec_bind _ _ _ _ (consumeQuote_spec hs)
    rintro ⟨s1, q⟩ ⟨h1, hq, _⟩
    obtain ⟨h2, hsp⟩ := consumeUntilQuote_spec txt h1.2 q hq
    simp only
    apply rspec_bind _ _ _ _ (consumeByte_spec h2.2 q hq)
    rintro s3 ⟨h3, _⟩
    exact rspec_ok _ _ ⟨Step.trans h1 (Step.trans h2 h3), by intro v hv; simp at hv; subst hv; exact hsp⟩
  · split
    · apply rspec_bind _ _ _ _ (parseExternalId_spec T hT txt hs)
      rintro ⟨s1, isExt⟩ h1
      simp only at h1 ⊢
      split
      · split
        · have h2 := skipSpaces_step T hT h1.2
          try simp only
          split
          · rename_i hnd
            apply rspec_bind _ _ (fun s3 => Step txt (s1.skipSpaces T) s3)
            · exact rspec_weaken (advance_lit h2.2 Lit.ndata hnd (lit_valid _ (by decide))) (fun _ h => h.1)
            intro s3 h3
            apply rspec_bind _ _ _ _ (consumeSpaces_spec T hT h3.2)
            intro s4 h4
            apply rspec_bind _ _ _ _ (skipName_spec T txt h4.2)
            rintro ⟨s5, _⟩ ⟨h5, _⟩
            exact rspec_ok _ _ ⟨Step.trans h1 (Step.trans h2 (Step.trans h3 (Step.trans h4 h5))), by simp⟩
          · exact rspec_ok _ _ ⟨Step.trans h1 h2, by simp⟩
        · exact rspec_ok _ _ ⟨h1, by simp⟩
      · exact errAt_safe h1.2 _ _
    · exact errAt_safe hs _ _

theorem parseEntityDeclBody_spec {s : Stream} (hs : SOk txt s) (isGe : Bool) :
    Spec (parseEntityDeclBody T txt s isGe) (TokOk txt) (Step txt s) := by
  unfold parseEntityDeclBody
  apply spec_bind _ _ _ _ _ (spec_of_rspec _ _ _ (consumeName_spec T txt hs))
  rintro ⟨s1, name⟩ ⟨h1, hsp1, _, _, _⟩
  apply spec_bind _ _ _ _ _ (spec_of_rspec _ _ _ (consumeSpaces_spec T hT h1.2))
  intro s2 h2
  apply spec_bind _ _ _ _ _ (spec_of_rspec _ _ _ (parseEntityDef_spec T hT txt h2.2 isGe))
  rintro ⟨s3, defn⟩ ⟨h3, hd⟩
  simp only at hd ⊢
  have h4 := skipSpaces_step T hT h3.2
  have hfin : Spec (lift ((s3.skipSpaces T).consumeByte txt bGt)) (TokOk txt) (Step txt s) :=
    spec_of_rspec _ _ _ (rspec_weaken (consumeByte_spec h4.2 bGt (by decide))
      (fun _ h => Step.trans h1 (Step.trans h2 (Step.trans h3 (Step.trans h4 h.1)))))
  split
  · rename_i d
    split
    · apply spec_bind _ _ _ (fun _ => True) _ (spec_emit _ _ ⟨hsp1, hd d rfl⟩)
      intro _ _
      exact hfin
    · exact hfin
  · exact hfin

theorem parseEntityDecl_spec {s : Stream} (hs : SOk txt s) (hp : s.startsWith Lit.entity_ = true) :
    Spec (parseEntityDecl T txt s) (TokOk txt) (Step1 txt s) := by
  unfold parseEntityDecl
  apply spec_bind _ _ _ (fun s1 => Step txt s s1 ∧ s1.pos = s.pos + 8)
  · exact spec_of_rspec _ _ _ (advance_lit hs Lit.entity_ hp (lit_valid _ (by decide)))
  rintro s1 ⟨h1, hp1⟩
  apply spec_bind _ _ _ _ _ (spec_of_rspec _ _ _ (consumeSpaces_spec T hT h1.2))
  intro s2 h2
  have h3 := tryConsumeByte_step h2.2 bPct (by decide)
  have h13 := Step.trans h1 (Step.trans h2 h3)
  have hlt : ∀ s', Step txt (s2.tryConsumeByte bPct).1 s' → s.pos < s'.pos := by
    intro s' h
    have := h2.1.pos_le; have := h3.1.pos_le; have := h.1.pos_le; omega
  simp only
  split
  · apply spec_bind _ _ _ _ _ (spec_of_rspec _ _ _ (consumeSpaces_spec T hT h3.2))
    intro s4 h4
    exact spec_weaken (parseEntityDeclBody_spec T hT txt h4.2 false)
      (fun s' h => ⟨Step.trans h13 (Step.trans h4 h), hlt s' (Step.trans h4 h)⟩)
  · exact spec_weaken (parseEntityDeclBody_spec T hT txt h3.2 true)
      (fun s' h => ⟨Step.trans h13 h, hlt s' h⟩)

omit hT in
theorem consumeDecl_step {s : Stream} (hs : SOk txt s) (h : (consumeDecl txt s).2 = false) :
    Step1 txt s (consumeDecl txt s).1 := by
  unfold consumeDecl at h ⊢
  obtain ⟨h1, _⟩ := consumeUntilQuote_spec txt hs bGt (by decide)
  have h2 := consumeByte_spec (txt := txt) h1.2 bGt (by decide)
  revert h h2
  simp only
  cases (s.consumeBytes fun c => c != bGt).1.consumeByte txt bGt with
  | ok s2 =>
    intro h h2
    obtain ⟨h3, hp⟩ := h2.post s2 rfl
    refine ⟨Step.trans h1 h3, ?_⟩
    show s.pos < s2.pos
    have := h1.1.pos_le; omega
  | err e => intro h; simp at h
  | panic p => intro h; simp at h
  | fuel => intro h; simp at h

theorem parseDoctypeStart_spec {s : Stream} (hs : SOk txt s) (hp : s.startsWith Lit.doctype = true) :
    RSpec (parseDoctypeStart T txt s)
      (fun s' => Step1 txt s s' ∧ ∃ c r, s'.rest = c :: r ∧ (c = bLBr ∨ c = bGt)) := by
  unfold parseDoctypeStart
  apply rspec_bind _ _ (fun s1 => Step txt s s1 ∧ s1.pos = s.pos + 9)
  · exact advance_lit hs Lit.doctype hp (lit_valid _ (by decide))
  rintro s1 ⟨h1, hp1⟩
  apply rspec_bind _ _ _ _ (consumeSpaces_spec T hT h1.2)
  intro s2 h2
  apply rspec_bind _ _ _ _ (skipName_spec T txt h2.2)
  rintro ⟨s3, _⟩ ⟨h3, _⟩
  have h4 := skipSpaces_step T hT h3.2
  apply rspec_bind _ _ _ _ (parseExternalId_spec T hT txt h4.2)
  rintro ⟨s5, _⟩ h5
  have h6 := skipSpaces_step T hT h5.2
  simp only at h5 h6 ⊢
  apply rspec_bind _ _ (fun c => ∃ r, (s5.skipSpaces T).rest = c :: r)
  · unfold Stream.currByte
    split
    · exact rspec_err _ _
    · rename_i b r hr; exact rspec_ok _ _ ⟨r, hr⟩
  rintro c ⟨r, hr⟩
  have hall := Step.trans h1 (Step.trans h2 (Step.trans h3 (Step.trans h4 (Step.trans h5 h6))))
  split
  · exact errAt_safe h6.2 _ _
  · rename_i hc
    refine rspec_ok _ _ ⟨⟨hall, ?_⟩, c, r, hr, ?_⟩
    · have := h2.1.pos_le; have := h3.1.pos_le; have := h4.1.pos_le; have := h5.1.pos_le; have := h6.1.pos_le
      simp only at *; omega
    · simp only [Bool.and_eq_true, bne_iff_ne, ne_eq, not_and, Decidable.not_not] at hc
      by_cases h : c = bLBr
      · exact Or.inl h
      · exact Or.inr (hc h)

theorem doctypeLoop_spec (start : Nat) : ∀ (fuel : Nat) (s : Stream), s.rest.length < fuel → SOk txt s →
    Spec (doctypeLoop T txt start fuel s) (TokOk txt) (Step txt s) := by
  intro fuel
  induction fuel with
  | zero => intro s h; omega
  | succ n ih =>
    intro s hf hs
    unfold doctypeLoop
    split
    · exact spec_pure _ _ _ (Step.refl hs)
    · have h1 := skipSpaces_step T hT hs
      have hl1 := h1.len_le
      simp only
      split
      · rename_i hc
        apply spec_bind _ _ _ _ _ (parseEntityDecl_spec T hT txt h1.2 hc)
        intro s2 h2
        have := h2.len
        exact spec_weaken (ih s2 (by omega) h2.1.2) (fun _ h => Step.trans h1 (Step.trans h2.1 h))
      · split
        · rename_i hc
          apply spec_bind _ _ _ _ _ (parseComment_spec T hT txt h1.2 hc)
          intro s2 h2
          have := h2.len
          exact spec_weaken (ih s2 (by omega) h2.1.2) (fun _ h => Step.trans h1 (Step.trans h2.1 h))
        · split
          · rename_i hc
            apply spec_bind _ _ _ _ _ (parsePi_spec T hT txt h1.2 hc)
            intro s2 h2
            have := h2.len
            exact spec_weaken (ih s2 (by omega) h2.1.2) (fun _ h => Step.trans h1 (Step.trans h2.1 h))
          · split
            · rename_i hc
              apply spec_bind _ _ _ (fun s2 => Step txt (s.skipSpaces T) s2)
              · exact spec_of_rspec _ _ _ (rspec_weaken (advance_lit h1.2 Lit.rbr hc (lit_valid _ (by decide))) (fun _ h => h.1))
              intro s2 h2
              have h3 := skipSpaces_step T hT h2.2
              try simp only
              split
              · exact spec_of_rspec _ _ _ (rspec_err _ _)
              · rename_i c r hr
                split
                · rename_i hcg
                  have : c = bGt := by simpa using hcg
                  subst this
                  exact spec_pure _ _ _ (Step.trans h1 (Step.trans h2 (Step.trans h3 (step_ascii h3.2 bGt r hr (by decide)))))
                · exact spec_of_rspec _ _ _ (errAt_safe h3.2 _ _)
            · split
              · cases hcd : consumeDecl txt (s.skipSpaces T) with
                | mk s2 failed =>
                  simp only
                  split
                  · exact spec_of_rspec _ _ _ (errFrom_safe _ _ _ _)
                  · rename_i hf'
                    have hnf : (consumeDecl txt (s.skipSpaces T)).2 = false := by rw [hcd]; simpa using hf'
                    have h2 := consumeDecl_step txt h1.2 hnf
                    rw [hcd] at h2
                    simp only at h2
                    have := h2.len
                    exact spec_weaken (ih s2 (by omega) h2.1.2) (fun _ h => Step.trans h1 (Step.trans h2.1 h))
              · exact spec_of_rspec _ _ _ (errAt_safe h1.2 _ _)

omit hT in
theorem skipSpaces_noop (s : Stream) (c : UInt8) (r : Bytes) (hr : s.rest = c :: r)
    (hc : byteIsSpace T c = false) : s.skipSpaces T = s := by
  unfold Stream.skipSpaces
  rw [hr]
  simp only [Stream.skipSpacesAux, hc, Bool.false_eq_true, if_false]
  cases s; simp_all

theorem parseDoctype_spec {s : Stream} (hs : SOk txt s) (hp : s.startsWith Lit.doctype = true) :
    Spec (parseDoctype T txt s) (TokOk txt) (Step txt s) := by
  unfold parseDoctype
  apply spec_bind _ _ _ _ _ (spec_of_rspec _ _ _ (parseDoctypeStart_spec T hT txt hs hp))
  rintro s1 ⟨h1, c, r, hr, hc⟩
  have hnoop : s1.skipSpaces T = s1 := by
    apply skipSpaces_noop T s1 c r hr
    rcases hc with rfl | rfl
    · exact hT.lbr_not_space
    · exact hT.gt_not_space
  simp only [hnoop, hr]
  have hlt : c < 128 := by rcases hc with rfl | rfl <;> decide
  have hstep := step_ascii h1.1.2 c r hr hlt
  split
  · exact spec_pure _ _ _ (Step.trans h1.1 hstep)
  · apply spec_bind _ _ _ (fun s3 => Step txt s1 s3)
    · unfold Stream.advance
      have : 1 ≤ s1.rest.length := by rw [hr]; simp
      simp only [this, if_true]
      apply spec_of_rspec
      apply rspec_ok
      have : s1.rest.drop 1 = r := by rw [hr]; rfl
      rw [this]; exact hstep
    intro s3 h3
    exact spec_weaken (doctypeLoop_spec T hT txt s.pos _ s3 (by omega) h3.2)
      (fun _ h => Step.trans h1.1 (Step.trans h3 h))

theorem startTagLoop_spec : ∀ (fuel : Nat) (s : Stream), s.rest.length < fuel → SOk txt s →
    Spec (startTagLoop T txt fuel s) (TokOk txt) (fun p => Step txt s p.1) := by
  intro fuel
  induction fuel with
  | zero => intro s h; omega
  | succ n ih =>
    intro s hf hs
    unfold startTagLoop
    split
    · exact spec_pure _ _ _ (Step.refl hs)
    · rename_i hne
      have h1 := skipSpaces_step T hT hs
      have hl1 := h1.len_le
      simp only
      apply spec_bind _ _ _ (fun c => ∃ r, (s.skipSpaces T).rest = c :: r)
      · apply spec_of_rspec
        unfold Stream.currByte
        split
        · exact rspec_err _ _
        · rename_i b r hr; exact rspec_ok _ _ ⟨r, hr⟩
      rintro c ⟨r, hr⟩
      split
      · rename_i hc
        have : c = bSlash := by simpa using hc
        subst this
        apply spec_bind _ _ _ (fun s2 => Step txt (s.skipSpaces T) s2)
        · apply spec_of_rspec
          unfold Stream.advance
          have : 1 ≤ (s.skipSpaces T).rest.length := by rw [hr]; simp
          simp only [this, if_true]
          apply rspec_ok
          have hd : (s.skipSpaces T).rest.drop 1 = r := by rw [hr]; rfl
          rw [hd]; exact step_ascii h1.2 bSlash r hr (by decide)
        intro s2 h2
        apply spec_bind _ _ _ _ _ (spec_of_rspec _ _ _ (consumeByte_spec h2.2 bGt (by decide)))
        rintro s3 ⟨h3, _⟩
        apply spec_bind _ _ _ (fun _ => True) _ (spec_emit _ _ ((Step.trans h2 h3).range h1.2))
        intro _ _
        exact spec_pure _ _ _ (Step.trans h1 (Step.trans h2 h3))
      · split
        · rename_i _ hc
          have : c = bGt := by simpa using hc
          subst this
          apply spec_bind _ _ _ (fun s2 => Step txt (s.skipSpaces T) s2)
          · apply spec_of_rspec
            unfold Stream.advance
            have : 1 ≤ (s.skipSpaces T).rest.length := by rw [hr]; simp
            simp only [this, if_true]
            apply rspec_ok
            have hd : (s.skipSpaces T).rest.drop 1 = r := by rw [hr]; rfl
            rw [hd]; exact step_ascii h1.2 bGt r hr (by decide)
          intro s2 h2
          apply spec_bind _ _ _ (fun _ => True) _ (spec_emit _ _ (h2.range h1.2))
          intro _ _
          exact spec_pure _ _ _ (Step.trans h1 h2)
        · -- an attribute
          apply spec_bind _ _ _ (fun s2 => Step txt (s.skipSpaces T) s2)
          · apply spec_of_rspec
            split
            · exact consumeSpaces_spec T hT h1.2
            · exact rspec_ok _ _ (Step.refl h1.2)
          intro s2 h2
          apply spec_bind _ _ _ _ _ (spec_of_rspec _ _ _ (consumeQName_spec T txt h2.2))
          rintro ⟨s3, pfx, loc⟩ ⟨h3, hsp, hsl, _⟩
          simp only at h3 hsp hsl ⊢
          apply spec_bind _ _ _ _ _ (spec_of_rspec _ _ _ (consumeEq_spec T hT h3.2))
          intro s4 h4
          apply spec_bind _ _ _ _ _ (spec_of_rspec _ _ _ (consumeQuote_spec h4.2))
          rintro ⟨s5, q⟩ ⟨h5, hq, _⟩
          simp only at h5 ⊢
          apply spec_bind _ _ _ _ _ (spec_of_rspec _ _ _ (advanceUntil2_spec txt h5.2 q bLt hq (by decide)))
          rintro ⟨s6, value⟩ ⟨h6, hsv, hvoff, htk, hnolt⟩
          simp only at h6 hsv hvoff htk hnolt ⊢
          have hvu : SpanU txt value := by
            have := htk.spanU h5.2 h6.2
            rw [← hvoff] at this; exact this
          have hvv : ValidUtf8 value.bytes := by
            rw [htk.2.2.2]
            apply valid_prefix _ _ h5.2.utf8
            rw [← htk.2.2.1]; exact h6.2.utf8
          apply spec_bind _ _ _ (fun _ => True) _ (spec_of_rspec _ _ _ (isXmlStr_safe T txt value hvv))
          intro _ _
          apply spec_bind _ _ _ _ _ (spec_of_rspec _ _ _ (consumeByte_spec h6.2 q hq))
          rintro s7 ⟨h7, hp7⟩
          have h27 := Step.trans h2 (Step.trans h3 (Step.trans h4 (Step.trans h5 (Step.trans h6 h7))))
          apply spec_bind _ _ _ (fun _ => True) _
            (spec_emit _ _ ⟨h27.range h1.2, hsp, hsl, hvu, fun b hb => (hnolt b hb).2⟩)
          intro _ _
          have hlen : s7.rest.length < (s.skipSpaces T).rest.length := by
            have e := h27.1.len
            have l3 := h3.1.pos_le; have l4 := h4.1.pos_le; have l5 := h5.1.pos_le; have l6 := h6.1.pos_le
            have l2 := h2.1.pos_le
            simp only at *
            omega
          exact spec_weaken (ih s7 (by omega) h7.2) (fun _ h => Step.trans h1 (Step.trans h27 h))

theorem parseStartTag_spec {s : Stream} (hs : SOk txt s) (b : UInt8) (r : Bytes) (hr : s.rest = b :: r)
    (hb : b < 128) : Spec (parseStartTag T txt s) (TokOk txt) (fun p => Step1 txt s p.1) := by
  unfold parseStartTag
  apply spec_bind _ _ _ (fun s1 => Step txt s s1 ∧ s1.pos = s.pos + 1)
  · apply spec_of_rspec
    unfold Stream.advance
    have : 1 ≤ s.rest.length := by rw [hr]; simp
    simp only [this, if_true]
    apply rspec_ok
    have hd : s.rest.drop 1 = r := by rw [hr]; rfl
    rw [hd]; exact ⟨step_ascii hs b r hr hb, rfl⟩
  rintro s1 ⟨h1, hp1⟩
  apply spec_bind _ _ _ _ _ (spec_of_rspec _ _ _ (consumeQName_spec T txt h1.2))
  rintro ⟨s2, pfx, loc⟩ ⟨h2, hsp, hsl, hne⟩
  simp only at h2 hsp hsl hne ⊢
  apply spec_bind _ _ _ (fun _ => True) _ (spec_emit _ _ ⟨hsp, hsl, by have := hs.bound; have := hs.pos_boundary; omega, hne, hs.pos_boundary.2⟩)
  intro _ _
  apply spec_bind _ _ _ _ _ (startTagLoop_spec T hT txt _ s2 (by omega) h2.2)
  rintro ⟨s3, fin⟩ h3
  simp only at h3 ⊢
  split
  · exact spec_of_rspec _ _ _ (rspec_err _ _)
  · refine spec_pure _ _ _ ⟨Step.trans h1 (Step.trans h2 h3), ?_⟩
    have := h2.1.pos_le; have := h3.1.pos_le; simp only at *; omega

theorem parseCdata_spec {s : Stream} (hs : SOk txt s) (hp : s.startsWith Lit.cdataStart = true) :
    Spec (parseCdata T txt s) (TokOk txt) (Step1 txt s) := by
  unfold parseCdata
  apply spec_bind _ _ _ (fun s1 => Step txt s s1 ∧ s1.pos = s.pos + 9)
  · exact spec_of_rspec _ _ _ (advance_lit hs Lit.cdataStart hp (lit_valid _ (by decide)))
  rintro s1 ⟨h1, hp1⟩
  apply spec_bind _ _ _ _ _ (spec_of_rspec _ _ _ (consumeChars_spec T txt _ h1.2))
  rintro ⟨s2, text⟩ ⟨h2, hsp, _, _⟩
  apply spec_bind _ _ _ _ _ (spec_of_rspec _ _ _ (skipString_spec h2.2 Lit.cdataEnd (lit_valid _ (by decide))))
  rintro s3 ⟨h3, _⟩
  have h13 := Step.trans h1 (Step.trans h2 h3)
  apply spec_bind _ _ _ (fun _ => True) _ (spec_emit _ _ ⟨hsp, h13.range hs⟩)
  intro _ _
  refine spec_pure _ _ _ ⟨h13, ?_⟩
  have := h2.1.pos_le; have := h3.1.pos_le; omega

theorem parseCloseElement_spec {s : Stream} (hs : SOk txt s) (hp : s.startsWith [60, 47] = true) :
    Spec (parseCloseElement T txt s) (TokOk txt) (Step1 txt s) := by
  unfold parseCloseElement
  apply spec_bind _ _ _ (fun s1 => Step txt s s1 ∧ s1.pos = s.pos + 2)
  · exact spec_of_rspec _ _ _ (advance_lit hs [60, 47] hp (lit_valid _ (by decide)))
  rintro s1 ⟨h1, hp1⟩
  apply spec_bind _ _ _ _ _ (spec_of_rspec _ _ _ (consumeQName_spec T txt h1.2))
  rintro ⟨s2, pfx, loc⟩ ⟨h2, hsp, hsl, _⟩
  simp only at h2 hsp hsl ⊢
  have h3 := skipSpaces_step T hT h2.2
  apply spec_bind _ _ _ _ _ (spec_of_rspec _ _ _ (consumeByte_spec h3.2 bGt (by decide)))
  rintro s4 ⟨h4, _⟩
  have h14 := Step.trans h1 (Step.trans h2 (Step.trans h3 h4))
  apply spec_bind _ _ _ (fun _ => True) _ (spec_emit _ _ ⟨hsp, hsl, h14.range hs⟩)
  intro _ _
  refine spec_pure _ _ _ ⟨h14, ?_⟩
  have := h2.1.pos_le; have := h3.1.pos_le; have := h4.1.pos_le; omega

theorem parseText_spec {s : Stream} (hs : SOk txt s) (b : UInt8) (r : Bytes) (hr : s.rest = b :: r)
    (hb : b ≠ bLt) : Spec (parseText T txt s) (TokOk txt) (Step1 txt s) := by
  unfold parseText
  apply spec_bind _ _ _ (fun (p : Stream × Span) => Step txt s p.1 ∧ SpanOk txt p.2 ∧ p.2.off = s.pos ∧
      Took s p.1 p.2.bytes ∧ s.pos < p.1.pos)
  · apply spec_of_rspec
    -- the first character is consumed (it is not '<'), unless it is not an XML character (error)
    have hc := consumeChars_spec T txt (fun _ c => c != 60) hs
    refine ⟨?_, hc.safe⟩
    intro p hp
    obtain ⟨h1, h2, h3, h4⟩ := hc.post p hp
    refine ⟨h1, h2, h3, h4, ?_⟩
    -- progress: unfold one step of the scan
    unfold Stream.consumeChars at hp
    rw [Res.bind_eq_ok] at hp
    obtain ⟨⟨s', run⟩, hsk, hp⟩ := hp
    res_norm at hp
    obtain ⟨rfl, rfl⟩ := hp
    simp only
    unfold Stream.skipCharsAux at hsk
    rw [hr] at hsk
    simp only at hsk
    obtain ⟨c, w, hd⟩ := decode_some hs b r hr
    rw [hr] at hd
    simp only [hd] at hsk
    split at hsk
    · exact absurd hsk (by unfold errAt; split <;> simp)
    · have hcb : (c != 60) = true := by
        -- the first byte is not '<', so the first character is not '<'
        have hdec := hd
        unfold decodeChar at hdec
        by_cases hlt : b < 0x80
        · simp only [hlt, if_true, Option.some.injEq, Prod.mk.injEq] at hdec
          rw [← hdec.1]
          simp only [bne_iff_ne, ne_eq]
          intro h60
          apply hb
          apply UInt8.toNat_inj.mp
          simpa [bLt] using h60
        · simp only [hlt, if_false] at hdec
          -- a multi-byte character has a code point ≥ 0x80 … it suffices that c ≠ 60 for widths ≥ 2:
          -- obtained from the validity of the encoding (charOk)
          obtain ⟨c', w', hd', hok, _⟩ := (valid_cons b r).mp (by rw [← hr]; exact hs.utf8)
          rw [hd] at hd'
          simp only [Option.some.injEq, Prod.mk.injEq] at hd'
          obtain ⟨rfl, rfl⟩ := hd'
          have hw1 : w ≠ 1 := by
            intro hw
            subst hw
            split at hdec
            · simp at hdec
            · split at hdec
              · split at hdec
                · split at hdec <;> simp at hdec
                · simp at hdec
              · split at hdec
                · split at hdec
                  · split at hdec <;> simp at hdec
                  · simp at hdec
                · split at hdec
                  · split at hdec
                    · split at hdec <;> simp at hdec
                    · simp at hdec
                  · simp at hdec
          simp only [charOk, Bool.and_eq_true, Bool.or_eq_true, beq_iff_eq, decide_eq_true_eq] at hok
          simp only [bne_iff_ne, ne_eq]
          intro h60
          subst h60
          omega
      simp only [hcb, if_true] at hsk
      have hw := decodeChar_width _ _ _ hd
      split at hsk
      · -- the rest of the scan only moves forward
        have hstep := step_char hs c w (by rw [hr]; exact hd)
        have hrest := skipCharsAux_spec T txt (fun _ c => c != 60) (s.rest.length) ⟨s.pos + w, (b :: r).drop w⟩
          (((b :: r).take w).reverse ++ []) (by rw [hr]; simp only [List.length_drop]; omega)
          (by have := hstep.2.2; rw [hr] at this; exact this)
        rw [hr] at hrest
        simp only [List.length_cons, Nat.add_sub_cancel] at hrest hsk
        obtain ⟨run', ht', _, _⟩ := hrest.post _ hsk
        have := ht'.adv.pos_le
        simp only at this
        omega
      · simp at hsk
  rintro ⟨s1, text⟩ ⟨h1, hsp, hoff, htk, hlt⟩
  simp only at h1 hsp hoff htk hlt ⊢
  split
  · exact spec_of_rspec _ _ _ (errAt_safe h1.2 _ _)
  · rename_i hcd
    apply spec_bind _ _ _ (fun _ => True)
    · apply spec_emit
      have hu := htk.spanU hs h1.2
      rw [← hoff] at hu
      refine ⟨hu, h1.range hs, ?_, by simpa using hcd⟩
      rw [hoff, htk.2.1]
    intro _ _
    exact spec_pure _ _ _ ⟨h1, hlt⟩

omit hT in
theorem startsWith_two {s : Stream} (b n : UInt8) (r : Bytes) (hr : s.rest = b :: r)
    (hn : s.nextByte = .ok n) : s.startsWith [b, n] = true := by
  unfold Stream.nextByte at hn
  rw [hr] at hn
  cases r with
  | nil => simp at hn
  | cons x xs =>
    simp at hn
    subst hn
    simp [Stream.startsWith, hr]

theorem parseContent_spec : ∀ (fuel depth : Nat) (s : Stream), s.rest.length < fuel → SOk txt s →
    Spec (parseContent T txt fuel depth s) (TokOk txt) (Step txt s) := by
  intro fuel
  induction fuel with
  | zero => intro d s h; omega
  | succ n ih =>
    intro depth s hf hs
    unfold parseContent
    split
    · exact spec_pure _ _ _ (Step.refl hs)
    · rename_i c r hr
      have cont : ∀ (d' : Nat) (m : TM Stream), Spec m (TokOk txt) (Step1 txt s) →
          Spec (m >>= fun s' => parseContent T txt n d' s') (TokOk txt) (Step txt s) := by
        intro d' m hm
        apply spec_bind _ _ _ _ _ hm
        intro s2 h2
        have := h2.len
        exact spec_weaken (ih d' s2 (by omega) h2.1.2) (fun _ h => Step.trans h2.1 h)
      split
      · rename_i hc
        have hcl : c = bLt := by simpa using hc
        subst hcl
        split
        · rename_i nb hnb
          split
          · split
            · rename_i hcs
              exact cont depth _ (parseComment_spec T hT txt hs hcs)
            · split
              · rename_i hcs
                exact cont depth _ (parseCdata_spec T hT txt hs hcs)
              · exact spec_of_rspec _ _ _ (errAt_safe hs _ _)
          · split
            · rename_i _ hq
              have : nb = bQuest := by simpa using hq
              subst this
              have hsw := startsWith_two bLt bQuest r hr hnb
              exact cont depth _ (parsePi_spec T hT txt hs hsw)
            · split
              · rename_i _ _ hsl
                have : nb = bSlash := by simpa using hsl
                subst this
                have hsw := startsWith_two bLt bSlash r hr hnb
                apply spec_bind _ _ _ _ _ (parseCloseElement_spec T hT txt hs hsw)
                intro s2 h2
                split
                · exact spec_pure _ _ _ h2.1
                · have := h2.len
                  exact spec_weaken (ih _ s2 (by omega) h2.1.2) (fun _ h => Step.trans h2.1 h)
              · apply spec_bind _ _ _ _ _ (parseStartTag_spec T hT txt hs bLt r hr (by decide))
                rintro ⟨s2, opened⟩ h2
                simp only at h2 ⊢
                have := h2.len
                exact spec_weaken (ih _ s2 (by omega) h2.1.2) (fun _ h => Step.trans h2.1 h)
        · exact spec_of_rspec _ _ _ (errAt_safe hs _ _)
      · rename_i hc
        have hne : c ≠ bLt := by simpa using hc
        exact cont depth _ (parseText_spec T hT txt hs c r hr hne)

theorem parseElement_spec {s : Stream} (hs : SOk txt s) (r : Bytes) (hr : s.rest = bLt :: r) :
    Spec (parseElement T txt s) (TokOk txt) (Step txt s) := by
  unfold parseElement
  apply spec_bind _ _ _ _ _ (parseStartTag_spec T hT txt hs bLt r hr (by decide))
  rintro ⟨s2, opened⟩ h2
  simp only at h2 ⊢
  split
  · exact spec_weaken (parseContent_spec T hT txt _ 0 s2 (by omega) h2.1.2) (fun _ h => Step.trans h2.1 h)
  · exact spec_pure _ _ _ h2.1

omit hT in
/-- the whole input is a well-formed cursor -/
theorem sok_new (hv : ValidUtf8 txt) : SOk txt (Stream.new txt) := by
  refine ⟨?_, by simp [Stream.new], hv, ?_⟩
  · simp [Stream.new, sliceBytes]
  · simp only [Stream.new, Nat.zero_add]
    unfold isCharBoundary
    by_cases h0 : txt.length = 0
    · simp [h0]
    · simp [h0]

theorem parseProlog_spec (hv : ValidUtf8 txt) :
    Spec (parseProlog T txt) (TokOk txt) (fun s => SOk txt s) := by
  unfold parseProlog
  have hs0 := sok_new txt hv
  apply spec_bind _ _ _ (fun s1 => SOk txt s1)
  · apply spec_of_rspec
    split
    · rename_i hb
      have : ValidUtf8 Lit.bom := by unfold ValidUtf8; decide
      exact rspec_weaken (advance_lit hs0 Lit.bom hb this) (fun _ h => h.1.2)
    · exact rspec_ok _ _ hs0
  intro s1 h1
  apply spec_bind _ _ _ (fun s2 => SOk txt s2)
  · apply spec_of_rspec
    split
    · rename_i hd
      exact rspec_weaken (parseDeclaration_spec T hT txt h1 hd) (fun _ h => h.2)
    · exact rspec_ok _ _ h1
  intro s2 h2
  apply spec_bind _ _ _ _ _ (parseMisc_spec T hT txt _ s2 (by omega) h2)
  intro s3 h3
  exact spec_pure _ _ _ (skipSpaces_step T hT h3.2).2

theorem parseBody_spec {s : Stream} (hs : SOk txt s) :
    Spec (parseBody T txt s) (TokOk txt) (fun _ => True) := by
  unfold parseBody
  have h1 := skipSpaces_step T hT hs
  apply spec_bind _ _ _ (fun s2 => SOk txt s2)
  · unfold parseRootElement
    split
    · rename_i hc
      cases hr : (s.skipSpaces T).rest with
      | nil => simp [Stream.currByte?, hr] at hc
      | cons b r =>
        have : b = bLt := by simpa [Stream.currByte?, hr] using hc
        subst this
        exact spec_weaken (parseElement_spec T hT txt h1.2 r hr) (fun _ h => h.2)
    · exact spec_pure _ _ _ h1.2
  intro s2 h2
  apply spec_bind _ _ _ _ _ (parseMisc_spec T hT txt _ s2 (by omega) h2)
  intro s3 h3
  split
  · exact spec_of_rspec _ _ _ (errAt_safe h3.2 _ _)
  · exact spec_pure _ _ _ trivial

/-- **The tokenizer is total and well-behaved** (all valid UTF-8 inputs, both option values): it
never reaches a panic site, never runs out of fuel (it terminates), and every token it delivers
carries strings that are slices of the input and ranges inside the input. -/
theorem parseDocument_spec (hv : ValidUtf8 txt) (allowDtd : Bool) :
    Spec (parseDocument T txt allowDtd) (TokOk txt) (fun _ => True) := by
  unfold parseDocument
  apply spec_bind _ _ _ _ _ (parseProlog_spec T hT txt hv)
  intro s1 h1
  split
  · rename_i hd
    split
    · exact spec_of_rspec _ _ _ (rspec_err _ _)
    · apply spec_bind _ _ _ _ _ (parseDoctype_spec T hT txt h1 hd)
      intro s2 h2
      apply spec_bind _ _ _ _ _ (parseMisc_spec T hT txt _ s2 (by omega) h2.2)
      intro s3 h3
      exact parseBody_spec T hT txt h3.2
  · exact parseBody_spec T hT txt h1

end
end Rox.Lemmas
