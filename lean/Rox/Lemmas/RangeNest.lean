/-
  Rox.Lemmas.RangeNest — C13: for nodes written directly in the document (no entity expansion:
  `allow_dtd = false`, the default), a child's range lies within its parent's, and the ranges of
  siblings are disjoint and ascending.
-/
import Rox.Parse
import Rox.Lemmas.TokSpec
import Rox.Lemmas.RangeOrd
import Rox.Lemmas.EntFrame
import Rox.Props.C16Base

namespace Rox.Lemmas
open Rox Rox.Spec

def rangeOf (a : Arena) (i : Nat) : Range := ((a[i]?).map (·.range)).getD (0, 0)

/-! ### The nesting automaton: every positioned token lies at or after the previous one -/

/-- automaton state: the position reached, and whether a start tag is pending (an `ElementStart`
was the last token apart from attributes) -/
abbrev NSt := Nat × Bool

def endNeedsTag : EndKind → Bool
  | .close _ _ => false
  | _ => true

/-- One token seen from position `st.1`: a leaf token (comment, PI, CDATA, text) starts at or after
it and moves it to the token's end; an `ElementStart` lies at or after it; attributes are neutral;
an `ElementEnd` ends at or after it, and the `>` / `/>` of a start tag only arrives while the tag is
pending; no `EntityDeclaration` is delivered. -/
def NStep (st : NSt) (t : Token) (st' : NSt) : Prop :=
  match t with
  | .comment _ r => st.1 ≤ r.1 ∧ st' = (r.2, false)
  | .cdata _ r => st.1 ≤ r.1 ∧ st' = (r.2, false)
  | .pi _ _ r => st.1 ≤ r.1 ∧ st' = (r.2, false)
  | .text _ r => st.1 ≤ r.1 ∧ st' = (r.2, false)
  | .elementStart _ _ s => st.1 ≤ s ∧ st' = (s, true)
  | .attribute _ _ _ _ _ _ => st' = st
  | .entityDecl _ _ => False
  | .elementEnd e r => (endNeedsTag e = true → st.2 = true) ∧ st.1 ≤ r.2 ∧ st' = (r.2, false)

def NRun : NSt → List Token → NSt → Prop
  | st, [], st' => st' = st
  | st, t :: ts, st' => ∃ s1, NStep st t s1 ∧ NRun s1 ts st'

theorem nRun_append : ∀ (l1 l2 : List Token) (st s1 s2 : NSt),
    NRun st l1 s1 → NRun s1 l2 s2 → NRun st (l1 ++ l2) s2 := by
  intro l1
  induction l1 with
  | nil => intro l2 st s1 s2 h1 h2; simp only [NRun] at h1; subst h1; simpa using h2
  | cons t ts ih =>
    intro l2 st s1 s2 h1 h2
    obtain ⟨c0, hs, hr⟩ := h1
    exact ⟨c0, hs, ih l2 c0 s1 s2 hr h2⟩

open Rox.TM in
/-- From `st` the nesting automaton accepts every token `m` delivers; if `m` succeeds with `a` the
final state satisfies `Q a`. -/
def NF {α} (m : TM α) (st : NSt) (Q : α → NSt → Prop) : Prop :=
  ∃ st', NRun st m.1 st' ∧ (∀ a, m.2 = .ok a → Q a st')

section nf
open Rox.TM

theorem nf_pure {α} (a : α) (st : NSt) (Q : α → NSt → Prop) (h : Q a st) :
    NF (pure a : TM α) st Q :=
  ⟨st, by simp [pure, pure', NRun], fun b hb => by
    simp [pure, pure'] at hb; subst hb; exact h⟩

theorem nf_lift {α} (r : Res α) (st : NSt) (Q : α → NSt → Prop) (h : ∀ a, r = .ok a → Q a st) :
    NF (lift r) st Q :=
  ⟨st, by simp [lift, NRun], fun a ha => h a (by simpa [lift] using ha)⟩

theorem nf_fail {α} (r : Res α) (st : NSt) (Q : α → NSt → Prop) (h : ∀ a, r ≠ .ok a) :
    NF (lift r) st Q :=
  nf_lift r st Q (fun a ha => absurd ha (h a))

theorem nf_emit (t : Token) (st st' : NSt) (Q : Unit → NSt → Prop) (h : NStep st t st')
    (hQ : Q () st') : NF (emit t) st Q :=
  ⟨st', ⟨st', h, rfl⟩, fun _ _ => hQ⟩

theorem nf_bind {α β} (m : TM α) (k : α → TM β) (st : NSt) (P : α → NSt → Prop)
    (Q : β → NSt → Prop) (hm : NF m st P)
    (hk : ∀ a c1, m.2 = .ok a → P a c1 → NF (k a) c1 Q) : NF (m >>= k) st Q := by
  obtain ⟨t1, r⟩ := m
  obtain ⟨c1, hrun, hq⟩ := hm
  cases r with
  | ok a =>
    obtain ⟨c2, hrun2, hq2⟩ := hk a c1 rfl (hq a rfl)
    simp only [bind, bind']
    exact ⟨c2, nRun_append _ _ _ _ _ hrun hrun2, hq2⟩
  | err e => simp only [bind, bind']; exact ⟨c1, hrun, fun a ha => by simp at ha⟩
  | panic s => simp only [bind, bind']; exact ⟨c1, hrun, fun a ha => by simp at ha⟩
  | fuel => simp only [bind, bind']; exact ⟨c1, hrun, fun a ha => by simp at ha⟩

/-- a token-free step whose result is described by `P` -/
theorem nf_bind_lift {α β} (r : Res α) (k : α → TM β) (st : NSt) (Q : β → NSt → Prop)
    (P : α → Prop) (hr : ∀ a, r = .ok a → P a) (hk : ∀ a, P a → NF (k a) st Q) :
    NF (lift r >>= k) st Q :=
  nf_bind _ _ _ (fun a c => c = st ∧ P a) _ (nf_lift _ _ _ (fun a ha => ⟨rfl, hr a ha⟩))
    (fun a c1 _ h => by obtain ⟨h1, h2⟩ := h; subst h1; exact hk a h2)

/-- emit a token, then return `a` -/
theorem nf_emit_pure {α} (t : Token) (a : α) (st st' : NSt) (Q : α → NSt → Prop)
    (h : NStep st t st') (hQ : Q a st') : NF (emit t >>= fun _ => (pure a : TM α)) st Q :=
  nf_bind _ _ _ (fun _ c => c = st') _ (nf_emit _ _ st' _ h rfl)
    (fun _ c1 _ h1 => by subst h1; exact nf_pure _ _ _ hQ)

end nf

/-! ### The tokenizer's token stream is accepted by the nesting automaton -/

section tok
open Rox.TM
variable (T : Tables) (hT : TablesOK T) (txt : Bytes)

theorem parseComment_nf (s : Stream) (st : NSt) (hc : st.1 ≤ s.pos) :
    NF (parseComment T txt s) st (fun s' st' => st'.1 ≤ s'.pos) := by
  unfold parseComment
  apply nf_bind_lift _ _ _ _ (fun _ => True) (fun _ _ => trivial)
  intro s1 _
  apply nf_bind_lift _ _ _ _ (fun _ => True) (fun _ _ => trivial)
  rintro ⟨s2, text⟩ _
  simp only
  apply nf_bind_lift _ _ _ _ (fun _ => True) (fun _ _ => trivial)
  intro s3 _
  split
  · exact nf_fail _ _ _ (errFrom_ne_ok _ _ _)
  · split
    · exact nf_fail _ _ _ (errFrom_ne_ok _ _ _)
    · exact nf_emit_pure _ _ _ (s3.pos, false) _ ⟨hc, rfl⟩ (Nat.le_refl _)

theorem parseCdata_nf (s : Stream) (st : NSt) (hc : st.1 ≤ s.pos) :
    NF (parseCdata T txt s) st (fun s' st' => st'.1 ≤ s'.pos) := by
  unfold parseCdata
  apply nf_bind_lift _ _ _ _ (fun _ => True) (fun _ _ => trivial)
  intro s1 _
  apply nf_bind_lift _ _ _ _ (fun _ => True) (fun _ _ => trivial)
  rintro ⟨s2, text⟩ _
  simp only
  apply nf_bind_lift _ _ _ _ (fun _ => True) (fun _ _ => trivial)
  intro s3 _
  exact nf_emit_pure _ _ _ (s3.pos, false) _ ⟨hc, rfl⟩ (Nat.le_refl _)

theorem parsePi_nf (s : Stream) (st : NSt) (hc : st.1 ≤ s.pos) :
    NF (parsePi T txt s) st (fun s' st' => st'.1 ≤ s'.pos) := by
  unfold parsePi
  split
  · exact nf_fail _ _ _ (errAt_ne_ok _ _ _)
  · apply nf_bind_lift _ _ _ _ (fun _ => True) (fun _ _ => trivial)
    intro s1 _
    apply nf_bind_lift _ _ _ _ (fun _ => True) (fun _ _ => trivial)
    rintro ⟨s2, target⟩ _
    simp only
    apply nf_bind_lift _ _ _ _ (fun _ => True) (fun _ _ => trivial)
    intro s3 _
    apply nf_bind_lift _ _ _ _ (fun _ => True) (fun _ _ => trivial)
    rintro ⟨s4, content⟩ _
    simp only
    apply nf_bind_lift _ _ _ _ (fun _ => True) (fun _ _ => trivial)
    intro s5 _
    exact nf_emit_pure _ _ _ (s5.pos, false) _ ⟨hc, rfl⟩ (Nat.le_refl _)

theorem parseText_nf (s : Stream) (st : NSt) (hc : st.1 ≤ s.pos) :
    NF (parseText T txt s) st (fun s' st' => st'.1 ≤ s'.pos) := by
  unfold parseText
  apply nf_bind_lift _ _ _ _ (fun _ => True) (fun _ _ => trivial)
  rintro ⟨s1, text⟩ _
  simp only
  split
  · exact nf_fail _ _ _ (errAt_ne_ok _ _ _)
  · exact nf_emit_pure _ _ _ (s1.pos, false) _ ⟨hc, rfl⟩ (Nat.le_refl _)

include hT

theorem parseMisc_nf : ∀ (fuel : Nat) (s : Stream) (st : NSt), SOk txt s → st.1 ≤ s.pos →
    NF (parseMisc T txt fuel s) st (fun s' st' => st'.1 ≤ s'.pos) := by
  intro fuel
  induction fuel with
  | zero => intro s st _ _; unfold parseMisc; exact nf_fail _ _ _ (by simp)
  | succ n ih =>
    intro s st hs hc
    unfold parseMisc
    split
    · exact nf_pure _ _ _ hc
    · have h1 := skipSpaces_step T hT hs
      have hp1 := h1.1.pos_le
      simp only
      split
      · rename_i hcs
        refine nf_bind _ _ _ _ _ (parseComment_nf T txt _ st (by omega)) ?_
        intro s2 c1 hok hc1
        exact ih s2 c1 ((parseComment_spec T hT txt h1.2 hcs).post s2 hok).1.2 hc1
      · split
        · rename_i hcs
          refine nf_bind _ _ _ _ _ (parsePi_nf T txt _ st (by omega)) ?_
          intro s2 c1 hok hc1
          exact ih s2 c1 ((parsePi_spec T hT txt h1.2 hcs).post s2 hok).1.2 hc1
        · exact nf_pure _ _ _ (by omega)

theorem parseProlog_nf (hv : ValidUtf8 txt) :
    NF (parseProlog T txt) (0, false) (fun s' st' => st'.1 ≤ s'.pos) := by
  unfold parseProlog
  have hs0 := sok_new txt hv
  apply nf_bind_lift _ _ _ _ (fun s1 => SOk txt s1)
  · intro s1 h1
    split at h1
    · rename_i hb
      have : ValidUtf8 Lit.bom := by unfold ValidUtf8; decide
      exact ((advance_lit hs0 Lit.bom hb this).post s1 h1).1.2
    · simp only [Res.ok.injEq] at h1; subst h1; exact hs0
  intro s1 h1
  apply nf_bind_lift _ _ _ _ (fun s2 => SOk txt s2)
  · intro s2 h2
    split at h2
    · rename_i hd
      exact ((parseDeclaration_spec T hT txt h1 hd).post s2 h2).2
    · simp only [Res.ok.injEq] at h2; subst h2; exact h1
  intro s2 h2
  refine nf_bind _ _ _ _ _ (parseMisc_nf T hT txt _ s2 (0, false) h2 (Nat.zero_le _)) ?_
  intro s3 c1 hok h3
  have hs3 := (parseMisc_spec T hT txt _ s2 (by omega) h2).post s3 hok
  have := (skipSpaces_step T hT hs3.2).1.pos_le
  exact nf_pure _ _ _ (by omega)

/-- The close tag ends at or after every earlier position. -/
theorem parseCloseElement_nf {s : Stream} (hs : SOk txt s) (hp : s.startsWith [60, 47] = true)
    (st : NSt) (hc : st.1 ≤ s.pos) :
    NF (parseCloseElement T txt s) st (fun s' st' => st'.1 ≤ s'.pos) := by
  unfold parseCloseElement
  apply nf_bind_lift _ _ _ _ (fun s1 => Step txt s s1 ∧ s1.pos = s.pos + 2)
    (advance_lit hs [60, 47] hp (lit_valid _ (by decide))).post
  rintro s1 ⟨h1, hp1⟩
  apply nf_bind_lift _ _ _ _ _ (consumeQName_spec T txt h1.2).post
  rintro ⟨s2, pfx, loc⟩ ⟨h2, hsp, hsl, _⟩
  simp only at h2 hsp hsl ⊢
  have h3 := skipSpaces_step T hT h2.2
  apply nf_bind_lift _ _ _ _ _ (consumeByte_spec h3.2 bGt (by decide)).post
  rintro s4 ⟨h4, _⟩
  have hle : st.1 ≤ s4.pos := by
    have := h1.1.pos_le; have := h2.1.pos_le; have := h3.1.pos_le; have := h4.1.pos_le; omega
  exact nf_emit_pure _ _ _ (s4.pos, false) _ ⟨by simp [endNeedsTag], hle, rfl⟩ (Nat.le_refl _)

/-- The attribute loop, entered with a pending start tag. -/
theorem startTagLoop_nf : ∀ (fuel : Nat) (s : Stream) (cur : Nat), SOk txt s → cur ≤ s.pos →
    NF (startTagLoop T txt fuel s) (cur, true) (fun p st' => st'.1 ≤ p.1.pos) := by
  intro fuel
  induction fuel with
  | zero => intro s cur _ _; unfold startTagLoop; exact nf_fail _ _ _ (by simp)
  | succ n ih =>
    intro s cur hs hc
    unfold startTagLoop
    split
    · exact nf_pure _ _ _ hc
    · have h1 := skipSpaces_step T hT hs
      have hp1 := h1.1.pos_le
      simp only
      apply nf_bind_lift _ _ _ _ (fun c => ∃ r, (s.skipSpaces T).rest = c :: r)
      · intro c hcb
        unfold Stream.currByte at hcb
        split at hcb
        · simp at hcb
        · rename_i b r hr
          simp only [Res.ok.injEq] at hcb
          subst hcb
          exact ⟨r, hr⟩
      rintro c ⟨r, hr⟩
      have hadv : ∀ (b : UInt8), b < 128 → (s.skipSpaces T).rest = b :: r →
          ∀ s2, (s.skipSpaces T).advance 1 = .ok s2 → Step txt (s.skipSpaces T) s2 := by
        intro b hb hr' s2 h2
        unfold Stream.advance at h2
        have : 1 ≤ (s.skipSpaces T).rest.length := by rw [hr']; simp
        simp only [this, if_true, Res.ok.injEq] at h2
        subst h2
        have hd : (s.skipSpaces T).rest.drop 1 = r := by rw [hr']; rfl
        rw [hd]; exact step_ascii h1.2 b r hr' hb
      split
      · rename_i hc'
        have : c = bSlash := by simpa using hc'
        subst this
        apply nf_bind_lift _ _ _ _ _ (hadv bSlash (by decide) hr)
        intro s2 h2
        apply nf_bind_lift _ _ _ _ _ (consumeByte_spec h2.2 bGt (by decide)).post
        rintro s3 ⟨h3, _⟩
        have hle : cur ≤ s3.pos := by
          have := h2.1.pos_le; have := h3.1.pos_le; omega
        exact nf_emit_pure _ _ _ (s3.pos, false) _ ⟨fun _ => rfl, hle, rfl⟩ (Nat.le_refl _)
      · split
        · rename_i _ hc'
          have : c = bGt := by simpa using hc'
          subst this
          apply nf_bind_lift _ _ _ _ _ (hadv bGt (by decide) hr)
          intro s2 h2
          have hle : cur ≤ s2.pos := by
            have := h2.1.pos_le; omega
          exact nf_emit_pure _ _ _ (s2.pos, false) _ ⟨fun _ => rfl, hle, rfl⟩ (Nat.le_refl _)
        · -- an attribute
          apply nf_bind_lift _ _ _ _ (fun s2 => Step txt (s.skipSpaces T) s2)
          · intro s2 h2
            split at h2
            · exact (consumeSpaces_spec T hT h1.2).post s2 h2
            · simp only [Res.ok.injEq] at h2; subst h2; exact Step.refl h1.2
          intro s2 h2
          apply nf_bind_lift _ _ _ _ _ (consumeQName_spec T txt h2.2).post
          rintro ⟨s3, pfx, loc⟩ ⟨h3, hsp, hsl, _⟩
          simp only at h3 hsp hsl ⊢
          apply nf_bind_lift _ _ _ _ _ (consumeEq_spec T hT h3.2).post
          intro s4 h4
          apply nf_bind_lift _ _ _ _ _ (consumeQuote_spec h4.2).post
          rintro ⟨s5, q⟩ ⟨h5, hq, _⟩
          simp only at h5 ⊢
          apply nf_bind_lift _ _ _ _ _ (advanceUntil2_spec txt h5.2 q bLt hq (by decide)).post
          rintro ⟨s6, value⟩ ⟨h6, hsv, hvoff, htk, hnolt⟩
          simp only at h6 ⊢
          apply nf_bind_lift _ _ _ _ (fun _ => True) (fun _ _ => trivial)
          intro _ _
          apply nf_bind_lift _ _ _ _ _ (consumeByte_spec h6.2 q hq).post
          rintro s7 ⟨h7, hp7⟩
          have hle : cur ≤ s7.pos := by
            have := h2.1.pos_le; have := h3.1.pos_le; have := h4.1.pos_le; have := h5.1.pos_le
            have := h6.1.pos_le; have := h7.1.pos_le; omega
          refine nf_bind _ _ _ (fun _ c => c = (cur, true)) _ (nf_emit _ _ (cur, true) _ rfl rfl) ?_
          intro _ c1 _ h1'
          subst h1'
          exact ih s7 _ h7.2 hle

/-- A start tag: `ElementStart`, attributes, then the `ElementEnd` of the pending tag. -/
theorem parseStartTag_nf {s : Stream} (hs : SOk txt s) (b : UInt8) (r : Bytes) (hr : s.rest = b :: r)
    (hb : b < 128) (st : NSt) (hc : st.1 ≤ s.pos) :
    NF (parseStartTag T txt s) st (fun p st' => st'.1 ≤ p.1.pos) := by
  unfold parseStartTag
  apply nf_bind_lift _ _ _ _ (fun s1 => Step txt s s1)
  · intro s1 h1
    unfold Stream.advance at h1
    have : 1 ≤ s.rest.length := by rw [hr]; simp
    simp only [this, if_true, Res.ok.injEq] at h1
    subst h1
    have hd : s.rest.drop 1 = r := by rw [hr]; rfl
    rw [hd]; exact step_ascii hs b r hr hb
  intro s1 h1
  apply nf_bind_lift _ _ _ _ _ (consumeQName_spec T txt h1.2).post
  rintro ⟨s2, pfx, loc⟩ ⟨h2, hsp, hsl, hne⟩
  simp only at h2 ⊢
  refine nf_bind _ _ _ (fun _ c => c = (s.pos, true)) _
    (nf_emit _ _ (s.pos, true) _ ⟨hc, rfl⟩ rfl) ?_
  intro _ c1 _ h1'
  subst h1'
  have hle : s.pos ≤ s2.pos := by
    have := h1.1.pos_le; have := h2.1.pos_le; omega
  refine nf_bind _ _ _ _ _ (startTagLoop_nf T hT txt _ s2 s.pos h2.2 hle) ?_
  rintro ⟨s3, fin⟩ c1 _ h3
  simp only at h3 ⊢
  split
  · exact nf_fail _ _ _ (by simp)
  · exact nf_pure _ _ _ h3

/-- Element content: every positioned token lies at or after the previous one. -/
theorem parseContent_nf : ∀ (fuel depth : Nat) (s : Stream) (st : NSt), SOk txt s → st.1 ≤ s.pos →
    NF (parseContent T txt fuel depth s) st (fun s' st' => st'.1 ≤ s'.pos) := by
  intro fuel
  induction fuel with
  | zero => intro d s st _ _; unfold parseContent; exact nf_fail _ _ _ (by simp)
  | succ n ih =>
    intro depth s st hs hc
    unfold parseContent
    split
    · exact nf_pure _ _ _ hc
    · rename_i c r hr
      have cont : ∀ (d' : Nat) (m : TM Stream), Spec m (TokOk txt) (Step1 txt s) →
          NF m st (fun s' st' => st'.1 ≤ s'.pos) →
          NF (m >>= fun s' => parseContent T txt n d' s') st (fun s' st' => st'.1 ≤ s'.pos) := by
        intro d' m hm hpf
        refine nf_bind _ _ _ _ _ hpf ?_
        intro s2 c1 hok h1
        have h2 := hm.post s2 hok
        exact ih d' s2 _ h2.1.2 h1
      split
      · rename_i hc'
        have hcl : c = bLt := by simpa using hc'
        subst hcl
        split
        · rename_i nb hnb
          split
          · split
            · rename_i hcs
              exact cont depth _ (parseComment_spec T hT txt hs hcs) (parseComment_nf T txt _ _ hc)
            · split
              · rename_i hcs
                exact cont depth _ (parseCdata_spec T hT txt hs hcs) (parseCdata_nf T txt _ _ hc)
              · exact nf_fail _ _ _ (errAt_ne_ok _ _ _)
          · split
            · rename_i _ hq
              have : nb = bQuest := by simpa using hq
              subst this
              have hsw := startsWith_two bLt bQuest r hr hnb
              exact cont depth _ (parsePi_spec T hT txt hs hsw) (parsePi_nf T txt _ _ hc)
            · split
              · rename_i _ _ hsl
                have : nb = bSlash := by simpa using hsl
                subst this
                have hsw := startsWith_two bLt bSlash r hr hnb
                refine nf_bind _ _ _ _ _ (parseCloseElement_nf T hT txt hs hsw st hc) ?_
                intro s2 c1 hok h1
                have h2 := (parseCloseElement_spec T hT txt hs hsw).post s2 hok
                split
                · exact nf_pure _ _ _ h1
                · exact ih _ s2 _ h2.1.2 h1
              · refine nf_bind _ _ _ _ _
                  (parseStartTag_nf T hT txt hs bLt r hr (by decide) st hc) ?_
                rintro ⟨s2, opened⟩ c1 hok h1
                have h2 := (parseStartTag_spec T hT txt hs bLt r hr (by decide)).post _ hok
                simp only at h1 h2 ⊢
                exact ih _ s2 _ h2.1.2 h1
        · exact nf_fail _ _ _ (errAt_ne_ok _ _ _)
      · rename_i hc'
        have hne : c ≠ bLt := by simpa using hc'
        exact cont depth _ (parseText_spec T hT txt hs c r hr hne) (parseText_nf T txt _ _ hc)

theorem parseElement_nf {s : Stream} (hs : SOk txt s) (r : Bytes) (hr : s.rest = bLt :: r)
    (st : NSt) (hc : st.1 ≤ s.pos) :
    NF (parseElement T txt s) st (fun s' st' => st'.1 ≤ s'.pos) := by
  unfold parseElement
  refine nf_bind _ _ _ _ _ (parseStartTag_nf T hT txt hs bLt r hr (by decide) st hc) ?_
  rintro ⟨s2, opened⟩ c1 hok h1
  have h2 := (parseStartTag_spec T hT txt hs bLt r hr (by decide)).post _ hok
  simp only at h1 h2 ⊢
  split
  · exact parseContent_nf T hT txt _ 0 s2 _ h2.1.2 h1
  · exact nf_pure _ _ _ h1

theorem parseBody_nf {s : Stream} (hs : SOk txt s) (st : NSt) (hc : st.1 ≤ s.pos) :
    NF (parseBody T txt s) st (fun _ _ => True) := by
  unfold parseBody
  have h1 := skipSpaces_step T hT hs
  have hp1 := h1.1.pos_le
  refine nf_bind _ _ _ (fun s' st' => SOk txt s' ∧ st'.1 ≤ s'.pos) _ ?_ ?_
  · unfold parseRootElement
    split
    · rename_i hcb
      cases hr : (s.skipSpaces T).rest with
      | nil => simp [Stream.currByte?, hr] at hcb
      | cons b r =>
        have : b = bLt := by simpa [Stream.currByte?, hr] using hcb
        subst this
        obtain ⟨st1, hrun, hq⟩ := parseElement_nf T hT txt h1.2 r hr st (by omega)
        exact ⟨st1, hrun, fun a ha =>
          ⟨((parseElement_spec T hT txt h1.2 r hr).post a ha).2, hq a ha⟩⟩
    · exact nf_pure _ _ _ ⟨h1.2, by omega⟩
  intro s2 c1 _ h2
  refine nf_bind _ _ _ _ _ (parseMisc_nf T hT txt _ s2 c1 h2.1 h2.2) ?_
  intro s3 c2 _ _
  split
  · exact nf_fail _ _ _ (errAt_ne_ok _ _ _)
  · exact nf_pure _ _ _ trivial

/-- With `allow_dtd = false` the token stream of a document is accepted by the nesting automaton. -/
theorem parseDocument_nf (hv : ValidUtf8 txt) :
    NF (parseDocument T txt false) (0, false) (fun _ _ => True) := by
  unfold parseDocument
  refine nf_bind _ _ _ _ _ (parseProlog_nf T hT txt hv) ?_
  intro s1 c1 hok1 h1
  have hs1 := (parseProlog_spec T hT txt hv).post s1 hok1
  split
  · split
    · exact nf_fail _ _ _ (by simp)
    · rename_i hn
      exact absurd rfl hn
  · exact parseBody_nf T hT txt hs1 c1 h1

end tok

/-! ### The arena seen through its parent links, sibling links and ranges -/

/-- what the invariant looks at in a node: parent, previous sibling, range -/
abbrev NEnt := Option Nat × Option Nat × Range
abbrev NV := Nat → Option NEnt

def nproj (n : NodeData) : NEnt := (n.parent, n.prevSibling, n.range)
def nview (a : Array NodeData) : NV := fun i => (a[i]?).map nproj
def nupd (v : NV) (n : Nat) (e : NEnt) : NV := fun i => if i = n then some e else v i

theorem nview_some {a : Array NodeData} {i : Nat} {nd : NodeData} (h : a[i]? = some nd) :
    nview a i = some (nd.parent, nd.prevSibling, nd.range) := by simp [nview, nproj, h]

theorem nview_eq_some {a : Array NodeData} {i : Nat} {e : NEnt} (h : nview a i = some e) :
    ∃ nd, a[i]? = some nd ∧ e = (nd.parent, nd.prevSibling, nd.range) := by
  unfold nview at h
  cases hh : a[i]? with
  | none => rw [hh] at h; simp at h
  | some nd =>
    rw [hh] at h
    simp only [Option.map_some, Option.some.injEq] at h
    exact ⟨nd, rfl, h.symm⟩

theorem nupd_some {v : NV} {n : Nat} {e x : NEnt} {i : Nat} (h : nupd v n e i = some x) :
    (i = n ∧ x = e) ∨ (i ≠ n ∧ v i = some x) := by
  unfold nupd at h
  split at h
  · rename_i hi
    simp only [Option.some.injEq] at h
    exact Or.inl ⟨hi, h.symm⟩
  · rename_i hi
    exact Or.inr ⟨hi, h⟩

theorem nupd_ne {v : NV} {n : Nat} {e : NEnt} {i : Nat} (h : i ≠ n) : nupd v n e i = v i := by
  simp [nupd, h]

theorem nupd_eq {v : NV} {n : Nat} {e : NEnt} : nupd v n e n = some e := by
  simp [nupd]

/-- The chain of open nodes: each one's parent is the next one (with a smaller id); the last one
has no parent. -/
def NLinked (v : NV) : List Nat → Prop
  | [] => True
  | [x] => ∃ ps r, v x = some (none, ps, r)
  | x :: y :: rest => (∃ ps r, v x = some (some y, ps, r)) ∧ y < x ∧ NLinked v (y :: rest)

theorem NLinked.all_some {v : NV} : ∀ (l : List Nat), NLinked v l → ∀ x ∈ l, ∃ e, v x = some e := by
  intro l
  induction l with
  | nil => intro _ x hx; simp at hx
  | cons a r ih =>
    intro h x hx
    cases r with
    | nil =>
      simp only [List.mem_singleton] at hx
      subst hx
      obtain ⟨ps, rg, hv⟩ := h
      exact ⟨_, hv⟩
    | cons b r' =>
      obtain ⟨⟨ps, rg, hv⟩, _, hl⟩ := h
      rcases List.mem_cons.mp hx with rfl | hx
      · exact ⟨_, hv⟩
      · exact ih hl x hx

theorem NLinked.le_head {v : NV} : ∀ (l : List Nat) (y : Nat), NLinked v (y :: l) →
    ∀ x ∈ y :: l, x ≤ y := by
  intro l
  induction l with
  | nil => intro y _ x hx; simp at hx; omega
  | cons b r ih =>
    intro y h x hx
    obtain ⟨_, hlt, hl⟩ := h
    rcases List.mem_cons.mp hx with rfl | hx
    · exact Nat.le_refl _
    · have := ih b hl x hx
      omega

theorem NLinked.congr {v v' : NV} : ∀ (l : List Nat), (∀ x ∈ l, v' x = v x) → NLinked v l →
    NLinked v' l := by
  intro l
  induction l with
  | nil => intro _ _; trivial
  | cons a r ih =>
    intro hv h
    cases r with
    | nil =>
      obtain ⟨ps, rg, hx⟩ := h
      exact ⟨ps, rg, by rw [hv a (by simp)]; exact hx⟩
    | cons b r' =>
      obtain ⟨⟨ps, rg, hx⟩, hlt, hl⟩ := h
      exact ⟨⟨ps, rg, by rw [hv a (by simp)]; exact hx⟩, hlt,
        ih (fun x hx => hv x (List.mem_cons_of_mem _ hx)) hl⟩

/-- The invariant of the arena relative to the position `cur` reached in the input and the chain
`stk` of open nodes. -/
structure NAI (L : Nat) (v : NV) (cur : Nat) (stk : List Nat) : Prop where
  /-- a node without parent spans the whole input -/
  root : ∀ i ps r, v i = some (none, ps, r) → r = (0, L)
  /-- every other node ends at or before `cur` -/
  ends : ∀ i p ps r, v i = some (some p, ps, r) → r.2 ≤ cur
  starts : ∀ i pa ps r, v i = some (pa, ps, r) → r.1 ≤ cur
  /-- a node starts at or after the start of its parent -/
  low : ∀ i p ps r e, v i = some (some p, ps, r) → v p = some e → e.2.2.1 ≤ r.1
  /-- a node ends at or before the end of its parent, once the parent is closed -/
  up : ∀ i p ps r e, v i = some (some p, ps, r) → v p = some e → p ∉ stk → r.2 ≤ e.2.2.2
  /-- a node starts at or after the end of its previous sibling -/
  sib : ∀ i pa j r e, v i = some (pa, some j, r) → v j = some e → e.2.2.2 ≤ r.1

theorem NAI.mono {L : Nat} {v : NV} {cur cur' : Nat} {stk : List Nat} (h : NAI L v cur stk)
    (hc : cur ≤ cur') : NAI L v cur' stk :=
  ⟨h.root, fun i p ps r hv => Nat.le_trans (h.ends i p ps r hv) hc,
    fun i pa ps r hv => Nat.le_trans (h.starts i pa ps r hv) hc, h.low, h.up, h.sib⟩

/-- appending a node under an open node -/
theorem NAI.push {L : Nat} {v : NV} {cur : Nat} {stk : List Nat} (h : NAI L v cur stk)
    (n pid : Nat) (jo : Option Nat) (rg : Range)
    (hn : v n = none)
    (hfresh : ∀ i pa ps r, v i = some (pa, ps, r) → pa ≠ some n ∧ ps ≠ some n)
    (hpid : pid ∈ stk) (hpn : pid ≠ n)
    (hj : ∀ j, jo = some j → ∃ q ps r, v j = some (some q, ps, r))
    (hs : cur ≤ rg.1) (hse : rg.1 ≤ rg.2) (stk' : List Nat) (hstk : ∀ p, p ∈ stk → p ∈ stk') :
    NAI L (nupd v n (some pid, jo, rg)) rg.2 stk' := by
  refine ⟨?_, ?_, ?_, ?_, ?_, ?_⟩
  · intro i ps r hv
    rcases nupd_some hv with ⟨_, he⟩ | ⟨_, hv⟩
    · simp at he
    · exact h.root i ps r hv
  · intro i p ps r hv
    rcases nupd_some hv with ⟨_, he⟩ | ⟨_, hv⟩
    · simp only [Prod.mk.injEq] at he
      rw [he.2.2]; exact Nat.le_refl _
    · have := h.ends i p ps r hv; omega
  · intro i pa ps r hv
    rcases nupd_some hv with ⟨_, he⟩ | ⟨_, hv⟩
    · simp only [Prod.mk.injEq] at he
      rw [he.2.2]; exact hse
    · have := h.starts i pa ps r hv; omega
  · intro i p ps r e hv hp
    rcases nupd_some hv with ⟨_, he⟩ | ⟨hin, hv⟩
    · simp only [Prod.mk.injEq, Option.some.injEq] at he
      obtain ⟨he1, _, he3⟩ := he
      subst he1
      rw [nupd_ne hpn] at hp
      obtain ⟨pa', ps', r'⟩ := e
      have := h.starts p pa' ps' r' hp
      rw [he3]
      show r'.1 ≤ rg.1
      omega
    · have hpn' : p ≠ n := fun hh => (hfresh i (some p) ps r hv).1 (by rw [hh])
      rw [nupd_ne hpn'] at hp
      exact h.low i p ps r e hv hp
  · intro i p ps r e hv hp hns
    rcases nupd_some hv with ⟨_, he⟩ | ⟨hin, hv⟩
    · simp only [Prod.mk.injEq, Option.some.injEq] at he
      obtain ⟨he1, _, _⟩ := he
      subst he1
      exact absurd (hstk p hpid) hns
    · have hpn' : p ≠ n := fun hh => (hfresh i (some p) ps r hv).1 (by rw [hh])
      rw [nupd_ne hpn'] at hp
      exact h.up i p ps r e hv hp (fun hm => hns (hstk p hm))
  · intro i pa j r e hv hjv
    rcases nupd_some hv with ⟨_, he⟩ | ⟨hin, hv⟩
    · simp only [Prod.mk.injEq] at he
      obtain ⟨_, he2, he3⟩ := he
      obtain ⟨q, ps', r', hq⟩ := hj j he2.symm
      have hjn : j ≠ n := by
        intro hh; rw [hh, hn] at hq; simp at hq
      rw [nupd_ne hjn, hq] at hjv
      simp only [Option.some.injEq] at hjv
      subst hjv
      have := h.ends j q ps' r' hq
      rw [he3]
      show r'.2 ≤ rg.1
      omega
    · have hjn : j ≠ n := fun hh => (hfresh i pa (some j) r hv).2 (by rw [hh])
      rw [nupd_ne hjn] at hjv
      exact h.sib i pa j r e hv hjv

/-- closing the innermost open node: its range now ends at `e ≥ cur` -/
theorem NAI.close {L : Nat} {v : NV} {cur pid y : Nat} {rest : List Nat}
    (h : NAI L v cur (pid :: y :: rest)) (ps : Option Nat) (rg : Range) (e : Nat)
    (hp : v pid = some (some y, ps, rg)) (hce : cur ≤ e)
    (hns : ∀ i pa r, v i ≠ some (pa, some pid, r))
    (hnot : pid ∉ y :: rest) :
    NAI L (nupd v pid (some y, ps, (rg.1, e))) e (y :: rest) := by
  -- every entry of the new view comes from an old one with the same links and the same start
  have hold : ∀ k z, nupd v pid (some y, ps, (rg.1, e)) k = some z →
      ∃ z0, v k = some z0 ∧ z.1 = z0.1 ∧ z.2.1 = z0.2.1 ∧ z.2.2.1 = z0.2.2.1 ∧
        (k ≠ pid → z = z0) ∧ (k = pid → z.2.2.2 = e) := by
    intro k z hz
    rcases nupd_some hz with ⟨hk, he⟩ | ⟨hk, hv⟩
    · subst hk; subst he
      exact ⟨_, hp, rfl, rfl, rfl, fun hh => absurd rfl hh, fun _ => rfl⟩
    · exact ⟨z, hv, rfl, rfl, rfl, fun _ => rfl, fun hh => absurd hh hk⟩
  have hstart : rg.1 ≤ cur := h.starts pid _ _ _ hp
  refine ⟨?_, ?_, ?_, ?_, ?_, ?_⟩
  · intro i ps' r hv
    rcases nupd_some hv with ⟨_, he⟩ | ⟨_, hv⟩
    · simp at he
    · exact h.root i ps' r hv
  · intro i p ps' r hv
    rcases nupd_some hv with ⟨_, he⟩ | ⟨_, hv⟩
    · simp only [Prod.mk.injEq] at he
      rw [he.2.2]; exact Nat.le_refl _
    · have := h.ends i p ps' r hv; omega
  · intro i pa ps' r hv
    rcases nupd_some hv with ⟨_, he⟩ | ⟨_, hv⟩
    · simp only [Prod.mk.injEq] at he
      rw [he.2.2]; show rg.1 ≤ e; omega
    · have := h.starts i pa ps' r hv; omega
  · intro i p ps' r x hv hpv
    obtain ⟨z0, hz0, e1, e2, e3, _, _⟩ := hold i _ hv
    obtain ⟨x0, hx0, f1, f2, f3, _, _⟩ := hold p _ hpv
    obtain ⟨pa0, ps0, r0⟩ := z0
    simp only at e1 e2 e3
    subst e1
    have := h.low i p ps0 r0 x0 hz0 hx0
    omega
  · intro i p ps' r x hv hpv hnm
    by_cases hpp : p = pid
    · subst hpp
      have hip : i ≠ p := by
        intro hh
        subst hh
        rw [nupd_eq] at hv
        simp only [Option.some.injEq, Prod.mk.injEq] at hv
        exact hnm (by rw [← hv.1]; simp)
      rw [nupd_ne hip] at hv
      rw [nupd_eq] at hpv
      simp only [Option.some.injEq] at hpv
      subst hpv
      have := h.ends i p ps' r hv
      show r.2 ≤ e
      omega
    · rw [nupd_ne hpp] at hpv
      have hip : i ≠ pid := by
        intro hh
        subst hh
        rw [nupd_eq] at hv
        simp only [Option.some.injEq, Prod.mk.injEq] at hv
        exact hnm (by rw [← hv.1]; simp)
      rw [nupd_ne hip] at hv
      refine h.up i p ps' r x hv hpv ?_
      intro hm
      rcases List.mem_cons.mp hm with hh | hh
      · exact hpp hh
      · exact hnm hh
  · intro i pa j r x hv hjv
    obtain ⟨z0, hz0, e1, e2, e3, _, _⟩ := hold i _ hv
    obtain ⟨pa0, ps0, r0⟩ := z0
    simp only at e1 e2 e3
    subst e1; subst e2
    have hjp : j ≠ pid := by
      intro hh
      subst hh
      exact hns i pa r0 hz0
    rw [nupd_ne hjp] at hjv
    have := h.sib i pa j r0 x hz0 hjv
    omega

/-! ### What the builder invariant says about the links -/

theorem binv_par_lt {c : Ctx} (hb : BInv c) {i p : Nat} {nd : NodeData}
    (h : c.doc.nodes[i]? = some nd) (hp : nd.parent = some p) : p < i :=
  hb.wf.parentLt i p (by simp [Spec.par, h, hp])

theorem binv_prev_lt {c : Ctx} (hb : BInv c) {i j : Nat} {nd : NodeData}
    (h : c.doc.nodes[i]? = some nd) (hp : nd.prevSibling = some j) :
    j < i ∧ par c.doc.nodes j = par c.doc.nodes i := by
  have hi : i < c.doc.nodes.size := (Array.getElem?_eq_some_iff.mp h).1
  have h1 := hb.wf.prev i hi
  have h2 : prevSib c.doc.nodes i = some j := by simp [Spec.prevSib, h, hp]
  rw [h2] at h1
  split at h1
  · simp at h1
  · unfold prevSibSpec at h1
    have := (find_rev_range_some _ i j).mp h1.symm
    exact ⟨this.1, by simpa using this.2.1⟩

/-- the current parent is still open: it has no next sibling -/
theorem binv_nosib_pid {c : Ctx} (hb : BInv c) {i : Nat} {nd : NodeData}
    (h : c.doc.nodes[i]? = some nd) : nd.prevSibling ≠ some c.parentId := by
  intro hp
  obtain ⟨hlt, hpar⟩ := binv_prev_lt hb h hp
  have hi : i < c.doc.nodes.size := (Array.getElem?_eq_some_iff.mp h).1
  have hPL := hb.wf.parentLt
  obtain ⟨q, hq⟩ := hb.wf.hasParent i (by omega) hi
  have hanc : Anc c.doc.nodes c.parentId i :=
    anc_between _ hPL hb.wf.preorder' hb.wf.hasParent (c.doc.nodes.size - 1) c.parentId
      (by omega) hb.pid_spine i (by omega) (by omega)
  rw [anc_step _ hPL _ i q hq] at hanc
  rcases hanc with he | ha
  · omega
  · have h1 := anc_le _ hPL q _ ha
    rw [hq] at hpar
    have h2 := hPL _ _ hpar
    omega

theorem binv_lastChild {c : Ctx} (hb : BInv c) {p : NodeData} {j : Nat}
    (hp : c.doc.nodes[c.parentId]? = some p) (hl : p.lastChild = some j) :
    ∃ jd, c.doc.nodes[j]? = some jd ∧ jd.parent = some c.parentId := by
  have h1 := hb.wf.last c.parentId hb.pid_lt
  have h2 : lastCh c.doc.nodes c.parentId = some j := by simp [Spec.lastCh, hp, hl]
  rw [h2] at h1
  unfold lastChildSpec at h1
  have := ((find_rev_range_some _ _ j).mp h1.symm).2.1
  have hpar : par c.doc.nodes j = some c.parentId := by simpa using this
  unfold Spec.par at hpar
  cases hj : c.doc.nodes[j]? with
  | none => rw [hj] at hpar; simp at hpar
  | some jd => rw [hj] at hpar; exact ⟨jd, rfl, by simpa using hpar⟩

/-! ### The builder invariant for nesting -/

/-- The builder at the top level, without entities, relative to the automaton state `st` and the
open elements `rest` above the current parent. -/
structure NI (L : Nat) (st : NSt) (rest : List Nat) (c : Ctx) : Prop where
  pos : c.positions = true
  ents : c.entities = []
  curL : st.1 ≤ L
  tag : st.2 = true → c.tagName.pos = st.1
  len : rest.length + 1 = c.parentPrefixes.length
  linked : NLinked (nview c.doc.nodes) (c.parentId :: rest)
  ai : NAI L (nview c.doc.nodes) st.1 (c.parentId :: rest)

/-- nothing the nesting invariant looks at has changed -/
structure NS (c c' : Ctx) : Prop where
  pos : c'.positions = c.positions
  ents : c'.entities = c.entities
  tag : c'.tagName = c.tagName
  pp : c'.parentPrefixes = c.parentPrefixes
  pid : c'.parentId = c.parentId
  nodes : nview c'.doc.nodes = nview c.doc.nodes

theorem NS.refl (c : Ctx) : NS c c := ⟨rfl, rfl, rfl, rfl, rfl, rfl⟩

theorem NS.trans {a b c : Ctx} (h1 : NS a b) (h2 : NS b c) : NS a c :=
  ⟨h2.pos.trans h1.pos, h2.ents.trans h1.ents, h2.tag.trans h1.tag, h2.pp.trans h1.pp,
    h2.pid.trans h1.pid, h2.nodes.trans h1.nodes⟩

theorem NS.pre {a b c : Ctx} (h2 : NS b c) (pos : b.positions = a.positions)
    (ents : b.entities = a.entities) (tag : b.tagName = a.tagName)
    (pp : b.parentPrefixes = a.parentPrefixes) (pid : b.parentId = a.parentId)
    (nodes : b.doc.nodes = a.doc.nodes) : NS a c :=
  NS.trans ⟨pos, ents, tag, pp, pid, by rw [nodes]⟩ h2

theorem NS.ni {L : Nat} {st : NSt} {rest : List Nat} {c c' : Ctx} (s : NS c c')
    (h : NI L st rest c) : NI L st rest c' :=
  ⟨s.pos.trans h.pos, s.ents.trans h.ents, h.curL, fun ht => by rw [s.tag]; exact h.tag ht,
    by rw [s.pp]; exact h.len, by rw [s.pid, s.nodes]; exact h.linked,
    by rw [s.pid, s.nodes]; exact h.ai⟩

theorem NI.ns {L : Nat} {st : NSt} {rest : List Nat} {c c' : Ctx} (h : NI L st rest c)
    (s : NS c c') : NI L st rest c' := s.ni h

/-- moving on in the input without touching the builder -/
theorem NI.move {L : Nat} {st : NSt} {rest : List Nat} {c : Ctx} (h : NI L st rest c)
    (cur' : Nat) (h1 : st.1 ≤ cur') (h2 : cur' ≤ L) : NI L (cur', false) rest c :=
  ⟨h.pos, h.ents, h2, fun ht => by simp at ht, h.len, h.linked, h.ai.mono h1⟩

theorem mergeText_ns {c c' : Ctx} (h : c.mergeText = .ok c') : NS c c' := by
  unfold Ctx.mergeText at h
  dsimp only at h
  split at h
  · simp at h
  · split at h
    · simp at h
    · rename_i n hn
      split at h
      · simp only [Res.ok.injEq] at h
        subst h
        refine ⟨rfl, rfl, rfl, rfl, rfl, ?_⟩
        funext j
        show nview (c.doc.nodes.setIfInBounds _ _) j = nview c.doc.nodes j
        unfold nview
        rw [set_get _ _ n _ hn j]
        split
        · rename_i hij
          subst hij
          rw [hn]; rfl
        · rfl
      · simp at h

theorem resetAfterText_ns {c c' : Ctx} (h : c.resetAfterText = .ok c') : NS c c' := by
  unfold Ctx.resetAfterText at h
  dsimp only at h
  split at h
  · simp only [Res.ok.injEq] at h; subst h; exact NS.refl _
  · split at h
    · rw [Res.bind_eq_ok] at h
      obtain ⟨c1, h1, h⟩ := h
      res_norm at h
      subst h
      exact (mergeText_ns h1).trans ⟨rfl, rfl, rfl, rfl, rfl, rfl⟩
    · res_norm at h; subst h
      exact ⟨rfl, rfl, rfl, rfl, rfl, rfl⟩

theorem resolveNamespaces_ns (c c' : Ctx) (r : Range) (h : resolveNamespaces c = .ok (c', r)) :
    NS c c' := by
  unfold resolveNamespaces at h
  rw [Res.bind_eq_ok] at h
  obtain ⟨p, _, h⟩ := h
  split at h
  · split at h
    · res_norm at h; rw [← h.1]; exact NS.refl _
    · rw [Res.bind_eq_ok] at h
      obtain ⟨ns, _, h⟩ := h
      res_norm at h
      rw [← h.1]; exact ⟨rfl, rfl, rfl, rfl, rfl, rfl⟩
  · res_norm at h; rw [← h.1]; exact NS.refl _

theorem resolveAttributes_ns (txt : Bytes) (c c' : Ctx) (nss r : Range)
    (h : resolveAttributes txt c nss = .ok (c', r)) : NS c c' := by
  unfold resolveAttributes at h
  split at h
  · res_norm at h; rw [← h.1]; exact NS.refl _
  · split at h
    · simp at h
    · rw [Res.bind_eq_ok] at h
      obtain ⟨doc, hd, h⟩ := h
      res_norm at h
      have hn := resolveAttrsLoop_nodes _ _ _ _ _ _ _ hd
      rw [← h.1]
      refine ⟨rfl, rfl, rfl, rfl, rfl, ?_⟩
      show nview doc.nodes = nview c.doc.nodes
      rw [hn]

theorem normalizeAttribute_ns (T : Tables) (txt : Bytes) (c c' : Ctx) (v : Span) (s : Str)
    (h : normalizeAttribute T txt c v = .ok (c', s)) : NS c c' := by
  unfold normalizeAttribute at h
  split at h
  · rw [Res.bind_eq_ok] at h
    obtain ⟨⟨buf, ld, tr⟩, _, h⟩ := h
    rw [Res.bind_eq_ok] at h
    obtain ⟨out, _, h⟩ := h
    res_norm at h
    rw [← h.1]; exact ⟨rfl, rfl, rfl, rfl, rfl, rfl⟩
  · res_norm at h; rw [← h.1]; exact NS.refl _

theorem processAttribute_ns (T : Tables) (txt : Bytes) (c c' : Ctx) (r : Range) (q e : Nat)
    (pfx loc v : Span) (h : processAttribute T txt c r q e pfx loc v = .ok c') : NS c c' := by
  unfold processAttribute at h
  rw [Res.bind_eq_ok] at h
  obtain ⟨⟨c1, value⟩, h1, h⟩ := h
  have s1 := normalizeAttribute_ns _ _ _ _ _ _ h1
  have fin : ∀ c2 : Ctx, NS c1 c2 → NS c c2 := fun c2 s2 => s1.trans s2
  try dsimp only at h
  split at h
  · split at h
    · exact absurd h (errPos_ne_ok _ _ _ _)
    · split at h
      · exact absurd h (errPos_ne_ok _ _ _ _)
      · try dsimp only at h
        split at h
        · exact absurd h (errPos_ne_ok _ _ _ _)
        · split at h
          · exact absurd h (errPos_ne_ok _ _ _ _)
          · rw [Res.bind_eq_ok] at h
            obtain ⟨ex, _, h⟩ := h
            split at h
            · exact absurd h (errPos_ne_ok _ _ _ _)
            · split at h
              · rw [Res.bind_eq_ok] at h
                obtain ⟨ns, _, h⟩ := h
                res_norm at h; subst h
                exact fin _ ⟨rfl, rfl, rfl, rfl, rfl, rfl⟩
              · res_norm at h; subst h
                exact fin _ ⟨rfl, rfl, rfl, rfl, rfl, rfl⟩
  · split at h
    · split at h
      · exact absurd h (errPos_ne_ok _ _ _ _)
      · split at h
        · exact absurd h (errPos_ne_ok _ _ _ _)
        · rw [Res.bind_eq_ok] at h
          obtain ⟨ex, _, h⟩ := h
          split at h
          · exact absurd h (errPos_ne_ok _ _ _ _)
          · rw [Res.bind_eq_ok] at h
            obtain ⟨ns, _, h⟩ := h
            res_norm at h; subst h
            exact fin _ ⟨rfl, rfl, rfl, rfl, rfl, rfl⟩
    · res_norm at h; subst h
      exact fin _ ⟨rfl, rfl, rfl, rfl, rfl, rfl⟩

/-- `append_node` seen through the view: one entry is added. -/
theorem appendNode_view {c c' : Ctx} {k : Kind} {r : Range} {id : Nat} (hb : BInv c)
    (h : c.appendNode k r = .ok (c', id)) :
    id = c.doc.nodes.size ∧ c'.positions = c.positions ∧ c'.entities = c.entities ∧
    c'.tagName = c.tagName ∧ c'.parentPrefixes = c.parentPrefixes ∧ c'.parentId = c.parentId ∧
    ∃ p, c.doc.nodes[c.parentId]? = some p ∧
      nview c'.doc.nodes = nupd (nview c.doc.nodes) c.doc.nodes.size
        (some c.parentId, p.lastChild, if c.positions then r else (0, 0)) := by
  obtain ⟨hid, hsz, hold, ⟨p, hp, hnew⟩, _, hpid, _, hpp, _, _, _, hpos, _⟩ :=
    appendNode_spec c c' k r id hb.pid_lt hb.awaiting_lt h
  obtain ⟨htag, _⟩ := appendNode_misc h
  have hent := (appendNode_entOk _ _ _ _ _ h).1
  refine ⟨hid, hpos, hent, htag, hpp, hpid, p, hp, ?_⟩
  funext i
  by_cases hi : i = c.doc.nodes.size
  · rw [hi, nupd_eq, nview_some hnew]
  · rw [nupd_ne hi]
    by_cases hlt : i < c.doc.nodes.size
    · unfold nview
      rw [hold i hlt]
      cases c.doc.nodes[i]? <;> simp [nproj]
    · have h1 : c'.doc.nodes[i]? = none := by rw [Array.getElem?_eq_none]; omega
      have h2 : c.doc.nodes[i]? = none := by rw [Array.getElem?_eq_none]; omega
      simp [nview, h1, h2]

/-- `append_node` under the invariant, for a range that starts at or after the position reached:
the invariant holds at the end of the range, with the new node closed (a leaf) or opened. -/
theorem appendNode_ai {L : Nat} {st : NSt} {rest : List Nat} {c c' : Ctx} {k : Kind} {r : Range}
    {id : Nat} (hb : BInv c) (hi : NI L st rest c) (hs : st.1 ≤ r.1) (hse : r.1 ≤ r.2)
    (h : c.appendNode k r = .ok (c', id)) :
    c'.positions = true ∧ c'.entities = [] ∧ c'.tagName = c.tagName ∧
    c'.parentPrefixes = c.parentPrefixes ∧ c'.parentId = c.parentId ∧
    (∀ stk', (∀ p, p ∈ c.parentId :: rest → p ∈ stk') → NAI L (nview c'.doc.nodes) r.2 stk') ∧
    NLinked (nview c'.doc.nodes) (c.parentId :: rest) ∧
    NLinked (nview c'.doc.nodes) (id :: c.parentId :: rest) := by
  obtain ⟨hid, e1, e2, e3, e4, e5, p, hp, hv⟩ := appendNode_view hb h
  simp only [hi.pos, if_true] at hv
  have hn : nview c.doc.nodes c.doc.nodes.size = none := by simp [nview]
  have hfresh : ∀ i pa ps rg, nview c.doc.nodes i = some (pa, ps, rg) →
      pa ≠ some c.doc.nodes.size ∧ ps ≠ some c.doc.nodes.size := by
    intro i pa ps rg hvi
    obtain ⟨nd, hnd, he⟩ := nview_eq_some hvi
    simp only [Prod.mk.injEq] at he
    have hlt : i < c.doc.nodes.size := (Array.getElem?_eq_some_iff.mp hnd).1
    constructor
    · intro hh
      have := binv_par_lt hb hnd (he.1 ▸ hh)
      omega
    · intro hh
      have := (binv_prev_lt hb hnd (he.2.1 ▸ hh)).1
      omega
  have hpn : c.parentId ≠ c.doc.nodes.size := by have := hb.pid_lt; omega
  have hj : ∀ j, p.lastChild = some j → ∃ q ps rg, nview c.doc.nodes j = some (some q, ps, rg) := by
    intro j hl
    obtain ⟨jd, hjd, hjp⟩ := binv_lastChild hb hp hl
    exact ⟨c.parentId, jd.prevSibling, jd.range, by rw [nview_some hjd, hjp]⟩
  have hall : ∀ x ∈ c.parentId :: rest,
      nupd (nview c.doc.nodes) c.doc.nodes.size (some c.parentId, p.lastChild, r) x =
        nview c.doc.nodes x := by
    intro x hx
    obtain ⟨e, he⟩ := NLinked.all_some _ hi.linked x hx
    have : x ≠ c.doc.nodes.size := by
      intro hh; rw [hh, hn] at he; simp at he
    exact nupd_ne this
  have hl1 : NLinked (nview c'.doc.nodes) (c.parentId :: rest) := by
    rw [hv]; exact NLinked.congr _ hall hi.linked
  refine ⟨e1.trans hi.pos, e2.trans hi.ents, e3, e4, e5, ?_, hl1, ?_⟩
  · intro stk' hstk
    rw [hv]
    exact hi.ai.push _ _ _ r hn hfresh (by simp) hpn hj hs hse stk' hstk
  · rw [hid]
    refine ⟨⟨p.lastChild, r, ?_⟩, hb.pid_lt, hl1⟩
    rw [hv, nupd_eq]

/-- a leaf node (comment, PI, text) is appended -/
theorem appendNode_ni {L : Nat} {st : NSt} {rest : List Nat} {c c' : Ctx} {k : Kind} {r : Range}
    {id : Nat} (hb : BInv c) (hi : NI L st rest c) (hs : st.1 ≤ r.1) (hse : r.1 ≤ r.2)
    (hL : r.2 ≤ L) (h : c.appendNode k r = .ok (c', id)) : NI L (r.2, false) rest c' := by
  obtain ⟨e1, e2, e3, e4, e5, hai, hl1, _⟩ := appendNode_ai hb hi hs hse h
  refine ⟨e1, e2, hL, fun ht => by simp at ht, by rw [e4]; exact hi.len, by rw [e5]; exact hl1, ?_⟩
  rw [e5]
  exact hai _ (fun _ hp => hp)

theorem appendText_ni {L : Nat} {st : NSt} {rest : List Nat} {c c' : Ctx} {t : Str} {r : Range}
    (hb : BInv c) (hi : NI L st rest c) (h1 : st.1 ≤ r.1) (h2 : r.1 ≤ r.2) (h3 : r.2 ≤ L)
    (h : c.appendText t r = .ok c') : NI L (r.2, false) rest c' := by
  unfold Ctx.appendText at h
  dsimp only at h
  split at h
  · rw [Res.bind_eq_ok] at h
    obtain ⟨⟨c2, id⟩, hn, h⟩ := h
    res_norm at h
    subst h
    have hb1 : BInv (c.log (Ev.textFragment t r)) := hb.congr rfl rfl rfl
    have hi1 : NI L st rest (c.log (Ev.textFragment t r)) :=
      hi.ns ⟨rfl, rfl, rfl, rfl, rfl, rfl⟩
    exact (appendNode_ni hb1 hi1 h1 h2 h3 hn).ns ⟨rfl, rfl, rfl, rfl, rfl, rfl⟩
  · res_norm at h
    subst h
    exact (hi.move r.2 (by omega) h3).ns ⟨rfl, rfl, rfl, rfl, rfl, rfl⟩

theorem flushBuffer_ni {L : Nat} {st : NSt} {rest : List Nat} {c c' : Ctx} {b : TextBuffer}
    {r : Range} (hb : BInv c) (hi : NI L st rest c) (h1 : st.1 ≤ r.1) (h2 : r.1 ≤ r.2)
    (h3 : r.2 ≤ L) (h : flushBuffer c b r = .ok c') : NI L (r.2, false) rest c' := by
  unfold flushBuffer at h
  split at h
  · rw [Res.bind_eq_ok] at h
    obtain ⟨out, _, h⟩ := h
    exact appendText_ni hb hi h1 h2 h3 h
  · res_norm at h; subst h
    exact hi.move r.2 (by omega) h3

theorem processCdata_ni {L : Nat} {st : NSt} {rest : List Nat} {c c' : Ctx} {t : Span} {r : Range}
    (hb : BInv c) (hi : NI L st rest c) (h1 : st.1 ≤ r.1) (h2 : r.1 ≤ r.2) (h3 : r.2 ≤ L)
    (h : processCdata c t r = .ok c') : NI L (r.2, false) rest c' := by
  unfold processCdata at h
  split at h <;> exact appendText_ni hb hi h1 h2 h3 h

/-- Without entities the chunk loop of `process_text` never re-enters the tokenizer: the builder is
not touched. -/
theorem processTextLoop_noent (T : Tables) (txt : Bytes) (lower : Token → Ctx → Res Ctx)
    (range : Range) :
    ∀ (fuel : Nat) (s : Stream) (buf buf' : TextBuffer) (c c' : Ctx), c.entities = [] →
      processTextLoop T txt lower range fuel s buf c = .ok (buf', c') → c' = c := by
  intro fuel
  induction fuel with
  | zero => intro s buf buf' c c' _ h; simp [processTextLoop] at h
  | succ fuel ih =>
    intro s buf buf' c c' he h
    simp only [processTextLoop] at h
    split at h
    · res_norm at h; exact h.2.symm
    · rw [Res.bind_eq_ok] at h
      obtain ⟨⟨s1, chunk⟩, hchunk, h⟩ := h
      try dsimp only at h
      split at h
      · exact ih _ _ _ _ _ he h
      · try dsimp only at h
        split at h <;> exact ih _ _ _ _ _ he h
      · exact absurd he (parseNextChunk_text_ne _ _ _ _ _ _ hchunk)

theorem processText_ni (T : Tables) (txt : Bytes) (lower : Token → Ctx → Res Ctx) {L : Nat}
    {st : NSt} {rest : List Nat} {c c' : Ctx} {t : Span} {r : Range}
    (hb : BInv c) (hi : NI L st rest c) (h1 : st.1 ≤ r.1) (h2 : r.1 ≤ r.2) (h3 : r.2 ≤ L)
    (h : processText T txt lower c t r = .ok c') : NI L (r.2, false) rest c' := by
  unfold processText at h
  split at h
  · exact appendText_ni hb hi h1 h2 h3 h
  · try dsimp only at h
    rw [Res.bind_eq_ok] at h
    obtain ⟨⟨buf, c1⟩, hl, h⟩ := h
    have := processTextLoop_noent T txt lower _ _ _ _ _ _ _ hi.ents hl
    subst this
    exact flushBuffer_ni hb hi h1 h2 h3 h

/-- `process_element` at an `ElementEnd` that ends at or after the position reached: a pending start
tag becomes a node that starts where the tag started; a close tag extends the current parent to the
end of the token and pops it. -/
theorem processElement_ni {L : Nat} {txt : Bytes} {st : NSt} {rest : List Nat} {c c' : Ctx}
    {e : EndKind} {r : Range} (hb : BInv c) (hi : NI L st rest c)
    (htg : endNeedsTag e = true → st.2 = true) (hc : st.1 ≤ r.2) (hL : r.2 ≤ L)
    (h : processElement txt c e r = .ok c') : ∃ rest', NI L (r.2, false) rest' c' := by
  unfold processElement at h
  split at h
  · split at h
    · exact absurd h (errPos_ne_ok _ _ _ _)
    · simp at h
  · rw [Res.bind_eq_ok] at h
    obtain ⟨⟨c1, nss⟩, h1, h⟩ := h
    try dsimp only at h
    rw [Res.bind_eq_ok] at h
    obtain ⟨⟨c2, attrs⟩, h2, h⟩ := h
    have t1 := resolveNamespaces_triEq _ _ _ h1
    have t2 := resolveAttributes_triEq _ _ _ _ _ h2
    have hb2 : BInv c2 := t2.binv ((t1.binv hb).congr rfl rfl rfl)
    have s1 := resolveNamespaces_ns _ _ _ h1
    have s2 := resolveAttributes_ns _ _ _ _ _ h2
    have hi2 : NI L st rest c2 := (hi.ns s1).ns (s2.pre rfl rfl rfl rfl rfl rfl)
    try dsimp only at h
    split at h
    · -- empty element
      rw [Res.bind_eq_ok] at h
      obtain ⟨tagNs, _, h⟩ := h
      rw [Res.bind_eq_ok] at h
      obtain ⟨⟨c3, newId⟩, h3, h⟩ := h
      res_norm at h
      subst h
      have htp : c2.tagName.pos = st.1 := hi2.tag (htg rfl)
      have hi3 : NI L (r.2, false) rest c3 :=
        appendNode_ni (r := (c2.tagName.pos, r.2)) hb2 hi2 (by simp [htp]) (by simp only [htp]; exact hc)
          hL h3
      exact ⟨rest, hi3.ns ⟨rfl, rfl, rfl, rfl, rfl, rfl⟩⟩
    · -- close tag
      split at h
      · exact absurd h (errPos_ne_ok _ _ _ _)
      · rw [Res.bind_eq_ok] at h
        obtain ⟨p, hpn', h⟩ := h
        split at h
        · simp at h
        · rename_i parentPrefix restPrefixes hpp
          split at h
          · exact absurd h (errPos_ne_ok _ _ _ _)
          · split at h
            · rename_i id hid
              res_norm at h
              subst h
              have hpn : c2.doc.nodes[c2.parentId]? = some p := by
                unfold Ctx.nodeAt at hpn'
                split at hpn' <;> simp at hpn'
                subst hpn'; assumption
              let pnew : NodeData := if c2.positions = true then
                { p with range := (p.range.1, r.2) } else p
              have hpnew : pnew = { p with range := (p.range.1, r.2) } := by
                simp only [pnew, hi2.pos, if_true]
              have hid' : p.parent = some id := by
                have : pnew.parent = some id := hid
                rw [hpnew] at this
                exact this
              have hvp := nview_some hpn
              have hv : nview (c2.doc.nodes.setIfInBounds c2.parentId pnew) =
                  nupd (nview c2.doc.nodes) c2.parentId
                    (some id, p.prevSibling, (p.range.1, r.2)) := by
                funext j
                unfold nview nupd
                rw [set_get _ _ p _ hpn j]
                by_cases hj : c2.parentId = j
                · subst hj
                  simp only [if_true, Option.map_some, hpnew, nproj, hid']
                · have hj' : ¬ j = c2.parentId := fun hh => hj hh.symm
                  simp only [hj, hj', if_false]
              have hlinked := hi2.linked
              cases rest with
              | nil =>
                obtain ⟨ps, rg, hroot⟩ := hlinked
                rw [hvp, hid'] at hroot
                simp at hroot
              | cons y rest' =>
                obtain ⟨⟨ps, rg, hpar⟩, hlt, hl⟩ := hlinked
                rw [hvp, hid'] at hpar
                simp only [Option.some.injEq, Prod.mk.injEq] at hpar
                obtain ⟨hy, _, _⟩ := hpar
                subst hy
                have hle := NLinked.le_head _ _ hl
                have hnot : c2.parentId ∉ id :: rest' := by
                  intro hm
                  have := hle _ hm
                  omega
                have hns : ∀ i pa rg', nview c2.doc.nodes i ≠ some (pa, some c2.parentId, rg') := by
                  intro i pa rg' hvi
                  obtain ⟨nd, hnd, he⟩ := nview_eq_some hvi
                  simp only [Prod.mk.injEq] at he
                  exact binv_nosib_pid hb2 hnd he.2.1.symm
                have hai : NAI L (nview (c2.doc.nodes.setIfInBounds c2.parentId pnew)) r.2
                    (id :: rest') := by
                  rw [hv]
                  exact hi2.ai.close p.prevSibling p.range r.2 (by rw [hvp, hid']) hc hns hnot
                have hl' : NLinked (nview (c2.doc.nodes.setIfInBounds c2.parentId pnew))
                    (id :: rest') := by
                  rw [hv]
                  refine NLinked.congr _ ?_ hl
                  intro x hx
                  have := hle x hx
                  exact nupd_ne (by omega)
                have hlen : rest'.length + 1 = restPrefixes.length := by
                  have := hi2.len
                  rw [hpp] at this
                  simp only [List.length_cons] at this
                  omega
                exact ⟨rest', ⟨hi2.pos, hi2.ents, hL, fun ht => by simp at ht, hlen, hl', hai⟩⟩
            · exact absurd h (errPos_ne_ok _ _ _ _)
    · -- open element
      rw [Res.bind_eq_ok] at h
      obtain ⟨tagNs, _, h⟩ := h
      rw [Res.bind_eq_ok] at h
      obtain ⟨⟨c3, newId⟩, h3, h⟩ := h
      res_norm at h
      subst h
      have htp : c2.tagName.pos = st.1 := hi2.tag (htg rfl)
      obtain ⟨e1, e2, e3, e4, e5, hai, _, hl2⟩ :=
        appendNode_ai (r := (c2.tagName.pos, r.2)) hb2 hi2 (by simp [htp])
          (by simp only [htp]; exact hc) h3
      refine ⟨c2.parentId :: rest, ⟨e1, e2, hL, fun ht => by simp at ht, ?_, hl2, ?_⟩⟩
      · show (c2.parentId :: rest).length + 1 = (c3.tagName.pfx :: c3.parentPrefixes).length
        have := hi2.len
        simp only [List.length_cons, e4]
        omega
      · exact hai (newId :: c2.parentId :: rest) (fun _ hp => List.mem_cons_of_mem _ hp)

/-! ### Builder level: steps and token lists -/

section
variable (T : Tables) (txt : Bytes)

theorem tokenStep_ni (lower : Token → Ctx → Res Ctx) {st st' : NSt} {rest : List Nat} {t : Token}
    {c c' : Ctx} (hk : TokOk txt t) (hps : NStep st t st') (hb : BInv c)
    (hi : NI txt.length st rest c) (h : tokenStep T txt lower t c = .ok c') :
    ∃ rest', NI txt.length st' rest' c' := by
  unfold tokenStep at h
  dsimp only at h
  have hb0 : BInv (c.log (.token t)) := hb.congr rfl rfl rfl
  have hi0 : NI txt.length st rest (c.log (.token t)) := hi.ns ⟨rfl, rfl, rfl, rfl, rfl, rfl⟩
  split at h
  · -- pi
    obtain ⟨_, _, k3, _⟩ := hk
    simp only [NStep] at hps
    obtain ⟨hle, rfl⟩ := hps
    rw [Res.bind_eq_ok] at h
    obtain ⟨c1, h1, h⟩ := h
    rw [Res.bind_eq_ok] at h
    obtain ⟨⟨c2, id⟩, h2, h⟩ := h
    res_norm at h; subst h
    exact ⟨rest, appendNode_ni (binv_resetAfterText hb0 h1) (hi0.ns (resetAfterText_ns h1)) hle
      k3.1 k3.2.1 h2⟩
  · -- comment
    obtain ⟨_, k2, _⟩ := hk
    simp only [NStep] at hps
    obtain ⟨hle, rfl⟩ := hps
    rw [Res.bind_eq_ok] at h
    obtain ⟨c1, h1, h⟩ := h
    rw [Res.bind_eq_ok] at h
    obtain ⟨⟨c2, id⟩, h2, h⟩ := h
    res_norm at h; subst h
    exact ⟨rest, appendNode_ni (binv_resetAfterText hb0 h1) (hi0.ns (resetAfterText_ns h1)) hle
      k2.1 k2.2.1 h2⟩
  · -- entityDecl
    simp only [NStep] at hps
  · -- elementStart
    obtain ⟨_, _, ks, _, _⟩ := hk
    simp only [NStep] at hps
    obtain ⟨hle, rfl⟩ := hps
    rw [Res.bind_eq_ok] at h
    obtain ⟨c1, h1, h⟩ := h
    split at h
    · exact absurd h (errPos_ne_ok _ _ _ _)
    · res_norm at h; subst h
      have hi1 := hi0.ns (resetAfterText_ns h1)
      exact ⟨rest, ⟨hi1.pos, hi1.ents, ks, fun _ => rfl, hi1.len, hi1.linked, hi1.ai.mono hle⟩⟩
  · -- attribute
    simp only [NStep] at hps
    subst hps
    exact ⟨rest, hi0.ns (processAttribute_ns _ _ _ _ _ _ _ _ _ _ h)⟩
  · -- elementEnd
    rename_i e range
    simp only [NStep] at hps
    obtain ⟨htg, hle, rfl⟩ := hps
    have hL : range.2 ≤ txt.length := by
      cases e with
      | «open» => exact hk.2.1
      | close p l => exact hk.2.2.2.1
      | empty => exact hk.2.1
    rw [Res.bind_eq_ok] at h
    obtain ⟨c1, h1, h⟩ := h
    exact processElement_ni (binv_resetAfterText hb0 h1) (hi0.ns (resetAfterText_ns h1)) htg hle hL h
  · -- text
    obtain ⟨_, k2, _⟩ := hk
    simp only [NStep] at hps
    obtain ⟨hle, rfl⟩ := hps
    exact ⟨rest, processText_ni T txt lower hb0 hi0 hle k2.1 k2.2.1 h⟩
  · -- cdata
    obtain ⟨_, k2⟩ := hk
    simp only [NStep] at hps
    obtain ⟨hle, rfl⟩ := hps
    exact ⟨rest, processCdata_ni hb0 hi0 hle k2.1 k2.2.1 h⟩

theorem token_ni (d : Nat) {st st' : NSt} {rest : List Nat} {t : Token}
    {c c' : Ctx} (hk : TokOk txt t) (hps : NStep st t st') (hb : BInv c)
    (hi : NI txt.length st rest c) (h : token T txt d t c = .ok c') :
    ∃ rest', NI txt.length st' rest' c' := by
  cases d with
  | zero => simp [token] at h
  | succ d => exact tokenStep_ni T txt (token T txt d) hk hps hb hi h

theorem feed_ni (d : Nat) : ∀ (toks : List Token), (∀ t ∈ toks, TokOk txt t) →
    ∀ (st st' : NSt) (rest : List Nat) (c c' : Ctx), NRun st toks st' → BInv c →
      NI txt.length st rest c → feed (token T txt d) toks c = .ok c' →
      ∃ rest', NI txt.length st' rest' c' := by
  intro toks
  induction toks with
  | nil =>
    intro _ st st' rest c c' hrun _ hi h
    simp only [NRun] at hrun
    simp [feed] at h
    subst h; subst hrun; exact ⟨rest, hi⟩
  | cons t ts ih =>
    intro hall st st' rest c c' hrun hb hi h
    obtain ⟨s1, hstep, hrun'⟩ := hrun
    simp only [feed] at h
    split at h
    · rename_i c1 h1
      obtain ⟨rest1, hi1⟩ := token_ni T txt d (hall t (by simp)) hstep hb hi h1
      exact ih (fun t' ht' => hall t' (by simp [ht'])) s1 st' rest1 c1 c' hrun'
        (binv_token T txt d _ _ _ hb h1) hi1 h
    · simp at h
    · simp at h
    · simp at h

end

/-- **Nesting and order of ranges** (all valid UTF-8 inputs; `allow_dtd = false`, `positions` on):
every non-root node's range lies inside its parent's range, and a node's range begins at or after
the end of its previous sibling's range. -/
theorem parse_ranges_nested (T : Tables) (hT : TablesOK T) (txt : Bytes) (hv : ValidUtf8 txt) (opt : Opt)
    (hdtd : opt.allowDtd = false) (hp : opt.positions = true) (d : Doc)
    (h : parse T txt opt = .ok d) :
    (∀ i p, i < d.nodes.size → par d.nodes i = some p →
      (rangeOf d.nodes p).1 ≤ (rangeOf d.nodes i).1 ∧ (rangeOf d.nodes i).2 ≤ (rangeOf d.nodes p).2) ∧
    (∀ i j, i < d.nodes.size → prevSib d.nodes i = some j →
      (rangeOf d.nodes j).2 ≤ (rangeOf d.nodes i).1) := by
  unfold parse at h
  rw [Res.bind_eq_ok] at h
  obtain ⟨c, hc, h⟩ := h
  res_norm at h
  subst h
  unfold parseCtx at hc
  rw [Res.bind_eq_ok] at hc
  obtain ⟨c0, h0, hc⟩ := hc
  try dsimp only at hc
  rw [Res.bind_eq_ok] at hc
  obtain ⟨c1, h1, hc⟩ := hc
  have hb0 := binv_init txt opt c0 h0
  -- the initial context
  have i0 : NI txt.length (0, false) [] c0 := by
    unfold initCtx at h0
    rw [Res.bind_eq_ok] at h0
    obtain ⟨ns, _, h0⟩ := h0
    res_norm at h0
    subst h0
    have hv : ∀ i e, nview #[rootNode (if opt.positions then (0, txt.length) else (0, 0))] i = some e →
        i = 0 ∧ e = (none, none, (0, txt.length)) := by
      intro i e hie
      obtain ⟨nd, hnd, he⟩ := nview_eq_some hie
      have : i = 0 ∧ nd = rootNode (if opt.positions then (0, txt.length) else (0, 0)) := by
        cases i with
        | zero => exact ⟨rfl, by simpa using hnd.symm⟩
        | succ i => simp at hnd
      obtain ⟨rfl, rfl⟩ := this
      refine ⟨rfl, ?_⟩
      rw [he]
      simp [rootNode, hp]
    have h00 : nview #[rootNode (if opt.positions then (0, txt.length) else (0, 0))] 0 =
        some (none, none, (0, txt.length)) := by
      simp [nview, nproj, rootNode, hp]
    refine ⟨hp, rfl, Nat.zero_le _, fun ht => by simp at ht, rfl, ⟨none, (0, txt.length), h00⟩, ?_⟩
    refine ⟨?_, ?_, ?_, ?_, ?_, ?_⟩
    · intro i ps r hi
      have := (hv i _ hi).2
      simp only [Prod.mk.injEq] at this
      exact this.2.2
    · intro i p ps r hi
      have := (hv i _ hi).2
      simp at this
    · intro i pa ps r hi
      have := (hv i _ hi).2
      simp only [Prod.mk.injEq] at this
      rw [this.2.2]
      exact Nat.le_refl _
    · intro i p ps r e hi _
      have := (hv i _ hi).2
      simp at this
    · intro i p ps r e hi _
      have := (hv i _ hi).2
      simp at this
    · intro i pa j r e hi _
      have := (hv i _ hi).2
      simp at this
  obtain ⟨_, hfeed⟩ := runTokens_feed _ _ _ _ _ h1
  rw [hdtd] at hfeed
  obtain ⟨st', hrun, _⟩ := parseDocument_nf T hT txt hv
  obtain ⟨rest', i1⟩ := feed_ni T txt depthFuel _ (parseDocument_spec T hT txt hv false).toks
    (0, false) st' [] c0 c1 hrun hb0 i0 hfeed
  have hb1 : BInv c1 := binv_feed _ (binv_token T txt depthFuel) _ _ _ hb0 hfeed
  unfold finish at hc
  rw [Res.bind_eq_ok] at hc
  obtain ⟨has, _, hc⟩ := hc
  split at hc
  · simp at hc
  · split at hc
    · simp at hc
    · rename_i hlen
      res_norm at hc
      subst hc
      show (∀ i p, i < c1.doc.nodes.size → par c1.doc.nodes i = some p →
        (rangeOf c1.doc.nodes p).1 ≤ (rangeOf c1.doc.nodes i).1 ∧
          (rangeOf c1.doc.nodes i).2 ≤ (rangeOf c1.doc.nodes p).2) ∧
        (∀ i j, i < c1.doc.nodes.size → prevSib c1.doc.nodes i = some j →
          (rangeOf c1.doc.nodes j).2 ≤ (rangeOf c1.doc.nodes i).1)
      have hrest : rest' = [] := by
        have := i1.len
        cases rest' with
        | nil => rfl
        | cons x xs => simp only [List.length_cons] at this; omega
      subst hrest
      have hrg : ∀ i nd, c1.doc.nodes[i]? = some nd → rangeOf c1.doc.nodes i = nd.range := by
        intro i nd hnd; simp [rangeOf, hnd]
      constructor
      · intro i p hi hpar
        have hnd : c1.doc.nodes[i]? = some c1.doc.nodes[i] := by simp [hi]
        have hpp : c1.doc.nodes[i].parent = some p := by
          simpa [Spec.par, hnd] using hpar
        have hlt := binv_par_lt hb1 hnd hpp
        have hpd : c1.doc.nodes[p]? = some c1.doc.nodes[p] := by
          have : p < c1.doc.nodes.size := by omega
          simp [this]
        rw [hrg i _ hnd, hrg p _ hpd]
        have hvi := nview_some hnd
        rw [hpp] at hvi
        have hvp := nview_some hpd
        refine ⟨i1.ai.low i p _ _ _ hvi hvp, ?_⟩
        by_cases hpid : p = c1.parentId
        · obtain ⟨ps, rg, hroot⟩ := i1.linked
          rw [← hpid, hvp] at hroot
          simp only [Option.some.injEq, Prod.mk.injEq] at hroot
          have hvp' := hvp
          rw [hroot.1] at hvp'
          have := i1.ai.root p _ _ hvp'
          have he := i1.ai.ends i p _ _ hvi
          have hL := i1.curL
          rw [this]
          show c1.doc.nodes[i].range.2 ≤ txt.length
          omega
        · exact i1.ai.up i p _ _ _ hvi hvp (by simp [hpid])
      · intro i j hi hprev
        have hnd : c1.doc.nodes[i]? = some c1.doc.nodes[i] := by simp [hi]
        have hpp : c1.doc.nodes[i].prevSibling = some j := by
          simpa [Spec.prevSib, hnd] using hprev
        rw [hrg i _ hnd]
        cases hj : c1.doc.nodes[j]? with
        | none => simp [rangeOf, hj]
        | some jd =>
          rw [hrg j jd hj]
          have hvi := nview_some hnd
          rw [hpp] at hvi
          exact i1.ai.sib i _ j _ _ hvi (nview_some hj)

end Rox.Lemmas
