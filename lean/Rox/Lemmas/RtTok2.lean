/-
  Rox.Lemmas.RtTok2 — the tokenizer on ANY legal rendering of an abstract document (`renderS`)
  succeeds and delivers a token list that presents that document (`TokFor`).
-/
import Rox.Spec.Canon2
import Rox.Lemmas.RtTok

namespace Rox.Lemmas
open Rox Rox.Spec.Canon Rox.TM

/-! ### White space -/

theorem isWs_cases {b : UInt8} (h : isWs b = true) : b = 32 ∨ b = 9 ∨ b = 10 ∨ b = 13 := by
  simp only [isWs, Bool.or_eq_true, beq_iff_eq] at h
  rcases h with ((h | h) | h) | h <;> simp [h]

theorem wsOk_all {w : Bytes} (h : wsOk w = true) : ∀ x ∈ w, isWs x = true := by
  simp only [wsOk, List.all_eq_true] at h
  exact h

section
variable (T : Tables) (txt : Bytes)

/-- a byte at which the scanning loop of `consume_qname` stops -/
def Stop (c : UInt8) : Prop := c < 128 ∧ (c == bColon) = false ∧ byteIsName T c = false

theorem stop_ws (hC2 : TablesCanon2 T) {c : UInt8} (h : isWs c = true) : Stop T c := by
  refine ⟨?_, ?_, hC2.ws_not_name c h⟩
  · rcases isWs_cases h with rfl | rfl | rfl | rfl <;> decide
  · rcases isWs_cases h with rfl | rfl | rfl | rfl <;> decide

theorem stop_delim (hC : TablesCanon T) {c : UInt8} (hc : c ∈ [32, 34, 47, 60, 61, 62]) :
    Stop T c := by
  refine ⟨?_, ?_, hC.delims_not_name c hc⟩
  · simp only [List.mem_cons, List.not_mem_nil, or_false] at hc
    rcases hc with rfl | rfl | rfl | rfl | rfl | rfl <;> decide
  · simp only [List.mem_cons, List.not_mem_nil, or_false] at hc
    rcases hc with rfl | rfl | rfl | rfl | rfl | rfl <;> decide

/-- white space followed by a stopping byte starts with a stopping byte -/
theorem head_ws_stop (hC2 : TablesCanon2 T) (w : Bytes) (hw : ∀ x ∈ w, isWs x = true) (d : UInt8)
    (hd : Stop T d) (X : Bytes) : ∃ c r, Stop T c ∧ w ++ d :: X = c :: r := by
  cases w with
  | nil => exact ⟨d, X, hd, rfl⟩
  | cons x w' => exact ⟨x, w' ++ d :: X, stop_ws T hC2 (hw x (by simp)), rfl⟩

/-! ### Cursor primitives -/

theorem skipSpacesAux_ws (hC2 : TablesCanon2 T) (b : UInt8) (r : Bytes)
    (hb : byteIsSpace T b = false) :
    ∀ (w : Bytes), (∀ x ∈ w, isWs x = true) → ∀ (p : Nat),
      Stream.skipSpacesAux T p (w ++ b :: r) = ⟨p + w.length, b :: r⟩ := by
  intro w
  induction w with
  | nil => intro _ p; simp [Stream.skipSpacesAux, hb]
  | cons x w ih =>
    intro hw p
    have hx := hC2.ws_is_space x (hw x (by simp))
    simp only [List.cons_append, Stream.skipSpacesAux, hx, if_true]
    rw [ih (fun y hy => hw y (by simp [hy]))]
    congr 1
    simp only [List.length_cons]
    omega

theorem skipSpaces_ws (hC2 : TablesCanon2 T) (p : Nat) (w : Bytes) (b : UInt8) (r : Bytes)
    (hw : ∀ x ∈ w, isWs x = true) (hb : byteIsSpace T b = false) :
    Stream.skipSpaces T ⟨p, w ++ b :: r⟩ = ⟨p + w.length, b :: r⟩ :=
  skipSpacesAux_ws T hC2 b r hb w hw p

/-- the scanning loop of `consume_qname` over lower-case letters up to a stopping byte -/
theorem qnameLoop_stop (hC : TablesCanon T) (start : Nat) (c : UInt8) (rest : Bytes)
    (hc : Stop T c) :
    ∀ (name : Bytes), (∀ x ∈ name, isLower x = true) → ∀ (fuel p : Nat) (acc : Bytes),
      name.length < fuel →
      Stream.qnameLoop T txt start fuel ⟨p, name ++ c :: rest⟩ acc none =
        .ok (⟨p + name.length, c :: rest⟩, acc.reverse ++ name, none) := by
  obtain ⟨hc128, hcc, hcn⟩ := hc
  intro name
  induction name with
  | nil =>
    intro _ fuel p acc hf
    obtain ⟨fuel, rfl⟩ : ∃ f, fuel = f + 1 := ⟨fuel - 1, by simp at hf; omega⟩
    simp [Stream.qnameLoop, hc128, hcc, hcn]
  | cons b name ih =>
    intro hl fuel p acc hf
    obtain ⟨fuel, rfl⟩ : ∃ f, fuel = f + 1 := ⟨fuel - 1, by simp at hf; omega⟩
    have hb : isLower b = true := hl b (by simp)
    have hb128 := lower_lt128 hb
    have hbc : (b == bColon) = false := lower_bne hb (by decide)
    have hbn := hC.lower_name b hb
    simp only [List.cons_append, Stream.qnameLoop, hb128, hbc, hbn, if_true, Bool.false_eq_true,
      if_false]
    rw [ih (fun x hx => hl x (by simp [hx])) fuel (p + 1) (b :: acc) (by simp at hf; omega)]
    simp
    omega

theorem consumeQName_stop (hC : TablesCanon T) (c : UInt8) (rest : Bytes)
    (hc : Stop T c) (name : Bytes) (hn : nameOk name = true) (p : Nat) :
    Stream.consumeQName T txt ⟨p, name ++ c :: rest⟩ =
      .ok (⟨p + name.length, c :: rest⟩, ⟨p, []⟩, ⟨p, name⟩) := by
  unfold Stream.consumeQName
  dsimp only
  rw [qnameLoop_stop T txt hC p c rest hc name (nameOk_all hn) _ p [] (by simp; omega)]
  obtain ⟨b, n', rfl, hb, _⟩ := nameOk_cons hn
  simp [Stream.strIsNameStart, lower_lt128 hb, hC.lower_nameStart b hb]

theorem consumeEq_runS (hC : TablesCanon T) (hC2 : TablesCanon2 T) (p : Nat) (w1 w2 : Bytes)
    (h1 : ∀ x ∈ w1, isWs x = true) (h2 : ∀ x ∈ w2, isWs x = true) (c : UInt8) (Y : Bytes)
    (hc : byteIsSpace T c = false) :
    Stream.consumeEq T txt ⟨p, w1 ++ 61 :: (w2 ++ c :: Y)⟩ =
      .ok ⟨p + w1.length + 1 + w2.length, c :: Y⟩ := by
  have e1 := skipSpaces_ws T hC2 p w1 61 (w2 ++ c :: Y) h1 (hC.delims_not_space 61 (by simp))
  have e2 := skipSpaces_ws T hC2 (p + w1.length + 1) w2 c Y h2 hc
  have e3 : Stream.consumeByte txt ⟨p + w1.length, 61 :: (w2 ++ c :: Y)⟩ bEq =
      .ok ⟨p + w1.length + 1, w2 ++ c :: Y⟩ := by
    simp [Stream.consumeByte, bEq]
  simp only [Stream.consumeEq, e1, e3, Res.bind_ok, e2, Res.pure_eq]

theorem advanceUntil2_valueS (qt : UInt8) (v rest : Bytes) (hv : ∀ x ∈ v, x ≠ qt ∧ x ≠ 60)
    (p : Nat) :
    Stream.advanceUntil2 ⟨p, v ++ qt :: rest⟩ qt bLt =
      .ok (⟨p + v.length, qt :: rest⟩, ⟨p, v⟩) := by
  unfold Stream.advanceUntil2
  dsimp only
  rw [spanBytesAux_run (fun b => b != qt && b != bLt) qt rest (by simp) v
    (by
      intro x hx
      obtain ⟨h1, h2⟩ := hv x hx
      simp [bLt, h1, h2])]
  simp [Stream.atEnd]

/-! ### Tags -/

theorem attrStyle_facts {pre preEq postEq : Bytes} {qt : UInt8} {v : Bytes}
    (h : AttrStyle.ok ⟨pre, preEq, postEq, qt⟩ v = true) :
    (∃ w0 w', pre = w0 :: w' ∧ isWs w0 = true ∧ ∀ x ∈ w', isWs x = true) ∧
    (∀ x ∈ preEq, isWs x = true) ∧ (∀ x ∈ postEq, isWs x = true) ∧ (qt = 34 ∨ qt = 39) ∧
    (∀ x ∈ v, x ≠ qt) := by
  simp only [AttrStyle.ok, Bool.and_eq_true, Bool.or_eq_true, beq_iff_eq,
    Bool.not_eq_true'] at h
  obtain ⟨⟨⟨⟨⟨hne, hpre⟩, hpe⟩, hpo⟩, hq⟩, hv⟩ := h
  refine ⟨?_, wsOk_all hpe, wsOk_all hpo, hq, ?_⟩
  · cases pre with
    | nil => simp at hne
    | cons w0 w' =>
      have := wsOk_all hpre
      exact ⟨w0, w', rfl, this w0 (by simp), fun x hx => this x (by simp [hx])⟩
  · intro x hx e
    subst e
    have : v.contains x = true := by rw [List.contains_iff_mem]; exact hx
    rw [this] at hv
    cases hv

theorem startTagLoop_gtS (hC : TablesCanon T) (hC2 : TablesCanon2 T) (w rest : Bytes)
    (hw : ∀ x ∈ w, isWs x = true) (fuel p : Nat) :
    ∃ q r, startTagLoop T txt (fuel + 1) ⟨p, w ++ 62 :: rest⟩ =
      ret [.elementEnd .open r] (⟨q, rest⟩, some true) := by
  have hne : (w ++ 62 :: rest).isEmpty = false := by cases w <;> rfl
  have hsk := skipSpaces_ws T hC2 p w 62 rest hw (hC.delims_not_space 62 (by simp))
  have hcb : Stream.currByte ⟨p + w.length, 62 :: rest⟩ = .ok 62 := rfl
  have h1 : ((62 : UInt8) == bSlash) = false := by decide
  have h2 : ((62 : UInt8) == bGt) = true := by decide
  have h3 : Stream.advance ⟨p + w.length, 62 :: rest⟩ 1 = .ok ⟨p + w.length + 1, rest⟩ := by
    simp [Stream.advance]
  generalize hX : startTagLoop T txt (fuel + 1) ⟨p, w ++ 62 :: rest⟩ = X
  simp only [startTagLoop, Stream.atEnd, hne, Bool.false_eq_true, if_false, hsk, hcb,
    lift_ok_bind, h1, h2, if_true, h3, emit_bind] at hX
  subst hX
  exact ⟨_, _, rfl⟩

theorem startTagLoop_emptyS (hC : TablesCanon T) (hC2 : TablesCanon2 T) (w rest : Bytes)
    (hw : ∀ x ∈ w, isWs x = true) (fuel p : Nat) :
    ∃ q r, startTagLoop T txt (fuel + 1) ⟨p, w ++ 47 :: 62 :: rest⟩ =
      ret [.elementEnd .empty r] (⟨q, rest⟩, some false) := by
  have hne : (w ++ 47 :: 62 :: rest).isEmpty = false := by cases w <;> rfl
  have hsk := skipSpaces_ws T hC2 p w 47 (62 :: rest) hw (hC.delims_not_space 47 (by simp))
  have hcb : Stream.currByte ⟨p + w.length, 47 :: 62 :: rest⟩ = .ok 47 := rfl
  have h1 : ((47 : UInt8) == bSlash) = true := by decide
  have h3 : Stream.advance ⟨p + w.length, 47 :: 62 :: rest⟩ 1 =
      .ok ⟨p + w.length + 1, 62 :: rest⟩ := by
    simp [Stream.advance]
  have h4 : Stream.consumeByte txt ⟨p + w.length + 1, 62 :: rest⟩ bGt =
      .ok ⟨p + w.length + 1 + 1, rest⟩ := by
    simp [Stream.consumeByte, bGt]
  generalize hX : startTagLoop T txt (fuel + 1) ⟨p, w ++ 47 :: 62 :: rest⟩ = X
  simp only [startTagLoop, Stream.atEnd, hne, Bool.false_eq_true, if_false, hsk, hcb,
    lift_ok_bind, h1, if_true, h3, h4, emit_bind] at hX
  subst hX
  exact ⟨_, _, rfl⟩

/-- one attribute, in any legal style -/
theorem startTagLoop_attrS (hC : TablesCanon T) (hC2 : TablesCanon2 T) (fuel p : Nat)
    (n v rest' : Bytes) (spre speq spost : Bytes) (qt : UInt8)
    (hn : nameOk n = true) (hv : valueOk v = true)
    (hst : AttrStyle.ok ⟨spre, speq, spost, qt⟩ v = true) :
    ∃ q r ql el o1 o2 o3,
      startTagLoop T txt (fuel + 1)
          ⟨p, spre ++ (n ++ (speq ++ 61 :: (spost ++ qt :: (v ++ qt :: rest'))))⟩ =
        pre [Token.attribute r ql el ⟨o1, []⟩ ⟨o2, n⟩ ⟨o3, v⟩]
          (startTagLoop T txt fuel ⟨q, rest'⟩) := by
  obtain ⟨⟨w0, w', rfl, hw0, hw'⟩, hw1, hw2, hq, hvq⟩ := attrStyle_facts hst
  have hqs : byteIsSpace T qt = false := by
    rcases hq with rfl | rfl
    · exact hC.delims_not_space 34 (by simp)
    · exact hC2.apos_not_space
  have hsp : Stream.startsWithSpace T
      ⟨p, w0 :: (w' ++ (n ++ (speq ++ 61 :: (spost ++ qt :: (v ++ qt :: rest')))))⟩ = true := by
    simp [Stream.startsWithSpace, hC2.ws_is_space w0 hw0]
  obtain ⟨b, r, hb, e⟩ := name_head hn (speq ++ 61 :: (spost ++ qt :: (v ++ qt :: rest')))
  have hsk : Stream.skipSpaces T
      ⟨p, w0 :: (w' ++ (n ++ (speq ++ 61 :: (spost ++ qt :: (v ++ qt :: rest')))))⟩ =
      ⟨p + (w0 :: w').length, n ++ (speq ++ 61 :: (spost ++ qt :: (v ++ qt :: rest')))⟩ := by
    rw [e]
    exact skipSpaces_ws T hC2 p (w0 :: w') b r
      (by intro x hx; rcases List.mem_cons.mp hx with rfl | hx; exact hw0; exact hw' x hx)
      (hC.lower_not_space b hb)
  have hcb : Stream.currByte
      ⟨p + (w0 :: w').length, n ++ (speq ++ 61 :: (spost ++ qt :: (v ++ qt :: rest')))⟩ = .ok b := by
    rw [e]; rfl
  have h1 : (b == bSlash) = false := lower_bne hb (by decide)
  have h2 : (b == bGt) = false := lower_bne hb (by decide)
  obtain ⟨c, r2, hc, e2⟩ := head_ws_stop T hC2 speq hw1 61 (stop_delim T hC (by simp))
    (spost ++ qt :: (v ++ qt :: rest'))
  have hqn := consumeQName_stop T txt hC c r2 hc n hn (p + (w0 :: w').length)
  rw [← e2] at hqn
  have heq := consumeEq_runS T txt hC hC2 (p + (w0 :: w').length + n.length) speq spost hw1 hw2 qt
    (v ++ qt :: rest') hqs
  have hqu : Stream.consumeQuote txt
      ⟨p + (w0 :: w').length + n.length + speq.length + 1 + spost.length, qt :: (v ++ qt :: rest')⟩ =
      .ok (⟨p + (w0 :: w').length + n.length + speq.length + 1 + spost.length + 1,
        v ++ qt :: rest'⟩, qt) := by
    rcases hq with rfl | rfl <;> simp [Stream.consumeQuote, bApos, bQuot]
  have hadv := advanceUntil2_valueS qt v rest'
    (fun x hx => ⟨hvq x hx, (valueOk_all hv x hx).2.1⟩)
    (p + (w0 :: w').length + n.length + speq.length + 1 + spost.length + 1)
  have hxs := isXmlStr_plain T txt hC v (fun x hx => (valueOk_all hv x hx).1)
    (p + (w0 :: w').length + n.length + speq.length + 1 + spost.length + 1)
  have hcq : Stream.consumeByte txt
      ⟨p + (w0 :: w').length + n.length + speq.length + 1 + spost.length + 1 + v.length,
        qt :: rest'⟩ qt =
      .ok ⟨p + (w0 :: w').length + n.length + speq.length + 1 + spost.length + 1 + v.length + 1,
        rest'⟩ := by
    simp [Stream.consumeByte]
  generalize hX : startTagLoop T txt (fuel + 1)
    ⟨p, (w0 :: w') ++ (n ++ (speq ++ 61 :: (spost ++ qt :: (v ++ qt :: rest'))))⟩ = X
  simp only [List.cons_append, startTagLoop, Stream.atEnd, List.isEmpty_cons, Bool.false_eq_true,
    if_false, hsp, hsk, hcb, lift_ok_bind, h1, h2, Bool.not_true, hqn, heq, hqu, hadv, hxs, hcq,
    emit_bind] at hX
  subst hX
  exact ⟨_, _, _, _, _, _, _, rfl⟩

theorem renderAttrsS_length_ge : ∀ (as : List (Bytes × Bytes × AttrStyle)),
    as.length ≤ (renderAttrsS as).length := by
  intro as
  induction as with
  | nil => simp
  | cons a r ih =>
    obtain ⟨n, v, st⟩ := a
    simp only [renderAttrsS, List.length_append, List.length_cons, List.length_nil]
    omega

/-- the attribute loop on any legal rendering of an attribute list; `E` is the end of the tag -/
theorem startTagLoop_runS (hC : TablesCanon T) (hC2 : TablesCanon2 T) (E rest : Bytes)
    (ek : EndKind) (ob : Bool)
    (hbase : ∀ fuel p, ∃ q r, startTagLoop T txt (fuel + 1) ⟨p, E⟩ =
      ret [.elementEnd ek r] (⟨q, rest⟩, some ob)) :
    ∀ (as : List (Bytes × Bytes × AttrStyle)),
      (∀ a ∈ as, nameOk a.1 = true ∧ valueOk a.2.1 = true ∧ a.2.2.ok a.2.1 = true) →
      ∀ (fuel p : Nat), as.length < fuel →
      ∃ q ats r, AttrToks (as.map fun a => (a.1, a.2.1)) ats ∧
        startTagLoop T txt fuel ⟨p, renderAttrsS as ++ E⟩ =
          ret (ats ++ [.elementEnd ek r]) (⟨q, rest⟩, some ob) := by
  intro as
  induction as with
  | nil =>
    intro _ fuel p hf
    obtain ⟨fuel, rfl⟩ : ∃ f, fuel = f + 1 := ⟨fuel - 1, by simp at hf; omega⟩
    obtain ⟨q, r, h⟩ := hbase fuel p
    exact ⟨q, [], r, AttrToks.nil, by simpa [renderAttrsS] using h⟩
  | cons a r ih =>
    intro hall fuel p hf
    obtain ⟨n, v, ⟨spre, speq, spost, qt⟩⟩ := a
    obtain ⟨fuel, rfl⟩ : ∃ f, fuel = f + 1 := ⟨fuel - 1, by simp at hf; omega⟩
    obtain ⟨hn, hv, hst⟩ := hall (n, v, ⟨spre, speq, spost, qt⟩) (by simp)
    obtain ⟨q1, r1, ql, el, o1, o2, o3, h1⟩ := startTagLoop_attrS T txt hC hC2 fuel p n v
      (renderAttrsS r ++ E) spre speq spost qt hn hv hst
    obtain ⟨q2, ats, r2, hats, h2⟩ := ih (fun x hx => hall x (by simp [hx])) fuel q1
      (by simp at hf; omega)
    refine ⟨q2, _ :: ats, r2, AttrToks.cons n v r1 ql el o1 o2 o3 hats, ?_⟩
    simp only [renderAttrsS, List.append_assoc, List.cons_append, List.nil_append]
    rw [h1, h2, pre_mk]
    rfl

theorem parseStartTag_runS (hC : TablesCanon T) (hC2 : TablesCanon2 T) (n : Bytes)
    (as : List (Bytes × Bytes × AttrStyle)) (E rest : Bytes) (ek : EndKind) (ob : Bool)
    (hbase : ∀ fuel p, ∃ q r, startTagLoop T txt (fuel + 1) ⟨p, E⟩ =
      ret [.elementEnd ek r] (⟨q, rest⟩, some ob))
    (hE : ∃ c r, Stop T c ∧ E = c :: r)
    (hn : nameOk n = true)
    (has : ∀ a ∈ as, nameOk a.1 = true ∧ valueOk a.2.1 = true ∧ a.2.2.ok a.2.1 = true) (p : Nat) :
    ∃ q ats r o1 o2 s0, AttrToks (as.map fun a => (a.1, a.2.1)) ats ∧
      parseStartTag T txt ⟨p, 60 :: (n ++ (renderAttrsS as ++ E))⟩ =
        ret ([.elementStart ⟨o1, []⟩ ⟨o2, n⟩ s0] ++ ats ++ [.elementEnd ek r]) (⟨q, rest⟩, ob) := by
  have h1 : Stream.advance ⟨p, 60 :: (n ++ (renderAttrsS as ++ E))⟩ 1 =
      .ok ⟨p + 1, n ++ (renderAttrsS as ++ E)⟩ := by simp [Stream.advance]
  obtain ⟨c, r', hc, e⟩ : ∃ c r', Stop T c ∧ renderAttrsS as ++ E = c :: r' := by
    cases as with
    | nil => simpa [renderAttrsS] using hE
    | cons a r =>
      obtain ⟨an, av, ⟨spre, speq, spost, qt⟩⟩ := a
      obtain ⟨_, _, hst⟩ := has (an, av, ⟨spre, speq, spost, qt⟩) (by simp)
      obtain ⟨⟨w0, w', rfl, hw0, _⟩, _⟩ := attrStyle_facts hst
      exact ⟨w0, w' ++ (an ++ (speq ++ 61 :: (spost ++ qt :: (av ++ qt :: (renderAttrsS r ++ E))))),
        stop_ws T hC2 hw0, by
        simp only [renderAttrsS, List.append_assoc, List.cons_append, List.nil_append]⟩
  have hq := consumeQName_stop T txt hC c r' hc n hn (p + 1)
  rw [← e] at hq
  obtain ⟨q, ats, r, hats, hl⟩ := startTagLoop_runS T txt hC hC2 E rest ek ob hbase as has
    ((renderAttrsS as ++ E).length + 1) (p + 1 + n.length)
    (by have := renderAttrsS_length_ge as; simp only [List.length_append]; omega)
  generalize hX : parseStartTag T txt ⟨p, 60 :: (n ++ (renderAttrsS as ++ E))⟩ = X
  unfold parseStartTag at hX
  simp only [h1, lift_ok_bind, hq, emit_bind, hl, ok_bind, pre_pure, pre_mk] at hX
  subst hX
  exact ⟨_, _, _, _, _, _, hats, rfl⟩

theorem parseCloseElement_runS (hC : TablesCanon T) (hC2 : TablesCanon2 T) (n w rest : Bytes)
    (hn : nameOk n = true) (hw : ∀ x ∈ w, isWs x = true) (p : Nat) :
    ∃ q r o3 o4, parseCloseElement T txt ⟨p, 60 :: 47 :: (n ++ (w ++ 62 :: rest))⟩ =
      ret [.elementEnd (.close ⟨o3, []⟩ ⟨o4, n⟩) r] ⟨q, rest⟩ := by
  have h1 : Stream.advance ⟨p, 60 :: 47 :: (n ++ (w ++ 62 :: rest))⟩ 2 =
      .ok ⟨p + 2, n ++ (w ++ 62 :: rest)⟩ := by
    simp [Stream.advance]
  obtain ⟨c, r2, hc, e2⟩ := head_ws_stop T hC2 w hw 62 (stop_delim T hC (by simp)) rest
  have hq := consumeQName_stop T txt hC c r2 hc n hn (p + 2)
  rw [← e2] at hq
  have hsk := skipSpaces_ws T hC2 (p + 2 + n.length) w 62 rest hw
    (hC.delims_not_space 62 (by simp))
  have hcb : Stream.consumeByte txt ⟨p + 2 + n.length + w.length, 62 :: rest⟩ bGt =
      .ok ⟨p + 2 + n.length + w.length + 1, rest⟩ := by
    simp [Stream.consumeByte, bGt]
  generalize hX : parseCloseElement T txt ⟨p, 60 :: 47 :: (n ++ (w ++ 62 :: rest))⟩ = X
  unfold parseCloseElement at hX
  simp only [h1, lift_ok_bind, hq, hsk, hcb, emit_bind] at hX
  subst hX
  exact ⟨_, _, _, _, rfl⟩

/-! ### One round of the content loop -/

theorem parseContent_openS (hC : TablesCanon T) (hC2 : TablesCanon2 T) (fuel d p : Nat) (n : Bytes)
    (as : List (Bytes × Bytes × AttrStyle)) (E rest : Bytes) (ek : EndKind) (ob : Bool)
    (hbase : ∀ fuel p, ∃ q r, startTagLoop T txt (fuel + 1) ⟨p, E⟩ =
      ret [.elementEnd ek r] (⟨q, rest⟩, some ob))
    (hE : ∃ c r, Stop T c ∧ E = c :: r)
    (hn : nameOk n = true)
    (has : ∀ a ∈ as, nameOk a.1 = true ∧ valueOk a.2.1 = true ∧ a.2.2.ok a.2.1 = true) :
    ∃ q ats r o1 o2 s0, AttrToks (as.map fun a => (a.1, a.2.1)) ats ∧
      parseContent T txt (fuel + 1) d ⟨p, 60 :: (n ++ (renderAttrsS as ++ E))⟩ =
        pre ([.elementStart ⟨o1, []⟩ ⟨o2, n⟩ s0] ++ ats ++ [.elementEnd ek r])
          (parseContent T txt fuel (if ob then d + 1 else d) ⟨q, rest⟩) := by
  obtain ⟨q, ats, r, o1, o2, s0, hats, hps⟩ :=
    parseStartTag_runS T txt hC hC2 n as E rest ek ob hbase hE hn has p
  obtain ⟨b, r', hb, e⟩ := name_head hn (renderAttrsS as ++ E)
  have h1 : ((60 : UInt8) == bLt) = true := by decide
  have h2 : Stream.nextByte ⟨p, 60 :: (n ++ (renderAttrsS as ++ E))⟩ = .ok b := by
    rw [e]; rfl
  have h3 : (b == bBang) = false := lower_bne hb (by decide)
  have h4 : (b == bQuest) = false := lower_bne hb (by decide)
  have h5 : (b == bSlash) = false := lower_bne hb (by decide)
  refine ⟨q, ats, r, o1, o2, s0, hats, ?_⟩
  simp only [parseContent, h1, h2, h3, h4, h5, if_true, Bool.false_eq_true, if_false, hps, ok_bind]

theorem parseContent_closeS (hC : TablesCanon T) (hC2 : TablesCanon2 T) (fuel d p : Nat)
    (n w rest : Bytes) (hn : nameOk n = true) (hw : ∀ x ∈ w, isWs x = true) :
    ∃ q r o3 o4,
      parseContent T txt (fuel + 1) (d + 1) ⟨p, 60 :: 47 :: (n ++ (w ++ 62 :: rest))⟩ =
        pre [.elementEnd (.close ⟨o3, []⟩ ⟨o4, n⟩) r] (parseContent T txt fuel d ⟨q, rest⟩) := by
  obtain ⟨q, r, o3, o4, hce⟩ := parseCloseElement_runS T txt hC hC2 n w rest hn hw p
  have h1 : ((60 : UInt8) == bLt) = true := by decide
  have h2 : Stream.nextByte ⟨p, 60 :: 47 :: (n ++ (w ++ 62 :: rest))⟩ = .ok 47 := rfl
  have h3 : ((47 : UInt8) == bBang) = false := by decide
  have h4 : ((47 : UInt8) == bQuest) = false := by decide
  have h5 : ((47 : UInt8) == bSlash) = true := by decide
  have h6 : (d + 1 == 0) = false := by simp
  refine ⟨q, r, o3, o4, ?_⟩
  simp only [parseContent, h1, h2, h3, h4, h5, h6, if_true, Bool.false_eq_true, if_false,
    hce, ok_bind, Nat.add_sub_cancel]

theorem parseContent_close0S (hC : TablesCanon T) (hC2 : TablesCanon2 T) (fuel p : Nat)
    (n w rest : Bytes) (hn : nameOk n = true) (hw : ∀ x ∈ w, isWs x = true) :
    ∃ q r o3 o4,
      parseContent T txt (fuel + 1) 0 ⟨p, 60 :: 47 :: (n ++ (w ++ 62 :: rest))⟩ =
        ret [.elementEnd (.close ⟨o3, []⟩ ⟨o4, n⟩) r] ⟨q, rest⟩ := by
  obtain ⟨q, r, o3, o4, hce⟩ := parseCloseElement_runS T txt hC hC2 n w rest hn hw p
  have h1 : ((60 : UInt8) == bLt) = true := by decide
  have h2 : Stream.nextByte ⟨p, 60 :: 47 :: (n ++ (w ++ 62 :: rest))⟩ = .ok 47 := rfl
  have h3 : ((47 : UInt8) == bBang) = false := by decide
  have h4 : ((47 : UInt8) == bQuest) = false := by decide
  have h5 : ((47 : UInt8) == bSlash) = true := by decide
  have h6 : ((0 : Nat) == 0) = true := by simp
  refine ⟨q, r, o3, o4, ?_⟩
  simp only [parseContent, h1, h2, h3, h4, h5, h6, if_true, Bool.false_eq_true, if_false,
    hce, ok_bind]
  rfl

end

/-! ### The content loop over a rendered forest -/

mutual
  /-- rounds of the content loop spent on a node -/
  def stepsS : XS → Nat
    | .elem _ _ _ sc ks _ => (if sc then 1 else 2) + stepsAllS ks
    | .comment _ => 1
    | .text _ => 1
  def stepsAllS : List XS → Nat
    | [] => 0
    | k :: ks => stepsS k + stepsAllS ks
end

theorem erase_elem (n : Bytes) (as : List (Bytes × Bytes × AttrStyle)) (e : Bytes) (sc : Bool)
    (ks : List XS) (c : Bytes) :
    erase (.elem n as e sc ks c) = .elem n (as.map fun a => (a.1, a.2.1)) (eraseAll ks) := by
  simp only [erase]

/-- what `ok (erase ·)` and `styleOk` say about an element -/
theorem elemS_facts {n : Bytes} {as : List (Bytes × Bytes × AttrStyle)} {e : Bytes} {sc : Bool}
    {ks : List XS} {c : Bytes} (hx : ok (erase (.elem n as e sc ks c)) = true)
    (hs : styleOk (.elem n as e sc ks c) = true) :
    nameOk n = true ∧
    (∀ a ∈ as, nameOk a.1 = true ∧ valueOk a.2.1 = true ∧ a.2.2.ok a.2.1 = true) ∧
    noAdjText (eraseAll ks) = true ∧ okAll (eraseAll ks) = true ∧
    (∀ x ∈ e, isWs x = true) ∧ (∀ x ∈ c, isWs x = true) ∧ (sc = true → ks = []) ∧
    styleOkAll ks = true := by
  simp only [erase, ok, Bool.and_eq_true] at hx
  obtain ⟨⟨⟨hn, has⟩, hadj⟩, hks⟩ := hx
  simp only [styleOk, Bool.and_eq_true, Bool.or_eq_true, Bool.not_eq_true',
    List.isEmpty_iff] at hs
  obtain ⟨⟨⟨⟨hst, he⟩, hc⟩, hsc⟩, hsks⟩ := hs
  refine ⟨hn, ?_, hadj, hks, wsOk_all he, wsOk_all hc, ?_, hsks⟩
  · intro a ha
    have := attr_ok_of has (a.1, a.2.1) (List.mem_map.mpr ⟨a, ha, rfl⟩)
    rw [List.all_eq_true] at hst
    exact ⟨this.1, this.2, hst a ha⟩
  · intro h
    rcases hsc with h' | h'
    · rw [h] at h'; cases h'
    · exact h'

mutual
  theorem stepsS_le : ∀ (k : XS), ok (erase k) = true → styleOk k = true →
      stepsS k ≤ (renderS k).length
    | .elem n as e sc ks c, hx, hs => by
      obtain ⟨_, _, _, hks, _, _, hsc, hsks⟩ := elemS_facts hx hs
      have := stepsAllS_le ks hks hsks
      cases sc with
      | true =>
        rw [hsc rfl]
        simp only [stepsS, stepsAllS, renderS, if_true, List.length_append, List.length_cons,
          List.length_nil]
        omega
      | false =>
        simp only [stepsS, renderS, Bool.false_eq_true, if_false, List.length_append,
          List.length_cons, List.length_nil]
        omega
    | .comment c, _, _ => by
      simp only [stepsS, renderS, List.length_append, List.length_cons, List.length_nil]
      omega
    | .text t, h, _ => by
      simp only [erase, ok] at h
      cases t with
      | nil => simp [textOk] at h
      | cons b t' => simp [stepsS, renderS]
  theorem stepsAllS_le : ∀ (ks : List XS), okAll (eraseAll ks) = true → styleOkAll ks = true →
      stepsAllS ks ≤ (renderAllS ks).length
    | [], _, _ => by simp [stepsAllS]
    | k :: ks, h, hs => by
      simp only [eraseAll, okAll, Bool.and_eq_true] at h
      simp only [styleOkAll, Bool.and_eq_true] at hs
      have h1 := stepsS_le k h.1 hs.1
      have h2 := stepsAllS_le ks h.2 hs.2
      simp only [stepsAllS, renderAllS, List.length_append]
      omega
end

theorem renderS_head_lt {k : XS} (h : isText (erase k) = false) : ∃ r, renderS k = 60 :: r := by
  cases k with
  | elem n as e sc ks c =>
    cases sc with
    | true =>
      simp only [renderS, if_true, List.append_assoc, List.cons_append, List.nil_append]
      exact ⟨_, rfl⟩
    | false =>
      simp only [renderS, Bool.false_eq_true, if_false, List.append_assoc, List.cons_append,
        List.nil_append]
      exact ⟨_, rfl⟩
  | comment c =>
    simp only [renderS, List.cons_append, List.nil_append]
    exact ⟨_, rfl⟩
  | text t => simp [erase, isText] at h

theorem next_ltS {k : XS} {ks : List XS} {rest : Bytes}
    (h : noAdjText (eraseAll (k :: ks)) = true)
    (ht : isText (erase k) = true) (hr : ∃ r, rest = 60 :: r) :
    ∃ r, renderAllS ks ++ rest = 60 :: r := by
  cases ks with
  | nil => simpa [renderAllS] using hr
  | cons k' r =>
    simp only [eraseAll, noAdjText, Bool.and_eq_true, ht, Bool.true_and, Bool.not_eq_true'] at h
    obtain ⟨r', e⟩ := renderS_head_lt h.1
    exact ⟨r' ++ (renderAllS r ++ rest), by
      simp only [renderAllS, e, List.append_assoc, List.cons_append]⟩

theorem noAdj_tailS {k : XS} {ks : List XS} (h : noAdjText (eraseAll (k :: ks)) = true) :
    noAdjText (eraseAll ks) = true := by
  simp only [eraseAll] at h
  exact noAdj_tail h

section
variable (T : Tables) (txt : Bytes)

mutual
  theorem pcS_node (hC : TablesCanon T) (hC2 : TablesCanon2 T) : ∀ (k : XS),
      ok (erase k) = true → styleOk k = true →
      ∀ (fuel d p : Nat) (rest : Bytes), (isText (erase k) = true → ∃ r, rest = 60 :: r) →
      ∃ q ts, TokFor (erase k) ts ∧
        parseContent T txt (stepsS k + fuel) d ⟨p, renderS k ++ rest⟩ =
          pre ts (parseContent T txt fuel d ⟨q, rest⟩)
    | .elem n as e sc ks c, hx, hs, fuel, d, p, rest, _ => by
      obtain ⟨hn, has, hadj, hks, he, hc, hsc, hsks⟩ := elemS_facts hx hs
      rw [erase_elem]
      cases sc with
      | true =>
        have hk := hsc rfl
        subst hk
        have hr : renderS (.elem n as e true [] c) ++ rest =
            60 :: (n ++ (renderAttrsS as ++ (e ++ 47 :: 62 :: rest))) := by
          simp only [renderS, if_true, List.append_assoc, List.cons_append, List.nil_append]
        have hst : stepsS (.elem n as e true [] c) + fuel = fuel + 1 := by
          simp only [stepsS, stepsAllS, if_true]; omega
        obtain ⟨q1, ats, r1, o1, o2, s0, hats, h1⟩ := parseContent_openS T txt hC hC2 fuel d p n as
          (e ++ 47 :: 62 :: rest) rest .empty false
          (startTagLoop_emptyS T txt hC hC2 e rest he)
          (head_ws_stop T hC2 e he 47 (stop_delim T hC (by simp)) (62 :: rest)) hn has
        refine ⟨q1, _, TokFor.elemEmpty n o1 o2 s0 r1 hats, ?_⟩
        rw [hr, hst, h1]
        simp only [Bool.false_eq_true, if_false]
      | false =>
        have hr : renderS (.elem n as e false ks c) ++ rest =
            60 :: (n ++ (renderAttrsS as ++ (e ++ 62 ::
              (renderAllS ks ++ 60 :: 47 :: (n ++ (c ++ 62 :: rest)))))) := by
          simp only [renderS, Bool.false_eq_true, if_false, List.append_assoc, List.cons_append,
            List.nil_append]
        have hst : stepsS (.elem n as e false ks c) + fuel = (stepsAllS ks + (fuel + 1)) + 1 := by
          simp only [stepsS, Bool.false_eq_true, if_false]; omega
        obtain ⟨q1, ats, r1, o1, o2, s0, hats, h1⟩ := parseContent_openS T txt hC hC2
          (stepsAllS ks + (fuel + 1)) d p n as
          (e ++ 62 :: (renderAllS ks ++ 60 :: 47 :: (n ++ (c ++ 62 :: rest))))
          (renderAllS ks ++ 60 :: 47 :: (n ++ (c ++ 62 :: rest))) .open true
          (startTagLoop_gtS T txt hC hC2 e _ he)
          (head_ws_stop T hC2 e he 62 (stop_delim T hC (by simp)) _) hn has
        obtain ⟨q2, kts, hkts, h2⟩ := pcS_all hC hC2 ks hks hadj hsks (fuel + 1) (d + 1) q1
          (60 :: 47 :: (n ++ (c ++ 62 :: rest))) ⟨_, rfl⟩
        obtain ⟨q3, r2, o3, o4, h3⟩ := parseContent_closeS T txt hC hC2 fuel d q2 n c rest hn hc
        refine ⟨q3, _, TokFor.elemOpen n o1 o2 s0 o3 o4 r1 r2 hats hkts, ?_⟩
        rw [hr, hst, h1]
        simp only [if_true]
        rw [h2, h3, pre_pre, pre_pre]
    | .comment c, h, _, fuel, d, p, rest, _ => by
      simp only [erase, ok] at h
      have hr : renderS (.comment c) ++ rest =
          60 :: 33 :: 45 :: 45 :: (c ++ 45 :: 45 :: 62 :: rest) := by
        simp only [renderS, List.append_assoc, List.cons_append, List.nil_append]
      have hst : stepsS (.comment c) + fuel = fuel + 1 := by simp only [stepsS]; omega
      refine ⟨p + 7 + c.length, [.comment ⟨p + 4, c⟩ (p, p + 7 + c.length)], ?_, ?_⟩
      · simp only [erase]
        exact TokFor.comment c _ _
      · rw [hr, hst, parseContent_comment T txt hC fuel d p c rest h]
    | .text t, h, _, fuel, d, p, rest, hnext => by
      simp only [erase, ok] at h
      obtain ⟨r, rfl⟩ := hnext (by simp only [erase, isText])
      have hst : stepsS (.text t) + fuel = fuel + 1 := by simp only [stepsS]; omega
      refine ⟨p + t.length, [.text ⟨p, t⟩ (p, p + t.length)], ?_, ?_⟩
      · simp only [erase]
        exact TokFor.text t _ _
      · simp only [renderS]
        rw [hst, parseContent_text T txt hC fuel d p t r h]
  theorem pcS_all (hC : TablesCanon T) (hC2 : TablesCanon2 T) : ∀ (ks : List XS),
      okAll (eraseAll ks) = true → noAdjText (eraseAll ks) = true → styleOkAll ks = true →
      ∀ (fuel d p : Nat) (rest : Bytes), (∃ r, rest = 60 :: r) →
      ∃ q ts, TokForAll (eraseAll ks) ts ∧
        parseContent T txt (stepsAllS ks + fuel) d ⟨p, renderAllS ks ++ rest⟩ =
          pre ts (parseContent T txt fuel d ⟨q, rest⟩)
    | [], _, _, _, fuel, d, p, rest, _ => by
      refine ⟨p, [], ?_, ?_⟩
      · simp only [eraseAll]
        exact TokForAll.nil
      · simp only [stepsAllS, renderAllS, List.nil_append, Nat.zero_add, pre_nil]
    | k :: ks, h, hadj, hs, fuel, d, p, rest, hr => by
      simp only [eraseAll, okAll, Bool.and_eq_true] at h
      simp only [styleOkAll, Bool.and_eq_true] at hs
      have hst : stepsAllS (k :: ks) + fuel = stepsS k + (stepsAllS ks + fuel) := by
        simp only [stepsAllS]; omega
      have hrr : renderAllS (k :: ks) ++ rest = renderS k ++ (renderAllS ks ++ rest) := by
        simp only [renderAllS, List.append_assoc]
      obtain ⟨q1, t1, ht1, h1⟩ := pcS_node hC hC2 k h.1 hs.1 (stepsAllS ks + fuel) d p
        (renderAllS ks ++ rest) (fun ht => next_ltS hadj ht hr)
      obtain ⟨q2, t2, ht2, h2⟩ := pcS_all hC hC2 ks h.2 (noAdj_tailS hadj) hs.2 fuel d q1 rest hr
      refine ⟨q2, t1 ++ t2, ?_, ?_⟩
      · simp only [eraseAll]
        exact TokForAll.cons ht1 ht2
      · rw [hst, hrr, h1, h2, pre_pre]
end

end

/-! ### The root element and the document -/

section
variable (T : Tables) (txt : Bytes)

theorem parseElement_runS (hC : TablesCanon T) (hC2 : TablesCanon2 T) (n : Bytes)
    (as : List (Bytes × Bytes × AttrStyle)) (e : Bytes) (sc : Bool) (ks : List XS) (c : Bytes)
    (hx : ok (erase (.elem n as e sc ks c)) = true)
    (hs : styleOk (.elem n as e sc ks c) = true) (p : Nat) :
    ∃ q ts, TokFor (erase (.elem n as e sc ks c)) ts ∧
      parseElement T txt ⟨p, renderS (.elem n as e sc ks c)⟩ = ret ts ⟨q, []⟩ := by
  obtain ⟨hn, has, hadj, hks, he, hc, hsc, hsks⟩ := elemS_facts hx hs
  rw [erase_elem]
  cases sc with
  | true =>
    have hk := hsc rfl
    subst hk
    have hr : renderS (.elem n as e true [] c) =
        60 :: (n ++ (renderAttrsS as ++ (e ++ 47 :: 62 :: []))) := by
      simp only [renderS, if_true, List.append_assoc, List.cons_append, List.nil_append]
    obtain ⟨q1, ats, r1, o1, o2, s0, hats, h1⟩ := parseStartTag_runS T txt hC hC2 n as
      (e ++ 47 :: 62 :: []) [] .empty false
      (startTagLoop_emptyS T txt hC hC2 e [] he)
      (head_ws_stop T hC2 e he 47 (stop_delim T hC (by simp)) (62 :: [])) hn has p
    refine ⟨q1, _, TokFor.elemEmpty n o1 o2 s0 r1 hats, ?_⟩
    rw [hr]
    unfold parseElement
    simp only [h1, ok_bind, Bool.false_eq_true, if_false]
    exact pre_pure _ _
  | false =>
    have hr : renderS (.elem n as e false ks c) =
        60 :: (n ++ (renderAttrsS as ++ (e ++ 62 ::
          (renderAllS ks ++ 60 :: 47 :: (n ++ (c ++ 62 :: [])))))) := by
      simp only [renderS, Bool.false_eq_true, if_false, List.append_assoc, List.cons_append,
        List.nil_append]
    obtain ⟨F, hF⟩ : ∃ F, (renderAllS ks ++ 60 :: 47 :: (n ++ (c ++ 62 :: []))).length + 1 =
        stepsAllS ks + (F + 1) := by
      have := stepsAllS_le ks hks hsks
      refine ⟨(renderAllS ks ++ 60 :: 47 :: (n ++ (c ++ 62 :: []))).length - stepsAllS ks, ?_⟩
      simp only [List.length_append]
      omega
    obtain ⟨q1, ats, r1, o1, o2, s0, hats, h1⟩ := parseStartTag_runS T txt hC hC2 n as
      (e ++ 62 :: (renderAllS ks ++ 60 :: 47 :: (n ++ (c ++ 62 :: []))))
      (renderAllS ks ++ 60 :: 47 :: (n ++ (c ++ 62 :: []))) .open true
      (startTagLoop_gtS T txt hC hC2 e _ he)
      (head_ws_stop T hC2 e he 62 (stop_delim T hC (by simp)) _) hn has p
    obtain ⟨q2, kts, hkts, h2⟩ := pcS_all T txt hC hC2 ks hks hadj hsks (F + 1) 0 q1
      (60 :: 47 :: (n ++ (c ++ 62 :: []))) ⟨_, rfl⟩
    obtain ⟨q3, r2, o3, o4, h3⟩ := parseContent_close0S T txt hC hC2 F q2 n c [] hn hc
    refine ⟨q3, _, TokFor.elemOpen n o1 o2 s0 o3 o4 r1 r2 hats hkts, ?_⟩
    rw [hr]
    unfold parseElement
    simp only [h1, ok_bind, if_true]
    rw [hF, h2, h3, pre_mk, pre_mk]
    simp only [List.append_assoc]

end

set_option linter.unusedVariables false in
/-- **Tokenizer, every rendering**: whatever white space is chosen inside the tags, whichever quote
character delimits each attribute value, and whether childless elements are written `<e/>` or
`<e></e>`, the tokenizer succeeds on the rendering and the tokens present the same abstract
document. -/
theorem tokenize_renderS (T : Tables) (hT : TablesOK T) (hC : TablesCanon T) (hC2 : TablesCanon2 T)
    (n : Bytes) (as : List (Bytes × Bytes × AttrStyle)) (endWs : Bytes) (selfClose : Bool)
    (ks : List XS) (closeWs : Bytes)
    (hx : ok (erase (.elem n as endWs selfClose ks closeWs)) = true)
    (hs : styleOk (.elem n as endWs selfClose ks closeWs) = true) (allowDtd : Bool) :
    ∃ toks, tokenize T (renderS (.elem n as endWs selfClose ks closeWs)) allowDtd = (toks, .ok ()) ∧
      TokFor (erase (.elem n as endWs selfClose ks closeWs)) toks := by
  have hn : nameOk n = true := (elemS_facts hx hs).1
  have hel := fun txt => parseElement_runS T txt hC hC2 n as endWs selfClose ks closeWs hx hs 0
  obtain ⟨b, r, hb, eR⟩ : ∃ b r, isLower b = true ∧
      renderS (.elem n as endWs selfClose ks closeWs) = 60 :: b :: r := by
    cases selfClose with
    | true =>
      obtain ⟨b, r, hb, e⟩ := name_head hn (renderAttrsS as ++ (endWs ++ 47 :: 62 :: []))
      refine ⟨b, r, hb, ?_⟩
      rw [← e]
      simp only [renderS, if_true, List.append_assoc, List.cons_append, List.nil_append]
    | false =>
      obtain ⟨b, r, hb, e⟩ := name_head hn (renderAttrsS as ++ (endWs ++ 62 ::
        (renderAllS ks ++ 60 :: 47 :: (n ++ (closeWs ++ 62 :: [])))))
      refine ⟨b, r, hb, ?_⟩
      rw [← e]
      simp only [renderS, Bool.false_eq_true, if_false, List.append_assoc, List.cons_append,
        List.nil_append]
  generalize renderS (.elem n as endWs selfClose ks closeWs) = R at hel eR ⊢
  generalize erase (.elem n as endWs selfClose ks closeWs) = X at hel ⊢
  obtain ⟨q, ts, hts, hel⟩ := hel R
  have hbom : Stream.startsWith ⟨0, R⟩ Lit.bom = false := by
    rw [eR]; simp [Stream.startsWith, Lit.bom, List.isPrefixOf]
  have hdecl : Stream.startsWithXmlDecl T ⟨0, R⟩ = false := by
    rw [eR]; exact startsWithXmlDecl_false_of_open T (startsWith_tag 0 b r hb 63 _ (by decide))
  have hdoc : Stream.startsWith ⟨0, R⟩ Lit.doctype = false := by
    rw [eR]; exact startsWith_tag 0 b r hb 33 _ (by decide)
  have hmisc : parseMisc T R (R.length + 1) ⟨0, R⟩ = ret [] ⟨0, R⟩ := by
    rw [eR]; exact parseMisc_tag T _ hC _ 0 b r hb
  have hsk : Stream.skipSpaces T ⟨0, R⟩ = ⟨0, R⟩ := by
    rw [eR]; exact skipSpaces_ns T 0 60 (b :: r) (hC.delims_not_space 60 (by simp))
  have hcb : (Stream.currByte? ⟨0, R⟩ == some bLt) = true := by
    rw [eR]; rfl
  have hprolog : parseProlog T R = ret [] ⟨0, R⟩ := by
    unfold parseProlog
    simp only [Stream.new, hbom, hdecl, Bool.false_eq_true, if_false, lift_ok_bind, hmisc, ok_bind,
      hsk, pre_nil]
    rfl
  have hbody : parseBody T R ⟨0, R⟩ = ret ts () := by
    unfold parseBody parseRootElement
    simp only [hsk, hcb, if_true, hel, ok_bind, List.length_nil, parseMisc_end, Stream.atEnd,
      List.isEmpty_nil, Bool.not_true, Bool.false_eq_true, if_false, pre_nil]
    exact pre_pure _ _
  refine ⟨ts, ?_, hts⟩
  show tokenize T R allowDtd = ret ts ()
  unfold tokenize parseDocument
  simp only [hprolog, ok_bind, hdoc, Bool.false_eq_true, if_false, hbody, pre_nil]
  rfl

end Rox.Lemmas
