/-
  Rox.Lemmas.MirrorBuild2 — Stage B' of the proof of `accepted_tree_mirrors`, part 2: the items that
  are not start tags — comments, processing instructions, CDATA sections, character data, end tags.
-/
import Rox.Lemmas.MirrorBuild1
import Rox.Props.C04Base

namespace Rox.Lemmas.MB
open Rox Rox.Spec Rox.Spec.Grammar Rox.Spec.Canon4 Rox.Spec.Mirror Rox.Lemmas.RtB Rox.Lemmas.GB

/-- only fields the correspondence does not read differ (the namespace table may) -/
theorem MCore.congrNA {a : AS} {c c' : Ctx} (h : MCore a c) (hn : c'.doc.nodes = c.doc.nodes)
    (hat : c'.doc.attrs = c.doc.attrs) (hl : c'.ld = c.ld) (hp : c'.parentId = c.parentId)
    (ha : c'.afterText = c.afterText) : MCore a c' := by
  have hk : kps c' = kps c := by unfold kps; rw [hn]
  refine ⟨by rw [hl]; exact h.ld, by rw [hp]; exact h.pid, h.chain, ?_, ?_⟩
  · rw [hk, hat]; exact h.good
  · have hp := h.pend
    unfold PendOk at hp ⊢
    rw [hk, hat, ha]
    exact hp

/-- what `Rox.Lemmas.MirrorDecode.processText_mirror` provides -/
def TextDec (T : Tables) (txt : Bytes) (lower : Token → Ctx → Res Ctx) : Prop :=
  ∀ (c c' : Ctx) (t : Span) (r : Range), c.entities = [] → c.ld.depth = 0 →
    r = (t.off, t.off + t.bytes.length) →
    t.bytes = sliceBytes txt t.off (t.off + t.bytes.length) → t.bytes ≠ [] → bLt ∉ t.bytes →
    processText T txt lower c t r = .ok c' →
    ∃ s : Str, s.bytes = decodeText t.bytes ∧ c.appendText s r = .ok c'

section
variable (T : Tables) (txt : Bytes) (lower : Token → Ctx → Res Ctx)

theorem mb_tok_comment {stk : List QP} {a : AS} {c c' : Ctx} {sp : Span} {r : Range}
    (hg : GInv stk c) (hm : MCore a c) (h : tokenStep T txt lower (.comment sp r) c = .ok c') :
    MCore ⟨a.flushed ++ [(some a.top, .comment sp.bytes)], none, a.stk⟩ c' := by
  unfold tokenStep at h
  dsimp only at h
  rw [Res.bind_eq_ok] at h
  obtain ⟨c1, h1, h⟩ := h
  rw [Res.bind_eq_ok] at h
  obtain ⟨⟨c2, id⟩, h2, h⟩ := h
  res_norm at h
  subst h
  have hb0 : BInv (c.log (.token (.comment sp r))) := hg.binv.congr rfl rfl rfl
  have hb1 := binv_resetAfterText hb0 h1
  obtain ⟨hm1, _, _⟩ := mcore_logreset hm h1
  exact mcore_appendLeaf hm1 hb1 rfl h2

theorem mb_tok_pi {stk : List QP} {a : AS} {c c' : Ctx} {sp : Span} {vo : Option Span} {r : Range}
    (hg : GInv stk c) (hm : MCore a c) (h : tokenStep T txt lower (.pi sp vo r) c = .ok c') :
    MCore ⟨a.flushed ++ [(some a.top, .pi sp.bytes (vo.map Span.bytes))], none, a.stk⟩ c' := by
  unfold tokenStep at h
  dsimp only at h
  rw [Res.bind_eq_ok] at h
  obtain ⟨c1, h1, h⟩ := h
  rw [Res.bind_eq_ok] at h
  obtain ⟨⟨c2, id⟩, h2, h⟩ := h
  res_norm at h
  subst h
  have hb0 : BInv (c.log (.token (.pi sp vo r))) := hg.binv.congr rfl rfl rfl
  have hb1 := binv_resetAfterText hb0 h1
  obtain ⟨hm1, _, _⟩ := mcore_logreset hm h1
  exact mcore_appendLeaf hm1 hb1 rfl h2

theorem mb_tok_cdata {stk : List QP} {a : AS} {c c' : Ctx} {sp : Span} {r : Range}
    (hg : GInv stk c) (hm : MCore a c) (h : tokenStep T txt lower (.cdata sp r) c = .ok c') :
    MCore ⟨a.out, some (a.pend.getD [] ++ lineEnds sp.bytes), a.stk⟩ c' := by
  unfold tokenStep at h
  dsimp only at h
  have hb0 : BInv (c.log (.token (.cdata sp r))) := hg.binv.congr rfl rfl rfl
  have hm0 : MCore a (c.log (.token (.cdata sp r))) := hm.congr rfl rfl rfl rfl
  unfold processCdata at h
  split at h
  · rename_i hcr
    have := mcore_appendText hm0 hb0 h
    have hle : lineEnds sp.bytes = sp.bytes := by
      apply Rox.Props.C04.lineEnds_no_cr
      intro hmem
      have hc : sp.bytes.contains bCR = true := List.contains_iff_mem.mpr hmem
      rw [hc] at hcr
      simp at hcr
    rw [hle]
    exact this
  · have := mcore_appendText hm0 hb0 h
    rw [← Rox.Props.C04.cdata_is_lineEnds]
    exact this

theorem mb_tok_text (hP : TextDec T txt lower) {stk : List QP} {a : AS} {c c' : Ctx} {sp : Span}
    {r : Range} (hg : GInv stk c) (hm : MCore a c) (htok : TokOk txt (.text sp r))
    (hne : sp.bytes ≠ []) (hlt : bLt ∉ sp.bytes)
    (h : tokenStep T txt lower (.text sp r) c = .ok c') :
    MCore ⟨a.out, some (a.pend.getD [] ++ decodeText sp.bytes), a.stk⟩ c' := by
  unfold tokenStep at h
  dsimp only at h
  have hb0 : BInv (c.log (.token (.text sp r))) := hg.binv.congr rfl rfl rfl
  have hm0 : MCore a (c.log (.token (.text sp r))) := hm.congr rfl rfl rfl rfl
  obtain ⟨hsu, _, hr, _⟩ := htok
  obtain ⟨s, hs, happ⟩ := hP (c.log (.token (.text sp r))) c' sp r hg.ents hm.ld hr hsu.1.1 hne hlt h
  rw [← hs]
  exact mcore_appendText hm0 hb0 happ

/-- the preparatory steps of `process_element` when no attribute is pending -/
theorem prelude_nil {c c1 c2 : Ctx} {nss attrs : Range} (hcur : c.curAttrs = [])
    (h1 : resolveNamespaces c = .ok (c1, nss))
    (h2 : resolveAttributes txt { c1 with nsStartIdx := c1.doc.ns.treeOrder.size, xmlDeclared := false }
      nss = .ok (c2, attrs)) :
    c2.doc.nodes = c.doc.nodes ∧ c2.doc.attrs = c.doc.attrs ∧ c2.ld = c.ld ∧
      c2.parentId = c.parentId ∧ c2.afterText = c.afterText := by
  obtain ⟨ns, e1⟩ := gb_resolveNamespaces_sh h1
  subst e1
  unfold resolveAttributes at h2
  have : ({ ({ c with doc := { c.doc with ns := ns } } : Ctx) with
      nsStartIdx := ns.treeOrder.size, xmlDeclared := false } : Ctx).curAttrs.isEmpty = true := by
    show c.curAttrs.isEmpty = true
    rw [hcur]; rfl
  rw [if_pos this] at h2
  simp only [Res.ok.injEq, Prod.mk.injEq] at h2
  obtain ⟨e2, _⟩ := h2
  subst e2
  exact ⟨rfl, rfl, rfl, rfl, rfl⟩

theorem mb_close {stk : List QP} {out : List V} {ids : List Nat} {c c' : Ctx} {p l : Span}
    {r : Range} (hg : GInv stk c) (hm : MCore ⟨out, none, ids⟩ c) (hlen : 2 ≤ ids.length)
    (h : processElement txt c (.close p l) r = .ok c') : MCore ⟨out, none, ids.tail⟩ c' := by
  unfold processElement at h
  split at h
  · exact absurd h (errPos_ne_ok _ _ _ _)
  · rw [Res.bind_eq_ok] at h
    obtain ⟨⟨c1, nss⟩, h1, h⟩ := h
    try dsimp only at h
    rw [Res.bind_eq_ok] at h
    obtain ⟨⟨c2, attrs⟩, h2, h⟩ := h
    obtain ⟨e1, e2, e3, e4, e5⟩ := prelude_nil txt hg.cur h1 h2
    have hm2 : MCore ⟨out, none, ids⟩ c2 := hm.congrNA e1 e2 e3 e4 e5
    clear h1 h2 hm hg e1 e2 e3 e4 e5
    split at h
    · exact absurd h (errPos_ne_ok _ _ _ _)
    · rw [Res.bind_eq_ok] at h
      obtain ⟨nd, hpn', h⟩ := h
      split at h
      · simp at h
      · rename_i parentPrefix restPrefixes hpp
        split at h
        · exact absurd h (errPos_ne_ok _ _ _ _)
        · rename_i hmis
          split at h
          · rename_i id hid
            dsimp only at hpn' hpp hmis hid
            have hpn : c2.doc.nodes[c2.parentId]? = some nd := by
              unfold Ctx.nodeAt at hpn'
              split at hpn' <;> simp at hpn'
              subst hpn'; assumption
            generalize hpd : (if c2.positions = true then
                ({ nd with range := (nd.range.1, r.2) } : NodeData) else nd) = pnew at h hmis hid
            have hpk : pnew.kind = nd.kind ∧ pnew.parent = nd.parent := by
              subst hpd; split <;> exact ⟨rfl, rfl⟩
            rw [hpk.2] at hid
            res_norm at h
            subst h
            -- the stack
            obtain ⟨hv0, hv⟩ := hm2.pend.none
            cases ids with
            | nil => simp at hlen
            | cons i ids1 =>
              cases ids1 with
              | nil => simp at hlen
              | cons j rest =>
                obtain ⟨⟨k, hk⟩, hch⟩ := hm2.chain
                have hpi : c2.parentId = i := hm2.pid
                have hkpn : (kps c2)[i]? = some (kp nd) := by
                  rw [kps_getElem?, ← hpi, hpn]; rfl
                have hvi : viewK c2.doc.attrs.toList (kp nd) = (some j, k) := by
                  have := congrArg (fun l => l[i]?) hv
                  simp only [List.getElem?_map, hkpn, Option.map_some] at this
                  rw [hk] at this
                  simpa using this
                have hpar : nd.parent = some j := by
                  have := viewK_fst c2.doc.attrs.toList (kp nd)
                  rw [hvi] at this
                  exact this.symm
                rw [hpar] at hid
                simp only [Option.some.injEq] at hid
                subst hid
                have hkps : kps (c2.setNode c2.parentId pnew) = kps c2 := by
                  unfold kps Ctx.setNode
                  exact kps_set_same _ _ nd _ hpn (by simp [kp, hpk.1, hpk.2])
                refine ⟨hm2.ld, rfl, hch, ?_, ?_⟩
                · intro x hx
                  have hx' : x ∈ kps (c2.setNode c2.parentId pnew) := hx
                  rw [hkps] at hx'
                  exact hm2.good x hx'
                · show c2.afterText = [] ∧
                    (kps (c2.setNode c2.parentId pnew)).map (viewK c2.doc.attrs.toList) = out
                  rw [hkps]
                  exact ⟨hv0, hv⟩
          · exact absurd h (errPos_ne_ok _ _ _ _)

theorem mb_tok_close {stk : List QP} {a : AS} {c c' : Ctx} {p l : Span} {r : Range}
    (hg : GInv stk c) (hm : MCore a c) (hlen : 2 ≤ a.stk.length)
    (h : tokenStep T txt lower (.elementEnd (.close p l) r) c = .ok c') :
    MCore ⟨a.flushed, none, a.stk.tail⟩ c' := by
  unfold tokenStep at h
  dsimp only at h
  rw [Res.bind_eq_ok] at h
  obtain ⟨c1, h1, h⟩ := h
  obtain ⟨hg1, _, _⟩ := gb_reset hg h1
  obtain ⟨hm1, _, _⟩ := mcore_logreset hm h1
  exact mb_close txt hg1 hm1 hlen h

end

end Rox.Lemmas.MB
