/-
  Rox.Lemmas.RtTok5 — the tokenizer on the rendering of a whole document over the full character
  repertoire (`Rox.Spec.Canon5`: names are arbitrary NCNames, text / values / comments / PI values
  arbitrary XML characters minus markup) delivers exactly `docToks y` and succeeds.
-/
import Rox.Spec.Canon5
import Rox.Lemmas.RtTok4

namespace Rox.Lemmas
open Rox Rox.Spec.Canon Rox.Spec.Canon4 Rox.Spec.Canon5 Rox.TM

/-- facts about the tables needed for the full repertoire (true of the tables of the build) -/
structure TablesCanon5 (T : Tables) : Prop where
  /-- on ASCII the byte tables contain what the character tables contain -/
  byte_name_of_char : ∀ b : UInt8, b < 128 → charIsName T b.toNat = true → byteIsName T b = true
  byte_nameStart_of_char : ∀ b : UInt8, b < 128 → charIsNameStart T b.toNat = true →
    byteIsNameStart T b = true
  byte_xmlChar_of_char : ∀ b : UInt8, b < 128 → charIsXmlChar T b.toNat = true →
    byteIsXmlChar T b = true
  /-- every NameStartChar is a NameChar -/
  nameStart_sub_name : ∀ c : Nat, charIsNameStart T c = true → charIsName T c = true
  /-- a name does not begin with white space, `!`, `/`, `>` or `?` -/
  nameStart_not_space : ∀ b : UInt8, b < 128 → charIsNameStart T b.toNat = true →
    byteIsSpace T b = false
  nameStart_not_delim : ∀ b : UInt8, b ∈ [33, 47, 62, 63] → charIsNameStart T b.toNat = false
  /-- white space is ASCII and not a name character (`<?xmlé …?>` is a PI, not a declaration) -/
  space_not_name : ∀ b : UInt8, byteIsSpace T b = true → b < 128 ∧ charIsName T b.toNat = false

/-! ### Characters of a byte string -/

/-- `u` is the encoding of one character with scalar value `c`, whatever follows -/
def IsChar (u : Bytes) (c : Nat) : Prop :=
  u ≠ [] ∧ ∀ rest, decodeChar (u ++ rest) = some (c, u.length)

/-- `bs` splits into the characters `cs` -/
inductive Chars : Bytes → List Nat → Prop
  | nil : Chars [] []
  | cons {u bs : Bytes} {c : Nat} {cs : List Nat} : IsChar u c → Chars bs cs → Chars (u ++ bs) (c :: cs)

theorem isChar_len {u : Bytes} {c : Nat} (h : IsChar u c) : 1 ≤ u.length := by
  obtain ⟨hne, _⟩ := h
  cases u with
  | nil => exact absurd rfl hne
  | cons _ _ => simp

theorem isChar_of_decode {l : Bytes} {c w : Nat} (h : decodeChar l = some (c, w)) :
    IsChar (l.take w) c := by
  have hw := decodeChar_width l c w h
  have hl : (l.take w).length = w := by simp; omega
  refine ⟨?_, ?_⟩
  · intro e
    rw [e] at hl
    simp at hl
    omega
  · intro rest
    rw [hl]
    exact decodeChar_take l rest c w h

theorem charsAux_sound : ∀ (fuel : Nat) (bs : Bytes) (cs : List Nat),
    charsAux fuel bs = some cs → Chars bs cs := by
  intro fuel
  induction fuel with
  | zero => intro bs cs h; simp [charsAux] at h
  | succ fuel ih =>
    intro bs cs h
    cases bs with
    | nil =>
      simp [charsAux] at h
      subst h
      exact .nil
    | cons b r =>
      simp only [charsAux] at h
      split at h
      · rename_i c w hd
        split at h
        · simp at h
        · rw [Option.map_eq_some_iff] at h
          obtain ⟨cs', h1, rfl⟩ := h
          have := Chars.cons (isChar_of_decode hd) (ih _ _ h1)
          rwa [List.take_append_drop] at this
      · simp at h

theorem chars_sound {bs : Bytes} {cs : List Nat} (h : chars bs = some cs) : Chars bs cs :=
  charsAux_sound _ bs cs h

/-- a character is one ASCII byte, or consists of bytes ≥ 128 -/
theorem isChar_cases {u : Bytes} {c : Nat} (h : IsChar u c) :
    (∃ b, u = [b] ∧ b < 128 ∧ c = b.toNat) ∨ (∀ x ∈ u, ¬ x < 128) := by
  obtain ⟨hne, hd⟩ := h
  cases u with
  | nil => exact absurd rfl hne
  | cons b u' =>
    by_cases hb : b < 128
    · left
      have h1 := hd []
      rw [List.append_nil, decodeChar_ascii b u' hb] at h1
      simp only [Option.some.injEq, Prod.mk.injEq, List.length_cons] at h1
      obtain ⟨rfl, h2⟩ := h1
      have : u' = [] := by
        cases u' with
        | nil => rfl
        | cons _ _ => simp at h2
      subst this
      exact ⟨b, rfl, hb, rfl⟩
    · right
      intro x hx
      rcases List.mem_cons.mp hx with rfl | hx
      · exact hb
      · obtain ⟨i, hi, rfl⟩ := List.mem_iff_getElem.mp hx
        have h1 := hd []
        rw [List.append_nil] at h1
        obtain ⟨b', r', e, hc⟩ := decodeChar_cont _ _ _ (i + 1) h1 (by omega) (by simp; omega)
        simp only [List.drop_succ_cons] at e
        rw [List.drop_eq_getElem_cons hi] at e
        simp only [List.cons.injEq] at e
        rw [e.1]
        intro hlt
        simp only [isCont, Bool.and_eq_true, decide_eq_true_eq] at hc
        exact absurd (UInt8.lt_of_lt_of_le hlt hc.1) (UInt8.lt_irrefl _)

/-- a string of characters that begins with an ASCII byte begins with that character -/
theorem chars_ascii_head {b : UInt8} {r : Bytes} {cs : List Nat} (h : Chars (b :: r) cs)
    (hb : b < 128) : ∃ cs', cs = b.toNat :: cs' ∧ Chars r cs' := by
  generalize e : b :: r = l at h
  cases h with
  | nil => cases e
  | @cons u bs c cs' hu hbs =>
    rcases isChar_cases hu with ⟨b', rfl, _, rfl⟩ | hall
    · simp only [List.cons_append, List.nil_append, List.cons.injEq] at e
      obtain ⟨rfl, rfl⟩ := e
      exact ⟨cs', rfl, hbs⟩
    · obtain ⟨hne, _⟩ := hu
      cases u with
      | nil => exact absurd rfl hne
      | cons b' u' =>
        simp only [List.cons_append, List.cons.injEq] at e
        obtain ⟨rfl, _⟩ := e
        exact absurd hb (hall b (by simp))

/-! ### The cursor loops over characters -/

section
variable (T : Tables) (txt : Bytes)

/-- what the loops see at a character: a non-empty rest, decoded as `c` with the width of `u` -/
theorem isChar_view {u : Bytes} {c : Nat} (hu : IsChar u c) (X : Bytes) :
    ∃ b r, u ++ X = b :: r ∧ decodeChar (b :: r) = some (c, u.length) ∧
      u.length ≤ (b :: r).length ∧ (b :: r).drop u.length = X ∧ (b :: r).take u.length = u := by
  obtain ⟨hne, hd⟩ := hu
  cases u with
  | nil => exact absurd rfl hne
  | cons b u' =>
    refine ⟨b, u' ++ X, rfl, hd X, ?_, ?_, ?_⟩
    · simp
    · rw [← List.cons_append]; exact List.drop_left
    · rw [← List.cons_append]; exact List.take_left

theorem skipCharsAux_char (f : Stream → Nat → Bool) {u : Bytes} {c : Nat} (hu : IsChar u c)
    (X : Bytes) (hx : charIsXmlChar T c = true) (p : Nat) (hf : f ⟨p, u ++ X⟩ c = true)
    (fuel : Nat) (acc : Bytes) :
    Stream.skipCharsAux T txt f (fuel + 1) ⟨p, u ++ X⟩ acc =
      Stream.skipCharsAux T txt f fuel ⟨p + u.length, X⟩ (u.reverse ++ acc) := by
  obtain ⟨b, r, e, hd, h1, h2, h3⟩ := isChar_view hu X
  rw [e] at hf ⊢
  simp only [Stream.skipCharsAux, hd, hx, hf, h1, h2, h3, Bool.not_true, Bool.false_eq_true,
    if_false, if_true]

/-- the characters of a run accepted by `f`, up to `stop` -/
inductive Run (f : Stream → Nat → Bool) (stop : Bytes) : Bytes → Prop
  | nil : Run f stop []
  | cons {u bs : Bytes} {c : Nat} : IsChar u c → charIsXmlChar T c = true →
      (∀ q, f ⟨q, u ++ (bs ++ stop)⟩ c = true) → Run f stop bs → Run f stop (u ++ bs)

theorem skipCharsAux_run5 (hC : TablesCanon T) (f : Stream → Nat → Bool) (c0 : UInt8) (R : Bytes)
    (hcp : isPlain c0 = true) (hstop : ∀ p, f ⟨p, c0 :: R⟩ c0.toNat = false) :
    ∀ (t : Bytes), Run T f (c0 :: R) t → ∀ (fuel p : Nat) (acc : Bytes), t.length < fuel →
      Stream.skipCharsAux T txt f fuel ⟨p, t ++ c0 :: R⟩ acc =
        .ok (⟨p + t.length, c0 :: R⟩, acc.reverse ++ t) := by
  intro t ht
  induction ht with
  | nil =>
    intro fuel p acc hf
    obtain ⟨fuel, rfl⟩ : ∃ f, fuel = f + 1 := ⟨fuel - 1, by simp at hf; omega⟩
    simp [Stream.skipCharsAux, decodeChar_ascii c0 R (plain_lt128 hcp), hC.plain_xmlCharC c0 hcp,
      hstop]
  | @cons u bs c hu hx hf _ ih =>
    intro fuel p acc hfu
    obtain ⟨fuel, rfl⟩ : ∃ f, fuel = f + 1 := ⟨fuel - 1, by simp at hfu; omega⟩
    have hul := isChar_len hu
    rw [List.append_assoc, skipCharsAux_char T txt f hu _ hx p (hf p) fuel acc,
      ih fuel _ _ (by simp at hfu; omega)]
    simp [Nat.add_assoc]

theorem consumeChars_run5 (hC : TablesCanon T) (f : Stream → Nat → Bool) (c0 : UInt8) (R : Bytes)
    (hcp : isPlain c0 = true) (hstop : ∀ p, f ⟨p, c0 :: R⟩ c0.toNat = false)
    (t : Bytes) (ht : Run T f (c0 :: R) t) (p : Nat) :
    Stream.consumeChars T txt ⟨p, t ++ c0 :: R⟩ f =
      .ok (⟨p + t.length, c0 :: R⟩, ⟨p, t⟩) := by
  unfold Stream.consumeChars
  dsimp only
  rw [skipCharsAux_run5 T txt hC f c0 R hcp hstop t ht _ p [] (by simp; omega)]
  simp

/-- a run whose acceptance depends on the character only -/
theorem run_of_chars (f : Stream → Nat → Bool) (stop : Bytes) (P : Nat → Bool)
    (hP : ∀ c, P c = true → ∀ s, f s c = true) :
    ∀ (bs : Bytes) (cs : List Nat), Chars bs cs →
      (∀ c ∈ cs, charIsXmlChar T c = true ∧ P c = true) → Run T f stop bs := by
  intro bs cs h
  induction h with
  | nil => intro _; exact .nil
  | @cons u bs c cs hu _ ih =>
    intro hall
    obtain ⟨h1, h2⟩ := hall c (by simp)
    exact .cons hu h1 (fun q => hP c h2 _) (ih (fun d hd => hall d (by simp [hd])))

/-! #### Names -/

theorem skipNameTail_char {u : Bytes} {c : Nat} (hu : IsChar u c) (X : Bytes)
    (hn : charIsName T c = true) (p fuel : Nat) (acc : Bytes) :
    Stream.skipNameTail T (fuel + 1) ⟨p, u ++ X⟩ acc =
      Stream.skipNameTail T fuel ⟨p + u.length, X⟩ (u.reverse ++ acc) := by
  obtain ⟨b, r, e, hd, h1, h2, h3⟩ := isChar_view hu X
  rw [e]
  simp only [Stream.skipNameTail, hd, hn, h1, h2, h3, if_true]

theorem skipNameTail_stop5 (hC4 : TablesCanon4 T) (c0 : UInt8) (R : Bytes)
    (hc : c0 ∈ ([32, 62, 63] : List UInt8)) :
    ∀ (bs : Bytes) (cs : List Nat), Chars bs cs → (∀ d ∈ cs, charIsName T d = true) →
      ∀ (fuel p : Nat) (acc : Bytes), bs.length < fuel →
      Stream.skipNameTail T fuel ⟨p, bs ++ c0 :: R⟩ acc =
        .ok (⟨p + bs.length, c0 :: R⟩, acc.reverse ++ bs) := by
  have hc128 : c0 < 128 := by
    simp only [List.mem_cons, List.not_mem_nil, or_false] at hc
    rcases hc with rfl | rfl | rfl <;> decide
  have hcn := hC4.stops_not_nameC c0 hc
  intro bs cs h
  induction h with
  | nil =>
    intro _ fuel p acc hf
    obtain ⟨fuel, rfl⟩ : ∃ f, fuel = f + 1 := ⟨fuel - 1, by simp at hf; omega⟩
    simp [Stream.skipNameTail, decodeChar_ascii c0 R hc128, hcn]
  | @cons u bs c cs hu _ ih =>
    intro hall fuel p acc hf
    obtain ⟨fuel, rfl⟩ : ∃ f, fuel = f + 1 := ⟨fuel - 1, by simp at hf; omega⟩
    have hul := isChar_len hu
    rw [List.append_assoc, skipNameTail_char T hu _ (hall c (by simp)) p fuel acc,
      ih (fun d hd => hall d (by simp [hd])) fuel _ _ (by simp at hf; omega)]
    simp [Nat.add_assoc]

/-- an NCName, split into its first character and the rest -/
def NameP (n : Bytes) : Prop :=
  ∃ u bs c cs, n = u ++ bs ∧ IsChar u c ∧ Chars bs cs ∧ charIsNameStart T c = true ∧ c ≠ 58 ∧
    ∀ d ∈ cs, charIsName T d = true ∧ d ≠ 58

theorem nameOk5_parts {n : Bytes} (h : nameOk5 T n = true) : NameP T n := by
  unfold nameOk5 at h
  cases hc : chars n with
  | none => simp [hc] at h
  | some cs =>
    cases cs with
    | nil => simp [hc] at h
    | cons c cs =>
      simp only [hc, Bool.and_eq_true, bne_iff_ne, ne_eq, List.all_eq_true] at h
      have hch := chars_sound hc
      generalize e : c :: cs = l at hch
      cases hch with
      | nil => cases e
      | @cons u bs c' cs' hu hbs =>
        simp only [List.cons.injEq] at e
        obtain ⟨rfl, rfl⟩ := e
        exact ⟨u, bs, c, cs, rfl, hu, hbs, h.1.1, h.1.2, h.2⟩

theorem skipName_stop5 (hC4 : TablesCanon4 T) (c0 : UInt8) (R : Bytes)
    (hc : c0 ∈ ([32, 62, 63] : List UInt8)) (name : Bytes) (hn : NameP T name) (p : Nat) :
    Stream.skipName T txt ⟨p, name ++ c0 :: R⟩ =
      .ok (⟨p + name.length, c0 :: R⟩, ⟨p, name⟩) := by
  obtain ⟨u, bs, c, cs, rfl, hu, hbs, hns, _, hall⟩ := hn
  obtain ⟨b, r, e, hd, h1, h2, h3⟩ := isChar_view hu (bs ++ c0 :: R)
  rw [List.append_assoc, e]
  simp only [Stream.skipName, hd, hns, h1, h2, h3, if_true]
  rw [skipNameTail_stop5 T hC4 c0 R hc bs cs hbs (fun d hd => (hall d hd).1) _ _ _
    (by rw [← e]; have := isChar_len hu; simp; omega)]
  simp [Nat.add_assoc]

theorem consumeName_stop5 (hC4 : TablesCanon4 T) (c0 : UInt8) (R : Bytes)
    (hc : c0 ∈ ([32, 62, 63] : List UInt8)) (name : Bytes) (hn : NameP T name) (p : Nat) :
    Stream.consumeName T txt ⟨p, name ++ c0 :: R⟩ =
      .ok (⟨p + name.length, c0 :: R⟩, ⟨p, name⟩) := by
  unfold Stream.consumeName
  rw [skipName_stop5 T txt hC4 c0 R hc name hn p]
  obtain ⟨u, bs, c, cs, rfl, hu, _⟩ := hn
  have := hu.1
  cases u with
  | nil => exact absurd rfl this
  | cons _ _ => simp

end

/-! #### Qualified names, attribute values -/

section
variable (T : Tables) (txt : Bytes)

theorem qnameLoop_char (hC5 : TablesCanon5 T) {u : Bytes} {c : Nat} (hu : IsChar u c) (X : Bytes)
    (hn : charIsName T c = true) (h58 : c ≠ 58) (start p fuel : Nat) (acc : Bytes) :
    Stream.qnameLoop T txt start (fuel + 1) ⟨p, u ++ X⟩ acc none =
      Stream.qnameLoop T txt start fuel ⟨p + u.length, X⟩ (u.reverse ++ acc) none := by
  rcases isChar_cases hu with ⟨b, rfl, hb, rfl⟩ | hall
  · have hbc : (b == bColon) = false := by
      rw [beq_eq_false_iff_ne]
      rintro rfl
      exact h58 rfl
    have hbn := hC5.byte_name_of_char b hb hn
    simp [Stream.qnameLoop, hb, hbc, hbn]
  · obtain ⟨b, r, e, hd, h1, h2, h3⟩ := isChar_view hu X
    have hb : ¬ b < 128 := by
      apply hall
      have := hu.1
      cases u with
      | nil => exact absurd rfl this
      | cons b' u' =>
        simp only [List.cons_append, List.cons.injEq] at e
        rw [e.1]; simp
    rw [e]
    simp only [Stream.qnameLoop, hb, hd, hn, h1, h2, h3, if_true, if_false]

theorem qnameLoop_run5 (hC : TablesCanon T) (hC5 : TablesCanon5 T) (start : Nat) (c0 : UInt8)
    (R : Bytes) (hc : c0 ∈ [32, 34, 47, 60, 61, 62]) :
    ∀ (bs : Bytes) (cs : List Nat), Chars bs cs → (∀ d ∈ cs, charIsName T d = true ∧ d ≠ 58) →
      ∀ (fuel p : Nat) (acc : Bytes), bs.length < fuel →
      Stream.qnameLoop T txt start fuel ⟨p, bs ++ c0 :: R⟩ acc none =
        .ok (⟨p + bs.length, c0 :: R⟩, acc.reverse ++ bs, none) := by
  have hcn : byteIsName T c0 = false := hC.delims_not_name c0 hc
  have hc128 : c0 < 128 := by
    simp only [List.mem_cons, List.not_mem_nil, or_false] at hc
    rcases hc with rfl | rfl | rfl | rfl | rfl | rfl <;> decide
  have hcc : (c0 == bColon) = false := by
    simp only [List.mem_cons, List.not_mem_nil, or_false] at hc
    rcases hc with rfl | rfl | rfl | rfl | rfl | rfl <;> decide
  intro bs cs h
  induction h with
  | nil =>
    intro _ fuel p acc hf
    obtain ⟨fuel, rfl⟩ : ∃ f, fuel = f + 1 := ⟨fuel - 1, by simp at hf; omega⟩
    simp [Stream.qnameLoop, hc128, hcc, hcn]
  | @cons u bs c cs hu _ ih =>
    intro hall fuel p acc hf
    obtain ⟨fuel, rfl⟩ : ∃ f, fuel = f + 1 := ⟨fuel - 1, by simp at hf; omega⟩
    have hul := isChar_len hu
    obtain ⟨h1, h2⟩ := hall c (by simp)
    rw [List.append_assoc, qnameLoop_char T txt hC5 hu _ h1 h2 start p fuel acc,
      ih (fun d hd => hall d (by simp [hd])) fuel _ _ (by simp at hf; omega)]
    simp [Nat.add_assoc]

theorem strIsNameStart_name (hC5 : TablesCanon5 T) {name : Bytes} (hn : NameP T name) :
    Stream.strIsNameStart T name = true := by
  obtain ⟨u, bs, c, cs, rfl, hu, _, hns, _, _⟩ := hn
  rcases isChar_cases hu with ⟨b, rfl, hb, rfl⟩ | hall
  · simp [Stream.strIsNameStart, hb, hC5.byte_nameStart_of_char b hb hns]
  · obtain ⟨b, r, e, hd, _⟩ := isChar_view hu bs
    have hb : ¬ b < 128 := by
      apply hall
      have := hu.1
      cases u with
      | nil => exact absurd rfl this
      | cons b' u' =>
        simp only [List.cons_append, List.cons.injEq] at e
        rw [e.1]; simp
    rw [e]
    simp only [Stream.strIsNameStart, hb, hd, hns, if_false]

theorem nameP_all (hC5 : TablesCanon5 T) {name : Bytes} (hn : NameP T name) :
    ∃ cs, Chars name cs ∧ ∀ d ∈ cs, charIsName T d = true ∧ d ≠ 58 := by
  obtain ⟨u, bs, c, cs, rfl, hu, hbs, hns, h58, hall⟩ := hn
  refine ⟨c :: cs, .cons hu hbs, ?_⟩
  intro d hd
  rcases List.mem_cons.mp hd with rfl | hd
  · exact ⟨hC5.nameStart_sub_name _ hns, h58⟩
  · exact hall d hd

theorem consumeQName_run5 (hC : TablesCanon T) (hC5 : TablesCanon5 T) (c0 : UInt8) (R : Bytes)
    (hc : c0 ∈ [32, 34, 47, 60, 61, 62]) (name : Bytes) (hn : NameP T name) (p : Nat) :
    Stream.consumeQName T txt ⟨p, name ++ c0 :: R⟩ =
      .ok (⟨p + name.length, c0 :: R⟩, ⟨p, []⟩, ⟨p, name⟩) := by
  obtain ⟨cs, hcs, hall⟩ := nameP_all T hC5 hn
  unfold Stream.consumeQName
  dsimp only
  rw [qnameLoop_run5 T txt hC hC5 p c0 R hc name cs hcs hall _ p [] (by simp; omega)]
  simp [strIsNameStart_name T hC5 hn]

/-- the bytes of characters other than `"` and `<` are not `"` or `<` -/
theorem chars_bytes_ne : ∀ (bs : Bytes) (cs : List Nat), Chars bs cs → (∀ c ∈ cs, c ≠ 34 ∧ c ≠ 60) →
    ∀ x ∈ bs, x ≠ 34 ∧ x ≠ 60 := by
  intro bs cs h
  induction h with
  | nil => intro _ x hx; cases hx
  | @cons u bs c cs hu _ ih =>
    intro hall x hx
    rcases List.mem_append.mp hx with hx | hx
    · rcases isChar_cases hu with ⟨b, rfl, hb, rfl⟩ | hge
      · simp only [List.mem_cons, List.not_mem_nil, or_false] at hx
        subst hx
        obtain ⟨h1, h2⟩ := hall x.toNat (by simp)
        exact ⟨fun e => h1 (by rw [e]; rfl), fun e => h2 (by rw [e]; rfl)⟩
      · have := hge x hx
        constructor <;> rintro rfl <;> exact this (by decide)
    · exact ih (fun d hd => hall d (by simp [hd])) x hx

theorem advanceUntil2_run5 (v R : Bytes) (hv : ∀ x ∈ v, x ≠ 34 ∧ x ≠ 60) (p : Nat) :
    Stream.advanceUntil2 ⟨p, v ++ 34 :: R⟩ 34 bLt =
      .ok (⟨p + v.length, 34 :: R⟩, ⟨p, v⟩) := by
  unfold Stream.advanceUntil2
  dsimp only
  rw [spanBytesAux_run (fun b => b != 34 && b != bLt) 34 R (by decide) v
    (by
      intro x hx
      obtain ⟨h1, h3⟩ := hv x hx
      simp [bLt, h1, h3])]
  simp [Stream.atEnd]

theorem isXmlStrAscii_chars (hC5 : TablesCanon5 T) :
    ∀ (v : Bytes) (cs : List Nat), Chars v cs → (∀ c ∈ cs, charIsXmlChar T c = true) →
      (∀ x ∈ v, x < 128) → ∀ pos, isXmlStrAscii T txt pos v = .ok () := by
  intro v
  induction v with
  | nil => intro _ _ _ _ pos; rfl
  | cons b v ih =>
    intro cs h hall hasc pos
    have hb := hasc b (by simp)
    obtain ⟨cs', rfl, h'⟩ := chars_ascii_head h hb
    have hx := hC5.byte_xmlChar_of_char b hb (hall _ (by simp))
    simp only [isXmlStrAscii, hx, Bool.not_true, Bool.false_eq_true, if_false]
    exact ih cs' h' (fun c hc => hall c (by simp [hc])) (fun x hx => hasc x (by simp [hx])) _

theorem isXmlStrUnicode_chars :
    ∀ (v : Bytes) (cs : List Nat), Chars v cs → (∀ c ∈ cs, charIsXmlChar T c = true) →
      ∀ fuel pos, v.length < fuel → isXmlStrUnicode T txt fuel pos v = .ok () := by
  intro v cs h
  induction h with
  | nil =>
    intro _ fuel pos hf
    obtain ⟨fuel, rfl⟩ : ∃ f, fuel = f + 1 := ⟨fuel - 1, by simp at hf; omega⟩
    rfl
  | @cons u bs c cs hu _ ih =>
    intro hall fuel pos hf
    obtain ⟨fuel, rfl⟩ : ∃ f, fuel = f + 1 := ⟨fuel - 1, by simp at hf; omega⟩
    have hul := isChar_len hu
    obtain ⟨b, r, e, hd, h1, h2, h3⟩ := isChar_view hu bs
    rw [e]
    simp only [isXmlStrUnicode, hd, hall c (by simp), h2, Bool.not_true, Bool.false_eq_true,
      if_false]
    exact ih (fun d hd => hall d (by simp [hd])) fuel _ (by simp at hf; omega)

theorem isXmlStr_chars (hC5 : TablesCanon5 T) (v : Bytes) (cs : List Nat) (h : Chars v cs)
    (hall : ∀ c ∈ cs, charIsXmlChar T c = true) (p : Nat) : isXmlStr T txt ⟨p, v⟩ = .ok () := by
  unfold isXmlStr
  by_cases ha : isAscii v = true
  · simp only [ha, if_true]
    refine isXmlStrAscii_chars T txt hC5 v cs h hall ?_ p
    simpa [isAscii] using ha
  · simp only [ha, Bool.false_eq_true, if_false]
    exact isXmlStrUnicode_chars T txt v cs h hall _ _ (by simp)

end

/-! ### The classes of `Canon5` -/

theorem containsSub_suffix (needle : Bytes) : ∀ (u bs : Bytes), containsSub (u ++ bs) needle = false →
    containsSub bs needle = false := by
  intro u
  induction u with
  | nil => intro bs h; exact h
  | cons b u ih =>
    intro bs h
    simp only [List.cons_append, containsSub, Bool.or_eq_false_iff] at h
    exact ih bs h.2

theorem containsSub_head {b : UInt8} {r needle : Bytes} (h : containsSub (b :: r) needle = false) :
    needle.isPrefixOf (b :: r) = false := by
  simp only [containsSub, Bool.or_eq_false_iff] at h
  exact h.1

theorem getLast_suffix {u bs : Bytes} {x : UInt8} (h : (u ++ bs).getLast? ≠ some x) :
    bs.getLast? ≠ some x := by
  intro e
  apply h
  rw [List.getLast?_append, e]
  rfl

section
variable (T : Tables)

theorem xmlCharsOk_parts {bs : Bytes} {p : Nat → Bool} (h : xmlCharsOk T bs p = true) :
    ∃ cs, Chars bs cs ∧ ∀ c ∈ cs, charIsXmlChar T c = true ∧ p c = true := by
  unfold xmlCharsOk at h
  cases hc : chars bs with
  | none => simp [hc] at h
  | some cs =>
    simp only [hc, List.all_eq_true, Bool.and_eq_true] at h
    exact ⟨cs, chars_sound hc, h⟩

/-- a character that begins with an ASCII byte is that byte -/
theorem isChar_head_ascii {b : UInt8} {u' : Bytes} {c : Nat} (hu : IsChar (b :: u') c) (hb : b < 128) :
    u' = [] ∧ c = b.toNat := by
  rcases isChar_cases hu with ⟨b', e, _, rfl⟩ | hall
  · simp only [List.cons.injEq] at e
    obtain ⟨rfl, rfl⟩ := e
    exact ⟨rfl, rfl⟩
  · exact absurd hb (hall b (by simp))

theorem run_comment (R : Bytes) : ∀ (bs : Bytes) (cs : List Nat), Chars bs cs →
    (∀ c ∈ cs, charIsXmlChar T c = true) → containsSub bs Lit.dashDash = false →
    bs.getLast? ≠ some 45 →
    Run T (fun s c => !(c == 45 && s.startsWith Lit.commentEnd)) (45 :: 45 :: 62 :: R) bs := by
  intro bs cs h
  induction h with
  | nil => intro _ _ _; exact .nil
  | @cons u bs c cs hu _ ih =>
    intro hall hsub hlast
    refine .cons hu (hall c (by simp)) ?_
      (ih (fun d hd => hall d (by simp [hd])) (containsSub_suffix _ u bs hsub) (getLast_suffix hlast))
    intro q
    have hpre : Lit.commentEnd.isPrefixOf (u ++ (bs ++ 45 :: 45 :: 62 :: R)) = false := by
      have hne := hu.1
      cases u with
      | nil => exact absurd rfl hne
      | cons b u' =>
        by_cases hb : b = 45
        · subst hb
          obtain ⟨rfl, _⟩ := isChar_head_ascii hu (by decide)
          cases bs with
          | nil => exact absurd rfl hlast
          | cons b' bs' =>
            have h2 := containsSub_head hsub
            simp [Lit.dashDash, List.isPrefixOf] at h2
            simp [Lit.commentEnd, List.isPrefixOf, h2]
        · have : ((45 : UInt8) == b) = false := by
            rw [beq_eq_false_iff_ne]; exact fun e => hb e.symm
          simp [Lit.commentEnd, List.isPrefixOf, this]
    simp [Stream.startsWith, hpre]

theorem run_pi (R : Bytes) : ∀ (bs : Bytes) (cs : List Nat), Chars bs cs →
    (∀ c ∈ cs, charIsXmlChar T c = true) → containsSub bs Lit.piEnd = false →
    Run T (fun s c => !(c == 63 && s.startsWith Lit.piEnd)) (63 :: 62 :: R) bs := by
  intro bs cs h
  induction h with
  | nil => intro _ _; exact .nil
  | @cons u bs c cs hu _ ih =>
    intro hall hsub
    refine .cons hu (hall c (by simp)) ?_
      (ih (fun d hd => hall d (by simp [hd])) (containsSub_suffix _ u bs hsub))
    intro q
    have hpre : Lit.piEnd.isPrefixOf (u ++ (bs ++ 63 :: 62 :: R)) = false := by
      have hne := hu.1
      cases u with
      | nil => exact absurd rfl hne
      | cons b u' =>
        by_cases hb : b = 63
        · subst hb
          obtain ⟨rfl, _⟩ := isChar_head_ascii hu (by decide)
          cases bs with
          | nil => simp [Lit.piEnd, List.isPrefixOf]
          | cons b' bs' =>
            have h2 := containsSub_head hsub
            simp [Lit.piEnd, List.isPrefixOf] at h2
            simp [Lit.piEnd, List.isPrefixOf, h2]
        · have : ((63 : UInt8) == b) = false := by
            rw [beq_eq_false_iff_ne]; exact fun e => hb e.symm
          simp [Lit.piEnd, List.isPrefixOf, this]
    simp [Stream.startsWith, hpre]

/-- the first byte of a name -/
def HeadOk (b : UInt8) : Prop :=
  byteIsSpace T b = false ∧ b ≠ 33 ∧ b ≠ 47 ∧ b ≠ 62 ∧ b ≠ 63

theorem name_head5 (hT : TablesOK T) (hC5 : TablesCanon5 T) {n : Bytes} (hn : NameP T n) (X : Bytes) :
    ∃ b r, HeadOk T b ∧ n ++ X = b :: r := by
  obtain ⟨u, bs, c, cs, rfl, hu, _, hns, _, _⟩ := hn
  have hne := hu.1
  cases u with
  | nil => exact absurd rfl hne
  | cons b u' =>
    refine ⟨b, u' ++ (bs ++ X), ?_, by simp⟩
    by_cases hb : b < 128
    · obtain ⟨_, rfl⟩ := isChar_head_ascii hu hb
      have hd : ∀ x ∈ ([33, 47, 62, 63] : List UInt8), b ≠ x := by
        intro x hx e
        subst e
        rw [hC5.nameStart_not_delim b hx] at hns
        cases hns
      exact ⟨hC5.nameStart_not_space b hb hns, hd 33 (by simp), hd 47 (by simp), hd 62 (by simp),
        hd 63 (by simp)⟩
    · refine ⟨?_, ?_, ?_, ?_, ?_⟩
      · cases hs : byteIsSpace T b with
        | false => rfl
        | true => exact absurd (hT.space_ascii b hs) hb
      all_goals (rintro rfl; exact hb (by decide))

end

/-! ### Tokens -/

section
variable (T : Tables) (txt : Bytes)

theorem parseText_run5 (hC : TablesCanon T) (t rest : Bytes) (ht : textOk5 T t = true) (p : Nat) :
    parseText T txt ⟨p, t ++ 60 :: rest⟩ =
      ret [.text ⟨p, t⟩ (p, p + t.length)] ⟨p + t.length, 60 :: rest⟩ := by
  simp only [textOk5, Bool.and_eq_true, Bool.not_eq_true'] at ht
  obtain ⟨⟨_, hx⟩, hsub⟩ := ht
  obtain ⟨cs, hcs, hall⟩ := xmlCharsOk_parts T hx
  have hrun : Run T (fun _ c => c != 60) (60 :: rest) t :=
    run_of_chars T _ _ (fun c => c != 60) (fun c h _ => h) t cs hcs
      (fun c hc => ⟨(hall c hc).1, by
        have := (hall c hc).2
        simp only [Bool.and_eq_true] at this
        exact this.1.1⟩)
  have h2 := consumeChars_run5 T txt hC (fun _ c => c != 60) 60 rest (by decide)
    (by intro q; simp) t hrun p
  have h3 : (t.contains bGt && containsSub t Lit.cdataEnd) = false := by simp [hsub]
  unfold parseText
  simp only [h2, lift_ok_bind, h3, Bool.false_eq_true, if_false, emit_bind]
  rfl

theorem parseComment_run5 (hC : TablesCanon T) (body rest : Bytes) (hb : commentOk5 T body = true)
    (p : Nat) :
    parseComment T txt ⟨p, 60 :: 33 :: 45 :: 45 :: (body ++ 45 :: 45 :: 62 :: rest)⟩ =
      ret [.comment ⟨p + 4, body⟩ (p, p + 7 + body.length)] ⟨p + 7 + body.length, rest⟩ := by
  simp only [commentOk5, Bool.and_eq_true, Bool.not_eq_true', bne_iff_ne, ne_eq] at hb
  obtain ⟨⟨hx, h4⟩, hlast⟩ := hb
  obtain ⟨cs, hcs, hall⟩ := xmlCharsOk_parts T hx
  have hrun := run_comment T rest body cs hcs (fun c hc => (hall c hc).1) h4 hlast
  have h1 : Stream.advance ⟨p, 60 :: 33 :: 45 :: 45 :: (body ++ 45 :: 45 :: 62 :: rest)⟩ 4 =
      .ok ⟨p + 4, body ++ 45 :: 45 :: 62 :: rest⟩ := by
    simp [Stream.advance]
  have h2 := consumeChars_run5 T txt hC (fun s c => !(c == 45 && s.startsWith Lit.commentEnd)) 45
    (45 :: 62 :: rest) (by decide) (by intro q; simp [Stream.startsWith, Lit.commentEnd]) body
    hrun (p + 4)
  have h3 : Stream.skipString txt ⟨p + 4 + body.length, 45 :: 45 :: 62 :: rest⟩ Lit.commentEnd =
      .ok ⟨p + 4 + body.length + 3, rest⟩ := by
    simp [Stream.skipString, Stream.startsWith, Lit.commentEnd, Stream.advance]
  have h5 : (body.getLast? == some bDash) = false := by
    rw [beq_eq_false_iff_ne]
    exact hlast
  unfold parseComment
  simp only [h1, lift_ok_bind, h2, h3, h4, h5, Bool.false_eq_true, if_false, emit_bind]
  have e : p + 4 + body.length + 3 = p + 7 + body.length := by omega
  rw [e]
  rfl

/-- `<?` target … is not the start of an XML declaration -/
theorem not_xmlDecl5 (hC4 : TablesCanon4 T) (hC5 : TablesCanon5 T) (t : Bytes) (hn : NameP T t)
    (hne : t ≠ litXml) (c : UInt8) (hc : c ∈ ([32, 63] : List UInt8)) (rest : Bytes) :
    Lit.xmlDecl.isPrefixOf (60 :: 63 :: (t ++ c :: rest)) = false := by
  have hc' : c ≠ 120 ∧ c ≠ 109 ∧ c ≠ 108 := by
    simp only [List.mem_cons, List.not_mem_nil, or_false] at hc
    rcases hc with rfl | rfl <;> decide
  rw [Bool.eq_false_iff]
  intro h
  match t, hn, hne with
  | [], _, _ =>
    simp [Lit.xmlDecl, List.isPrefixOf] at h
    exact hc'.1 h.1.symm
  | [b1], _, _ =>
    simp [Lit.xmlDecl, List.isPrefixOf] at h
    exact hc'.2.1 h.2.1.symm
  | [b1, b2], _, _ =>
    simp [Lit.xmlDecl, List.isPrefixOf] at h
    exact hc'.2.2 h.2.2.1.symm
  | [b1, b2, b3], _, hne =>
    simp [Lit.xmlDecl, List.isPrefixOf] at h
    obtain ⟨rfl, rfl, rfl, _⟩ := h
    exact hne rfl
  | b1 :: b2 :: b3 :: b4 :: r, hn, _ =>
    simp [Lit.xmlDecl, List.isPrefixOf] at h
    obtain ⟨rfl, rfl, rfl, rfl⟩ := h
    obtain ⟨cs, hcs, hall⟩ := nameP_all T hC5 hn
    obtain ⟨cs1, rfl, h1⟩ := chars_ascii_head hcs (by decide)
    obtain ⟨cs2, rfl, h2⟩ := chars_ascii_head h1 (by decide)
    obtain ⟨cs3, rfl, h3⟩ := chars_ascii_head h2 (by decide)
    obtain ⟨cs4, rfl, h4⟩ := chars_ascii_head h3 (by decide)
    have := (hall (32 : UInt8).toNat (by simp)).1
    rw [hC4.stops_not_nameC 32 (by simp)] at this
    cases this

/-- `<?` target … is not the start of an XML declaration (`<?xml` + white space) either -/
theorem not_xmlDecl5W (hC5 : TablesCanon5 T) (t : Bytes) (hn : NameP T t)
    (hne : t ≠ litXml) (c : UInt8) (hc : c ∈ ([32, 63] : List UInt8)) (rest : Bytes) (p : Nat) :
    Stream.startsWithXmlDecl T ⟨p, 60 :: 63 :: (t ++ c :: rest)⟩ = false := by
  have hc' : c ≠ 120 ∧ c ≠ 109 ∧ c ≠ 108 := by
    simp only [List.mem_cons, List.not_mem_nil, or_false] at hc
    rcases hc with rfl | rfl <;> decide
  rw [Bool.eq_false_iff]
  intro h
  simp only [Stream.startsWithXmlDecl, Bool.and_eq_true] at h
  obtain ⟨h, h6⟩ := h
  match t, hn, hne with
  | [], _, _ =>
    simp [Stream.startsWith, Lit.xmlDeclOpen, List.isPrefixOf] at h
    exact hc'.1 h.1.symm
  | [b1], _, _ =>
    simp [Stream.startsWith, Lit.xmlDeclOpen, List.isPrefixOf] at h
    exact hc'.2.1 h.2.1.symm
  | [b1, b2], _, _ =>
    simp [Stream.startsWith, Lit.xmlDeclOpen, List.isPrefixOf] at h
    exact hc'.2.2 h.2.2.symm
  | [b1, b2, b3], _, hne =>
    simp [Stream.startsWith, Lit.xmlDeclOpen, List.isPrefixOf] at h
    obtain ⟨rfl, rfl, rfl⟩ := h
    exact hne rfl
  | b1 :: b2 :: b3 :: b4 :: r, hn, _ =>
    simp [Stream.startsWith, Lit.xmlDeclOpen, List.isPrefixOf] at h
    obtain ⟨rfl, rfl, rfl⟩ := h
    have h6 : byteIsSpace T b4 = true := by simpa using h6
    obtain ⟨h4lt, h4n⟩ := hC5.space_not_name b4 h6
    obtain ⟨cs, hcs, hall⟩ := nameP_all T hC5 hn
    obtain ⟨cs1, rfl, h1⟩ := chars_ascii_head hcs (by decide)
    obtain ⟨cs2, rfl, h2⟩ := chars_ascii_head h1 (by decide)
    obtain ⟨cs3, rfl, h3⟩ := chars_ascii_head h2 (by decide)
    obtain ⟨cs4, rfl, h4⟩ := chars_ascii_head h3 h4lt
    have := (hall b4.toNat (by simp)).1
    rw [h4n] at this
    cases this

/-- a PI value of the class -/
def PiValP (v : Bytes) : Prop :=
  (∃ cs, Chars v cs ∧ ∀ c ∈ cs, charIsXmlChar T c = true) ∧ containsSub v Lit.piEnd = false ∧
    ∀ b r, v = b :: r → byteIsSpace T b = false

theorem piOk5_parts {t v : Bytes} (h : piOk5 T t v = true) :
    NameP T t ∧ t ≠ litXml ∧ PiValP T v := by
  simp only [piOk5, Bool.and_eq_true, bne_iff_ne, ne_eq, Bool.not_eq_true'] at h
  obtain ⟨⟨⟨⟨h1, h2⟩, h3⟩, h4⟩, h5⟩ := h
  obtain ⟨cs, hcs, hall⟩ := xmlCharsOk_parts T h3
  refine ⟨nameOk5_parts T h1, h2, ⟨cs, hcs, fun c hc => (hall c hc).1⟩, h4, ?_⟩
  intro b r e
  subst e
  simpa using h5

theorem parsePi_none5 (hC : TablesCanon T) (hC4 : TablesCanon4 T) (hC5 : TablesCanon5 T)
    (t rest : Bytes) (ht : NameP T t) (hne : t ≠ litXml) (p : Nat) :
    parsePi T txt ⟨p, 60 :: 63 :: (t ++ 63 :: 62 :: rest)⟩ =
      ret [.pi ⟨p + 2, t⟩ none (p, p + 4 + t.length)] ⟨p + 4 + t.length, rest⟩ := by
  have hx : Stream.startsWith ⟨p, 60 :: 63 :: (t ++ 63 :: 62 :: rest)⟩ Lit.xmlDecl = false :=
    not_xmlDecl5 T hC4 hC5 t ht hne 63 (by simp) _
  have h1 : Stream.advance ⟨p, 60 :: 63 :: (t ++ 63 :: 62 :: rest)⟩ 2 =
      .ok ⟨p + 2, t ++ 63 :: 62 :: rest⟩ := by simp [Stream.advance]
  have h2 := consumeName_stop5 T txt hC4 63 (62 :: rest) (by simp) t ht (p + 2)
  have h3 := declConsumeSpaces_end T txt hC4 (p + 2 + t.length) rest
  have h4 := consumeChars_run5 T txt hC (fun s c => !(c == 63 && s.startsWith Lit.piEnd)) 63
    (62 :: rest) (by decide) (by intro q; simp [Stream.startsWith, Lit.piEnd]) [] .nil
    (p + 2 + t.length)
  simp only [List.nil_append, List.length_nil, Nat.add_zero] at h4
  have h5 : Stream.skipString txt ⟨p + 2 + t.length, 63 :: 62 :: rest⟩ Lit.piEnd =
      .ok ⟨p + 2 + t.length + 2, rest⟩ := by
    simp [Stream.skipString, Stream.startsWith, Lit.piEnd, Stream.advance]
  unfold parsePi
  simp only [hx, Bool.false_eq_true, if_false, h1, lift_ok_bind, h2, h3, h4, h5, emit_bind,
    List.isEmpty_nil, Bool.not_true]
  have e : p + 2 + t.length + 2 = p + 4 + t.length := by omega
  rw [e]
  rfl

theorem parsePi_some5 (hC : TablesCanon T) (hC4 : TablesCanon4 T) (hC5 : TablesCanon5 T)
    (t v rest : Bytes) (ht : NameP T t) (hne : t ≠ litXml) (hv : PiValP T v) (hv0 : v ≠ []) (p : Nat) :
    parsePi T txt ⟨p, 60 :: 63 :: (t ++ 32 :: (v ++ 63 :: 62 :: rest))⟩ =
      ret [.pi ⟨p + 2, t⟩ (some ⟨p + 3 + t.length, v⟩) (p, p + 5 + t.length + v.length)]
        ⟨p + 5 + t.length + v.length, rest⟩ := by
  obtain ⟨⟨cs, hcs, hall⟩, hsub, hsp⟩ := hv
  have hx : Stream.startsWith ⟨p, 60 :: 63 :: (t ++ 32 :: (v ++ 63 :: 62 :: rest))⟩ Lit.xmlDecl = false :=
    not_xmlDecl5 T hC4 hC5 t ht hne 32 (by simp) _
  have h1 : Stream.advance ⟨p, 60 :: 63 :: (t ++ 32 :: (v ++ 63 :: 62 :: rest))⟩ 2 =
      .ok ⟨p + 2, t ++ 32 :: (v ++ 63 :: 62 :: rest)⟩ := by simp [Stream.advance]
  have h2 := consumeName_stop5 T txt hC4 32 (v ++ 63 :: 62 :: rest) (by simp) t ht (p + 2)
  have h3 : declConsumeSpaces T txt ⟨p + 2 + t.length, 32 :: (v ++ 63 :: 62 :: rest)⟩ =
      .ok ⟨p + 2 + t.length + 1, v ++ 63 :: 62 :: rest⟩ := by
    cases v with
    | nil => exact absurd rfl hv0
    | cons b v' => exact declConsumeSpaces_sp T txt hC _ b _ (hsp b v' rfl)
  have h4 := consumeChars_run5 T txt hC (fun s c => !(c == 63 && s.startsWith Lit.piEnd)) 63
    (62 :: rest) (by decide) (by intro q; simp [Stream.startsWith, Lit.piEnd]) v
    (run_pi T rest v cs hcs hall hsub) (p + 2 + t.length + 1)
  have h5 : Stream.skipString txt ⟨p + 2 + t.length + 1 + v.length, 63 :: 62 :: rest⟩ Lit.piEnd =
      .ok ⟨p + 2 + t.length + 1 + v.length + 2, rest⟩ := by
    simp [Stream.skipString, Stream.startsWith, Lit.piEnd, Stream.advance]
  have h6 : v.isEmpty = false := by
    cases v with
    | nil => exact absurd rfl hv0
    | cons _ _ => rfl
  unfold parsePi
  simp only [hx, Bool.false_eq_true, if_false, h1, lift_ok_bind, h2, h3, h4, h5, emit_bind, h6,
    Bool.not_false, if_true]
  have e1 : p + 2 + t.length + 1 + v.length + 2 = p + 5 + t.length + v.length := by omega
  have e2 : p + 2 + t.length + 1 = p + 3 + t.length := by omega
  rw [e1, e2]
  rfl

theorem parsePi_run5 (hC : TablesCanon T) (hC4 : TablesCanon4 T) (hC5 : TablesCanon5 T)
    (t v rest : Bytes) (h : piOk5 T t v = true) (p : Nat) :
    parsePi T txt ⟨p, renderY (.pi t v) ++ rest⟩ =
      ret (toksY p (.pi t v)) ⟨p + (renderY (.pi t v)).length, rest⟩ := by
  obtain ⟨ht, hne, hv⟩ := piOk5_parts T h
  cases v with
  | nil =>
    have hr : renderY (.pi t []) ++ rest = 60 :: 63 :: (t ++ 63 :: 62 :: rest) := by
      simp [renderY]
    have hl : (renderY (.pi t [])).length = 4 + t.length := by
      simp [renderY]; omega
    rw [hr, hl, parsePi_none5 T txt hC hC4 hC5 t rest ht hne p]
    simp only [toksY, List.isEmpty_nil, if_true, Nat.add_assoc]
  | cons b v' =>
    have hr : renderY (.pi t (b :: v')) ++ rest = 60 :: 63 :: (t ++ 32 :: ((b :: v') ++ 63 :: 62 :: rest)) := by
      simp [renderY]
    have hl : (renderY (.pi t (b :: v'))).length = 5 + t.length + (b :: v').length := by
      simp [renderY]; omega
    rw [hr, hl, parsePi_some5 T txt hC hC4 hC5 t (b :: v') rest ht hne hv (by simp) p]
    simp only [toksY, List.isEmpty_cons, Bool.false_eq_true, if_false, Nat.add_assoc]

theorem parseComment_runY5 (hC : TablesCanon T) (c rest : Bytes) (h : commentOk5 T c = true) (p : Nat) :
    parseComment T txt ⟨p, renderY (.comment c) ++ rest⟩ =
      ret (toksY p (.comment c)) ⟨p + (renderY (.comment c)).length, rest⟩ := by
  have hr : renderY (.comment c) ++ rest = 60 :: 33 :: 45 :: 45 :: (c ++ 45 :: 45 :: 62 :: rest) := by
    simp [renderY]
  have hl : (renderY (.comment c)).length = 7 + c.length := by
    simp [renderY]; omega
  rw [hr, hl, parseComment_run5 T txt hC c rest h p]
  simp only [toksY, Nat.add_assoc]

end

/-! ### Tags -/

section
variable (T : Tables) (txt : Bytes)

/-- an attribute value of the class -/
def ValP (v : Bytes) : Prop :=
  ∃ cs, Chars v cs ∧ ∀ c ∈ cs, charIsXmlChar T c = true ∧ c ≠ 34 ∧ c ≠ 60

theorem valueOk5_parts {v : Bytes} (h : valueOk5 T v = true) : ValP T v := by
  obtain ⟨cs, hcs, hall⟩ := xmlCharsOk_parts T h
  refine ⟨cs, hcs, fun c hc => ?_⟩
  obtain ⟨h1, h2⟩ := hall c hc
  simp only [Bool.and_eq_true, bne_iff_ne, ne_eq] at h2
  exact ⟨h1, h2.1.1.1.2, h2.1.1.1.1.1⟩

theorem headOk_ne {b : UInt8} (h : HeadOk T b) :
    (b == bBang) = false ∧ (b == bSlash) = false ∧ (b == bGt) = false ∧ (b == bQuest) = false := by
  obtain ⟨_, h1, h2, h3, h4⟩ := h
  refine ⟨?_, ?_, ?_, ?_⟩ <;> rw [beq_eq_false_iff_ne] <;> assumption

theorem startTagLoop_attr5 (hT : TablesOK T) (hC : TablesCanon T) (hC5 : TablesCanon5 T)
    (fuel p : Nat) (n v rest' : Bytes) (hn : NameP T n) (hv : ValP T v) :
    startTagLoop T txt (fuel + 1) ⟨p, 32 :: (n ++ 61 :: 34 :: (v ++ 34 :: rest'))⟩ =
      pre [Token.attribute (p + 1, p + 1 + n.length + 2 + v.length + 1) (min n.length 65535) 1
            ⟨p + 1, []⟩ ⟨p + 1, n⟩ ⟨p + 1 + n.length + 2, v⟩]
        (startTagLoop T txt fuel ⟨p + 1 + n.length + 2 + v.length + 1, rest'⟩) := by
  obtain ⟨cs, hcs, hall⟩ := hv
  have hsp : Stream.startsWithSpace T ⟨p, 32 :: (n ++ 61 :: 34 :: (v ++ 34 :: rest'))⟩ = true := by
    simp [Stream.startsWithSpace, hC.space_is_space]
  obtain ⟨b, r, hb, e⟩ := name_head5 T hT hC5 hn (61 :: 34 :: (v ++ 34 :: rest'))
  have hsk : Stream.skipSpaces T ⟨p, 32 :: (n ++ 61 :: 34 :: (v ++ 34 :: rest'))⟩ =
      ⟨p + 1, n ++ 61 :: 34 :: (v ++ 34 :: rest')⟩ := by
    rw [e]; exact skipSpaces_sp T hC p b r hb.1
  have hcb : Stream.currByte ⟨p + 1, n ++ 61 :: 34 :: (v ++ 34 :: rest')⟩ = .ok b := by
    rw [e]; rfl
  obtain ⟨_, h1, h2, _⟩ := headOk_ne T hb
  have hq := consumeQName_run5 T txt hC hC5 61 (34 :: (v ++ 34 :: rest')) (by simp) n hn (p + 1)
  have heq := consumeEq_run T txt hC (p + 1 + n.length) (v ++ 34 :: rest')
  have hqu : Stream.consumeQuote txt ⟨p + 1 + n.length + 1, 34 :: (v ++ 34 :: rest')⟩ =
      .ok (⟨p + 1 + n.length + 1 + 1, v ++ 34 :: rest'⟩, 34) := by
    simp [Stream.consumeQuote, bApos, bQuot]
  have hadv := advanceUntil2_run5 v rest'
    (chars_bytes_ne v cs hcs (fun c hc => (hall c hc).2)) (p + 1 + n.length + 1 + 1)
  have hxs := isXmlStr_chars T txt hC5 v cs hcs (fun c hc => (hall c hc).1) (p + 1 + n.length + 1 + 1)
  have hcq : Stream.consumeByte txt ⟨p + 1 + n.length + 1 + 1 + v.length, 34 :: rest'⟩ 34 =
      .ok ⟨p + 1 + n.length + 1 + 1 + v.length + 1, rest'⟩ := by
    simp [Stream.consumeByte]
  simp only [startTagLoop, Stream.atEnd, List.isEmpty_cons, Bool.false_eq_true, if_false, hsp, hsk,
    hcb, lift_ok_bind, h1, h2, Bool.not_true, hq, heq, hqu, hadv, hxs, hcq, emit_bind]
  have e1 : p + 1 + n.length - (p + 1) = n.length := by omega
  have e2 : p + 1 + n.length + 1 - (p + 1 + n.length) = 1 := by omega
  have e3 : p + 1 + n.length + 1 + 1 + v.length + 1 = p + 1 + n.length + 2 + v.length + 1 := by omega
  have e4 : p + 1 + n.length + 1 + 1 = p + 1 + n.length + 2 := by omega
  rw [e1, e2, e3, e4]
  rfl

theorem attr_ok_of5 {as : List (Bytes × Bytes)} (h : attrsOk5 T as = true) :
    ∀ a ∈ as, NameP T a.1 ∧ ValP T a.2 := by
  intro a ha
  simp only [attrsOk5, Bool.and_eq_true, List.all_eq_true] at h
  have := h.1 a ha
  exact ⟨nameOk5_parts T this.1.1, valueOk5_parts T this.2⟩

theorem startTagLoop_run5 (hT : TablesOK T) (hC : TablesCanon T) (hC5 : TablesCanon5 T)
    (rest : Bytes) :
    ∀ (as : List (Bytes × Bytes)), (∀ a ∈ as, NameP T a.1 ∧ ValP T a.2) →
      ∀ (fuel p : Nat), as.length < fuel →
      startTagLoop T txt fuel ⟨p, renderAttrs as ++ 62 :: rest⟩ =
        ret (attrToks p as ++ [.elementEnd .open (p + attrsLen as, p + attrsLen as + 1)])
          (⟨p + attrsLen as + 1, rest⟩, some true) := by
  intro as
  induction as with
  | nil =>
    intro _ fuel p hf
    obtain ⟨fuel, rfl⟩ : ∃ f, fuel = f + 1 := ⟨fuel - 1, by simp at hf; omega⟩
    simp only [renderAttrs, List.nil_append, attrToks, attrsLen, Nat.add_zero]
    exact startTagLoop_gt T txt hC fuel p rest
  | cons a r ih =>
    intro hall fuel p hf
    obtain ⟨n, v⟩ := a
    obtain ⟨fuel, rfl⟩ : ∃ f, fuel = f + 1 := ⟨fuel - 1, by simp at hf; omega⟩
    obtain ⟨hn, hv⟩ := hall (n, v) (by simp)
    simp only [renderAttrs, List.append_assoc, List.cons_append, List.nil_append]
    rw [startTagLoop_attr5 T txt hT hC hC5 fuel p n v _ hn hv,
      ih (fun x hx => hall x (by simp [hx])) fuel _ (by simp at hf; omega), pre_mk]
    simp only [attrToks, attrsLen, List.cons_append, List.nil_append]
    have e : p + 1 + n.length + 2 + v.length + 1 + attrsLen r =
        p + (1 + n.length + 2 + v.length + 1 + attrsLen r) := by omega
    rw [e]

theorem parseStartTag_run5 (hT : TablesOK T) (hC : TablesCanon T) (hC5 : TablesCanon5 T)
    (n : Bytes) (as : List (Bytes × Bytes))
    (rest : Bytes) (hn : NameP T n) (has : attrsOk5 T as = true) (p : Nat) :
    parseStartTag T txt ⟨p, 60 :: (n ++ (renderAttrs as ++ 62 :: rest))⟩ =
      ret ([.elementStart ⟨p + 1, []⟩ ⟨p + 1, n⟩ p] ++ attrToks (p + 1 + n.length) as ++
        [.elementEnd .open (p + 1 + n.length + attrsLen as, p + 1 + n.length + attrsLen as + 1)])
        (⟨p + 1 + n.length + attrsLen as + 1, rest⟩, true) := by
  have h1 : Stream.advance ⟨p, 60 :: (n ++ (renderAttrs as ++ 62 :: rest))⟩ 1 =
      .ok ⟨p + 1, n ++ (renderAttrs as ++ 62 :: rest)⟩ := by simp [Stream.advance]
  obtain ⟨c, r', hc, e⟩ : ∃ c r', c ∈ ([32, 34, 47, 60, 61, 62] : List UInt8) ∧
      renderAttrs as ++ 62 :: rest = c :: r' := by
    cases as with
    | nil => exact ⟨62, rest, by simp, rfl⟩
    | cons a r =>
      obtain ⟨an, av⟩ := a
      exact ⟨32, an ++ 61 :: 34 :: (av ++ 34 :: (renderAttrs r ++ 62 :: rest)), by simp,
        by simp only [renderAttrs, List.append_assoc, List.cons_append, List.nil_append]⟩
  have hq := consumeQName_run5 T txt hC hC5 c r' hc n hn (p + 1)
  rw [← e] at hq
  have hl := startTagLoop_run5 T txt hT hC hC5 rest as (attr_ok_of5 T has)
    ((renderAttrs as ++ 62 :: rest).length + 1) (p + 1 + n.length)
    (by have := attrsLen_ge as; simp [renderAttrs_length]; omega)
  unfold parseStartTag
  simp only [h1, lift_ok_bind, hq, emit_bind, hl, ok_bind, pre_pure, pre_mk]
  rfl

theorem parseCloseElement_run5 (hC : TablesCanon T) (hC5 : TablesCanon5 T) (n rest : Bytes)
    (hn : NameP T n) (p : Nat) :
    parseCloseElement T txt ⟨p, 60 :: 47 :: (n ++ 62 :: rest)⟩ =
      ret [.elementEnd (.close ⟨p + 2, []⟩ ⟨p + 2, n⟩) (p, p + 3 + n.length)]
        ⟨p + 3 + n.length, rest⟩ := by
  have h1 : Stream.advance ⟨p, 60 :: 47 :: (n ++ 62 :: rest)⟩ 2 = .ok ⟨p + 2, n ++ 62 :: rest⟩ := by
    simp [Stream.advance]
  have hq := consumeQName_run5 T txt hC hC5 62 rest (by simp) n hn (p + 2)
  have hsk := skipSpaces_ns T (p + 2 + n.length) 62 rest (hC.delims_not_space 62 (by simp))
  have hcb : Stream.consumeByte txt ⟨p + 2 + n.length, 62 :: rest⟩ bGt =
      .ok ⟨p + 2 + n.length + 1, rest⟩ := by
    simp [Stream.consumeByte, bGt]
  unfold parseCloseElement
  simp only [h1, lift_ok_bind, hq, hsk, hcb, emit_bind]
  have e : p + 2 + n.length + 1 = p + 3 + n.length := by omega
  rw [e]
  rfl

/-! ### One round of the content loop -/

theorem parseContent_comment5 (hC : TablesCanon T) (fuel d p : Nat) (body rest : Bytes)
    (hb : commentOk5 T body = true) :
    parseContent T txt (fuel + 1) d ⟨p, 60 :: 33 :: 45 :: 45 :: (body ++ 45 :: 45 :: 62 :: rest)⟩ =
      pre [.comment ⟨p + 4, body⟩ (p, p + 7 + body.length)]
        (parseContent T txt fuel d ⟨p + 7 + body.length, rest⟩) := by
  have h1 : ((60 : UInt8) == bLt) = true := by decide
  have h2 : Stream.nextByte ⟨p, 60 :: 33 :: 45 :: 45 :: (body ++ 45 :: 45 :: 62 :: rest)⟩ = .ok 33 :=
    rfl
  have h3 : ((33 : UInt8) == bBang) = true := by decide
  have h4 : Stream.startsWith ⟨p, 60 :: 33 :: 45 :: 45 :: (body ++ 45 :: 45 :: 62 :: rest)⟩
      Lit.commentStart = true := by
    simp [Stream.startsWith, Lit.commentStart]
  simp only [parseContent, h1, h2, h3, h4, if_true, parseComment_run5 T txt hC body rest hb p, ok_bind]

theorem text_head5 {t : Bytes} (ht : textOk5 T t = true) (X : Bytes) :
    ∃ b r, (b == bLt) = false ∧ t ++ X = b :: r := by
  simp only [textOk5, Bool.and_eq_true, Bool.not_eq_true'] at ht
  obtain ⟨⟨hne, hx⟩, _⟩ := ht
  obtain ⟨cs, hcs, hall⟩ := xmlCharsOk_parts T hx
  cases t with
  | nil => simp at hne
  | cons b t' =>
    refine ⟨b, t' ++ X, ?_, rfl⟩
    rw [beq_eq_false_iff_ne]
    rintro rfl
    obtain ⟨cs', rfl, _⟩ := chars_ascii_head hcs (by decide)
    have := (hall (bLt).toNat (by simp)).2
    simp [bLt] at this

theorem parseContent_text5 (hC : TablesCanon T) (fuel d p : Nat) (t rest : Bytes)
    (ht : textOk5 T t = true) :
    parseContent T txt (fuel + 1) d ⟨p, t ++ 60 :: rest⟩ =
      pre [.text ⟨p, t⟩ (p, p + t.length)]
        (parseContent T txt fuel d ⟨p + t.length, 60 :: rest⟩) := by
  obtain ⟨b, r, hb, e⟩ := text_head5 T ht (60 :: rest)
  have hstep : ∀ s : Stream, s.rest = b :: r →
      parseContent T txt (fuel + 1) d s =
        (parseText T txt s >>= fun s => parseContent T txt fuel d s) := by
    intro s hs
    simp only [parseContent, hs, hb, Bool.false_eq_true, if_false]
  rw [hstep _ e, parseText_run5 T txt hC t rest ht p, ok_bind]

theorem parseContent_open5 (hT : TablesOK T) (hC : TablesCanon T) (hC5 : TablesCanon5 T)
    (fuel d p : Nat) (n : Bytes)
    (as : List (Bytes × Bytes)) (rest : Bytes) (hn : NameP T n) (has : attrsOk5 T as = true) :
    parseContent T txt (fuel + 1) d ⟨p, 60 :: (n ++ (renderAttrs as ++ 62 :: rest))⟩ =
      pre ([.elementStart ⟨p + 1, []⟩ ⟨p + 1, n⟩ p] ++ attrToks (p + 1 + n.length) as ++
          [.elementEnd .open (p + 1 + n.length + attrsLen as, p + 1 + n.length + attrsLen as + 1)])
        (parseContent T txt fuel (d + 1) ⟨p + 1 + n.length + attrsLen as + 1, rest⟩) := by
  obtain ⟨b, r, hb, e⟩ := name_head5 T hT hC5 hn (renderAttrs as ++ 62 :: rest)
  have h1 : ((60 : UInt8) == bLt) = true := by decide
  have h2 : Stream.nextByte ⟨p, 60 :: (n ++ (renderAttrs as ++ 62 :: rest))⟩ = .ok b := by
    rw [e]; rfl
  obtain ⟨h3, h5, _, h4⟩ := headOk_ne T hb
  simp only [parseContent, h1, h2, h3, h4, h5, if_true, Bool.false_eq_true, if_false,
    parseStartTag_run5 T txt hT hC hC5 n as rest hn has p, ok_bind]

theorem parseContent_close5 (hC : TablesCanon T) (hC5 : TablesCanon5 T) (fuel d p : Nat)
    (n rest : Bytes) (hn : NameP T n) :
    parseContent T txt (fuel + 1) (d + 1) ⟨p, 60 :: 47 :: (n ++ 62 :: rest)⟩ =
      pre [.elementEnd (.close ⟨p + 2, []⟩ ⟨p + 2, n⟩) (p, p + 3 + n.length)]
        (parseContent T txt fuel d ⟨p + 3 + n.length, rest⟩) := by
  have h1 : ((60 : UInt8) == bLt) = true := by decide
  have h2 : Stream.nextByte ⟨p, 60 :: 47 :: (n ++ 62 :: rest)⟩ = .ok 47 := rfl
  have h3 : ((47 : UInt8) == bBang) = false := by decide
  have h4 : ((47 : UInt8) == bQuest) = false := by decide
  have h5 : ((47 : UInt8) == bSlash) = true := by decide
  have h6 : (d + 1 == 0) = false := by simp
  simp only [parseContent, h1, h2, h3, h4, h5, h6, if_true, Bool.false_eq_true, if_false,
    parseCloseElement_run5 T txt hC hC5 n rest hn p, ok_bind, Nat.add_sub_cancel]

theorem parseContent_close05 (hC : TablesCanon T) (hC5 : TablesCanon5 T) (fuel p : Nat)
    (n rest : Bytes) (hn : NameP T n) :
    parseContent T txt (fuel + 1) 0 ⟨p, 60 :: 47 :: (n ++ 62 :: rest)⟩ =
      ret [.elementEnd (.close ⟨p + 2, []⟩ ⟨p + 2, n⟩) (p, p + 3 + n.length)]
        ⟨p + 3 + n.length, rest⟩ := by
  have h1 : ((60 : UInt8) == bLt) = true := by decide
  have h2 : Stream.nextByte ⟨p, 60 :: 47 :: (n ++ 62 :: rest)⟩ = .ok 47 := rfl
  have h3 : ((47 : UInt8) == bBang) = false := by decide
  have h4 : ((47 : UInt8) == bQuest) = false := by decide
  have h5 : ((47 : UInt8) == bSlash) = true := by decide
  have h6 : ((0 : Nat) == 0) = true := by simp
  simp only [parseContent, h1, h2, h3, h4, h5, h6, if_true, Bool.false_eq_true, if_false,
    parseCloseElement_run5 T txt hC hC5 n rest hn p, ok_bind]
  rfl

theorem parseContent_pi5 (hC : TablesCanon T) (hC4 : TablesCanon4 T) (hC5 : TablesCanon5 T)
    (fuel d p : Nat) (t v rest : Bytes) (h : piOk5 T t v = true) :
    parseContent T txt (fuel + 1) d ⟨p, renderY (.pi t v) ++ rest⟩ =
      pre (toksY p (.pi t v))
        (parseContent T txt fuel d ⟨p + (renderY (.pi t v)).length, rest⟩) := by
  obtain ⟨r, e⟩ : ∃ r, renderY (.pi t v) ++ rest = 60 :: 63 :: r := by
    simp only [renderY, List.append_assoc, List.cons_append, List.nil_append]
    exact ⟨_, rfl⟩
  have hstep : ∀ s : Stream, s.rest = 60 :: 63 :: r →
      parseContent T txt (fuel + 1) d s =
        (parsePi T txt s >>= fun s => parseContent T txt fuel d s) := by
    intro s hs
    have h1 : ((60 : UInt8) == bLt) = true := by decide
    have h2 : Stream.nextByte s = .ok 63 := by simp [Stream.nextByte, hs]
    have h3 : ((63 : UInt8) == bBang) = false := by decide
    have h4 : ((63 : UInt8) == bQuest) = true := by decide
    simp only [parseContent, hs, h1, h2, h3, h4, if_true, Bool.false_eq_true, if_false]
  rw [hstep _ e, parsePi_run5 T txt hC hC4 hC5 t v rest h p, ok_bind]

end

/-! ### The content loop over a rendered forest -/

mutual
  theorem stepsY_le5 (T : Tables) : ∀ (k : YNode), okY5 T k = true → stepsY k ≤ (renderY k).length
    | .elem n as ks, h => by
      have hk : okAllY5 T ks = true := by
        simp only [okY5, Bool.and_eq_true] at h; exact h.2
      have := stepsAllY_le5 T ks hk
      simp only [stepsY, renderY, List.length_append, List.length_cons, List.length_nil]
      omega
    | .comment c, _ => by
      simp only [stepsY, renderY, List.length_append, List.length_cons, List.length_nil]
      omega
    | .pi t v, _ => by
      simp only [stepsY, renderY, List.length_append, List.length_cons, List.length_nil]
      omega
    | .text t, h => by
      simp only [okY5] at h
      cases t with
      | nil => simp [textOk5] at h
      | cons b t' => simp [stepsY, renderY]
  theorem stepsAllY_le5 (T : Tables) : ∀ (ks : List YNode), okAllY5 T ks = true →
      stepsAllY ks ≤ (renderAllY ks).length
    | [], _ => by simp [stepsAllY]
    | k :: ks, h => by
      simp only [okAllY5, Bool.and_eq_true] at h
      have h1 := stepsY_le5 T k h.1
      have h2 := stepsAllY_le5 T ks h.2
      simp only [stepsAllY, renderAllY, List.length_append]
      omega
end

section
variable (T : Tables) (txt : Bytes)

mutual
  theorem pcY_node5 (hT : TablesOK T) (hC : TablesCanon T) (hC4 : TablesCanon4 T)
      (hC5 : TablesCanon5 T) : ∀ (k : YNode), okY5 T k = true →
      ∀ (fuel d p : Nat) (rest : Bytes), (isTextY k = true → ∃ r, rest = 60 :: r) →
      parseContent T txt (stepsY k + fuel) d ⟨p, renderY k ++ rest⟩ =
        pre (toksY p k) (parseContent T txt fuel d ⟨p + (renderY k).length, rest⟩)
    | .elem n as ks, h, fuel, d, p, rest, _ => by
      simp only [okY5, Bool.and_eq_true] at h
      obtain ⟨⟨⟨hn, has⟩, hadj⟩, hks⟩ := h
      have hn := nameOk5_parts T hn
      have hr : renderY (.elem n as ks) ++ rest =
          60 :: (n ++ (renderAttrs as ++ 62 :: (renderAllY ks ++ 60 :: 47 :: (n ++ 62 :: rest)))) := by
        simp only [renderY, List.append_assoc, List.cons_append, List.nil_append]
      have hs : stepsY (.elem n as ks) + fuel = (stepsAllY ks + (fuel + 1)) + 1 := by
        simp only [stepsY]; omega
      have hlen : (renderY (.elem n as ks)).length =
          n.length + attrsLen as + (renderAllY ks).length + n.length + 5 := by
        simp only [renderY, List.length_append, List.length_cons, List.length_nil,
          renderAttrs_length]
        omega
      rw [hr, hs, parseContent_open5 T txt hT hC hC5 _ d p n as _ hn has,
        pcY_all5 hT hC hC4 hC5 ks hks hadj (fuel + 1) (d + 1) _ _ ⟨_, rfl⟩,
        parseContent_close5 T txt hC hC5 fuel d _ n rest hn, pre_pre, pre_pre, hlen]
      simp only [toksY]
      have e : p + 1 + n.length + attrsLen as + 1 + (renderAllY ks).length + 3 + n.length =
          p + (n.length + attrsLen as + (renderAllY ks).length + n.length + 5) := by omega
      rw [e]
    | .comment c, h, fuel, d, p, rest, _ => by
      simp only [okY5] at h
      have hr : renderY (.comment c) ++ rest = 60 :: 33 :: 45 :: 45 :: (c ++ 45 :: 45 :: 62 :: rest) := by
        simp only [renderY, List.append_assoc, List.cons_append, List.nil_append]
      have hs : stepsY (.comment c) + fuel = fuel + 1 := by simp only [stepsY]; omega
      have hlen : (renderY (.comment c)).length = 7 + c.length := by
        simp only [renderY, List.length_append, List.length_cons, List.length_nil]
        omega
      rw [hr, hs, parseContent_comment5 T txt hC fuel d p c rest h, hlen]
      simp only [toksY]
      have e : p + 7 + c.length = p + (7 + c.length) := by omega
      rw [e]
    | .pi t v, h, fuel, d, p, rest, _ => by
      simp only [okY5] at h
      have hs : stepsY (.pi t v) + fuel = fuel + 1 := by simp only [stepsY]; omega
      rw [hs, parseContent_pi5 T txt hC hC4 hC5 fuel d p t v rest h]
    | .text t, h, fuel, d, p, rest, hnext => by
      simp only [okY5] at h
      obtain ⟨r, rfl⟩ := hnext rfl
      have hs : stepsY (.text t) + fuel = fuel + 1 := by simp only [stepsY]; omega
      simp only [renderY, toksY]
      rw [hs, parseContent_text5 T txt hC fuel d p t r h]
  theorem pcY_all5 (hT : TablesOK T) (hC : TablesCanon T) (hC4 : TablesCanon4 T)
      (hC5 : TablesCanon5 T) : ∀ (ks : List YNode),
      okAllY5 T ks = true → noAdjTextY ks = true →
      ∀ (fuel d p : Nat) (rest : Bytes), (∃ r, rest = 60 :: r) →
      parseContent T txt (stepsAllY ks + fuel) d ⟨p, renderAllY ks ++ rest⟩ =
        pre (toksAllY p ks) (parseContent T txt fuel d ⟨p + (renderAllY ks).length, rest⟩)
    | [], _, _, fuel, d, p, rest, _ => by
      simp only [stepsAllY, renderAllY, toksAllY, List.nil_append, List.length_nil, Nat.zero_add,
        Nat.add_zero, pre_nil]
    | k :: ks, h, hadj, fuel, d, p, rest, hr => by
      simp only [okAllY5, Bool.and_eq_true] at h
      have hs : stepsAllY (k :: ks) + fuel = stepsY k + (stepsAllY ks + fuel) := by
        simp only [stepsAllY]; omega
      have hrr : renderAllY (k :: ks) ++ rest = renderY k ++ (renderAllY ks ++ rest) := by
        simp only [renderAllY, List.append_assoc]
      rw [hs, hrr, pcY_node5 hT hC hC4 hC5 k h.1 _ d p _ (fun ht => nextY_lt hadj ht hr),
        pcY_all5 hT hC hC4 hC5 ks h.2 (noAdjY_tail hadj) fuel d _ rest hr, pre_pre]
      simp only [toksAllY, renderAllY, List.length_append, Nat.add_assoc]
end

/-- the root element, whatever follows it -/
theorem parseElementY_run5 (hT : TablesOK T) (hC : TablesCanon T) (hC4 : TablesCanon4 T)
    (hC5 : TablesCanon5 T) (n : Bytes)
    (as : List (Bytes × Bytes)) (ks : List YNode) (hx : okY5 T (.elem n as ks) = true) (p : Nat)
    (rest : Bytes) :
    parseElement T txt ⟨p, renderY (.elem n as ks) ++ rest⟩ =
      ret (toksY p (.elem n as ks)) ⟨p + (renderY (.elem n as ks)).length, rest⟩ := by
  simp only [okY5, Bool.and_eq_true] at hx
  obtain ⟨⟨⟨hn, has⟩, hadj⟩, hks⟩ := hx
  have hn := nameOk5_parts T hn
  have hr : renderY (.elem n as ks) ++ rest =
      60 :: (n ++ (renderAttrs as ++ 62 :: (renderAllY ks ++ 60 :: 47 :: (n ++ 62 :: rest)))) := by
    simp only [renderY, List.append_assoc, List.cons_append, List.nil_append]
  have hlen : (renderY (.elem n as ks)).length =
      n.length + attrsLen as + (renderAllY ks).length + n.length + 5 := by
    simp only [renderY, List.length_append, List.length_cons, List.length_nil, renderAttrs_length]
    omega
  obtain ⟨F, hF⟩ : ∃ F, (renderAllY ks ++ 60 :: 47 :: (n ++ 62 :: rest)).length + 1 =
      stepsAllY ks + (F + 1) := by
    have := stepsAllY_le5 T ks hks
    refine ⟨(renderAllY ks ++ 60 :: 47 :: (n ++ 62 :: rest)).length - stepsAllY ks, ?_⟩
    simp only [List.length_append]
    omega
  rw [hlen, hr]
  unfold parseElement
  simp only [parseStartTag_run5 T txt hT hC hC5 n as _ hn has p, ok_bind, if_true]
  rw [hF, pcY_all5 T txt hT hC hC4 hC5 ks hks hadj (F + 1) 0 _ _ ⟨_, rfl⟩,
    parseContent_close05 T txt hC hC5 F _ n rest hn, pre_mk, pre_mk]
  simp only [toksY]
  have e : p + 1 + n.length + attrsLen as + 1 + (renderAllY ks).length + 3 + n.length =
      p + (n.length + attrsLen as + (renderAllY ks).length + n.length + 5) := by omega
  rw [e]
  simp only [List.append_assoc]

/-! ### The DOCTYPE without internal subset -/

theorem parseDoctypeStart_simple5 (hT : TablesOK T) (hC : TablesCanon T) (hC4 : TablesCanon4 T)
    (hC5 : TablesCanon5 T) (n R : Bytes) (hn : NameP T n) (p : Nat) :
    parseDoctypeStart T txt ⟨p, 60 :: 33 :: 68 :: 79 :: 67 :: 84 :: 89 :: 80 :: 69 :: 32 :: (n ++ 62 :: R)⟩ =
      .ok ⟨p + 9 + 1 + n.length, 62 :: R⟩ := by
  have h62 : byteIsSpace T 62 = false := hC.delims_not_space 62 (by simp)
  have h1 : Stream.advance ⟨p, 60 :: 33 :: 68 :: 79 :: 67 :: 84 :: 89 :: 80 :: 69 :: 32 :: (n ++ 62 :: R)⟩ 9 =
      .ok ⟨p + 9, 32 :: (n ++ 62 :: R)⟩ := by
    simp [Stream.advance]
  have h2 : Stream.consumeSpaces T txt ⟨p + 9, 32 :: (n ++ 62 :: R)⟩ =
      .ok ⟨p + 9 + 1, n ++ 62 :: R⟩ := by
    obtain ⟨b, r, hb, e⟩ := name_head5 T hT hC5 hn (62 :: R)
    rw [e]
    exact consumeSpaces_sp4 T txt hC _ b r hb.1
  have h3 := skipName_stop5 T txt hC4 62 R (by simp) n hn (p + 9 + 1)
  have h4 := skipSpaces_ns T (p + 9 + 1 + n.length) 62 R h62
  have h5 : parseExternalId T txt ⟨p + 9 + 1 + n.length, 62 :: R⟩ =
      .ok (⟨p + 9 + 1 + n.length, 62 :: R⟩, false) := by
    have a : Stream.startsWith ⟨p + 9 + 1 + n.length, 62 :: R⟩ Lit.system_ = false := by
      simp [Stream.startsWith, Lit.system_, List.isPrefixOf]
    have b : Stream.startsWith ⟨p + 9 + 1 + n.length, 62 :: R⟩ Lit.public_ = false := by
      simp [Stream.startsWith, Lit.public_, List.isPrefixOf]
    simp only [parseExternalId, a, b, Bool.or_false, Bool.false_eq_true, if_false, Res.pure_eq]
  have h7 : Stream.currByte ⟨p + 9 + 1 + n.length, 62 :: R⟩ = .ok 62 := rfl
  have h8 : (((62 : UInt8) != bLBr) && ((62 : UInt8) != bGt)) = false := by decide
  simp only [parseDoctypeStart, h1, Res.bind_ok, h2, h3, h4, h5, h7, h8, Bool.false_eq_true,
    if_false, Res.pure_eq]

theorem parseDoctype_simple5 (hT : TablesOK T) (hC : TablesCanon T) (hC4 : TablesCanon4 T)
    (hC5 : TablesCanon5 T) (n R : Bytes) (hn : NameP T n) (p : Nat) :
    parseDoctype T txt ⟨p, litDoctypeSp ++ n ++ [62] ++ R⟩ =
      ret [] ⟨p + (litDoctypeSp ++ n ++ [62]).length, R⟩ := by
  have e : litDoctypeSp ++ n ++ [62] ++ R =
      60 :: 33 :: 68 :: 79 :: 67 :: 84 :: 89 :: 80 :: 69 :: 32 :: (n ++ 62 :: R) := by
    simp [litDoctypeSp]
  have hl : (litDoctypeSp ++ n ++ [62]).length = 9 + 1 + n.length + 1 := by
    simp [litDoctypeSp]; omega
  have h1 := parseDoctypeStart_simple5 T txt hT hC hC4 hC5 n R hn p
  have h2 := skipSpaces_ns T (p + 9 + 1 + n.length) 62 R (hC.delims_not_space 62 (by simp))
  have h3 : ((62 : UInt8) == bGt) = true := by decide
  rw [e, hl]
  unfold parseDoctype
  simp only [h1, lift_ok_bind, h2, h3, if_true]
  have e2 : p + 9 + 1 + n.length + 1 = p + (9 + 1 + n.length + 1) := by omega
  rw [e2]
  rfl

end

/-! ### Misc: comments and processing instructions, white space after each -/

theorem stop_tag5 (T : Tables) (hC : TablesCanon T) (b : UInt8) (r : Bytes) (hb : HeadOk T b) :
    StopMisc T (60 :: b :: r) := by
  have h1 : ((33 : UInt8) == b) = false := by
    rw [beq_eq_false_iff_ne]; exact fun e => hb.2.1 e.symm
  have h2 : ((63 : UInt8) == b) = false := by
    rw [beq_eq_false_iff_ne]; exact fun e => hb.2.2.2.2 e.symm
  refine ⟨noSp_lt T hC _, ?_, ?_, ?_⟩
  · simp [Lit.commentStart, List.isPrefixOf, h1]
  · simp [Lit.piStart, List.isPrefixOf, h2]
  · simp [Lit.bom, List.isPrefixOf]

theorem miscOk5_cases {T : Tables} {k : YNode} (h : miscOk5 T k = true) :
    (∃ c, k = .comment c ∧ commentOk5 T c = true) ∨ (∃ t v, k = .pi t v ∧ piOk5 T t v = true) := by
  cases k with
  | elem n as ks => simp [miscOk5] at h
  | comment c => exact .inl ⟨c, rfl, h⟩
  | pi t v => exact .inr ⟨t, v, rfl, h⟩
  | text t => simp [miscOk5] at h

theorem misc_len_le5 (T : Tables) (ws : Bytes) : ∀ (items : List YNode), items.all (miscOk5 T) = true →
    items.length ≤ (renderMisc ws items).length := by
  intro items
  induction items with
  | nil => intro _; simp
  | cons k r ih =>
    intro h
    simp only [List.all_cons, Bool.and_eq_true] at h
    have := ih h.2
    have h1 : 1 ≤ (renderY k).length := by
      rcases miscOk5_cases h.1 with ⟨c, rfl, _⟩ | ⟨t, v, rfl, _⟩ <;>
        simp [renderY]
    simp only [renderMisc, List.length_append, List.length_cons]
    omega

/-- a Misc item does not look like a declaration or a BOM -/
theorem misc_head5 (T : Tables) (hC4 : TablesCanon4 T) (hC5 : TablesCanon5 T) {k : YNode}
    (h : miscOk5 T k = true) (Z : Bytes) :
    Lit.xmlDecl.isPrefixOf (renderY k ++ Z) = false ∧ Lit.bom.isPrefixOf (renderY k ++ Z) = false := by
  rcases miscOk5_cases h with ⟨c, rfl, _⟩ | ⟨t, v, rfl, hp⟩
  · constructor <;> simp [renderY, Lit.xmlDecl, Lit.bom, List.isPrefixOf]
  · obtain ⟨ht, hne, _⟩ := piOk5_parts T hp
    constructor
    · cases v with
      | nil =>
        have e : renderY (.pi t []) ++ Z = 60 :: 63 :: (t ++ 63 :: 62 :: Z) := by simp [renderY]
        rw [e]
        exact not_xmlDecl5 T hC4 hC5 t ht hne 63 (by simp) _
      | cons b v' =>
        have e : renderY (.pi t (b :: v')) ++ Z = 60 :: 63 :: (t ++ 32 :: ((b :: v') ++ 63 :: 62 :: Z)) := by
          simp [renderY]
        rw [e]
        exact not_xmlDecl5 T hC4 hC5 t ht hne 32 (by simp) _
    · simp [renderY, Lit.bom, List.isPrefixOf]

/-- a Misc item does not look like an XML declaration (`<?xml` + white space) -/
theorem misc_head5W (T : Tables) (hC5 : TablesCanon5 T) {k : YNode}
    (h : miscOk5 T k = true) (Z : Bytes) (p : Nat) :
    Stream.startsWithXmlDecl T ⟨p, renderY k ++ Z⟩ = false := by
  rcases miscOk5_cases h with ⟨c, rfl, _⟩ | ⟨t, v, rfl, hp⟩
  · simp [renderY, Stream.startsWithXmlDecl, Stream.startsWith, Lit.xmlDeclOpen, List.isPrefixOf]
  · obtain ⟨ht, hne, _⟩ := piOk5_parts T hp
    cases v with
    | nil =>
      have e : renderY (.pi t []) ++ Z = 60 :: 63 :: (t ++ 63 :: 62 :: Z) := by simp [renderY]
      rw [e]
      exact not_xmlDecl5W T hC5 t ht hne 63 (by simp) _ p
    | cons b v' =>
      have e : renderY (.pi t (b :: v')) ++ Z = 60 :: 63 :: (t ++ 32 :: ((b :: v') ++ 63 :: 62 :: Z)) := by
        simp [renderY]
      rw [e]
      exact not_xmlDecl5W T hC5 t ht hne 32 (by simp) _ p

section
variable (T : Tables) (txt : Bytes)

theorem parseMisc_run5 (hC : TablesCanon T) (hC4 : TablesCanon4 T) (hC5 : TablesCanon5 T)
    (ws : Bytes) (hws : wsOk ws = true)
    (rest : Bytes) (hr : StopMisc T rest) :
    ∀ (items : List YNode), items.all (miscOk5 T) = true → ∀ (fuel p : Nat) (w : Bytes),
      wsOk w = true → items.length < fuel →
      parseMisc T txt fuel ⟨p, w ++ (renderMisc ws items ++ rest)⟩ =
        ret (miscToks ws (p + w.length) items)
          ⟨p + w.length + (renderMisc ws items).length, rest⟩ := by
  intro items
  induction items with
  | nil =>
    intro _ fuel p w hw hf
    exact parseMisc_run T txt hC hC4 ws hws rest hr [] rfl fuel p w hw hf
  | cons k r ih =>
    intro h fuel p w hw hf
    obtain ⟨fuel, rfl⟩ : ∃ f, fuel = f + 1 := ⟨fuel - 1, by omega⟩
    simp only [List.all_cons, Bool.and_eq_true] at h
    have hf' : r.length < fuel := by simp at hf; omega
    have hrr : w ++ (renderMisc ws (k :: r) ++ rest) =
        w ++ (renderY k ++ (ws ++ (renderMisc ws r ++ rest))) := by
      simp only [renderMisc, List.append_assoc]
    obtain ⟨r0, e0⟩ : ∃ r0, renderY k = 60 :: r0 := by
      rcases miscOk5_cases h.1 with ⟨c, rfl, _⟩ | ⟨t, v, rfl, _⟩
      · exact renderY_head_lt rfl
      · exact renderY_head_lt rfl
    have hne : Stream.atEnd ⟨p, w ++ (renderY k ++ (ws ++ (renderMisc ws r ++ rest)))⟩ = false := by
      simp [Stream.atEnd, e0]
    have hsk : Stream.skipSpaces T ⟨p, w ++ (renderY k ++ (ws ++ (renderMisc ws r ++ rest)))⟩ =
        ⟨p + w.length, renderY k ++ (ws ++ (renderMisc ws r ++ rest))⟩ :=
      skipSpaces_ws4 T hC4 w _ hw (by rw [e0]; exact noSp_lt T hC _) p
    have hrec := ih h.2 fuel (p + w.length + (renderY k).length) ws hws hf'
    have hlen : p + w.length + (renderMisc ws (k :: r)).length =
        p + w.length + (renderY k).length + ws.length + (renderMisc ws r).length := by
      simp only [renderMisc, List.length_append]; omega
    rw [hrr, hlen]
    simp only [miscToks]
    rcases miscOk5_cases h.1 with ⟨c, rfl, hc⟩ | ⟨t, v, rfl, hp⟩
    · have hcs : Stream.startsWith ⟨p + w.length, renderY (.comment c) ++ (ws ++ (renderMisc ws r ++ rest))⟩
          Lit.commentStart = true := by
        simp [Stream.startsWith, Lit.commentStart, renderY, List.isPrefixOf]
      simp only [parseMisc, hne, hsk, hcs, Bool.false_eq_true, if_false, if_true,
        parseComment_runY5 T txt hC c _ hc, ok_bind, hrec, pre_mk]
    · have hcs : Stream.startsWith ⟨p + w.length, renderY (.pi t v) ++ (ws ++ (renderMisc ws r ++ rest))⟩
          Lit.commentStart = false := by
        simp [Stream.startsWith, Lit.commentStart, renderY, List.isPrefixOf]
      have hps : Stream.startsWith ⟨p + w.length, renderY (.pi t v) ++ (ws ++ (renderMisc ws r ++ rest))⟩
          Lit.piStart = true := by
        simp [Stream.startsWith, Lit.piStart, renderY, List.isPrefixOf]
      simp only [parseMisc, hne, hsk, hcs, hps, Bool.false_eq_true, if_false, if_true,
        parsePi_run5 T txt hC hC4 hC5 t v _ hp, ok_bind, hrec, pre_mk]

/-! ### The document -/

theorem prolog_run5 (hC : TablesCanon T) (hC4 : TablesCanon4 T) (hC5 : TablesCanon5 T) (y : YDoc)
    (hws : wsOk y.ws = true)
    (items : List YNode) (hit : items.all (miscOk5 T) = true) (rest : Bytes) (hr : StopMisc T rest) :
    prologFrom T txt ⟨0, bomBytes y ++ (declBytes y ++ (renderMisc y.ws items ++ rest))⟩ =
      ret (miscToks y.ws ((bomBytes y).length + (declBytes y).length) items)
        ⟨(bomBytes y).length + (declBytes y).length + (renderMisc y.ws items).length, rest⟩ := by
  have hZ : Stream.startsWithXmlDecl T ⟨(bomBytes y).length, renderMisc y.ws items ++ rest⟩ = false ∧
      Lit.bom.isPrefixOf (renderMisc y.ws items ++ rest) = false := by
    cases items with
    | nil =>
      exact ⟨noPi_noDeclW T _ hr.nopi _, hr.nobom⟩
    | cons k r =>
      simp only [List.all_cons, Bool.and_eq_true] at hit
      simp only [renderMisc, List.append_assoc]
      exact ⟨misc_head5W T hC5 hit.1 _ _, (misc_head5 T hC4 hC5 hit.1 _).2⟩
  have hb : Lit.bom.isPrefixOf (declBytes y ++ (renderMisc y.ws items ++ rest)) = false := by
    unfold declBytes
    cases y.decl with
    | none => exact hZ.2
    | some enc => simp [litDeclOpen, Lit.bom, List.isPrefixOf]
  have hA := bom_step y _ hb
  obtain ⟨q, w, hw, hq, hB⟩ := decl_step T txt hC hC4 y hws _ (bomBytes y).length hZ.1
  have hM := parseMisc_run5 T txt hC hC4 hC5 y.ws hws rest hr items hit
    ((w ++ (renderMisc y.ws items ++ rest)).length + 1) q w hw
    (by have := misc_len_le5 T y.ws items hit; simp only [List.length_append]; omega)
  rw [hq] at hM
  have hsk := skipSpaces_noSp T rest hr.nosp
  unfold prologFrom
  simp only [hA, lift_ok_bind, hB, hM, ok_bind, hsk]
  exact pre_pure _ _

theorem parseBody_run5 (hT : TablesOK T) (hC : TablesCanon T) (hC4 : TablesCanon4 T)
    (hC5 : TablesCanon5 T) (n : Bytes)
    (as : List (Bytes × Bytes)) (ks : List YNode) (hx : okY5 T (.elem n as ks) = true)
    (ws : Bytes) (hws : wsOk ws = true) (post : List YNode) (hpost : post.all (miscOk5 T) = true)
    (p : Nat) :
    parseBody T txt ⟨p, renderY (.elem n as ks) ++ (ws ++ renderMisc ws post)⟩ =
      ret (toksY p (.elem n as ks) ++
        miscToks ws (p + (renderY (.elem n as ks)).length + ws.length) post) () := by
  obtain ⟨r0, e0⟩ : ∃ r0, renderY (.elem n as ks) = 60 :: r0 := renderY_head_lt rfl
  have hsk : Stream.skipSpaces T ⟨p, renderY (.elem n as ks) ++ (ws ++ renderMisc ws post)⟩ =
      ⟨p, renderY (.elem n as ks) ++ (ws ++ renderMisc ws post)⟩ :=
    skipSpaces_noSp T _ (by rw [e0]; exact noSp_lt T hC _) p
  have hcb : (Stream.currByte? ⟨p, renderY (.elem n as ks) ++ (ws ++ renderMisc ws post)⟩ ==
      some bLt) = true := by
    rw [e0]; rfl
  have hel := parseElementY_run5 T txt hT hC hC4 hC5 n as ks hx p (ws ++ renderMisc ws post)
  have hM := parseMisc_run5 T txt hC hC4 hC5 ws hws [] (stop_nil T) post hpost
    ((ws ++ renderMisc ws post).length + 1) (p + (renderY (.elem n as ks)).length) ws hws
    (by have := misc_len_le5 T ws post hpost; simp only [List.length_append]; omega)
  rw [List.append_nil] at hM
  unfold parseBody parseRootElement
  simp only [hsk, hcb, if_true, hel, ok_bind, hM, Stream.atEnd, List.isEmpty_nil, Bool.not_true,
    Bool.false_eq_true, if_false]
  rw [pre_pure, pre_mk]

end

theorem docOk5_parts {T : Tables} {y : YDoc} (hy : docOk5 T y = true) :
    wsOk y.ws = true ∧ y.pre.all (miscOk5 T) = true ∧ y.mid.all (miscOk5 T) = true ∧
    y.post.all (miscOk5 T) = true ∧ okY5 T y.root = true ∧
    (∀ n, y.doctype = some n → nameOk5 T n = true) := by
  simp only [docOk5, Bool.and_eq_true] at hy
  obtain ⟨⟨⟨⟨⟨h1, h2⟩, h3⟩, h4⟩, h5⟩, h6⟩ := hy
  refine ⟨h1, h2, h3, h4, h5, ?_⟩
  intro n e
  rw [e] at h6
  exact h6

theorem all_append_misc5 {T : Tables} {a b : List YNode} (ha : a.all (miscOk5 T) = true)
    (hb : b.all (miscOk5 T) = true) : (a ++ b).all (miscOk5 T) = true := by
  rw [List.all_append, ha, hb]; rfl

theorem startsWith_tag5 (p : Nat) (b : UInt8) (r : Bytes) (c : UInt8) (l : Bytes) (hc : b ≠ c) :
    Stream.startsWith ⟨p, 60 :: b :: r⟩ (60 :: c :: l) = false := by
  have : (c == b) = false := by
    rw [beq_eq_false_iff_ne]; exact fun e => hc e.symm
  simp [Stream.startsWith, List.isPrefixOf, this]

theorem docFrom_run5 (T : Tables) (txt : Bytes) (hT : TablesOK T) (hC : TablesCanon T)
    (hC4 : TablesCanon4 T) (hC5 : TablesCanon5 T)
    (y : YDoc) (hy : docOk5 T y = true) (allowDtd : Bool)
    (hdtd : y.doctype.isSome = true → allowDtd = true) :
    docFrom T txt allowDtd ⟨0, renderDoc y⟩ = ret (docToks y) () := by
  obtain ⟨hws, hpre, hmid, hpost, hroot, hdt⟩ := docOk5_parts hy
  have hn : NameP T y.name := by
    simp only [YDoc.root, okY5, Bool.and_eq_true] at hroot
    exact nameOk5_parts T hroot.1.1.1
  obtain ⟨b, r, hb, eR⟩ : ∃ b r, HeadOk T b ∧
      renderY y.root ++ (y.ws ++ renderMisc y.ws y.post) = 60 :: b :: r := by
    obtain ⟨b, r, hb, e⟩ := name_head5 T hT hC5 hn
      (renderAttrs y.attrs ++ 62 :: (renderAllY y.kids ++ 60 :: 47 :: (y.name ++ 62 ::
        (y.ws ++ renderMisc y.ws y.post))))
    refine ⟨b, r, hb, ?_⟩
    rw [← e]
    simp only [YDoc.root, renderY, List.append_assoc, List.cons_append, List.nil_append]
  have hstopR := stop_tag5 T hC b r hb
  have hbody := fun p => parseBody_run5 T txt hT hC hC4 hC5 y.name y.attrs y.kids hroot y.ws hws
    y.post hpost p
  cases hd : y.doctype with
  | none =>
    have eD : renderDoc y = bomBytes y ++ (declBytes y ++ (renderMisc y.ws (y.pre ++ y.mid) ++
        (renderY y.root ++ (y.ws ++ renderMisc y.ws y.post)))) := by
      simp only [renderDoc, dtBytes, hd, renderMisc_append, List.append_assoc, List.nil_append]
    have hP := prolog_run5 T txt hC hC4 hC5 y hws (y.pre ++ y.mid) (all_append_misc5 hpre hmid)
      (renderY y.root ++ (y.ws ++ renderMisc y.ws y.post)) (by rw [eR]; exact hstopR)
    have hdoc : Stream.startsWith ⟨(bomBytes y).length + (declBytes y).length +
        (renderMisc y.ws (y.pre ++ y.mid)).length,
        renderY y.root ++ (y.ws ++ renderMisc y.ws y.post)⟩ Lit.doctype = false := by
      rw [eR]; exact startsWith_tag5 _ b r 33 _ hb.2.1
    rw [eD]
    unfold docFrom
    simp only [hP, ok_bind, hdoc, Bool.false_eq_true, if_false]
    rw [show y.root = YNode.elem y.name y.attrs y.kids from rfl, hbody, pre_mk]
    simp only [docToks, dtBytes, hd, miscToks_append, renderMisc_append, List.length_append,
      List.length_nil, Nat.add_zero, List.append_assoc, YDoc.root, Nat.add_assoc]
  | some n =>
    have hnn := nameOk5_parts T (hdt n hd)
    have ha : allowDtd = true := hdtd (by rw [hd]; rfl)
    have eD : renderDoc y = bomBytes y ++ (declBytes y ++ (renderMisc y.ws y.pre ++
        (litDoctypeSp ++ n ++ [62] ++ (y.ws ++ (renderMisc y.ws y.mid ++
        (renderY y.root ++ (y.ws ++ renderMisc y.ws y.post))))))) := by
      simp only [renderDoc, dtBytes, hd, List.append_assoc]
    have eDT : ∀ Z, litDoctypeSp ++ n ++ [62] ++ Z = 60 :: 33 :: 68 :: (79 :: 67 :: 84 :: 89 :: 80 :: 69 :: 32 :: (n ++ 62 :: Z)) := by
      intro Z; simp [litDoctypeSp]
    have hP := prolog_run5 T txt hC hC4 hC5 y hws y.pre hpre
      (litDoctypeSp ++ n ++ [62] ++ (y.ws ++ (renderMisc y.ws y.mid ++
        (renderY y.root ++ (y.ws ++ renderMisc y.ws y.post)))))
      (by rw [eDT]; exact stop_doctype T hC _)
    have hdoc : ∀ q Z, Stream.startsWith ⟨q, litDoctypeSp ++ n ++ [62] ++ Z⟩ Lit.doctype = true := by
      intro q Z
      rw [eDT]; simp [Stream.startsWith, Lit.doctype, List.isPrefixOf]
    have hDT := fun q Z => parseDoctype_simple5 T txt hT hC hC4 hC5 n Z hnn q
    have hM := fun q => parseMisc_run5 T txt hC hC4 hC5 y.ws hws
      (renderY y.root ++ (y.ws ++ renderMisc y.ws y.post)) (by rw [eR]; exact hstopR) y.mid hmid
      ((y.ws ++ (renderMisc y.ws y.mid ++
        (renderY y.root ++ (y.ws ++ renderMisc y.ws y.post)))).length + 1) q y.ws hws
      (by have := misc_len_le5 T y.ws y.mid hmid; simp only [List.length_append]; omega)
    rw [eD]
    unfold docFrom
    simp only [hP, ok_bind, hdoc, ha, Bool.not_true, Bool.false_eq_true, if_false, if_true, hDT,
      hM]
    rw [show y.root = YNode.elem y.name y.attrs y.kids from rfl, hbody, pre_mk, pre_mk]
    simp only [docToks, dtBytes, hd, List.length_append, List.length_cons, List.length_nil,
      List.append_assoc, YDoc.root, Nat.add_assoc, List.nil_append, Nat.zero_add]
    rfl

/-- **Tokenizer, whole documents, full repertoire**: for every document of the class `docOk5 T`
(names arbitrary NCNames, text / attribute values / comment bodies / PI values arbitrary XML
characters minus markup) the tokenizer run on its rendering returns exactly `docToks y` and `Ok`
(with a DOCTYPE only when `allow_dtd`). -/
theorem tokenize_renderDoc5 (T : Tables) (hT : TablesOK T) (hC : TablesCanon T) (hC4 : TablesCanon4 T)
    (hC5 : TablesCanon5 T) (y : YDoc) (hy : docOk5 T y = true) (allowDtd : Bool)
    (hdtd : y.doctype.isSome = true → allowDtd = true) :
    tokenize T (renderDoc y) allowDtd = (docToks y, .ok ()) := by
  rw [tokenize_eq]
  exact docFrom_run5 T (renderDoc y) hT hC hC4 hC5 y hy allowDtd hdtd

end Rox.Lemmas
