/-
  Rox.Lemmas.CompleteStag — Stage B⁻¹ of the completeness proof, part 2: the builder accepts the
  tokens of a start tag (`ElementStart`, the `Attribute`s, `ElementEnd(Open|Empty)`) whose
  attribute values are well-formed (`Item.Sem`) and which satisfies the namespace constraints
  (`itemOk` = `tagNsOk` against the bindings in scope at the parent), provided there is room for
  one node, its attributes and its namespace declarations; the new element's namespace range denotes
  `scopeOf parent attrs`.
-/
import Rox.Lemmas.CompleteBuildDefs
import Rox.Lemmas.CompleteRef
import Rox.Lemmas.MirrorDecode
import Rox.Lemmas.RtBuild
import Rox.Lemmas.CompleteStag4

namespace Rox.Lemmas.CB
open Rox Rox.Spec Rox.Spec.Grammar Rox.Spec.Mirror Rox.Spec.MirrorNs Rox.Spec.Complete Rox.Props.C06
  Rox.Lemmas.GB

section
variable (T : Tables) (hT : TablesOK T) (hX : TablesComplete T) (txt : Bytes)

include hT hX in
/-- the tokens of one start tag -/
theorem cb_stag (st : SStk) (c : Ctx) (hinv : CInv txt st c)
    (q : Bytes) (attrs : List AttrC) (s1 : Bytes) (e : Bool) (toks : List Token)
    (hit : ItemToks (.stag q attrs s1 e) toks) (hlex : (Item.stag q attrs s1 e).Lex T)
    (hsem : (Item.stag q attrs s1 e).Sem T) (htok : ∀ t ∈ toks, TokOk txt t)
    (hok : itemOk st (.stag q attrs s1 e) = true)
    (hN : c.doc.nodes.size < c.nodesLimit)
    (hA : c.doc.attrs.size + properCount attrs < 4294967295)
    (hV : c.doc.ns.values.size + (declsOf (attrsAbs attrs)).length ≤ 65535) :
    ∃ c', feed (tokenStep T txt (token T txt 11)) toks c = .ok c' ∧
      CInv txt (itemSt st (.stag q attrs s1 e)) c' ∧
      c'.nodesLimit = c.nodesLimit ∧
      c'.doc.nodes.size = c.doc.nodes.size + 1 ∧
      c'.doc.attrs.size = c.doc.attrs.size + properCount attrs ∧
      c'.doc.ns.values.size ≤ c.doc.ns.values.size + (declsOf (attrsAbs attrs)).length ∧
      c'.afterText = [] ∧
      (st = [] → HasRootEl c'.doc) ∧ (HasRootEl c.doc → HasRootEl c'.doc) := by
  cases hit with
  | stag _ _ _ _ p l stp ats r hq hat =>
  have hq1 : (qparts q).1 = p.bytes := by rw [hq]
  have hq2 : (qparts q).2 = l.bytes := by rw [hq]
  -- the namespace constraints
  have hok' : tagNsOk (topSc st) q (attrsAbs attrs) = true := hok
  unfold tagNsOk at hok'
  simp only [Bool.and_eq_true, decide_eq_true_eq] at hok'
  obtain ⟨⟨⟨⟨⟨hdecl, hndp⟩, hqx⟩, hpt⟩, hpa⟩, hnda⟩ := hok'
  rw [hq1] at hqx hpt
  obtain ⟨_, _, hlexa⟩ := hlex
  obtain ⟨hrt, _⟩ := hsem
  -- the tokens
  have htkS : TokOk txt (.elementStart p l stp) := htok _ (by simp)
  have htkA : ∀ t ∈ ats, TokOk txt t := fun t ht => htok t (by simp [ht])
  have htkE : TokOk txt (.elementEnd (if e then .empty else .open) r) := htok _ (by simp)
  have hlne : l.bytes ≠ [] := htkS.2.2.2.1
  have hsafe : TokSafe txt (tokenStep T txt (token T txt 11)) 0 := token_safe T hT txt 12
  have hB : ∀ t c c', BInv c → tokenStep T txt (token T txt 11) t c = .ok c' → BInv c' :=
    fun t c c' hb h => binv_token T txt 12 t c c' hb h
  -- ElementStart
  obtain ⟨c0, hstep0, hs0, h0, htn0, hns0, hat0, hkeep0, hsz0, hlim0, hpid0⟩ :=
    cb_start_step T txt (token T txt 11) c hinv.ginv hinv.ainv hinv.ld0 p l stp hqx
  obtain ⟨hb0, ha0, htg0, _⟩ := (hsafe false true _ c rfl htkS hinv.binv hinv.ainv
    (fun h => by cases h) (Nat.zero_le _)).post c0 hstep0
  have hti0 := gb_tok_start T txt (token T txt 11) hinv.ginv hb0 hstep0
  -- the attributes
  obtain ⟨c2, hfeed2, hs2, hb2, ha2, htg2⟩ := cb_attrs_feed T hT hX txt h0 attrs ats hat [] c0 hs0
    hb0 ha0 htg0 htkA hrt hdecl (by simpa using hndp) (by rw [hns0]; simpa using hV)
  rw [List.nil_append] at hs2
  obtain ⟨hti2, _⟩ := gb_attrs T txt (token T txt 11) hB attrs ats hat
    (fun a ha => (hlexa a ha).2.2.2.2.2.2.1) [] c0 c2 hti0 hfeed2
  -- the state before ElementEnd
  have hnodes2 : c2.doc.nodes = c0.doc.nodes := hs2.nodes
  have hkeep2 : SKeep c.doc.nodes c2.doc.nodes := by rw [hnodes2]; exact hkeep0
  have hpid2 : c2.parentId = c.parentId := hs2.pid.trans hpid0
  have htext2 : MN.TExt c.doc c2.doc := by
    have := sinv_text hs2
    obtain ⟨v, t, a⟩ := this
    exact ⟨by rw [← hns0]; exact v, by rw [← hns0]; exact t, by rw [← hat0]; exact a⟩
  have hnsinv : NsInv c.doc.ns := hinv.ainv.nsOk.ns
  have hchain2 : NChain c2.doc (st.map (·.2)) c2.parentId := by
    rw [hpid2]
    exact nchain_mono hkeep2 htext2 hnsinv _ _ hinv.nchain
  have hx2 : ∃ v, c2.doc.ns.values[0]? = some v ∧ v.uri.bytes = nsXmlUri := by
    obtain ⟨v, hv, hu⟩ := hinv.xml0
    refine ⟨v, ?_, hu⟩
    rw [htext2.vals 0 (Array.getElem?_eq_some_iff.mp hv).1]
    exact hv
  have htn2 : c2.tagName = ⟨p.bytes, l.bytes, l, stp, stp + 1⟩ := hs2.tag.trans htn0
  have hsz2 : c2.doc.nodes.size = c.doc.nodes.size := by rw [hnodes2]; exact hsz0
  have hlim2 : c2.nodesLimit = c.nodesLimit := hs2.lim.trans hlim0
  have hcl2 : c2.curAttrs.length = properCount attrs := sinv_curlen hs2
  have hat2 : c2.doc.attrs = c.doc.attrs := hs2.attrs.trans hat0
  -- ElementEnd
  obtain ⟨c', hstepE, ⟨nd, tagNs, as, nss, hnd1, hnd2, hnd3, hnd4⟩, hszE, hkeepE, htextE, hatE, hvalsE,
      hlimE, haftE, hpidE, htnE⟩ :=
    cb_end_step T txt (token T txt 11) e r c2 hb2 ha2 hs2.aft (by rw [htn2]; exact hlne) hx2
      (attrsAbs attrs) (topSc st) (sinv_own hs2 h0) (parent_lookup c2 st hchain2) hs2.cur
      (by rw [htn2]; exact hpt) hpa hnda (by rw [hsz2, hlim2]; exact hN)
      (by rw [hat2, hcl2]; exact hA)
  have hpE : protoStep true (.elementEnd (if e then .empty else .open) r) = some false := by
    cases e <;> rfl
  obtain ⟨hb', ha', _, hld'⟩ := (hsafe true false _ c2 hpE htkE hb2 ha2 htg2
    (Nat.zero_le _)).post c' hstepE
  have hfeed : feed (tokenStep T txt (token T txt 11))
      (.elementStart p l stp :: (ats ++ [.elementEnd (if e then .empty else .open) r])) c = .ok c' := by
    rw [RtB.feed_cons_ok hstep0]
    refine RtB.feed_append_ok _ _ _ _ _ hfeed2 ?_
    simp only [feed, hstepE]
  have hkeep' : SKeep c.doc.nodes c'.doc.nodes := hkeep2.trans hkeepE
  have htext' : MN.TExt c.doc c'.doc := TExt_trans htext2 htextE
  have hchain' : NChain c'.doc (st.map (·.2)) c.parentId :=
    nchain_mono hkeep' htext' hnsinv _ _ hinv.nchain
  have hx' : ∃ v, c'.doc.ns.values[0]? = some v ∧ v.uri.bytes = nsXmlUri := by
    rw [hvalsE]; exact hx2
  have htag' : c'.tagName.name ≠ [] := by rw [htnE, htn2]; exact hlne
  have hld0' : c'.ld.depth = 0 := by rw [hld', hs2.ld]
  rw [hsz2] at hnd1 hszE hpidE
  rw [hpid2] at hnd3 hpidE
  refine ⟨c', hfeed, ?_, hlimE.trans hlim2, hszE, by rw [hatE, hat2, hcl2], ?_, haftE, ?_,
    hasRootEl_mono hkeep'⟩
  · -- the invariant
    cases e with
    | true =>
      obtain ⟨_, hg'⟩ := gb_tok_empty T txt (token T txt 11) hti2 hb' hstepE
      simp only [if_true] at hpidE
      exact ⟨hb', ha', hg', hld0', by rw [hpidE]; exact hchain', hx', fun _ => htag'⟩
    | false =>
      obtain ⟨_, hg'⟩ := gb_tok_open T txt (token T txt 11) hti2 hb' hstepE
      simp only [Bool.false_eq_true, if_false] at hpidE
      refine ⟨hb', ha', ?_, hld0', ?_, hx', fun _ => htag'⟩
      · show GInv ((qparts q) :: st.map (·.1)) c'
        rw [hq]
        exact hg'
      · show NChain c'.doc (scopeOf (topSc st) (attrsAbs attrs) :: st.map (·.2)) c'.parentId
        rw [hpidE]
        exact ⟨nd, tagNs, _, as, nss, c.parentId, hnd1, hnd2, hnd4, hnd3, hchain'⟩
  · rw [hvalsE]
    have := hs2.vsz
    rw [hns0] at this
    exact this
  · intro hst
    subst hst
    obtain ⟨pn, hpn, hpk⟩ := hinv.nchain
    have hp0 : c.parentId = 0 := by
      by_cases hz : c.parentId = 0
      · exact hz
      · have := hinv.binv.wf.not_root c.parentId (by omega) hinv.binv.pid_lt
        simp only [kindIs, hpn, hpk, Kind.isRoot] at this
        cases this
    refine ⟨c.doc.nodes.size, nd, hnd1, by rw [hnd3, hp0], by rw [hnd2]; rfl⟩

end

end Rox.Lemmas.CB
