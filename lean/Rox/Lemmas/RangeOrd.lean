/-
  Rox.Lemmas.RangeOrd — C13: every stored range of a parsed document is ordered (start ≤ end).
  Together with `Rox.Lemmas.DocSpans` (both ends are character boundaries inside the input) this is
  the validity clause: slicing the input with any node / attribute range cannot fail.
-/
import Rox.Parse
import Rox.Lemmas.TokSpec
import Rox.Lemmas.BInv4
import Rox.Lemmas.SingleRoot
import Rox.Lemmas.DocSpans

namespace Rox.Lemmas
open Rox Rox.Spec

/-! ### Token positions: the tags of one activation are delivered in position order -/

/-- The position automaton. The state is the position reached by the last tag token: the start of
the last `ElementStart` or the end of the last `ElementEnd`; every later tag token lies at or after
it. All other tokens are neutral (their own ranges are ordered by `TokOk`). -/
def pStep (cur : Nat) : Token → Option Nat
  | .elementStart _ _ s => if cur ≤ s then some s else none
  | .elementEnd _ r => if cur ≤ r.2 then some r.2 else none
  | _ => some cur

def pRun : Nat → List Token → Option Nat
  | cur, [] => some cur
  | cur, t :: ts =>
    match pStep cur t with
    | some c' => pRun c' ts
    | none => none

theorem pRun_append (cur : Nat) (l1 l2 : List Token) :
    pRun cur (l1 ++ l2) = (pRun cur l1).bind (fun c1 => pRun c1 l2) := by
  induction l1 generalizing cur with
  | nil => simp [pRun]
  | cons t ts ih =>
    simp only [List.cons_append, pRun]
    cases pStep cur t with
    | none => simp
    | some c' => exact ih c'

def _root_.Rox.Token.posNeutral : Token → Bool
  | .elementStart .. => false
  | .elementEnd .. => false
  | _ => true

theorem pStep_neutral (cur : Nat) (t : Token) (h : t.posNeutral = true) : pStep cur t = some cur := by
  cases t <;> simp [Token.posNeutral] at h <;> rfl

theorem pRun_neutral (cur : Nat) : ∀ (l : List Token), (∀ t ∈ l, t.posNeutral = true) →
    pRun cur l = some cur := by
  intro l
  induction l with
  | nil => intro _; rfl
  | cons t ts ih =>
    intro h
    simp only [pRun, pStep_neutral cur t (h t (by simp))]
    exact ih (fun t' ht' => h t' (by simp [ht']))

open Rox.TM in
/-- From `cur` the position automaton accepts every token `m` delivers; if `m` succeeds with `a`
the final state satisfies `Q a`. -/
def PF {α} (m : TM α) (cur : Nat) (Q : α → Nat → Prop) : Prop :=
  ∃ cur', pRun cur m.1 = some cur' ∧ (∀ a, m.2 = .ok a → Q a cur')

section pf
open Rox.TM

theorem pf_pure {α} (a : α) (cur : Nat) (Q : α → Nat → Prop) (h : Q a cur) :
    PF (pure a : TM α) cur Q :=
  ⟨cur, by simp [pure, pure', pRun], fun b hb => by
    simp [pure, pure'] at hb; subst hb; exact h⟩

theorem pf_lift {α} (r : Res α) (cur : Nat) (Q : α → Nat → Prop) (h : ∀ a, r = .ok a → Q a cur) :
    PF (lift r) cur Q :=
  ⟨cur, by simp [lift, pRun], fun a ha => h a (by simpa [lift] using ha)⟩

theorem pf_fail {α} (r : Res α) (cur : Nat) (Q : α → Nat → Prop) (h : ∀ a, r ≠ .ok a) :
    PF (lift r) cur Q :=
  pf_lift r cur Q (fun a ha => absurd ha (h a))

theorem pf_emit (t : Token) (cur cur' : Nat) (Q : Unit → Nat → Prop) (h : pStep cur t = some cur')
    (hQ : Q () cur') : PF (emit t) cur Q :=
  ⟨cur', by simp [emit, pRun, h], fun _ _ => hQ⟩

theorem pf_bind {α β} (m : TM α) (k : α → TM β) (cur : Nat) (P : α → Nat → Prop)
    (Q : β → Nat → Prop) (hm : PF m cur P)
    (hk : ∀ a c1, m.2 = .ok a → P a c1 → PF (k a) c1 Q) : PF (m >>= k) cur Q := by
  obtain ⟨t1, r⟩ := m
  obtain ⟨c1, hrun, hq⟩ := hm
  cases r with
  | ok a =>
    obtain ⟨c2, hrun2, hq2⟩ := hk a c1 rfl (hq a rfl)
    simp only [bind, bind']
    refine ⟨c2, ?_, hq2⟩
    rw [pRun_append]
    simp only at hrun
    rw [hrun]
    exact hrun2
  | err e => simp only [bind, bind']; exact ⟨c1, hrun, fun a ha => by simp at ha⟩
  | panic s => simp only [bind, bind']; exact ⟨c1, hrun, fun a ha => by simp at ha⟩
  | fuel => simp only [bind, bind']; exact ⟨c1, hrun, fun a ha => by simp at ha⟩

/-- a token-free step whose result is described by `P` -/
theorem pf_bind_lift {α β} (r : Res α) (k : α → TM β) (cur : Nat) (Q : β → Nat → Prop)
    (P : α → Prop) (hr : ∀ a, r = .ok a → P a) (hk : ∀ a, P a → PF (k a) cur Q) :
    PF (lift r >>= k) cur Q :=
  pf_bind _ _ _ (fun a c => c = cur ∧ P a) _ (pf_lift _ _ _ (fun a ha => ⟨rfl, hr a ha⟩))
    (fun a c1 _ h => by obtain ⟨h1, h2⟩ := h; subst h1; exact hk a h2)

theorem pf_mono {α} {m : TM α} {cur : Nat} {P Q : α → Nat → Prop} (h : PF m cur P)
    (hPQ : ∀ a c, m.2 = .ok a → P a c → Q a c) : PF m cur Q := by
  obtain ⟨c1, h1, h2⟩ := h
  exact ⟨c1, h1, fun a ha => hPQ a c1 ha (h2 a ha)⟩

/-- A computation all of whose tokens are neutral. -/
theorem pf_neutral {α} (m : TM α) (cur : Nat) (hm : Emits m (fun t => t.posNeutral = true)) :
    PF m cur (fun _ c => c = cur) :=
  ⟨cur, pRun_neutral cur m.1 hm, fun _ _ => rfl⟩

end pf

/-! ### The tokenizer delivers its tags in position order -/

section tok
open Rox.TM
variable (T : Tables) (hT : TablesOK T) (txt : Bytes)

theorem parseComment_pf (s : Stream) (cur : Nat) :
    PF (parseComment T txt s) cur (fun _ c => c = cur) :=
  pf_neutral _ cur (parseComment_emits T txt _ (fun _ _ => rfl) s)

theorem parsePi_pf (s : Stream) (cur : Nat) : PF (parsePi T txt s) cur (fun _ c => c = cur) :=
  pf_neutral _ cur (parsePi_emits T txt _ (fun _ _ _ => rfl) s)

theorem parseMisc_pf (fuel : Nat) (s : Stream) (cur : Nat) :
    PF (parseMisc T txt fuel s) cur (fun _ c => c = cur) :=
  pf_neutral _ cur (parseMisc_emits T txt _ (fun _ _ => rfl) (fun _ _ _ => rfl) fuel s)

theorem parseProlog_pf (cur : Nat) : PF (parseProlog T txt) cur (fun _ c => c = cur) :=
  pf_neutral _ cur (emits_mono (parseProlog_emits T txt)
    (fun t h => by cases t <;> simp_all [Token.isMisc, Token.posNeutral]))

theorem parseDoctype_pf (s : Stream) (cur : Nat) :
    PF (parseDoctype T txt s) cur (fun _ c => c = cur) :=
  pf_neutral _ cur (parseDoctype_emits T txt _ (fun _ _ => rfl) (fun _ _ => rfl) (fun _ _ _ => rfl) s)

theorem parseText_pf (s : Stream) (cur : Nat) : PF (parseText T txt s) cur (fun _ c => c = cur) :=
  pf_neutral _ cur (parseText_emits T txt _ (fun _ _ => rfl) s)

theorem parseCdata_pf (s : Stream) (cur : Nat) : PF (parseCdata T txt s) cur (fun _ c => c = cur) :=
  pf_neutral _ cur (parseCdata_emits T txt _ (fun _ _ => rfl) s)

include hT

/-- The close tag ends at or after every earlier tag position. -/
theorem parseCloseElement_pf {s : Stream} (hs : SOk txt s) (hp : s.startsWith [60, 47] = true)
    (cur : Nat) (hc : cur ≤ s.pos) :
    PF (parseCloseElement T txt s) cur (fun s' c => c ≤ s'.pos) := by
  unfold parseCloseElement
  apply pf_bind_lift _ _ _ _ (fun s1 => Step txt s s1 ∧ s1.pos = s.pos + 2)
    (advance_lit hs [60, 47] hp (lit_valid _ (by decide))).post
  rintro s1 ⟨h1, hp1⟩
  apply pf_bind_lift _ _ _ _ _ (consumeQName_spec T txt h1.2).post
  rintro ⟨s2, pfx, loc⟩ ⟨h2, hsp, hsl, _⟩
  simp only at h2 hsp hsl ⊢
  have h3 := skipSpaces_step T hT h2.2
  apply pf_bind_lift _ _ _ _ _ (consumeByte_spec h3.2 bGt (by decide)).post
  rintro s4 ⟨h4, _⟩
  have hle : cur ≤ s4.pos := by
    have := h1.1.pos_le; have := h2.1.pos_le; have := h3.1.pos_le; have := h4.1.pos_le; omega
  refine pf_bind _ _ _ (fun _ c => c = s4.pos) _
    (pf_emit _ _ s4.pos _ (by simp [pStep, hle]) rfl) ?_
  intro _ c1 _ h1'
  subst h1'
  exact pf_pure _ _ _ (Nat.le_refl _)

end tok


section tok2
open Rox.TM
variable (T : Tables) (hT : TablesOK T) (txt : Bytes)
include hT

/-- The attribute loop: the closing `ElementEnd` ends at or after every earlier tag position. -/
theorem startTagLoop_pf : ∀ (fuel : Nat) (s : Stream) (cur : Nat), SOk txt s → cur ≤ s.pos →
    PF (startTagLoop T txt fuel s) cur (fun p c => c ≤ p.1.pos) := by
  intro fuel
  induction fuel with
  | zero => intro s cur _ _; unfold startTagLoop; exact pf_fail _ _ _ (by simp)
  | succ n ih =>
    intro s cur hs hc
    unfold startTagLoop
    split
    · exact pf_pure _ _ _ hc
    · have h1 := skipSpaces_step T hT hs
      have hp1 := h1.1.pos_le
      simp only
      apply pf_bind_lift _ _ _ _ (fun c => ∃ r, (s.skipSpaces T).rest = c :: r)
      · intro c hcb
        unfold Stream.currByte at hcb
        split at hcb
        · simp at hcb
        · rename_i b r hr
          simp only [Res.ok.injEq] at hcb
          subst hcb
          exact ⟨r, hr⟩
      rintro c ⟨r, hr⟩
      have hadv : ∀ (b : UInt8), b < 128 → (s.skipSpaces T).rest = b :: r →
          ∀ s2, (s.skipSpaces T).advance 1 = .ok s2 → Step txt (s.skipSpaces T) s2 := by
        intro b hb hr' s2 h2
        unfold Stream.advance at h2
        have : 1 ≤ (s.skipSpaces T).rest.length := by rw [hr']; simp
        simp only [this, if_true, Res.ok.injEq] at h2
        subst h2
        have hd : (s.skipSpaces T).rest.drop 1 = r := by rw [hr']; rfl
        rw [hd]; exact step_ascii h1.2 b r hr' hb
      split
      · rename_i hc'
        have : c = bSlash := by simpa using hc'
        subst this
        apply pf_bind_lift _ _ _ _ _ (hadv bSlash (by decide) hr)
        intro s2 h2
        apply pf_bind_lift _ _ _ _ _ (consumeByte_spec h2.2 bGt (by decide)).post
        rintro s3 ⟨h3, _⟩
        have hle : cur ≤ s3.pos := by
          have := h2.1.pos_le; have := h3.1.pos_le; omega
        refine pf_bind _ _ _ (fun _ c => c = s3.pos) _
          (pf_emit _ _ s3.pos _ (by simp [pStep, hle]) rfl) ?_
        intro _ c1 _ h1'
        subst h1'
        exact pf_pure _ _ _ (Nat.le_refl _)
      · split
        · rename_i _ hc'
          have : c = bGt := by simpa using hc'
          subst this
          apply pf_bind_lift _ _ _ _ _ (hadv bGt (by decide) hr)
          intro s2 h2
          have hle : cur ≤ s2.pos := by
            have := h2.1.pos_le; omega
          refine pf_bind _ _ _ (fun _ c => c = s2.pos) _
            (pf_emit _ _ s2.pos _ (by simp [pStep, hle]) rfl) ?_
          intro _ c1 _ h1'
          subst h1'
          exact pf_pure _ _ _ (Nat.le_refl _)
        · -- an attribute
          apply pf_bind_lift _ _ _ _ (fun s2 => Step txt (s.skipSpaces T) s2)
          · intro s2 h2
            split at h2
            · exact (consumeSpaces_spec T hT h1.2).post s2 h2
            · simp only [Res.ok.injEq] at h2; subst h2; exact Step.refl h1.2
          intro s2 h2
          apply pf_bind_lift _ _ _ _ _ (consumeQName_spec T txt h2.2).post
          rintro ⟨s3, pfx, loc⟩ ⟨h3, hsp, hsl, _⟩
          simp only at h3 hsp hsl ⊢
          apply pf_bind_lift _ _ _ _ _ (consumeEq_spec T hT h3.2).post
          intro s4 h4
          apply pf_bind_lift _ _ _ _ _ (consumeQuote_spec h4.2).post
          rintro ⟨s5, q⟩ ⟨h5, hq, _⟩
          simp only at h5 ⊢
          apply pf_bind_lift _ _ _ _ _ (advanceUntil2_spec txt h5.2 q bLt hq (by decide)).post
          rintro ⟨s6, value⟩ ⟨h6, hsv, hvoff, htk, hnolt⟩
          simp only at h6 ⊢
          apply pf_bind_lift _ _ _ _ (fun _ => True) (fun _ _ => trivial)
          intro _ _
          apply pf_bind_lift _ _ _ _ _ (consumeByte_spec h6.2 q hq).post
          rintro s7 ⟨h7, hp7⟩
          have hle : cur ≤ s7.pos := by
            have := h2.1.pos_le; have := h3.1.pos_le; have := h4.1.pos_le; have := h5.1.pos_le
            have := h6.1.pos_le; have := h7.1.pos_le; omega
          refine pf_bind _ _ _ (fun _ c => c = cur) _ (pf_emit _ _ cur _ rfl rfl) ?_
          intro _ c1 _ h1'
          subst h1'
          exact ih s7 _ h7.2 hle

/-- A start tag: its `ElementStart` position and its `ElementEnd` end are in order. -/
theorem parseStartTag_pf {s : Stream} (hs : SOk txt s) (b : UInt8) (r : Bytes) (hr : s.rest = b :: r)
    (hb : b < 128) (cur : Nat) (hc : cur ≤ s.pos) :
    PF (parseStartTag T txt s) cur (fun p c => c ≤ p.1.pos) := by
  unfold parseStartTag
  apply pf_bind_lift _ _ _ _ (fun s1 => Step txt s s1)
  · intro s1 h1
    unfold Stream.advance at h1
    have : 1 ≤ s.rest.length := by rw [hr]; simp
    simp only [this, if_true, Res.ok.injEq] at h1
    subst h1
    have hd : s.rest.drop 1 = r := by rw [hr]; rfl
    rw [hd]; exact step_ascii hs b r hr hb
  intro s1 h1
  apply pf_bind_lift _ _ _ _ _ (consumeQName_spec T txt h1.2).post
  rintro ⟨s2, pfx, loc⟩ ⟨h2, hsp, hsl, hne⟩
  simp only at h2 ⊢
  refine pf_bind _ _ _ (fun _ c => c = s.pos) _
    (pf_emit _ _ s.pos _ (by simp [pStep, hc]) rfl) ?_
  intro _ c1 _ h1'
  subst h1'
  have hle : s.pos ≤ s2.pos := by
    have := h1.1.pos_le; have := h2.1.pos_le; omega
  refine pf_bind _ _ _ _ _ (startTagLoop_pf T hT txt _ s2 s.pos h2.2 hle) ?_
  rintro ⟨s3, fin⟩ c1 _ h3
  simp only at h3 ⊢
  split
  · exact pf_fail _ _ _ (by simp)
  · exact pf_pure _ _ _ h3

end tok2


section tok3
open Rox.TM
variable (T : Tables) (hT : TablesOK T) (txt : Bytes)
include hT

/-- Element content: every tag lies at or after the previous one. -/
theorem parseContent_pf : ∀ (fuel depth : Nat) (s : Stream) (cur : Nat), SOk txt s → cur ≤ s.pos →
    PF (parseContent T txt fuel depth s) cur (fun _ _ => True) := by
  intro fuel
  induction fuel with
  | zero => intro d s cur _ _; unfold parseContent; exact pf_fail _ _ _ (by simp)
  | succ n ih =>
    intro depth s cur hs hc
    unfold parseContent
    split
    · exact pf_pure _ _ _ trivial
    · rename_i c r hr
      have cont : ∀ (d' : Nat) (m : TM Stream), Spec m (TokOk txt) (Step1 txt s) →
          PF m cur (fun _ c => c = cur) →
          PF (m >>= fun s' => parseContent T txt n d' s') cur (fun _ _ => True) := by
        intro d' m hm hpf
        refine pf_bind _ _ _ _ _ hpf ?_
        intro s2 c1 hok h1
        subst h1
        have h2 := hm.post s2 hok
        exact ih d' s2 _ h2.1.2 (Nat.le_trans hc h2.1.1.pos_le)
      split
      · rename_i hc'
        have hcl : c = bLt := by simpa using hc'
        subst hcl
        split
        · rename_i nb hnb
          split
          · split
            · rename_i hcs
              exact cont depth _ (parseComment_spec T hT txt hs hcs) (parseComment_pf T txt _ _)
            · split
              · rename_i hcs
                exact cont depth _ (parseCdata_spec T hT txt hs hcs) (parseCdata_pf T txt _ _)
              · exact pf_fail _ _ _ (errAt_ne_ok _ _ _)
          · split
            · rename_i _ hq
              have : nb = bQuest := by simpa using hq
              subst this
              have hsw := startsWith_two bLt bQuest r hr hnb
              exact cont depth _ (parsePi_spec T hT txt hs hsw) (parsePi_pf T txt _ _)
            · split
              · rename_i _ _ hsl
                have : nb = bSlash := by simpa using hsl
                subst this
                have hsw := startsWith_two bLt bSlash r hr hnb
                refine pf_bind _ _ _ _ _ (parseCloseElement_pf T hT txt hs hsw cur hc) ?_
                intro s2 c1 hok h1
                have h2 := (parseCloseElement_spec T hT txt hs hsw).post s2 hok
                split
                · exact pf_pure _ _ _ trivial
                · exact ih _ s2 _ h2.1.2 h1
              · refine pf_bind _ _ _ _ _
                  (parseStartTag_pf T hT txt hs bLt r hr (by decide) cur hc) ?_
                rintro ⟨s2, opened⟩ c1 hok h1
                have h2 := (parseStartTag_spec T hT txt hs bLt r hr (by decide)).post _ hok
                simp only at h1 h2 ⊢
                exact ih _ s2 _ h2.1.2 h1
        · exact pf_fail _ _ _ (errAt_ne_ok _ _ _)
      · rename_i hc'
        have hne : c ≠ bLt := by simpa using hc'
        exact cont depth _ (parseText_spec T hT txt hs c r hr hne) (parseText_pf T txt _ _)

theorem parseElement_pf {s : Stream} (hs : SOk txt s) (r : Bytes) (hr : s.rest = bLt :: r)
    (cur : Nat) (hc : cur ≤ s.pos) : PF (parseElement T txt s) cur (fun _ _ => True) := by
  unfold parseElement
  refine pf_bind _ _ _ _ _ (parseStartTag_pf T hT txt hs bLt r hr (by decide) cur hc) ?_
  rintro ⟨s2, opened⟩ c1 hok h1
  have h2 := (parseStartTag_spec T hT txt hs bLt r hr (by decide)).post _ hok
  simp only at h1 h2 ⊢
  split
  · exact parseContent_pf T hT txt _ 0 s2 _ h2.1.2 h1
  · exact pf_pure _ _ _ trivial

theorem parseBody_pf {s : Stream} (hs : SOk txt s) : PF (parseBody T txt s) 0 (fun _ _ => True) := by
  unfold parseBody
  have h1 := skipSpaces_step T hT hs
  refine pf_bind _ _ _ (fun _ _ => True) _ ?_ ?_
  · unfold parseRootElement
    split
    · rename_i hc
      cases hr : (s.skipSpaces T).rest with
      | nil => simp [Stream.currByte?, hr] at hc
      | cons b r =>
        have : b = bLt := by simpa [Stream.currByte?, hr] using hc
        subst this
        exact parseElement_pf T hT txt h1.2 r hr 0 (Nat.zero_le _)
    · exact pf_pure _ _ _ trivial
  intro s2 c1 _ _
  refine pf_bind _ _ _ _ _ (parseMisc_pf T txt _ _ c1) ?_
  intro s3 c2 _ _
  split
  · exact pf_fail _ _ _ (errAt_ne_ok _ _ _)
  · exact pf_pure _ _ _ trivial

/-- The token stream of a document is accepted by the position automaton. -/
theorem parseDocument_pf (hv : ValidUtf8 txt) (allowDtd : Bool) :
    PF (parseDocument T txt allowDtd) 0 (fun _ _ => True) := by
  unfold parseDocument
  refine pf_bind _ _ _ _ _ (parseProlog_pf T txt 0) ?_
  intro s1 c1 hok1 h1
  subst h1
  have hs1 := (parseProlog_spec T hT txt hv).post s1 hok1
  split
  · rename_i hd
    split
    · exact pf_fail _ _ _ (by simp)
    · refine pf_bind _ _ _ _ _ (parseDoctype_pf T txt _ 0) ?_
      intro s2 c2 hok2 h2
      subst h2
      have hs2 := (parseDoctype_spec T hT txt hs1 hd).post s2 hok2
      refine pf_bind _ _ _ _ _ (parseMisc_pf T txt _ _ 0) ?_
      intro s3 c3 hok3 h3
      subst h3
      have hs3 := (parseMisc_spec T hT txt _ s2 (by omega) hs2.2).post s3 hok3
      exact parseBody_pf T hT txt hs3.2
  · exact parseBody_pf T hT txt hs1

/-- The tokens of an entity value are accepted by the position automaton (started at 0). -/
theorem tokenizeContent_pf (v : Span) (hv : SpanU txt v) :
    ∃ cur', pRun 0 (tokenizeContent T txt v.off v.stop).1 = some cur' := by
  have hs0 : SOk txt (Stream.ofRange txt v.off v.stop) := by
    have := hv.sOk
    have e : Stream.ofRange txt v.off v.stop = ⟨v.off, v.bytes⟩ := by
      unfold Stream.ofRange Span.stop
      rw [← hv.1.1]
    rw [e]; exact this
  obtain ⟨c, hc, _⟩ := parseContent_pf T hT txt
    ((Stream.ofRange txt v.off v.stop).rest.length + 1) 0 _ 0 hs0 (Nat.zero_le _)
  exact ⟨c, hc⟩

end tok3


/-! ### Builder level: the invariant -/

/-- old nodes keep the start of their range and their parent link -/
@[reducible] def RKeep (a a' : Array NodeData) : Prop :=
  ∀ (i : Nat) (nd : NodeData), a[i]? = some nd → ∃ nd', a'[i]? = some nd' ∧ nd'.range.1 = nd.range.1 ∧ nd'.parent = nd.parent

theorem RKeep.refl (a : Array NodeData) : RKeep a a := fun _ nd h => ⟨nd, h, rfl, rfl⟩

theorem RKeep.trans {a b c : Array NodeData} (h1 : RKeep a b) (h2 : RKeep b c) : RKeep a c := by
  intro i nd h
  obtain ⟨nd1, g1, r1, p1⟩ := h1 i nd h
  obtain ⟨nd2, g2, r2, p2⟩ := h2 i nd1 g1
  exact ⟨nd2, g2, r2.trans r1, p2.trans p1⟩

/-- every stored node range is ordered -/
@[reducible] def NodesOrd (a : Array NodeData) : Prop :=
  ∀ (i : Nat) (n : NodeData), a[i]? = some n → n.range.1 ≤ n.range.2

theorem set_get (a : Array NodeData) (i : Nat) (m m' : NodeData) (hm : a[i]? = some m) (j : Nat) :
    (a.setIfInBounds i m')[j]? = if i = j then some m' else a[j]? := by
  have hi : i < a.size := (Array.getElem?_eq_some_iff.mp hm).1
  rw [Array.getElem?_setIfInBounds]; split <;> simp_all

theorem keep_set (a : Array NodeData) (i : Nat) (m m' : NodeData) (hm : a[i]? = some m)
    (h1 : m'.range.1 = m.range.1) (h2 : m'.parent = m.parent) : RKeep a (a.setIfInBounds i m') := by
  intro j nd hj
  rw [set_get a i m m' hm j]
  by_cases hij : i = j
  · subst hij
    rw [hm] at hj
    simp only [Option.some.injEq] at hj
    subst hj
    exact ⟨m', by simp, h1, h2⟩
  · exact ⟨nd, by simp [hij, hj], rfl, rfl⟩

theorem nodesOrd_set (a : Array NodeData) (i : Nat) (m m' : NodeData) (hm : a[i]? = some m)
    (ha : NodesOrd a) (h1 : m'.range.1 ≤ m'.range.2) : NodesOrd (a.setIfInBounds i m') := by
  intro j nd hj
  rw [set_get a i m m' hm j] at hj
  by_cases hij : i = j
  · simp only [hij, if_true, Option.some.injEq] at hj
    subst hj; exact h1
  · simp only [hij, if_false] at hj
    exact ha j nd hj

/-- a predicate on (arena, node) that survives every change the builder makes to old nodes -/
def RMono (R : Array NodeData → Nat → Prop) : Prop :=
  ∀ a a' pid, RKeep a a' → R a pid → R a' pid

/-- The `n` innermost open elements (walking up from `pid`) start at or before `cur`; what lies
below them satisfies `R`. -/
def ChainLe (R : Array NodeData → Nat → Prop) (a : Array NodeData) (cur : Nat) : Nat → Nat → Prop
  | 0, pid => R a pid
  | n+1, pid => ∃ nd, a[pid]? = some nd ∧ nd.range.1 ≤ cur ∧
      ∀ p, nd.parent = some p → ChainLe R a cur n p

theorem ChainLe.mono {R : Array NodeData → Nat → Prop} (hR : RMono R) {a a' : Array NodeData}
    {cur cur' : Nat} (hk : RKeep a a') (hc : cur ≤ cur') :
    ∀ (n pid : Nat), ChainLe R a cur n pid → ChainLe R a' cur' n pid := by
  intro n
  induction n with
  | zero => intro pid h; exact hR a a' pid hk h
  | succ n ih =>
    intro pid h
    obtain ⟨nd, hg, hr, hp⟩ := h
    obtain ⟨nd', hg', hr', hp'⟩ := hk pid nd hg
    refine ⟨nd', hg', by rw [hr']; omega, ?_⟩
    intro p hpp
    rw [hp'] at hpp
    exact ih p (hp p hpp)

theorem ChainLe.rmono {R : Array NodeData → Nat → Prop} (hR : RMono R) (cur n : Nat) :
    RMono (fun a pid => ChainLe R a cur n pid) :=
  fun _ _ pid hk h => ChainLe.mono hR hk (Nat.le_refl _) n pid h

/-- every stored range is ordered -/
structure RO (c : Ctx) : Prop where
  nodes : NodesOrd c.doc.nodes
  attrs : ∀ (k : Nat) (a : AttrData), c.doc.attrs[k]? = some a → a.range.1 ≤ a.range.2
  cur : ∀ a ∈ c.curAttrs, a.range.1 ≤ a.range.2

/-- The builder relative to the position `cur` of the last tag of this activation and the entity
floor `fl` of this activation: the pending start tag and the elements opened by this activation
start at or before `cur`. -/
structure Pos (R : Array NodeData → Nat → Prop) (cur fl : Nat) (c : Ctx) : Prop where
  floor : c.entityFloor = fl
  tag : c.tagName.pos ≤ cur
  chain : ∃ n, c.parentPrefixes.length = fl + n ∧ ChainLe R c.doc.nodes cur n c.parentId

/-- frame: the open-element stack, the floor, the current parent, the pending tag name are kept;
old nodes keep their start and parent -/
structure Fr (c c' : Ctx) : Prop where
  pp : c'.parentPrefixes = c.parentPrefixes
  floor : c'.entityFloor = c.entityFloor
  pid : c'.parentId = c.parentId
  tag : c'.tagName = c.tagName
  keep : RKeep c.doc.nodes c'.doc.nodes

theorem Fr.refl (c : Ctx) : Fr c c := ⟨rfl, rfl, rfl, rfl, RKeep.refl _⟩

theorem Fr.trans {a b c : Ctx} (h1 : Fr a b) (h2 : Fr b c) : Fr a c :=
  ⟨h2.pp.trans h1.pp, h2.floor.trans h1.floor, h2.pid.trans h1.pid, h2.tag.trans h1.tag,
    h1.keep.trans h2.keep⟩

theorem Fr.of_eq {c c' : Ctx} (hpp : c'.parentPrefixes = c.parentPrefixes)
    (hf : c'.entityFloor = c.entityFloor) (hp : c'.parentId = c.parentId)
    (ht : c'.tagName = c.tagName) (hn : c'.doc.nodes = c.doc.nodes) : Fr c c' :=
  ⟨hpp, hf, hp, ht, by rw [hn]; exact RKeep.refl _⟩

theorem Fr.pos {R : Array NodeData → Nat → Prop} (hR : RMono R) {c c' : Ctx} {cur cur' fl : Nat}
    (f : Fr c c') (hc : cur ≤ cur') (h : Pos R cur fl c) : Pos R cur' fl c' := by
  obtain ⟨h1, h2, n, hn, hch⟩ := h
  refine ⟨by rw [f.floor]; exact h1, by rw [f.tag]; omega, n, by rw [f.pp]; exact hn, ?_⟩
  rw [f.pid]
  exact ChainLe.mono hR f.keep hc n _ hch

theorem RO.of_eq {c c' : Ctx} (h : RO c) (hn : c'.doc.nodes = c.doc.nodes)
    (ha : c'.doc.attrs = c.doc.attrs) (hc : c'.curAttrs = c.curAttrs) : RO c' :=
  ⟨by rw [hn]; exact h.nodes, by rw [ha]; exact h.attrs, by rw [hc]; exact h.cur⟩

theorem appendNode_misc {c c' : Ctx} {k : Kind} {r : Range} {id : Nat}
    (h : c.appendNode k r = .ok (c', id)) : c'.tagName = c.tagName ∧ c'.curAttrs = c.curAttrs := by
  unfold Ctx.appendNode at h
  split at h
  · simp at h
  · rw [Res.bind_eq_ok] at h
    obtain ⟨newId, hid, h⟩ := h
    simp only at h
    split at h
    · simp at h
    · split at h
      · simp at h
      · split at h
        · simp at h
        · rw [Res.bind_eq_ok] at h
          obtain ⟨nodes', hs, h⟩ := h
          simp only [pure, Res.ok.injEq, Prod.mk.injEq] at h
          obtain ⟨hc, hi⟩ := h
          subst hc
          exact ⟨rfl, rfl⟩

/-- `append_node`: a frame step; the new node is a child of the current parent and carries the
given range (or `(0,0)`). -/
theorem appendNode_fr {c c' : Ctx} {k : Kind} {r : Range} {id : Nat} (hb : BInv c)
    (h : c.appendNode k r = .ok (c', id)) (hr : r.1 ≤ r.2) :
    Fr c c' ∧ (RO c → RO c') ∧
      ∃ nd, c'.doc.nodes[id]? = some nd ∧ nd.parent = some c.parentId ∧ nd.range.1 ≤ r.1 := by
  obtain ⟨hid, hsz, hold, ⟨p, hp, hnew⟩, _, hpid, _, hpp, hattrs, _, hfl, _, _⟩ :=
    appendNode_spec c c' k r id hb.pid_lt hb.awaiting_lt h
  obtain ⟨htag, hcur⟩ := appendNode_misc h
  have hkeep : RKeep c.doc.nodes c'.doc.nodes := by
    intro i nd hi
    have hlt : i < c.doc.nodes.size := (Array.getElem?_eq_some_iff.mp hi).1
    have := hold i hlt
    rw [hi] at this
    exact ⟨_, this, rfl, rfl⟩
  have hrng : (if c.positions = true then r else (0, 0)).1 ≤ (if c.positions = true then r else (0, 0)).2 := by
    split
    · exact hr
    · exact Nat.le_refl _
  refine ⟨⟨hpp, hfl, hpid, htag, hkeep⟩, ?_, ?_⟩
  · intro ro
    refine ⟨?_, by rw [hattrs]; exact ro.attrs, by rw [hcur]; exact ro.cur⟩
    intro i n hi
    have hlt : i < c'.doc.nodes.size := (Array.getElem?_eq_some_iff.mp hi).1
    by_cases hi' : i < c.doc.nodes.size
    · have := hold i hi'
      rw [hi] at this
      cases hci : c.doc.nodes[i]? with
      | none => rw [hci] at this; simp at this
      | some m =>
        rw [hci] at this
        simp only [Option.map_some, Option.some.injEq] at this
        subst this
        exact ro.nodes i m hci
    · have : i = c.doc.nodes.size := by omega
      subst this
      rw [hnew] at hi
      simp only [Option.some.injEq] at hi
      subst hi
      exact hrng
  · rw [hid]
    refine ⟨_, hnew, rfl, ?_⟩
    show (if c.positions = true then r else (0, 0)).1 ≤ r.1
    split
    · exact Nat.le_refl _
    · exact Nat.zero_le _

theorem appendText_fr {c c' : Ctx} {t : Str} {r : Range} (hb : BInv c)
    (h : c.appendText t r = .ok c') (hr : r.1 ≤ r.2) : Fr c c' ∧ (RO c → RO c') := by
  unfold Ctx.appendText at h
  dsimp only at h
  split at h
  · rw [Res.bind_eq_ok] at h
    obtain ⟨⟨c2, id⟩, h2, h1⟩ := h
    res_norm at h1
    subst h1
    have hb1 : BInv (c.log (Ev.textFragment t r)) := hb.congr rfl rfl rfl
    obtain ⟨f2, ro2, _⟩ := appendNode_fr hb1 h2 hr
    exact ⟨⟨f2.pp, f2.floor, f2.pid, f2.tag, f2.keep⟩, fun ro =>
      (ro2 (ro.of_eq rfl rfl rfl)).of_eq rfl rfl rfl⟩
  · res_norm at h
    subst h
    exact ⟨Fr.of_eq rfl rfl rfl rfl rfl, fun ro => ro.of_eq rfl rfl rfl⟩

theorem mergeText_fr {c c' : Ctx} (h : c.mergeText = .ok c') : Fr c c' ∧ (RO c → RO c') := by
  unfold Ctx.mergeText at h
  dsimp only at h
  split at h
  · simp at h
  · split at h
    · simp at h
    · rename_i n hn
      split at h
      · simp only [Res.ok.injEq] at h
        subst h
        refine ⟨⟨rfl, rfl, rfl, rfl, keep_set _ _ n _ hn rfl rfl⟩, fun ro => ⟨?_, ro.attrs, ro.cur⟩⟩
        exact nodesOrd_set _ _ n _ hn ro.nodes (show n.range.1 ≤ n.range.2 from ro.nodes _ _ hn)
      · simp at h

theorem resetAfterText_fr {c c' : Ctx} (h : c.resetAfterText = .ok c') :
    Fr c c' ∧ (RO c → RO c') := by
  unfold Ctx.resetAfterText at h
  dsimp only at h
  split at h
  · simp only [Res.ok.injEq] at h; subst h; exact ⟨Fr.refl _, id⟩
  · split at h
    · rw [Res.bind_eq_ok] at h
      obtain ⟨c1, h1, h⟩ := h
      res_norm at h
      subst h
      obtain ⟨f1, r1⟩ := mergeText_fr h1
      exact ⟨⟨f1.pp, f1.floor, f1.pid, f1.tag, f1.keep⟩, fun ro => (r1 ro).of_eq rfl rfl rfl⟩
    · res_norm at h; subst h
      exact ⟨Fr.of_eq rfl rfl rfl rfl rfl, fun ro => ro.of_eq rfl rfl rfl⟩

theorem flushBuffer_fr {c c' : Ctx} {b : TextBuffer} {r : Range} (hb : BInv c)
    (h : flushBuffer c b r = .ok c') (hr : r.1 ≤ r.2) : Fr c c' ∧ (RO c → RO c') := by
  unfold flushBuffer at h
  split at h
  · rw [Res.bind_eq_ok] at h
    obtain ⟨out, _, h⟩ := h
    exact appendText_fr hb h hr
  · res_norm at h; subst h; exact ⟨Fr.refl _, id⟩

theorem processCdata_fr {c c' : Ctx} {t : Span} {r : Range} (hb : BInv c)
    (h : processCdata c t r = .ok c') (hr : r.1 ≤ r.2) : Fr c c' ∧ (RO c → RO c') := by
  unfold processCdata at h
  split at h <;> exact appendText_fr hb h hr


/-- nothing the range invariant looks at has changed -/
structure Same (c c' : Ctx) : Prop where
  pp : c'.parentPrefixes = c.parentPrefixes
  floor : c'.entityFloor = c.entityFloor
  pid : c'.parentId = c.parentId
  tag : c'.tagName = c.tagName
  nodes : c'.doc.nodes = c.doc.nodes
  attrs : c'.doc.attrs = c.doc.attrs
  cur : c'.curAttrs = c.curAttrs

theorem Same.refl (c : Ctx) : Same c c := ⟨rfl, rfl, rfl, rfl, rfl, rfl, rfl⟩

theorem Same.trans {a b c : Ctx} (h1 : Same a b) (h2 : Same b c) : Same a c :=
  ⟨h2.pp.trans h1.pp, h2.floor.trans h1.floor, h2.pid.trans h1.pid, h2.tag.trans h1.tag,
    h2.nodes.trans h1.nodes, h2.attrs.trans h1.attrs, h2.cur.trans h1.cur⟩

theorem Same.fr {c c' : Ctx} (s : Same c c') : Fr c c' := Fr.of_eq s.pp s.floor s.pid s.tag s.nodes

theorem Same.ro {c c' : Ctx} (s : Same c c') (h : RO c) : RO c' := h.of_eq s.nodes s.attrs s.cur

theorem resolveNamespaces_same (c c' : Ctx) (r : Range) (h : resolveNamespaces c = .ok (c', r)) :
    Same c c' := by
  unfold resolveNamespaces at h
  rw [Res.bind_eq_ok] at h
  obtain ⟨p, _, h⟩ := h
  split at h
  · split at h
    · res_norm at h; rw [← h.1]; exact Same.refl _
    · rw [Res.bind_eq_ok] at h
      obtain ⟨ns, _, h⟩ := h
      res_norm at h
      rw [← h.1]; exact ⟨rfl, rfl, rfl, rfl, rfl, rfl, rfl⟩
  · res_norm at h; rw [← h.1]; exact Same.refl _

theorem resolveAttrsLoop_ord (txt : Bytes) (pos : Bool) (nss : Range) (st : Nat) :
    ∀ (l : List TempAttr) (d d' : Doc), resolveAttrsLoop txt pos nss st l d = .ok d' →
      (∀ a ∈ l, a.range.1 ≤ a.range.2) →
      (∀ (k : Nat) (a : AttrData), d.attrs[k]? = some a → a.range.1 ≤ a.range.2) →
      (∀ (k : Nat) (a : AttrData), d'.attrs[k]? = some a → a.range.1 ≤ a.range.2) := by
  intro l
  induction l with
  | nil => intro d d' h _ hd; simp [resolveAttrsLoop] at h; subst h; exact hd
  | cons a r ih =>
    intro d d' h hl hd
    simp only [resolveAttrsLoop] at h
    rw [Res.bind_eq_ok] at h
    obtain ⟨nsIdx, _, h⟩ := h
    rw [Res.bind_eq_ok] at h
    obtain ⟨en, _, h⟩ := h
    rw [Res.bind_eq_ok] at h
    obtain ⟨dup, _, h⟩ := h
    split at h
    · exact absurd h (errPos_ne_ok _ _ _ _)
    · refine ih _ _ h (fun b hb => hl b (by simp [hb])) ?_
      have ha := hl a (by simp)
      intro k ad hk
      simp only [Array.getElem?_push] at hk
      split at hk
      · simp only [Option.some.injEq] at hk
        subst hk
        cases pos
        · exact Nat.le_refl _
        · exact ha
      · exact hd k ad hk

theorem resolveAttributes_fr (txt : Bytes) (c c' : Ctx) (nss r : Range)
    (h : resolveAttributes txt c nss = .ok (c', r)) : Fr c c' ∧ (RO c → RO c') := by
  unfold resolveAttributes at h
  split at h
  · res_norm at h; rw [← h.1]; exact ⟨Fr.refl _, id⟩
  · split at h
    · simp at h
    · rw [Res.bind_eq_ok] at h
      obtain ⟨doc, hd, h⟩ := h
      res_norm at h
      have hn := resolveAttrsLoop_nodes _ _ _ _ _ _ _ hd
      rw [← h.1]
      refine ⟨Fr.of_eq rfl rfl rfl rfl hn, fun ro => ⟨?_, ?_, ?_⟩⟩
      · show NodesOrd doc.nodes
        rw [hn]; exact ro.nodes
      · exact resolveAttrsLoop_ord _ _ _ _ _ _ _ hd ro.cur ro.attrs
      · intro a ha; simp at ha

theorem normalizeAttribute_same (T : Tables) (txt : Bytes) (c c' : Ctx) (v : Span) (s : Str)
    (h : normalizeAttribute T txt c v = .ok (c', s)) : Same c c' := by
  unfold normalizeAttribute at h
  split at h
  · rw [Res.bind_eq_ok] at h
    obtain ⟨⟨buf, ld, tr⟩, _, h⟩ := h
    rw [Res.bind_eq_ok] at h
    obtain ⟨out, _, h⟩ := h
    res_norm at h
    rw [← h.1]; exact ⟨rfl, rfl, rfl, rfl, rfl, rfl, rfl⟩
  · res_norm at h; rw [← h.1]; exact Same.refl _

theorem processAttribute_fr (T : Tables) (txt : Bytes) (c c' : Ctx) (r : Range) (q e : Nat)
    (pfx loc v : Span) (h : processAttribute T txt c r q e pfx loc v = .ok c') (hr : r.1 ≤ r.2) :
    Fr c c' ∧ (RO c → RO c') := by
  unfold processAttribute at h
  rw [Res.bind_eq_ok] at h
  obtain ⟨⟨c1, value⟩, h1, h⟩ := h
  have s1 := normalizeAttribute_same _ _ _ _ _ _ h1
  have fin : ∀ c2 : Ctx, Same c1 c2 → Fr c c2 ∧ (RO c → RO c2) :=
    fun c2 s2 => ⟨(s1.trans s2).fr, (s1.trans s2).ro⟩
  try dsimp only at h
  split at h
  · split at h
    · exact absurd h (errPos_ne_ok _ _ _ _)
    · split at h
      · exact absurd h (errPos_ne_ok _ _ _ _)
      · try dsimp only at h
        split at h
        · exact absurd h (errPos_ne_ok _ _ _ _)
        · split at h
          · exact absurd h (errPos_ne_ok _ _ _ _)
          · rw [Res.bind_eq_ok] at h
            obtain ⟨ex, _, h⟩ := h
            split at h
            · exact absurd h (errPos_ne_ok _ _ _ _)
            · split at h
              · rw [Res.bind_eq_ok] at h
                obtain ⟨ns, _, h⟩ := h
                res_norm at h; subst h
                exact fin _ ⟨rfl, rfl, rfl, rfl, rfl, rfl, rfl⟩
              · res_norm at h; subst h
                exact fin _ ⟨rfl, rfl, rfl, rfl, rfl, rfl, rfl⟩
  · split at h
    · split at h
      · exact absurd h (errPos_ne_ok _ _ _ _)
      · split at h
        · exact absurd h (errPos_ne_ok _ _ _ _)
        · rw [Res.bind_eq_ok] at h
          obtain ⟨ex, _, h⟩ := h
          split at h
          · exact absurd h (errPos_ne_ok _ _ _ _)
          · rw [Res.bind_eq_ok] at h
            obtain ⟨ns, _, h⟩ := h
            res_norm at h; subst h
            exact fin _ ⟨rfl, rfl, rfl, rfl, rfl, rfl, rfl⟩
    · res_norm at h; subst h
      refine ⟨s1.fr.trans (Fr.of_eq rfl rfl rfl rfl rfl), fun ro => ?_⟩
      have ro1 := s1.ro ro
      refine ⟨ro1.nodes, ro1.attrs, ?_⟩
      intro a ha
      rcases List.mem_append.mp ha with ha | ha
      · exact ro1.cur a ha
      · simp only [List.mem_singleton] at ha
        subst ha
        exact hr


/-- `process_element` at an `ElementEnd` whose end lies at or after `cur`: new / rewritten element
ranges are ordered, and the invariant moves on to the end of the token. -/
theorem processElement_pos {R : Array NodeData → Nat → Prop} (hR : RMono R) {txt : Bytes}
    {c c' : Ctx} {e : EndKind} {r : Range} {cur fl : Nat} (hb : BInv c) (ro : RO c)
    (hp : Pos R cur fl c) (hc : cur ≤ r.2) (h : processElement txt c e r = .ok c') :
    RO c' ∧ Pos R r.2 fl c' := by
  unfold processElement at h
  split at h
  · split at h
    · exact absurd h (errPos_ne_ok _ _ _ _)
    · simp at h
  · rw [Res.bind_eq_ok] at h
    obtain ⟨⟨c1, nss⟩, h1, h⟩ := h
    try dsimp only at h
    rw [Res.bind_eq_ok] at h
    obtain ⟨⟨c2, attrs⟩, h2, h⟩ := h
    have t1 := resolveNamespaces_triEq _ _ _ h1
    have t2 := resolveAttributes_triEq _ _ _ _ _ h2
    have hb2 : BInv c2 := t2.binv ((t1.binv hb).congr rfl rfl rfl)
    have s1 := resolveNamespaces_same _ _ _ h1
    obtain ⟨f2, r2⟩ := resolveAttributes_fr _ _ _ _ _ h2
    have f12 : Fr c c2 := s1.fr.trans ⟨f2.pp, f2.floor, f2.pid, f2.tag, f2.keep⟩
    have ro2 : RO c2 := r2 ((s1.ro ro).of_eq rfl rfl rfl)
    have hp2 : Pos R cur fl c2 := f12.pos hR (Nat.le_refl _) hp
    have htag : c2.tagName.pos ≤ r.2 := Nat.le_trans hp2.tag hc
    try dsimp only at h
    split at h
    · -- empty element
      rw [Res.bind_eq_ok] at h
      obtain ⟨tagNs, _, h⟩ := h
      rw [Res.bind_eq_ok] at h
      obtain ⟨⟨c3, newId⟩, h3, h⟩ := h
      res_norm at h
      subst h
      obtain ⟨f3, r3, _⟩ := appendNode_fr hb2 h3 (show (c2.tagName.pos, r.2).1 ≤ (c2.tagName.pos, r.2).2 from htag)
      have f3' : Fr c2 { c3 with awaiting := c3.awaiting ++ [newId] } :=
        ⟨f3.pp, f3.floor, f3.pid, f3.tag, f3.keep⟩
      exact ⟨(r3 ro2).of_eq rfl rfl rfl, f3'.pos hR hc hp2⟩
    · -- close tag
      split at h
      · exact absurd h (errPos_ne_ok _ _ _ _)
      · rename_i hfloor
        rw [Res.bind_eq_ok] at h
        obtain ⟨p, hpn', h⟩ := h
        split at h
        · simp at h
        · rename_i parentPrefix restPrefixes hpp
          split at h
          · exact absurd h (errPos_ne_ok _ _ _ _)
          · split at h
            · rename_i id hid
              res_norm at h
              subst h
              have hpn : c2.doc.nodes[c2.parentId]? = some p := by
                unfold Ctx.nodeAt at hpn'
                split at hpn' <;> simp at hpn'
                subst hpn'; assumption
              let pnew : NodeData := if c2.positions = true then
                { p with range := (p.range.1, r.2) } else p
              have hpar : pnew.parent = p.parent := by simp only [pnew]; split <;> rfl
              have hst : pnew.range.1 = p.range.1 := by simp only [pnew]; split <;> rfl
              obtain ⟨hfl2, _, n, hn, hch⟩ := hp2
              have hlen2 : c2.parentPrefixes.length = restPrefixes.length + 1 := by
                rw [hpp]; rfl
              cases n with
              | zero => omega
              | succ m =>
                obtain ⟨nd, hnd, hle, hup⟩ := hch
                rw [hpn] at hnd
                simp only [Option.some.injEq] at hnd
                subst hnd
                have hk : RKeep c2.doc.nodes (c2.doc.nodes.setIfInBounds c2.parentId pnew) :=
                  keep_set _ _ p _ hpn hst hpar
                have hord : pnew.range.1 ≤ pnew.range.2 := by
                  simp only [pnew]
                  split
                  · show p.range.1 ≤ r.2
                    omega
                  · exact ro2.nodes _ _ hpn
                refine ⟨⟨?_, ro2.attrs, ro2.cur⟩, ⟨hfl2, htag, m, ?_, ?_⟩⟩
                · exact nodesOrd_set _ _ p _ hpn ro2.nodes hord
                · show restPrefixes.length = fl + m
                  omega
                · show ChainLe R (c2.doc.nodes.setIfInBounds c2.parentId pnew) r.2 m id
                  exact ChainLe.mono hR hk hc m id (hup id (by rw [← hpar]; exact hid))
            · exact absurd h (errPos_ne_ok _ _ _ _)
    · -- open element
      rw [Res.bind_eq_ok] at h
      obtain ⟨tagNs, _, h⟩ := h
      rw [Res.bind_eq_ok] at h
      obtain ⟨⟨c3, newId⟩, h3, h⟩ := h
      res_norm at h
      subst h
      obtain ⟨f3, r3, nd, hnd, hndp, hndr⟩ :=
        appendNode_fr hb2 h3 (show (c2.tagName.pos, r.2).1 ≤ (c2.tagName.pos, r.2).2 from htag)
      obtain ⟨hfl2, htag2, n, hn, hch⟩ := hp2
      refine ⟨(r3 ro2).of_eq rfl rfl rfl, ⟨?_, ?_, n + 1, ?_, ?_⟩⟩
      · show c3.entityFloor = fl
        rw [f3.floor]; exact hfl2
      · show c3.tagName.pos ≤ r.2
        rw [f3.tag]; exact htag
      · show c3.parentPrefixes.length + 1 = fl + (n + 1)
        rw [f3.pp]; omega
      · show ChainLe R c3.doc.nodes r.2 (n + 1) newId
        refine ⟨nd, hnd, ?_, ?_⟩
        · have : nd.range.1 ≤ c2.tagName.pos := hndr
          omega
        · intro q hq
          rw [hndp] at hq
          simp only [Option.some.injEq] at hq
          subst hq
          exact ChainLe.mono hR f3.keep hc n _ hch


/-! ### Builder level: steps, token lists, nested activations -/

/-- what is proved of a builder `step` -/
def StepRO (txt : Bytes) (step : Token → Ctx → Res Ctx) : Prop :=
  ∀ (R : Array NodeData → Nat → Prop), RMono R → ∀ (cur cur' fl : Nat) (t : Token) (c c' : Ctx),
    TokOk txt t → pStep cur t = some cur' → BInv c → DS txt c → RO c → Pos R cur fl c →
    step t c = .ok c' → RO c' ∧ Pos R cur' fl c'

theorem feed_ro (txt : Bytes) (step : Token → Ctx → Res Ctx)
    (hB : ∀ t c c', BInv c → step t c = .ok c' → BInv c') (hD : StepDS txt step)
    (hS : StepRO txt step) (R : Array NodeData → Nat → Prop) (hR : RMono R) (fl : Nat) :
    ∀ (toks : List Token), (∀ t ∈ toks, TokOk txt t) → ∀ (cur cur' : Nat) (c c' : Ctx),
      pRun cur toks = some cur' → BInv c → DS txt c → RO c → Pos R cur fl c →
      feed step toks c = .ok c' → RO c' ∧ Pos R cur' fl c' := by
  intro toks
  induction toks with
  | nil =>
    intro _ cur cur' c c' hrun _ _ ro hp h
    simp only [pRun, Option.some.injEq] at hrun
    simp [feed] at h
    subst h; subst hrun; exact ⟨ro, hp⟩
  | cons t ts ih =>
    intro hall cur cur' c c' hrun hb hd ro hp h
    simp only [pRun] at hrun
    cases hps : pStep cur t with
    | none => rw [hps] at hrun; simp at hrun
    | some cur1 =>
      rw [hps] at hrun
      simp only at hrun
      simp only [feed] at h
      split at h
      · rename_i c1 h1
        have htk := hall t (by simp)
        obtain ⟨ro1, hp1⟩ := hS R hR cur cur1 fl t c c1 htk hps hb hd ro hp h1
        exact ih (fun t' ht' => hall t' (by simp [ht'])) cur1 cur' c1 c' hrun (hB _ _ _ hb h1)
          (hD _ _ _ htk h1 hd) ro1 hp1 h
      · simp at h
      · simp at h
      · simp at h

section
variable (T : Tables) (hT : TablesOK T) (txt : Bytes)
include hT

theorem processTextLoop_ro (lower : Token → Ctx → Res Ctx)
    (hlowerB : ∀ t c c', BInv c → lower t c = .ok c' → BInv c') (hlowerD : StepDS txt lower)
    (hlower : StepRO txt lower) (range : Range) (hr : RangeOk txt range)
    (R : Array NodeData → Nat → Prop) (hR : RMono R) (cur fl : Nat) :
    ∀ (fuel : Nat) (s : Stream) (buf buf' : TextBuffer) (c c' : Ctx), BInv c → DS txt c → RO c →
      Pos R cur fl c → processTextLoop T txt lower range fuel s buf c = .ok (buf', c') →
      BInv c' ∧ DS txt c' ∧ RO c' ∧ Pos R cur fl c' := by
  intro fuel
  induction fuel with
  | zero => intro s buf buf' c c' _ _ _ _ h; simp [processTextLoop] at h
  | succ fuel ih =>
    intro s buf buf' c c' hb hd ro hp h
    simp only [processTextLoop] at h
    split at h
    · res_norm at h; rw [← h.2]; exact ⟨hb, hd, ro, hp⟩
    · rw [Res.bind_eq_ok] at h
      obtain ⟨⟨s1, chunk⟩, hchunk, h⟩ := h
      try dsimp only at h
      split at h
      · exact ih _ _ _ _ _ hb hd ro hp h
      · try dsimp only at h
        split at h <;> exact ih _ _ _ _ _ hb hd ro hp h
      · rename_i frag
        obtain ⟨e, hmem, hfe⟩ := parseNextChunk_text_mem _ _ _ _ _ _ hchunk
        have hfu : SpanU txt frag := hfe ▸ hd.ents e hmem
        rw [Res.bind_eq_ok] at h
        obtain ⟨c1, hfl, h⟩ := h
        have hb1 := binv_flushBuffer hb hfl
        have sfl := flushBuffer_ds txt _ _ _ _ hfl hd hr.ends
        obtain ⟨f1, r1⟩ := flushBuffer_fr hb hfl hr.1
        have ro1 := r1 ro
        have hp1 : Pos R cur fl c1 := f1.pos hR (Nat.le_refl _) hp
        split at h
        · exact absurd h (errAt_ne_ok _ _ _ _)
        · try dsimp only at h
          split at h
          · exact absurd h (errAt_ne_ok _ _ _ _)
          · try dsimp only at h
            rw [Res.bind_eq_ok] at h
            obtain ⟨c2, hrun, h⟩ := h
            have hb2 : BInv c2 := by
              refine binv_runTokens lower hlowerB _ _ _ _ ?_ hrun
              exact hb1.congr rfl rfl rfl
            have srun := runTokens_ds txt lower hlowerD _ (tokenizeContent_tokOk T hT txt _ hfu)
              _ _ _ hrun
              ⟨sfl.nodes, sfl.attrs, sfl.ns, spanOk_empty txt,
                ⟨Nat.zero_le _, by simp [isCharBoundary]⟩, sfl.cur, sfl.ents⟩
            obtain ⟨_, hfeed⟩ := runTokens_feed _ _ _ _ _ hrun
            obtain ⟨cur2, hrun2⟩ := tokenizeContent_pf T hT txt frag hfu
            obtain ⟨hfl1, htag1, n, hn, hch⟩ := hp1
            have hnf := fun hB hD hRo hP =>
              feed_ro txt lower hlowerB hlowerD hlower
                (fun a pid => ChainLe R a cur n pid) (ChainLe.rmono hR cur n)
                c1.parentPrefixes.length _ (tokenizeContent_tokOk T hT txt _ hfu) 0 cur2 _ c2 hrun2
                hB hD hRo hP hfeed
            obtain ⟨ro2, hp2⟩ := hnf (hb1.congr rfl rfl rfl)
              ⟨sfl.nodes, sfl.attrs, sfl.ns, spanOk_empty txt,
                ⟨Nat.zero_le _, by simp [isCharBoundary]⟩, sfl.cur, sfl.ents⟩
              (ro1.of_eq rfl rfl rfl) ⟨rfl, Nat.le_refl _, 0, rfl, hch⟩
            split at h
            · simp at h
            · rename_i hne
              have hlen2 : c2.parentPrefixes.length = c2.entityFloor := by simpa using hne
              obtain ⟨hfl2, _, n2, hn2, hch2⟩ := hp2
              have hn0 : n2 = 0 := by omega
              subst hn0
              have hch2' : ChainLe R c2.doc.nodes cur n c2.parentId := hch2
              have hih := fun hB hD hRo hP => ih _ _ _ _ _ hB hD hRo hP h
              refine hih (hb2.congr rfl rfl rfl) ?_ (ro2.of_eq rfl rfl rfl) ?_
              · exact ⟨srun.nodes, srun.attrs, srun.ns, sfl.tag, sfl.tagPos, srun.cur, srun.ents⟩
              · exact ⟨hfl1, htag1, n, by show c2.parentPrefixes.length = fl + n; omega, hch2'⟩

theorem processText_ro (lower : Token → Ctx → Res Ctx)
    (hlowerB : ∀ t c c', BInv c → lower t c = .ok c' → BInv c') (hlowerD : StepDS txt lower)
    (hlower : StepRO txt lower) (R : Array NodeData → Nat → Prop) (hR : RMono R) (cur fl : Nat)
    (c c' : Ctx) (t : Span) (r : Range) (hr : RangeOk txt r) (hb : BInv c) (hd : DS txt c)
    (ro : RO c) (hp : Pos R cur fl c) (h : processText T txt lower c t r = .ok c') :
    RO c' ∧ Pos R cur fl c' := by
  unfold processText at h
  split at h
  · obtain ⟨f1, r1⟩ := appendText_fr hb h hr.1
    exact ⟨r1 ro, f1.pos hR (Nat.le_refl _) hp⟩
  · try dsimp only at h
    rw [Res.bind_eq_ok] at h
    obtain ⟨⟨buf, c1⟩, h1, h⟩ := h
    obtain ⟨hb1, _, ro1, hp1⟩ :=
      processTextLoop_ro T hT txt lower hlowerB hlowerD hlower _ hr R hR cur fl _ _ _ _ _ _
        hb hd ro hp h1
    obtain ⟨f2, r2⟩ := flushBuffer_fr hb1 h hr.1
    exact ⟨r2 ro1, f2.pos hR (Nat.le_refl _) hp1⟩

end


section
variable (T : Tables) (hT : TablesOK T) (txt : Bytes)
include hT

omit hT in
theorem leaf_ro {R : Array NodeData → Nat → Prop} (hR : RMono R) {cur fl : Nat} {c c1 c2 : Ctx}
    {k : Kind} {r : Range} {id : Nat} (hb : BInv c) (ro : RO c) (hp : Pos R cur fl c)
    (hr : r.1 ≤ r.2) (h1 : c.resetAfterText = .ok c1) (h2 : c1.appendNode k r = .ok (c2, id)) :
    RO c2 ∧ Pos R cur fl c2 := by
  obtain ⟨f1, r1⟩ := resetAfterText_fr h1
  obtain ⟨f2, r2, _⟩ := appendNode_fr (binv_resetAfterText hb h1) h2 hr
  exact ⟨r2 (r1 ro), (f1.trans f2).pos hR (Nat.le_refl _) hp⟩

theorem tokenStep_ro (lower : Token → Ctx → Res Ctx)
    (hlowerB : ∀ t c c', BInv c → lower t c = .ok c' → BInv c') (hlowerD : StepDS txt lower)
    (hlower : StepRO txt lower) : StepRO txt (tokenStep T txt lower) := by
  intro R hR cur cur' fl t c c' hk hps hb hd ro hp h
  unfold tokenStep at h
  dsimp only at h
  have hb0 : BInv (c.log (.token t)) := hb.congr rfl rfl rfl
  have hd0 : DS txt (c.log (.token t)) := log_ds _ hd
  have ro0 : RO (c.log (.token t)) := ro.of_eq rfl rfl rfl
  have hp0 : Pos R cur fl (c.log (.token t)) :=
    (Fr.of_eq (c := c) (c' := c.log (.token t)) rfl rfl rfl rfl rfl).pos hR (Nat.le_refl _) hp
  split at h
  · -- pi
    obtain ⟨_, _, k3, _⟩ := hk
    simp only [pStep, Option.some.injEq] at hps
    subst hps
    rw [Res.bind_eq_ok] at h
    obtain ⟨c1, h1, h⟩ := h
    rw [Res.bind_eq_ok] at h
    obtain ⟨⟨c2, id⟩, h2, h⟩ := h
    res_norm at h; subst h
    exact leaf_ro hR hb0 ro0 hp0 k3.1 h1 h2
  · -- comment
    obtain ⟨_, k2, _⟩ := hk
    simp only [pStep, Option.some.injEq] at hps
    subst hps
    rw [Res.bind_eq_ok] at h
    obtain ⟨c1, h1, h⟩ := h
    rw [Res.bind_eq_ok] at h
    obtain ⟨⟨c2, id⟩, h2, h⟩ := h
    res_norm at h; subst h
    exact leaf_ro hR hb0 ro0 hp0 k2.1 h1 h2
  · -- entityDecl
    simp only [pStep, Option.some.injEq] at hps
    subst hps
    res_norm at h; subst h
    refine ⟨ro.of_eq rfl rfl rfl, ?_⟩
    obtain ⟨a1, a2, n, a3, a4⟩ := hp
    exact ⟨a1, a2, n, a3, a4⟩
  · -- elementStart
    rename_i pfx loc start
    have hle : cur ≤ start ∧ cur' = start := by
      simp only [pStep] at hps
      split at hps
      · simp only [Option.some.injEq] at hps; exact ⟨by assumption, hps.symm⟩
      · simp at hps
    obtain ⟨hle, rfl⟩ := hle
    rw [Res.bind_eq_ok] at h
    obtain ⟨c1, h1, h⟩ := h
    obtain ⟨f1, r1⟩ := resetAfterText_fr h1
    split at h
    · exact absurd h (errPos_ne_ok _ _ _ _)
    · res_norm at h; subst h
      obtain ⟨hfl1, _, n, hn, hch⟩ := f1.pos hR hle hp0
      exact ⟨(r1 ro0).of_eq rfl rfl rfl, ⟨hfl1, Nat.le_refl _, n, hn, hch⟩⟩
  · -- attribute
    obtain ⟨k1, _⟩ := hk
    simp only [pStep, Option.some.injEq] at hps
    subst hps
    obtain ⟨f1, r1⟩ := processAttribute_fr _ _ _ _ _ _ _ _ _ _ h k1.1
    exact ⟨r1 ro0, f1.pos hR (Nat.le_refl _) hp0⟩
  · -- elementEnd
    rename_i e range
    have hle : cur ≤ range.2 ∧ cur' = range.2 := by
      simp only [pStep] at hps
      split at hps
      · simp only [Option.some.injEq] at hps; exact ⟨by assumption, hps.symm⟩
      · simp at hps
    obtain ⟨hle, rfl⟩ := hle
    rw [Res.bind_eq_ok] at h
    obtain ⟨c1, h1, h⟩ := h
    obtain ⟨f1, r1⟩ := resetAfterText_fr h1
    exact processElement_pos hR (binv_resetAfterText hb0 h1) (r1 ro0)
      (f1.pos hR (Nat.le_refl _) hp0) hle h
  · -- text
    obtain ⟨_, k2, _⟩ := hk
    simp only [pStep, Option.some.injEq] at hps
    subst hps
    exact processText_ro T hT txt lower hlowerB hlowerD hlower R hR _ fl _ _ _ _ k2 hb0 hd0 ro0 hp0 h
  · -- cdata
    obtain ⟨_, k2⟩ := hk
    simp only [pStep, Option.some.injEq] at hps
    subst hps
    obtain ⟨f1, r1⟩ := processCdata_fr hb0 h k2.1
    exact ⟨r1 ro0, f1.pos hR (Nat.le_refl _) hp0⟩

theorem token_ro : ∀ (d : Nat), StepRO txt (token T txt d) := by
  intro d
  induction d with
  | zero => intro R _ cur cur' fl t c c' _ _ _ _ _ _ h; simp [token] at h
  | succ d ih =>
    exact tokenStep_ro T hT txt (token T txt d) (binv_token T txt d) (token_ds T hT txt d) ih

end


/-- **Ranges are ordered** (all valid UTF-8 inputs, all options): for every node and every
attribute of every parsed document `range.start ≤ range.end` — elements closed by an end tag that
comes from the same entity as their start tag (the only possibility after the D9 repair)
included. -/
theorem parse_rangesOrdered (T : Tables) (hT : TablesOK T) (txt : Bytes) (hv : ValidUtf8 txt)
    (opt : Opt) (d : Doc) (h : parse T txt opt = .ok d) :
    (∀ (i : Nat) (n : NodeData), d.nodes[i]? = some n → n.range.1 ≤ n.range.2) ∧
    (∀ (k : Nat) (a : AttrData), d.attrs[k]? = some a → a.range.1 ≤ a.range.2) := by
  unfold parse at h
  rw [Res.bind_eq_ok] at h
  obtain ⟨c, hc, h⟩ := h
  res_norm at h
  subst h
  unfold parseCtx at hc
  rw [Res.bind_eq_ok] at hc
  obtain ⟨c0, h0, hc⟩ := hc
  try dsimp only at hc
  rw [Res.bind_eq_ok] at hc
  obtain ⟨c1, h1, hc⟩ := hc
  have hb0 := binv_init txt opt c0 h0
  -- the initial context
  have d0 : DS txt c0 := by
    unfold initCtx at h0
    rw [Res.bind_eq_ok] at h0
    obtain ⟨ns, hns, h0⟩ := h0
    res_norm at h0
    subst h0
    refine ⟨?_, ?_, ?_, spanOk_empty txt, ⟨Nat.zero_le _, by simp [isCharBoundary]⟩, ?_, ?_⟩
    · intro i n hn
      have : n = rootNode (if opt.positions then (0, txt.length) else (0, 0)) := by
        cases i with
        | zero => simpa using hn.symm
        | succ i => simp at hn
      subst this
      refine ⟨trivial, endsOk_pos txt _ _ ⟨Nat.zero_le _, Nat.le_refl _, by simp [isCharBoundary], ?_⟩⟩
      simp [isCharBoundary]
    · intro k a hk; simp at hk
    · intro k v hk hpos
      rcases pushNs_values _ _ _ _ hns with e | e
      · rw [e] at hk; simp at hk
      · rw [e] at hk
        exfalso
        have : k = 0 := by
          cases k with
          | zero => rfl
          | succ k => simp at hk
        omega
    · intro a ha; simp at ha
    · intro e he; simp at he
  have i0 : RO c0 ∧ Pos (fun _ _ => True) 0 0 c0 := by
    unfold initCtx at h0
    rw [Res.bind_eq_ok] at h0
    obtain ⟨ns, _, h0⟩ := h0
    res_norm at h0
    subst h0
    refine ⟨⟨?_, ?_, ?_⟩, ⟨rfl, Nat.le_refl _, 1, rfl, ?_⟩⟩
    · intro i n hn
      have : n = rootNode (if opt.positions then (0, txt.length) else (0, 0)) := by
        cases i with
        | zero => simpa using hn.symm
        | succ i => simp at hn
      subst this
      show (if opt.positions = true then (0, txt.length) else (0, 0)).1 ≤
        (if opt.positions = true then (0, txt.length) else (0, 0)).2
      split
      · exact Nat.zero_le _
      · exact Nat.le_refl _
    · intro k a hk; simp at hk
    · intro a ha; simp at ha
    · refine ⟨rootNode (if opt.positions then (0, txt.length) else (0, 0)), by simp, ?_, ?_⟩
      · show (if opt.positions = true then (0, txt.length) else (0, 0)).1 ≤ 0
        split <;> exact Nat.le_refl _
      · intro p hp
        simp [rootNode] at hp
  obtain ⟨_, hfeed⟩ := runTokens_feed _ _ _ _ _ h1
  obtain ⟨cur', hrun, _⟩ := parseDocument_pf T hT txt hv opt.allowDtd
  obtain ⟨ro1, _⟩ := feed_ro txt _ (binv_token T txt depthFuel) (token_ds T hT txt depthFuel)
    (token_ro T hT txt depthFuel) (fun _ _ => True) (fun _ _ _ _ _ => trivial) 0 _
    (parseDocument_spec T hT txt hv opt.allowDtd).toks 0 cur' c0 c1 hrun hb0 d0 i0.1 i0.2 hfeed
  unfold finish at hc
  rw [Res.bind_eq_ok] at hc
  obtain ⟨has, _, hc⟩ := hc
  split at hc
  · simp at hc
  · split at hc
    · simp at hc
    · res_norm at hc
      subst hc
      exact ⟨ro1.nodes, ro1.attrs⟩

end Rox.Lemmas
