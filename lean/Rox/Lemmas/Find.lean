/-
  Rox.Lemmas.Find — `find?` over `range` lists, as first/last-witness statements.
-/
namespace Rox.Lemmas

theorem find?_congr' {α} (p q : α → Bool) : ∀ (l : List α), (∀ x ∈ l, p x = q x) → l.find? p = l.find? q := by
  intro l
  induction l with
  | nil => intro _; rfl
  | cons x xs ih =>
    intro h
    simp only [List.find?_cons, h x (by simp)]
    rw [ih (fun y hy => h y (by simp [hy]))]

theorem find_rev_range_some (p : Nat → Bool) : ∀ (n j : Nat),
    (List.range n).reverse.find? p = some j ↔
      j < n ∧ p j = true ∧ ∀ k, j < k → k < n → p k = false := by
  intro n
  induction n with
  | zero => intro j; simp
  | succ n ih =>
    intro j
    rw [List.range_succ, List.reverse_append, List.reverse_singleton, List.singleton_append, List.find?_cons]
    by_cases hp : p n = true
    · simp only [hp]
      constructor
      · intro h; simp at h; subst h
        exact ⟨by omega, hp, fun k h1 h2 => by omega⟩
      · rintro ⟨h1, h2, h3⟩
        by_cases hj : j = n
        · simp [hj]
        · have := h3 n (by omega) (by omega)
          rw [hp] at this; simp at this
    · have hp' : p n = false := by simpa using hp
      simp only [hp']
      rw [ih]
      constructor
      · rintro ⟨h1, h2, h3⟩
        refine ⟨by omega, h2, fun k hk1 hk2 => ?_⟩
        by_cases hk : k = n
        · subst hk; exact hp'
        · exact h3 k hk1 (by omega)
      · rintro ⟨h1, h2, h3⟩
        have hjn : j ≠ n := by intro h; subst h; rw [hp'] at h2; simp at h2
        exact ⟨by omega, h2, fun k hk1 hk2 => h3 k hk1 (by omega)⟩

theorem find_rev_range_none (p : Nat → Bool) (n : Nat) :
    (List.range n).reverse.find? p = none ↔ ∀ k, k < n → p k = false := by
  simp [List.find?_eq_none, List.mem_range]

theorem find_range'_some (p : Nat → Bool) : ∀ (m s j : Nat),
    (List.range' s m).find? p = some j ↔
      s ≤ j ∧ j < s + m ∧ p j = true ∧ ∀ k, s ≤ k → k < j → p k = false := by
  intro m
  induction m with
  | zero => intro s j; simp; omega
  | succ m ih =>
    intro s j
    rw [List.range'_succ, List.find?_cons]
    by_cases hp : p s = true
    · simp only [hp]
      constructor
      · intro h; simp at h; subst h
        exact ⟨by omega, by omega, hp, fun k h1 h2 => by omega⟩
      · rintro ⟨h1, h2, h3, h4⟩
        by_cases hj : j = s
        · simp [hj]
        · have := h4 s (by omega) (by omega)
          rw [hp] at this; simp at this
    · have hp' : p s = false := by simpa using hp
      simp only [hp']
      rw [ih]
      constructor
      · rintro ⟨h1, h2, h3, h4⟩
        refine ⟨by omega, by omega, h3, fun k hk1 hk2 => ?_⟩
        by_cases hk : k = s
        · subst hk; exact hp'
        · exact h4 k (by omega) hk2
      · rintro ⟨h1, h2, h3, h4⟩
        have hjs : j ≠ s := by intro h; subst h; rw [hp'] at h3; simp at h3
        exact ⟨by omega, by omega, h3, fun k hk1 hk2 => h4 k (by omega) hk2⟩

theorem find_range'_none (p : Nat → Bool) (m s : Nat) :
    (List.range' s m).find? p = none ↔ ∀ k, s ≤ k → k < s + m → p k = false := by
  rw [List.find?_eq_none]
  constructor
  · intro h k h1 h2
    have := h k (by rw [List.mem_range']; exact ⟨k - s, by omega, by omega⟩)
    simpa using this
  · intro h k hk
    rw [List.mem_range'] at hk
    obtain ⟨i, hi, rfl⟩ := hk
    have := h (s + i) (by omega) (by omega)
    simpa using this

end Rox.Lemmas
