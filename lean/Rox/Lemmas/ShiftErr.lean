/-
  Rox.Lemmas.ShiftErr — errors move with the text (C14): prefixing a document with `k` spaces, or
  with `k` line breaks, of prolog white space shifts the position carried by the error `parse`
  returns by exactly `k` columns (when the error is on the first line), or `k` rows, and changes
  nothing else: same error kind, same payload strings and characters. Also the accepted case for
  line breaks (for spaces: `Rox.Lemmas.parse_shift`).

  The definitions `Err.mapPos`, `shPosSp`, `shPosNl` and the simulation behind these theorems are in
  `Rox.Lemmas.ShiftErrBase` (logic, position facts, cursor, tokenizer, prolog) and
  `Rox.Lemmas.ShiftErrBuild` (builder, `parse`).

  The two error theorems need the input to be valid UTF-8 (what a `&str` is): for an input that
  begins with a continuation byte, e.g. `[0x80]`, offset 0 is a character boundary of the input
  but offset `k` is not one of the prefixed input, and `parse` of the prefixed input panics in
  `gen_text_pos` where `parse` of the input reports `UnknownToken` at 1:1. (Only the first byte
  matters: `parse_shift_err_head`, `parse_shift_err_nl_head`.)
-/
import Rox.Lemmas.ShiftErrBuild
import Rox.Lemmas.Utf8

namespace Rox
namespace Lemmas
open Shift ShiftE

/-! ### The accepted case for an arbitrary prefix of white space (the simulation of
`Rox.Lemmas.Shift`, whose prolog part is specialised to spaces) -/

namespace ShiftWs
open Shift
set_option linter.unusedSimpArgs false
set_option linter.unusedVariables false

variable (T : Tables) (txt txt' ws : Bytes)

theorem parseMisc_wsg (hws : ∀ b ∈ ws, byteIsSpace T b = true) (fuel p : Nat) (r : Bytes) :
    SimT ws.length (sh ws.length) (parseMisc T txt (fuel + 1) ⟨p, r⟩)
      (parseMisc T txt' (fuel + 1) ⟨p, ws ++ r⟩) := by
  cases r with
  | nil =>
    cases ws with
    | nil =>
      simp only [parseMisc, List.append_nil, Stream.atEnd, List.isEmpty_nil, ↓reduceIte]
      exact SimT.pure rfl
    | cons b ws =>
      have hsk := ShiftE.skipSpaces_wsg T (b :: ws) hws p []
      simp only [List.append_nil] at hsk
      simp only [parseMisc, List.append_nil, hsk]
      simp [Stream.atEnd, Stream.skipSpaces, Stream.skipSpacesAux, sh, Stream.startsWith,
        Lit.commentStart, Lit.piStart]
      exact SimT.pure rfl
  | cons b r =>
    simp only [parseMisc, ShiftE.skipSpaces_wsg T ws hws]
    have h1 : (Stream.mk p (b :: r)).atEnd = false := rfl
    have h2 : (Stream.mk p (ws ++ b :: r)).atEnd = false := by
      simp [Stream.atEnd]
    simp only [h1, h2, Bool.false_eq_true, ↓reduceIte]
    have hsw : ∀ (s : Stream) lit, (sh ws.length s).startsWith lit = s.startsWith lit := fun _ _ => rfl
    simp only [hsw]
    refine SimT.ite (fun _ => ?_) (fun _ => ?_)
    · exact SimT.bind (parseComment_sh T _ txt txt' _) (fun s1 _ => parseMisc_sh T _ txt txt' _ s1)
    · refine SimT.ite (fun _ => ?_) (fun _ => SimT.pure rfl)
      exact SimT.bind (parsePi_sh T _ txt txt' _) (fun s1 _ => parseMisc_sh T _ txt txt' _ s1)

theorem parseProlog_wsg (hws : ∀ b ∈ ws, byteIsSpace T b = true)
    (hbom : Stream.startsWith ⟨0, txt⟩ Lit.bom = false)
    (hdecl : Stream.startsWithXmlDecl T ⟨0, txt⟩ = false)
    (hbom' : Stream.startsWith ⟨0, ws ++ txt⟩ Lit.bom = false)
    (hdecl' : Stream.startsWithXmlDecl T ⟨0, ws ++ txt⟩ = false) :
    SimT ws.length (sh ws.length) (parseProlog T txt) (parseProlog T (ws ++ txt)) := by
  unfold parseProlog
  simp only [Stream.new, hbom, hdecl, hbom', hdecl', Bool.false_eq_true, ↓reduceIte, TM.lift_ok_bind]
  intro a ha
  obtain ⟨b, hb, _⟩ := TM.bind_ok_inv ha
  have hmono := parseMisc_fuel_mono T txt _ _ _ hb ws.length
  have hlen : (ws ++ txt).length + 1 = txt.length + ws.length + 1 := by
    simp; omega
  rw [hlen]
  rw [Nat.add_right_comm] at hmono
  rw [← hmono] at ha ⊢
  refine SimT.bind (parseMisc_wsg T txt _ ws hws _ 0 txt) (fun s1 _ => ?_) a ha
  exact SimT.pure (skipSpaces_sh T ws.length s1)

theorem parseCtx_wsg (hws : ∀ b ∈ ws, byteIsSpace T b = true)
    (hbom : Stream.startsWith ⟨0, txt⟩ Lit.bom = false)
    (hdecl : Stream.startsWithXmlDecl T ⟨0, txt⟩ = false)
    (hbom' : Stream.startsWith ⟨0, ws ++ txt⟩ Lit.bom = false)
    (hdecl' : Stream.startsWithXmlDecl T ⟨0, ws ++ txt⟩ = false) (opt : Opt) (d : Nat) :
    Sim (NZ opt.positions) (shC ws.length) (parseCtx T txt d opt) (parseCtx T (ws ++ txt) d opt) := by
  unfold parseCtx
  refine Sim.bind (initCtx_sh ws.length txt _ (by simp; omega) opt) (fun c0 _ h0 => ?_)
  dsimp only
  have hm : SimT ws.length (fun u : Unit => u) (tokenize T txt opt.allowDtd)
      (tokenize T (ws ++ txt) opt.allowDtd) := by
    show SimT ws.length (fun u : Unit => u) (parseDocument T txt opt.allowDtd)
      (parseDocument T (ws ++ txt) opt.allowDtd)
    rw [parseDocument_eq, parseDocument_eq]
    exact SimT.bind (parseProlog_wsg T txt ws hws hbom hdecl hbom' hdecl')
      (fun s _ => afterProlog_sh T ws.length txt _ opt.allowDtd s)
  refine Sim.bind (runTokens_sh (token_sh T (ShiftE.sliceSh_gen ws txt) d) _ _ _ hm c0 h0)
    (fun c1 _ h1 => ?_)
  exact (finish_sh ws.length c1).weaken (fun c2 hc2 _ => by
    unfold finish at hc2
    rw [Res.bind_eq_ok] at hc2
    obtain ⟨has, _, hc2⟩ := hc2
    split at hc2
    · cases hc2
    · split at hc2
      · cases hc2
      · simp only [pure, Res.ok.injEq] at hc2
        subst hc2
        exact h1)

end ShiftWs

/-- the simulation for a prefix of `k` copies of a white-space byte `c` -/
private theorem parse_rep (T : Tables) (c : UInt8) (hc : byteIsSpace T c = true) (hc1 : c ≠ 0xEF)
    (hc2 : c ≠ 60) (txt : Bytes) (opt : Opt) (k : Nat) (g : TextPos → TextPos)
    (H : PosSh g k txt (List.replicate k c ++ txt))
    (hbom : Stream.startsWith ⟨0, txt⟩ Lit.bom = false)
    (hdecl : Stream.startsWithXmlDecl T ⟨0, txt⟩ = false) :
    EOkTo g (shiftDoc k opt.positions) (parse T txt opt) (parse T (List.replicate k c ++ txt) opt) := by
  have hbom' : Stream.startsWith ⟨0, List.replicate k c ++ txt⟩ Lit.bom = false := by
    cases k with
    | zero => simpa using hbom
    | succ k =>
      simp [Stream.startsWith, Lit.bom, List.replicate_succ, List.isPrefixOf]
      intro h; exact absurd h.symm hc1
  have hdecl' : Stream.startsWithXmlDecl T ⟨0, List.replicate k c ++ txt⟩ = false := by
    cases k with
    | zero => simpa using hdecl
    | succ k =>
      simp [Stream.startsWithXmlDecl, Stream.startsWith, Lit.xmlDeclOpen, List.replicate_succ,
        List.isPrefixOf]
      intro h; exact absurd h.symm hc2
  have hws : ∀ b ∈ List.replicate k c, byteIsSpace T b = true := by
    intro b hb
    rw [List.eq_of_mem_replicate hb]; exact hc
  have hlen : (List.replicate k c).length = k := List.length_replicate
  have H' : PosSh g (List.replicate k c).length txt (List.replicate k c ++ txt) := by
    rw [hlen]; exact H
  have := parse_wsg T txt (List.replicate k c) hws H' hbom hdecl hbom' hdecl' opt
  rw [hlen] at this
  exact this

/-- `parse_shift_err` for every input whose first byte, if any, starts a character -/
theorem parse_shift_err_head (T : Tables) (hsp : byteIsSpace T 32 = true) (txt : Bytes) (opt : Opt)
    (e : Err) (k : Nat) (hh : HeadOk txt) (hbom : Stream.startsWith ⟨0, txt⟩ Lit.bom = false)
    (hdecl : Stream.startsWithXmlDecl T ⟨0, txt⟩ = false)
    (h : parse T txt opt = .err e) :
    parse T (List.replicate k 32 ++ txt) opt = .err (e.mapPos (shPosSp k)) :=
  (parse_rep T 32 hsp (by decide) (by decide) txt opt k _ (posSh_sp k txt hh) hbom hdecl).2 e h

/-- `parse_shift_err_nl` for every input whose first byte, if any, starts a character -/
theorem parse_shift_err_nl_head (T : Tables) (hnl : byteIsSpace T 10 = true) (txt : Bytes) (opt : Opt)
    (e : Err) (k : Nat) (hh : HeadOk txt) (hbom : Stream.startsWith ⟨0, txt⟩ Lit.bom = false)
    (hdecl : Stream.startsWithXmlDecl T ⟨0, txt⟩ = false)
    (h : parse T txt opt = .err e) :
    parse T (List.replicate k 10 ++ txt) opt = .err (e.mapPos (shPosNl k)) :=
  (parse_rep T 10 hnl (by decide) (by decide) txt opt k _ (posSh_nl k txt hh) hbom hdecl).2 e h

theorem headOk_of_valid (txt : Bytes) (hv : ValidUtf8 txt) : HeadOk txt := by
  intro b r h
  subst h
  exact valid_head b r hv

/-- **Errors move with the text, spaces** (every rejected input — a `&str`, so valid UTF-8 — that
does not begin with a BOM or an XML declaration, every `k`, every option value): with `k` spaces in
front the same error is returned — same kind, same payload — and its position is `k` columns
further right if it was on the first line, unchanged otherwise. -/
theorem parse_shift_err (T : Tables) (hsp : byteIsSpace T 32 = true) (txt : Bytes) (hv : ValidUtf8 txt)
    (opt : Opt) (e : Err) (k : Nat) (hbom : Stream.startsWith ⟨0, txt⟩ Lit.bom = false)
    (hdecl : Stream.startsWithXmlDecl T ⟨0, txt⟩ = false)
    (h : parse T txt opt = .err e) :
    parse T (List.replicate k 32 ++ txt) opt = .err (e.mapPos (shPosSp k)) :=
  parse_shift_err_head T hsp txt opt e k (headOk_of_valid txt hv) hbom hdecl h

/-- **Errors move with the text, line breaks**: with `k` line feeds in front the same error is
returned with its row increased by `k`. -/
theorem parse_shift_err_nl (T : Tables) (hnl : byteIsSpace T 10 = true) (txt : Bytes)
    (hv : ValidUtf8 txt) (opt : Opt)
    (e : Err) (k : Nat) (hbom : Stream.startsWith ⟨0, txt⟩ Lit.bom = false)
    (hdecl : Stream.startsWithXmlDecl T ⟨0, txt⟩ = false)
    (h : parse T txt opt = .err e) :
    parse T (List.replicate k 10 ++ txt) opt = .err (e.mapPos (shPosNl k)) :=
  parse_shift_err_nl_head T hnl txt opt e k (headOk_of_valid txt hv) hbom hdecl h

/-- **Shift equivariance of accepted documents, line breaks**. -/
theorem parse_shift_nl (T : Tables) (hnl : byteIsSpace T 10 = true) (txt : Bytes) (opt : Opt) (d : Doc)
    (k : Nat) (hbom : Stream.startsWith ⟨0, txt⟩ Lit.bom = false)
    (hdecl : Stream.startsWithXmlDecl T ⟨0, txt⟩ = false)
    (h : parse T txt opt = .ok d) :
    parse T (List.replicate k 10 ++ txt) opt = .ok (shiftDoc k opt.positions d) := by
  have hbom' : Stream.startsWith ⟨0, List.replicate k 10 ++ txt⟩ Lit.bom = false := by
    cases k with
    | zero => simpa using hbom
    | succ k => simp [Stream.startsWith, Lit.bom, List.replicate_succ, List.isPrefixOf]
  have hdecl' : Stream.startsWithXmlDecl T ⟨0, List.replicate k 10 ++ txt⟩ = false := by
    cases k with
    | zero => simpa using hdecl
    | succ k => simp [Stream.startsWithXmlDecl, Stream.startsWith, Lit.xmlDeclOpen, List.replicate_succ,
        List.isPrefixOf]
  have hws : ∀ b ∈ List.replicate k (10 : UInt8), byteIsSpace T b = true := by
    intro b hb
    rw [List.eq_of_mem_replicate hb]; exact hnl
  unfold parse at h ⊢
  rw [Res.bind_eq_ok] at h
  obtain ⟨c, hc, h⟩ := h
  simp only [pure, Res.ok.injEq] at h
  subst h
  obtain ⟨hinv, hc'⟩ :=
    ShiftWs.parseCtx_wsg T txt (List.replicate k 10) hws hbom hdecl hbom' hdecl' opt depthFuel c hc
  rw [hc']
  simp only [Res.bind_ok, pure, Res.ok.injEq, shC_doc, List.length_replicate]
  rw [hinv.2]

end Lemmas
end Rox
