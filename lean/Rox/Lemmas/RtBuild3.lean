/-
  Rox.Lemmas.RtBuild3 — the builder on a document whose content is routed through an entity: fed
  with the tokens of the hoisted document (`hoistToks`), expanding the reference by re-entering the
  tokenizer on the entity's value, it builds exactly the arena of the inline document.
-/
import Rox.Spec.Canon3
import Rox.Lemmas.RtBuild2
import Rox.Lemmas.LdRefine
import Rox.Lemmas.EntFrame

namespace Rox.Lemmas
open Rox Rox.Spec.Canon

namespace RtB3
open RtB RtB2

section ref
variable (T : Tables) (txt : Bytes)

theorem consumeName_e (hC3 : TablesCanon3 T) (p : Nat) :
    Stream.consumeName T txt ⟨p, [101, 59]⟩ = .ok (⟨p + 1, [59]⟩, ⟨p, [101]⟩) := by
  have h1 : decodeChar [101, 59] = some (101, 1) := by decide
  have h2 : decodeChar [59] = some (59, 1) := by decide
  have h3 : charIsNameStart T 101 = true := hC3.lower_nameStartC 101 (by decide)
  have h4 : charIsName T 59 = false := hC3.semi_not_nameC
  simp [Stream.consumeName, Stream.skipName, Stream.skipNameTail, h1, h2, h3, h4]

theorem consumeReference_e (hC3 : TablesCanon3 T) (q : Nat) :
    Stream.consumeReference T txt ⟨q, [38, 101, 59]⟩ =
      .ok (⟨q + 3, []⟩, some (.entity ⟨q + 1, [101]⟩)) := by
  have h1 : Stream.tryConsumeByte ⟨q, [38, 101, 59]⟩ bAmp = (⟨q + 1, [101, 59]⟩, true) := by
    simp [Stream.tryConsumeByte, bAmp]
  have h2 : Stream.tryConsumeByte ⟨q + 1, [101, 59]⟩ bHash = (⟨q + 1, [101, 59]⟩, false) := by
    simp [Stream.tryConsumeByte, bHash]
  unfold Stream.consumeReference
  simp only [h1, h2, Bool.not_true, Bool.false_eq_true, if_false]
  unfold Stream.namedRef
  rw [consumeName_e T txt hC3 (q + 1)]
  have e1 : (([101] : Bytes) == Lit.quot) = false := by decide
  have e2 : (([101] : Bytes) == Lit.amp) = false := by decide
  have e3 : (([101] : Bytes) == Lit.apos) = false := by decide
  have e4 : (([101] : Bytes) == Lit.lt) = false := by decide
  have e5 : (([101] : Bytes) == Lit.gt) = false := by decide
  simp only [e1, e2, e3, e4, e5, Bool.false_eq_true, if_false, Stream.finishRef, bSemi]
  simp

theorem parseNextChunk_e (hC3 : TablesCanon3 T) (q : Nat) (ents : List Entity) (e : Entity)
    (he : findEntity ents [101] = some e) :
    parseNextChunk T txt ents ⟨q, [38, 101, 59]⟩ = .ok (⟨q + 3, []⟩, .text e.value) := by
  unfold parseNextChunk
  have h : ((38 : UInt8) == bAmp) = true := by decide
  simp only [h, if_true, consumeReference_e T txt hC3 q, Res.bind_ok, he, Res.pure_eq]

end ref

section loop
variable (T : Tables) (txt : Bytes)

/-- the context in which the replacement text is processed -/
def enter (c : Ctx) : Ctx :=
  let c1 := { c with ld := c.ld }.log (.loop 0 true c.ld.depth c.ld.refs)
  let ld2 : LD := { c.ld with depth := c.ld.depth + 1 }
  let c2 := { c1 with ld := ld2 }.log (.loop 1 true ld2.depth ld2.refs)
  { c2 with tagName := {}, entityFloor := c2.parentPrefixes.length,
            maxDepth := max c2.maxDepth ld2.depth }

/-- the context after the replacement text has been processed (`c3`), back at the reference -/
def leave (c c3 : Ctx) : Ctx :=
  let c4 := { c3 with entityFloor := c.entityFloor, tagName := c.tagName }
  let ld3 := c4.ld.decDepth
  { c4 with ld := ld3 }.log (.loop 2 true ld3.depth ld3.refs)

theorem flushBuffer_empty (c : Ctx) (r : Range) : flushBuffer c {} r = .ok c := rfl

theorem ptl_end (lower : Token → Ctx → Res Ctx) (range : Range) (f p : Nat) (buf : TextBuffer)
    (c : Ctx) : processTextLoop T txt lower range (f + 1) ⟨p, []⟩ buf c = .ok (buf, c) := by
  simp [processTextLoop, Stream.atEnd]

theorem ptl_ref (hC3 : TablesCanon3 T) (lower : Token → Ctx → Res Ctx) (range : Range)
    (f q : Nat) (c : Ctx) (e : Entity) (toks : List Token) (st : Stream)
    (hld : c.ld.depth = 0)
    (he : findEntity c.entities [101] = some e)
    (htc : tokenizeContent T txt e.value.off (e.value.off + e.value.bytes.length) = (toks, .ok st)) :
    processTextLoop T txt lower range (f + 2) ⟨q, [38, 101, 59]⟩ {} c =
      (runTokens lower toks (.ok st) (enter c) >>= fun c3 =>
        if c3.parentPrefixes.length != c3.entityFloor then .err .unexpectedEndOfStream
        else .ok ({}, leave c c3)) := by
  have h1 : c.ld.incRefs = some c.ld := by simp [LD.incRefs, hld]
  have h2 : c.ld.incDepth = some { c.ld with depth := c.ld.depth + 1 } := by
    simp [LD.incDepth, hld]
  have hend : ∀ c4, processTextLoop T txt lower range (f + 1) ⟨q + 3, []⟩ {} c4 = .ok ({}, c4) :=
    fun c4 => ptl_end T txt lower range f (q + 3) {} c4
  rw [processTextLoop]
  simp only [Stream.atEnd, List.isEmpty_cons, Bool.false_eq_true, if_false,
    parseNextChunk_e T txt hC3 q c.entities e he, Res.bind_ok, flushBuffer_empty, h1]
  dsimp only [Ctx.log]
  simp only [h2, Span.stop, htc, hend]
  rfl

end loop

/-! ### Frame facts: the loop detector's depth, the entity table -/

theorem incRefs_depth {ld ld1 : LD} (h : ld.incRefs = some ld1) : ld1.depth = ld.depth := by
  unfold LD.incRefs at h
  split at h
  · simp only [Option.some.injEq] at h; subst h; rfl
  · split at h
    · simp at h
    · simp only [Option.some.injEq] at h; subst h; rfl

theorem incDepth_depth {ld ld1 : LD} (h : ld.incDepth = some ld1) : ld1.depth = ld.depth + 1 := by
  unfold LD.incDepth at h
  split at h
  · simp only [Option.some.injEq] at h; subst h; rfl
  · simp at h

theorem decDepth_depth (ld : LD) (h : 1 ≤ ld.depth) : ld.decDepth.depth = ld.depth - 1 := by
  unfold LD.decDepth
  split
  · rfl
  · show 0 = _
    omega

open Rox.Spec in
theorem walk_depth : ∀ (f : Forest) (ld ld' : LD), walk ld f = some ld' → ld'.depth = ld.depth := by
  intro f
  induction f with
  | nil => intro ld ld' h; simp only [walk, Option.some.injEq] at h; subst h; rfl
  | cons k r ihk ihr =>
    intro ld ld' h
    simp only [walk] at h
    cases ha : ld.incRefs with
    | none => simp [ha] at h
    | some lda =>
      simp only [ha] at h
      cases hb : lda.incDepth with
      | none => simp [hb] at h
      | some ldb =>
        simp only [hb] at h
        cases hc : walk ldb k with
        | none => simp [hc] at h
        | some ldc =>
          simp only [hc] at h
          have e1 := incRefs_depth ha
          have e2 := incDepth_depth hb
          have e3 := ihk _ _ hc
          have e4 := ihr _ _ h
          have e5 := decDepth_depth ldc (by omega)
          omega

theorem walks_depth {ld ld' : LD} (h : Walks ld ld') : ld'.depth = ld.depth := by
  obtain ⟨f, hf⟩ := h
  exact walk_depth f _ _ hf

theorem attrToks_noDecl : ∀ (as : List (Bytes × Bytes)) (p : Nat), ∀ t ∈ attrToks p as,
    t.isEntityDecl = false
  | [], _, t, h => by simp [attrToks] at h
  | (n, v) :: r, p, t, h => by
    simp only [attrToks, List.mem_cons] at h
    rcases h with rfl | h
    · rfl
    · exact attrToks_noDecl r _ t h

mutual
  theorem toks_noDecl : ∀ (k : XNode) (p : Nat), ∀ t ∈ toks p k, t.isEntityDecl = false
    | .elem n as ks, p, t, h => by
      simp only [toks, List.mem_append, List.mem_singleton] at h
      rcases h with (((rfl | h) | rfl) | h) | rfl
      · rfl
      · exact attrToks_noDecl as _ t h
      · rfl
      · exact toksAll_noDecl ks _ t h
      · rfl
    | .comment c, p, t, h => by
      simp only [toks, List.mem_singleton] at h; subst h; rfl
    | .text b, p, t, h => by
      simp only [toks, List.mem_singleton] at h; subst h; rfl
  theorem toksAll_noDecl : ∀ (ks : List XNode) (p : Nat), ∀ t ∈ toksAll p ks, t.isEntityDecl = false
    | [], _, t, h => by simp [toksAll] at h
    | k :: ks, p, t, h => by
      simp only [toksAll, List.mem_append] at h
      rcases h with h | h
      · exact toks_noDecl k _ t h
      · exact toksAll_noDecl ks _ t h
end

/-! ### The canonical tokens present the document -/

theorem attrToks_rel : ∀ (as : List (Bytes × Bytes)) (p : Nat), AttrToks as (attrToks p as)
  | [], _ => .nil
  | (n, v) :: r, p => by
    simp only [attrToks]
    exact .cons n v _ _ _ _ _ _ (attrToks_rel r _)

mutual
  theorem tokFor_toks : ∀ (k : XNode) (p : Nat), TokFor k (toks p k)
    | .elem n as ks, p => by
      simp only [toks]
      exact .elemOpen n _ _ _ _ _ _ _ (attrToks_rel as _) (tokForAll_toksAll ks _)
    | .comment c, p => by simp only [toks]; exact .comment c _ _
    | .text b, p => by simp only [toks]; exact .text b _ _
  theorem tokForAll_toksAll : ∀ (ks : List XNode) (p : Nat), TokForAll ks (toksAll p ks)
    | [], _ => by simp only [toksAll]; exact .nil
    | k :: ks, p => by
      simp only [toksAll]
      exact .cons (tokFor_toks k p) (tokForAll_toksAll ks _)
end

/-! ### Lists of children: append -/

theorem okAll_app : ∀ (a b : List XNode), okAll (a ++ b) = true → okAll a = true ∧ okAll b = true
  | [], b, h => ⟨rfl, by simpa using h⟩
  | k :: a, b, h => by
    simp only [List.cons_append, okAll, Bool.and_eq_true] at h ⊢
    obtain ⟨h1, h2⟩ := okAll_app a b h.2
    exact ⟨⟨h.1, h1⟩, h2⟩

theorem noAdj_tl {k : XNode} {ks : List XNode} (h : noAdjText (k :: ks) = true) :
    noAdjText ks = true := by
  cases ks with
  | nil => rfl
  | cons k2 r =>
    simp only [noAdjText, Bool.and_eq_true] at h
    exact h.2

theorem noAdj_app : ∀ (a b : List XNode), noAdjText (a ++ b) = true →
    noAdjText a = true ∧ noAdjText b = true
  | [], b, h => ⟨rfl, by simpa using h⟩
  | [k], b, h => ⟨rfl, noAdj_tl (by simpa using h)⟩
  | k :: k' :: a, b, h => by
    simp only [List.cons_append, noAdjText, Bool.and_eq_true] at h
    obtain ⟨h1, h2⟩ := noAdj_app (k' :: a) b (by simpa using h.2)
    refine ⟨?_, h2⟩
    simp only [noAdjText, Bool.and_eq_true]
    exact ⟨h.1, h1⟩

theorem countAll_app : ∀ (a b : List XNode), countAll (a ++ b) = countAll a + countAll b
  | [], b => by simp [countAll]
  | k :: a, b => by simp only [List.cons_append, countAll, countAll_app a b]; omega

theorem attrCountAll_app : ∀ (a b : List XNode),
    attrCountAll (a ++ b) = attrCountAll a + attrCountAll b
  | [], b => by simp [attrCountAll]
  | k :: a, b => by simp only [List.cons_append, attrCountAll, attrCountAll_app a b]; omega

theorem expectAll_app (P : Nat) : ∀ (a b : List XNode) (id : Nat),
    expectAll P id (a ++ b) = expectAll P id a ++ expectAll P (id + countAll a) b
  | [], b, id => by simp [expectAll, countAll]
  | k :: a, b, id => by
    simp only [List.cons_append, expectAll, countAll, expectAll_app P a b, List.append_assoc,
      Nat.add_assoc]

/-! ### `build_all2`, also saying that no text run is open after a list not ending in a text -/

section all3
variable (T : Tables) (txt : Bytes) (lower : Token → Ctx → Res Ctx)
  (hlower : ∀ t c c', BInv c → lower t c = .ok c' → BInv c')
include hlower

set_option linter.unusedSectionVars false in
theorem build_all3 (s : Nat) : ∀ (ks : List XNode) (ts : List Token) (c : Ctx), TokForAll ks ts →
    okAll ks = true →
    noAdjText ks = true → Inv s c →
    (∀ k r, ks = k :: r → isText k = true → c.afterText = []) →
    c.doc.nodes.size + countAll ks ≤ c.nodesLimit →
    c.doc.attrs.size + attrCountAll ks < 4294967295 →
    ∃ c', feed (tokenStep T txt lower) ts c = .ok c' ∧
      Built s c c' (countAll ks) (attrCountAll ks) (expectAll c.parentId c.doc.nodes.size ks) ∧
      (lastIsText ks = false → (ks = [] → c.afterText = []) → c'.afterText = [])
  | [], ts, c, hrel, _, _, hi, _, _, _ => by
    have := tokForAll_nil_inv hrel
    subst this
    refine ⟨c, rfl, ?_, fun _ h => h rfl⟩
    simp only [countAll, attrCountAll, expectAll]
    exact Built.refl hi
  | k :: ks, ts, c, hrel, hok, hadj, hi, hat, hroom, haroom => by
    simp only [okAll, Bool.and_eq_true] at hok
    simp only [countAll] at hroom
    simp only [attrCountAll] at haroom
    obtain ⟨t1, t2, hr1, hr2, rfl⟩ := tokForAll_cons_inv hrel
    obtain ⟨c1, h1, hB1, hat1⟩ :=
      build_node2 T txt lower hlower s k t1 c hr1 hok.1 hi (hat k ks rfl) (by omega) (by omega)
    obtain ⟨c2, h2, hB2, hat2⟩ := build_all3 s ks t2 c1 hr2 hok.2 (noAdj_tl hadj) hB1.inv
      (by
        intro k2 r hks ht2
        subst hks
        simp only [noAdjText, Bool.and_eq_true, Bool.not_eq_true', Bool.and_eq_false_iff] at hadj
        rcases hadj.1 with h | h
        · exact hat1 h
        · rw [ht2] at h; cases h)
      (by rw [hB1.size, hB1.lim]; omega) (by rw [hB1.asize]; omega)
    rw [hB1.pid, hB1.size] at hB2
    simp only [countAll, attrCountAll, expectAll]
    refine ⟨c2, feed_append_ok _ _ _ _ _ h1 h2, hB1.trans hB2, ?_⟩
    intro hl _
    cases ks with
    | nil =>
      apply hat2 rfl
      intro _
      apply hat1
      simpa [lastIsText] using hl
    | cons k2 r =>
      apply hat2
      · simpa [lastIsText] using hl
      · intro h; cases h

end all3

/-! ### The reference token -/

section refstep
variable (T : Tables) (txt : Bytes) (lower2 : Token → Ctx → Res Ctx)
  (hlower2 : ∀ t c c', BInv c → lower2 t c = .ok c' → BInv c')
include hlower2

theorem step_ref (hC3 : TablesCanon3 T) (s q : Nat) (c : Ctx) (e : Entity) (mid : List XNode)
    (st : Stream) (hi : Inv s c) (hat : c.afterText = []) (hld : c.ld.depth = 0)
    (he : findEntity c.entities [101] = some e)
    (href : sliceBytes txt q (q + 3) = litRef)
    (hval : tokenizeContent T txt e.value.off (e.value.off + e.value.bytes.length) =
      (toksAll e.value.off mid, .ok st))
    (hok : okAll mid = true) (hadj : noAdjText mid = true)
    (hroom : c.doc.nodes.size + countAll mid ≤ c.nodesLimit)
    (haroom : c.doc.attrs.size + attrCountAll mid < 4294967295) :
    ∃ c', tokenStep T txt (tokenStep T txt lower2) (.text ⟨q, litRef⟩ (q, q + 3)) c = .ok c' ∧
      Built s c c' (countAll mid) (attrCountAll mid) (expectAll c.parentId c.doc.nodes.size mid) := by
  obtain ⟨cl, hcl⟩ : ∃ cl, cl = c.log (.token (.text ⟨q, litRef⟩ (q, q + 3))) := ⟨_, rfl⟩
  have hi' : Inv s (enter cl) := by
    subst hcl
    exact ⟨hi.binv.congr rfl rfl rfl, hi.lim, hi.cur, hi.ns1, hi.ns2, Nat.le_refl _, hi.at1, hi.good⟩
  obtain ⟨c3, hf, hB⟩ := build_all2 T txt lower2 hlower2 s mid (toksAll e.value.off mid) (enter cl)
    (tokForAll_toksAll mid _) hok hadj hi' (fun _ _ _ _ => by subst hcl; exact hat)
    (by subst hcl; exact hroom) (by subst hcl; exact haroom)
  have hp := ptl_ref T txt hC3 (tokenStep T txt lower2) (q, q + 3) 2 q cl e _ st
    (by subst hcl; exact hld) (by subst hcl; exact he) hval
  have hne : (c3.parentPrefixes.length != c3.entityFloor) = false := by
    rw [hB.pp, hB.fl]
    show ((enter cl).parentPrefixes.length != (enter cl).parentPrefixes.length) = false
    simp
  refine ⟨leave cl c3, ?_, ?_⟩
  · unfold tokenStep
    dsimp only
    unfold processText
    have hany : (litRef.any fun b => b == bAmp || b == bCR) = true := by decide
    simp only [hany, Bool.not_true, Bool.false_eq_true, if_false, Stream.ofRange, href]
    rw [← hcl]
    have h4 : litRef.length + 1 = 2 + 2 := rfl
    rw [h4]
    show (processTextLoop T txt (tokenStep T txt lower2) (q, q + 3) (2 + 2) ⟨q, [38, 101, 59]⟩ {} cl
      >>= fun x => flushBuffer x.2 x.1 (q, q + 3)) = _
    rw [hp]
    unfold runTokens
    rw [hf]
    simp only [Res.bind_ok, hne, Bool.false_eq_true, if_false, flushBuffer_empty]
  · subst hcl
    refine ⟨⟨hB.inv.binv.congr rfl rfl rfl, hB.inv.lim, hB.inv.cur, hB.inv.ns1, hB.inv.ns2, ?_,
      hB.inv.at1, hB.inv.good⟩, hB.pid, hB.pp, rfl, hB.lim, id, hB.size, hB.asize, hB.grow⟩
    show c.entityFloor ≤ c3.parentPrefixes.length
    rw [hB.pp]
    exact hi.floor

end refstep

/-! ### An element whose children are fed by a given procedure that may look at how the context
after the start tag was reached -/

section elem3
variable (T : Tables) (txt : Bytes) (lower : Token → Ctx → Res Ctx)
  (hlower : ∀ t c c', BInv c → lower t c = .ok c' → BInv c')
include hlower

theorem build_elem_open3 (s : Nat) (c : Ctx) (n : Bytes) (as : List (Bytes × Bytes)) (ks : List XNode)
    (o1 o2 st o3 o4 : Nat) (r1 r2 : Range) (ats kts : List Token) (hats : AttrToks as ats)
    (ih : ∀ (c3 : Ctx),
      feed (tokenStep T txt lower)
        (Token.elementStart ⟨o1, []⟩ ⟨o2, n⟩ st :: ats ++ [Token.elementEnd .open r1]) c = .ok c3 →
      Inv s c3 → c3.afterText = [] →
      c3.doc.nodes.size + countAll ks ≤ c3.nodesLimit →
      c3.doc.attrs.size + attrCountAll ks < 4294967295 →
      ∃ c', feed (tokenStep T txt lower) kts c3 = .ok c' ∧
        Built s c3 c' (countAll ks) (attrCountAll ks) (expectAll c3.parentId c3.doc.nodes.size ks))
    (hn : nameOk n = true) (has : attrsOk as = true) (hi : Inv s c)
    (hroom : c.doc.nodes.size + (1 + countAll ks) ≤ c.nodesLimit)
    (haroom : c.doc.attrs.size + (as.length + attrCountAll ks) < 4294967295) :
    ∃ c', feed (tokenStep T txt lower)
        ([Token.elementStart ⟨o1, []⟩ ⟨o2, n⟩ st] ++ ats ++ [Token.elementEnd .open r1] ++ kts ++
            [Token.elementEnd (.close ⟨o3, []⟩ ⟨o4, n⟩) r2]) c = .ok c' ∧
      Built s c c' (1 + countAll ks) (as.length + attrCountAll ks)
        (expect c.parentId c.doc.nodes.size (.elem n as ks)) ∧
      c'.afterText = [] := by
  have hn0 : n ≠ [] := by
    intro h; subst h; simp [nameOk] at hn
  have hnd : (as.map (·.1)).Nodup := by
    simp only [attrsOk, Bool.and_eq_true, decide_eq_true_eq] at has
    exact has.2
  -- start tag
  obtain ⟨c2, new, hs2, hb2, hc2, hpfx, hmap⟩ :=
    build_head T txt lower hlower s c n as o1 o2 st ats hats has hi
  have d2 : c2.doc = c.doc := congrArg Core.doc hc2
  have cur2 : c2.curAttrs = new := congrArg Core.curAttrs hc2
  have lim2 : c2.nodesLimit = c.nodesLimit := congrArg Core.nodesLimit hc2
  have at2 : c2.afterText = [] := congrArg Core.afterText hc2
  have tag2 : c2.tagName = ⟨[], n, ⟨o2, n⟩, st, st + 1⟩ := congrArg Core.tagName hc2
  have ns2 : c2.nsStartIdx = c.nsStartIdx := congrArg Core.nsStartIdx hc2
  have pid2 : c2.parentId = c.parentId := congrArg Core.parentId hc2
  have pp2 : c2.parentPrefixes = c.parentPrefixes := congrArg Core.parentPrefixes hc2
  have fl2 : c2.entityFloor = c.entityFloor := congrArg Core.entityFloor hc2
  have k2 : kps c2 = kps c := by unfold kps; rw [d2]
  have hnames : new.map (·.loc.bytes) = as.map (·.1) := by
    rw [← hmap, List.map_map]; rfl
  have hnewlen : new.length = as.length := by
    have := congrArg List.length hmap
    simpa using this
  obtain ⟨c3, hs3, rg, new3, hc3, hk3, hns3, hat3, hmap3, hrg, htake⟩ :=
    step_open T txt lower c2 s r1 o2 st n hn0 hb2 (by rw [lim2]; exact hi.lim)
      (by rw [lim2, d2]; omega) (by rw [at2]; simp) tag2 (by rw [ns2]; exact hi.ns1)
      (by rw [d2]; exact hi.ns2) (by rw [k2, d2]; exact hi.good) (by rw [cur2]; exact hpfx)
      (by rw [cur2, hnames]; exact hnd) (by rw [cur2, d2, hnewlen]; omega)
  have hb3 := binv_tokenStep T txt lower hlower _ c2 c3 hb2 hs3
  obtain ⟨hany, hvals⟩ := akey_split new3 c2.curAttrs hmap3
  have hvals' : new3.map (fun a => (a.localName.bytes, a.value.bytes)) = as := by
    rw [hvals, cur2]; exact hmap
  have hnew3len : new3.length = as.length := by
    have := congrArg List.length hvals'
    simpa using this
  have hview : viewKP c3.doc.attrs.toList
      (Kind.element none ⟨o2, n⟩ rg (s, s), some c2.parentId) =
      some (some c.parentId, XKind.elem n as) := by
    simp only [viewKP, htake, hany, hvals', pid2]
    rfl
  have d3n : c3.doc.nodes.size = c.doc.nodes.size + 1 := by
    have := congrArg List.length hk3
    rw [k2] at this
    simpa [kps_length] using this
  have d3a : c3.doc.attrs.size = c.doc.attrs.size + as.length := by
    have := congrArg List.length hat3
    rw [d2] at this
    simpa [hnew3len] using this
  have lim3 : c3.nodesLimit = c.nodesLimit := (congrArg Core.nodesLimit hc3).trans lim2
  have at3 : c3.afterText = [] := congrArg Core.afterText hc3
  have pid3 : c3.parentId = c.doc.nodes.size := by
    have : c3.parentId = c2.doc.nodes.size := congrArg Core.parentId hc3
    rw [this, d2]
  have pp3 : c3.parentPrefixes = [] :: c.parentPrefixes := by
    have : c3.parentPrefixes = [] :: c2.parentPrefixes := congrArg Core.parentPrefixes hc3
    rw [this, pp2]
  have tag3 : c3.tagName = c2.tagName := congrArg Core.tagName hc3
  have fl3 : c3.entityFloor = c.entityFloor := (congrArg Core.entityFloor hc3).trans fl2
  have hi3 : Inv s c3 := by
    refine ⟨hb3, by rw [lim3]; exact hi.lim, congrArg Core.curAttrs hc3, ?_, by rw [hns3, d2]; exact hi.ns2,
      by rw [fl3, pp3]; exact Nat.le_succ_of_le hi.floor, by rw [at3]; simp, ?_⟩
    · have : c3.nsStartIdx = c2.doc.ns.treeOrder.size := congrArg Core.nsStartIdx hc3
      rw [this, d2]; exact hi.ns2
    · intro x hx
      rw [hk3, k2] at hx
      rcases List.mem_append.mp hx with hx | hx
      · exact good_mono (hi.good x hx) (by rw [d3a]; omega)
      · simp only [List.mem_singleton] at hx
        subst hx
        exact ⟨hrg, rfl⟩
  have hfeed3 : feed (tokenStep T txt lower)
      (Token.elementStart ⟨o1, []⟩ ⟨o2, n⟩ st :: ats ++ [Token.elementEnd .open r1]) c = .ok c3 :=
    feed_append_ok _ _ c c2 c3 hs2 (by rw [feed_cons_ok hs3]; rfl)
  -- children
  obtain ⟨c4, hs4, hB4⟩ := ih c3 hfeed3 hi3 at3 (by rw [d3n, lim3]; omega) (by rw [d3a]; omega)
  obtain ⟨K4, more4, hk4, ha4, hv4⟩ := hB4.grow
  have hi4 := hB4.inv
  have pid4 : c4.parentId = c.doc.nodes.size := hB4.pid.trans pid3
  have hnode : (kps c4)[c.doc.nodes.size]? =
      some (Kind.element none ⟨o2, n⟩ rg (s, s), some c2.parentId) := by
    rw [hk4, hk3, k2]
    rw [List.getElem?_append_left (by simp [kps_length])]
    rw [List.getElem?_append_right (by simp [kps_length])]
    simp [kps_length]
  rw [kps_getElem?] at hnode
  obtain ⟨pn, hpn, hkp⟩ := Option.map_eq_some_iff.mp hnode
  simp only [kp, Prod.mk.injEq] at hkp
  have tag4 : c4.tagName.name ≠ [] := by
    apply hB4.tag
    rw [tag3, tag2]; exact hn0
  -- end tag
  obtain ⟨c5, hs5, hc5, hk5, ha5, hns5⟩ :=
    step_close T txt lower c4 s c.parentId r2 o3 o4 n c.parentPrefixes
      pn none ⟨o2, n⟩ rg (s, s) hi4.at1 tag4 hi4.ns1 hi4.ns2 hi4.cur
      (by rw [hB4.fl, fl3]; exact hi.floor) (hB4.pp.trans pp3)
      (by rw [pid4]; exact hpn) hkp.1 rfl rfl (by rw [hkp.2, pid2])
  have hb5 := binv_tokenStep T txt lower hlower _ c4 c5 hi4.binv hs5
  have at5 : c5.afterText = [] := congrArg Core.afterText hc5
  have lim5 : c5.nodesLimit = c.nodesLimit := (congrArg Core.nodesLimit hc5).trans (hB4.lim.trans lim3)
  have tag5 : c5.tagName = c4.tagName := congrArg Core.tagName hc5
  have fl5 : c5.entityFloor = c.entityFloor :=
    (congrArg Core.entityFloor hc5).trans (hB4.fl.trans fl3)
  have pp5 : c5.parentPrefixes = c.parentPrefixes := congrArg Core.parentPrefixes hc5
  have hi5 : Inv s c5 := by
    refine ⟨hb5, by rw [lim5]; exact hi.lim, (congrArg Core.curAttrs hc5).trans hi4.cur, ?_,
      by rw [hns5]; exact hi4.ns2, by rw [fl5, pp5]; exact hi.floor,
      by rw [at5]; simp, by rw [hk5, ha5]; exact hi4.good⟩
    have : c5.nsStartIdx = c4.doc.ns.treeOrder.size := congrArg Core.nsStartIdx hc5
    rw [this]; exact hi4.ns2
  refine ⟨c5, ?_, ⟨hi5, congrArg Core.parentId hc5, pp5, fl5, lim5,
    fun _ => by rw [tag5]; exact tag4, ?_, ?_, ?_⟩, at5⟩
  · refine feed_append_ok _ _ c c4 c5 ?_ (by rw [feed_cons_ok hs5]; rfl)
    refine feed_append_ok _ _ c c3 c4 ?_ hs4
    exact hfeed3
  · have h5 : c5.doc.nodes.size = c4.doc.nodes.size := by
      have := congrArg List.length hk5
      simpa [kps_length] using this
    rw [h5, hB4.size, d3n]; omega
  · rw [ha5, hB4.asize, d3a]; omega
  · refine ⟨(Kind.element none ⟨o2, n⟩ rg (s, s), some c2.parentId) :: K4, new3 ++ more4, ?_, ?_, ?_⟩
    · rw [hk5, hk4, hk3, k2]; simp
    · rw [ha5, ha4, hat3, d2]; simp
    · rw [expect, List.map_cons, List.map_cons, ha5]
      congr 1
      · rw [ha4, viewKP_stable s c3.doc.attrs.toList more4
          (Kind.element none ⟨o2, n⟩ rg (s, s), some c2.parentId) ⟨by simpa using hrg, rfl⟩]
        exact hview
      · rw [hv4, pid3, d3n]

end elem3

theorem initCtx_frame (txt : Bytes) (opt : Opt) (c : Ctx) (h : initCtx txt opt = .ok c) :
    c.ld.depth = 0 ∧ c.entities = [] := by
  unfold initCtx at h
  rw [Res.bind_eq_ok] at h
  obtain ⟨ns, _, h⟩ := h
  res_norm at h
  subst h
  exact ⟨rfl, rfl⟩

end RtB3

open RtB RtB2 RtB3

/-- **Builder, hoisted document**: if the tokenizer delivered `hoistToks` for the document, and
re-entered on the entity's value it delivers the tokens of the moved children, and the text at the
reference's offset is `&e;`, then `parse` (with `allow_dtd = true`) succeeds and the arena read
back is the root followed by the nodes of the INLINE document `<n as>pre mid post</n>`. -/
theorem parse_of_hoistToks (T : Tables) (hC : TablesCanon T) (hC3 : TablesCanon3 T)
    (txt : Bytes) (opt : Opt) (hdtd : opt.allowDtd = true)
    (n : Bytes) (as : List (Bytes × Bytes)) (pre mid post : List XNode)
    (hx : hoistOk n as pre mid post = true)
    (htok : tokenize T txt true = (hoistToks n as pre mid post, .ok ()))
    (hval : tokenizeContent T txt (valueOff n) (valueOff n + (renderAll mid).length) =
      (toksAll (valueOff n) mid, .ok ⟨valueOff n + (renderAll mid).length, []⟩))
    (href : sliceBytes txt (refOff n as pre mid) (refOff n as pre mid + 3) = litRef)
    (hlim : count (.elem n as (pre ++ mid ++ post)) + 1 ≤ opt.nodesLimit)
    (hl32 : opt.nodesLimit ≤ 4294967295)
    (hattrs : attrCount (.elem n as (pre ++ mid ++ post)) < 4294967295) :
    ∃ d, parse T txt opt = .ok d ∧
      d.nodes.toList.map (view d) =
        some (none, XKind.root) :: (expect 0 1 (.elem n as (pre ++ mid ++ post))).map some := by
  have _ := hC
  -- the class conditions
  simp only [hoistOk, Bool.and_eq_true, Bool.not_eq_true'] at hx
  obtain ⟨⟨⟨hokx, hlast⟩, hfirst⟩, _⟩ := hx
  have hokx' := hokx
  simp only [ok, Bool.and_eq_true] at hokx'
  obtain ⟨⟨⟨hn, has⟩, hadj⟩, hks⟩ := hokx'
  obtain ⟨hks12, hokpost⟩ := okAll_app (pre ++ mid) post hks
  obtain ⟨hokpre, hokmid⟩ := okAll_app pre mid hks12
  obtain ⟨hadj12, hadjpost⟩ := noAdj_app (pre ++ mid) post hadj
  obtain ⟨hadjpre, hadjmid⟩ := noAdj_app pre mid hadj12
  -- start of `parse`
  obtain ⟨c0, h0, l0, ns0, ts0, cur0, fl0, at0, pid0, pp0, attrs0, k0, sz0⟩ := initCtx_ok txt opt
  obtain ⟨ld0, ent0⟩ := initCtx_frame txt opt c0 h0
  have hb0 : BInv c0 := binv_init txt opt c0 h0
  have hi0 : Inv 1 c0 := by
    refine ⟨hb0, by rw [l0]; exact hl32, cur0, ns0, ts0, by rw [fl0]; exact Nat.zero_le _,
      by rw [at0]; simp, ?_⟩
    intro x hx
    rw [k0] at hx
    simp only [List.mem_singleton] at hx
    subst hx
    trivial
  -- offsets
  obtain ⟨r, hr⟩ : ∃ r, r = rootOff n mid := ⟨_, rfl⟩
  obtain ⟨p2, hp2⟩ : ∃ p2, p2 = r + 1 + n.length + attrsLen as := ⟨_, rfl⟩
  obtain ⟨q, hq⟩ : ∃ q, q = refOff n as pre mid := ⟨_, rfl⟩
  obtain ⟨p3, hp3⟩ : ∃ p3, p3 = q + 3 + (renderAll post).length := ⟨_, rfl⟩
  obtain ⟨nm, hnm⟩ : ∃ nm : Span, nm = ⟨litDoctype.length + n.length + 11, [101]⟩ := ⟨_, rfl⟩
  obtain ⟨e, hedef⟩ : ∃ e : Entity, e = ⟨nm, ⟨valueOff n, renderAll mid⟩⟩ := ⟨_, rfl⟩
  have htoks : hoistToks n as pre mid post =
      Token.entityDecl nm ⟨valueOff n, renderAll mid⟩ ::
        ([Token.elementStart ⟨r + 1, []⟩ ⟨r + 1, n⟩ r] ++ attrToks (r + 1 + n.length) as ++
          [Token.elementEnd .open (p2, p2 + 1)] ++
          (toksAll (p2 + 1) pre ++ [Token.text ⟨q, litRef⟩ (q, q + 3)] ++ toksAll (q + 3) post) ++
          [Token.elementEnd (.close ⟨p3 + 2, []⟩ ⟨p3 + 2, n⟩) (p3, p3 + 3 + n.length)]) := by
    subst hp3; subst hq; subst hp2; subst hr; subst hnm
    simp only [hoistToks, List.append_assoc, List.cons_append, List.nil_append]
  rw [← hq] at href
  -- the entity declaration
  obtain ⟨c1, hc1⟩ : ∃ c1 : Ctx, c1 =
      { c0.log (.token (.entityDecl nm ⟨valueOff n, renderAll mid⟩)) with
        entities := c0.entities ++ [⟨nm, ⟨valueOff n, renderAll mid⟩⟩] } := ⟨_, rfl⟩
  have hs1 : tokenStep T txt (token T txt 11) (.entityDecl nm ⟨valueOff n, renderAll mid⟩) c0 =
      .ok c1 := by rw [hc1]; rfl
  have hi1 : Inv 1 c1 := by
    rw [hc1]
    exact ⟨hi0.binv.congr rfl rfl rfl, hi0.lim, hi0.cur, hi0.ns1, hi0.ns2, hi0.floor, hi0.at1,
      hi0.good⟩
  have ld1 : c1.ld.depth = 0 := by rw [hc1]; exact ld0
  have ent1 : findEntity c1.entities [101] = some e := by
    rw [hc1, hedef, hnm]
    show findEntity (c0.entities ++ _) [101] = _
    rw [ent0]
    rfl
  have doc1 : c1.doc = c0.doc := by rw [hc1]; rfl
  have pid1 : c1.parentId = 0 := by rw [hc1]; exact pid0
  have pp1 : c1.parentPrefixes = [[]] := by rw [hc1]; exact pp0
  have lim1 : c1.nodesLimit = opt.nodesLimit := by rw [hc1]; exact l0
  have hval' : tokenizeContent T txt e.value.off (e.value.off + e.value.bytes.length) =
      (toksAll e.value.off mid, .ok ⟨valueOff n + (renderAll mid).length, []⟩) := by
    rw [hedef]; exact hval
  -- the element
  have hstep12 : ∀ t c c', t.isEntityDecl = false →
      tokenStep T txt (token T txt 11) t c = .ok c' → EntOk c c' :=
    fun t c c' hk h => token_entOk T txt 12 t c c' hk h
  have hwalk12 : ∀ t c c', tokenStep T txt (token T txt 11) t c = .ok c' → Walks c.ld c'.ld :=
    fun t c c' h => token_walk T txt 12 t c c' h
  simp only [count] at hlim
  simp only [attrCount] at hattrs
  obtain ⟨c5, hf5, hB, _⟩ := build_elem_open3 T txt (token T txt 11) (binv_token T txt 11) 1 c1 n as
    (pre ++ mid ++ post) (r + 1) (r + 1) r (p3 + 2) (p3 + 2) (p2, p2 + 1) (p3, p3 + 3 + n.length)
    (attrToks (r + 1 + n.length) as)
    (toksAll (p2 + 1) pre ++ [Token.text ⟨q, litRef⟩ (q, q + 3)] ++ toksAll (q + 3) post)
    (attrToks_rel as _)
    (by
      intro c3 hfeed3 hi3 at3 hroom3 haroom3
      rw [countAll_app, countAll_app] at hroom3
      rw [attrCountAll_app, attrCountAll_app] at haroom3
      -- the children before the reference
      obtain ⟨ca, hfa, hBa, hata⟩ := build_all3 T txt (token T txt 11) (binv_token T txt 11) 1 pre
        (toksAll (p2 + 1) pre) c3 (tokForAll_toksAll pre _) hokpre hadjpre hi3
        (fun _ _ _ _ => at3) (by omega) (by omega)
      have ata : ca.afterText = [] := hata hlast (fun _ => at3)
      have hfeeda := feed_append_ok _ _ c1 c3 ca hfeed3 hfa
      have hnd : ∀ t ∈ Token.elementStart ⟨r + 1, []⟩ ⟨r + 1, n⟩ r :: attrToks (r + 1 + n.length) as ++
          [Token.elementEnd .open (p2, p2 + 1)] ++ toksAll (p2 + 1) pre, t.isEntityDecl = false := by
        intro t ht
        simp only [List.cons_append, List.mem_cons, List.mem_append, List.not_mem_nil,
          or_false] at ht
        rcases ht with rfl | (h | rfl) | h
        · rfl
        · exact attrToks_noDecl as _ t h
        · rfl
        · exact toksAll_noDecl pre _ t h
      have enta : ca.entities = c1.entities := (feed_entOk _ hstep12 _ hnd c1 ca hfeeda).1
      have lda : ca.ld.depth = 0 := by
        rw [walks_depth (feed_walks _ hwalk12 _ c1 ca hfeeda)]; exact ld1
      -- the reference
      obtain ⟨cb, hsb, hBb⟩ := step_ref T txt (token T txt 10) (binv_token T txt 10) hC3 1 q ca e mid
        ⟨valueOff n + (renderAll mid).length, []⟩ hBa.inv ata lda (by rw [enta]; exact ent1) href
        hval' hokmid hadjmid (by rw [hBa.size, hBa.lim]; omega) (by rw [hBa.asize]; omega)
      have hsb' : tokenStep T txt (token T txt 11) (.text ⟨q, litRef⟩ (q, q + 3)) ca = .ok cb := hsb
      rw [hBa.pid, hBa.size] at hBb
      have hBab := hBa.trans hBb
      -- the children after the reference
      obtain ⟨cc, hfc, hBc⟩ := build_all2 T txt (token T txt 11) (binv_token T txt 11) 1 post
        (toksAll (q + 3) post) cb (tokForAll_toksAll post _) hokpost hadjpost hBab.inv
        (by
          intro k rr hks ht
          subst hks
          simp only [firstIsText] at hfirst
          rw [ht] at hfirst; cases hfirst)
        (by rw [hBab.size, hBab.lim]; omega) (by rw [hBab.asize]; omega)
      rw [hBab.pid, hBab.size] at hBc
      refine ⟨cc, ?_, ?_⟩
      · refine feed_append_ok _ _ c3 cb cc ?_ hfc
        refine feed_append_ok _ _ c3 ca cb hfa ?_
        rw [feed_cons_ok hsb']; rfl
      · rw [expectAll_app, expectAll_app, countAll_app, countAll_app, attrCountAll_app,
          attrCountAll_app]
        exact hBab.trans hBc)
    hn has hi1 (by rw [doc1, sz0, lim1]; omega) (by rw [doc1, attrs0]; simpa using hattrs)
  rw [pid1, doc1, sz0] at hB
  obtain ⟨K, more, hk, ha, hv⟩ := hB.grow
  have k1 : kps c1 = [(Kind.root, none)] := by
    have : kps c1 = kps c0 := by unfold kps; rw [doc1]
    rw [this, k0]
  have hrun : runTokens (token T txt depthFuel) (hoistToks n as pre mid post) (.ok ()) c0 = .ok c5 := by
    unfold runTokens
    have : token T txt depthFuel = tokenStep T txt (token T txt 11) := rfl
    rw [this, htoks, feed_cons_ok hs1, hf5]
  have hb5 : BInv c5 := hB.inv.binv
  have hhas : rootHasElement c5.doc = .ok true := by
    rw [expect, List.map_cons] at hv
    cases K with
    | nil => simp at hv
    | cons x K' =>
      simp only [List.map_cons, List.cons.injEq] at hv
      obtain ⟨he, hpar⟩ := viewKP_elem hv.1
      have hnode : (kps c5)[1]? = some x := by
        rw [hk, k1]; rfl
      rw [kps_getElem?] at hnode
      obtain ⟨n1, hn1, hkp⟩ := Option.map_eq_some_iff.mp hnode
      subst hkp
      exact rootHasElement_ok c5.doc hb5.wf n1 hn1 hpar he
  refine ⟨{ c5.doc with ns := { c5.doc.ns with sortedOrder := #[] } }, ?_, ?_⟩
  · unfold parse parseCtx
    rw [h0]
    simp only [Res.bind_ok]
    rw [hdtd, htok]
    simp only
    rw [hrun]
    simp only [Res.bind_ok]
    unfold finish
    rw [hhas]
    have : c5.parentPrefixes.length = 1 := by rw [hB.pp, pp1]; rfl
    simp [this]
  · have hview : ∀ (D : Doc), D.attrs = c5.doc.attrs →
        List.map (view D) c5.doc.nodes.toList = (kps c5).map (viewKP c5.doc.attrs.toList) := by
      intro D hD
      unfold kps
      rw [List.map_map]
      apply List.map_congr_left
      intro nd _
      rw [view_eq, hD]; rfl
    refine (hview _ rfl).trans ?_
    rw [hk, k1, List.map_append, hv]
    rfl

end Rox.Lemmas
